(* C17: the capacity bookkeeping of the model (ew_cap / dw_cap / dw_bits are lower
   bounds of what the object owns; s_alloc says whether the last call had to grow a buffer). *)
From Coq Require Import NArith Lia Bool List FMapPositive.
From RS.Gen Require Import Prelude GenConsts.
From RS.Model Require Import Field Tables Sched Codec Layout Machine.
Import ListNotations.
Local Open Scope N_scope.

Definition enc_need (r : rate) (K R sb : N) : N := enc_work_count r K R * blocks_of sb.
Definition dec_need (r : rate) (K R sb : N) : N := dec_work_count r K R * blocks_of sb.
Definition dec_bits (r : rate) (K R : N) : N :=
  N.max ((match r with High => np2 R | Low => 0 end) + K) ((match r with High => 0 | Low => np2 K end) + R).

Lemma encwork_reset_alloc w r K R sb :
  snd (encwork_reset w r K R sb) = true <-> ew_cap w < enc_need r K R sb.
Proof. unfold encwork_reset, enc_need. cbn [snd]. apply N.ltb_lt. Qed.

Lemma encwork_reset_cap w r K R sb :
  ew_cap (fst (encwork_reset w r K R sb)) = N.max (ew_cap w) (enc_need r K R sb).
Proof. reflexivity. Qed.

Lemma decwork_reset_alloc w r K R sb :
  snd (decwork_reset w r K R sb) = true <->
  (dw_cap w < dec_need r K R sb \/ dw_bits w < dec_bits r K R).
Proof.
  unfold decwork_reset, dec_need, dec_bits. cbn [snd]. rewrite orb_true_iff, !N.ltb_lt. reflexivity.
Qed.

Lemma decwork_reset_cap w r K R sb :
  dw_cap (fst (decwork_reset w r K R sb)) = N.max (dw_cap w) (dec_need r K R sb) /\
  dw_bits (fst (decwork_reset w r K R sb)) = N.max (dw_bits w) (dec_bits r K R).
Proof. split; reflexivity. Qed.

(* what the objects and stashes of a state own *)
Definition held_enc (s : state) : N :=
  N.max (match s_enc s with Some x => ew_cap (e_work x) | None => 0 end)
        (match s_encwork s with Some w => ew_cap w | None => 0 end).

Definition is_config_op (o : op) : bool :=
  match o with
  | ENew _ _ _ _ _ | ENewW _ _ _ _ _ | EReset _ _ _ | DNew _ _ _ _ _ | DNewW _ _ _ _ _ | DReset _ _ _ => true
  | _ => false
  end.

Section A.
Variable junk : N -> N -> N -> N.

(* rounds never allocate: only new / reset can set the allocation flag *)
Theorem round_ops_no_alloc s o : is_config_op o = false -> s_alloc (fst (step junk s o)) = false.
Proof.
  intros H. unfold step. destruct o; try discriminate H; cbn;
  repeat match goal with
  | |- context [match ?x with _ => _ end] => destruct x eqn:?; cbn
  | |- context [let '(_, _) := ?x in _] => destruct x eqn:?; cbn
  end; reflexivity.
Qed.

(* reset allocates only if the configuration needs more than the object holds *)
Theorem enc_reset_alloc_only_if_needed s x K R sb :
  s_enc s = Some x -> s_alloc (fst (step junk s (EReset K R sb))) = true ->
  ew_cap (e_work x) < enc_need (rate_of (e_codec x) K R) K R sb.
Proof.
  intros Hx. unfold step. cbn. rewrite Hx. unfold enc_make.
  destruct (validateb _ _ _ _); cbn; [discriminate|].
  unfold enc_need. intros H. apply N.ltb_lt. exact H.
Qed.

Theorem dec_reset_alloc_only_if_needed s x K R sb :
  s_dec s = Some x -> s_alloc (fst (step junk s (DReset K R sb))) = true ->
  dw_cap (d_work x) < dec_need (rate_of (d_codec x) K R) K R sb \/
  dw_bits (d_work x) < dec_bits (rate_of (d_codec x) K R) K R.
Proof.
  intros Hx. unfold step. cbn. rewrite Hx. unfold dec_make.
  destruct (validateb _ _ _ _); cbn; [discriminate|].
  unfold dec_need, dec_bits. intros H. apply orb_true_iff in H. rewrite !N.ltb_lt in H. exact H.
Qed.

(* handing the working space to a new codec: same rule, with the stashed work *)
Theorem enc_neww_alloc_only_if_needed s w c e K R sb :
  c <> CRs -> s_encwork s = Some w -> s_alloc (fst (step junk s (ENewW c e K R sb))) = true ->
  ew_cap w < enc_need (rate_of c K R) K R sb.
Proof.
  intros Hc Hw. unfold step. destruct c; [congruence|..]; cbn; rewrite Hw; unfold enc_make;
  (destruct (validateb _ _ _ _); cbn; [discriminate|]);
  unfold enc_need; intros H; apply N.ltb_lt; exact H.
Qed.

(* what an encoder holds never shrinks: reset keeps or grows, rounds keep *)
Lemma enc_make_cap c e K R sb w x a : enc_make c e K R sb w = inl (x, a) ->
  ew_cap w <= ew_cap (e_work x) /\ (a = true <-> ew_cap w < enc_need (rate_of c K R) K R sb).
Proof.
  unfold enc_make. destruct (validateb c K R sb); [discriminate|]. cbn. intros [= <- <-]. cbn.
  split; [lia|]. unfold enc_need. apply N.ltb_lt.
Qed.
Lemma enc_add_cap x shard x' : enc_add x shard = inl x' -> ew_cap (e_work x') = ew_cap (e_work x).
Proof.
  unfold enc_add. destruct (_ =? _); [discriminate|]. destruct (negb _); [discriminate|].
  intros [= <-]. reflexivity.
Qed.
Lemma enc_encode_cap ep x probes : ew_cap (e_work (fst (enc_encode junk ep x probes))) = ew_cap (e_work x).
Proof. unfold enc_encode. destruct (negb _); reflexivity. Qed.

Lemma dec_make_cap c e K R sb w x a : dec_make c e K R sb w = inl (x, a) ->
  dw_cap w <= dw_cap (d_work x) /\ dw_bits w <= dw_bits (d_work x) /\
  (a = true <-> dw_cap w < dec_need (rate_of c K R) K R sb \/ dw_bits w < dec_bits (rate_of c K R) K R).
Proof.
  unfold dec_make. destruct (validateb c K R sb); [discriminate|]. cbn. intros [= <- <-]. cbn.
  split; [lia|]. split; [lia|]. unfold dec_need, dec_bits. rewrite orb_true_iff, !N.ltb_lt. reflexivity.
Qed.
End A.

(* ---------- histories (C17): what an object holds is monotone along any calls that keep it ---------- *)
Definition enc_obj_cap (s : state) : N :=
  match s_enc s with Some x => ew_cap (e_work x) | None => 0 end.
Definition dec_obj_cap (s : state) : N :=
  match s_dec s with Some x => dw_cap (d_work x) | None => 0 end.
Definition dec_obj_bits (s : state) : N :=
  match s_dec s with Some x => dw_bits (d_work x) | None => 0 end.
(* calls that keep the encoder / decoder object (everything except constructing a new one
   or taking it apart) *)
Definition keeps_enc (o : op) : bool :=
  match o with ENew _ _ _ _ _ | ENewW _ _ _ _ _ | EParts => false | _ => true end.
Definition keeps_dec (o : op) : bool :=
  match o with DNew _ _ _ _ _ | DNewW _ _ _ _ _ | DParts => false | _ => true end.

Section H.
Variable junk : N -> N -> N -> N.

Definition steps (s : state) (ops : list op) : state := fold_left (fun s o => fst (step junk s o)) ops s.

Lemma run_steps ops : forall s acc,
  fst (fold_left (fun '(s, acc) o => let '(s', r) := step junk s o in (s', acc ++ [r])) ops (s, acc)) = steps s ops.
Proof.
  induction ops as [|o ops IH]; intros s acc; [reflexivity|].
  cbn [fold_left steps]. destruct (step junk s o) as [s' r] eqn:E. rewrite IH. cbn [fst]. reflexivity.
Qed.
Lemma run_is_steps s ops : fst (run junk s ops) = steps s ops.
Proof. apply run_steps. Qed.

Lemma step_enc_cap_mono s o : keeps_enc o = true ->
  enc_obj_cap s <= enc_obj_cap (fst (step junk s o)) /\
  (s_enc s <> None -> s_enc (fst (step junk s o)) <> None).
Proof.
  intros H. unfold step, enc_obj_cap. destruct o; try discriminate H; cbn.
  - (* EReset *) destruct (s_enc s) as [x|] eqn:Hx; cbn; [|rewrite Hx; split; [lia|congruence]].
    destruct (enc_make _ _ _ _ _ _) as [[x' a]|err] eqn:E; cbn.
    + apply (enc_make_cap) in E. split; [lia|congruence].
    + rewrite Hx. split; [lia|congruence].
  - (* EAdd *) destruct (s_enc s) as [x|] eqn:Hx; cbn; [|rewrite Hx; split; [lia|congruence]].
    destruct (enc_add x shard) as [x'|err] eqn:E; cbn.
    + apply enc_add_cap in E. split; [lia|congruence].
    + rewrite Hx. split; [lia|congruence].
  - (* EEncode *) destruct (s_enc s) as [x|] eqn:Hx; cbn; [|rewrite Hx; split; [lia|congruence]].
    pose proof (enc_encode_cap junk (s_epoch s) x probes) as Hc.
    destruct (enc_encode junk (s_epoch s) x probes) as [x' r] eqn:E. cbn [fst] in Hc.
    destruct r; cbn; rewrite ?Hx; split; try lia; congruence.
  - destruct (dec_make _ _ _ _ _ _) as [[x' a]|err]; cbn; split; try lia; auto.
  - destruct c; cbn; destruct (dec_make _ _ _ _ _ _) as [[x' a]|err]; cbn; split; try lia; auto.
  - destruct (s_dec s); cbn; split; try lia; auto.
  - destruct (s_dec s); cbn; [destruct (dec_make _ _ _ _ _ _) as [[x' a]|err]|]; cbn; split; try lia; auto.
  - destruct (s_dec s); cbn; [destruct (dec_add_original _ _ _)|]; cbn; split; try lia; auto.
  - destruct (s_dec s); cbn; [destruct (dec_add_recovery _ _ _)|]; cbn; split; try lia; auto.
  - destruct (s_dec s); cbn; [destruct (dec_decode _ _ _ _) as [x' r]; destruct r|]; cbn; split; try lia; auto.
  - split; [lia|auto].
  - split; [lia|auto].
  - destruct (oneshot_encode _ _ _ _ _); cbn; split; try lia; auto.
  - destruct (oneshot_decode _ _ _ _ _ _); cbn; split; try lia; auto.
Qed.

Lemma steps_enc_cap_mono ops : forall s, forallb keeps_enc ops = true ->
  enc_obj_cap s <= enc_obj_cap (steps s ops) /\ (s_enc s <> None -> s_enc (steps s ops) <> None).
Proof.
  induction ops as [|o ops IH]; intros s H; [split; [cbn; lia|auto]|].
  cbn [forallb] in H. apply andb_true_iff in H. destruct H as [Ho Hops].
  cbn [steps fold_left]. destruct (step_enc_cap_mono s o Ho) as [H1 H2].
  destruct (IH (fst (step junk s o)) Hops) as [H3 H4]. unfold steps in *. split; [lia|auto].
Qed.

(* the history statement: once an encoder object holds working space for a configuration,
   then after ANY further calls that keep the object (rounds, resets - failed or not - to any
   configurations, decoder traffic, one-shot calls) a reset to any configuration needing no
   more than that never allocates *)
Theorem enc_history_no_alloc s ops K R sb x x' :
  s_enc s = Some x -> forallb keeps_enc ops = true -> s_enc (steps s ops) = Some x' ->
  enc_need (rate_of (e_codec x') K R) K R sb <= ew_cap (e_work x) ->
  s_alloc (fst (step junk (steps s ops) (EReset K R sb))) = false.
Proof.
  intros Hx Hops Hx' Hneed.
  destruct (s_alloc (fst (step junk (steps s ops) (EReset K R sb)))) eqn:E; [|reflexivity].
  apply (enc_reset_alloc_only_if_needed junk _ x') in E; [|exact Hx'].
  destruct (steps_enc_cap_mono ops s Hops) as [Hm _]. unfold enc_obj_cap in Hm. rewrite Hx, Hx' in Hm. lia.
Qed.
End H.

(* the decoder: the pair (blocks, bitmap bits) *)
Section HD.
Variable junk : N -> N -> N -> N.

Lemma dec_add_original_work x i sh x' : dec_add_original x i sh = inl x' ->
  dw_cap (d_work x') = dw_cap (d_work x) /\ dw_bits (d_work x') = dw_bits (d_work x).
Proof.
  unfold dec_add_original.
  repeat match goal with |- context [if ?b then _ else _] => destruct b; try discriminate end.
  intros [= <-]. split; reflexivity.
Qed.
Lemma dec_add_recovery_work x i sh x' : dec_add_recovery x i sh = inl x' ->
  dw_cap (d_work x') = dw_cap (d_work x) /\ dw_bits (d_work x') = dw_bits (d_work x).
Proof.
  unfold dec_add_recovery.
  repeat match goal with |- context [if ?b then _ else _] => destruct b; try discriminate end.
  intros [= <-]. split; reflexivity.
Qed.
Lemma dec_decode_work ep x probes :
  dw_cap (d_work (fst (dec_decode junk ep x probes))) = dw_cap (d_work x) /\
  dw_bits (d_work (fst (dec_decode junk ep x probes))) = dw_bits (d_work x).
Proof.
  unfold dec_decode.
  repeat match goal with |- context [if ?b then _ else _] => destruct b end; split; reflexivity.
Qed.

Lemma step_dec_cap_mono s o : keeps_dec o = true ->
  dec_obj_cap s <= dec_obj_cap (fst (step junk s o)) /\ dec_obj_bits s <= dec_obj_bits (fst (step junk s o)).
Proof.
  intros H. unfold step, dec_obj_cap, dec_obj_bits. destruct o; try discriminate H; cbn.
  - destruct (enc_make _ _ _ _ _ _) as [[x' a]|err]; cbn; split; lia.
  - destruct c; cbn; destruct (enc_make _ _ _ _ _ _) as [[x' a]|err]; cbn; split; lia.
  - destruct (s_enc s); cbn; split; lia.
  - destruct (s_enc s); cbn; [destruct (enc_make _ _ _ _ _ _) as [[x' a]|err]|]; cbn; split; lia.
  - destruct (s_enc s); cbn; [destruct (enc_add _ _)|]; cbn; split; lia.
  - destruct (s_enc s); cbn; [destruct (enc_encode _ _ _ _) as [x' r]; destruct r|]; cbn; split; lia.
  - destruct (s_dec s) as [x|] eqn:Hx; cbn; [|rewrite Hx; split; lia].
    destruct (dec_make _ _ _ _ _ _) as [[x' a]|err] eqn:E; cbn; [|rewrite Hx; split; lia].
    apply dec_make_cap in E. split; lia.
  - destruct (s_dec s) as [x|] eqn:Hx; cbn; [|rewrite Hx; split; lia].
    destruct (dec_add_original x idx shard) as [x'|err] eqn:E; cbn; [|rewrite Hx; split; lia].
    apply dec_add_original_work in E. split; lia.
  - destruct (s_dec s) as [x|] eqn:Hx; cbn; [|rewrite Hx; split; lia].
    destruct (dec_add_recovery x idx shard) as [x'|err] eqn:E; cbn; [|rewrite Hx; split; lia].
    apply dec_add_recovery_work in E. split; lia.
  - destruct (s_dec s) as [x|] eqn:Hx; cbn; [|rewrite Hx; split; lia].
    pose proof (dec_decode_work (s_epoch s) x probes) as Hc.
    destruct (dec_decode junk (s_epoch s) x probes) as [x' r] eqn:E. cbn [fst] in Hc.
    destruct r; cbn; rewrite ?Hx; split; lia.
  - split; lia.
  - split; lia.
  - destruct (oneshot_encode _ _ _ _ _); cbn; split; lia.
  - destruct (oneshot_decode _ _ _ _ _ _); cbn; split; lia.
Qed.

Lemma steps_dec_cap_mono ops : forall s, forallb keeps_dec ops = true ->
  dec_obj_cap s <= dec_obj_cap (steps junk s ops) /\ dec_obj_bits s <= dec_obj_bits (steps junk s ops).
Proof.
  induction ops as [|o ops IH]; intros s H; [cbn; split; lia|].
  cbn [forallb] in H. apply andb_true_iff in H. destruct H as [Ho Hops].
  destruct (step_dec_cap_mono s o Ho) as [H1 H2].
  destruct (IH (fst (step junk s o)) Hops) as [H3 H4]. unfold steps in *. cbn [fold_left]. split; lia.
Qed.

Theorem dec_history_no_alloc s ops K R sb x x' :
  s_dec s = Some x -> forallb keeps_dec ops = true -> s_dec (steps junk s ops) = Some x' ->
  dec_need (rate_of (d_codec x') K R) K R sb <= dw_cap (d_work x) ->
  dec_bits (rate_of (d_codec x') K R) K R <= dw_bits (d_work x) ->
  s_alloc (fst (step junk (steps junk s ops) (DReset K R sb))) = false.
Proof.
  intros Hx Hops Hx' Hneed Hbits.
  destruct (s_alloc (fst (step junk (steps junk s ops) (DReset K R sb)))) eqn:E; [|reflexivity].
  apply (dec_reset_alloc_only_if_needed junk _ x') in E; [|exact Hx'].
  destruct (steps_dec_cap_mono ops s Hops) as [Hm Hb]. unfold dec_obj_cap, dec_obj_bits in Hm, Hb.
  rewrite Hx, Hx' in Hm, Hb. lia.
Qed.
End HD.
