(* Block structure of the LCH basis in the Cantor representation: s_k(x) = x >> k, hence a
   polynomial with 2^(kk+k) LCH coefficients restricted to a coset c*2^k + V_k is a polynomial with
   2^k coefficients obtained by evaluating, column by column, at c. *)
From Coq Require Import NArith Arith Lia Bool List.
From RS.Gen Require Import Prelude GenConsts.
From RS.Model Require Import Field Tables Sched Spec.
From RS.Proofs Require Import FieldFacts Ring Scale FftSpec SchedEquiv Trunc Lengths FftTrunc Lagrange Cauchy.
Import ListNotations.
Local Open Scope N_scope.

Lemma s1_shift x : W16 x -> N.lxor (fmul x x) x = N.shiftr x 1.
Proof.
  intros Hx. assert (H : forallb (fun x => N.lxor (fmul x x) x =? N.shiftr x 1) (rangeN 0 (N.to_nat 65536)) = true) by (vm_compute; reflexivity).
  apply N.eqb_eq. exact (sweep16 _ H x Hx).
Qed.
Lemma shiftr_W16 x j : W16 x -> W16 (N.shiftr x j).
Proof. intros H. unfold W16 in *. rewrite N.shiftr_div_pow2. pose proof (N.div_le_upper_bound x (2 ^ j) x ltac:(apply N.pow_nonzero; lia)).
  assert (x / 2 ^ j <= x). { apply H0. pose proof (N.pow_nonzero 2 j ltac:(lia)). nia. } lia. Qed.
Theorem s_poly_shift k x : W16 x -> s_poly k x = N.shiftr x (N.of_nat k).
Proof.
  intros Hx. induction k as [|k IH]; [reflexivity|]. cbn [s_poly]. cbv zeta. rewrite IH.
  rewrite s1_shift by (apply shiftr_W16; exact Hx). rewrite N.shiftr_shiftr. f_equal. lia.
Qed.

(* ---------- linearity of lch in the coefficient list ---------- *)
Lemma lch_scale k s : W16 s -> forall c x, Forall W16 c -> W16 x -> lch k (map (fmul s) c) x = fmul s (lch k c x).
Proof.
  intros Ws. induction k as [|k IH]; intros c x Wc Wx; cbn [lch].
  - destruct c as [|c0 c]; cbn [map nth]; [symmetry; apply fmul_0_r|reflexivity].
  - rewrite firstn_map, skipn_map, !IH by (auto using Forall_firstn', Forall_skipn').
    set (A := lch k (firstn (p2 k) c) x). set (B := lch k (skipn (p2 k) c) x).
    assert (WA : W16 A) by (apply lch_W16; auto using Forall_firstn').
    assert (WB : W16 B) by (apply lch_W16; auto using Forall_skipn').
    rewrite fmul_lxor_r by w16. f_equal.
    rewrite <- !fmul_assoc by w16. f_equal. apply fmul_comm; w16.
Qed.
Lemma lch_map_xor {A} k (f g : A -> N) (B : list A) x : length B = p2 k -> W16 x ->
  (forall b, In b B -> W16 (f b)) -> (forall b, In b B -> W16 (g b)) ->
  lch k (map (fun b => N.lxor (f b) (g b)) B) x = N.lxor (lch k (map f B) x) (lch k (map g B) x).
Proof.
  intros LB Wx Hf Hg.
  assert (E : map (fun b => N.lxor (f b) (g b)) B = map2 N.lxor (map f B) (map g B)).
  { unfold map2. clear. induction B as [|b B IH]; cbn; [reflexivity|]. rewrite IH. reflexivity. }
  rewrite E. apply lch_xor; try exact Wx; rewrite ?map_length; try exact LB;
    apply Forall_forall; intros y Hy; apply in_map_iff in Hy; destruct Hy as (b & <- & Hb); auto.
Qed.

(* ---------- blocks ---------- *)
Fixpoint blk_list (q h : nat) (c : list N) : list (list N) :=
  match q with O => [] | S q' => firstn h c :: blk_list q' h (skipn h c) end.
Lemma blk_list_length q h : forall c, length (blk_list q h c) = q.
Proof. induction q as [|q IH]; intros c; cbn; [reflexivity|]. rewrite IH. reflexivity. Qed.
Lemma blk_list_app q1 q2 h : forall c,
  blk_list (q1 + q2) h c = blk_list q1 h (firstn (q1 * h) c) ++ blk_list q2 h (skipn (q1 * h) c).
Proof.
  induction q1 as [|q1 IH]; intros c; [reflexivity|]. cbn [Nat.add blk_list app]. rewrite IH.
  replace (S q1 * h)%nat with (h + q1 * h)%nat by lia.
  f_equal; [rewrite firstn_firstn; f_equal; lia|]. f_equal.
  - f_equal. rewrite firstn_skipn_comm. reflexivity.
  - rewrite skipn_add. reflexivity.
Qed.
Lemma blk_list_W16 q h : forall c, Forall W16 c -> Forall (Forall W16) (blk_list q h c).
Proof. induction q as [|q IH]; intros c Wc; cbn; constructor; [apply Forall_firstn'; exact Wc|apply IH, Forall_skipn'; exact Wc]. Qed.
Lemma blk_list_len q h : forall c, length c = (q * h)%nat -> Forall (fun b => length b = h) (blk_list q h c).
Proof.
  induction q as [|q IH]; intros c Lc; cbn; constructor; [rewrite firstn_length; lia|].
  apply IH. rewrite skipn_length. lia.
Qed.

Lemma p2_add a b : p2 (a + b) = (p2 a * p2 b)%nat.
Proof. unfold p2. apply Nat.pow_add_r. Qed.

(* the polynomial with 2^(kk+k) coefficients: evaluate every block at x, then the block index *)
Theorem lch_blocks kk k : forall c x, length c = p2 (kk + k) -> W16 x -> Forall W16 c ->
  lch (kk + k) c x = lch kk (map (fun b => lch k b x) (blk_list (p2 kk) (p2 k) c)) (N.shiftr x (N.of_nat k)).
Proof.
  induction kk as [|kk IH]; intros c x Lc Wx Wc.
  - cbn [Nat.add] in Lc. cbn [Nat.add lch]. change (p2 0) with 1%nat. cbn [blk_list map nth]. rewrite firstn_all2 by lia. reflexivity.
  - cbn [Nat.add] in Lc. rewrite p2_S in Lc. cbn [Nat.add lch]. rewrite (p2_S kk).
    rewrite !IH; try (apply Forall_firstn'; exact Wc); try (apply Forall_skipn'; exact Wc); try exact Wx;
      try (rewrite firstn_length; lia); try (rewrite skipn_length; lia).
    rewrite (blk_list_app (p2 kk) (p2 kk) (p2 k) c), map_app, <- p2_add.
    rewrite firstn_app_le by (rewrite map_length, blk_list_length; lia).
    rewrite (@firstn_all2 _ (p2 kk)) by (rewrite map_length, blk_list_length; lia).
    rewrite skipn_app_le by (rewrite map_length, blk_list_length; lia).
    rewrite (@skipn_all2 _ (p2 kk)) by (rewrite map_length, blk_list_length; lia). cbn [app].
    f_equal. f_equal.
    rewrite !s_poly_shift by (try apply shiftr_W16; exact Wx). rewrite N.shiftr_shiftr. f_equal. lia.
Qed.

(* ---------- exchanging the two evaluations ---------- *)
Lemma seq_firstn a h1 h2 : firstn h1 (seq a (h1 + h2)) = seq a h1.
Proof. rewrite seq_app, firstn_app_le by (rewrite seq_length; lia). apply firstn_all2. rewrite seq_length. lia. Qed.
Lemma seq_skipn a h1 h2 : skipn h1 (seq a (h1 + h2)) = seq (a + h1) h2.
Proof. rewrite seq_app, skipn_app_le by (rewrite seq_length; lia). rewrite skipn_all2 by (rewrite seq_length; lia). reflexivity. Qed.
Lemma nth_skipn_N (l : list N) : forall n i, nth i (skipn n l) 0 = nth (n + i) l 0.
Proof. induction l as [|x l IH]; intros [|n] i; cbn; try reflexivity; [destruct i; reflexivity|apply IH]. Qed.

Lemma seq_plus h n : forall a, seq (h + a) n = map (Nat.add h) (seq a n).
Proof. induction n as [|n IH]; intros a; cbn; [reflexivity|]. f_equal. rewrite <- IH. f_equal. lia. Qed.

Theorem lch_fubini k : forall kk (B : list (list N)) x y, length B = p2 kk ->
  Forall (fun b => length b = p2 k /\ Forall W16 b) B -> W16 x -> W16 y ->
  lch kk (map (fun b => lch k b x) B) y =
  lch k (map (fun t => lch kk (map (fun b => nth t b 0) B) y) (seq 0 (p2 k))) x.
Proof.
  induction k as [|k IH]; intros kk B x y LB HB Wx Wy.
  - change (p2 0) with 1%nat. cbn [seq map lch nth]. reflexivity.
  - set (h := p2 k). assert (HBl : forall b, In b B -> length b = (h + h)%nat /\ Forall W16 b).
    { intros b Hb. rewrite Forall_forall in HB. destruct (HB b Hb) as [L W]. rewrite p2_S in L. auto. }
    cbn [lch]. fold h.
    rewrite (lch_map_xor kk (fun b => lch k (firstn h b) x) (fun b => fmul (s_poly k x) (lch k (skipn h b) x)) B y LB Wy).
    2:{ intros b Hb. apply lch_W16; [apply Forall_firstn'; apply HBl; exact Hb|exact Wx]. }
    2:{ intros b Hb. apply fmul_lt; [apply s_poly_lt; exact Wx|]. apply lch_W16; [apply Forall_skipn'; apply HBl; exact Hb|exact Wx]. }
    rewrite <- (map_map (fun b => lch k (skipn h b) x) (fmul (s_poly k x))).
    rewrite lch_scale; try assumption; [|apply s_poly_lt; exact Wx|].
    2:{ apply Forall_forall. intros z Hz. apply in_map_iff in Hz. destruct Hz as (b & <- & Hb).
        apply lch_W16; [apply Forall_skipn'; apply HBl; exact Hb|exact Wx]. }
    rewrite <- (map_map (firstn h) (fun b' => lch k b' x)), <- (map_map (skipn h) (fun b' => lch k b' x)).
    rewrite (IH kk (map (firstn h) B) x y), (IH kk (map (skipn h) B) x y); try assumption; try (rewrite map_length; exact LB).
    2:{ apply Forall_forall. intros z Hz. apply in_map_iff in Hz. destruct Hz as (b & <- & Hb). destruct (HBl b Hb) as [L W].
        split; [rewrite skipn_length; fold h; lia|apply Forall_skipn'; exact W]. }
    2:{ apply Forall_forall. intros z Hz. apply in_map_iff in Hz. destruct Hz as (b & <- & Hb). destruct (HBl b Hb) as [L W].
        split; [rewrite firstn_length; fold h; lia|apply Forall_firstn'; exact W]. }
    rewrite p2_S. fold h. rewrite firstn_map, skipn_map, seq_firstn, seq_skipn. cbn [Nat.add].
    f_equal; [|f_equal]; f_equal.
    + apply map_ext_in. intros t Ht. apply in_seq in Ht. f_equal. rewrite map_map. apply map_ext_in. intros b Hb.
      apply nth_firstn_lt'. lia.
    + replace (seq h h) with (seq (h + 0) h) by (f_equal; lia). rewrite seq_plus, map_map.
      apply map_ext_in. intros t Ht. f_equal. rewrite map_map. apply map_ext_in. intros b Hb.
      apply nth_skipn_N.
Qed.

(* ---------- the sum of a polynomial over a coset of V_kk is its top LCH coefficient ---------- *)
Theorem lch_coset_sum kk : forall c u, length c = p2 kk -> Forall W16 c -> W16 u -> (kk <= 16)%nat ->
  xsum (p2 kk) (fun v => lch kk c (N.lxor u (N.of_nat v))) = nth (p2 kk - 1) c 0.
Proof.
  induction kk as [|kk IH]; intros c u Lc Wc Wu Hk.
  - change (p2 0) with 1%nat. cbn [xsum lch Nat.sub]. apply N.lxor_0_l.
  - pose proof (p2_pos kk) as Hpos. rewrite p2_S in *. rewrite xsum_split.
    set (lo := firstn (p2 kk) c). set (hi := skipn (p2 kk) c).
    assert (Llo : length lo = p2 kk) by (unfold lo; rewrite firstn_length; lia).
    assert (Lhi : length hi = p2 kk) by (unfold hi; rewrite skipn_length; lia).
    assert (Wlo : Forall W16 lo) by (apply Forall_firstn'; exact Wc).
    assert (Whi : Forall W16 hi) by (apply Forall_skipn'; exact Wc).
    set (beta := 2 ^ N.of_nat kk). assert (Wb : W16 beta) by (apply pow2_W16; lia).
    set (a := N.shiftr u (N.of_nat kk)). assert (Wa : W16 a) by (apply shiftr_W16; exact Wu).
    assert (Vv : forall v, (v < p2 kk)%nat -> W16 (N.of_nat v) /\ N.shiftr (N.of_nat v) (N.of_nat kk) = 0).
    { intros v Hv. pose proof (p2_N kk) as P. assert (N.of_nat v < 2 ^ N.of_nat kk) by lia. split.
      - unfold W16. assert (2 ^ N.of_nat kk <= 2 ^ 16) by (apply N.pow_le_mono_r; lia). change (2 ^ 16) with 65536 in *. lia.
      - apply lt_shiftr. assumption. }
    assert (Sb : N.shiftr beta (N.of_nat kk) = 1).
    { unfold beta. rewrite N.shiftr_div_pow2, N.div_same by (apply N.pow_nonzero; lia). reflexivity. }
    (* first half *)
    rewrite (xsum_ext (p2 kk) _ (fun v => N.lxor (lch kk lo (N.lxor u (N.of_nat v))) (fmul a (lch kk hi (N.lxor u (N.of_nat v)))))).
    2:{ intros v Hv. destruct (Vv v Hv) as [Wv Sv]. cbn [lch]. fold lo hi.
        rewrite s_poly_shift by w16. rewrite N.shiftr_lxor, Sv, N.lxor_0_r. reflexivity. }
    (* second half *)
    rewrite (xsum_ext (p2 kk) (fun v => lch (S kk) c (N.lxor u (N.of_nat (p2 kk + v))))
                (fun v => N.lxor (lch kk lo (N.lxor (N.lxor u beta) (N.of_nat v))) (fmul (N.lxor a 1) (lch kk hi (N.lxor (N.lxor u beta) (N.of_nat v)))))).
    2:{ intros v Hv. destruct (Vv v Hv) as [Wv Sv]. rewrite (of_nat_add_p2 kk v Hv). fold beta. rewrite <- N.lxor_assoc.
        cbn [lch]. fold lo hi. rewrite s_poly_shift by w16. rewrite !N.shiftr_lxor, Sv, Sb, N.lxor_0_r. reflexivity. }
    rewrite !xsum_lxor.
    rewrite <- !xsum_fmul by (try (w16; fail); intros v Hv; destruct (Vv v Hv) as [Wv _]; apply lch_W16; w16).
    rewrite !IH by (try assumption; try lia; w16).
    set (tl := nth (p2 kk - 1) lo 0). set (th := nth (p2 kk - 1) hi 0).
    assert (Wtl : W16 tl) by (apply nth_W16; exact Wlo). assert (Wth : W16 th) by (apply nth_W16; exact Whi).
    assert (Et : nth (p2 kk + p2 kk - 1) c 0 = th).
    { unfold th, hi. rewrite nth_skipn_N. f_equal. lia. }
    rewrite Et. rewrite fmul_lxor_l by w16. rewrite (fmul_comm 1 th), fmul_1_r by w16.
    apply N.bits_inj. intros i. rewrite !N.lxor_spec.
    destruct (N.testbit tl i), (N.testbit (fmul a th) i), (N.testbit th i); reflexivity.
Qed.

(* ---------- assembling a polynomial from its restrictions to the cosets of V_k ---------- *)
Lemma map_nth_seq (l : list N) : map (fun i => nth i l 0) (seq 0 (length l)) = l.
Proof.
  induction l as [|x l IH]; [reflexivity|]. cbn [length seq map nth]. f_equal.
  rewrite <- seq_shift, map_map. exact IH.
Qed.
Lemma nth_map_seq (f : nat -> N) n i : (i < n)%nat -> nth i (map f (seq 0 n)) 0 = f i.
Proof. intros H. rewrite (nth_map_lt _ 0%nat) by (rewrite seq_length; exact H). rewrite seq_nth by exact H. reflexivity. Qed.
Lemma blk_list_concat h : forall B, Forall (fun b => length b = h) B -> blk_list (length B) h (concat B) = B.
Proof.
  induction B as [|b B IH]; intros H; [reflexivity|]. inversion H; subst. cbn [length blk_list concat].
  rewrite firstn_app_le by lia. rewrite firstn_all2 by lia. rewrite skipn_app_le by lia. rewrite skipn_all2 by lia. cbn [app].
  rewrite IH by assumption. reflexivity.
Qed.
Lemma concat_length_uniform h : forall B : list (list N), Forall (fun b => length b = h) B -> length (concat B) = (length B * h)%nat.
Proof. induction B as [|b B IH]; intros H; [reflexivity|]. inversion H; subst. cbn [concat length]. rewrite app_length, IH by assumption. lia. Qed.
Lemma nth_concat_uniform h : forall (B : list (list N)) q r, Forall (fun b => length b = h) B -> (r < h)%nat ->
  nth (q * h + r) (concat B) 0 = nth r (nth q B []) 0.
Proof.
  induction B as [|b B IH]; intros q r H Hr.
  - cbn. destruct (q * h + r)%nat, q, r; reflexivity.
  - inversion H; subst. cbn [concat]. destruct q as [|q].
    + cbn [Nat.mul Nat.add nth]. apply app_nth1. lia.
    + rewrite app_nth2 by (cbn; lia). cbn [nth]. rewrite <- IH by assumption. f_equal. cbn. lia.
Qed.

Theorem assemble kk k (g : nat -> list N) : (kk + k <= 16)%nat ->
  (forall c', (c' < p2 kk)%nat -> length (g c') = p2 k /\ Forall W16 (g c')) ->
  (forall t, (t < p2 k)%nat -> xsum (p2 kk) (fun c' => nth t (g c') 0) = 0) ->
  exists cF, length cF = p2 (kk + k) /\ Forall W16 cF /\
    (forall t, (p2 (kk + k) - p2 k <= t)%nat -> (t < p2 (kk + k))%nat -> nth t cF 0 = 0) /\
    (forall c' v, (c' < p2 kk)%nat -> (v < p2 k)%nat ->
       lch (kk + k) cF (N.of_nat c' * 2 ^ N.of_nat k + N.of_nat v) = lch k (g c') (N.of_nat c' * 2 ^ N.of_nat k + N.of_nat v)).
Proof.
  intros Hk Hg Hsum. set (H := p2 kk). set (h := p2 k).
  assert (Hpos : (0 < H)%nat) by apply p2_pos. assert (hpos : (0 < h)%nat) by apply p2_pos.
  set (vals := fun t => map (fun c' => nth t (g c') 0) (seq 0 H)).
  set (phi := fun t => ifft sym_ops Naive (2 ^ N.of_nat kk) (2 ^ N.of_nat kk) 0 (vals t)).
  assert (Lv : forall t, length (vals t) = H) by (intros t; unfold vals; rewrite map_length, seq_length; reflexivity).
  assert (Wv : forall t, Forall W16 (vals t)).
  { intros t. unfold vals. apply Forall_forall. intros z Hz. apply in_map_iff in Hz. destruct Hz as (c' & <- & Hc).
    apply in_seq in Hc. apply nth_W16. apply Hg. lia. }
  assert (Lphi : forall t, length (phi t) = H).
  { intros t. unfold phi. rewrite ifft_len; [apply Lv|lia|]. rewrite Lv. apply p2_N. }
  assert (Wphi : forall t, Forall W16 (phi t)) by (intros t; unfold phi; apply ifft_W16, Wv).
  assert (Vphi : forall t c', (c' < H)%nat -> lch kk (phi t) (N.of_nat c') = nth t (g c') 0).
  { intros t c' Hc. pose proof (p2_N kk) as Pkk. fold H in Pkk.
    assert (A1 : 0 * 2 ^ N.of_nat kk + 2 ^ N.of_nat kk <= 65536).
    { rewrite N.mul_0_l, N.add_0_l. change 65536 with (2 ^ 16). apply N.pow_le_mono_r; lia. }
    assert (A2 : forall i, (i < length (vals t))%nat -> 2 ^ N.of_nat kk <= N.of_nat i -> nth_error (vals t) i = Some 0).
    { intros i Hi Hle. rewrite Lv in Hi. lia. }
    pose proof (ifft_interpolates Naive kk 0 (vals t) (2 ^ N.of_nat kk) ltac:(lia) A1 (Lv t) (Wv t) (N.le_refl _) A2 c' Hc) as I.
    rewrite N.mul_0_l, N.add_0_l in I. unfold phi. rewrite I. unfold vals. apply nth_map_seq. exact Hc. }
  set (B := map (fun h' => map (fun t => nth h' (phi t) 0) (seq 0 h)) (seq 0 H)).
  assert (LB : length B = H) by (unfold B; rewrite map_length, seq_length; reflexivity).
  assert (HBl : Forall (fun b => length b = h) B).
  { unfold B. apply Forall_forall. intros b Hb. apply in_map_iff in Hb. destruct Hb as (h' & <- & _). rewrite map_length, seq_length. reflexivity. }
  assert (HBW : Forall (fun b => length b = p2 k /\ Forall W16 b) B).
  { unfold B. apply Forall_forall. intros b Hb. apply in_map_iff in Hb. destruct Hb as (h' & <- & _). split; [rewrite map_length, seq_length; reflexivity|].
    apply Forall_forall. intros z Hz. apply in_map_iff in Hz. destruct Hz as (t & <- & _). apply nth_W16, Wphi. }
  assert (Col : forall t, (t < h)%nat -> map (fun b => nth t b 0) B = phi t).
  { intros t Ht. unfold B. rewrite map_map.
    transitivity (map (fun h' => nth h' (phi t) 0) (seq 0 H)); [|rewrite <- (Lphi t); apply map_nth_seq].
    apply map_ext_in. intros h' _. apply nth_map_seq. exact Ht. }
  exists (concat B).
  assert (LcF : length (concat B) = p2 (kk + k)) by (rewrite (concat_length_uniform h) by exact HBl; rewrite LB, p2_add; reflexivity).
  assert (WcF : Forall W16 (concat B)).
  { apply Forall_forall. intros z Hz. apply in_concat in Hz. destruct Hz as (b & Hb & Hz). rewrite Forall_forall in HBW.
    destruct (HBW b Hb) as [_ W]. rewrite Forall_forall in W. auto. }
  split; [exact LcF|]. split; [exact WcF|]. split.
  - (* the top block vanishes *)
    intros t Ht1 Ht2. rewrite p2_add in *. fold H h in Ht1, Ht2.
    set (t' := (t - (H - 1) * h)%nat). assert (Et : t = ((H - 1) * h + t')%nat) by (unfold t'; nia). assert (Ht' : (t' < h)%nat) by (unfold t'; nia).
    rewrite Et, (nth_concat_uniform h B (H - 1) t' HBl Ht').
    unfold B. rewrite (nth_map_lt _ 0%nat) by (rewrite seq_length; lia). rewrite seq_nth by lia. cbn [Nat.add].
    rewrite nth_map_seq by exact Ht'.
    pose proof (lch_coset_sum kk (phi t') 0 (Lphi t') (Wphi t') W16_0 ltac:(lia)) as S. fold H in S. rewrite <- S.
    rewrite (xsum_ext H _ (fun c' => nth t' (g c') 0)); [apply Hsum; exact Ht'|].
    intros c' Hc. apply (Vphi t' c' Hc).
  - intros c' v Hc Hv. set (x := N.of_nat c' * 2 ^ N.of_nat k + N.of_nat v).
    pose proof (p2_N k) as Pk. pose proof (p2_N kk) as Pkk. fold h in Pk. fold H in Pkk.
    assert (Hx : x < 2 ^ N.of_nat (kk + k)).
    { unfold x. rewrite Nat2N.inj_add, N.pow_add_r. rewrite <- Pk, <- Pkk. nia. }
    assert (Wx : W16 x).
    { unfold W16. assert (2 ^ N.of_nat (kk + k) <= 2 ^ 16) by (apply N.pow_le_mono_r; lia). change (2 ^ 16) with 65536 in *. lia. }
    assert (Sx : N.shiftr x (N.of_nat k) = N.of_nat c').
    { unfold x. rewrite N.shiftr_div_pow2. rewrite N.div_add_l by (apply N.pow_nonzero; lia). rewrite N.div_small by lia. lia. }
    rewrite (lch_blocks kk k (concat B) x LcF Wx WcF). fold H h. rewrite <- LB at 1. rewrite (blk_list_concat h B HBl). rewrite Sx.
    rewrite (lch_fubini k kk B x (N.of_nat c') LB HBW Wx).
    2:{ unfold W16. assert (2 ^ N.of_nat kk <= 2 ^ 16) by (apply N.pow_le_mono_r; lia). change (2 ^ 16) with 65536 in *. lia. }
    fold h. f_equal. destruct (Hg c' Hc) as [Lg _]. fold h in Lg. rewrite <- (map_nth_seq (g c')), Lg.
    apply map_ext_in. intros t Ht. apply in_seq in Ht. rewrite (Col t) by lia. apply Vphi. exact Hc.
Qed.
