//! rs2v: regenerates Coq definitions from the Rust sources of reed-solomon-simd.
//!
//! usage: rs2v <repo_src_dir> <out_dir>

mod dispatch;
mod gen;
mod guards;
mod scan;
mod statics;
mod trans;
mod util;

use std::path::{Path, PathBuf};
use std::process::ExitCode;

use util::{Crate, Error, R};

fn write_if_changed(path: &Path, content: &str) -> R<&'static str> {
    if let Ok(old) = std::fs::read_to_string(path) {
        if old == content {
            return Ok("unchanged");
        }
    }
    std::fs::write(path, content)
        .map_err(|e| Error::Other(format!("cannot write {}: {}", path.display(), e)))?;
    Ok("updated")
}

fn run(src: &Path, out: &Path) -> R<()> {
    let cr = Crate::load(src)?;
    if !out.is_dir() {
        return Err(Error::Other(format!(
            "output directory {} does not exist",
            out.display()
        )));
    }

    // translate everything first; write only if all of it succeeded
    let consts = gen::gen_consts(&cr)?;
    let world = trans::World {
        cr: &cr,
        error_ctors: gen::error_ctors(&cr, out)?,
        consts: consts.types.clone(),
    };
    let rate = gen::gen_rate(&world)?;
    let modf = gen::gen_mod(&world)?;
    let disp = dispatch::gen_dispatch(&cr)?;
    let stat = statics::gen_statics(&cr)?;
    let guards = guards::gen_guards(&cr, &world.error_ctors)?;

    for (name, text) in [
        ("GenConsts.v", &consts.text),
        ("GenRate.v", &rate),
        ("GenMod.v", &modf),
        ("GenDispatch.v", &disp),
        ("GenStatics.v", &stat),
        ("GenGuards.v", &guards),
    ] {
        let p: PathBuf = out.join(name);
        let status = write_if_changed(&p, text)?;
        println!("{} {}", name, status);
    }
    Ok(())
}

fn main() -> ExitCode {
    let args: Vec<String> = std::env::args().collect();
    if args.len() != 3 {
        eprintln!("usage: rs2v <repo_src_dir> <out_dir>");
        return ExitCode::from(2);
    }
    match run(Path::new(&args[1]), Path::new(&args[2])) {
        Ok(()) => ExitCode::SUCCESS,
        Err(e) => {
            eprintln!("{}", e);
            ExitCode::from(1)
        }
    }
}
