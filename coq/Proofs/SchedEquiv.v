(* The two-layers-at-a-time schedule of the optimised engines (fft_private) computes exactly
   what the one-layer schedule of the reference engine computes when the transform is not
   truncated — for any element type, any element operations and any skew table. *)
From Coq Require Import NArith Arith Lia Bool List.
From RS.Gen Require Import Prelude GenConsts.
From RS.Model Require Import Field Tables Sched.
Import ListNotations.
Local Open Scope N_scope.

Section Equiv.
Context {T : Type} (ops : elt_ops T).
Variable skewf : N -> N.
Notation bf := (fft_bf ops).

(* ---------- one block of four quarters ---------- *)
Lemma quad_block (f01 f23 f02 : T * T -> T * T) : forall A B C D : list T,
  length A = length B -> length A = length C -> length A = length D ->
  let q := map (fun x : (T * T) * (T * T) =>
                  let '((s0, s1), (s2, s3)) := x in
                  let '(s0, s2) := f02 (s0, s2) in
                  let '(s1, s3) := f02 (s1, s3) in
                  (f01 (s0, s1), f23 (s2, s3))) (combine (combine A B) (combine C D)) in
  let '(A1, C1) := bf2 f02 A C in
  let '(B1, D1) := bf2 f02 B D in
  let '(A2, B2) := bf2 f01 A1 B1 in
  let '(C2, D2) := bf2 f23 C1 D1 in
  map (fun x => fst (fst x)) q = A2 /\ map (fun x => snd (fst x)) q = B2 /\
  map (fun x => fst (snd x)) q = C2 /\ map (fun x => snd (snd x)) q = D2.
Proof.
  unfold bf2. induction A as [|a A IH]; intros [|b B] [|c C] [|d D] H1 H2 H3; try discriminate.
  - cbn. auto.
  - cbn in H1, H2, H3. specialize (IH B C D ltac:(lia) ltac:(lia) ltac:(lia)).
    cbn [combine map fst snd] in *.
    destruct (f02 (a, c)) as [a1 c1] eqn:E1. destruct (f02 (b, d)) as [b1 d1] eqn:E2.
    cbn [fst snd]. destruct (f01 (a1, b1)) as [a2 b2] eqn:E3. destruct (f23 (c1, d1)) as [c2 d2] eqn:E4.
    cbn [fst snd]. destruct IH as (I1 & I2 & I3 & I4). rewrite I1, I2, I3, I4. auto.
Qed.

(* ---------- generic facts about one-layer passes ---------- *)
Variable bfa : N -> T * T -> T * T.
Notation layer := (naive_layer skewf bfa).

Lemma bf2_length (g : T * T -> T * T) a b : length (fst (bf2 g a b)) = Nat.min (length a) (length b) /\
                                           length (snd (bf2 g a b)) = Nat.min (length a) (length b).
Proof. unfold bf2. cbn. rewrite !map_length, combine_length. auto. Qed.

Lemma firstn_app_le' {A} n (l1 l2 : list A) : (n <= length l1)%nat -> firstn n (l1 ++ l2) = firstn n l1.
Proof. intros H. rewrite firstn_app. replace (n - length l1)%nat with 0%nat by lia. cbn. apply app_nil_r. Qed.
Lemma skipn_app_le' {A} n (l1 l2 : list A) : (n <= length l1)%nat -> skipn n (l1 ++ l2) = skipn n l1 ++ l2.
Proof. intros H. rewrite skipn_app. replace (n - length l1)%nat with 0%nat by lia. reflexivity. Qed.

Lemma glayer_length fuel dist : forall r trunc sd l, (2 * dist * fuel <= length l)%nat ->
  length (layer fuel dist r trunc sd l) = length l.
Proof.
  induction fuel as [|f IH]; intros r trunc sd l Hl; cbn [naive_layer]; [reflexivity|].
  destruct (r <? trunc); [|reflexivity].
  destruct (bf2 _ _ _) as [a' b'] eqn:E.
  pose proof (bf2_length (bfa (skewf (r + N.of_nat dist + sd - 1))) (firstn dist l) (firstn dist (skipn dist l))) as [L1 L2].
  rewrite E in L1, L2. cbn [fst snd] in L1, L2.
  rewrite !app_length, L1, L2, !firstn_length, !skipn_length, IH; rewrite ?skipn_length; lia.
Qed.

Lemma glayer_app f1 f2 dist : forall r trunc sd l1 l2, length l1 = (2 * dist * f1)%nat -> (0 < dist)%nat ->
  r + N.of_nat (2 * dist * f1) <= trunc ->
  layer (f1 + f2) dist r trunc sd (l1 ++ l2) =
  layer f1 dist r trunc sd l1 ++ layer f2 dist (r + N.of_nat (length l1)) trunc sd l2.
Proof.
  induction f1 as [|f1 IH]; intros r trunc sd l1 l2 Hl Hd Ht.
  - rewrite Nat.mul_0_r in Hl. destruct l1; [|discriminate]. cbn [naive_layer app length Nat.add]. rewrite N.add_0_r. reflexivity.
  - cbn [Nat.add naive_layer].
    assert (Hr : (r <? trunc) = true) by (apply N.ltb_lt; lia). rewrite Hr.
    rewrite (firstn_app_le' dist l1 l2) by lia. rewrite (skipn_app_le' dist l1 l2) by lia.
    rewrite (firstn_app_le' dist (skipn dist l1) l2) by (rewrite skipn_length; lia).
    rewrite (skipn_app_le' dist (skipn dist l1) l2) by (rewrite skipn_length; lia).
    destruct (bf2 _ (firstn dist l1) (firstn dist (skipn dist l1))) as [a' b'].
    rewrite <- !app_assoc. f_equal. f_equal.
    rewrite (IH (r + 2 * N.of_nat dist) trunc sd (skipn dist (skipn dist l1)) l2).
    + f_equal. f_equal. rewrite !skipn_length. lia.
    + rewrite !skipn_length. lia.
    + exact Hd.
    + lia.
Qed.
End Equiv.

Section Equiv2.
Context {T : Type} (ops : elt_ops T).
Variable skewf : N -> N.
Notation layer := (naive_layer skewf (fft_bf ops)).

Lemma firstn_add {A} n m (l : list A) : firstn (n + m) l = firstn n l ++ firstn m (skipn n l).
Proof. revert l. induction n as [|n IH]; intros [|x l]; cbn; try reflexivity; [destruct m; reflexivity|]. f_equal. apply IH. Qed.
Lemma skipn_add {A} n m (l : list A) : skipn (n + m) l = skipn m (skipn n l).
Proof. revert l. induction n as [|n IH]; intros [|x l]; cbn; try reflexivity; [destruct m; reflexivity|]. apply IH. Qed.

Lemma bf2_app (g : T * T -> T * T) a b c d : length a = length c ->
  bf2 g (a ++ b) (c ++ d) = (fst (bf2 g a c) ++ fst (bf2 g b d), snd (bf2 g a c) ++ snd (bf2 g b d)).
Proof.
  intros H. unfold bf2. cbn [fst snd].
  assert (E : combine (a ++ b) (c ++ d) = combine a c ++ combine b d).
  { revert c H. induction a as [|x a IH]; intros [|y c] H; cbn in *; try discriminate; [reflexivity|]. f_equal. apply IH. lia. }
  rewrite E, !map_app. reflexivity.
Qed.

Lemma two_layer_naive f d : (0 < d)%nat -> forall r trunc sd l,
  length l = (4 * d * f)%nat -> r + N.of_nat (4 * d * f) <= trunc ->
  two_layer skewf (fft_two ops) f d r trunc sd l =
  layer (2 * f) d r trunc sd (layer f (2 * d) r trunc sd l).
Proof.
  intros Hd. induction f as [|f IH]; intros r trunc sd l Hl Ht; [reflexivity|].
  assert (Hr : (r <? trunc) = true) by (apply N.ltb_lt; lia).
  (* the four quarters of the first block *)
  set (a := firstn d l). set (b := firstn d (skipn d l)).
  set (c := firstn d (skipn d (skipn d l))). set (dd := firstn d (skipn d (skipn d (skipn d l)))).
  set (tl := skipn d (skipn d (skipn d (skipn d l)))).
  assert (La : length a = d) by (unfold a; rewrite firstn_length; lia).
  assert (Lb : length b = d) by (unfold b; rewrite firstn_length, skipn_length; lia).
  assert (Lc : length c = d) by (unfold c; rewrite firstn_length, !skipn_length; lia).
  assert (Ld : length dd = d) by (unfold dd; rewrite firstn_length, !skipn_length; lia).
  assert (Ltl : length tl = (4 * d * f)%nat) by (unfold tl; rewrite !skipn_length; lia).
  (* left side: one step *)
  cbn [two_layer]. rewrite Hr. fold a b c dd tl.
  set (dn := N.of_nat d). set (base := r + dn + sd - 1).
  set (m01 := skewf base). set (m02 := skewf (base + dn)). set (m23 := skewf (base + dn * 2)).
  (* right side, inner layer (dist 2d): one step *)
  replace (2 * S f)%nat with (2 + 2 * f)%nat by lia.
  cbn [naive_layer]. rewrite Hr.
  replace (firstn (2 * d) l) with (a ++ b) by (replace (2 * d)%nat with (d + d)%nat by lia; rewrite firstn_add; reflexivity).
  replace (skipn (2 * d) l) with (skipn d (skipn d l)) by (replace (2 * d)%nat with (d + d)%nat by lia; rewrite skipn_add; reflexivity).
  replace (firstn (2 * d) (skipn d (skipn d l))) with (c ++ dd)
    by (replace (2 * d)%nat with (d + d)%nat by lia; rewrite firstn_add; reflexivity).
  replace (skipn (2 * d) (skipn d (skipn d l))) with tl
    by (replace (2 * d)%nat with (d + d)%nat by lia; rewrite skipn_add; reflexivity).
  assert (Em02 : skewf (r + N.of_nat (2 * d) + sd - 1) = m02).
  { unfold m02, base, dn. f_equal. lia. }
  rewrite Em02. rewrite (bf2_app (fft_bf ops m02) a b c dd) by congruence.
  pose proof (bf2_length (fft_bf ops m02) a c) as [L1 L2]. pose proof (bf2_length (fft_bf ops m02) b dd) as [L3 L4].
  destruct (bf2 (fft_bf ops m02) a c) as [a1 c1] eqn:E1. destruct (bf2 (fft_bf ops m02) b dd) as [b1 d1] eqn:E2.
  cbn [fst snd] in *. rewrite La, Lc, Nat.min_id in L1, L2. rewrite Lb, Ld, Nat.min_id in L3, L4.
  (* outer layer (dist d) over the first block and the rest *)
  set (Y := layer f (2 * d) (r + 2 * N.of_nat (2 * d)) trunc sd tl).
  assert (LY : length Y = (4 * d * f)%nat) by (unfold Y; rewrite glayer_length; lia).
  replace ((a1 ++ b1) ++ (c1 ++ d1) ++ Y) with (((a1 ++ b1) ++ (c1 ++ d1)) ++ Y) by (rewrite <- !app_assoc; reflexivity).
  rewrite (glayer_app skewf (fft_bf ops) 2 (2 * f) d r trunc sd ((a1 ++ b1) ++ (c1 ++ d1)) Y);
    [|rewrite !app_length; lia|exact Hd|lia].
  rewrite !app_length, L1, L2, L3, L4.
  (* the two sub-blocks of the first block *)
  cbn [naive_layer]. rewrite Hr.
  assert (Hr2 : (r + 2 * N.of_nat d <? trunc) = true) by (apply N.ltb_lt; lia). rewrite Hr2.
  rewrite <- !app_assoc.
  rewrite (firstn_app_le' d a1) by lia. rewrite firstn_all2 by lia.
  rewrite (skipn_app_le' d a1) by lia. rewrite (skipn_all2 a1) by lia. cbn [app].
  rewrite (firstn_app_le' d b1) by lia. rewrite (firstn_all2 b1) by lia.
  rewrite (skipn_app_le' d b1) by lia. rewrite (skipn_all2 b1) by lia. cbn [app].
  rewrite (firstn_app_le' d c1) by lia. rewrite (firstn_all2 c1) by lia.
  rewrite (skipn_app_le' d c1) by lia. rewrite (skipn_all2 c1) by lia. cbn [app].
  rewrite (firstn_all2 d1) by lia. rewrite (skipn_all2 d1) by lia.
  fold dn. fold base. fold m01.
  assert (Em23 : skewf (r + 2 * dn + dn + sd - 1) = m23) by (unfold m23, base; f_equal; lia).
  rewrite Em23.
  pose proof (quad_block (fft_bf ops m01) (fft_bf ops m23) (fft_bf ops m02) a b c dd ltac:(congruence) ltac:(congruence) ltac:(congruence)) as Q.
  cbv zeta in Q. rewrite E1, E2 in Q.
  destruct (bf2 (fft_bf ops m01) a1 b1) as [a2 b2]. destruct (bf2 (fft_bf ops m23) c1 d1) as [c2 d2].
  destruct Q as (Q1 & Q2 & Q3 & Q4).
  unfold fft_two. rewrite Q1, Q2, Q3, Q4.
  cbn [naive_layer]. rewrite app_nil_r.
  rewrite <- !app_assoc. do 4 f_equal.
  (* the rest *)
  change (fun (m00 m0 m03 : N) '(s0, s1, (s2, s3)) =>
     let '(s4, s5) := fft_bf ops m03 (s0, s2) in
      let '(s6, s7) := fft_bf ops m03 (s1, s3) in
       (fft_bf ops m00 (s4, s6), fft_bf ops m0 (s5, s7))) with (fft_two ops).
  rewrite (IH (r + 4 * dn) trunc sd tl Ltl ltac:(unfold dn; lia)).
  unfold Y. replace (r + 2 * N.of_nat (2 * d)) with (r + 4 * dn) by (unfold dn; lia).
  replace (r + N.of_nat (d + d + (d + d))) with (r + 4 * dn) by (unfold dn; lia). reflexivity.
Qed.
End Equiv2.

Section Equiv3.
Context {T : Type} (ops : elt_ops T).
Variable skewf : N -> N.

Definition leqN (a b : list N) : bool := if list_eq_dec N.eq_dec a b then true else false.
Definition sched_ok (k : nat) : bool :=
  let size := 2 ^ N.of_nat k in
  let '(ds, d4) := dists4_down 17 size (N.shiftr size 2) in
  leqN (rev (dists size)) (flat_map (fun d => [2 * d; d]) ds ++ (if d4 =? 2 then [1] else [])) &&
  forallb (fun d => (0 <? d) && (4 * d * (size / (4 * d)) =? size)) ds &&
  ((negb (d4 =? 2)) || (2 * (size / 2) =? size)).
Lemma sched_ok_all : forallb sched_ok (seq 0 17) = true.
Proof. vm_compute. reflexivity. Qed.

Lemma naive_pass_length size trunc sd l d : (0 < d) -> 2 * d * (size / (2 * d)) <= N.of_nat (length l) ->
  length (naive_pass skewf (fft_bf ops) size trunc sd l d) = length l.
Proof.
  intros Hd H. unfold naive_pass. apply glayer_length. lia.
Qed.

(* one two-layer pass = the one-layer passes at 2 dist and dist *)
Lemma two_pass_naive size sd l d : 0 < d -> N.of_nat (length l) = size -> 4 * d * (size / (4 * d)) = size ->
  two_pass skewf (fft_two ops) size sd l d =
  naive_pass skewf (fft_bf ops) size size sd (naive_pass skewf (fft_bf ops) size size sd l (2 * d)) d.
Proof.
  intros Hd Hl Hdiv. unfold two_pass, naive_pass. rewrite Hl.
  set (f := N.to_nat (size / (4 * d))).
  assert (Hf : N.of_nat f = size / (4 * d)) by (unfold f; apply N2Nat.id).
  rewrite (two_layer_naive ops skewf f (N.to_nat d)); [|lia| |].
  - replace (N.to_nat (size / (2 * (2 * d)))) with f by (unfold f; f_equal; f_equal; lia).
    replace (N.to_nat (2 * d)) with (2 * N.to_nat d)%nat by lia.
    replace (N.to_nat (size / (2 * d))) with (2 * f)%nat; [reflexivity|].
    unfold f. rewrite <- Hdiv at 2. replace (4 * d * (size / (4 * d))) with ((2 * (size / (4 * d))) * (2 * d)) by lia.
    rewrite N.div_mul by lia. lia.
  - apply Nat2N.inj. rewrite Hl. rewrite !Nat2N.inj_mul, N2Nat.id, Hf. change (N.of_nat 4) with 4. lia.
  - rewrite !Nat2N.inj_mul, N2Nat.id, Hf. change (N.of_nat 4) with 4. lia.
Qed.

Theorem two_fft_naive_fft k sd l : (k <= 16)%nat -> N.of_nat (length l) = 2 ^ N.of_nat k ->
  two_fft ops skewf (2 ^ N.of_nat k) (2 ^ N.of_nat k) sd l = naive_fft ops skewf (2 ^ N.of_nat k) (2 ^ N.of_nat k) sd l.
Proof.
  intros Hk Hl. pose proof sched_ok_all as H. rewrite forallb_forall in H. specialize (H k ltac:(apply in_seq; lia)).
  unfold sched_ok in H. cbv zeta in H. unfold two_fft, naive_fft.
  set (size := 2 ^ N.of_nat k) in *.
  destruct (dists4_down 17 size (N.shiftr size 2)) as [ds d4].
  apply andb_prop in H. destruct H as [H H3]. apply andb_prop in H. destruct H as [H1 H2].
  unfold leqN in H1. destruct (list_eq_dec _ _ _) as [E|]; [|discriminate]. rewrite E. clear E H1.
  rewrite fold_left_app.
  assert (G : forall l0, N.of_nat (length l0) = size ->
            fold_left (naive_pass skewf (fft_bf ops) size size sd) (flat_map (fun d => [2 * d; d]) ds) l0 =
            fold_left (two_pass skewf (fft_two ops) size sd) ds l0 /\
            N.of_nat (length (fold_left (two_pass skewf (fft_two ops) size sd) ds l0)) = size).
  { clear Hl H3. induction ds as [|d ds IH]; intros l0 Hl0; [split; [reflexivity|exact Hl0]|].
    cbn [forallb] in H2. apply andb_prop in H2. destruct H2 as [Hd H2]. apply andb_prop in Hd. destruct Hd as [Hd0 Hdv].
    apply N.ltb_lt in Hd0. apply N.eqb_eq in Hdv.
    cbn [flat_map app fold_left]. rewrite <- (two_pass_naive size sd l0 d Hd0 Hl0 Hdv).
    apply (IH H2). unfold two_pass. rewrite Hl0.
    assert (L : length (two_layer skewf (fft_two ops) (N.to_nat (size / (4 * d))) (N.to_nat d) 0 size sd l0) = length l0).
    { assert (A1 : length l0 = (4 * N.to_nat d * N.to_nat (size / (4 * d)))%nat).
      { apply Nat2N.inj. rewrite !Nat2N.inj_mul, !N2Nat.id. change (N.of_nat 4) with 4. lia. }
      assert (A2 : 0 + N.of_nat (4 * N.to_nat d * N.to_nat (size / (4 * d))) <= size).
      { rewrite !Nat2N.inj_mul, !N2Nat.id. change (N.of_nat 4) with 4. lia. }
      rewrite (two_layer_naive ops skewf (N.to_nat (size / (4 * d))) (N.to_nat d) ltac:(lia) 0 size sd l0 A1 A2).
      rewrite glayer_length; rewrite glayer_length; try reflexivity; lia. }
    rewrite L. exact Hl0. }
  destruct (G l Hl) as [G1 G2]. rewrite G1.
  destruct (d4 =? 2); [|reflexivity]. cbn [fold_left]. unfold naive_pass.
  replace (2 * 1) with 2 by lia. reflexivity.
Qed.
End Equiv3.

(* ---------- the inverse transform ---------- *)
Section EquivI.
Context {T : Type} (ops : elt_ops T).
Variable skewf : N -> N.
Notation ilayer := (naive_layer skewf (ifft_bf ops)).

Lemma quad_block_i (f01 f23 f02 : T * T -> T * T) : forall A B C D : list T,
  length A = length B -> length A = length C -> length A = length D ->
  let q := map (fun x : (T * T) * (T * T) =>
                  let '((s0, s1), (s2, s3)) := x in
                  let '(s0, s1) := f01 (s0, s1) in
                  let '(s2, s3) := f23 (s2, s3) in
                  let '(s0, s2) := f02 (s0, s2) in
                  let '(s1, s3) := f02 (s1, s3) in
                  ((s0, s1), (s2, s3))) (combine (combine A B) (combine C D)) in
  let '(A1, B1) := bf2 f01 A B in
  let '(C1, D1) := bf2 f23 C D in
  let '(A2, C2) := bf2 f02 A1 C1 in
  let '(B2, D2) := bf2 f02 B1 D1 in
  map (fun x => fst (fst x)) q = A2 /\ map (fun x => snd (fst x)) q = B2 /\
  map (fun x => fst (snd x)) q = C2 /\ map (fun x => snd (snd x)) q = D2.
Proof.
  unfold bf2. induction A as [|a A IH]; intros [|b B] [|c C] [|d D] H1 H2 H3; try discriminate.
  - cbn. auto.
  - cbn in H1, H2, H3. specialize (IH B C D ltac:(lia) ltac:(lia) ltac:(lia)).
    cbn [combine map fst snd] in *.
    destruct (f01 (a, b)) as [a1 b1] eqn:E1. destruct (f23 (c, d)) as [c1 d1] eqn:E2.
    cbn [fst snd]. destruct (f02 (a1, c1)) as [a2 c2] eqn:E3. destruct (f02 (b1, d1)) as [b2 d2] eqn:E4.
    cbn [fst snd]. destruct IH as (I1 & I2 & I3 & I4). rewrite I1, I2, I3, I4. auto.
Qed.

Lemma two_layer_naive_i f d : (0 < d)%nat -> forall r trunc sd l,
  length l = (4 * d * f)%nat -> r + N.of_nat (4 * d * f) <= trunc ->
  two_layer skewf (ifft_two ops) f d r trunc sd l =
  ilayer f (2 * d) r trunc sd (ilayer (2 * f) d r trunc sd l).
Proof.
  intros Hd. induction f as [|f IH]; intros r trunc sd l Hl Ht; [reflexivity|].
  assert (Hr : (r <? trunc) = true) by (apply N.ltb_lt; lia).
  set (a := firstn d l). set (b := firstn d (skipn d l)).
  set (c := firstn d (skipn d (skipn d l))). set (dd := firstn d (skipn d (skipn d (skipn d l)))).
  set (tl := skipn d (skipn d (skipn d (skipn d l)))).
  assert (La : length a = d) by (unfold a; rewrite firstn_length; lia).
  assert (Lb : length b = d) by (unfold b; rewrite firstn_length, skipn_length; lia).
  assert (Lc : length c = d) by (unfold c; rewrite firstn_length, !skipn_length; lia).
  assert (Ld : length dd = d) by (unfold dd; rewrite firstn_length, !skipn_length; lia).
  assert (Ltl : length tl = (4 * d * f)%nat) by (unfold tl; rewrite !skipn_length; lia).
  cbn [two_layer]. rewrite Hr. fold a b c dd tl.
  set (dn := N.of_nat d). set (base := r + dn + sd - 1).
  set (m01 := skewf base). set (m02 := skewf (base + dn)). set (m23 := skewf (base + dn * 2)).
  (* right side, inner layer (dist d): two steps on the first block *)
  replace (2 * S f)%nat with (2 + 2 * f)%nat by lia.
  assert (El : l = (a ++ b ++ c ++ dd) ++ tl).
  { unfold a, b, c, dd, tl. rewrite <- !app_assoc.
    rewrite <- (firstn_skipn d l) at 1. f_equal.
    rewrite <- (firstn_skipn d (skipn d l)) at 1. f_equal.
    rewrite <- (firstn_skipn d (skipn d (skipn d l))) at 1. f_equal.
    rewrite <- (firstn_skipn d (skipn d (skipn d (skipn d l)))) at 1. reflexivity. }
  rewrite El at 1.
  rewrite (glayer_app skewf (ifft_bf ops) 2 (2 * f) d r trunc sd (a ++ b ++ c ++ dd) tl);
    [|rewrite !app_length; lia|exact Hd|lia].
  rewrite !app_length, La, Lb, Lc, Ld.
  cbn [naive_layer]. rewrite Hr.
  assert (Hr2 : (r + 2 * N.of_nat d <? trunc) = true) by (apply N.ltb_lt; lia). rewrite Hr2.
  rewrite (firstn_app_le' d a) by lia. rewrite (firstn_all2 a) by lia.
  rewrite (skipn_app_le' d a) by lia. rewrite (skipn_all2 a) by lia. cbn [app].
  rewrite (firstn_app_le' d b) by lia. rewrite (firstn_all2 b) by lia.
  rewrite (skipn_app_le' d b) by lia. rewrite (skipn_all2 b) by lia. cbn [app].
  rewrite (firstn_app_le' d c) by lia. rewrite (firstn_all2 c) by lia.
  rewrite (skipn_app_le' d c) by lia. rewrite (skipn_all2 c) by lia. cbn [app].
  rewrite (firstn_all2 dd) by lia. rewrite (skipn_all2 dd) by lia.
  fold dn. fold base. fold m01.
  assert (Em23 : skewf (r + 2 * dn + dn + sd - 1) = m23) by (unfold m23, base; f_equal; lia).
  rewrite Em23. cbn [naive_layer].
  pose proof (bf2_length (ifft_bf ops m01) a b) as [L1 L2]. pose proof (bf2_length (ifft_bf ops m23) c dd) as [L3 L4].
  pose proof (quad_block_i (ifft_bf ops m01) (ifft_bf ops m23) (ifft_bf ops m02) a b c dd ltac:(congruence) ltac:(congruence) ltac:(congruence)) as Q.
  cbv zeta in Q.
  destruct (bf2 (ifft_bf ops m01) a b) as [a1 b1] eqn:E1. destruct (bf2 (ifft_bf ops m23) c dd) as [c1 d1] eqn:E2.
  cbn [fst snd] in *. rewrite La, Lb, Nat.min_id in L1, L2. rewrite Lc, Ld, Nat.min_id in L3, L4.
  rewrite app_nil_r.
  (* outer layer (dist 2d) *)
  set (Y := ilayer (2 * f) d (r + N.of_nat (d + (d + (d + d)))) trunc sd tl).
  assert (LY : length Y = (4 * d * f)%nat) by (unfold Y; rewrite glayer_length; lia).
  rewrite <- !app_assoc.
  replace (firstn (2 * d) (a1 ++ b1 ++ c1 ++ d1 ++ Y)) with (a1 ++ b1).
  2:{ replace (2 * d)%nat with (d + d)%nat by lia. rewrite firstn_add.
      rewrite (firstn_app_le' d a1) by lia. rewrite (firstn_all2 a1) by lia.
      rewrite (skipn_app_le' d a1) by lia. rewrite (skipn_all2 a1) by lia. cbn [app].
      rewrite (firstn_app_le' d b1) by lia. rewrite (firstn_all2 b1) by lia. reflexivity. }
  replace (skipn (2 * d) (a1 ++ b1 ++ c1 ++ d1 ++ Y)) with (c1 ++ d1 ++ Y).
  2:{ replace (2 * d)%nat with (d + d)%nat by lia. rewrite skipn_add.
      rewrite (skipn_app_le' d a1) by lia. rewrite (skipn_all2 a1) by lia. cbn [app].
      rewrite (skipn_app_le' d b1) by lia. rewrite (skipn_all2 b1) by lia. reflexivity. }
  replace (firstn (2 * d) (c1 ++ d1 ++ Y)) with (c1 ++ d1).
  2:{ replace (2 * d)%nat with (d + d)%nat by lia. rewrite firstn_add.
      rewrite (firstn_app_le' d c1) by lia. rewrite (firstn_all2 c1) by lia.
      rewrite (skipn_app_le' d c1) by lia. rewrite (skipn_all2 c1) by lia. cbn [app].
      rewrite (firstn_app_le' d d1) by lia. rewrite (firstn_all2 d1) by lia. reflexivity. }
  replace (skipn (2 * d) (c1 ++ d1 ++ Y)) with Y.
  2:{ replace (2 * d)%nat with (d + d)%nat by lia. rewrite skipn_add.
      rewrite (skipn_app_le' d c1) by lia. rewrite (skipn_all2 c1) by lia. cbn [app].
      rewrite (skipn_app_le' d d1) by lia. rewrite (skipn_all2 d1) by lia. reflexivity. }
  assert (Em02 : skewf (r + N.of_nat (2 * d) + sd - 1) = m02) by (unfold m02, base, dn; f_equal; lia).
  rewrite Em02. rewrite (bf2_app (ifft_bf ops m02) a1 b1 c1 d1) by congruence.
  destruct (bf2 (ifft_bf ops m02) a1 c1) as [a2 c2]. destruct (bf2 (ifft_bf ops m02) b1 d1) as [b2 d2].
  cbn [fst snd]. destruct Q as (Q1 & Q2 & Q3 & Q4).
  unfold ifft_two. rewrite Q1, Q2, Q3, Q4.
  rewrite <- !app_assoc. do 4 f_equal.
  change (fun (m00 m0 m03 : N) '(s0, s1, (s2, s3)) =>
     let '(s4, s5) := ifft_bf ops m00 (s0, s1) in
      let '(s6, s7) := ifft_bf ops m0 (s2, s3) in
       let '(s8, s9) := ifft_bf ops m03 (s4, s6) in
        let '(s10, s11) := ifft_bf ops m03 (s5, s7) in (s8, s10, (s9, s11))) with (ifft_two ops).
  rewrite (IH (r + 4 * dn) trunc sd tl Ltl ltac:(unfold dn; lia)).
  unfold Y. replace (r + N.of_nat (d + (d + (d + d)))) with (r + 4 * dn) by (unfold dn; lia).
  replace (r + 2 * N.of_nat (2 * d)) with (r + 4 * dn) by (unfold dn; lia). reflexivity.
Qed.
End EquivI.

Section EquivI3.
Context {T : Type} (ops : elt_ops T).
Variable skewf : N -> N.

Definition sched_ok_i (k : nat) : bool :=
  let size := 2 ^ N.of_nat k in
  let '(ds, dl) := dists4_up 17 1 4 size in
  leqN (dists size) (flat_map (fun d => [d; 2 * d]) ds ++ (if dl <? size then [dl] else [])) &&
  forallb (fun d => (0 <? d) && (4 * d * (size / (4 * d)) =? size)) ds &&
  ((negb (dl <? size)) || ((size / (2 * dl) =? 1) && (0 <? dl))).
Lemma sched_ok_i_all : forallb sched_ok_i (seq 0 17) = true.
Proof. vm_compute. reflexivity. Qed.

Lemma two_pass_naive_i size sd l d : 0 < d -> N.of_nat (length l) = size -> 4 * d * (size / (4 * d)) = size ->
  two_pass skewf (ifft_two ops) size sd l d =
  naive_pass skewf (ifft_bf ops) size size sd (naive_pass skewf (ifft_bf ops) size size sd l d) (2 * d).
Proof.
  intros Hd Hl Hdiv. unfold two_pass, naive_pass. rewrite Hl.
  set (f := N.to_nat (size / (4 * d))).
  assert (Hf : N.of_nat f = size / (4 * d)) by (unfold f; apply N2Nat.id).
  assert (A1 : length l = (4 * N.to_nat d * f)%nat).
  { apply Nat2N.inj. rewrite Hl. rewrite !Nat2N.inj_mul, N2Nat.id, Hf. change (N.of_nat 4) with 4. lia. }
  assert (A2 : 0 + N.of_nat (4 * N.to_nat d * f) <= size).
  { rewrite !Nat2N.inj_mul, N2Nat.id, Hf. change (N.of_nat 4) with 4. lia. }
  rewrite (two_layer_naive_i ops skewf f (N.to_nat d) ltac:(lia) 0 size sd l A1 A2).
  replace (N.to_nat (size / (2 * (2 * d)))) with f by (unfold f; f_equal; f_equal; lia).
  replace (N.to_nat (2 * d)) with (2 * N.to_nat d)%nat by lia.
  replace (N.to_nat (size / (2 * d))) with (2 * f)%nat; [reflexivity|].
  unfold f. rewrite <- Hdiv at 2. replace (4 * d * (size / (4 * d))) with ((2 * (size / (4 * d))) * (2 * d)) by lia.
  rewrite N.div_mul by lia. lia.
Qed.

Theorem two_ifft_naive_ifft k sd l : (k <= 16)%nat -> N.of_nat (length l) = 2 ^ N.of_nat k ->
  two_ifft ops skewf (2 ^ N.of_nat k) (2 ^ N.of_nat k) sd l = naive_ifft ops skewf (2 ^ N.of_nat k) (2 ^ N.of_nat k) sd l.
Proof.
  intros Hk Hl. pose proof sched_ok_i_all as H. rewrite forallb_forall in H. specialize (H k ltac:(apply in_seq; lia)).
  unfold sched_ok_i in H. cbv zeta in H. unfold two_ifft, naive_ifft.
  set (size := 2 ^ N.of_nat k) in *.
  destruct (dists4_up 17 1 4 size) as [ds dl].
  apply andb_prop in H. destruct H as [H H3]. apply andb_prop in H. destruct H as [H1 H2].
  unfold leqN in H1. destruct (list_eq_dec _ _ _) as [E|]; [|discriminate]. rewrite E. clear E H1.
  rewrite fold_left_app.
  assert (G : forall l0, N.of_nat (length l0) = size ->
            fold_left (naive_pass skewf (ifft_bf ops) size size sd) (flat_map (fun d => [d; 2 * d]) ds) l0 =
            fold_left (two_pass skewf (ifft_two ops) size sd) ds l0 /\
            N.of_nat (length (fold_left (two_pass skewf (ifft_two ops) size sd) ds l0)) = size).
  { clear Hl H3. induction ds as [|d ds IH]; intros l0 Hl0; [split; [reflexivity|exact Hl0]|].
    cbn [forallb] in H2. apply andb_prop in H2. destruct H2 as [Hd H2]. apply andb_prop in Hd. destruct Hd as [Hd0 Hdv].
    apply N.ltb_lt in Hd0. apply N.eqb_eq in Hdv.
    cbn [flat_map app fold_left]. rewrite <- (two_pass_naive_i size sd l0 d Hd0 Hl0 Hdv).
    apply (IH H2). unfold two_pass. rewrite Hl0.
    assert (L : length (two_layer skewf (ifft_two ops) (N.to_nat (size / (4 * d))) (N.to_nat d) 0 size sd l0) = length l0).
    { assert (A1 : length l0 = (4 * N.to_nat d * N.to_nat (size / (4 * d)))%nat).
      { apply Nat2N.inj. rewrite !Nat2N.inj_mul, !N2Nat.id. change (N.of_nat 4) with 4. lia. }
      assert (A2 : 0 + N.of_nat (4 * N.to_nat d * N.to_nat (size / (4 * d))) <= size).
      { rewrite !Nat2N.inj_mul, !N2Nat.id. change (N.of_nat 4) with 4. lia. }
      rewrite (two_layer_naive_i ops skewf (N.to_nat (size / (4 * d))) (N.to_nat d) ltac:(lia) 0 size sd l0 A1 A2).
      rewrite glayer_length; rewrite glayer_length; try reflexivity; lia. }
    rewrite L. exact Hl0. }
  destruct (G l Hl) as [G1 G2]. rewrite G1.
  destruct (dl <? size) eqn:Edl; [|reflexivity]. cbn [negb orb] in H3.
  apply andb_prop in H3. destruct H3 as [H3 H4]. apply N.eqb_eq in H3. apply N.ltb_lt in H4.
  cbn [fold_left]. unfold naive_pass. rewrite H3. change (N.to_nat 1) with 1%nat.
  cbn [naive_layer].
  assert ((0 <? size) = true) as -> by (apply N.ltb_lt; apply N.ltb_lt in Edl; lia).
  rewrite Nat2N.id || rewrite N2Nat.id. rewrite N.add_0_l.
  destruct (bf2 _ _ _) as [a' b']. reflexivity.
Qed.
End EquivI3.

(* ---------- ifft is the inverse of fft (symbol level) ---------- *)
Section Inverse.
Variable skewf : N -> N.

Lemma bf_inverse m p : ifft_bf sym_ops m (fft_bf sym_ops m p) = p.
Proof.
  destruct p as [a b]. unfold ifft_bf, fft_bf, muladd. cbn [xorT mulT sym_ops].
  destruct (m =? GF_MODULUS).
  - rewrite N.lxor_assoc, N.lxor_nilpotent, N.lxor_0_r. reflexivity.
  - rewrite (N.lxor_assoc b), N.lxor_nilpotent, N.lxor_0_r.
    rewrite N.lxor_assoc, N.lxor_nilpotent, N.lxor_0_r. reflexivity.
Qed.
Lemma bf2_inverse m : forall a b, length a = length b ->
  bf2 (ifft_bf sym_ops m) (fst (bf2 (fft_bf sym_ops m) a b)) (snd (bf2 (fft_bf sym_ops m) a b)) = (a, b).
Proof.
  unfold bf2. cbn [fst snd]. induction a as [|x a IH]; intros [|y b] H; try discriminate; [reflexivity|].
  cbn in H. specialize (IH b ltac:(lia)).
  cbn [combine map fst snd].
  pose proof (bf_inverse m (x, y)) as Hb. destruct (fft_bf sym_ops m (x, y)) as [x' y']. cbn [fst snd]. rewrite Hb. cbn [fst snd].
  set (L := map fst (map (ifft_bf sym_ops m) _)) in *. set (Rr := map snd (map (ifft_bf sym_ops m) _)) in *.
  inversion IH as [[E1 E2]]. reflexivity.
Qed.

Lemma layer_inverse f d : (0 < d)%nat -> forall r trunc sd l, (2 * d * f <= length l)%nat ->
  naive_layer skewf (ifft_bf sym_ops) f d r trunc sd (naive_layer skewf (fft_bf sym_ops) f d r trunc sd l) = l.
Proof.
  intros Hd. induction f as [|f IH]; intros r trunc sd l Hl; [reflexivity|].
  cbn [naive_layer]. destruct (r <? trunc) eqn:Hr; [|cbn [naive_layer]; rewrite ?Hr; reflexivity].
  set (a := firstn d l). set (b := firstn d (skipn d l)). set (tl := skipn d (skipn d l)).
  assert (La : length a = d) by (unfold a; rewrite firstn_length; lia).
  assert (Lb : length b = d) by (unfold b; rewrite firstn_length, skipn_length; lia).
  set (m := skewf (r + N.of_nat d + sd - 1)).
  pose proof (bf2_inverse m a b ltac:(congruence)) as Hi.
  pose proof (bf2_length (fft_bf sym_ops m) a b) as [L1 L2].
  destruct (bf2 (fft_bf sym_ops m) a b) as [a' b']. cbn [fst snd] in *. rewrite La, Lb, Nat.min_id in L1, L2.
  cbn [naive_layer]. rewrite ?Hr.
  rewrite (firstn_app_le' d a') by lia. rewrite (firstn_all2 a') by lia.
  rewrite (skipn_app_le' d a') by lia. rewrite (skipn_all2 a') by lia. cbn [app].
  rewrite (firstn_app_le' d b') by lia. rewrite (firstn_all2 b') by lia.
  rewrite (skipn_app_le' d b') by lia. rewrite (skipn_all2 b') by lia. cbn [app].
  fold m. rewrite Hi. rewrite IH by (unfold tl; rewrite !skipn_length; lia).
  unfold a, b, tl. rewrite <- (firstn_skipn d l) at 4. f_equal. rewrite <- (firstn_skipn d (skipn d l)) at 3. reflexivity.
Qed.

Lemma fold_preserves {A} (fp : list N -> A -> list N) (P : list N -> Prop) (es : list A) :
  (forall l d, P l -> In d es -> P (fp l d)) -> forall l, P l -> P (fold_left fp es l).
Proof.
  induction es as [|e es IH]; intros H l Hl; [exact Hl|]. cbn [fold_left]. apply IH.
  - intros l1 d1 Hl1 Hd1. apply H; [exact Hl1|right; exact Hd1].
  - apply H; [exact Hl|left; reflexivity].
Qed.
Lemma folds_inverse {A} (fp ip : list N -> A -> list N) (P : list N -> Prop) (ds : list A) :
  (forall l d, P l -> In d ds -> ip (fp l d) d = l /\ P (fp l d)) ->
  forall l, P l -> fold_left ip ds (fold_left fp (rev ds) l) = l.
Proof.
  induction ds as [|d ds IH]; intros H l Hl; [reflexivity|].
  cbn [rev]. rewrite fold_left_app. cbn [fold_left].
  assert (Hin : P (fold_left fp (rev ds) l)).
  { apply fold_preserves; [|exact Hl]. intros l1 d1 Hl1 Hd1. apply H; [exact Hl1|]. right. apply in_rev. exact Hd1. }
  destruct (H (fold_left fp (rev ds) l) d Hin ltac:(left; reflexivity)) as [E _]. rewrite E.
  apply IH; [|exact Hl]. intros l1 d1 Hl1 Hd1. apply H; [exact Hl1|right; exact Hd1].
Qed.

Theorem naive_ifft_fft k trunc sd l : (k <= 16)%nat -> N.of_nat (length l) = 2 ^ N.of_nat k ->
  naive_ifft sym_ops skewf (2 ^ N.of_nat k) trunc sd (naive_fft sym_ops skewf (2 ^ N.of_nat k) trunc sd l) = l.
Proof.
  intros Hk Hl. unfold naive_ifft, naive_fft. set (size := 2 ^ N.of_nat k) in *.
  apply (folds_inverse _ _ (fun l0 => N.of_nat (length l0) = size)); [|exact Hl].
  intros l0 d Hl0 Hd.
  assert (Hdd : 0 < d /\ 2 * d * (size / (2 * d)) <= size).
  { assert (H : forallb (fun k => forallb (fun d => (0 <? d) && (2 * d * (2 ^ N.of_nat k / (2 * d)) <=? 2 ^ N.of_nat k)) (dists (2 ^ N.of_nat k))) (seq 0 17) = true)
      by (vm_compute; reflexivity).
    rewrite forallb_forall in H. specialize (H k ltac:(apply in_seq; lia)). rewrite forallb_forall in H.
    specialize (H d Hd). apply andb_prop in H. destruct H as [H1 H2]. apply N.ltb_lt in H1. apply N.leb_le in H2. auto. }
  destruct Hdd as [Hd0 Hdv]. unfold naive_pass. split.
  - apply layer_inverse; lia.
  - rewrite glayer_length by lia. exact Hl0.
Qed.
End Inverse.

(* ---------- summary for the engines of the model ---------- *)
Theorem fft_engines_agree {T} (ops : elt_ops T) e k sd l : (k <= 16)%nat -> N.of_nat (length l) = 2 ^ N.of_nat k ->
  fft ops e (2 ^ N.of_nat k) (2 ^ N.of_nat k) sd l = fft ops Naive (2 ^ N.of_nat k) (2 ^ N.of_nat k) sd l.
Proof.
  intros Hk Hl. unfold fft. destruct (two_layer_engine e); [|reflexivity]. cbn [two_layer_engine].
  apply two_fft_naive_fft; assumption.
Qed.
Theorem ifft_engines_agree {T} (ops : elt_ops T) e k sd l : (k <= 16)%nat -> N.of_nat (length l) = 2 ^ N.of_nat k ->
  ifft ops e (2 ^ N.of_nat k) (2 ^ N.of_nat k) sd l = ifft ops Naive (2 ^ N.of_nat k) (2 ^ N.of_nat k) sd l.
Proof.
  intros Hk Hl. unfold ifft. destruct (two_layer_engine e); [|reflexivity]. cbn [two_layer_engine].
  apply two_ifft_naive_ifft; assumption.
Qed.
Theorem ifft_fft_inverse e k sd l : (k <= 16)%nat -> N.of_nat (length l) = 2 ^ N.of_nat k ->
  ifft sym_ops e (2 ^ N.of_nat k) (2 ^ N.of_nat k) sd (fft sym_ops e (2 ^ N.of_nat k) (2 ^ N.of_nat k) sd l) = l.
Proof.
  intros Hk Hl. rewrite fft_engines_agree by assumption.
  rewrite ifft_engines_agree; [|assumption|].
  - unfold ifft, fft. cbn [two_layer_engine]. apply naive_ifft_fft; assumption.
  - unfold fft. cbn [two_layer_engine]. unfold naive_fft.
    (* length preserved *)
    assert (G : forall ds l0, N.of_nat (length l0) = 2 ^ N.of_nat k ->
                (forall d, In d ds -> 0 < d /\ 2 * d * (2 ^ N.of_nat k / (2 * d)) <= 2 ^ N.of_nat k) ->
                N.of_nat (length (fold_left (naive_pass skew (fft_bf sym_ops) (2 ^ N.of_nat k) (2 ^ N.of_nat k) sd) ds l0)) = 2 ^ N.of_nat k).
    { induction ds as [|d ds IH]; intros l0 Hl0 Hds; [exact Hl0|]. cbn [fold_left]. apply IH.
      - unfold naive_pass. destruct (Hds d ltac:(left; reflexivity)). rewrite glayer_length by lia. exact Hl0.
      - intros d' Hd'. apply Hds. right. exact Hd'. }
    apply G; [exact Hl|]. intros d Hd. apply in_rev in Hd.
    assert (H : forallb (fun k => forallb (fun d => (0 <? d) && (2 * d * (2 ^ N.of_nat k / (2 * d)) <=? 2 ^ N.of_nat k)) (dists (2 ^ N.of_nat k))) (seq 0 17) = true)
      by (vm_compute; reflexivity).
    rewrite forallb_forall in H. specialize (H k ltac:(apply in_seq; lia)). rewrite forallb_forall in H.
    specialize (H d Hd). apply andb_prop in H. destruct H as [H1 H2]. apply N.ltb_lt in H1. apply N.leb_le in H2. auto.
Qed.
