(* encode / decode of rate_high.rs and rate_low.rs on a work vector (list of
   elements, one per work position), polymorphic in the element type. *)
From Coq Require Import NArith List Bool.
From RS.Gen Require Import Prelude GenConsts.
From RS.Model Require Import Field Tables Sched.
Import ListNotations.
Local Open Scope N_scope.

Definition np2 (x : N) : N := npow2 x.
Definition next_mult (a b : N) : N := let r := a mod b in if r =? 0 then a else a + (b - r).

Definition high_enc_work_count (K R : N) : N := next_mult K (np2 R).
Definition high_dec_work_count (K R : N) : N := np2 (np2 R + K).
Definition low_enc_work_count (K R : N) : N := next_mult R (np2 K).
Definition low_dec_work_count (K R : N) : N := np2 (np2 K + R).

Section Codec.
Context {T : Type} (ops : elt_ops T).
Variable e : engine.

Definition zeros (n : nat) : list T := repeat (zeroT ops) n.
Definition xor_list (a b : list T) : list T := map2 (xorT ops) a b.

(* work.zero(from..) on a chunk: keep the first [keep] elements, zero the rest *)
Definition zero_tail (keep : nat) (l : list T) : list T :=
  firstn keep l ++ zeros (length l - keep).

Fixpoint chunks (fuel : nat) (m : nat) (l : list T) : list (list T) :=
  match fuel with
  | O => []
  | S f => match l with [] => [] | _ => firstn m l :: chunks f m (skipn m l) end
  end.

(* ---------- HighRateEncoder::encode ---------- *)
(* remaining chunks: full chunks while chunk_start + chunk_size <= original_count,
   then the final partial chunk if original_count % chunk_size > 0 *)
Fixpoint high_enc_chunks (K m : N) (cs : N) (acc : list T) (cl : list (list T)) : list T :=
  match cl with
  | [] => acc
  | c :: rest =>
    if cs + m <=? K then
      let c' := ifft ops e m m (cs + m) c in
      high_enc_chunks K m (cs + m) (xor_list acc c') rest
    else
      let last := K mod m in
      if 0 <? last then
        let c0 := zero_tail (N.to_nat last) c in
        let c' := ifft ops e m last (cs + m) c0 in
        xor_list acc c'
      else acc
  end.

Definition encode_high (K R : N) (work : list T) : list T :=
  let m := np2 R in
  let mn := N.to_nat m in
  let first_count := N.min K m in
  let cl := chunks (length work) mn work in
  match cl with
  | [] => []
  | c0 :: rest =>
    let c0 := zero_tail (N.to_nat first_count) c0 in
    let c0 := ifft ops e m first_count m c0 in
    let acc := if m <? K then high_enc_chunks K m m c0 rest else c0 in
    firstn (N.to_nat R) (fft ops e m R 0 acc)
  end.

(* ---------- LowRateEncoder::encode ---------- *)
Fixpoint low_enc_chunks (fuel : nat) (R m : N) (cs : N) (coeffs : list T) : list T :=
  match fuel with
  | O => []
  | S f =>
    if cs + m <=? R then
      fft ops e m m (cs + m) coeffs ++ low_enc_chunks f R m (cs + m) coeffs
    else
      let last := R mod m in
      if 0 <? last then fft ops e m last (cs + m) coeffs else []
  end.

Definition encode_low (K R : N) (work : list T) : list T :=
  let m := np2 K in
  let c0 := zero_tail (N.to_nat K) (firstn (N.to_nat m) work) in
  let coeffs := ifft ops e m K 0 c0 in
  firstn (N.to_nat R) (low_enc_chunks (S (N.to_nat (R / m))) R m 0 coeffs).

(* ---------- decoders ---------- *)
(* work[i] = received ? work[i] * erasures[i] : 0 *)
Definition mul_or_zero (recv : N -> bool) (i : N) (er : N) (x : T) : T :=
  if recv i then mulT ops x er else zeroT ops.
Definition reveal (recv : N -> bool) (i : N) (er : N) (x : T) : T :=
  if recv i then x else mulT ops x (GF_MODULUS - er).

(* f position erasure-log element, over the whole work vector *)
Definition mapi (f : N -> N -> T -> T) (er : list N) (l : list T) : list T :=
  map (fun p => f (fst (fst p)) (snd (fst p)) (snd p))
      (combine (combine (range 0 (N.of_nat (length l))) er) l).

Definition transform (n trunc : N) (w : list T) : list T :=
  let w := ifft ops e n trunc 0 w in
  let w := formal_derivative ops w in
  fft ops e n trunc 0 w.

(* HighRateDecoder::decode when something is missing.  [recv] is indexed by work
   position: recovery j at j, original i at chunk_size + i. *)
Definition high_erasures (K R : N) (recv : N -> bool) : list N :=
  let m := np2 R in let oe := m + K in
  map (fun i => if i <? R then (if recv i then 0 else 1)
                else if i <? m then 1
                else if i <? oe then (if recv i then 0 else 1)
                else 0) (range 0 GF_ORDER).

Definition decode_high_work (K R : N) (recv : N -> bool) (work : list T) : list N * list T :=
  let m := np2 R in let oe := m + K in
  let n := N.of_nat (length work) in
  let er := eval_poly (high_erasures K R recv) oe in
  let w := mapi (fun i ei x =>
             if i <? R then mul_or_zero recv i ei x
             else if i <? m then zeroT ops
             else if i <? oe then mul_or_zero recv i ei x
             else zeroT ops) er work in
  let w := transform n oe w in
  (er, mapi (fun i ei x => if (m <=? i) && (i <? oe) then reveal recv i ei x else x) er w).

Definition low_erasures (K R : N) (recv : N -> bool) : list N :=
  let m := np2 K in let re := m + R in
  map (fun i => if i <? K then (if recv i then 0 else 1)
                else if i <? m then 0
                else if i <? re then (if recv i then 0 else 1)
                else 1) (range 0 GF_ORDER).

Definition decode_low_work (K R : N) (recv : N -> bool) (work : list T) : list N * list T :=
  let m := np2 K in let re := m + R in
  let n := N.of_nat (length work) in
  let er := eval_poly (low_erasures K R recv) GF_ORDER in
  let w := mapi (fun i ei x =>
             if i <? K then mul_or_zero recv i ei x
             else if i <? m then zeroT ops
             else if i <? re then mul_or_zero recv i ei x
             else zeroT ops) er work in
  let w := transform n re w in
  (er, mapi (fun i ei x => if i <? K then reveal recv i ei x else x) er w).
End Codec.
