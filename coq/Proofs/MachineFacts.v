(* Facts about the API state machine (Model/Machine.v): failed calls, truthful
   errors, accessors. *)
From Coq Require Import NArith Lia Bool List FMapPositive.
From RS.Gen Require Import Prelude GenConsts.
From RS.Model Require Import Field Tables Sched Codec Layout Machine Admissible.
Import ListNotations.
Local Open Scope N_scope.

Section Facts.
Variable junk : N -> N -> N -> N.

Lemma noalloc_idem s : noalloc (noalloc s) = noalloc s.
Proof. reflexivity. Qed.

(* the allocation flag of the previous call has no influence on the next one *)
Lemma step_noalloc s o : step junk (noalloc s) o = step junk s o.
Proof. reflexivity. Qed.

Definition is_neww (o : op) : bool :=
  match o with ENewW _ _ _ _ _ | DNewW _ _ _ _ _ => true | _ => false end.

(* ---------- C07: a failed call changes nothing ---------- *)
Theorem step_err_state s o s' e :
  step junk s o = (s', RError e) ->
  s_enc s' = s_enc s /\ s_dec s' = s_dec s /\ s_epoch s' = s_epoch s /\
  (is_neww o = false -> s' = noalloc s).
Proof.
  unfold step. destruct o; cbn [is_neww]; intros H;
  repeat match goal with
  | H : (let '(_, _) := ?x in _) = _ |- _ => destruct x eqn:?
  | H : match ?x with _ => _ end = _ |- _ => destruct x eqn:?
  | H : (_, _) = (_, _) |- _ => inversion H; subst; clear H
  end; cbn; try (repeat split; (reflexivity || discriminate || (intros; discriminate))).
Qed.

(* a state that differs only in the allocation flag behaves identically *)
Theorem err_then_same s o s' e ops :
  step junk s o = (s', RError e) -> is_neww o = false ->
  snd (run junk s' ops) = snd (run junk s ops).
Proof.
  intros H Hn. destruct (step_err_state _ _ _ _ H) as (_ & _ & _ & Hs). rewrite (Hs Hn).
  destruct ops as [|o1 rest]; [reflexivity|].
  unfold run. cbn [fold_left]. rewrite step_noalloc. reflexivity.
Qed.

(* ---------- C06: errors are truthful, valid calls succeed (streaming API) ---------- *)
Definition is_oneshot (o : op) : bool :=
  match o with OneEnc _ _ _ | OneDec _ _ _ _ => true | _ => false end.

Lemma in_app_l {A} (x : A) l1 l2 : In x l1 -> In x (l1 ++ l2).
Proof. intros; apply in_or_app; auto. Qed.
Lemma in_app_r {A} (x : A) l1 l2 : In x l2 -> In x (l1 ++ l2).
Proof. intros; apply in_or_app; auto. Qed.

Lemma enc_make_err c e K R sb w err :
  enc_make c e K R sb w = inr err -> In err (adm_config c K R sb).
Proof.
  unfold enc_make, adm_config, validateb.
  destruct (negb (supportsb c K R)); [intros [= <-]; left; reflexivity|].
  destruct (bad_size sb); [intros [= <-]; left; reflexivity|].
  destruct (encwork_reset _ _ _ _ _); discriminate.
Qed.
Lemma dec_make_err c e K R sb w err :
  dec_make c e K R sb w = inr err -> In err (adm_config c K R sb).
Proof.
  unfold dec_make, adm_config, validateb.
  destruct (negb (supportsb c K R)); [intros [= <-]; left; reflexivity|].
  destruct (bad_size sb); [intros [= <-]; left; reflexivity|].
  destruct (decwork_reset _ _ _ _ _); discriminate.
Qed.
Lemma enc_make_ok c e K R sb w : adm_config c K R sb = [] -> exists xa, enc_make c e K R sb w = inl xa.
Proof.
  unfold enc_make, adm_config, validateb.
  destruct (negb (supportsb c K R)); [discriminate|].
  destruct (bad_size sb); [discriminate|]. intros _.
  destruct (encwork_reset _ _ _ _ _); eexists; reflexivity.
Qed.
Lemma dec_make_ok c e K R sb w : adm_config c K R sb = [] -> exists xa, dec_make c e K R sb w = inl xa.
Proof.
  unfold dec_make, adm_config, validateb.
  destruct (negb (supportsb c K R)); [discriminate|].
  destruct (bad_size sb); [discriminate|]. intros _.
  destruct (decwork_reset _ _ _ _ _); eexists; reflexivity.
Qed.

Lemma enc_add_err x shard err : enc_add x shard = inr err -> In err (adm_enc_add (e_work x) shard).
Proof.
  unfold enc_add, adm_enc_add, adm_len.
  destruct (ew_recv (e_work x) =? ew_K (e_work x)); [intros [= <-]; left; reflexivity|].
  destruct (negb (blen shard =? ew_sb (e_work x))); [intros [= <-]; left; reflexivity|discriminate].
Qed.
Lemma enc_add_ok x shard : adm_enc_add (e_work x) shard = [] -> exists x', enc_add x shard = inl x'.
Proof.
  unfold enc_add, adm_enc_add, adm_len.
  destruct (ew_recv (e_work x) =? ew_K (e_work x)); [discriminate|].
  destruct (negb (blen shard =? ew_sb (e_work x))); [discriminate|]. eexists; reflexivity.
Qed.

Lemma dec_addo_err x i shard err : dec_add_original x i shard = inr err -> In err (adm_dec_addo (d_work x) i shard).
Proof.
  unfold dec_add_original, adm_dec_addo, adm_len.
  destruct (dw_K (d_work x) <=? i); [intros [= <-]; left; reflexivity|].
  destruct (pmem _ _); [intros [= <-]; left; reflexivity|].
  destruct (negb _); [intros [= <-]; left; reflexivity|discriminate].
Qed.
Lemma dec_addr_err x i shard err : dec_add_recovery x i shard = inr err -> In err (adm_dec_addr (d_work x) i shard).
Proof.
  unfold dec_add_recovery, adm_dec_addr, adm_len.
  destruct (dw_R (d_work x) <=? i); [intros [= <-]; left; reflexivity|].
  destruct (pmem _ _); [intros [= <-]; left; reflexivity|].
  destruct (negb _); [intros [= <-]; left; reflexivity|discriminate].
Qed.
Lemma dec_addo_ok x i shard : adm_dec_addo (d_work x) i shard = [] -> exists x', dec_add_original x i shard = inl x'.
Proof.
  unfold dec_add_original, adm_dec_addo, adm_len.
  destruct (dw_K (d_work x) <=? i); [discriminate|].
  destruct (pmem _ _); [discriminate|].
  destruct (negb _); [discriminate|]. eexists; reflexivity.
Qed.
Lemma dec_addr_ok x i shard : adm_dec_addr (d_work x) i shard = [] -> exists x', dec_add_recovery x i shard = inl x'.
Proof.
  unfold dec_add_recovery, adm_dec_addr, adm_len.
  destruct (dw_R (d_work x) <=? i); [discriminate|].
  destruct (pmem _ _); [discriminate|].
  destruct (negb _); [discriminate|]. eexists; reflexivity.
Qed.

(* every error the machine reports is a member of the truthful set *)
Theorem step_err_truthful s o s' e :
  is_oneshot o = false -> step junk s o = (s', RError e) -> In e (admissible s o).
Proof.
  intros Ho. unfold step, admissible.
  destruct o; try discriminate Ho; cbn [s_enc s_dec noalloc].
  - destruct (enc_make _ _ _ _ _ _) as [[? ?]|err] eqn:E; [discriminate|]. intros [= _ <-]. eapply enc_make_err; eauto.
  - destruct c.
    + destruct (enc_make _ _ _ _ _ _) as [[? ?]|err] eqn:E; [discriminate|]. intros [= _ <-]. eapply enc_make_err; eauto.
    + destruct (enc_make _ _ _ _ _ _) as [[? ?]|err] eqn:E; [discriminate|]. intros [= _ <-]. eapply enc_make_err; eauto.
    + destruct (enc_make _ _ _ _ _ _) as [[? ?]|err] eqn:E; [discriminate|]. intros [= _ <-]. eapply enc_make_err; eauto.
    + destruct (enc_make _ _ _ _ _ _) as [[? ?]|err] eqn:E; [discriminate|]. intros [= _ <-]. eapply enc_make_err; eauto.
  - destruct (s_enc s); discriminate.
  - destruct (s_enc s) as [x|]; [|discriminate].
    destruct (enc_make _ _ _ _ _ _) as [[? ?]|err] eqn:E; [discriminate|]. intros [= _ <-]. eapply enc_make_err; eauto.
  - destruct (s_enc s) as [x|]; [|discriminate].
    destruct (enc_add x shard) eqn:E; [discriminate|]. intros [= _ <-]. apply enc_add_err; auto.
  - destruct (s_enc s) as [x|]; [|discriminate]. unfold enc_encode.
    destruct (negb (ew_recv (e_work x) =? ew_K (e_work x))); [intros [= _ <-]; left; reflexivity|discriminate].
  - destruct (dec_make _ _ _ _ _ _) as [[? ?]|err] eqn:E; [discriminate|]. intros [= _ <-]. eapply dec_make_err; eauto.
  - destruct c.
    + destruct (dec_make _ _ _ _ _ _) as [[? ?]|err] eqn:E; [discriminate|]. intros [= _ <-]. eapply dec_make_err; eauto.
    + destruct (dec_make _ _ _ _ _ _) as [[? ?]|err] eqn:E; [discriminate|]. intros [= _ <-]. eapply dec_make_err; eauto.
    + destruct (dec_make _ _ _ _ _ _) as [[? ?]|err] eqn:E; [discriminate|]. intros [= _ <-]. eapply dec_make_err; eauto.
    + destruct (dec_make _ _ _ _ _ _) as [[? ?]|err] eqn:E; [discriminate|]. intros [= _ <-]. eapply dec_make_err; eauto.
  - destruct (s_dec s); discriminate.
  - destruct (s_dec s) as [x|]; [|discriminate].
    destruct (dec_make _ _ _ _ _ _) as [[? ?]|err] eqn:E; [discriminate|]. intros [= _ <-]. eapply dec_make_err; eauto.
  - destruct (s_dec s) as [x|]; [|discriminate].
    destruct (dec_add_original x idx shard) eqn:E; [discriminate|]. intros [= _ <-]. apply dec_addo_err; auto.
  - destruct (s_dec s) as [x|]; [|discriminate].
    destruct (dec_add_recovery x idx shard) eqn:E; [discriminate|]. intros [= _ <-]. apply dec_addr_err; auto.
  - destruct (s_dec s) as [x|]; [|discriminate]. unfold dec_decode.
    destruct (dw_orecv (d_work x) + dw_rrecv (d_work x) <? dw_K (d_work x)); [intros [= _ <-]; left; reflexivity|].
    destruct (dw_orecv (d_work x) =? dw_K (d_work x)); discriminate.
  - discriminate.
  - unfold adm_config, validateb. destruct (negb (supportsb c K R)); [intros [= _ <-]; left; reflexivity|].
    destruct (bad_size sb); [intros [= _ <-]; left; reflexivity|discriminate].
Qed.

(* a call that violates no documented precondition does not fail; a call on a
   missing object is outside the API (RNoObj) *)
Theorem step_valid_ok s o s' r :
  is_oneshot o = false -> admissible s o = [] -> step junk s o = (s', r) ->
  forall e, r <> RError e.
Proof.
  intros Ho Ha Hs e He. subst r. pose proof (step_err_truthful _ _ _ _ Ho Hs) as Hin. rewrite Ha in Hin. destruct Hin.
Qed.

(* ... and conversely a call that violates one is rejected *)
Theorem step_invalid_err s o :
  is_oneshot o = false -> admissible s o <> [] -> exists e, snd (step junk s o) = RError e.
Proof.
  intros Ho. unfold step, admissible.
  destruct o; try discriminate Ho; cbn [s_enc s_dec noalloc]; intros Ha.
  - destruct (enc_make c e K R sb encwork_new) as [[? ?]|err] eqn:E; [|eexists; reflexivity].
    exfalso. revert E Ha. unfold enc_make, adm_config, validateb.
    destruct (negb (supportsb c K R)); [discriminate|]. destruct (bad_size sb); [discriminate|]. intros _ H; apply H; reflexivity.
  - assert (Hm : forall w, exists err, enc_make c e K R sb w = inr err).
    { intros w. revert Ha. unfold enc_make, adm_config, validateb.
      destruct (negb (supportsb c K R)); [eexists; reflexivity|]. destruct (bad_size sb); [eexists; reflexivity|]. intros H; exfalso; apply H; reflexivity. }
    destruct c; cbn; match goal with |- context [enc_make ?c ?e ?K ?R ?sb ?w] => destruct (Hm w) as [err ->] end; eexists; reflexivity.
  - exfalso; apply Ha; reflexivity.
  - destruct (s_enc s) as [x|]; [|exfalso; apply Ha; reflexivity].
    revert Ha. unfold enc_make, adm_config, validateb.
    destruct (negb (supportsb (e_codec x) K R)); [eexists; reflexivity|]. destruct (bad_size sb); [eexists; reflexivity|]. intros H; exfalso; apply H; reflexivity.
  - destruct (s_enc s) as [x|]; [|exfalso; apply Ha; reflexivity].
    destruct (enc_add x shard) eqn:E; [|eexists; reflexivity]. exfalso. revert E Ha. unfold enc_add, adm_enc_add, adm_len.
    destruct (_ =? _); [discriminate|]. destruct (negb _); [discriminate|]. intros _ H; apply H; reflexivity.
  - destruct (s_enc s) as [x|]; [|exfalso; apply Ha; reflexivity]. unfold enc_encode.
    destruct (negb (ew_recv (e_work x) =? ew_K (e_work x))); [eexists; reflexivity|exfalso; apply Ha; reflexivity].
  - destruct (dec_make c e K R sb decwork_new) as [[? ?]|err] eqn:E; [|eexists; reflexivity].
    exfalso. revert E Ha. unfold dec_make, adm_config, validateb.
    destruct (negb (supportsb c K R)); [discriminate|]. destruct (bad_size sb); [discriminate|]. intros _ H; apply H; reflexivity.
  - assert (Hm : forall w, exists err, dec_make c e K R sb w = inr err).
    { intros w. revert Ha. unfold dec_make, adm_config, validateb.
      destruct (negb (supportsb c K R)); [eexists; reflexivity|]. destruct (bad_size sb); [eexists; reflexivity|]. intros H; exfalso; apply H; reflexivity. }
    destruct c; cbn; match goal with |- context [dec_make ?c ?e ?K ?R ?sb ?w] => destruct (Hm w) as [err ->] end; eexists; reflexivity.
  - exfalso; apply Ha; reflexivity.
  - destruct (s_dec s) as [x|]; [|exfalso; apply Ha; reflexivity].
    revert Ha. unfold dec_make, adm_config, validateb.
    destruct (negb (supportsb (d_codec x) K R)); [eexists; reflexivity|]. destruct (bad_size sb); [eexists; reflexivity|]. intros H; exfalso; apply H; reflexivity.
  - destruct (s_dec s) as [x|]; [|exfalso; apply Ha; reflexivity].
    destruct (dec_add_original x idx shard) eqn:E; [|eexists; reflexivity]. exfalso. revert E Ha. unfold dec_add_original, adm_dec_addo, adm_len.
    destruct (_ <=? _); [discriminate|]. destruct (pmem _ _); [discriminate|]. destruct (negb _); [discriminate|]. intros _ H; apply H; reflexivity.
  - destruct (s_dec s) as [x|]; [|exfalso; apply Ha; reflexivity].
    destruct (dec_add_recovery x idx shard) eqn:E; [|eexists; reflexivity]. exfalso. revert E Ha. unfold dec_add_recovery, adm_dec_addr, adm_len.
    destruct (_ <=? _); [discriminate|]. destruct (pmem _ _); [discriminate|]. destruct (negb _); [discriminate|]. intros _ H; apply H; reflexivity.
  - destruct (s_dec s) as [x|]; [|exfalso; apply Ha; reflexivity]. unfold dec_decode.
    destruct (dw_orecv (d_work x) + dw_rrecv (d_work x) <? dw_K (d_work x)); [eexists; reflexivity|exfalso; apply Ha; reflexivity].
  - exfalso; apply Ha; reflexivity.
  - revert Ha. unfold adm_config, validateb. destruct (negb (supportsb c K R)); [eexists; reflexivity|].
    destruct (bad_size sb); [eexists; reflexivity|]. intros H; exfalso; apply H; reflexivity.
Qed.

End Facts.
