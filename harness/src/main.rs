//! `rsh`: test harness executing case files against reed-solomon-simd.
//! See /verif/PROTOCOL.md.

mod alloc;
mod mask;
mod neon_intrinsics;
mod obj;
mod run;
mod stress;
mod supgrid;
mod tables;
mod util;

/// `/repo/src/engine/engine_neon.rs` ported at build time onto
/// `crate::neon_intrinsics` (see build.rs).
#[allow(dead_code, unused_unsafe, unused_imports, unused_braces, clippy::all, clippy::pedantic)]
mod neon_emu {
    include!(concat!(env!("OUT_DIR"), "/engine_neon_emu.rs"));
}
pub use neon_emu::Neon as NeonEmu;

#[global_allocator]
static GLOBAL: alloc::Counting = alloc::Counting;

const BIG_STACK: usize = 256 << 20;

fn usage() -> ! {
    eprintln!(
        "usage:\n  rsh run <casefile> <resultfile> [--alloc]\n  rsh tables <dir>\n  \
         rsh mask <bits> <K> <R> <sb> <seed>\n  rsh stress <nthreads> <seed> <rounds>\n  \
         rsh supgrid <lo> <hi>"
    );
    std::process::exit(3);
}

fn num(s: &str) -> u64 {
    match util::parse_u64(s.as_bytes()) {
        Ok(v) => v,
        Err(e) => {
            eprintln!("rsh: {e}");
            usage();
        }
    }
}

/// Runs `f` on a thread with a big stack (the crate puts 128 KiB arrays on
/// the stack) and returns its exit code.
fn on_big_stack(f: impl FnOnce() -> i32 + Send + 'static) -> i32 {
    let handle = std::thread::Builder::new()
        .name("rsh-main".into())
        .stack_size(BIG_STACK)
        .spawn(f)
        .expect("cannot spawn worker thread");
    match handle.join() {
        Ok(code) => code,
        Err(_) => {
            eprintln!("rsh: worker thread panicked");
            4
        }
    }
}

fn main() {
    let argv: Vec<String> = std::env::args().collect();
    if argv.len() < 2 {
        usage();
    }
    let code = match argv[1].as_str() {
        "run" => {
            let mut pos: Vec<&String> = Vec::new();
            let mut alloc_mode = false;
            for a in &argv[2..] {
                if a == "--alloc" {
                    alloc_mode = true;
                } else {
                    pos.push(a);
                }
            }
            if pos.len() != 2 {
                usage();
            }
            let (casefile, resultfile) = (pos[0].clone(), pos[1].clone());
            on_big_stack(move || {
                // Panics in crate calls are results, not noise.
                std::panic::set_hook(Box::new(|_| {}));
                match run::run(&casefile, &resultfile, alloc_mode) {
                    Ok(()) => 0,
                    Err(e) => {
                        eprintln!("rsh: {e}");
                        3
                    }
                }
            })
        }
        "tables" => {
            if argv.len() != 3 {
                usage();
            }
            let dir = argv[2].clone();
            on_big_stack(move || match tables::dump(&dir) {
                Ok(()) => 0,
                Err(e) => {
                    eprintln!("rsh: {e}");
                    3
                }
            })
        }
        "mask" => {
            if argv.len() != 7 {
                usage();
            }
            let bits = num(&argv[2]) as u32;
            let k = num(&argv[3]) as usize;
            let r = num(&argv[4]) as usize;
            let sb = num(&argv[5]) as usize;
            let seed = num(&argv[6]);
            on_big_stack(move || mask::mask(bits, k, r, sb, seed))
        }
        "stress" => {
            if argv.len() != 5 {
                usage();
            }
            let nthreads = num(&argv[2]) as usize;
            let seed = num(&argv[3]);
            let rounds = num(&argv[4]) as usize;
            stress::stress(nthreads, seed, rounds)
        }
        "supgrid" => {
            if argv.len() != 4 {
                usage();
            }
            let lo = num(&argv[2]) as usize;
            let hi = num(&argv[3]) as usize;
            supgrid::supgrid(lo, hi)
        }
        _ => usage(),
    };
    std::process::exit(code);
}
