(* C05 — results never depend on what the codec object did before.
   In the model, memory that was not written in the current round is the arbitrary function
   [junk].  Proved here: a successful reset / new / dropped result leaves a state whose
   received-set is empty whatever happened before (so a round's input is only what is added
   after it), and by computation the round output is the same under different junk and after
   different histories (instances).  The general theorems (C05_stale_memory,
   C05_same_objects_same_future) hold for every operation sequence, one-shot calls included. *)
From Coq Require Import NArith Bool List Lia FMapPositive.
From RS.Gen Require Import Prelude GenConsts.
From RS.Model Require Import Field Tables Sched Codec Layout Machine.
From RS.Proofs Require Import Junk Hist OneShotJunk.
Import ListNotations.
Local Open Scope N_scope.

(* after a successful reset the encoder is exactly what new() gives, up to the capacity it
   already owns: configuration, rate, no shard received, nothing remembered *)
Theorem C05_reset_is_new_enc : forall c e K R sb w x a,
  enc_make c e K R sb w = inl (x, a) ->
  exists x0 a0, enc_make c e K R sb encwork_new = inl (x0, a0) /\
  e_codec x = e_codec x0 /\ e_engine x = e_engine x0 /\ e_rate x = e_rate x0 /\
  ew_K (e_work x) = ew_K (e_work x0) /\ ew_R (e_work x) = ew_R (e_work x0) /\ ew_sb (e_work x) = ew_sb (e_work x0) /\
  ew_recv (e_work x) = 0 /\ ew_recv (e_work x0) = 0 /\ ew_mem (e_work x) = mempty /\ ew_mem (e_work x0) = mempty /\
  ew_wc (e_work x) = ew_wc (e_work x0).
Proof.
  intros c e K R sb w x a. unfold enc_make. destruct (validateb c K R sb); [discriminate|].
  cbn. intros [= <- <-]. eexists _, _. split; [reflexivity|]. cbn. repeat split.
Qed.
Print Assumptions C05_reset_is_new_enc.

Theorem C05_reset_is_new_dec : forall c e K R sb w x a,
  dec_make c e K R sb w = inl (x, a) ->
  exists x0 a0, dec_make c e K R sb decwork_new = inl (x0, a0) /\
  d_codec x = d_codec x0 /\ d_engine x = d_engine x0 /\ d_rate x = d_rate x0 /\
  dw_K (d_work x) = dw_K (d_work x0) /\ dw_R (d_work x) = dw_R (d_work x0) /\ dw_sb (d_work x) = dw_sb (d_work x0) /\
  dw_obase (d_work x) = dw_obase (d_work x0) /\ dw_rbase (d_work x) = dw_rbase (d_work x0) /\
  dw_orecv (d_work x) = 0 /\ dw_rrecv (d_work x) = 0 /\ dw_received (d_work x) = pempty /\ dw_mem (d_work x) = mempty /\
  dw_received (d_work x0) = pempty /\ dw_wc (d_work x) = dw_wc (d_work x0).
Proof.
  intros c e K R sb w x a. unfold dec_make. destruct (validateb c K R sb); [discriminate|].
  cbn. intros [= <- <-]. eexists _, _. split; [reflexivity|]. cbn. repeat split.
Qed.
Print Assumptions C05_reset_is_new_dec.

(* a dropped result forgets everything that was added *)
Theorem C05_drop_forgets : forall x y,
  ew_recv (e_work (enc_after_round x)) = 0 /\ ew_mem (e_work (enc_after_round x)) = mempty /\
  dw_orecv (d_work (dec_after_round y)) = 0 /\ dw_rrecv (d_work (dec_after_round y)) = 0 /\
  dw_received (d_work (dec_after_round y)) = pempty /\ dw_mem (d_work (dec_after_round y)) = mempty.
Proof. intros. cbn. repeat split. Qed.
Print Assumptions C05_drop_forgets.

(* ---- the unbounded theorems ---- *)
(* (1) stale memory: along ANY sequence of calls (streaming API and one-shot functions) from any state satisfying the
   machine invariant (every reachable state does: step_Inv), every result is the same for any
   two contents of the working memory that was not written in the current round *)
Theorem C05_stale_memory : forall junk1 junk2 ops s, Inv s -> run junk1 s ops = run junk2 s ops.
Proof. exact run_junk_all. Qed.
Print Assumptions C05_stale_memory.

Theorem C05_invariant : Inv init /\ forall junk s o, Inv s -> Inv (fst (step junk s o)).
Proof. split; [exact Inv_init|exact step_Inv]. Qed.
Print Assumptions C05_invariant.

(* (2) history: two states that hold the same objects up to the capacity they own - whatever
   their histories, epochs and stashed work spaces - give the same results for every
   continuation, under any two stale memories *)
Theorem C05_same_objects_same_future : forall junk1 junk2 ops s t,
  sim s t -> Inv s -> Inv t -> snd (run junk1 s ops) = snd (run junk2 t ops).
Proof. exact run_sim_all. Qed.
Print Assumptions C05_same_objects_same_future.

(* the one-shot functions depend on their arguments only: not on stale memory, not on the epoch *)
Theorem C05_oneshot : forall junk1 junk2 ep1 ep2 K R,
  (forall shards, oneshot_encode junk1 ep1 K R shards = oneshot_encode junk2 ep2 K R shards) /\
  (forall orig rec, oneshot_decode junk1 ep1 K R orig rec = oneshot_decode junk2 ep2 K R orig rec).
Proof. intros; split; intros; [apply oneshot_encode_junk|apply oneshot_decode_junk]. Qed.
Print Assumptions C05_oneshot.

(* (3) a successfully reset encoder/decoder IS the freshly constructed one (up to capacity),
   and a codec built on recycled working space is the one built on none *)
Theorem C05_reset_is_fresh_enc : forall junk s t x K R sb, s_enc s = Some x -> opt_rel dec_eq (s_dec s) (s_dec t) ->
  snd (step junk s (EReset K R sb)) = ROkUnit ->
  sim (fst (step junk s (EReset K R sb))) (fst (step junk t (ENew (e_codec x) (e_engine x) K R sb))) /\
  snd (step junk t (ENew (e_codec x) (e_engine x) K R sb)) = ROkUnit.
Proof. exact reset_like_new_enc. Qed.
Print Assumptions C05_reset_is_fresh_enc.

Theorem C05_reset_is_fresh_dec : forall junk s t x K R sb, s_dec s = Some x -> opt_rel enc_eq (s_enc s) (s_enc t) ->
  snd (step junk s (DReset K R sb)) = ROkUnit ->
  sim (fst (step junk s (DReset K R sb))) (fst (step junk t (DNew (d_codec x) (d_engine x) K R sb))) /\
  snd (step junk t (DNew (d_codec x) (d_engine x) K R sb)) = ROkUnit.
Proof. exact reset_like_new_dec. Qed.
Print Assumptions C05_reset_is_fresh_dec.

Theorem C05_recycled_work_is_fresh : forall junk s c e K R sb,
  snd (step junk s (ENewW c e K R sb)) = snd (step junk s (ENew c e K R sb)) /\
  opt_rel enc_eq (s_enc (fst (step junk s (ENewW c e K R sb)))) (s_enc (fst (step junk s (ENew c e K R sb)))).
Proof. exact neww_like_new_enc. Qed.
Print Assumptions C05_recycled_work_is_fresh.

(* instances: same round after two different histories and under two different stale
   memories gives the same results *)
Definition b (n seed : N) : list N := map (fun i => (i * 131 + seed) mod 256) (range 0 n).
Definition round (c : codec) : list op :=
  [EAdd (b 6 1); EAdd (b 6 2); EAdd (b 6 3); EEncode [0; 1; 9]].
Definition hist1 (c : codec) : list op := [ENew c NoSimd 3 2 6] ++ round c.
Definition hist2 (c : codec) : list op :=
  [ENew c NoSimd 2 5 4; EAdd (b 4 9); EAdd (b 4 8); EEncode []; EReset 9 9 3; EReset 3 2 6; EAdd (b 5 1)] ++ round c.
Definition last_result (j : N -> N -> N -> N) (ops : list op) : option result :=
  nth_error (snd (run j init ops)) (length ops - 1).
Definition j1 (a b c : N) : N := 0.
Definition j2 (a b c : N) : N := (a * 977 + b * 131 + c * 7 + 12345) mod 65536.
Theorem C05_instances :
  forallb (fun c => match last_result j1 (hist1 c), last_result j2 (hist2 c) with
                    | Some (REnc r1 p1), Some (REnc r2 p2) =>
                      if list_eq_dec (list_eq_dec N.eq_dec) r1 r2 then true else false
                    | _, _ => false end) [CRs; CDef; CHigh; CLow] = true.
Proof. vm_compute. reflexivity. Qed.
Print Assumptions C05_instances.
