(* C01 for the one-shot functions: decode() of any accepted selection of the originals and of
   what encode() returned, at least original_count shards, returns every missing original. *)
From Coq Require Import NArith Arith Lia Bool List FMapPositive.
From RS.Gen Require Import Prelude GenConsts.
From RS.Model Require Import Field Tables Sched Codec Layout Machine Spec.
From RS.Proofs Require Import RateFacts FieldFacts ShardLen PermFacts MachineOps.
Import ListNotations.
Local Open Scope N_scope.

Definition to_add (orig : bool) (p : N * bytes) : add := if orig then AddO (fst p) (snd p) else AddR (fst p) (snd p).
Lemma dec_add_all_adds orig : forall l x, dec_add_all orig x l = dec_adds x (map (to_add orig) l).
Proof.
  induction l as [|[i s] l IH]; intros x; [reflexivity|]. destruct orig; cbn [dec_add_all map dec_adds to_add fst snd dec_add].
  - destruct (dec_add_original x i s) as [x'|e]; [apply IH|reflexivity].
  - destruct (dec_add_recovery x i s) as [x'|e]; [apply IH|reflexivity].
Qed.
Lemma dec_adds_app : forall l1 l2 x, dec_adds x (l1 ++ l2) = match dec_adds x l1 with inl x1 => dec_adds x1 l2 | inr e => inr e end.
Proof. induction l1 as [|a l1 IH]; intros l2 x; [reflexivity|]. cbn [app dec_adds]. destruct (dec_add x a); [apply IH|reflexivity]. Qed.

Lemma enc_add_all_cfg : forall l x x', enc_cfg x -> enc_add_all x l = inl x' -> enc_cfg x'.
Proof.
  induction l as [|s l IH]; intros x x' Hc H; cbn in H; [inversion H; subst; exact Hc|].
  destruct (enc_add x s) as [x1|e] eqn:E; [|discriminate]. apply (IH x1 x' (enc_add_cfg x s x1 Hc E) H).
Qed.

Section OneShot.
Variable junk : N -> N -> N -> N.
Hypothesis Hjunk : forall a b c, junk a b c < 65536.
Variables (K R sb ep ep' : N) (originals : list bytes) (recs : list bytes).
Hypothesis Lorig : N.of_nat (length originals) = K.
Hypothesis Borig : Forall (byteshard sb) originals.
Hypothesis Henc : oneshot_encode junk ep K R originals = RShards recs.
Variables (orig rec : list (N * bytes)).
Hypothesis Horig : forall i s, In (i, s) orig -> s = nth (N.to_nat i) originals [].
Hypothesis Hrec : forall j s, In (j, s) rec -> s = nth (N.to_nat j) recs [].
Hypothesis Hcount : K <= N.of_nat (length orig + length rec).
Hypothesis Hne : rec <> [] \/ orig <> [].

Theorem oneshot_roundtrip it : oneshot_decode junk ep' K R orig rec = RMap it ->
  forall i, i < K -> (forall s, ~ In (i, s) orig) -> In (i, nth (N.to_nat i) originals []) it.
Proof.
  intros Hdec i Hi Hno.
  (* the encoder side *)
  unfold oneshot_encode in Henc. destruct (negb (default_supportsb K R)) eqn:Es; [discriminate|].
  destruct originals as [|first rest] eqn:Eo; [discriminate|]. rewrite <- Eo in *.
  assert (Hfirst : byteshard sb first) by (rewrite Forall_forall in Borig; apply Borig; rewrite Eo; left; reflexivity).
  assert (Hsb : blen first = sb) by apply Hfirst.
  rewrite Eo in Henc. rewrite Hsb in Henc. rewrite <- Eo in Henc.
  destruct (enc_make CRs DefaultE K R sb encwork_new) as [[x0 a0]|e0] eqn:Em; [|discriminate].
  destruct (enc_add_all x0 originals) as [x|e1] eqn:Ea; [|discriminate].
  assert (Hval : validateb CRs K R sb = None).
  { unfold enc_make in Em. destruct (validateb CRs K R sb); [discriminate|reflexivity]. }
  assert (Erec : recs = encode_shards junk ep x).
  { unfold enc_encode in Henc. cbv zeta in Henc. destruct (negb (ew_recv (e_work x) =? ew_K (e_work x))); cbn [snd] in Henc; cbv iota in Henc; [discriminate|]. inversion Henc. reflexivity. }
  (* the decoder side *)
  unfold oneshot_decode in Hdec. rewrite Es in Hdec.
  assert (Hrecsb : forall j s, In (j, s) rec -> blen s = sb \/ True) by auto.
  set (sbo := match rec with (_, s) :: _ => Some (blen s) | [] => match orig with (_, s) :: _ => Some (blen s) | [] => None end end).
  replace (match rec, orig with | (_, s) :: _, _ => Some (blen s) | [], (_, s) :: _ => Some (blen s) | [], [] => None end) with sbo in Hdec
    by (unfold sbo; destruct rec as [|[? ?] ?]; [destruct orig as [|[? ?] ?]|]; reflexivity).
  destruct sbo as [sb'|] eqn:Esbo; [|discriminate].
  destruct (dec_make CRs DefaultE K R sb' decwork_new) as [[y0 b0]|e2] eqn:Edm; [|discriminate].
  rewrite !dec_add_all_adds in Hdec.
  destruct (dec_adds y0 (map (to_add true) orig)) as [y1|e3] eqn:E1; [|cbv iota beta in Hdec; discriminate].
  rewrite dec_add_all_adds in Hdec.
  destruct (dec_adds y1 (map (to_add false) rec)) as [y2|e4] eqn:E2; [|discriminate].
  set (adds := map (to_add true) orig ++ map (to_add false) rec).
  assert (Hadds_ok : dec_adds y0 adds = inl y2) by (unfold adds; rewrite dec_adds_app, E1; exact E2).
  (* the inferred shard size is the right one: the first add was accepted with length sb' and is a shard of length sb *)
  assert (Hd : dw_sb (d_work y0) = sb' /\ dw_K (d_work y0) = K /\ dw_R (d_work y0) = R).
  { unfold dec_make in Edm. destruct (validateb CRs K R sb'); [discriminate|]. cbv zeta in Edm. unfold decwork_reset in Edm. cbv zeta in Edm.
    inversion Edm; subst y0. cbn. auto. }
  destruct Hd as (Hd1 & Hd2 & Hd3).
  pose proof (dec_adds_ok_inv adds y0 y2 Hadds_ok) as Hok.
  assert (Hshape : length recs = N.to_nat R /\ Forall (fun b => blen b = sb) recs).
  { assert (Hc : enc_cfg x) by (apply (enc_add_all_cfg originals x0 x (enc_make_cfg _ _ _ _ _ _ _ _ Em) Ea)).
    assert (XK : ew_R (e_work x) = R /\ ew_sb (e_work x) = sb).
    { destruct (enc_add_all_mem originals x0 x Ea) as (_ & _ & _ & A4 & A5 & _).
      unfold enc_make in Em. rewrite Hval in Em. cbv zeta in Em. unfold encwork_reset in Em. cbv zeta in Em. inversion Em; subst x0. cbn in *. auto. }
    destruct XK as [XR Xsb].
    unfold enc_encode in Henc. cbv zeta in Henc. destruct (negb (ew_recv (e_work x) =? ew_K (e_work x))) eqn:En; cbn [snd] in Henc; cbv iota in Henc; [discriminate|].
    pose proof (enc_encode_shape junk ep x [] (enc_after_round x) recs [] Hc) as Sh.
    unfold enc_encode in Sh. cbv zeta in Sh. rewrite En in Sh. rewrite XR, Xsb in Sh. apply Sh. rewrite Erec. reflexivity. }
  destruct Hshape as [Lrecs Frecs].
  assert (Hsb' : sb' = sb).
  { assert (Hex : exists a, In a adds).
    { unfold adds. destruct Hne as [H|H]; [destruct rec as [|p rec']; [contradiction|]|destruct orig as [|p orig']; [contradiction|]];
        eexists; apply in_or_app; [right|left]; left; reflexivity. }
    destruct Hex as [a Ha]. destruct (all_ok_guard adds (d_work y0) Hok a Ha) as [G1 G2]. rewrite Hd1 in G1. rewrite <- G1.
    unfold adds in Ha. apply in_app_or in Ha. destruct Ha as [Ha|Ha]; apply in_map_iff in Ha; destruct Ha as ([i0 s0] & <- & Hin); cbn [to_add fst snd add_shard] in *.
    - rewrite (Horig i0 s0 Hin). rewrite Hd2 in G2. rewrite Forall_forall in Borig. apply Borig. apply nth_In. lia.
    - rewrite (Hrec i0 s0 Hin). rewrite Hd3 in G2. rewrite Forall_forall in Frecs. apply Frecs. apply nth_In. lia. }
  rewrite Hsb' in Edm.
  destruct (dec_decode junk ep' y2 []) as [y' r] eqn:Edd. cbn [snd] in Hdec.
  assert (Hall : forall a, In a adds -> match a with AddO i0 s => s = nth (N.to_nat i0) originals [] | AddR j s => s = nth (N.to_nat j) (encode_shards junk ep x) [] end).
  { intros a Ha. unfold adds in Ha. apply in_app_or in Ha. destruct Ha as [Ha|Ha]; apply in_map_iff in Ha; destruct Ha as ([i0 s] & <- & Hin); cbn.
    - apply (Horig i0 s Hin).
    - rewrite <- Erec. apply (Hrec i0 s Hin). }
  assert (Hlen : K <= N.of_nat (length adds)) by (unfold adds; rewrite app_length, !map_length; exact Hcount).
  assert (Hmiss : forall s, ~ In (AddO i s) adds).
  { intros s Ha. unfold adds in Ha. apply in_app_or in Ha. destruct Ha as [Ha|Ha]; apply in_map_iff in Ha; destruct Ha as ([i0 s0] & E & Hin); cbn in E; [|discriminate].
    inversion E; subst. apply (Hno s Hin). }
  destruct (rate_of CRs K R) eqn:Er.
  - destruct (ops_high_decode junk Hjunk CRs DefaultE DefaultE K R sb ep ep' originals Hval Er Lorig Borig encwork_new x0 x a0 Em Ea
                 decwork_new y0 y2 b0 adds Edm Hadds_ok Hall Hlen [] i Hi Hmiss) as (y'' & it' & pr & D & I).
    rewrite Edd in D. inversion D; subst. inversion Hdec; subst. exact I.
  - destruct (ops_low_decode junk Hjunk CRs DefaultE DefaultE K R sb ep ep' originals Hval Er Lorig Borig encwork_new x0 x a0 Em Ea
                 decwork_new y0 y2 b0 adds Edm Hadds_ok Hall Hlen [] i Hi Hmiss) as (y'' & it' & pr & D & I).
    rewrite Edd in D. inversion D; subst. inversion Hdec; subst. exact I.
Qed.
End OneShot.
