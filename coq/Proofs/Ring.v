(* The field structure behind the tables: carry-less multiplication modulo GF_POLYNOMIAL
   is commutative and associative; transported through the Cantor basis it is [fmul];
   the subspace polynomials s_j are additive and vanish on 0 .. 2^j-1. *)
From Coq Require Import NArith Arith Lia Bool List.
From RS.Gen Require Import Prelude GenConsts.
From RS.Model Require Import Field Spec.
From RS.Proofs Require Import FieldFacts.
Import ListNotations.
Local Open Scope N_scope.

(* ---------- pmul: commutative, associative ---------- *)
Lemma pmul_aux_0_r n : forall i a, pmul_aux n i a 0 = 0.
Proof. induction n as [|n IH]; intros i a; cbn [pmul_aux]; [reflexivity|]. rewrite mulx_0, IH. destruct (N.testbit a i); reflexivity. Qed.
Lemma pmul_0_r a : pmul a 0 = 0.
Proof. apply pmul_aux_0_r. Qed.

Lemma pmul_aux_commute n : forall i a b c, W16 c ->
  pmul_aux n i a (pmul b c) = pmul b (pmul_aux n i a c).
Proof.
  induction n as [|n IH]; intros i a b c Hc; cbn [pmul_aux]; [symmetry; apply pmul_0_r|].
  rewrite <- pmul_mulx by exact Hc. rewrite IH by (apply mulx_lt; exact Hc).
  rewrite pmul_lxor_r.
  - destruct (N.testbit a i); [reflexivity|]. rewrite pmul_0_r. reflexivity.
  - destruct (N.testbit a i); [exact Hc|apply W16_0].
  - apply pmul_aux_lt, mulx_lt, Hc.
Qed.
Lemma pmul_commute a b c : W16 c -> pmul a (pmul b c) = pmul b (pmul a c).
Proof. apply pmul_aux_commute. Qed.

Lemma W16_1 : W16 1. Proof. unfold W16; lia. Qed.
Lemma pmul_comm a b : W16 a -> W16 b -> pmul a b = pmul b a.
Proof.
  intros Ha Hb. rewrite <- (pmul_1_r b Hb) at 1. rewrite pmul_commute by apply W16_1.
  rewrite (pmul_1_r a Ha). reflexivity.
Qed.
Lemma pmul_assoc a b c : W16 a -> W16 b -> W16 c -> pmul (pmul a b) c = pmul a (pmul b c).
Proof.
  intros Ha Hb Hc. rewrite (pmul_comm (pmul a b) c) by (try apply pmul_lt; assumption).
  rewrite pmul_commute by assumption. rewrite (pmul_comm c b) by assumption. reflexivity.
Qed.

(* ---------- fmul is pmul in the Cantor representation ---------- *)
Lemma phi_1 : phi 1 = 1. Proof. reflexivity. Qed.
Lemma fmul_lt a b : W16 a -> W16 b -> W16 (fmul a b).
Proof.
  intros Ha Hb. unfold fmul. destruct (b =? 0); [apply W16_0|]. apply mul_lt; [exact Ha|].
  assert (H : forallb (fun v => glog v <=? 65535) (rangeN 0 (N.to_nat 65536)) = true) by (vm_compute; reflexivity).
  apply N.leb_le. exact (sweep16 _ H b Hb).
Qed.
Theorem fmul_spec a b : W16 a -> W16 b -> phi (fmul a b) = pmul (phi a) (phi b).
Proof.
  intros Ha Hb. unfold fmul. destruct (N.eqb_spec b 0) as [->|Hn].
  - rewrite phi_0, pmul_0_r. reflexivity.
  - destruct (glog_lt b Hb Hn) as [Hl _]. rewrite mul_is_field_mul by (try assumption; lia).
    rewrite (phi_is_power b Hb Hn). reflexivity.
Qed.

Lemma fmul_comm a b : W16 a -> W16 b -> fmul a b = fmul b a.
Proof.
  intros Ha Hb. apply phi_inj; try (apply fmul_lt; assumption).
  rewrite !fmul_spec by assumption. apply pmul_comm; apply phi_lt; assumption.
Qed.
Lemma fmul_assoc a b c : W16 a -> W16 b -> W16 c -> fmul (fmul a b) c = fmul a (fmul b c).
Proof.
  intros Ha Hb Hc. apply phi_inj; try (repeat apply fmul_lt; assumption).
  rewrite !fmul_spec by (try apply fmul_lt; assumption). apply pmul_assoc; apply phi_lt; assumption.
Qed.
Lemma fmul_lxor_l a a' b : W16 a -> W16 a' -> W16 b -> fmul (N.lxor a a') b = N.lxor (fmul a b) (fmul a' b).
Proof.
  intros Ha Ha' Hb. apply phi_inj; try (apply W16_lxor || apply fmul_lt); try (apply fmul_lt || apply W16_lxor); try assumption.
  rewrite phi_lxor, !fmul_spec by (try apply W16_lxor; assumption). rewrite phi_lxor. apply pmul_lxor_l.
Qed.
Lemma fmul_lxor_r a b b' : W16 a -> W16 b -> W16 b' -> fmul a (N.lxor b b') = N.lxor (fmul a b) (fmul a b').
Proof.
  intros Ha Hb Hb'. rewrite fmul_comm, fmul_lxor_l, (fmul_comm b a), (fmul_comm b' a); try apply W16_lxor; auto.
Qed.
Lemma fmul_1_r a : W16 a -> fmul a 1 = a.
Proof.
  intros Ha. apply phi_inj; [apply fmul_lt; [exact Ha|apply W16_1]|exact Ha|].
  rewrite fmul_spec by (try apply W16_1; exact Ha). rewrite phi_1. apply pmul_1_r, phi_lt, Ha.
Qed.
Lemma fmul_0_r a : fmul a 0 = 0. Proof. reflexivity. Qed.
Lemma fmul_0_l a : fmul 0 a = 0. Proof. unfold fmul. destruct (a =? 0); reflexivity. Qed.

(* mul by a table logarithm is fmul by the element; GF_MODULUS = log 0 means "times zero" *)
Lemma glog_zero_iff y : W16 y -> (glog y =? GF_MODULUS) = (y =? 0).
Proof.
  intros Hy. assert (H : forallb (fun y => Bool.eqb (glog y =? GF_MODULUS) (y =? 0)) (rangeN 0 (N.to_nat 65536)) = true) by (vm_compute; reflexivity).
  apply eqb_prop. exact (sweep16 _ H y Hy).
Qed.
Lemma mul_glog x y : y <> 0 -> mul x (glog y) = fmul x y.
Proof. intros Hy. unfold fmul. apply N.eqb_neq in Hy. rewrite Hy. reflexivity. Qed.

(* ---------- subspace polynomials ---------- *)
Lemma s_poly_lt j : forall x, W16 x -> W16 (s_poly j x).
Proof.
  induction j as [|j IH]; intros x Hx; cbn [s_poly]; [exact Hx|].
  cbv zeta. apply W16_lxor; [apply fmul_lt|]; apply IH, Hx.
Qed.
Lemma sq_lxor a b : W16 a -> W16 b -> fmul (N.lxor a b) (N.lxor a b) = N.lxor (fmul a a) (fmul b b).
Proof.
  intros Ha Hb. rewrite fmul_lxor_l, !fmul_lxor_r by (try apply W16_lxor; assumption).
  rewrite (fmul_comm b a) by assumption.
  rewrite N.lxor_assoc, <- (N.lxor_assoc (fmul a b)), N.lxor_nilpotent, N.lxor_0_l. reflexivity.
Qed.
Theorem s_poly_additive j : forall x y, W16 x -> W16 y -> s_poly j (N.lxor x y) = N.lxor (s_poly j x) (s_poly j y).
Proof.
  induction j as [|j IH]; intros x y Hx Hy; cbn [s_poly]; [reflexivity|]. cbv zeta.
  rewrite IH by assumption. rewrite sq_lxor by (apply s_poly_lt; assumption). apply lxor_4.
Qed.

(* s_j vanishes on 0 .. 2^j - 1 and is 1 at 2^j (Cantor basis): finite sweep over all j <= 15 *)
Definition vanish_ok (j : nat) : bool :=
  forallb (fun v => s_poly j v =? 0) (rangeN 0 (N.to_nat (2 ^ N.of_nat j))) && (s_poly j (2 ^ N.of_nat j) =? 1).
Lemma s_poly_vanish j v : (j <= 15)%nat -> v < 2 ^ N.of_nat j -> s_poly j v = 0.
Proof.
  intros Hj Hv. assert (H : forallb vanish_ok (seq 0 16) = true) by (vm_compute; reflexivity).
  rewrite forallb_forall in H. specialize (H j ltac:(apply in_seq; lia)). apply andb_prop in H. destruct H as [H _].
  apply N.eqb_eq. apply (forallb_rangeN _ _ _ H v). rewrite N2Nat.id. lia.
Qed.
Lemma s_poly_one j : (j <= 15)%nat -> s_poly j (2 ^ N.of_nat j) = 1.
Proof.
  intros Hj. assert (H : forallb vanish_ok (seq 0 16) = true) by (vm_compute; reflexivity).
  rewrite forallb_forall in H. specialize (H j ltac:(apply in_seq; lia)). apply andb_prop in H. destruct H as [_ H].
  apply N.eqb_eq. exact H.
Qed.
