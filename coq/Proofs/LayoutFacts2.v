(* C04: packing the bytes of 16-bit symbols returns the symbols (the other composition of
   LayoutFacts.pack_unpack). *)
From Coq Require Import NArith Arith Lia Bool List.
From RS.Model Require Import Field Layout.
From RS.Proofs Require Import FieldFacts Linear SchedEquiv LayoutFacts.
Import ListNotations.
Local Open Scope N_scope.

(* ---------- the other composition: packing the bytes of symbols returns the symbols ---------- *)
Lemma sym_of_bytes x : W16 x -> sym (lo_byte x) (hi_byte x) = x /\ lo_byte x < 256 /\ hi_byte x < 256.
Proof.
  intros Hx. unfold sym, lo_byte, hi_byte, W16 in *. change 255 with (N.ones 8). rewrite N.land_ones, N.shiftr_div_pow2.
  change (2 ^ 8) with 256. pose proof (N.div_mod x 256 ltac:(lia)). pose proof (N.mod_lt x 256 ltac:(lia)).
  repeat split; try lia; apply N.div_lt_upper_bound; lia.
Qed.
Lemma group_bytes_facts (s : list N) : Forall W16 s ->
  group_syms (group_bytes s) = s /\ length (group_bytes s) = (length s + length s)%nat /\ Forall byte (group_bytes s).
Proof.
  intros Ws. unfold group_bytes.
  assert (L : length (map lo_byte s ++ map hi_byte s) = (length s + length s)%nat) by (rewrite app_length, !map_length; reflexivity).
  split; [|split; [exact L|]].
  - unfold group_syms. rewrite L, div2_double.
    rewrite firstn_app_le' by (rewrite map_length; lia). rewrite firstn_all2 by (rewrite map_length; lia).
    rewrite skipn_app_le' by (rewrite map_length; lia). rewrite skipn_all2 by (rewrite map_length; lia). cbn [app].
    clear L. induction Ws as [|x s Hx Ws IH]; [reflexivity|]. cbn [map combine fst snd]. rewrite IH.
    destruct (sym_of_bytes x Hx) as [E _]. rewrite E. reflexivity.
  - apply Forall_app. split; apply Forall_forall; intros b Hb; apply in_map_iff in Hb; destruct Hb as (x & <- & Hx);
      rewrite Forall_forall in Ws; destruct (sym_of_bytes x (Ws x Hx)) as (_ & A & B); assumption.
Qed.

Lemma sob_step f (bs : list N) : (0 < length bs)%nat ->
  syms_of_bytes_fuel (S f) bs = group_syms (firstn 64 bs) ++ syms_of_bytes_fuel f (skipn 64 bs).
Proof. intros H. destruct bs; [cbn in H; lia|reflexivity]. Qed.

Lemma bytes_fuel : forall f (s : list N), (length s <= 32 * f)%nat -> Forall W16 s ->
  let b := bytes_of_syms_fuel f s in
  length b = (length s + length s)%nat /\ Forall byte b /\ forall f', (length s + length s <= 64 * f')%nat -> syms_of_bytes_fuel f' b = s.
Proof.
  induction f as [|f IH]; intros s Lf Ws.
  - destruct s; [|cbn in Lf; lia]. cbn. repeat split; try constructor. intros f' _. destruct f'; reflexivity.
  - destruct s as [|s0 ss] eqn:Es.
    { cbn. repeat split; try constructor. intros f' _. destruct f'; reflexivity. }
    assert (Hne : (0 < length s)%nat) by (rewrite Es; cbn; lia). rewrite <- Es in *. clear Es s0 ss.
    cbv zeta. rewrite bos_step by exact Hne.
    destruct (Nat.le_gt_cases 32 (length s)) as [Hge|Hlt].
    + assert (L1 : length (firstn 32 s) = 32%nat) by (rewrite firstn_length; lia).
      destruct (group_bytes_facts (firstn 32 s) ltac:(apply Forall_firstn; exact Ws)) as (G1 & G2 & G3). rewrite L1 in G2.
      destruct (IH (skipn 32 s) ltac:(rewrite skipn_length; lia) ltac:(apply Forall_skipn; exact Ws)) as (I1 & I2 & I3).
      cbv zeta in *. rewrite skipn_length in I1.
      split; [rewrite app_length, G2, I1; lia|]. split; [apply Forall_app; split; assumption|].
      intros f' Hf'. destruct f' as [|f']; [lia|]. rewrite sob_step by (rewrite app_length, G2; lia).
      rewrite firstn_app_le' by lia. rewrite firstn_all2 by lia. rewrite skipn_app_le' by lia. rewrite skipn_all2 by lia. cbn [app].
      rewrite G1, I3 by (rewrite skipn_length; lia). apply firstn_skipn.
    + rewrite firstn_all2 by lia. rewrite skipn_all2 by lia.
      assert (E1 : bytes_of_syms_fuel f [] = []) by (destruct f; reflexivity). rewrite E1, app_nil_r.
      destruct (group_bytes_facts s Ws) as (G1 & G2 & G3).
      split; [exact G2|]. split; [exact G3|].
      intros f' Hf'. destruct f' as [|f']; [lia|]. rewrite sob_step by (rewrite G2; lia).
      rewrite firstn_all2 by lia. rewrite skipn_all2 by lia.
      assert (E0 : syms_of_bytes_fuel f' [] = []) by (destruct f'; reflexivity). rewrite E0, app_nil_r. exact G1.
Qed.

Theorem unpack_pack (s : list N) : Forall W16 s ->
  syms_of_bytes (bytes_of_syms s) = s /\ length (bytes_of_syms s) = (length s + length s)%nat /\ Forall byte (bytes_of_syms s).
Proof.
  intros Ws. unfold syms_of_bytes, bytes_of_syms.
  assert (Hf : (length s <= 32 * S (length s / 32))%nat).
  { pose proof (Nat.div_mod (length s) 32 ltac:(lia)). pose proof (Nat.mod_upper_bound (length s) 32 ltac:(lia)). lia. }
  destruct (bytes_fuel (S (length s / 32)) s Hf Ws) as (B1 & B2 & B3). cbv zeta in *.
  split; [|split; assumption]. apply B3. rewrite B1.
  set (n := (length s + length s)%nat).
  pose proof (Nat.div_mod n 64 ltac:(lia)). pose proof (Nat.mod_upper_bound n 64 ltac:(lia)). lia.
Qed.
