(* The additive FFT of the crate computes the values of a polynomial given in the
   Lin-Chung-Han basis X_t = prod_{j in bits t} s_j.  Part 1: the recursive transform and its
   specification (pure algebra over the field of Ring.v). *)
From Coq Require Import NArith Arith Lia Bool List.
From RS.Gen Require Import Prelude GenConsts.
From RS.Model Require Import Field Tables Sched Spec.
From RS.Proofs Require Import FieldFacts Ring.
Import ListNotations.
Local Open Scope N_scope.

Definition p2 (k : nat) : nat := Nat.pow 2 k.

(* value at x of the polynomial with LCH coefficients c (2^k of them):
   P = P_lo + s_(k-1) * P_hi, since X_(t + 2^(k-1)) = s_(k-1) * X_t *)
Fixpoint lch (k : nat) (c : list N) (x : N) : N :=
  match k with
  | O => nth 0 c 0
  | S k' => N.lxor (lch k' (firstn (p2 k') c) x) (fmul (s_poly k' x) (lch k' (skipn (p2 k') c) x))
  end.

Definition bfly_a (m : N) (a b : list N) : list N := map2 (fun x y => N.lxor x (fmul y m)) a b.

Fixpoint fft_rec (k : nat) (w : N) (c : list N) : list N :=
  match k with
  | O => c
  | S k' =>
    let a := firstn (p2 k') c in let b := skipn (p2 k') c in
    let a' := bfly_a (s_poly k' w) a b in
    let b' := map2 N.lxor b a' in
    fft_rec k' w a' ++ fft_rec k' (N.lxor w (2 ^ N.of_nat k')) b'
  end.

(* ---------- list helpers ---------- *)
Lemma map2_length {A B C} (f : A -> B -> C) a b : length (map2 f a b) = Nat.min (length a) (length b).
Proof. unfold map2. rewrite map_length, combine_length. reflexivity. Qed.
Lemma firstn_map2 {A B C} (f : A -> B -> C) n : forall a b, firstn n (map2 f a b) = map2 f (firstn n a) (firstn n b).
Proof. unfold map2. induction n; intros [|x a] [|y b]; cbn; try reflexivity. f_equal. apply IHn. Qed.
Lemma skipn_map2 {A B C} (f : A -> B -> C) n : forall a b, skipn n (map2 f a b) = map2 f (skipn n a) (skipn n b).
Proof.
  unfold map2. induction n; intros [|x a] [|y b]; cbn; try reflexivity.
  - destruct (skipn n a); reflexivity.
  - apply IHn.
Qed.
Lemma Forall_map2 {A B C} (P : A -> Prop) (Q : B -> Prop) (S : C -> Prop) (f : A -> B -> C) a b :
  (forall x y, P x -> Q y -> S (f x y)) -> Forall P a -> Forall Q b -> Forall S (map2 f a b).
Proof.
  intros Hf Ha. revert b. unfold map2. induction Ha; intros b Hb; [constructor|]. destruct Hb; cbn; constructor; auto.
Qed.
Lemma Forall_firstn' {A} (P : A -> Prop) n l : Forall P l -> Forall P (firstn n l).
Proof. intros H. revert n. induction H; intros [|n]; cbn; constructor; auto. Qed.
Lemma Forall_skipn' {A} (P : A -> Prop) n l : Forall P l -> Forall P (skipn n l).
Proof. intros H. revert n. induction H; intros [|n]; cbn; auto. Qed.
Lemma nth_W16 l i : Forall W16 l -> W16 (nth i l 0).
Proof. intros H. revert i. induction H; intros [|i]; cbn; auto using W16_0. Qed.

Lemma p2_pos k : (0 < p2 k)%nat.
Proof. unfold p2. induction k; cbn; lia. Qed.
Lemma p2_S k : p2 (S k) = (p2 k + p2 k)%nat.
Proof. unfold p2. cbn. lia. Qed.

(* ---------- lch is linear in the coefficients ---------- *)
Lemma lch_W16 k : forall c x, Forall W16 c -> W16 x -> W16 (lch k c x).
Proof.
  induction k as [|k IH]; intros c x Hc Hx; cbn [lch]; [apply nth_W16, Hc|].
  apply W16_lxor; [apply IH; auto using Forall_firstn'|].
  apply fmul_lt; [apply s_poly_lt, Hx|apply IH; auto using Forall_skipn'].
Qed.

Lemma lch_bfly k : forall m a b x, W16 m -> W16 x -> Forall W16 a -> Forall W16 b ->
  length a = p2 k -> length b = p2 k ->
  lch k (bfly_a m a b) x = N.lxor (lch k a x) (fmul (lch k b x) m).
Proof.
  induction k as [|k IH]; intros m a b x Hm Hx Ha Hb La Lb.
  - cbn [lch]. destruct a as [|a0 a]; [discriminate|]. destruct b as [|b0 b]; [discriminate|]. reflexivity.
  - cbn [lch]. unfold bfly_a in *. rewrite firstn_map2, skipn_map2.
    rewrite p2_S in La, Lb.
    rewrite !IH; auto using Forall_firstn', Forall_skipn';
      try (rewrite firstn_length; lia); try (rewrite skipn_length; lia).
    set (A0 := lch k (firstn (p2 k) a) x). set (B0 := lch k (firstn (p2 k) b) x).
    set (A1 := lch k (skipn (p2 k) a) x). set (B1 := lch k (skipn (p2 k) b) x).
    assert (W16 A0 /\ W16 B0 /\ W16 A1 /\ W16 B1) as (WA0 & WB0 & WA1 & WB1)
      by (repeat split; apply lch_W16; auto using Forall_firstn', Forall_skipn').
    pose proof (s_poly_lt k x Hx) as Ws. set (s := s_poly k x) in *.
    rewrite fmul_lxor_r by (try apply fmul_lt; assumption).
    rewrite fmul_lxor_l by (try apply fmul_lt; assumption).
    rewrite <- (fmul_assoc s B1 m) by assumption.
    rewrite !N.lxor_assoc. f_equal. rewrite <- !N.lxor_assoc. f_equal. apply N.lxor_comm.
Qed.

Lemma lch_xor k : forall a b x, W16 x -> Forall W16 a -> Forall W16 b -> length a = p2 k -> length b = p2 k ->
  lch k (map2 N.lxor a b) x = N.lxor (lch k a x) (lch k b x).
Proof.
  induction k as [|k IH]; intros a b x Hx Ha Hb La Lb.
  - cbn [lch]. destruct a as [|a0 a]; [discriminate|]. destruct b as [|b0 b]; [discriminate|]. reflexivity.
  - cbn [lch]. rewrite firstn_map2, skipn_map2. rewrite p2_S in La, Lb.
    rewrite !IH; auto using Forall_firstn', Forall_skipn';
      try (rewrite firstn_length; lia); try (rewrite skipn_length; lia).
    rewrite fmul_lxor_r; try (apply s_poly_lt, Hx); try (apply lch_W16; auto using Forall_skipn').
    apply lxor_4.
Qed.

(* ---------- aligned offsets ---------- *)
Lemma land_aligned q k i : i < 2 ^ k -> N.land (q * 2 ^ k) i = 0.
Proof.
  intros Hi. apply N.bits_inj. intros n. rewrite N.land_spec, N.bits_0.
  destruct (N.lt_ge_cases n k) as [Hn|Hn].
  - rewrite N.mul_pow2_bits_low by exact Hn. reflexivity.
  - destruct (N.eq_dec i 0) as [->|Hi0]; [rewrite N.bits_0; apply andb_false_r|].
    rewrite (N.bits_above_log2 i n); [apply andb_false_r|].
    apply N.log2_lt_pow2 in Hi; [|lia]. lia.
Qed.
Lemma add_aligned q k i : i < 2 ^ k -> q * 2 ^ k + i = N.lxor (q * 2 ^ k) i.
Proof. intros Hi. apply N.add_nocarry_lxor, land_aligned, Hi. Qed.

(* s_k is constant = s_k(w) on the lower half coset and s_k(w)+1 on the upper half *)
Lemma s_coset k q i : (k <= 15)%nat -> W16 (q * 2 ^ N.of_nat (S k)) -> i < 2 ^ N.of_nat k ->
  let w := q * 2 ^ N.of_nat (S k) in
  s_poly k (w + i) = s_poly k w /\ s_poly k (w + 2 ^ N.of_nat k + i) = N.lxor (s_poly k w) 1.
Proof.
  intros Hk Hw Hi. cbv zeta. set (w := q * 2 ^ N.of_nat (S k)) in *.
  assert (Hi16 : W16 i).
  { unfold W16. assert (2 ^ N.of_nat k <= 2 ^ 15) by (apply N.pow_le_mono_r; lia). change (2 ^ 15) with 32768 in *. lia. }
  assert (Hlt : i < 2 ^ N.of_nat (S k)).
  { rewrite Nat2N.inj_succ, N.pow_succ_r'. lia. }
  assert (H2 : 2 ^ N.of_nat k + i < 2 ^ N.of_nat (S k)).
  { rewrite Nat2N.inj_succ, N.pow_succ_r'. lia. }
  split.
  - unfold w. rewrite add_aligned by exact Hlt. fold w. rewrite s_poly_additive by assumption.
    rewrite (s_poly_vanish k i Hk Hi). apply N.lxor_0_r.
  - rewrite <- N.add_assoc. unfold w. rewrite add_aligned by exact H2. fold w.
    assert (Hp : 2 ^ N.of_nat k + i = N.lxor (1 * 2 ^ N.of_nat k) i) by (rewrite <- add_aligned by exact Hi; lia).
    rewrite Hp, N.mul_1_l.
    assert (W16 (2 ^ N.of_nat k)).
    { unfold W16. assert (2 ^ N.of_nat k <= 2 ^ 15) by (apply N.pow_le_mono_r; lia). change (2 ^ 15) with 32768 in *. lia. }
    rewrite !s_poly_additive; try assumption; try (apply W16_lxor; assumption).
    rewrite (s_poly_vanish k i Hk Hi), (s_poly_one k Hk), N.lxor_0_r. reflexivity.
Qed.

(* ---------- the recursive FFT evaluates the LCH polynomial on the coset w + [0, 2^k) ---------- *)
Lemma fft_rec_length k : forall w c, length c = p2 k -> length (fft_rec k w c) = p2 k.
Proof.
  induction k as [|k IH]; intros w c Hc; cbn [fft_rec]; [exact Hc|].
  rewrite p2_S in Hc. rewrite app_length, !IH; [rewrite p2_S; reflexivity| |];
    unfold bfly_a; rewrite !map2_length, ?firstn_length, ?skipn_length; try rewrite map2_length, ?firstn_length, ?skipn_length; lia.
Qed.

Theorem fft_rec_spec k : (k <= 16)%nat -> forall q c,
  let w := q * 2 ^ N.of_nat k in
  W16 w -> w + 2 ^ N.of_nat k <= 65536 -> length c = p2 k -> Forall W16 c ->
  forall i, (i < p2 k)%nat -> nth i (fft_rec k w c) 0 = lch k c (w + N.of_nat i).
Proof.
  induction k as [|k IH]; intros Hk q c w Hw Hw2 Hc Wc i Hi.
  - cbn [fft_rec lch]. unfold p2 in Hi. cbn in Hi. assert (i = 0)%nat by lia. subst. reflexivity.
  - cbn [fft_rec lch]. cbv zeta. rewrite p2_S in Hc, Hi.
    set (a := firstn (p2 k) c). set (b := skipn (p2 k) c).
    assert (La : length a = p2 k) by (unfold a; rewrite firstn_length; lia).
    assert (Lb : length b = p2 k) by (unfold b; rewrite skipn_length; lia).
    assert (Wa : Forall W16 a) by (apply Forall_firstn', Wc).
    assert (Wb : Forall W16 b) by (apply Forall_skipn', Wc).
    set (m := s_poly k w).
    assert (Wm : W16 m) by (apply s_poly_lt, Hw).
    set (a' := bfly_a m a b). set (b' := map2 N.lxor b a').
    assert (La' : length a' = p2 k) by (unfold a', bfly_a; rewrite map2_length; lia).
    assert (Wa' : Forall W16 a').
    { unfold a', bfly_a. eapply Forall_map2; [|exact Wa|exact Wb]. intros x y Hx Hy. apply W16_lxor; [exact Hx|apply fmul_lt; assumption]. }
    assert (Lb' : length b' = p2 k) by (unfold b'; rewrite map2_length; lia).
    assert (Wb' : Forall W16 b').
    { unfold b'. eapply Forall_map2; [|exact Wb|exact Wa']. intros; apply W16_lxor; assumption. }
    assert (Hkk : (k <= 15)%nat) by lia.
    assert (Ep : 2 ^ N.of_nat (S k) = 2 * 2 ^ N.of_nat k) by (rewrite Nat2N.inj_succ, N.pow_succ_r'; reflexivity).
    assert (Pk : N.of_nat (p2 k) = 2 ^ N.of_nat k).
    { unfold p2. rewrite Nat2N.inj_pow. reflexivity. }
    destruct (Nat.lt_ge_cases i (p2 k)) as [Hlo|Hhi].
    + (* lower half *)
      rewrite app_nth1 by (rewrite fft_rec_length; assumption).
      assert (Ew : w = (2 * q) * 2 ^ N.of_nat k) by (unfold w; rewrite Ep; lia).
      rewrite Ew. rewrite (IH ltac:(lia) (2 * q) a'); try assumption; try (rewrite <- Ew; assumption); [|rewrite <- Ew; lia].
      rewrite <- Ew. unfold a'. rewrite lch_bfly; try assumption.
      2:{ unfold W16 in *. lia. }
      assert (Hi' : N.of_nat i < 2 ^ N.of_nat k) by lia.
      destruct (s_coset k q (N.of_nat i) Hkk Hw Hi') as [S1 _]. fold w in S1. fold m in S1. rewrite S1.
      f_equal. apply fmul_comm; [apply lch_W16; [exact Wb|unfold W16 in *; lia]|exact Wm].
    + (* upper half *)
      rewrite app_nth2 by (rewrite fft_rec_length; lia). rewrite fft_rec_length by assumption.
      set (i' := (i - p2 k)%nat). assert (Hi'n : (i' < p2 k)%nat) by (unfold i'; lia).
      assert (Hi' : N.of_nat i' < 2 ^ N.of_nat k) by lia.
      assert (Ew : N.lxor w (2 ^ N.of_nat k) = (2 * q + 1) * 2 ^ N.of_nat k).
      { unfold w. rewrite <- add_aligned by (rewrite Ep; pose proof (N.pow_nonzero 2 (N.of_nat k)); lia). rewrite Ep. lia. }
      rewrite Ew. assert (Ew2 : (2 * q + 1) * 2 ^ N.of_nat k = w + 2 ^ N.of_nat k) by (unfold w; rewrite Ep; lia).
      rewrite (IH ltac:(lia) (2 * q + 1) b'); try assumption; try (rewrite Ew2; unfold W16 in *; lia).
      rewrite Ew2. unfold b'. rewrite lch_xor; try assumption; [|unfold W16 in *; lia].
      unfold a'. rewrite lch_bfly; try assumption; [|unfold W16 in *; lia].
      assert (Ei : w + N.of_nat i = w + 2 ^ N.of_nat k + N.of_nat i') by (unfold i'; lia).
      rewrite Ei.
      destruct (s_coset k q (N.of_nat i') Hkk Hw Hi') as [_ S2]. fold w in S2. fold m in S2. rewrite S2.
      set (x := w + 2 ^ N.of_nat k + N.of_nat i').
      assert (Wx : W16 x) by (unfold x, W16 in *; lia).
      set (A := lch k a x). set (B := lch k b x).
      assert (WA : W16 A) by (apply lch_W16; assumption). assert (WB : W16 B) by (apply lch_W16; assumption).
      rewrite fmul_lxor_l by (try apply W16_1; assumption).
      rewrite (fmul_comm 1 B) by (try apply W16_1; assumption). rewrite fmul_1_r by exact WB.
      rewrite (fmul_comm m B) by assumption.
      rewrite (N.lxor_comm B (N.lxor A _)). rewrite N.lxor_assoc. reflexivity.
Qed.

(* ---------- Part 2: the engine's iterative schedule (Naive, untruncated) is fft_rec ---------- *)
(* skew table entry = log of the subspace polynomial value the butterfly needs (sweep) *)
Definition skew_level_ok (l : nat) : bool :=
  forallb (fun q => skew (q * 2 ^ (N.of_nat l + 1) + 2 ^ N.of_nat l - 1) =? glog (s_poly l (q * 2 ^ (N.of_nat l + 1))))
          (rangeN 0 (N.to_nat (2 ^ (15 - N.of_nat l)))).
Lemma skew_spec l q : (l <= 15)%nat -> q < 2 ^ (15 - N.of_nat l) ->
  skew (q * 2 ^ (N.of_nat l + 1) + 2 ^ N.of_nat l - 1) = glog (s_poly l (q * 2 ^ (N.of_nat l + 1))).
Proof.
  intros Hl Hq. assert (H : forallb skew_level_ok (seq 0 16) = true) by (vm_compute; reflexivity).
  rewrite forallb_forall in H. specialize (H l ltac:(apply in_seq; lia)).
  apply N.eqb_eq. apply (forallb_rangeN _ _ _ H q). rewrite N2Nat.id. lia.
Qed.

(* one butterfly with the multiplier taken from the table *)
Lemma fft_bf_table s a b : W16 s ->
  fft_bf sym_ops (glog s) (a, b) = (N.lxor a (fmul b s), N.lxor b (N.lxor a (fmul b s))).
Proof.
  intros Hs. unfold fft_bf, muladd. cbn [xorT mulT sym_ops].
  rewrite (glog_zero_iff s Hs). destruct (N.eqb_spec s 0) as [->|Hn].
  - rewrite fmul_0_r, N.lxor_0_r. reflexivity.
  - rewrite (mul_glog b s Hn). reflexivity.
Qed.
Lemma bf2_table s : W16 s -> forall a b,
  bf2 (fft_bf sym_ops (glog s)) a b = (bfly_a s a b, map2 N.lxor b (bfly_a s a b)).
Proof.
  intros Hs. unfold bf2, bfly_a, map2. induction a as [|x a IH]; intros [|y b]; cbn [map combine fst snd]; try reflexivity.
  specialize (IH b). inversion IH as [[E1 E2]]. rewrite fft_bf_table by exact Hs. cbn [fst snd].
  rewrite E1, E2. reflexivity.
Qed.

Lemma firstn_app_le {A} n (l1 l2 : list A) : (n <= length l1)%nat -> firstn n (l1 ++ l2) = firstn n l1.
Proof. intros H. rewrite firstn_app. replace (n - length l1)%nat with 0%nat by lia. cbn. apply app_nil_r. Qed.
Lemma skipn_app_le {A} n (l1 l2 : list A) : (n <= length l1)%nat -> skipn n (l1 ++ l2) = skipn n l1 ++ l2.
Proof. intros H. rewrite skipn_app. replace (n - length l1)%nat with 0%nat by lia. reflexivity. Qed.

Section Iter.
Variable sd : N.
Notation layer := (naive_layer skew (fft_bf sym_ops)).

Lemma layer_length fuel dist : forall r trunc l, (2 * dist * fuel <= length l)%nat ->
  length (layer fuel dist r trunc sd l) = length l.
Proof.
  induction fuel as [|f IH]; intros r trunc l Hl; cbn [naive_layer]; [reflexivity|].
  destruct (r <? trunc); [|reflexivity].
  destruct (bf2 _ _ _) as [a' b'] eqn:E. unfold bf2 in E. inversion E; subst; clear E.
  rewrite !app_length, !map_length, combine_length, !firstn_length, !skipn_length, IH;
    rewrite ?skipn_length; lia.
Qed.

(* a layer acts independently on consecutive parts whose lengths are multiples of 2 dist *)
Lemma layer_app f1 f2 dist : forall r trunc l1 l2, length l1 = (2 * dist * f1)%nat -> (0 < dist)%nat ->
  r + N.of_nat (2 * dist * f1) <= trunc ->
  layer (f1 + f2) dist r trunc sd (l1 ++ l2) =
  layer f1 dist r trunc sd l1 ++ layer f2 dist (r + N.of_nat (length l1)) trunc sd l2.
Proof.
  induction f1 as [|f1 IH]; intros r trunc l1 l2 Hl Hd Ht.
  - rewrite Nat.mul_0_r in Hl. destruct l1; [|discriminate]. cbn [naive_layer app length Nat.add]. rewrite N.add_0_r. reflexivity.
  - cbn [Nat.add naive_layer].
    assert (Hr : (r <? trunc) = true) by (apply N.ltb_lt; lia). rewrite Hr.
    assert (L1 : (2 * dist <= length l1)%nat) by lia.
    rewrite (firstn_app_le dist l1 l2) by lia. rewrite (skipn_app_le dist l1 l2) by lia.
    rewrite (firstn_app_le dist (skipn dist l1) l2) by (rewrite skipn_length; lia).
    rewrite (skipn_app_le dist (skipn dist l1) l2) by (rewrite skipn_length; lia).
    destruct (bf2 _ (firstn dist l1) (firstn dist (skipn dist l1))) as [a' b'].
    rewrite <- !app_assoc. f_equal. f_equal.
    rewrite (IH (r + 2 * N.of_nat dist) trunc (skipn dist (skipn dist l1)) l2).
    + f_equal. f_equal. rewrite !skipn_length. lia.
    + rewrite !skipn_length. lia.
    + exact Hd.
    + lia.
Qed.
End Iter.

Section Iter2.
Variables (sd trunc : N).
Notation layer := (naive_layer skew (fft_bf sym_ops)).

(* one pass of the schedule over a (sub-)vector that starts at work position r0 *)
Definition pass (r0 : N) (l : list N) (d : nat) : list N :=
  layer (Nat.div (length l) (2 * d)) d r0 trunc sd l.
Definition ddists (k : nat) : list nat := map p2 (rev (seq 0 k)).
Lemma ddists_S k : ddists (S k) = p2 k :: ddists k.
Proof. unfold ddists. rewrite seq_S, rev_app_distr. reflexivity. Qed.

Lemma pass_length r0 l d : (0 < d)%nat -> length (pass r0 l d) = length l.
Proof.
  intros Hd. unfold pass. apply layer_length.
  pose proof (Nat.mul_div_le (length l) (2 * d) ltac:(lia)). lia.
Qed.
Lemma passes_length k : forall r0 l, length (fold_left (pass r0) (ddists k) l) = length l.
Proof.
  induction k as [|k IH]; intros r0 l; [reflexivity|]. rewrite ddists_S. cbn [fold_left].
  rewrite IH. apply pass_length, p2_pos.
Qed.

Lemma passes_app k : forall r0 x y fx fy,
  length x = (p2 k * fx)%nat -> length y = (p2 k * fy)%nat -> r0 + N.of_nat (length x) <= trunc ->
  fold_left (pass r0) (ddists k) (x ++ y) =
  fold_left (pass r0) (ddists k) x ++ fold_left (pass (r0 + N.of_nat (length x))) (ddists k) y.
Proof.
  induction k as [|k IH]; intros r0 x y fx fy Hx Hy Ht; [reflexivity|].
  rewrite ddists_S. cbn [fold_left].
  assert (E : pass r0 (x ++ y) (p2 k) = pass r0 x (p2 k) ++ pass (r0 + N.of_nat (length x)) y (p2 k)).
  { pose proof (p2_pos k).
    assert (D1 : Nat.div (length (x ++ y)) (2 * p2 k) = (fx + fy)%nat).
    { rewrite app_length, Hx, Hy, p2_S. replace ((p2 k + p2 k) * fx + (p2 k + p2 k) * fy)%nat with ((fx + fy) * (2 * p2 k))%nat by lia.
      apply Nat.div_mul. lia. }
    assert (D2 : Nat.div (length x) (2 * p2 k) = fx).
    { rewrite Hx, p2_S. replace ((p2 k + p2 k) * fx)%nat with (fx * (2 * p2 k))%nat by lia. apply Nat.div_mul. lia. }
    assert (D3 : Nat.div (length y) (2 * p2 k) = fy).
    { rewrite Hy, p2_S. replace ((p2 k + p2 k) * fy)%nat with (fy * (2 * p2 k))%nat by lia. apply Nat.div_mul. lia. }
    unfold pass. rewrite D1, D2, D3.
    apply layer_app; [rewrite Hx, p2_S; lia|assumption|].
    replace (2 * p2 k * fx)%nat with (length x) by (rewrite Hx, p2_S; lia). exact Ht. }
  rewrite E.
  rewrite (IH r0 (pass r0 x (p2 k)) (pass (r0 + N.of_nat (length x)) y (p2 k)) (2 * fx)%nat (2 * fy)%nat).
  - rewrite pass_length by apply p2_pos. reflexivity.
  - rewrite pass_length by apply p2_pos. rewrite Hx, p2_S. lia.
  - rewrite pass_length by apply p2_pos. rewrite Hy, p2_S. lia.
  - rewrite pass_length by apply p2_pos. exact Ht.
Qed.

(* the passes dist = 2^(k-1), ..., 1 over an aligned block are the recursive transform *)
Theorem passes_fft_rec k : (k <= 16)%nat -> forall q r0 c,
  sd + r0 = q * 2 ^ N.of_nat k -> sd + r0 + 2 ^ N.of_nat k <= 65536 ->
  r0 + N.of_nat (p2 k) <= trunc -> length c = p2 k -> Forall W16 c ->
  fold_left (pass r0) (ddists k) c = fft_rec k (sd + r0) c.
Proof.
  induction k as [|k IH]; intros Hk q r0 c Hal Hb Ht Hc Wc; [reflexivity|].
  rewrite ddists_S. cbn [fold_left fft_rec]. cbv zeta.
  assert (Pk : N.of_nat (p2 k) = 2 ^ N.of_nat k) by (unfold p2; rewrite Nat2N.inj_pow; reflexivity).
  assert (Ep : 2 ^ N.of_nat (S k) = 2 * 2 ^ N.of_nat k) by (rewrite Nat2N.inj_succ, N.pow_succ_r'; reflexivity).
  pose proof (p2_pos k) as Hpos. rewrite p2_S in Hc, Ht.
  set (a := firstn (p2 k) c). set (b := skipn (p2 k) c).
  assert (La : length a = p2 k) by (unfold a; rewrite firstn_length; lia).
  assert (Lb : length b = p2 k) by (unfold b; rewrite skipn_length; lia).
  set (s := s_poly k (sd + r0)).
  assert (Ws : W16 s) by (apply s_poly_lt; unfold W16; lia).
  (* the top pass is one block *)
  assert (E1 : pass r0 c (p2 k) = bfly_a s a b ++ map2 N.lxor b (bfly_a s a b)).
  { unfold pass. rewrite Hc. replace (p2 k + p2 k)%nat with (1 * (2 * p2 k))%nat by lia.
    rewrite Nat.div_mul by lia. cbn [naive_layer].
    assert ((r0 <? trunc) = true) as -> by (apply N.ltb_lt; lia).
    assert (Esk : skew (r0 + N.of_nat (p2 k) + sd - 1) = glog s).
    { assert (Eq : 2 ^ (N.of_nat k + 1) = 2 * 2 ^ N.of_nat k) by (rewrite N.add_1_r, N.pow_succ_r'; reflexivity).
      assert (Hq : q < 2 ^ (15 - N.of_nat k)).
      { assert (E : 2 ^ (15 - N.of_nat k) * (2 * 2 ^ N.of_nat k) = 65536).
        { rewrite <- Eq, <- N.pow_add_r. replace (15 - N.of_nat k + (N.of_nat k + 1)) with 16 by lia. reflexivity. }
        rewrite Ep in Hal. pose proof (N.pow_nonzero 2 (N.of_nat k) ltac:(lia)). nia. }
      pose proof (skew_spec k q ltac:(lia) Hq) as Sk. rewrite Eq in Sk.
      unfold s. rewrite Hal, Ep. rewrite <- Sk. f_equal. rewrite Pk. rewrite Ep in Hal. lia. }
    rewrite Esk. fold a. replace (firstn (p2 k) (skipn (p2 k) c)) with b
      by (unfold b; symmetry; apply firstn_all2; rewrite skipn_length; lia).
    rewrite (bf2_table s Ws).
    replace (skipn (p2 k) (skipn (p2 k) c)) with (@nil N)
      by (symmetry; apply skipn_all2; rewrite skipn_length; lia).
    cbn [naive_layer]. rewrite app_nil_r. reflexivity. }
  rewrite E1.
  set (a' := bfly_a s a b). set (b' := map2 N.lxor b a').
  assert (La' : length a' = p2 k) by (unfold a', bfly_a; rewrite map2_length; lia).
  assert (Lb' : length b' = p2 k) by (unfold b'; rewrite map2_length; lia).
  assert (Wa : Forall W16 a) by (apply Forall_firstn', Wc).
  assert (Wb : Forall W16 b) by (apply Forall_skipn', Wc).
  assert (Wa' : Forall W16 a').
  { unfold a', bfly_a. eapply Forall_map2; [|exact Wa|exact Wb]. intros x y Hx Hy. apply W16_lxor; [exact Hx|apply fmul_lt; assumption]. }
  assert (Wb' : Forall W16 b').
  { unfold b'. eapply Forall_map2; [|exact Wb|exact Wa']. intros; apply W16_lxor; assumption. }
  rewrite (passes_app k r0 a' b' 1 1) by (rewrite ?La', ?Lb'; lia).
  rewrite La'.
  pose proof (N.pow_nonzero 2 (N.of_nat k) ltac:(lia)) as Hnz.
  assert (A1 : sd + r0 = 2 * q * 2 ^ N.of_nat k) by (rewrite Hal, Ep; lia).
  assert (A2 : sd + r0 + 2 ^ N.of_nat k <= 65536) by (rewrite Ep in Hb; lia).
  assert (A3 : r0 + N.of_nat (p2 k) <= trunc) by lia.
  rewrite (IH ltac:(lia) (2 * q) r0 a' A1 A2 A3 La' Wa').
  assert (B1 : sd + (r0 + N.of_nat (p2 k)) = (2 * q + 1) * 2 ^ N.of_nat k) by (rewrite Pk, N.add_assoc, Hal, Ep; lia).
  assert (B2 : sd + (r0 + N.of_nat (p2 k)) + 2 ^ N.of_nat k <= 65536) by (rewrite Pk; rewrite Ep in Hb; lia).
  assert (B3 : r0 + N.of_nat (p2 k) + N.of_nat (p2 k) <= trunc) by lia.
  rewrite (IH ltac:(lia) (2 * q + 1) (r0 + N.of_nat (p2 k)) b' B1 B2 B3 Lb' Wb').
  f_equal. f_equal. rewrite Pk, N.add_assoc, Hal.
  rewrite <- add_aligned by (rewrite Ep; lia). reflexivity.
Qed.
End Iter2.

(* ---------- the Naive engine's fft (untruncated) ---------- *)
Lemma dists_pow2 k : (k <= 16)%nat -> rev (dists (2 ^ N.of_nat k)) = map N.of_nat (ddists k).
Proof.
  intros Hk.
  assert (H : forallb (fun k => if list_eq_dec N.eq_dec (rev (dists (2 ^ N.of_nat k))) (map N.of_nat (ddists k)) then true else false)
                      (seq 0 17) = true) by (vm_compute; reflexivity).
  rewrite forallb_forall in H. specialize (H k ltac:(apply in_seq; lia)).
  destruct (list_eq_dec _ _ _) as [E|]; [exact E|discriminate].
Qed.

Lemma naive_pass_is_pass k sd trunc l d : length l = p2 k -> (0 < d)%nat ->
  naive_pass skew (fft_bf sym_ops) (2 ^ N.of_nat k) trunc sd l (N.of_nat d) = pass sd trunc 0 l d.
Proof.
  intros Hl Hd. unfold naive_pass, pass. rewrite Nat2N.id. f_equal.
  rewrite Hl. unfold p2.
  replace (2 ^ N.of_nat k) with (N.of_nat (Nat.pow 2 k)) by (rewrite Nat2N.inj_pow; reflexivity).
  replace (2 * N.of_nat d) with (N.of_nat (2 * d)) by lia.
  rewrite <- Nat2N.inj_div, Nat2N.id. reflexivity.
Qed.

Lemma fold_passes_eq k sd trunc : forall ds l, Forall (fun d => (0 < d)%nat) ds -> length l = p2 k ->
  fold_left (naive_pass skew (fft_bf sym_ops) (2 ^ N.of_nat k) trunc sd) (map N.of_nat ds) l =
  fold_left (pass sd trunc 0) ds l.
Proof.
  induction ds as [|d ds IH]; intros l Hd Hl; [reflexivity|]. inversion Hd; subst.
  cbn [map fold_left]. rewrite naive_pass_is_pass by assumption. apply IH; [assumption|].
  rewrite pass_length by assumption. exact Hl.
Qed.

(* C15_fft for the reference engine: every output of the untruncated transform is the value
   of the LCH-basis polynomial at the point skew_delta + i, for every power-of-two size up to
   2^16, every chunk-aligned skew_delta inside the field and every input *)
Theorem naive_fft_spec k q c : (k <= 16)%nat ->
  let size := 2 ^ N.of_nat k in let sd := q * size in
  sd + size <= 65536 -> length c = p2 k -> Forall W16 c ->
  forall i, (i < p2 k)%nat ->
  nth i (fft sym_ops Naive size size sd c) 0 = lch k c (sd + N.of_nat i).
Proof.
  intros Hk size sd Hb Hc Wc i Hi. subst sd size. unfold fft. cbn [two_layer_engine]. unfold naive_fft.
  rewrite (dists_pow2 k Hk).
  assert (Pk : N.of_nat (p2 k) = 2 ^ N.of_nat k) by (unfold p2; rewrite Nat2N.inj_pow; reflexivity).
  pose proof (N.pow_nonzero 2 (N.of_nat k) ltac:(lia)) as Hnz.
  rewrite fold_passes_eq; [| |exact Hc].
  2:{ unfold ddists. apply Forall_forall. intros d Hd. apply in_map_iff in Hd. destruct Hd as (j & <- & _). apply p2_pos. }
  rewrite (passes_fft_rec (q * 2 ^ N.of_nat k) (2 ^ N.of_nat k) k Hk q 0 c); try assumption; try lia.
  rewrite N.add_0_r. apply (fft_rec_spec k Hk q c); try assumption; unfold W16; lia.
Qed.
