//! `rsh mask <bits> <K> <R> <sb> <seed>`: feature mask / ISA trace probe.
//!
//! Data derivation (fixed, so the other side can reproduce `bytes`):
//!   * original shard `i` = payload `#<seed+i>:<sb>` (wrapping add);
//!   * the `mul` block is `#<seed>:64` with `log_m = 12345`;
//!   * the `fft`/`ifft` buffers are `#<seed>:256` (4 shards x 1 block),
//!     `pos=0 size=4 trunc=4 skew_delta=4`;
//!   * the `evalpoly` indicator has `erasures[0]=erasures[2]=1`, `trunc=8`.
//! Decoder input: recovery shards `0..min(R,K)`, and if `R<K` originals
//! `0..K-R`.

use reed_solomon_simd::{
    engine::{DefaultEngine, Engine, ShardsRefMut, GF_ORDER},
    verif, ReedSolomonDecoder, ReedSolomonEncoder,
};

use crate::util::{put_payload, splitmix_bytes, to_blocks};

pub fn mask(bits: u32, k: usize, r: usize, sb: usize, seed: u64) -> i32 {
    match mask_inner(bits, k, r, sb, seed) {
        Ok(line) => {
            println!("{line}");
            0
        }
        Err(e) => {
            println!("error {e}");
            1
        }
    }
}

fn mask_inner(bits: u32, k: usize, r: usize, sb: usize, seed: u64) -> Result<String, String> {
    verif::set_feature_mask(bits);
    verif::isa_trace_take();

    let engine = DefaultEngine::new();
    let t_new = verif::isa_trace_take();

    let mut block = to_blocks(&splitmix_bytes(seed, 64));
    engine.mul(&mut block, 12345);
    let t_mul = verif::isa_trace_take();

    let mut buf = to_blocks(&splitmix_bytes(seed, 256));
    {
        let mut data = ShardsRefMut::new(4, 1, &mut buf);
        engine.fft(&mut data, 0, 4, 4, 4);
    }
    let t_fft = verif::isa_trace_take();

    let mut buf = to_blocks(&splitmix_bytes(seed, 256));
    {
        let mut data = ShardsRefMut::new(4, 1, &mut buf);
        engine.ifft(&mut data, 0, 4, 4, 4);
    }
    let t_ifft = verif::isa_trace_take();

    let mut erasures: Box<[u16; GF_ORDER]> = vec![0u16; GF_ORDER]
        .into_boxed_slice()
        .try_into()
        .map_err(|_| "internal".to_string())?;
    erasures[0] = 1;
    erasures[2] = 1;
    DefaultEngine::eval_poly(&mut erasures, 8);
    let t_evalpoly = verif::isa_trace_take();

    let originals: Vec<Vec<u8>> = (0..k)
        .map(|i| splitmix_bytes(seed.wrapping_add(i as u64), sb))
        .collect();

    let dbg = |e: reed_solomon_simd::Error| format!("{e:?}").replace(' ', "");

    let mut encoder = ReedSolomonEncoder::new(k, r, sb).map_err(dbg)?;
    for o in &originals {
        encoder.add_original_shard(o).map_err(dbg)?;
    }
    let recovery: Vec<Vec<u8>> = {
        let result = encoder.encode().map_err(dbg)?;
        result.recovery_iter().map(<[u8]>::to_vec).collect()
    };
    let t_enc = verif::isa_trace_take();

    let mut decoder = ReedSolomonDecoder::new(k, r, sb).map_err(dbg)?;
    for (j, rec) in recovery.iter().enumerate().take(k.min(r)) {
        decoder.add_recovery_shard(j, rec).map_err(dbg)?;
    }
    if r < k {
        for (i, o) in originals.iter().enumerate().take(k - r) {
            decoder.add_original_shard(i, o).map_err(dbg)?;
        }
    }
    let restored: Vec<(usize, Vec<u8>)> = {
        let result = decoder.decode().map_err(dbg)?;
        result
            .restored_original_iter()
            .map(|(i, s)| (i, s.to_vec()))
            .collect()
    };
    let t_dec = verif::isa_trace_take();

    for (i, s) in &restored {
        if originals.get(*i) != Some(s) {
            return Err(format!("restored-shard-{i}-differs-from-original"));
        }
    }

    let mut bytes = Vec::new();
    for s in &recovery {
        bytes.extend_from_slice(s);
    }
    for (_, s) in &restored {
        bytes.extend_from_slice(s);
    }
    let mut hex = Vec::new();
    put_payload(&mut hex, &bytes);

    Ok(format!(
        "new={t_new} mul={t_mul} fft={t_fft} ifft={t_ifft} evalpoly={t_evalpoly} enc={t_enc} dec={t_dec} bytes={}",
        String::from_utf8(hex).unwrap()
    ))
}
