(* C02 through the streaming API of the machine: every 16-bit slot of every recovery shard an
   encoder object produces is the closed-form scaled Cauchy combination of the same slot of the
   originals that were added - any codec, engine, recycled working space and stale memory. *)
From Coq Require Import NArith Arith Lia Bool List FMapPositive.
From RS.Gen Require Import Prelude GenConsts.
From RS.Model Require Import Field Tables Sched Codec Layout Machine Spec.
From RS.Proofs Require Import RateFacts FieldFacts Param Linear FftSpec Lengths Cauchy ShardLen LayoutFacts LayoutFacts2
     PermFacts Junk MachineRound MachineOps.
Import ListNotations.
Local Open Scope N_scope.

Section Enc.
Variable junk : N -> N -> N -> N.
Hypothesis Hjunk : forall a b c, junk a b c < 65536.
Variables (c : codec) (ee : engine) (K R sb ep : N) (originals : list bytes).
Hypothesis Hval : validateb c K R sb = None.
Hypothesis Lorig : N.of_nat (length originals) = K.
Hypothesis Borig : Forall (byteshard sb) originals.
Variables (w0 : encwork) (x0 x : encoder) (a0 : bool).
Hypothesis Hx0 : enc_make c ee K R sb w0 = inl (x0, a0).
Hypothesis Hx : enc_add_all x0 originals = inl x.

(* slot l of the originals *)
Definition slot (l : nat) : list N := map (fun b => nth l (syms_of_bytes b) 0) originals.

Theorem ops_encode_cauchy : forall j l, j < R -> (l < N.to_nat (lanes_of sb))%nat ->
  nth l (syms_of_bytes (nth (N.to_nat j) (encode_shards junk ep x) [])) 0 =
  match rate_of c K R with
  | High => recovery_high_spec K R (slot l) j
  | Low => recovery_low_spec K R (slot l) j
  end.
Proof.
  intros j l Hj Hl.
  assert (Hs : supportsb c K R = true /\ bad_size sb = false).
  { unfold validateb in Hval. destruct (supportsb c K R); cbn in Hval; [|discriminate]. destruct (bad_size sb); [discriminate|auto]. }
  destruct Hs as [Hs Hbs].
  assert (Hev : N.even sb = true).
  { unfold bad_size in Hbs. apply orb_false_iff in Hbs. destruct Hbs as [_ Ho]. rewrite <- N.negb_odd, Ho. reflexivity. }
  set (lanes := N.to_nat (lanes_of sb)) in *.
  set (r := rate_of c K R) in *.
  assert (X0 : e_rate x0 = r /\ e_engine x0 = ee /\ ew_K (e_work x0) = K /\ ew_R (e_work x0) = R /\ ew_sb (e_work x0) = sb /\
               ew_wc (e_work x0) = enc_work_count r K R /\ ew_recv (e_work x0) = 0 /\ ew_mem (e_work x0) = mempty).
  { unfold enc_make in Hx0. rewrite Hval in Hx0. cbv zeta in Hx0. unfold encwork_reset in Hx0. cbv zeta in Hx0.
    inversion Hx0; subst x0. cbn. repeat split; reflexivity. }
  destruct X0 as (X1 & X2 & X3 & X4 & X5 & X6 & X7 & X8).
  destruct (enc_add_all_mem originals x0 x Hx) as (E1 & E2 & E3 & E4 & E5 & E6 & E7 & E8).
  rewrite X7, N.add_0_l, Lorig in E7, E8.
  assert (Borig_nth : forall p, p < K -> byteshard sb (nth (N.to_nat p) originals [])).
  { intros p Hp. rewrite Forall_forall in Borig. apply Borig. apply nth_In. lia. }
  assert (Xmem : forall p s, mget (ew_mem (e_work x)) p = Some s -> length s = lanes /\ Forall W16 s).
  { intros p s. rewrite E8, X8. destruct ((0 <=? p) && (p <? K)) eqn:Ep.
    - apply andb_prop in Ep. destruct Ep as [_ Ep]. apply N.ltb_lt in Ep. intros [= <-]. rewrite N.sub_0_r.
      destruct (byteshard_syms sb _ Hev (Borig_nth p Ep)) as (A & B & _). split; assumption.
    - unfold mget, mempty. rewrite PositiveMap.gempty. discriminate. }
  set (ework := work_list junk ep (ew_mem (e_work x)) (ew_wc (e_work x)) (lanes_of sb)).
  destruct (work_list_shape junk Hjunk ep (ew_mem (e_work x)) (ew_wc (e_work x)) (lanes_of sb) Xmem) as [Hw Ww]. fold ework in Hw, Ww.
  assert (Lework : length ework = N.to_nat (enc_work_count r K R)) by (unfold ework; rewrite (work_list_length junk Hjunk), E6, X6; reflexivity).
  (* the first K work positions are the originals *)
  assert (Eslot : map (fun s => nth l s 0) (firstn (N.to_nat K) ework) = slot l).
  { assert (HKw : K <= enc_work_count r K R).
    { destruct r; cbn [enc_work_count]; unfold high_enc_work_count, low_enc_work_count.
      - assert (0 < np2 R) by (unfold np2; pose proof (npow2_ge R); destruct (supports_bounds c K R Hs) as (_ & _ & ? & _); lia).
        destruct (next_mult_spec K (np2 R) H) as [A _]. exact A.
      - assert (0 < np2 K) by (unfold np2; pose proof (npow2_ge K); destruct (supports_bounds c K R Hs) as (? & _); lia).
        destruct (next_mult_spec R (np2 K) H) as [A [q Hq]]. rewrite Hq in *.
        pose proof (npow2_ge K). unfold np2 in *. destruct (supports_bounds c K R Hs) as (_ & _ & ? & _). destruct q; [lia|nia]. }
    assert (Ef : firstn (N.to_nat K) ework = map syms_of_bytes originals).
    { apply (nth_ext _ _ [] []).
      - rewrite firstn_length, map_length, Lework. unfold bytes in *. clear - HKw Lorig. lia.
      - intros n Hn. rewrite firstn_length, Lework in Hn. assert (Hn' : (n < N.to_nat K)%nat) by (clear - Hn; lia).
        assert (Hno : (n < length originals)%nat) by (unfold bytes in *; clear - Hn' Lorig; lia).
        rewrite nth_firstn_lt' by exact Hn'. rewrite (nth_map_lt _ []) by exact Hno.
        rewrite <- (Nat2N.id n). unfold ework. rewrite (work_list_nth junk Hjunk) by (rewrite E6, X6; clear - Hn' HKw; lia).
        rewrite E8. assert ((0 <=? N.of_nat n) && (N.of_nat n <? K) = true) as ->
          by (apply andb_true_intro; split; [apply N.leb_le|apply N.ltb_lt]; clear - Hn'; lia).
        rewrite N.sub_0_r, Nat2N.id. reflexivity. }
    rewrite Ef. unfold slot. apply map_map. }
  (* the produced shards as symbols *)
  unfold encode_shards. rewrite E1, X1, E5, X5, E3, X3, E4, X4, E2, X2. fold lanes ework.
  destruct (rate_env c K R Hs) as [Hlow Hhigh]. fold r in Hlow, Hhigh.
  destruct r eqn:Er.
  - destruct (high_env K R (Hhigh eq_refl)) as (HK & HR & Henv).
    set (rs := encode_high (shard_ops lanes) ee K R ework).
    assert (Lrs : length rs = N.to_nat R).
    { pose proof (npow2_ge R). apply encode_high_length; try lia. exact Lework. }
    assert (Wrs : Forall (Forall W16) rs) by (apply encode_high_W16; assumption).
    rewrite (nth_map_lt _ []) by lia.
    assert (Wj : Forall W16 (nth (N.to_nat j) rs [])) by (rewrite Forall_forall in Wrs; apply Wrs, nth_In; lia).
    destruct (unpack_pack _ Wj) as (U1 & _ & _). rewrite U1.
    pose proof (encode_high_cauchy_shards lanes ee K R ework HK HR Henv Hw Ww Lework (N.to_nat j) l ltac:(lia) Hl) as C2.
    rewrite N2Nat.id, Eslot in C2. exact C2.
  - destruct (low_env K R (Hlow eq_refl)) as (HK & HR & Henv).
    set (rs := encode_low (shard_ops lanes) ee K R ework).
    assert (Hmw : (N.to_nat (npow2 K) <= length ework)%nat).
    { rewrite Lework. cbn [enc_work_count]. unfold low_enc_work_count, np2.
      assert (0 < npow2 K) by (pose proof (npow2_ge K); lia).
      destruct (next_mult_spec R (npow2 K) H) as [A [q Hq]]. rewrite Hq in *. destruct q; [lia|nia]. }
    assert (Lrs : length rs = N.to_nat R).
    { pose proof (npow2_ge K). apply encode_low_length; try lia. exact Hmw. }
    assert (Wrs : Forall (Forall W16) rs) by (apply encode_low_W16; assumption).
    rewrite (nth_map_lt _ []) by lia.
    assert (Wj : Forall W16 (nth (N.to_nat j) rs [])) by (rewrite Forall_forall in Wrs; apply Wrs, nth_In; lia).
    destruct (unpack_pack _ Wj) as (U1 & _ & _). rewrite U1.
    pose proof (encode_low_cauchy_shards lanes ee K R ework HK HR Henv Hw Ww Hmw (N.to_nat j) l ltac:(lia) Hl) as C2.
    rewrite N2Nat.id, Eslot in C2. exact C2.
Qed.
End Enc.
