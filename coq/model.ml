
(** val negb : bool -> bool **)

let negb = function
| true -> false
| false -> true

type nat =
| O
| S of nat

(** val option_map : ('a1 -> 'a2) -> 'a1 option -> 'a2 option **)

let option_map f = function
| Some a -> Some (f a)
| None -> None

type ('a, 'b) sum =
| Inl of 'a
| Inr of 'b

(** val fst : ('a1 * 'a2) -> 'a1 **)

let fst = function
| (x, _) -> x

(** val snd : ('a1 * 'a2) -> 'a2 **)

let snd = function
| (_, y) -> y

(** val length : 'a1 list -> nat **)

let rec length = function
| [] -> O
| _ :: l' -> S (length l')

(** val app : 'a1 list -> 'a1 list -> 'a1 list **)

let rec app l m =
  match l with
  | [] -> m
  | a :: l1 -> a :: (app l1 m)

type comparison =
| Eq
| Lt
| Gt

module Coq__1 = struct
 (** val add : nat -> nat -> nat **)
 let rec add n0 m =
   match n0 with
   | O -> m
   | S p -> S (add p m)
end
include Coq__1

(** val mul : nat -> nat -> nat **)

let rec mul n0 m =
  match n0 with
  | O -> O
  | S p -> add m (mul p m)

(** val sub : nat -> nat -> nat **)

let rec sub n0 m =
  match n0 with
  | O -> n0
  | S k -> (match m with
            | O -> n0
            | S l -> sub k l)

(** val pow : nat -> nat -> nat **)

let rec pow n0 = function
| O -> S O
| S m0 -> mul n0 (pow n0 m0)

(** val divmod : nat -> nat -> nat -> nat -> nat * nat **)

let rec divmod x y q u =
  match x with
  | O -> (q, u)
  | S x' -> (match u with
             | O -> divmod x' y (S q) y
             | S u' -> divmod x' y q u')

(** val div : nat -> nat -> nat **)

let div x y = match y with
| O -> y
| S y' -> fst (divmod x y' O y')

(** val div2 : nat -> nat **)

let rec div2 = function
| O -> O
| S n1 -> (match n1 with
           | O -> O
           | S n' -> S (div2 n'))

type positive =
| XI of positive
| XO of positive
| XH

type n =
| N0
| Npos of positive

module Pos =
 struct
  type mask =
  | IsNul
  | IsPos of positive
  | IsNeg
 end

module Coq_Pos =
 struct
  (** val succ : positive -> positive **)

  let rec succ = function
  | XI p -> XO (succ p)
  | XO p -> XI p
  | XH -> XO XH

  (** val add : positive -> positive -> positive **)

  let rec add x y =
    match x with
    | XI p ->
      (match y with
       | XI q -> XO (add_carry p q)
       | XO q -> XI (add p q)
       | XH -> XO (succ p))
    | XO p ->
      (match y with
       | XI q -> XI (add p q)
       | XO q -> XO (add p q)
       | XH -> XI p)
    | XH -> (match y with
             | XI q -> XO (succ q)
             | XO q -> XI q
             | XH -> XO XH)

  (** val add_carry : positive -> positive -> positive **)

  and add_carry x y =
    match x with
    | XI p ->
      (match y with
       | XI q -> XI (add_carry p q)
       | XO q -> XO (add_carry p q)
       | XH -> XI (succ p))
    | XO p ->
      (match y with
       | XI q -> XO (add_carry p q)
       | XO q -> XI (add p q)
       | XH -> XO (succ p))
    | XH ->
      (match y with
       | XI q -> XI (succ q)
       | XO q -> XO (succ q)
       | XH -> XI XH)

  (** val pred_double : positive -> positive **)

  let rec pred_double = function
  | XI p -> XI (XO p)
  | XO p -> XI (pred_double p)
  | XH -> XH

  (** val pred_N : positive -> n **)

  let pred_N = function
  | XI p -> Npos (XO p)
  | XO p -> Npos (pred_double p)
  | XH -> N0

  type mask = Pos.mask =
  | IsNul
  | IsPos of positive
  | IsNeg

  (** val succ_double_mask : mask -> mask **)

  let succ_double_mask = function
  | IsNul -> IsPos XH
  | IsPos p -> IsPos (XI p)
  | IsNeg -> IsNeg

  (** val double_mask : mask -> mask **)

  let double_mask = function
  | IsPos p -> IsPos (XO p)
  | x0 -> x0

  (** val double_pred_mask : positive -> mask **)

  let double_pred_mask = function
  | XI p -> IsPos (XO (XO p))
  | XO p -> IsPos (XO (pred_double p))
  | XH -> IsNul

  (** val sub_mask : positive -> positive -> mask **)

  let rec sub_mask x y =
    match x with
    | XI p ->
      (match y with
       | XI q -> double_mask (sub_mask p q)
       | XO q -> succ_double_mask (sub_mask p q)
       | XH -> IsPos (XO p))
    | XO p ->
      (match y with
       | XI q -> succ_double_mask (sub_mask_carry p q)
       | XO q -> double_mask (sub_mask p q)
       | XH -> IsPos (pred_double p))
    | XH -> (match y with
             | XH -> IsNul
             | _ -> IsNeg)

  (** val sub_mask_carry : positive -> positive -> mask **)

  and sub_mask_carry x y =
    match x with
    | XI p ->
      (match y with
       | XI q -> succ_double_mask (sub_mask_carry p q)
       | XO q -> double_mask (sub_mask p q)
       | XH -> IsPos (pred_double p))
    | XO p ->
      (match y with
       | XI q -> double_mask (sub_mask_carry p q)
       | XO q -> succ_double_mask (sub_mask_carry p q)
       | XH -> double_pred_mask p)
    | XH -> IsNeg

  (** val mul : positive -> positive -> positive **)

  let rec mul x y =
    match x with
    | XI p -> add y (XO (mul p y))
    | XO p -> XO (mul p y)
    | XH -> y

  (** val iter : ('a1 -> 'a1) -> 'a1 -> positive -> 'a1 **)

  let rec iter f x = function
  | XI n' -> f (iter f (iter f x n') n')
  | XO n' -> iter f (iter f x n') n'
  | XH -> f x

  (** val pow : positive -> positive -> positive **)

  let pow x =
    iter (mul x) XH

  (** val size : positive -> positive **)

  let rec size = function
  | XI p0 -> succ (size p0)
  | XO p0 -> succ (size p0)
  | XH -> XH

  (** val compare_cont : comparison -> positive -> positive -> comparison **)

  let rec compare_cont r x y =
    match x with
    | XI p ->
      (match y with
       | XI q -> compare_cont r p q
       | XO q -> compare_cont Gt p q
       | XH -> Gt)
    | XO p ->
      (match y with
       | XI q -> compare_cont Lt p q
       | XO q -> compare_cont r p q
       | XH -> Gt)
    | XH -> (match y with
             | XH -> r
             | _ -> Lt)

  (** val compare : positive -> positive -> comparison **)

  let compare =
    compare_cont Eq

  (** val eqb : positive -> positive -> bool **)

  let rec eqb p q =
    match p with
    | XI p0 -> (match q with
                | XI q0 -> eqb p0 q0
                | _ -> false)
    | XO p0 -> (match q with
                | XO q0 -> eqb p0 q0
                | _ -> false)
    | XH -> (match q with
             | XH -> true
             | _ -> false)

  (** val coq_Nsucc_double : n -> n **)

  let coq_Nsucc_double = function
  | N0 -> Npos XH
  | Npos p -> Npos (XI p)

  (** val coq_Ndouble : n -> n **)

  let coq_Ndouble = function
  | N0 -> N0
  | Npos p -> Npos (XO p)

  (** val coq_lor : positive -> positive -> positive **)

  let rec coq_lor p q =
    match p with
    | XI p0 ->
      (match q with
       | XI q0 -> XI (coq_lor p0 q0)
       | XO q0 -> XI (coq_lor p0 q0)
       | XH -> p)
    | XO p0 ->
      (match q with
       | XI q0 -> XI (coq_lor p0 q0)
       | XO q0 -> XO (coq_lor p0 q0)
       | XH -> XI p0)
    | XH -> (match q with
             | XO q0 -> XI q0
             | _ -> q)

  (** val coq_land : positive -> positive -> n **)

  let rec coq_land p q =
    match p with
    | XI p0 ->
      (match q with
       | XI q0 -> coq_Nsucc_double (coq_land p0 q0)
       | XO q0 -> coq_Ndouble (coq_land p0 q0)
       | XH -> Npos XH)
    | XO p0 ->
      (match q with
       | XI q0 -> coq_Ndouble (coq_land p0 q0)
       | XO q0 -> coq_Ndouble (coq_land p0 q0)
       | XH -> N0)
    | XH -> (match q with
             | XO _ -> N0
             | _ -> Npos XH)

  (** val coq_lxor : positive -> positive -> n **)

  let rec coq_lxor p q =
    match p with
    | XI p0 ->
      (match q with
       | XI q0 -> coq_Ndouble (coq_lxor p0 q0)
       | XO q0 -> coq_Nsucc_double (coq_lxor p0 q0)
       | XH -> Npos (XO p0))
    | XO p0 ->
      (match q with
       | XI q0 -> coq_Nsucc_double (coq_lxor p0 q0)
       | XO q0 -> coq_Ndouble (coq_lxor p0 q0)
       | XH -> Npos (XI p0))
    | XH ->
      (match q with
       | XI q0 -> Npos (XO q0)
       | XO q0 -> Npos (XI q0)
       | XH -> N0)

  (** val shiftl : positive -> n -> positive **)

  let shiftl p = function
  | N0 -> p
  | Npos n1 -> iter (fun x -> XO x) p n1

  (** val testbit : positive -> n -> bool **)

  let rec testbit p n0 =
    match p with
    | XI p0 -> (match n0 with
                | N0 -> true
                | Npos n1 -> testbit p0 (pred_N n1))
    | XO p0 -> (match n0 with
                | N0 -> false
                | Npos n1 -> testbit p0 (pred_N n1))
    | XH -> (match n0 with
             | N0 -> true
             | Npos _ -> false)

  (** val iter_op : ('a1 -> 'a1 -> 'a1) -> positive -> 'a1 -> 'a1 **)

  let rec iter_op op0 p a =
    match p with
    | XI p0 -> op0 a (iter_op op0 p0 (op0 a a))
    | XO p0 -> iter_op op0 p0 (op0 a a)
    | XH -> a

  (** val to_nat : positive -> nat **)

  let to_nat x =
    iter_op Coq__1.add x (S O)

  (** val of_succ_nat : nat -> positive **)

  let rec of_succ_nat = function
  | O -> XH
  | S x -> succ (of_succ_nat x)
 end

module N =
 struct
  (** val succ_double : n -> n **)

  let succ_double = function
  | N0 -> Npos XH
  | Npos p -> Npos (XI p)

  (** val double : n -> n **)

  let double = function
  | N0 -> N0
  | Npos p -> Npos (XO p)

  (** val succ : n -> n **)

  let succ = function
  | N0 -> Npos XH
  | Npos p -> Npos (Coq_Pos.succ p)

  (** val pred : n -> n **)

  let pred = function
  | N0 -> N0
  | Npos p -> Coq_Pos.pred_N p

  (** val succ_pos : n -> positive **)

  let succ_pos = function
  | N0 -> XH
  | Npos p -> Coq_Pos.succ p

  (** val add : n -> n -> n **)

  let add n0 m =
    match n0 with
    | N0 -> m
    | Npos p -> (match m with
                 | N0 -> n0
                 | Npos q -> Npos (Coq_Pos.add p q))

  (** val sub : n -> n -> n **)

  let sub n0 m =
    match n0 with
    | N0 -> N0
    | Npos n' ->
      (match m with
       | N0 -> n0
       | Npos m' ->
         (match Coq_Pos.sub_mask n' m' with
          | Coq_Pos.IsPos p -> Npos p
          | _ -> N0))

  (** val mul : n -> n -> n **)

  let mul n0 m =
    match n0 with
    | N0 -> N0
    | Npos p -> (match m with
                 | N0 -> N0
                 | Npos q -> Npos (Coq_Pos.mul p q))

  (** val compare : n -> n -> comparison **)

  let compare n0 m =
    match n0 with
    | N0 -> (match m with
             | N0 -> Eq
             | Npos _ -> Lt)
    | Npos n' -> (match m with
                  | N0 -> Gt
                  | Npos m' -> Coq_Pos.compare n' m')

  (** val eqb : n -> n -> bool **)

  let eqb n0 m =
    match n0 with
    | N0 -> (match m with
             | N0 -> true
             | Npos _ -> false)
    | Npos p -> (match m with
                 | N0 -> false
                 | Npos q -> Coq_Pos.eqb p q)

  (** val leb : n -> n -> bool **)

  let leb x y =
    match compare x y with
    | Gt -> false
    | _ -> true

  (** val ltb : n -> n -> bool **)

  let ltb x y =
    match compare x y with
    | Lt -> true
    | _ -> false

  (** val min : n -> n -> n **)

  let min n0 n' =
    match compare n0 n' with
    | Gt -> n'
    | _ -> n0

  (** val max : n -> n -> n **)

  let max n0 n' =
    match compare n0 n' with
    | Gt -> n0
    | _ -> n'

  (** val div2 : n -> n **)

  let div2 = function
  | N0 -> N0
  | Npos p0 -> (match p0 with
                | XI p -> Npos p
                | XO p -> Npos p
                | XH -> N0)

  (** val even : n -> bool **)

  let even = function
  | N0 -> true
  | Npos p -> (match p with
               | XO _ -> true
               | _ -> false)

  (** val odd : n -> bool **)

  let odd n0 =
    negb (even n0)

  (** val pow : n -> n -> n **)

  let pow n0 = function
  | N0 -> Npos XH
  | Npos p0 -> (match n0 with
                | N0 -> N0
                | Npos q -> Npos (Coq_Pos.pow q p0))

  (** val log2 : n -> n **)

  let log2 = function
  | N0 -> N0
  | Npos p0 ->
    (match p0 with
     | XI p -> Npos (Coq_Pos.size p)
     | XO p -> Npos (Coq_Pos.size p)
     | XH -> N0)

  (** val pos_div_eucl : positive -> n -> n * n **)

  let rec pos_div_eucl a b =
    match a with
    | XI a' ->
      let (q, r) = pos_div_eucl a' b in
      let r' = succ_double r in
      if leb b r' then ((succ_double q), (sub r' b)) else ((double q), r')
    | XO a' ->
      let (q, r) = pos_div_eucl a' b in
      let r' = double r in
      if leb b r' then ((succ_double q), (sub r' b)) else ((double q), r')
    | XH ->
      (match b with
       | N0 -> (N0, (Npos XH))
       | Npos p -> (match p with
                    | XH -> ((Npos XH), N0)
                    | _ -> (N0, (Npos XH))))

  (** val div_eucl : n -> n -> n * n **)

  let div_eucl a b =
    match a with
    | N0 -> (N0, N0)
    | Npos na -> (match b with
                  | N0 -> (N0, a)
                  | Npos _ -> pos_div_eucl na b)

  (** val div : n -> n -> n **)

  let div a b =
    fst (div_eucl a b)

  (** val modulo : n -> n -> n **)

  let modulo a b =
    snd (div_eucl a b)

  (** val coq_lor : n -> n -> n **)

  let coq_lor n0 m =
    match n0 with
    | N0 -> m
    | Npos p -> (match m with
                 | N0 -> n0
                 | Npos q -> Npos (Coq_Pos.coq_lor p q))

  (** val coq_land : n -> n -> n **)

  let coq_land n0 m =
    match n0 with
    | N0 -> N0
    | Npos p -> (match m with
                 | N0 -> N0
                 | Npos q -> Coq_Pos.coq_land p q)

  (** val coq_lxor : n -> n -> n **)

  let coq_lxor n0 m =
    match n0 with
    | N0 -> m
    | Npos p -> (match m with
                 | N0 -> n0
                 | Npos q -> Coq_Pos.coq_lxor p q)

  (** val shiftl : n -> n -> n **)

  let shiftl a n0 =
    match a with
    | N0 -> N0
    | Npos a0 -> Npos (Coq_Pos.shiftl a0 n0)

  (** val shiftr : n -> n -> n **)

  let shiftr a = function
  | N0 -> a
  | Npos p -> Coq_Pos.iter div2 a p

  (** val testbit : n -> n -> bool **)

  let testbit a n0 =
    match a with
    | N0 -> false
    | Npos p -> Coq_Pos.testbit p n0

  (** val to_nat : n -> nat **)

  let to_nat = function
  | N0 -> O
  | Npos p -> Coq_Pos.to_nat p

  (** val of_nat : nat -> n **)

  let of_nat = function
  | O -> N0
  | S n' -> Npos (Coq_Pos.of_succ_nat n')

  (** val iter : n -> ('a1 -> 'a1) -> 'a1 -> 'a1 **)

  let iter n0 f x =
    match n0 with
    | N0 -> x
    | Npos p -> Coq_Pos.iter f x p

  (** val log2_up : n -> n **)

  let log2_up a =
    match compare (Npos XH) a with
    | Lt -> succ (log2 (pred a))
    | _ -> N0
 end

(** val nth : nat -> 'a1 list -> 'a1 -> 'a1 **)

let rec nth n0 l default =
  match n0 with
  | O -> (match l with
          | [] -> default
          | x :: _ -> x)
  | S m -> (match l with
            | [] -> default
            | _ :: t0 -> nth m t0 default)

(** val nth_error : 'a1 list -> nat -> 'a1 option **)

let rec nth_error l = function
| O -> (match l with
        | [] -> None
        | x :: _ -> Some x)
| S n1 -> (match l with
           | [] -> None
           | _ :: l0 -> nth_error l0 n1)

(** val rev : 'a1 list -> 'a1 list **)

let rec rev = function
| [] -> []
| x :: l' -> app (rev l') (x :: [])

(** val map : ('a1 -> 'a2) -> 'a1 list -> 'a2 list **)

let rec map f = function
| [] -> []
| a :: t0 -> (f a) :: (map f t0)

(** val flat_map : ('a1 -> 'a2 list) -> 'a1 list -> 'a2 list **)

let rec flat_map f = function
| [] -> []
| x :: t0 -> app (f x) (flat_map f t0)

(** val fold_left : ('a1 -> 'a2 -> 'a1) -> 'a2 list -> 'a1 -> 'a1 **)

let rec fold_left f l a0 =
  match l with
  | [] -> a0
  | b :: t0 -> fold_left f t0 (f a0 b)

(** val existsb : ('a1 -> bool) -> 'a1 list -> bool **)

let rec existsb f = function
| [] -> false
| a :: l0 -> (||) (f a) (existsb f l0)

(** val filter : ('a1 -> bool) -> 'a1 list -> 'a1 list **)

let rec filter f = function
| [] -> []
| x :: l0 -> if f x then x :: (filter f l0) else filter f l0

(** val combine : 'a1 list -> 'a2 list -> ('a1 * 'a2) list **)

let rec combine l l' =
  match l with
  | [] -> []
  | x :: tl ->
    (match l' with
     | [] -> []
     | y :: tl' -> (x, y) :: (combine tl tl'))

(** val firstn : nat -> 'a1 list -> 'a1 list **)

let rec firstn n0 l =
  match n0 with
  | O -> []
  | S n1 -> (match l with
             | [] -> []
             | a :: l0 -> a :: (firstn n1 l0))

(** val skipn : nat -> 'a1 list -> 'a1 list **)

let rec skipn n0 l =
  match n0 with
  | O -> l
  | S n1 -> (match l with
             | [] -> []
             | _ :: l0 -> skipn n1 l0)

(** val repeat : 'a1 -> nat -> 'a1 list **)

let rec repeat x = function
| O -> []
| S k -> x :: (repeat x k)

type error =
| DifferentShardSize of n * n
| DuplicateOriginalShardIndex of n
| DuplicateRecoveryShardIndex of n
| InvalidOriginalShardIndex of n * n
| InvalidRecoveryShardIndex of n * n
| InvalidShardSize of n
| NotEnoughShards of n * n * n
| TooFewOriginalShards of n * n
| TooManyOriginalShards of n
| UnsupportedShardCount of n * n

(** val npow2 : n -> n **)

let npow2 x =
  if N.leb x (Npos XH) then Npos XH else N.pow (Npos (XO XH)) (N.log2_up x)

(** val gF_ORDER : n **)

let gF_ORDER =
  Npos (XO (XO (XO (XO (XO (XO (XO (XO (XO (XO (XO (XO (XO (XO (XO (XO
    XH))))))))))))))))

(** val gF_MODULUS : n **)

let gF_MODULUS =
  Npos (XI (XI (XI (XI (XI (XI (XI (XI (XI (XI (XI (XI (XI (XI (XI
    XH)))))))))))))))

(** val gF_POLYNOMIAL : n **)

let gF_POLYNOMIAL =
  Npos (XI (XO (XI (XI (XO (XI (XO (XO (XO (XO (XO (XO (XO (XO (XO (XO
    XH))))))))))))))))

(** val cANTOR_BASIS : n list **)

let cANTOR_BASIS =
  (Npos XH) :: ((Npos (XO (XI (XO (XI (XO (XO (XI (XI (XO (XO (XI (XI (XO (XI
    (XO XH)))))))))))))))) :: ((Npos (XO (XI (XI (XI (XO (XO (XO (XO (XO (XO
    (XI (XI (XI XH)))))))))))))) :: ((Npos (XO (XI (XI (XI (XI (XI (XO (XO
    (XO (XI (XI (XO XH))))))))))))) :: ((Npos (XO (XI (XO (XO (XO (XO (XO (XI
    (XI (XO (XI (XO (XO (XO (XI XH)))))))))))))))) :: ((Npos (XO (XI (XI (XI
    (XO (XI (XO (XO (XI (XO (XI (XI (XO (XI (XI XH)))))))))))))))) :: ((Npos
    (XO (XO (XI (XI (XO (XO (XI (XO (XI (XO (XO (XO (XI (XO (XO
    XH)))))))))))))))) :: ((Npos (XO (XI (XO (XO (XI (XO (XO (XO (XO (XO (XO
    (XO (XO (XO XH))))))))))))))) :: ((Npos (XO (XO (XO (XI (XI (XO (XO (XI
    (XO (XO (XI (XI (XO (XI XH))))))))))))))) :: ((Npos (XO (XO (XO (XI (XI
    (XO (XI (XI (XO (XO (XO (XO XH))))))))))))) :: ((Npos (XO (XI (XO (XO (XI
    (XI (XI (XO (XO (XI (XO (XI (XO (XI XH))))))))))))))) :: ((Npos (XO (XO
    (XO (XO (XO (XO (XO (XO (XI (XO (XO (XI (XI (XI (XO
    XH)))))))))))))))) :: ((Npos (XO (XO (XO (XI (XI (XI (XO (XI (XI (XO (XI
    (XI (XI (XI (XI XH)))))))))))))))) :: ((Npos (XO (XO (XI (XO (XI (XI (XO
    (XO (XI (XI (XO (XI (XI (XI (XI XH)))))))))))))))) :: ((Npos (XO (XO (XO
    (XI (XI (XI (XO (XO (XI (XI (XI (XI (XI (XI (XI
    XH)))))))))))))))) :: ((Npos (XO (XI (XI (XI (XI (XO (XO (XO (XI (XO (XO
    (XI (XI (XO (XO XH)))))))))))))))) :: [])))))))))))))))

module PositiveMap =
 struct
  type key = positive

  type 'a tree =
  | Leaf
  | Node of 'a tree * 'a option * 'a tree

  type 'a t = 'a tree

  (** val empty : 'a1 t **)

  let empty =
    Leaf

  (** val find : key -> 'a1 t -> 'a1 option **)

  let rec find i = function
  | Leaf -> None
  | Node (l, o, r) ->
    (match i with
     | XI ii -> find ii r
     | XO ii -> find ii l
     | XH -> o)

  (** val add : key -> 'a1 -> 'a1 t -> 'a1 t **)

  let rec add i v = function
  | Leaf ->
    (match i with
     | XI ii -> Node (Leaf, None, (add ii v Leaf))
     | XO ii -> Node ((add ii v Leaf), None, Leaf)
     | XH -> Node (Leaf, (Some v), Leaf))
  | Node (l, o, r) ->
    (match i with
     | XI ii -> Node (l, o, (add ii v r))
     | XO ii -> Node ((add ii v l), o, r)
     | XH -> Node (l, (Some v), r))
 end

type tbl = n PositiveMap.t

(** val tempty : tbl **)

let tempty =
  PositiveMap.empty

(** val tget : tbl -> n -> n **)

let tget t0 i =
  match PositiveMap.find (N.succ_pos i) t0 with
  | Some v -> v
  | None -> N0

(** val tset : tbl -> n -> n -> tbl **)

let tset t0 i v =
  PositiveMap.add (N.succ_pos i) v t0

(** val rangeN : n -> nat -> n list **)

let rec rangeN a = function
| O -> []
| S k -> a :: (rangeN (N.add a (Npos XH)) k)

(** val range : n -> n -> n list **)

let range a b =
  rangeN a (N.to_nat (N.sub b a))

(** val fold_range : n -> n -> (n -> 'a1 -> 'a1) -> 'a1 -> 'a1 **)

let fold_range a b f s =
  fold_left (fun acc i -> f i acc) (range a b) s

(** val tbl_of_list : n list -> tbl **)

let tbl_of_list l =
  snd
    (fold_left (fun pat v ->
      let (i, t0) = pat in ((N.add i (Npos XH)), (tset t0 i v))) l (N0,
      tempty))

(** val mulx : n -> n **)

let mulx a =
  let s = N.shiftl a (Npos XH) in
  if N.leb gF_ORDER s then N.coq_lxor s gF_POLYNOMIAL else s

(** val phi_aux : n list -> n -> n -> n **)

let rec phi_aux basis i x =
  match basis with
  | [] -> N0
  | b :: rest ->
    N.coq_lxor (if N.testbit x i then b else N0)
      (phi_aux rest (N.add i (Npos XH)) x)

(** val phi : n -> n **)

let phi x =
  phi_aux cANTOR_BASIS N0 x

(** val add_mod : n -> n -> n **)

let add_mod x y =
  let sum0 = N.add x y in
  if N.ltb sum0 (Npos (XO (XO (XO (XO (XO (XO (XO (XO (XO (XO (XO (XO (XO (XO
       (XO (XO XH)))))))))))))))))
  then sum0
  else N.sub sum0 (Npos (XI (XI (XI (XI (XI (XI (XI (XI (XI (XI (XI (XI (XI
         (XI (XI XH))))))))))))))))

(** val sub_mod : n -> n -> n **)

let sub_mod x y =
  if N.leb y x
  then N.sub x y
  else N.sub
         (N.add x (Npos (XI (XI (XI (XI (XI (XI (XI (XI (XI (XI (XI (XI (XI
           (XI (XI XH))))))))))))))))) y

(** val lfsr_step : ((n * n) * tbl) -> (n * n) * tbl **)

let lfsr_step = function
| (p, e) -> let (i, s) = p in (((N.add i (Npos XH)), (mulx s)), (tset e s i))

(** val lfsr_tbl : tbl **)

let lfsr_tbl =
  let (_, e) = N.iter gF_MODULUS lfsr_step ((N0, (Npos XH)), tempty) in
  tset e N0 gF_MODULUS

(** val log_tbl : tbl **)

let log_tbl =
  fold_range N0 gF_ORDER (fun i t0 -> tset t0 i (tget lfsr_tbl (phi i)))
    tempty

(** val exp_tbl : tbl **)

let exp_tbl =
  let e =
    fold_range N0 gF_ORDER (fun i t0 -> tset t0 (tget log_tbl i) i) lfsr_tbl
  in
  tset e gF_MODULUS (tget e N0)

(** val glog : n -> n **)

let glog x =
  tget log_tbl x

(** val gexp : n -> n **)

let gexp k =
  tget exp_tbl k

(** val mul0 : n -> n -> n **)

let mul0 x log_m =
  if N.eqb x N0 then N0 else gexp (add_mod (glog x) log_m)

(** val fmul : n -> n -> n **)

let fmul a b =
  if N.eqb b N0 then N0 else mul0 a (glog b)

(** val fdiv : n -> n -> n **)

let fdiv a b =
  if N.eqb a N0 then N0 else mul0 a (N.sub gF_MODULUS (glog b))

(** val fwht_2 : n -> n -> n * n **)

let fwht_2 a b =
  ((add_mod a b), (sub_mod a b))

(** val fwht_4v : ((n * n) * (n * n)) -> (n * n) * (n * n) **)

let fwht_4v = function
| (p, p0) ->
  let (a, b) = p in
  let (c, d) = p0 in
  let (s0, d0) = fwht_2 a b in
  let (s1, d1) = fwht_2 c d in
  let (s2, d2) = fwht_2 s0 s1 in
  let (s3, d3) = fwht_2 d0 d1 in ((s2, s3), (d2, d3))

(** val fwht_layer : nat -> nat -> n -> n -> n list -> n list **)

let rec fwht_layer fuel dist r m_truncated l =
  match fuel with
  | O -> l
  | S f ->
    if N.ltb r m_truncated
    then let a = firstn dist l in
         let l1 = skipn dist l in
         let b = firstn dist l1 in
         let l2 = skipn dist l1 in
         let c = firstn dist l2 in
         let l3 = skipn dist l2 in
         let d = firstn dist l3 in
         let tl = skipn dist l3 in
         let q = map fwht_4v (combine (combine a b) (combine c d)) in
         app (map (fun x -> fst (fst x)) q)
           (app (map (fun x -> snd (fst x)) q)
             (app (map (fun x -> fst (snd x)) q)
               (app (map (fun x -> snd (snd x)) q)
                 (fwht_layer f dist
                   (N.add r (N.mul (Npos (XO (XO XH))) (N.of_nat dist)))
                   m_truncated tl))))
    else l

(** val steps : nat -> n -> n -> n -> n list **)

let rec steps fuel r step0 bound =
  match fuel with
  | O -> []
  | S f ->
    if N.ltb r bound then r :: (steps f (N.add r step0) step0 bound) else []

(** val fwht_dists : n list **)

let fwht_dists =
  (Npos XH) :: ((Npos (XO (XO XH))) :: ((Npos (XO (XO (XO (XO
    XH))))) :: ((Npos (XO (XO (XO (XO (XO (XO XH))))))) :: ((Npos (XO (XO (XO
    (XO (XO (XO (XO (XO XH))))))))) :: ((Npos (XO (XO (XO (XO (XO (XO (XO (XO
    (XO (XO XH))))))))))) :: ((Npos (XO (XO (XO (XO (XO (XO (XO (XO (XO (XO
    (XO (XO XH))))))))))))) :: ((Npos (XO (XO (XO (XO (XO (XO (XO (XO (XO (XO
    (XO (XO (XO (XO XH))))))))))))))) :: [])))))))

(** val fwht_pass : n -> n list -> n -> n list **)

let fwht_pass m_truncated l dist =
  fwht_layer (N.to_nat (N.div gF_ORDER (N.mul (Npos (XO (XO XH))) dist)))
    (N.to_nat dist) N0 m_truncated l

(** val fwht : n list -> n -> n list **)

let fwht d m_truncated =
  fold_left (fwht_pass m_truncated) fwht_dists d

(** val log_walsh : n list **)

let log_walsh =
  fwht (map (fun i -> if N.eqb i N0 then N0 else glog i) (range N0 gF_ORDER))
    gF_ORDER

(** val log_walsh_tbl : tbl **)

let log_walsh_tbl =
  tbl_of_list log_walsh

(** val eval_poly : n list -> n -> n list **)

let eval_poly erasures truncated_size =
  let e1 = fwht erasures truncated_size in
  let e2 =
    map (fun p ->
      let product = N.mul (fst p) (snd p) in
      add_mod
        (N.coq_land product (Npos (XI (XI (XI (XI (XI (XI (XI (XI (XI (XI (XI
          (XI (XI (XI (XI XH)))))))))))))))))
        (N.shiftr product (Npos (XO (XO (XO (XO XH)))))))
      (combine e1 log_walsh)
  in
  fwht e2 gF_ORDER

(** val skew_inner : n -> n -> n -> n -> tbl -> tbl **)

let skew_inner start step0 s ti skew0 =
  fold_left (fun sk j -> tset sk (N.add j s) (N.coq_lxor (tget sk j) ti))
    (map (fun j -> N.add j start)
      (steps
        (N.to_nat
          (N.div (N.sub (N.add (N.sub s start) step0) (Npos XH)) step0)) N0
        step0 (N.sub s start))) skew0

(** val skew_m : n -> (tbl * tbl) -> tbl * tbl **)

let skew_m m = function
| (skew0, temp) ->
  let step0 = N.pow (Npos (XO XH)) (N.add m (Npos XH)) in
  let skew1 = tset skew0 (N.sub (N.pow (Npos (XO XH)) m) (Npos XH)) N0 in
  let skew2 =
    fold_range m (Npos (XI (XI (XI XH)))) (fun i sk ->
      skew_inner (N.sub (N.pow (Npos (XO XH)) m) (Npos XH)) step0
        (N.pow (Npos (XO XH)) (N.add i (Npos XH))) (tget temp i) sk) skew1
  in
  let tm = tget temp m in
  let tm' = N.sub gF_MODULUS (glog (mul0 tm (glog (N.coq_lxor tm (Npos XH)))))
  in
  let temp0 = tset temp m tm' in
  let temp1 =
    fold_range (N.add m (Npos XH)) (Npos (XI (XI (XI XH)))) (fun i t0 ->
      let sum0 = add_mod (glog (N.coq_lxor (tget t0 i) (Npos XH))) tm' in
      tset t0 i (mul0 (tget t0 i) sum0)) temp0
  in
  (skew2, temp1)

(** val skew_tbl : tbl **)

let skew_tbl =
  let temp0 =
    fold_range (Npos XH) (Npos (XO (XO (XO (XO XH))))) (fun i t0 ->
      tset t0 (N.sub i (Npos XH)) (N.pow (Npos (XO XH)) i)) tempty
  in
  let (skew0, _) =
    fold_range N0 (Npos (XI (XI (XI XH)))) skew_m (tempty, temp0)
  in
  fold_range N0 gF_MODULUS (fun i t0 -> tset t0 i (glog (tget skew0 i)))
    tempty

(** val skew : n -> n **)

let skew i =
  if N.ltb i gF_MODULUS then tget skew_tbl i else gF_MODULUS

type 't elt_ops = { xorT : ('t -> 't -> 't); mulT : ('t -> n -> 't);
                    zeroT : 't }

(** val sym_ops : n elt_ops **)

let sym_ops =
  { xorT = N.coq_lxor; mulT = mul0; zeroT = N0 }

(** val map2 : ('a1 -> 'a2 -> 'a3) -> 'a1 list -> 'a2 list -> 'a3 list **)

let map2 f l1 l2 =
  map (fun p -> f (fst p) (snd p)) (combine l1 l2)

(** val shard_ops : nat -> n list elt_ops **)

let shard_ops lanes =
  { xorT = (map2 N.coq_lxor); mulT = (fun s m -> map (fun x -> mul0 x m) s);
    zeroT = (repeat N0 lanes) }

(** val muladd : 'a1 elt_ops -> 'a1 -> 'a1 -> n -> 'a1 **)

let muladd ops x y log_m =
  if N.eqb log_m gF_MODULUS then x else ops.xorT x (ops.mulT y log_m)

(** val fft_bf : 'a1 elt_ops -> n -> ('a1 * 'a1) -> 'a1 * 'a1 **)

let fft_bf ops log_m = function
| (a, b) -> let a' = muladd ops a b log_m in (a', (ops.xorT b a'))

(** val ifft_bf : 'a1 elt_ops -> n -> ('a1 * 'a1) -> 'a1 * 'a1 **)

let ifft_bf ops log_m = function
| (a, b) -> let b' = ops.xorT b a in ((muladd ops a b' log_m), b')

(** val bf2 :
    (('a1 * 'a1) -> 'a1 * 'a1) -> 'a1 list -> 'a1 list -> 'a1 list * 'a1 list **)

let bf2 bf a b =
  let ab = map bf (combine a b) in ((map fst ab), (map snd ab))

(** val naive_layer :
    (n -> n) -> (n -> ('a1 * 'a1) -> 'a1 * 'a1) -> nat -> nat -> n -> n -> n
    -> 'a1 list -> 'a1 list **)

let rec naive_layer skewf bf fuel dist r trunc sd l =
  match fuel with
  | O -> l
  | S f ->
    if N.ltb r trunc
    then let a = firstn dist l in
         let rest = skipn dist l in
         let b = firstn dist rest in
         let tl = skipn dist rest in
         let log_m =
           skewf (N.sub (N.add (N.add r (N.of_nat dist)) sd) (Npos XH))
         in
         let (a', b') = bf2 (bf log_m) a b in
         app a'
           (app b'
             (naive_layer skewf bf f dist
               (N.add r (N.mul (Npos (XO XH)) (N.of_nat dist))) trunc sd tl))
    else l

(** val dists_up : nat -> n -> n -> n list **)

let rec dists_up fuel d size0 =
  match fuel with
  | O -> []
  | S f ->
    if N.ltb d size0
    then d :: (dists_up f (N.mul (Npos (XO XH)) d) size0)
    else []

(** val dists : n -> n list **)

let dists size0 =
  dists_up (S (S (S (S (S (S (S (S (S (S (S (S (S (S (S (S (S
    O))))))))))))))))) (Npos XH) size0

(** val naive_pass :
    (n -> n) -> (n -> ('a1 * 'a1) -> 'a1 * 'a1) -> n -> n -> n -> 'a1 list ->
    n -> 'a1 list **)

let naive_pass skewf bf size0 trunc sd l dist =
  naive_layer skewf bf (N.to_nat (N.div size0 (N.mul (Npos (XO XH)) dist)))
    (N.to_nat dist) N0 trunc sd l

(** val naive_fft :
    'a1 elt_ops -> (n -> n) -> n -> n -> n -> 'a1 list -> 'a1 list **)

let naive_fft ops skewf size0 trunc sd l =
  fold_left (naive_pass skewf (fft_bf ops) size0 trunc sd)
    (rev (dists size0)) l

(** val naive_ifft :
    'a1 elt_ops -> (n -> n) -> n -> n -> n -> 'a1 list -> 'a1 list **)

let naive_ifft ops skewf size0 trunc sd l =
  fold_left (naive_pass skewf (ifft_bf ops) size0 trunc sd) (dists size0) l

(** val fft_two :
    'a1 elt_ops -> n -> n -> n -> (('a1 * 'a1) * ('a1 * 'a1)) ->
    ('a1 * 'a1) * ('a1 * 'a1) **)

let fft_two ops m01 m23 m02 = function
| (p, p0) ->
  let (s0, s1) = p in
  let (s2, s3) = p0 in
  let (s4, s5) = fft_bf ops m02 (s0, s2) in
  let (s6, s7) = fft_bf ops m02 (s1, s3) in
  ((fft_bf ops m01 (s4, s6)), (fft_bf ops m23 (s5, s7)))

(** val ifft_two :
    'a1 elt_ops -> n -> n -> n -> (('a1 * 'a1) * ('a1 * 'a1)) ->
    ('a1 * 'a1) * ('a1 * 'a1) **)

let ifft_two ops m01 m23 m02 = function
| (p, p0) ->
  let (s0, s1) = ifft_bf ops m01 p in
  let (s2, s3) = ifft_bf ops m23 p0 in
  let (s4, s5) = ifft_bf ops m02 (s0, s2) in
  let (s6, s7) = ifft_bf ops m02 (s1, s3) in ((s4, s6), (s5, s7))

(** val two_layer :
    (n -> n) -> (n -> n -> n -> (('a1 * 'a1) * ('a1 * 'a1)) ->
    ('a1 * 'a1) * ('a1 * 'a1)) -> nat -> nat -> n -> n -> n -> 'a1 list ->
    'a1 list **)

let rec two_layer skewf two fuel dist r trunc sd l =
  match fuel with
  | O -> l
  | S f ->
    if N.ltb r trunc
    then let a = firstn dist l in
         let l1 = skipn dist l in
         let b = firstn dist l1 in
         let l2 = skipn dist l1 in
         let c = firstn dist l2 in
         let l3 = skipn dist l2 in
         let d = firstn dist l3 in
         let tl = skipn dist l3 in
         let dn = N.of_nat dist in
         let base = N.sub (N.add (N.add r dn) sd) (Npos XH) in
         let m01 = skewf base in
         let m02 = skewf (N.add base dn) in
         let m23 = skewf (N.add base (N.mul dn (Npos (XO XH)))) in
         let q = map (two m01 m23 m02) (combine (combine a b) (combine c d))
         in
         app (map (fun x -> fst (fst x)) q)
           (app (map (fun x -> snd (fst x)) q)
             (app (map (fun x -> fst (snd x)) q)
               (app (map (fun x -> snd (snd x)) q)
                 (two_layer skewf two f dist
                   (N.add r (N.mul (Npos (XO (XO XH))) dn)) trunc sd tl))))
    else l

(** val dists4_down : nat -> n -> n -> n list * n **)

let rec dists4_down fuel dist4 dist =
  match fuel with
  | O -> ([], dist4)
  | S f ->
    if N.eqb dist N0
    then ([], dist4)
    else let (ds, last) = dists4_down f dist (N.shiftr dist (Npos (XO XH))) in
         ((dist :: ds), last)

(** val dists4_up : nat -> n -> n -> n -> n list * n **)

let rec dists4_up fuel dist dist4 size0 =
  match fuel with
  | O -> ([], dist)
  | S f ->
    if N.leb dist4 size0
    then let (ds, last) =
           dists4_up f dist4 (N.shiftl dist4 (Npos (XO XH))) size0
         in
         ((dist :: ds), last)
    else ([], dist)

(** val two_pass :
    (n -> n) -> (n -> n -> n -> (('a1 * 'a1) * ('a1 * 'a1)) ->
    ('a1 * 'a1) * ('a1 * 'a1)) -> n -> n -> 'a1 list -> n -> 'a1 list **)

let two_pass skewf two trunc sd l dist =
  two_layer skewf two
    (N.to_nat (N.div (N.of_nat (length l)) (N.mul (Npos (XO (XO XH))) dist)))
    (N.to_nat dist) N0 trunc sd l

(** val two_fft :
    'a1 elt_ops -> (n -> n) -> n -> n -> n -> 'a1 list -> 'a1 list **)

let two_fft ops skewf size0 trunc sd l =
  let (ds, dist4) =
    dists4_down (S (S (S (S (S (S (S (S (S (S (S (S (S (S (S (S (S
      O))))))))))))))))) size0 (N.shiftr size0 (Npos (XO XH)))
  in
  let l0 = fold_left (two_pass skewf (fft_two ops) trunc sd) ds l in
  if N.eqb dist4 (Npos (XO XH))
  then naive_layer skewf (fft_bf ops) (N.to_nat (N.div size0 (Npos (XO XH))))
         (S O) N0 trunc sd l0
  else l0

(** val two_ifft :
    'a1 elt_ops -> (n -> n) -> n -> n -> n -> 'a1 list -> 'a1 list **)

let two_ifft ops skewf size0 trunc sd l =
  let (ds, dist) =
    dists4_up (S (S (S (S (S (S (S (S (S (S (S (S (S (S (S (S (S
      O))))))))))))))))) (Npos XH) (Npos (XO (XO XH))) size0
  in
  let l0 = fold_left (two_pass skewf (ifft_two ops) trunc sd) ds l in
  if N.ltb dist size0
  then let dn = N.to_nat dist in
       let a = firstn dn l0 in
       let rest = skipn dn l0 in
       let b = firstn dn rest in
       let tl = skipn dn rest in
       let log_m = skewf (N.sub (N.add dist sd) (Npos XH)) in
       let (a', b') = bf2 (ifft_bf ops log_m) a b in app a' (app b' tl)
  else l0

(** val formal_derivative_rec : 'a1 elt_ops -> nat -> 'a1 list -> 'a1 list **)

let rec formal_derivative_rec ops k l =
  match k with
  | O -> l
  | S k' ->
    let h = pow (S (S O)) k' in
    let lo = firstn h l in
    let hi = skipn h l in
    app (map2 ops.xorT (formal_derivative_rec ops k' lo) hi)
      (formal_derivative_rec ops k' hi)

(** val formal_derivative : 'a1 elt_ops -> 'a1 list -> 'a1 list **)

let formal_derivative ops l =
  formal_derivative_rec ops (N.to_nat (N.log2 (N.of_nat (length l)))) l

type engine =
| Naive
| NoSimd
| Ssse3
| Avx2
| Neon
| DefaultE

(** val two_layer_engine : engine -> bool **)

let two_layer_engine = function
| Naive -> false
| _ -> true

(** val fft : 'a1 elt_ops -> engine -> n -> n -> n -> 'a1 list -> 'a1 list **)

let fft ops e =
  if two_layer_engine e then two_fft ops skew else naive_fft ops skew

(** val ifft :
    'a1 elt_ops -> engine -> n -> n -> n -> 'a1 list -> 'a1 list **)

let ifft ops e =
  if two_layer_engine e then two_ifft ops skew else naive_ifft ops skew

(** val np2 : n -> n **)

let np2 =
  npow2

(** val next_mult : n -> n -> n **)

let next_mult a b =
  let r = N.modulo a b in if N.eqb r N0 then a else N.add a (N.sub b r)

(** val high_enc_work_count : n -> n -> n **)

let high_enc_work_count k r =
  next_mult k (np2 r)

(** val high_dec_work_count : n -> n -> n **)

let high_dec_work_count k r =
  np2 (N.add (np2 r) k)

(** val low_enc_work_count : n -> n -> n **)

let low_enc_work_count k r =
  next_mult r (np2 k)

(** val low_dec_work_count : n -> n -> n **)

let low_dec_work_count k r =
  np2 (N.add (np2 k) r)

(** val zeros : 'a1 elt_ops -> nat -> 'a1 list **)

let zeros ops n0 =
  repeat ops.zeroT n0

(** val xor_list : 'a1 elt_ops -> 'a1 list -> 'a1 list -> 'a1 list **)

let xor_list ops a b =
  map2 ops.xorT a b

(** val zero_tail : 'a1 elt_ops -> nat -> 'a1 list -> 'a1 list **)

let zero_tail ops keep l =
  app (firstn keep l) (zeros ops (sub (length l) keep))

(** val chunks : nat -> nat -> 'a1 list -> 'a1 list list **)

let rec chunks fuel m l =
  match fuel with
  | O -> []
  | S f ->
    (match l with
     | [] -> []
     | _ :: _ -> (firstn m l) :: (chunks f m (skipn m l)))

(** val high_enc_chunks :
    'a1 elt_ops -> engine -> n -> n -> n -> 'a1 list -> 'a1 list list -> 'a1
    list **)

let rec high_enc_chunks ops e k m cs acc = function
| [] -> acc
| c :: rest ->
  if N.leb (N.add cs m) k
  then let c' = ifft ops e m m (N.add cs m) c in
       high_enc_chunks ops e k m (N.add cs m) (xor_list ops acc c') rest
  else let last = N.modulo k m in
       if N.ltb N0 last
       then let c0 = zero_tail ops (N.to_nat last) c in
            let c' = ifft ops e m last (N.add cs m) c0 in xor_list ops acc c'
       else acc

(** val encode_high :
    'a1 elt_ops -> engine -> n -> n -> 'a1 list -> 'a1 list **)

let encode_high ops e k r work =
  let m = np2 r in
  let mn = N.to_nat m in
  let first_count = N.min k m in
  let cl = chunks (length work) mn work in
  (match cl with
   | [] -> []
   | c0 :: rest ->
     let c1 = zero_tail ops (N.to_nat first_count) c0 in
     let c2 = ifft ops e m first_count m c1 in
     let acc = if N.ltb m k then high_enc_chunks ops e k m m c2 rest else c2
     in
     firstn (N.to_nat r) (fft ops e m r N0 acc))

(** val low_enc_chunks :
    'a1 elt_ops -> engine -> nat -> n -> n -> n -> 'a1 list -> 'a1 list **)

let rec low_enc_chunks ops e fuel r m cs coeffs =
  match fuel with
  | O -> []
  | S f ->
    if N.leb (N.add cs m) r
    then app (fft ops e m m (N.add cs m) coeffs)
           (low_enc_chunks ops e f r m (N.add cs m) coeffs)
    else let last = N.modulo r m in
         if N.ltb N0 last then fft ops e m last (N.add cs m) coeffs else []

(** val encode_low :
    'a1 elt_ops -> engine -> n -> n -> 'a1 list -> 'a1 list **)

let encode_low ops e k r work =
  let m = np2 k in
  let c0 = zero_tail ops (N.to_nat k) (firstn (N.to_nat m) work) in
  let coeffs = ifft ops e m k N0 c0 in
  firstn (N.to_nat r)
    (low_enc_chunks ops e (S (N.to_nat (N.div r m))) r m N0 coeffs)

(** val mul_or_zero : 'a1 elt_ops -> (n -> bool) -> n -> n -> 'a1 -> 'a1 **)

let mul_or_zero ops recv i er x =
  if recv i then ops.mulT x er else ops.zeroT

(** val reveal : 'a1 elt_ops -> (n -> bool) -> n -> n -> 'a1 -> 'a1 **)

let reveal ops recv i er x =
  if recv i then x else ops.mulT x (N.sub gF_MODULUS er)

(** val mapi : (n -> n -> 'a1 -> 'a1) -> n list -> 'a1 list -> 'a1 list **)

let mapi f er l =
  map (fun p -> f (fst (fst p)) (snd (fst p)) (snd p))
    (combine (combine (range N0 (N.of_nat (length l))) er) l)

(** val transform :
    'a1 elt_ops -> engine -> n -> n -> 'a1 list -> 'a1 list **)

let transform ops e n0 trunc w0 =
  let w1 = ifft ops e n0 trunc N0 w0 in
  let w2 = formal_derivative ops w1 in fft ops e n0 trunc N0 w2

(** val high_erasures : n -> n -> (n -> bool) -> n list **)

let high_erasures k r recv =
  let m = np2 r in
  let oe = N.add m k in
  map (fun i ->
    if N.ltb i r
    then if recv i then N0 else Npos XH
    else if N.ltb i m
         then Npos XH
         else if N.ltb i oe then if recv i then N0 else Npos XH else N0)
    (range N0 gF_ORDER)

(** val decode_high_work :
    'a1 elt_ops -> engine -> n -> n -> (n -> bool) -> 'a1 list -> n
    list * 'a1 list **)

let decode_high_work ops e k r recv work =
  let m = np2 r in
  let oe = N.add m k in
  let n0 = N.of_nat (length work) in
  let er = eval_poly (high_erasures k r recv) oe in
  let w0 =
    mapi (fun i ei x ->
      if N.ltb i r
      then mul_or_zero ops recv i ei x
      else if N.ltb i m
           then ops.zeroT
           else if N.ltb i oe then mul_or_zero ops recv i ei x else ops.zeroT)
      er work
  in
  let w1 = transform ops e n0 oe w0 in
  (er,
  (mapi (fun i ei x ->
    if (&&) (N.leb m i) (N.ltb i oe) then reveal ops recv i ei x else x) er
    w1))

(** val low_erasures : n -> n -> (n -> bool) -> n list **)

let low_erasures k r recv =
  let m = np2 k in
  let re = N.add m r in
  map (fun i ->
    if N.ltb i k
    then if recv i then N0 else Npos XH
    else if N.ltb i m
         then N0
         else if N.ltb i re then if recv i then N0 else Npos XH else Npos XH)
    (range N0 gF_ORDER)

(** val decode_low_work :
    'a1 elt_ops -> engine -> n -> n -> (n -> bool) -> 'a1 list -> n
    list * 'a1 list **)

let decode_low_work ops e k r recv work =
  let m = np2 k in
  let re = N.add m r in
  let n0 = N.of_nat (length work) in
  let er = eval_poly (low_erasures k r recv) gF_ORDER in
  let w0 =
    mapi (fun i ei x ->
      if N.ltb i k
      then mul_or_zero ops recv i ei x
      else if N.ltb i m
           then ops.zeroT
           else if N.ltb i re then mul_or_zero ops recv i ei x else ops.zeroT)
      er work
  in
  let w1 = transform ops e n0 re w0 in
  (er,
  (mapi (fun i ei x -> if N.ltb i k then reveal ops recv i ei x else x) er w1))

(** val sym : n -> n -> n **)

let sym lo hi =
  N.add lo (N.mul (Npos (XO (XO (XO (XO (XO (XO (XO (XO XH))))))))) hi)

(** val lo_byte : n -> n **)

let lo_byte s =
  N.coq_land s (Npos (XI (XI (XI (XI (XI (XI (XI XH))))))))

(** val hi_byte : n -> n **)

let hi_byte s =
  N.shiftr s (Npos (XO (XO (XO XH))))

(** val group_syms : n list -> n list **)

let group_syms g =
  let h = div2 (length g) in
  map (fun p -> sym (fst p) (snd p)) (combine (firstn h g) (skipn h g))

(** val group_bytes : n list -> n list **)

let group_bytes s =
  app (map lo_byte s) (map hi_byte s)

(** val syms_of_bytes_fuel : nat -> n list -> n list **)

let rec syms_of_bytes_fuel fuel bs =
  match fuel with
  | O -> []
  | S f ->
    (match bs with
     | [] -> []
     | _ :: _ ->
       app
         (group_syms
           (firstn (S (S (S (S (S (S (S (S (S (S (S (S (S (S (S (S (S (S (S
             (S (S (S (S (S (S (S (S (S (S (S (S (S (S (S (S (S (S (S (S (S
             (S (S (S (S (S (S (S (S (S (S (S (S (S (S (S (S (S (S (S (S (S
             (S (S (S
             O))))))))))))))))))))))))))))))))))))))))))))))))))))))))))))))))
             bs))
         (syms_of_bytes_fuel f
           (skipn (S (S (S (S (S (S (S (S (S (S (S (S (S (S (S (S (S (S (S (S
             (S (S (S (S (S (S (S (S (S (S (S (S (S (S (S (S (S (S (S (S (S
             (S (S (S (S (S (S (S (S (S (S (S (S (S (S (S (S (S (S (S (S (S
             (S (S
             O))))))))))))))))))))))))))))))))))))))))))))))))))))))))))))))))
             bs)))

(** val syms_of_bytes : n list -> n list **)

let syms_of_bytes bs =
  syms_of_bytes_fuel (S
    (div (length bs) (S (S (S (S (S (S (S (S (S (S (S (S (S (S (S (S (S (S (S
      (S (S (S (S (S (S (S (S (S (S (S (S (S (S (S (S (S (S (S (S (S (S (S (S
      (S (S (S (S (S (S (S (S (S (S (S (S (S (S (S (S (S (S (S (S (S
      O)))))))))))))))))))))))))))))))))))))))))))))))))))))))))))))))))) bs

(** val bytes_of_syms_fuel : nat -> n list -> n list **)

let rec bytes_of_syms_fuel fuel s =
  match fuel with
  | O -> []
  | S f ->
    (match s with
     | [] -> []
     | _ :: _ ->
       app
         (group_bytes
           (firstn (S (S (S (S (S (S (S (S (S (S (S (S (S (S (S (S (S (S (S
             (S (S (S (S (S (S (S (S (S (S (S (S (S
             O)))))))))))))))))))))))))))))))) s))
         (bytes_of_syms_fuel f
           (skipn (S (S (S (S (S (S (S (S (S (S (S (S (S (S (S (S (S (S (S (S
             (S (S (S (S (S (S (S (S (S (S (S (S
             O)))))))))))))))))))))))))))))))) s)))

(** val bytes_of_syms : n list -> n list **)

let bytes_of_syms s =
  bytes_of_syms_fuel (S
    (div (length s) (S (S (S (S (S (S (S (S (S (S (S (S (S (S (S (S (S (S (S
      (S (S (S (S (S (S (S (S (S (S (S (S (S
      O)))))))))))))))))))))))))))))))))) s

type vec = n list

(** val nthb : vec -> n -> n **)

let nthb v i =
  nth (N.to_nat i) v N0

(** val mul16 : n -> n -> n -> n **)

let mul16 log_m k i =
  mul0 (N.shiftl i (N.mul (Npos (XO (XO XH))) k)) log_m

(** val mul128_lo : n -> n -> vec **)

let mul128_lo log_m k =
  map (fun x -> lo_byte (mul16 log_m k x))
    (range N0 (Npos (XO (XO (XO (XO XH))))))

(** val mul128_hi : n -> n -> vec **)

let mul128_hi log_m k =
  map (fun x -> hi_byte (mul16 log_m k x))
    (range N0 (Npos (XO (XO (XO (XO XH))))))

(** val naive_mul_block : n -> vec -> vec **)

let naive_mul_block log_m b =
  let lo =
    firstn (S (S (S (S (S (S (S (S (S (S (S (S (S (S (S (S (S (S (S (S (S (S
      (S (S (S (S (S (S (S (S (S (S O)))))))))))))))))))))))))))))))) b
  in
  let hi =
    skipn (S (S (S (S (S (S (S (S (S (S (S (S (S (S (S (S (S (S (S (S (S (S
      (S (S (S (S (S (S (S (S (S (S O)))))))))))))))))))))))))))))))) b
  in
  let prods =
    map2 (fun l h ->
      mul0 (N.coq_lor l (N.shiftl h (Npos (XO (XO (XO XH)))))) log_m) lo hi
  in
  app (map lo_byte prods) (map hi_byte prods)

(** val nosimd_prod : n -> n -> n -> n **)

let nosimd_prod log_m lo hi =
  N.coq_lxor
    (N.coq_lxor
      (N.coq_lxor (mul16 log_m N0 (N.coq_land lo (Npos (XI (XI (XI XH))))))
        (mul16 log_m (Npos XH) (N.shiftr lo (Npos (XO (XO XH))))))
      (mul16 log_m (Npos (XO XH)) (N.coq_land hi (Npos (XI (XI (XI XH)))))))
    (mul16 log_m (Npos (XI XH)) (N.shiftr hi (Npos (XO (XO XH)))))

(** val nosimd_mul_block : n -> vec -> vec **)

let nosimd_mul_block log_m b =
  let lo =
    firstn (S (S (S (S (S (S (S (S (S (S (S (S (S (S (S (S (S (S (S (S (S (S
      (S (S (S (S (S (S (S (S (S (S O)))))))))))))))))))))))))))))))) b
  in
  let hi =
    skipn (S (S (S (S (S (S (S (S (S (S (S (S (S (S (S (S (S (S (S (S (S (S
      (S (S (S (S (S (S (S (S (S (S O)))))))))))))))))))))))))))))))) b
  in
  let prods = map2 (nosimd_prod log_m) lo hi in
  app (map lo_byte prods) (map hi_byte prods)

(** val vand : vec -> vec -> vec **)

let vand a b =
  map2 N.coq_land a b

(** val vxor : vec -> vec -> vec **)

let vxor a b =
  map2 N.coq_lxor a b

(** val vset1 : nat -> n -> vec **)

let vset1 n0 x =
  repeat x n0

(** val pshufb : vec -> vec -> vec **)

let pshufb t0 idx =
  map (fun i ->
    if N.testbit i (Npos (XI (XI XH)))
    then N0
    else nthb t0 (N.coq_land i (Npos (XI (XI (XI XH)))))) idx

(** val word_of : n list -> n **)

let rec word_of = function
| [] -> N0
| b :: r ->
  N.add b
    (N.mul (Npos (XO (XO (XO (XO (XO (XO (XO (XO XH))))))))) (word_of r))

(** val bytes_of : nat -> n -> n list **)

let rec bytes_of n0 w0 =
  match n0 with
  | O -> []
  | S k ->
    (N.coq_land w0 (Npos (XI (XI (XI (XI (XI (XI (XI XH))))))))) :: (bytes_of
                                                                    k
                                                                    (N.shiftr
                                                                    w0 (Npos
                                                                    (XO (XO
                                                                    (XO
                                                                    XH))))))

(** val srli_epi64 : nat -> vec -> n -> vec **)

let rec srli_epi64 lanes v s =
  match lanes with
  | O -> []
  | S k ->
    app
      (bytes_of (S (S (S (S (S (S (S (S O))))))))
        (N.shiftr (word_of (firstn (S (S (S (S (S (S (S (S O)))))))) v)) s))
      (srli_epi64 k (skipn (S (S (S (S (S (S (S (S O)))))))) v) s)

(** val mul_128 : n -> vec -> vec -> vec * vec **)

let mul_128 log_m value_lo value_hi =
  let t0 = fun k -> ((mul128_lo log_m k), (mul128_hi log_m k)) in
  let clr =
    vset1 (S (S (S (S (S (S (S (S (S (S (S (S (S (S (S (S O))))))))))))))))
      (Npos (XI (XI (XI XH))))
  in
  let d0 = vand value_lo clr in
  let plo = pshufb (fst (t0 N0)) d0 in
  let phi0 = pshufb (snd (t0 N0)) d0 in
  let d1 = vand (srli_epi64 (S (S O)) value_lo (Npos (XO (XO XH)))) clr in
  let plo0 = vxor plo (pshufb (fst (t0 (Npos XH))) d1) in
  let phi1 = vxor phi0 (pshufb (snd (t0 (Npos XH))) d1) in
  let d2 = vand value_hi clr in
  let plo1 = vxor plo0 (pshufb (fst (t0 (Npos (XO XH)))) d2) in
  let phi2 = vxor phi1 (pshufb (snd (t0 (Npos (XO XH)))) d2) in
  let d3 = vand (srli_epi64 (S (S O)) value_hi (Npos (XO (XO XH)))) clr in
  let plo2 = vxor plo1 (pshufb (fst (t0 (Npos (XI XH)))) d3) in
  let phi3 = vxor phi2 (pshufb (snd (t0 (Npos (XI XH)))) d3) in (plo2, phi3)

(** val ssse3_mul_block : n -> vec -> vec **)

let ssse3_mul_block log_m b =
  let x0_lo =
    firstn (S (S (S (S (S (S (S (S (S (S (S (S (S (S (S (S O)))))))))))))))) b
  in
  let x1_lo =
    firstn (S (S (S (S (S (S (S (S (S (S (S (S (S (S (S (S O))))))))))))))))
      (skipn (S (S (S (S (S (S (S (S (S (S (S (S (S (S (S (S
        O)))))))))))))))) b)
  in
  let x0_hi =
    firstn (S (S (S (S (S (S (S (S (S (S (S (S (S (S (S (S O))))))))))))))))
      (skipn (S (S (S (S (S (S (S (S (S (S (S (S (S (S (S (S (S (S (S (S (S
        (S (S (S (S (S (S (S (S (S (S (S O)))))))))))))))))))))))))))))))) b)
  in
  let x1_hi =
    skipn (S (S (S (S (S (S (S (S (S (S (S (S (S (S (S (S (S (S (S (S (S (S
      (S (S (S (S (S (S (S (S (S (S (S (S (S (S (S (S (S (S (S (S (S (S (S (S
      (S (S O)))))))))))))))))))))))))))))))))))))))))))))))) b
  in
  let (p0lo, p0hi) = mul_128 log_m x0_lo x0_hi in
  let (p1lo, p1hi) = mul_128 log_m x1_lo x1_hi in
  app p0lo (app p1lo (app p0hi p1hi))

(** val vpshufb : vec -> vec -> vec **)

let vpshufb t0 idx =
  app
    (pshufb
      (firstn (S (S (S (S (S (S (S (S (S (S (S (S (S (S (S (S
        O)))))))))))))))) t0)
      (firstn (S (S (S (S (S (S (S (S (S (S (S (S (S (S (S (S
        O)))))))))))))))) idx))
    (pshufb
      (skipn (S (S (S (S (S (S (S (S (S (S (S (S (S (S (S (S
        O)))))))))))))))) t0)
      (skipn (S (S (S (S (S (S (S (S (S (S (S (S (S (S (S (S
        O)))))))))))))))) idx))

(** val bcast : vec -> vec **)

let bcast t0 =
  app t0 t0

(** val mul_256 : n -> vec -> vec -> vec * vec **)

let mul_256 log_m value_lo value_hi =
  let t0 = fun k -> ((bcast (mul128_lo log_m k)), (bcast (mul128_hi log_m k)))
  in
  let clr =
    vset1 (S (S (S (S (S (S (S (S (S (S (S (S (S (S (S (S (S (S (S (S (S (S
      (S (S (S (S (S (S (S (S (S (S O)))))))))))))))))))))))))))))))) (Npos
      (XI (XI (XI XH))))
  in
  let d0 = vand value_lo clr in
  let plo = vpshufb (fst (t0 N0)) d0 in
  let phi0 = vpshufb (snd (t0 N0)) d0 in
  let d1 =
    vand (srli_epi64 (S (S (S (S O)))) value_lo (Npos (XO (XO XH)))) clr
  in
  let plo0 = vxor plo (vpshufb (fst (t0 (Npos XH))) d1) in
  let phi1 = vxor phi0 (vpshufb (snd (t0 (Npos XH))) d1) in
  let d2 = vand value_hi clr in
  let plo1 = vxor plo0 (vpshufb (fst (t0 (Npos (XO XH)))) d2) in
  let phi2 = vxor phi1 (vpshufb (snd (t0 (Npos (XO XH)))) d2) in
  let d3 =
    vand (srli_epi64 (S (S (S (S O)))) value_hi (Npos (XO (XO XH)))) clr
  in
  let plo2 = vxor plo1 (vpshufb (fst (t0 (Npos (XI XH)))) d3) in
  let phi3 = vxor phi2 (vpshufb (snd (t0 (Npos (XI XH)))) d3) in (plo2, phi3)

(** val avx2_mul_block : n -> vec -> vec **)

let avx2_mul_block log_m b =
  let (plo, phi0) =
    mul_256 log_m
      (firstn (S (S (S (S (S (S (S (S (S (S (S (S (S (S (S (S (S (S (S (S (S
        (S (S (S (S (S (S (S (S (S (S (S O)))))))))))))))))))))))))))))))) b)
      (skipn (S (S (S (S (S (S (S (S (S (S (S (S (S (S (S (S (S (S (S (S (S
        (S (S (S (S (S (S (S (S (S (S (S O)))))))))))))))))))))))))))))))) b)
  in
  app plo phi0

(** val vqtbl1q : vec -> vec -> vec **)

let vqtbl1q t0 idx =
  map (fun i ->
    if N.ltb i (Npos (XO (XO (XO (XO XH))))) then nthb t0 i else N0) idx

(** val vshrq_n : vec -> n -> vec **)

let vshrq_n v s =
  map (fun x -> N.shiftr x s) v

(** val neon_mul_128 : n -> vec -> vec -> vec * vec **)

let neon_mul_128 log_m value_lo value_hi =
  let t0 = fun k -> ((mul128_lo log_m k), (mul128_hi log_m k)) in
  let clr =
    vset1 (S (S (S (S (S (S (S (S (S (S (S (S (S (S (S (S O))))))))))))))))
      (Npos (XI (XI (XI XH))))
  in
  let d0 = vand value_lo clr in
  let plo = vqtbl1q (fst (t0 N0)) d0 in
  let phi0 = vqtbl1q (snd (t0 N0)) d0 in
  let d1 = vshrq_n value_lo (Npos (XO (XO XH))) in
  let plo0 = vxor plo (vqtbl1q (fst (t0 (Npos XH))) d1) in
  let phi1 = vxor phi0 (vqtbl1q (snd (t0 (Npos XH))) d1) in
  let d2 = vand value_hi clr in
  let plo1 = vxor plo0 (vqtbl1q (fst (t0 (Npos (XO XH)))) d2) in
  let phi2 = vxor phi1 (vqtbl1q (snd (t0 (Npos (XO XH)))) d2) in
  let d3 = vshrq_n value_hi (Npos (XO (XO XH))) in
  let plo2 = vxor plo1 (vqtbl1q (fst (t0 (Npos (XI XH)))) d3) in
  let phi3 = vxor phi2 (vqtbl1q (snd (t0 (Npos (XI XH)))) d3) in (plo2, phi3)

(** val neon_mul_block : n -> vec -> vec **)

let neon_mul_block log_m b =
  let x0_lo =
    firstn (S (S (S (S (S (S (S (S (S (S (S (S (S (S (S (S O)))))))))))))))) b
  in
  let x1_lo =
    firstn (S (S (S (S (S (S (S (S (S (S (S (S (S (S (S (S O))))))))))))))))
      (skipn (S (S (S (S (S (S (S (S (S (S (S (S (S (S (S (S
        O)))))))))))))))) b)
  in
  let x0_hi =
    firstn (S (S (S (S (S (S (S (S (S (S (S (S (S (S (S (S O))))))))))))))))
      (skipn (S (S (S (S (S (S (S (S (S (S (S (S (S (S (S (S (S (S (S (S (S
        (S (S (S (S (S (S (S (S (S (S (S O)))))))))))))))))))))))))))))))) b)
  in
  let x1_hi =
    skipn (S (S (S (S (S (S (S (S (S (S (S (S (S (S (S (S (S (S (S (S (S (S
      (S (S (S (S (S (S (S (S (S (S (S (S (S (S (S (S (S (S (S (S (S (S (S (S
      (S (S O)))))))))))))))))))))))))))))))))))))))))))))))) b
  in
  let (p0lo, p0hi) = neon_mul_128 log_m x0_lo x0_hi in
  let (p1lo, p1hi) = neon_mul_128 log_m x1_lo x1_hi in
  app p0lo (app p1lo (app p0hi p1hi))

(** val mul_block : engine -> n -> vec -> vec **)

let mul_block e log_m b =
  match e with
  | Naive -> naive_mul_block log_m b
  | NoSimd -> nosimd_mul_block log_m b
  | Ssse3 -> ssse3_mul_block log_m b
  | Neon -> neon_mul_block log_m b
  | _ -> avx2_mul_block log_m b

type codec =
| CRs
| CDef
| CHigh
| CLow

type rate =
| High
| Low

(** val high_supportsb : n -> n -> bool **)

let high_supportsb k r =
  (&&)
    ((&&) ((&&) ((&&) (N.ltb N0 k) (N.ltb N0 r)) (N.ltb k gF_ORDER))
      (N.ltb r gF_ORDER)) (N.leb (N.add (np2 r) k) gF_ORDER)

(** val low_supportsb : n -> n -> bool **)

let low_supportsb k r =
  (&&)
    ((&&) ((&&) ((&&) (N.ltb N0 k) (N.ltb N0 r)) (N.ltb k gF_ORDER))
      (N.ltb r gF_ORDER)) (N.leb (N.add (np2 k) r) gF_ORDER)

(** val use_high_rateb : n -> n -> bool option **)

let use_high_rateb k r =
  if (||) (N.ltb gF_ORDER k) (N.ltb gF_ORDER r)
  then None
  else if (||) ((||) (N.eqb k N0) (N.eqb r N0))
            (N.ltb gF_ORDER (N.add (N.min (np2 k) (np2 r)) (N.max k r)))
       then None
       else (match N.compare (np2 k) (np2 r) with
             | Eq -> Some (N.leb k r)
             | Lt -> Some false
             | Gt -> Some true)

(** val default_supportsb : n -> n -> bool **)

let default_supportsb k r =
  match use_high_rateb k r with
  | Some _ -> true
  | None -> false

(** val supportsb : codec -> n -> n -> bool **)

let supportsb c k r =
  match c with
  | CHigh -> high_supportsb k r
  | CLow -> low_supportsb k r
  | _ -> default_supportsb k r

(** val bad_size : n -> bool **)

let bad_size sb =
  (||) (N.eqb sb N0) (N.odd sb)

(** val validateb : codec -> n -> n -> n -> error option **)

let validateb c k r sb =
  if negb (supportsb c k r)
  then Some (UnsupportedShardCount (k, r))
  else if bad_size sb then Some (InvalidShardSize sb) else None

(** val rate_of : codec -> n -> n -> rate **)

let rate_of c k r =
  match c with
  | CHigh -> High
  | CLow -> Low
  | _ ->
    (match use_high_rateb k r with
     | Some b -> if b then High else Low
     | None -> High)

(** val blocks_of : n -> n **)

let blocks_of sb =
  N.div (N.add sb (Npos (XI (XI (XI (XI (XI XH))))))) (Npos (XO (XO (XO (XO
    (XO (XO XH)))))))

type mem = n list PositiveMap.t

(** val mget : mem -> n -> n list option **)

let mget m p =
  PositiveMap.find (N.succ_pos p) m

(** val mset : mem -> n -> n list -> mem **)

let mset m p v =
  PositiveMap.add (N.succ_pos p) v m

(** val mempty : mem **)

let mempty =
  PositiveMap.empty

type encwork = { ew_K : n; ew_R : n; ew_sb : n; ew_recv : n; ew_mem : 
                 mem; ew_wc : n; ew_cap : n }

(** val encwork_new : encwork **)

let encwork_new =
  { ew_K = N0; ew_R = N0; ew_sb = N0; ew_recv = N0; ew_mem = mempty; ew_wc =
    N0; ew_cap = N0 }

(** val enc_work_count : rate -> n -> n -> n **)

let enc_work_count r k r0 =
  match r with
  | High -> high_enc_work_count k r0
  | Low -> low_enc_work_count k r0

(** val dec_work_count : rate -> n -> n -> n **)

let dec_work_count r k r0 =
  match r with
  | High -> high_dec_work_count k r0
  | Low -> low_dec_work_count k r0

(** val encwork_reset : encwork -> rate -> n -> n -> n -> encwork * bool **)

let encwork_reset w0 r k r0 sb =
  let wc = enc_work_count r k r0 in
  let need = N.mul wc (blocks_of sb) in
  ({ ew_K = k; ew_R = r0; ew_sb = sb; ew_recv = N0; ew_mem = mempty; ew_wc =
  wc; ew_cap = (N.max w0.ew_cap need) }, (N.ltb w0.ew_cap need))

type encoder = { e_codec : codec; e_engine : engine; e_rate : rate;
                 e_work : encwork }

type pset = unit PositiveMap.t

(** val pmem : pset -> n -> bool **)

let pmem s p =
  match PositiveMap.find (N.succ_pos p) s with
  | Some _ -> true
  | None -> false

(** val padd : pset -> n -> pset **)

let padd s p =
  PositiveMap.add (N.succ_pos p) () s

(** val pempty : pset **)

let pempty =
  PositiveMap.empty

type decwork = { dw_K : n; dw_R : n; dw_sb : n; dw_obase : n; dw_rbase : 
                 n; dw_orecv : n; dw_rrecv : n; dw_received : pset;
                 dw_mem : mem; dw_wc : n; dw_cap : n; dw_bits : n }

(** val decwork_new : decwork **)

let decwork_new =
  { dw_K = N0; dw_R = N0; dw_sb = N0; dw_obase = N0; dw_rbase = N0;
    dw_orecv = N0; dw_rrecv = N0; dw_received = pempty; dw_mem = mempty;
    dw_wc = N0; dw_cap = N0; dw_bits = N0 }

(** val decwork_reset : decwork -> rate -> n -> n -> n -> decwork * bool **)

let decwork_reset w0 r k r0 sb =
  let wc = dec_work_count r k r0 in
  let obase = match r with
              | High -> np2 r0
              | Low -> N0 in
  let rbase = match r with
              | High -> N0
              | Low -> np2 k in
  let need = N.mul wc (blocks_of sb) in
  let maxpos = N.max (N.add obase k) (N.add rbase r0) in
  let bits_grow = N.ltb w0.dw_bits maxpos in
  ({ dw_K = k; dw_R = r0; dw_sb = sb; dw_obase = obase; dw_rbase = rbase;
  dw_orecv = N0; dw_rrecv = N0; dw_received = pempty; dw_mem = mempty;
  dw_wc = wc; dw_cap = (N.max w0.dw_cap need); dw_bits =
  (N.max w0.dw_bits maxpos) }, ((||) (N.ltb w0.dw_cap need) bits_grow))

type decoder = { d_codec : codec; d_engine : engine; d_rate : rate;
                 d_work : decwork }

type bytes = n list

type result =
| ROkUnit
| RError of error
| RPanic
| RNoObj
| RBool of bool
| REnc of bytes list * (n * bytes option) list
| RDec of (n * bytes) list * (n * bytes option) list
| RShards of bytes list
| RMap of (n * bytes) list

type op =
| ENew of codec * engine * n * n * n
| ENewW of codec * engine * n * n * n
| EParts
| EReset of n * n * n
| EAdd of bytes
| EEncode of n list
| DNew of codec * engine * n * n * n
| DNewW of codec * engine * n * n * n
| DParts
| DReset of n * n * n
| DAddO of n * bytes
| DAddR of n * bytes
| DDecode of n list
| Supports of codec * n * n
| Validate of codec * n * n * n
| OneEnc of n * n * bytes list
| OneDec of n * n * (n * bytes) list * (n * bytes) list

type state = { s_enc : encoder option; s_dec : decoder option;
               s_encwork : encwork option; s_decwork : decwork option;
               s_epoch : n; s_alloc : bool }

(** val init : state **)

let init =
  { s_enc = None; s_dec = None; s_encwork = None; s_decwork = None; s_epoch =
    N0; s_alloc = false }

(** val blen : bytes -> n **)

let blen b =
  N.of_nat (length b)

(** val lanes_of : n -> n **)

let lanes_of sb =
  N.div sb (Npos (XO XH))

(** val junk_shard : (n -> n -> n -> n) -> n -> n -> n -> n list **)

let junk_shard junk ep p lanes =
  map (junk ep p) (range N0 lanes)

(** val work_list :
    (n -> n -> n -> n) -> n -> mem -> n -> n -> n list list **)

let work_list junk ep m wc lanes =
  map (fun p ->
    match mget m p with
    | Some s -> s
    | None -> junk_shard junk ep p lanes) (range N0 wc)

(** val enc_make :
    codec -> engine -> n -> n -> n -> encwork -> (encoder * bool, error) sum **)

let enc_make c e k r sb w0 =
  match validateb c k r sb with
  | Some err -> Inr err
  | None ->
    let r0 = rate_of c k r in
    let (w', a) = encwork_reset w0 r0 k r sb in
    Inl ({ e_codec = c; e_engine = e; e_rate = r0; e_work = w' }, a)

(** val enc_add : encoder -> bytes -> (encoder, error) sum **)

let enc_add x shard =
  let w0 = x.e_work in
  if N.eqb w0.ew_recv w0.ew_K
  then Inr (TooManyOriginalShards w0.ew_K)
  else if negb (N.eqb (blen shard) w0.ew_sb)
       then Inr (DifferentShardSize (w0.ew_sb, (blen shard)))
       else Inl { e_codec = x.e_codec; e_engine = x.e_engine; e_rate =
              x.e_rate; e_work = { ew_K = w0.ew_K; ew_R = w0.ew_R; ew_sb =
              w0.ew_sb; ew_recv = (N.add w0.ew_recv (Npos XH)); ew_mem =
              (mset w0.ew_mem w0.ew_recv (syms_of_bytes shard)); ew_wc =
              w0.ew_wc; ew_cap = w0.ew_cap } }

(** val encode_shards : (n -> n -> n -> n) -> n -> encoder -> bytes list **)

let encode_shards junk ep x =
  let w0 = x.e_work in
  let lanes = lanes_of w0.ew_sb in
  let work = work_list junk ep w0.ew_mem w0.ew_wc lanes in
  let ops = shard_ops (N.to_nat lanes) in
  let rec0 =
    match x.e_rate with
    | High -> encode_high ops x.e_engine w0.ew_K w0.ew_R work
    | Low -> encode_low ops x.e_engine w0.ew_K w0.ew_R work
  in
  map bytes_of_syms rec0

(** val enc_after_round : encoder -> encoder **)

let enc_after_round x =
  let w0 = x.e_work in
  { e_codec = x.e_codec; e_engine = x.e_engine; e_rate = x.e_rate; e_work =
  { ew_K = w0.ew_K; ew_R = w0.ew_R; ew_sb = w0.ew_sb; ew_recv = N0; ew_mem =
  mempty; ew_wc = w0.ew_wc; ew_cap = w0.ew_cap } }

(** val enc_encode :
    (n -> n -> n -> n) -> n -> encoder -> n list -> encoder * result **)

let enc_encode junk ep x probes =
  let w0 = x.e_work in
  if negb (N.eqb w0.ew_recv w0.ew_K)
  then (x, (RError (TooFewOriginalShards (w0.ew_K, w0.ew_recv))))
  else let rec0 = encode_shards junk ep x in
       let recovery = fun i ->
         if N.ltb i w0.ew_R then nth_error rec0 (N.to_nat i) else None
       in
       ((enc_after_round x), (REnc (rec0,
       (map (fun i -> (i, (recovery i))) probes))))

(** val dec_make :
    codec -> engine -> n -> n -> n -> decwork -> (decoder * bool, error) sum **)

let dec_make c e k r sb w0 =
  match validateb c k r sb with
  | Some err -> Inr err
  | None ->
    let r0 = rate_of c k r in
    let (w', a) = decwork_reset w0 r0 k r sb in
    Inl ({ d_codec = c; d_engine = e; d_rate = r0; d_work = w' }, a)

(** val dw_insert : decwork -> n -> bytes -> bool -> decwork **)

let dw_insert w0 pos shard is_orig =
  { dw_K = w0.dw_K; dw_R = w0.dw_R; dw_sb = w0.dw_sb; dw_obase = w0.dw_obase;
    dw_rbase = w0.dw_rbase; dw_orecv =
    (if is_orig then N.add w0.dw_orecv (Npos XH) else w0.dw_orecv);
    dw_rrecv =
    (if is_orig then w0.dw_rrecv else N.add w0.dw_rrecv (Npos XH));
    dw_received = (padd w0.dw_received pos); dw_mem =
    (mset w0.dw_mem pos (syms_of_bytes shard)); dw_wc = w0.dw_wc; dw_cap =
    w0.dw_cap; dw_bits = w0.dw_bits }

(** val with_dwork : decoder -> decwork -> decoder **)

let with_dwork x w0 =
  { d_codec = x.d_codec; d_engine = x.d_engine; d_rate = x.d_rate; d_work =
    w0 }

(** val dec_add_original : decoder -> n -> bytes -> (decoder, error) sum **)

let dec_add_original x idx shard =
  let w0 = x.d_work in
  if N.leb w0.dw_K idx
  then Inr (InvalidOriginalShardIndex (w0.dw_K, idx))
  else let pos = N.add w0.dw_obase idx in
       if pmem w0.dw_received pos
       then Inr (DuplicateOriginalShardIndex idx)
       else if negb (N.eqb (blen shard) w0.dw_sb)
            then Inr (DifferentShardSize (w0.dw_sb, (blen shard)))
            else Inl (with_dwork x (dw_insert w0 pos shard true))

(** val dec_add_recovery : decoder -> n -> bytes -> (decoder, error) sum **)

let dec_add_recovery x idx shard =
  let w0 = x.d_work in
  if N.leb w0.dw_R idx
  then Inr (InvalidRecoveryShardIndex (w0.dw_R, idx))
  else let pos = N.add w0.dw_rbase idx in
       if pmem w0.dw_received pos
       then Inr (DuplicateRecoveryShardIndex idx)
       else if negb (N.eqb (blen shard) w0.dw_sb)
            then Inr (DifferentShardSize (w0.dw_sb, (blen shard)))
            else Inl (with_dwork x (dw_insert w0 pos shard false))

(** val dec_after_round : decoder -> decoder **)

let dec_after_round x =
  let w0 = x.d_work in
  with_dwork x { dw_K = w0.dw_K; dw_R = w0.dw_R; dw_sb = w0.dw_sb; dw_obase =
    w0.dw_obase; dw_rbase = w0.dw_rbase; dw_orecv = N0; dw_rrecv = N0;
    dw_received = pempty; dw_mem = mempty; dw_wc = w0.dw_wc; dw_cap =
    w0.dw_cap; dw_bits = w0.dw_bits }

(** val decode_work : (n -> n -> n -> n) -> n -> decoder -> n list list **)

let decode_work junk ep x =
  let w0 = x.d_work in
  let lanes = lanes_of w0.dw_sb in
  let work = work_list junk ep w0.dw_mem w0.dw_wc lanes in
  let ops = shard_ops (N.to_nat lanes) in
  let recv = pmem w0.dw_received in
  snd
    (match x.d_rate with
     | High -> decode_high_work ops x.d_engine w0.dw_K w0.dw_R recv work
     | Low -> decode_low_work ops x.d_engine w0.dw_K w0.dw_R recv work)

(** val dec_decode :
    (n -> n -> n -> n) -> n -> decoder -> n list -> decoder * result **)

let dec_decode junk ep x probes =
  let w0 = x.d_work in
  if N.ltb (N.add w0.dw_orecv w0.dw_rrecv) w0.dw_K
  then (x, (RError (NotEnoughShards (w0.dw_K, w0.dw_orecv, w0.dw_rrecv))))
  else let missing = fun i ->
         (&&) (N.ltb i w0.dw_K)
           (negb (pmem w0.dw_received (N.add w0.dw_obase i)))
       in
       if N.eqb w0.dw_orecv w0.dw_K
       then ((dec_after_round x), (RDec ([],
              (map (fun i -> (i, None)) probes))))
       else let out = decode_work junk ep x in
            let restored = fun i ->
              if missing i
              then option_map bytes_of_syms
                     (nth_error out (N.to_nat (N.add w0.dw_obase i)))
              else None
            in
            let it =
              flat_map (fun i ->
                match restored i with
                | Some b -> (i, b) :: []
                | None -> []) (range N0 w0.dw_K)
            in
            ((dec_after_round x), (RDec (it,
            (map (fun i -> (i, (restored i))) probes))))

(** val enc_add_all : encoder -> bytes list -> (encoder, error) sum **)

let rec enc_add_all x = function
| [] -> Inl x
| s :: rest ->
  (match enc_add x s with
   | Inl x' -> enc_add_all x' rest
   | Inr e -> Inr e)

(** val oneshot_encode :
    (n -> n -> n -> n) -> n -> n -> n -> bytes list -> result **)

let oneshot_encode junk ep k r shards =
  if negb (default_supportsb k r)
  then RError (UnsupportedShardCount (k, r))
  else (match shards with
        | [] -> RError (TooFewOriginalShards (k, N0))
        | first :: _ ->
          (match enc_make CRs DefaultE k r (blen first) encwork_new with
           | Inl p ->
             let (x, _) = p in
             (match enc_add_all x shards with
              | Inl x' ->
                (match snd (enc_encode junk ep x' []) with
                 | REnc (rec0, _) -> RShards rec0
                 | x0 -> x0)
              | Inr e -> RError e)
           | Inr e -> RError e))

(** val dec_add_all :
    bool -> decoder -> (n * bytes) list -> (decoder, error) sum **)

let rec dec_add_all orig x = function
| [] -> Inl x
| p :: rest ->
  let (i, s) = p in
  (match if orig then dec_add_original x i s else dec_add_recovery x i s with
   | Inl x' -> dec_add_all orig x' rest
   | Inr e -> Inr e)

(** val oneshot_decode :
    (n -> n -> n -> n) -> n -> n -> n -> (n * bytes) list -> (n * bytes) list
    -> result **)

let oneshot_decode junk ep k r orig rec0 =
  if negb (default_supportsb k r)
  then RError (UnsupportedShardCount (k, r))
  else let sb =
         match rec0 with
         | [] ->
           (match orig with
            | [] -> None
            | p :: _ -> let (_, s) = p in Some (blen s))
         | p :: _ -> let (_, s) = p in Some (blen s)
       in
       (match sb with
        | Some sb0 ->
          (match dec_make CRs DefaultE k r sb0 decwork_new with
           | Inl p ->
             let (x, _) = p in
             (match dec_add_all true x orig with
              | Inl x1 ->
                (match dec_add_all false x1 rec0 with
                 | Inl x2 ->
                   (match snd (dec_decode junk ep x2 []) with
                    | RDec (it, _) -> RMap it
                    | x0 -> x0)
                 | Inr e -> RError e)
              | Inr e -> RError e)
           | Inr e -> RError e)
        | None -> RError (NotEnoughShards (k, N0, N0)))

(** val set_enc : state -> encoder option -> bool -> state **)

let set_enc s x a =
  { s_enc = x; s_dec = s.s_dec; s_encwork = s.s_encwork; s_decwork =
    s.s_decwork; s_epoch = s.s_epoch; s_alloc = a }

(** val set_dec : state -> decoder option -> bool -> state **)

let set_dec s x a =
  { s_enc = s.s_enc; s_dec = x; s_encwork = s.s_encwork; s_decwork =
    s.s_decwork; s_epoch = s.s_epoch; s_alloc = a }

(** val noalloc : state -> state **)

let noalloc s =
  { s_enc = s.s_enc; s_dec = s.s_dec; s_encwork = s.s_encwork; s_decwork =
    s.s_decwork; s_epoch = s.s_epoch; s_alloc = false }

(** val bump : state -> state **)

let bump s =
  { s_enc = s.s_enc; s_dec = s.s_dec; s_encwork = s.s_encwork; s_decwork =
    s.s_decwork; s_epoch = (N.add s.s_epoch (Npos XH)); s_alloc = s.s_alloc }

(** val step : (n -> n -> n -> n) -> state -> op -> state * result **)

let step junk s0 o =
  let s = noalloc s0 in
  (match o with
   | ENew (c, e, k, r, sb) ->
     (match enc_make c e k r sb encwork_new with
      | Inl p -> let (x, a) = p in ((set_enc s (Some x) a), ROkUnit)
      | Inr err -> (s, (RError err)))
   | ENewW (c, e, k, r, sb) ->
     (match c with
      | CRs ->
        (match enc_make c e k r sb encwork_new with
         | Inl p -> let (x, a) = p in ((set_enc s (Some x) a), ROkUnit)
         | Inr err -> (s, (RError err)))
      | _ ->
        let w0 = match s.s_encwork with
                 | Some w0 -> w0
                 | None -> encwork_new in
        let s1 = { s_enc = s.s_enc; s_dec = s.s_dec; s_encwork = None;
          s_decwork = s.s_decwork; s_epoch = s.s_epoch; s_alloc = false }
        in
        (match enc_make c e k r sb w0 with
         | Inl p -> let (x, a) = p in ((set_enc s1 (Some x) a), ROkUnit)
         | Inr err -> (s1, (RError err))))
   | EParts ->
     (match s.s_enc with
      | Some x ->
        ({ s_enc = None; s_dec = s.s_dec; s_encwork =
          (match x.e_codec with
           | CRs -> s.s_encwork
           | _ -> Some x.e_work); s_decwork = s.s_decwork; s_epoch =
          s.s_epoch; s_alloc = false }, ROkUnit)
      | None -> (s, RNoObj))
   | EReset (k, r, sb) ->
     (match s.s_enc with
      | Some x ->
        (match enc_make x.e_codec x.e_engine k r sb x.e_work with
         | Inl p -> let (x', a) = p in ((set_enc s (Some x') a), ROkUnit)
         | Inr err -> (s, (RError err)))
      | None -> (s, RNoObj))
   | EAdd shard ->
     (match s.s_enc with
      | Some x ->
        (match enc_add x shard with
         | Inl x' -> ((set_enc s (Some x') false), ROkUnit)
         | Inr err -> (s, (RError err)))
      | None -> (s, RNoObj))
   | EEncode probes ->
     (match s.s_enc with
      | Some x ->
        let (x', r) = enc_encode junk s.s_epoch x probes in
        (match r with
         | RError _ -> (s, r)
         | _ -> ((bump (set_enc s (Some x') false)), r))
      | None -> (s, RNoObj))
   | DNew (c, e, k, r, sb) ->
     (match dec_make c e k r sb decwork_new with
      | Inl p -> let (x, a) = p in ((set_dec s (Some x) a), ROkUnit)
      | Inr err -> (s, (RError err)))
   | DNewW (c, e, k, r, sb) ->
     (match c with
      | CRs ->
        (match dec_make c e k r sb decwork_new with
         | Inl p -> let (x, a) = p in ((set_dec s (Some x) a), ROkUnit)
         | Inr err -> (s, (RError err)))
      | _ ->
        let w0 = match s.s_decwork with
                 | Some w0 -> w0
                 | None -> decwork_new in
        let s1 = { s_enc = s.s_enc; s_dec = s.s_dec; s_encwork = s.s_encwork;
          s_decwork = None; s_epoch = s.s_epoch; s_alloc = false }
        in
        (match dec_make c e k r sb w0 with
         | Inl p -> let (x, a) = p in ((set_dec s1 (Some x) a), ROkUnit)
         | Inr err -> (s1, (RError err))))
   | DParts ->
     (match s.s_dec with
      | Some x ->
        ({ s_enc = s.s_enc; s_dec = None; s_encwork = s.s_encwork;
          s_decwork =
          (match x.d_codec with
           | CRs -> s.s_decwork
           | _ -> Some x.d_work); s_epoch = s.s_epoch; s_alloc = false },
          ROkUnit)
      | None -> (s, RNoObj))
   | DReset (k, r, sb) ->
     (match s.s_dec with
      | Some x ->
        (match dec_make x.d_codec x.d_engine k r sb x.d_work with
         | Inl p -> let (x', a) = p in ((set_dec s (Some x') a), ROkUnit)
         | Inr err -> (s, (RError err)))
      | None -> (s, RNoObj))
   | DAddO (idx, shard) ->
     (match s.s_dec with
      | Some x ->
        (match dec_add_original x idx shard with
         | Inl x' -> ((set_dec s (Some x') false), ROkUnit)
         | Inr err -> (s, (RError err)))
      | None -> (s, RNoObj))
   | DAddR (idx, shard) ->
     (match s.s_dec with
      | Some x ->
        (match dec_add_recovery x idx shard with
         | Inl x' -> ((set_dec s (Some x') false), ROkUnit)
         | Inr err -> (s, (RError err)))
      | None -> (s, RNoObj))
   | DDecode probes ->
     (match s.s_dec with
      | Some x ->
        let (x', r) = dec_decode junk s.s_epoch x probes in
        (match r with
         | RError _ -> (s, r)
         | _ -> ((bump (set_dec s (Some x') false)), r))
      | None -> (s, RNoObj))
   | Supports (c, k, r) -> (s, (RBool (supportsb c k r)))
   | Validate (c, k, r, sb) ->
     (s, (match validateb c k r sb with
          | Some e -> RError e
          | None -> ROkUnit))
   | OneEnc (k, r, shards) ->
     (match oneshot_encode junk s.s_epoch k r shards with
      | RError e -> (s, (RError e))
      | x -> ((bump s), x))
   | OneDec (k, r, orig, rec0) ->
     (match oneshot_decode junk s.s_epoch k r orig rec0 with
      | RError e -> (s, (RError e))
      | x -> ((bump s), x)))

(** val run :
    (n -> n -> n -> n) -> state -> op list -> state * result list **)

let run junk s ops =
  fold_left (fun pat o ->
    let (s0, acc) = pat in
    let (s', r) = step junk s0 o in (s', (app acc (r :: [])))) ops (s, [])

(** val adm_config : codec -> n -> n -> n -> error list **)

let adm_config c k r sb =
  app
    (if negb (supportsb c k r)
     then (UnsupportedShardCount (k, r)) :: []
     else []) (if bad_size sb then (InvalidShardSize sb) :: [] else [])

(** val adm_len : n -> bytes -> error list **)

let adm_len sb shard =
  if negb (N.eqb (blen shard) sb)
  then (DifferentShardSize (sb, (blen shard))) :: []
  else []

(** val adm_enc_add : encwork -> bytes -> error list **)

let adm_enc_add w0 shard =
  app
    (if N.eqb w0.ew_recv w0.ew_K
     then (TooManyOriginalShards w0.ew_K) :: []
     else []) (adm_len w0.ew_sb shard)

(** val adm_dec_addo : decwork -> n -> bytes -> error list **)

let adm_dec_addo w0 idx shard =
  app
    (if N.leb w0.dw_K idx
     then (InvalidOriginalShardIndex (w0.dw_K, idx)) :: []
     else if pmem w0.dw_received (N.add w0.dw_obase idx)
          then (DuplicateOriginalShardIndex idx) :: []
          else []) (adm_len w0.dw_sb shard)

(** val adm_dec_addr : decwork -> n -> bytes -> error list **)

let adm_dec_addr w0 idx shard =
  app
    (if N.leb w0.dw_R idx
     then (InvalidRecoveryShardIndex (w0.dw_R, idx)) :: []
     else if pmem w0.dw_received (N.add w0.dw_rbase idx)
          then (DuplicateRecoveryShardIndex idx) :: []
          else []) (adm_len w0.dw_sb shard)

(** val adm_oneenc : n -> n -> bytes list -> error list **)

let adm_oneenc k r shards =
  if negb (default_supportsb k r)
  then (UnsupportedShardCount (k, r)) :: []
  else (match shards with
        | [] -> (TooFewOriginalShards (k, N0)) :: []
        | first :: _ ->
          let sb = blen first in
          if bad_size sb
          then (InvalidShardSize sb) :: []
          else let cnt = N.of_nat (length shards) in
               app (flat_map (adm_len sb) (firstn (N.to_nat k) shards))
                 (app
                   (if N.ltb k cnt
                    then (TooManyOriginalShards k) :: []
                    else [])
                   (if N.ltb cnt k
                    then (TooFewOriginalShards (k, cnt)) :: []
                    else [])))

(** val dup_errors :
    (n -> error) -> n list -> (n * bytes) list -> error list **)

let rec dup_errors mk seen = function
| [] -> []
| p :: rest ->
  let (i, _) = p in
  if existsb (N.eqb i) seen
  then (mk i) :: (dup_errors mk seen rest)
  else dup_errors mk (i :: seen) rest

(** val distinct_ok : n -> n -> n list -> (n * bytes) list -> n **)

let rec distinct_ok sb bound seen = function
| [] -> N0
| p :: rest ->
  let (i, s) = p in
  if (&&) ((&&) (N.ltb i bound) (N.eqb (blen s) sb))
       (negb (existsb (N.eqb i) seen))
  then N.add (Npos XH) (distinct_ok sb bound (i :: seen) rest)
  else distinct_ok sb bound seen rest

(** val adm_onedec :
    n -> n -> (n * bytes) list -> (n * bytes) list -> error list **)

let adm_onedec k r orig rec0 =
  if negb (default_supportsb k r)
  then (UnsupportedShardCount (k, r)) :: []
  else let sb =
         match rec0 with
         | [] ->
           (match orig with
            | [] -> None
            | p :: _ -> let (_, s) = p in Some (blen s))
         | p :: _ -> let (_, s) = p in Some (blen s)
       in
       (match sb with
        | Some sb0 ->
          if bad_size sb0
          then (InvalidShardSize sb0) :: []
          else let inr_o = filter (fun p -> N.ltb (fst p) k) orig in
               let inr_r = filter (fun p -> N.ltb (fst p) r) rec0 in
               let hard =
                 app
                   (map (fun p -> InvalidOriginalShardIndex (k, (fst p)))
                     (filter (fun p -> N.leb k (fst p)) orig))
                   (app
                     (map (fun p -> InvalidRecoveryShardIndex (r, (fst p)))
                       (filter (fun p -> N.leb r (fst p)) rec0))
                     (app
                       (dup_errors (fun x -> DuplicateOriginalShardIndex x)
                         [] inr_o)
                       (app
                         (dup_errors (fun x -> DuplicateRecoveryShardIndex x)
                           [] inr_r)
                         (flat_map (fun p -> adm_len sb0 (snd p))
                           (app orig rec0)))))
               in
               let o = distinct_ok sb0 k [] orig in
               let r0 = distinct_ok sb0 r [] rec0 in
               app hard
                 (if N.ltb (N.add o r0) k
                  then (NotEnoughShards (k, o, r0)) :: []
                  else [])
        | None -> (NotEnoughShards (k, N0, N0)) :: [])

(** val admissible : state -> op -> error list **)

let admissible s = function
| ENew (c, _, k, r, sb) -> adm_config c k r sb
| ENewW (c, _, k, r, sb) -> adm_config c k r sb
| EReset (k, r, sb) ->
  (match s.s_enc with
   | Some x -> adm_config x.e_codec k r sb
   | None -> [])
| EAdd shard ->
  (match s.s_enc with
   | Some x -> adm_enc_add x.e_work shard
   | None -> [])
| EEncode _ ->
  (match s.s_enc with
   | Some x ->
     let w0 = x.e_work in
     if negb (N.eqb w0.ew_recv w0.ew_K)
     then (TooFewOriginalShards (w0.ew_K, w0.ew_recv)) :: []
     else []
   | None -> [])
| DNew (c, _, k, r, sb) -> adm_config c k r sb
| DNewW (c, _, k, r, sb) -> adm_config c k r sb
| DReset (k, r, sb) ->
  (match s.s_dec with
   | Some x -> adm_config x.d_codec k r sb
   | None -> [])
| DAddO (idx, shard) ->
  (match s.s_dec with
   | Some x -> adm_dec_addo x.d_work idx shard
   | None -> [])
| DAddR (idx, shard) ->
  (match s.s_dec with
   | Some x -> adm_dec_addr x.d_work idx shard
   | None -> [])
| DDecode _ ->
  (match s.s_dec with
   | Some x ->
     let w0 = x.d_work in
     if N.ltb (N.add w0.dw_orecv w0.dw_rrecv) w0.dw_K
     then (NotEnoughShards (w0.dw_K, w0.dw_orecv, w0.dw_rrecv)) :: []
     else []
   | None -> [])
| Validate (c, k, r, sb) -> adm_config c k r sb
| OneEnc (k, r, shards) -> adm_oneenc k r shards
| OneDec (k, r, orig, rec0) -> adm_onedec k r orig rec0
| _ -> []

(** val s_poly : nat -> n -> n **)

let rec s_poly j x =
  match j with
  | O -> x
  | S j' -> let y = s_poly j' x in N.coq_lxor (fmul y y) y

(** val w : n -> n **)

let w m =
  fold_left fmul (range (Npos XH) m) (Npos XH)

(** val log2n : n -> nat **)

let log2n m =
  N.to_nat (N.log2 m)

(** val cauchy_high_w : n -> n -> n -> n -> n **)

let cauchy_high_w w0 r j i =
  let m = npow2 r in
  fdiv (s_poly (log2n m) (N.add m i)) (fmul w0 (N.coq_lxor j (N.add m i)))

(** val cauchy_low_w : n -> n -> n -> n -> n **)

let cauchy_low_w w0 k j i =
  let m = npow2 k in
  fdiv (s_poly (log2n m) (N.add m j)) (fmul w0 (N.coq_lxor (N.add m j) i))

(** val xor_sum : n list -> n **)

let xor_sum l =
  fold_left N.coq_lxor l N0

(** val cauchy_high_row : n -> n -> n -> n list **)

let cauchy_high_row k r j =
  let w0 = w (npow2 r) in map (cauchy_high_w w0 r j) (range N0 k)

(** val cauchy_low_row : n -> n -> n -> n list **)

let cauchy_low_row k _ j =
  let w0 = w (npow2 k) in map (cauchy_low_w w0 k j) (range N0 k)

(** val row_apply : n list -> n list -> n **)

let row_apply row d =
  xor_sum (map (fun p -> fmul (fst p) (snd p)) (combine row d))

(** val recovery_high_spec : n -> n -> n list -> n -> n **)

let recovery_high_spec k r d j =
  row_apply (cauchy_high_row k r j) d

(** val recovery_low_spec : n -> n -> n list -> n -> n **)

let recovery_low_spec k r d j =
  row_apply (cauchy_low_row k r j) d

(** val lch_basis_aux : nat -> nat -> n -> n -> n **)

let rec lch_basis_aux bits j t0 x =
  match bits with
  | O -> Npos XH
  | S b ->
    let rest = lch_basis_aux b (S j) t0 x in
    if N.testbit t0 (N.of_nat j) then fmul (s_poly j x) rest else rest

(** val lch_basis : n -> n -> n **)

let lch_basis t0 x =
  lch_basis_aux (S (S (S (S (S (S (S (S (S (S (S (S (S (S (S (S
    O)))))))))))))))) O t0 x

(** val lch_eval : n list -> n -> n **)

let lch_eval c x =
  xor_sum
    (map (fun p -> fmul (snd p) (lch_basis (fst p) x))
      (combine (range N0 (N.of_nat (length c))) c))

(** val locator_log : n list -> n -> n **)

let locator_log marked x =
  fold_left (fun acc j ->
    if N.eqb j x
    then acc
    else N.modulo (N.add acc (glog (N.coq_lxor x j))) (Npos (XI (XI (XI (XI
           (XI (XI (XI (XI (XI (XI (XI (XI (XI (XI (XI XH)))))))))))))))))
    marked N0

(** val envelope_n : n -> n -> n -> bool **)

let envelope_n k r n0 =
  (||)
    ((&&) (N.leb k (N.pow (Npos (XO XH)) n0))
      (N.leb r
        (N.sub (Npos (XO (XO (XO (XO (XO (XO (XO (XO (XO (XO (XO (XO (XO (XO
          (XO (XO XH))))))))))))))))) (N.pow (Npos (XO XH)) n0))))
    ((&&) (N.leb r (N.pow (Npos (XO XH)) n0))
      (N.leb k
        (N.sub (Npos (XO (XO (XO (XO (XO (XO (XO (XO (XO (XO (XO (XO (XO (XO
          (XO (XO XH))))))))))))))))) (N.pow (Npos (XO XH)) n0))))

(** val envelopeb : n -> n -> bool **)

let envelopeb k r =
  (&&) ((&&) (N.leb (Npos XH) k) (N.leb (Npos XH) r))
    (existsb (envelope_n k r) (range N0 (Npos (XI (XO (XO (XO XH)))))))

(** val rmax : n -> n **)

let rmax k =
  if (||) (N.eqb k N0)
       (N.ltb (Npos (XI (XI (XI (XI (XI (XI (XI (XI (XI (XI (XI (XI (XI (XI
         (XI XH)))))))))))))))) k)
  then N0
  else fold_left (fun acc n0 ->
         if N.leb k (N.pow (Npos (XO XH)) n0)
         then N.max acc
                (N.sub (Npos (XO (XO (XO (XO (XO (XO (XO (XO (XO (XO (XO (XO
                  (XO (XO (XO (XO XH)))))))))))))))))
                  (N.pow (Npos (XO XH)) n0))
         else if N.leb k
                   (N.sub (Npos (XO (XO (XO (XO (XO (XO (XO (XO (XO (XO (XO
                     (XO (XO (XO (XO (XO XH)))))))))))))))))
                     (N.pow (Npos (XO XH)) n0))
              then N.max acc (N.pow (Npos (XO XH)) n0)
              else acc) (range N0 (Npos (XI (XO (XO (XO XH)))))) N0
