(* Extraction of the executable model. Only ExtrOcamlBasic's directives are
   used (bool, option, unit, list, prod, sumbool, sumor -> OCaml natives; andb,
   orb inlined); N, positive, nat stay inductive. *)
From Coq Require Import NArith List Extraction ExtrOcamlBasic.
From RS.Gen Require Import Prelude GenConsts.
From RS.Model Require Import Field Tables Sched Codec Layout Kernels Machine Admissible Spec.
Extraction Language OCaml.
Set Extraction KeepSingleton.
Extraction "model.ml"
  Machine.step Machine.init Machine.run Admissible.admissible
  Sched.fft Sched.ifft Sched.shard_ops Sched.sym_ops Sched.formal_derivative
  Tables.eval_poly Tables.skew_tbl Tables.log_walsh_tbl Field.exp_tbl Field.log_tbl
  Field.tget Field.tset Field.tempty Field.mul Field.fmul Field.fdiv
  Kernels.mul_block Kernels.mul16 Kernels.mul128_lo Kernels.mul128_hi
  Layout.group_syms Layout.group_bytes Layout.syms_of_bytes Layout.bytes_of_syms
  Spec.recovery_high_spec Spec.recovery_low_spec Spec.cauchy_high_row Spec.cauchy_low_row Spec.row_apply Spec.lch_eval Spec.locator_log Spec.rmax Spec.envelopeb
  N.add N.mul N.div_eucl N.eqb.
