(* C10/C06: every error of the one-shot encode() describes a precondition the input really
   violates (membership in Admissible.adm_oneenc), for all argument tuples. *)
From Coq Require Import NArith Arith Lia Bool List FMapPositive.
From RS.Gen Require Import Prelude GenConsts.
From RS.Model Require Import Field Tables Sched Codec Layout Machine Admissible.
From RS.Proofs Require Import RateFacts MachineFacts.
Import ListNotations.
Local Open Scope N_scope.

Lemma enc_add_all_res : forall l x, ew_recv (e_work x) <= ew_K (e_work x) ->
  let w := e_work x in
  match enc_add_all x l with
  | inr e =>
    (exists s, In s (firstn (N.to_nat (ew_K w - ew_recv w)) l) /\ e = DifferentShardSize (ew_sb w) (blen s) /\ blen s <> ew_sb w) \/
    (e = TooManyOriginalShards (ew_K w) /\ ew_K w - ew_recv w < N.of_nat (length l))
  | inl x' => ew_K (e_work x') = ew_K w /\ ew_recv (e_work x') = ew_recv w + N.of_nat (length l) /\ ew_recv (e_work x') <= ew_K w
  end.
Proof.
  induction l as [|s l IH]; intros x Hle; cbv zeta.
  - cbn. repeat split; lia.
  - cbn [enc_add_all]. unfold enc_add.
    destruct (N.eqb_spec (ew_recv (e_work x)) (ew_K (e_work x))) as [Eq|Ne].
    + right. split; [reflexivity|]. cbn [length]. lia.
    + destruct (N.eqb_spec (blen s) (ew_sb (e_work x))) as [Es|Es]; cbn [negb].
      * set (x1 := {| e_codec := e_codec x; e_engine := e_engine x; e_rate := e_rate x; e_work := _ |}).
        specialize (IH x1 ltac:(cbn; lia)). cbv zeta in IH. cbn [e_work x1 ew_K ew_recv ew_sb] in IH.
        destruct (enc_add_all x1 l) as [x'|e].
        -- destruct IH as (A & B & C). cbn [length]. repeat split; try assumption; lia.
        -- destruct IH as [(s' & Hin & He & Hne)|(He & Hlt)].
           ++ left. exists s'. split; [|split; assumption].
              replace (N.to_nat (ew_K (e_work x) - ew_recv (e_work x))) with (S (N.to_nat (ew_K (e_work x) - (ew_recv (e_work x) + 1)))) by lia.
              cbn [firstn]. right. exact Hin.
           ++ right. split; [exact He|]. cbn [length]. lia.
      * left. exists s. split; [|split; [reflexivity|exact Es]].
        replace (N.to_nat (ew_K (e_work x) - ew_recv (e_work x))) with (S (N.to_nat (ew_K (e_work x) - (ew_recv (e_work x) + 1)))) by lia.
        left. reflexivity.
Qed.

Theorem oneshot_encode_truthful junk ep K R shards e :
  oneshot_encode junk ep K R shards = RError e -> In e (adm_oneenc K R shards).
Proof.
  unfold oneshot_encode, adm_oneenc.
  destruct (negb (default_supportsb K R)) eqn:Es; [intros [= <-]; left; reflexivity|].
  destruct shards as [|first rest]; [intros [= <-]; left; reflexivity|].
  destruct (enc_make CRs DefaultE K R (blen first) encwork_new) as [[x a]|err] eqn:Em.
  2:{ intros [= <-]. unfold enc_make, validateb in Em. cbn [supportsb] in Em. rewrite Es in Em.
      destruct (bad_size (blen first)); [inversion Em; left; reflexivity|]. cbv zeta in Em. destruct (encwork_reset _ _ _ _ _); discriminate. }
  assert (Hbs : bad_size (blen first) = false).
  { unfold enc_make, validateb in Em. cbn [supportsb] in Em. rewrite Es in Em. destruct (bad_size (blen first)); [discriminate|reflexivity]. }
  rewrite Hbs.
  assert (X : ew_K (e_work x) = K /\ ew_sb (e_work x) = blen first /\ ew_recv (e_work x) = 0).
  { unfold enc_make in Em. destruct (validateb CRs K R (blen first)); [discriminate|]. cbv zeta in Em. unfold encwork_reset in Em. cbv zeta in Em.
    inversion Em; subst x. cbn. auto. }
  destruct X as (XK & Xsb & Xr).
  pose proof (enc_add_all_res (first :: rest) x ltac:(rewrite Xr; lia)) as A. cbv zeta in A. rewrite XK, Xsb, Xr, N.sub_0_r in A.
  set (cnt := N.of_nat (length (first :: rest))) in *.
  destruct (enc_add_all x (first :: rest)) as [x'|e1].
  - destruct A as (A1 & A2 & A3). unfold enc_encode. rewrite A1, A2, N.add_0_l.
    destruct (N.eqb_spec cnt K) as [Ec|Ec]; cbn [negb snd].
    + discriminate.
    + intros [= <-]. apply in_or_app. right. apply in_or_app. right.
      assert ((cnt <? K) = true) as -> by (apply N.ltb_lt; lia). left. reflexivity.
  - intros [= <-]. destruct A as [(s & Hin & He & Hne)|(He & Hlt)]; subst e1.
    + apply in_or_app. left. apply in_flat_map. exists s. split; [exact Hin|].
      unfold adm_len. apply N.eqb_neq in Hne. rewrite Hne. left. reflexivity.
    + apply in_or_app. right. apply in_or_app. left. assert ((K <? cnt) = true) as -> by (apply N.ltb_lt; exact Hlt). left. reflexivity.
Qed.
