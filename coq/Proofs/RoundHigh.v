(* C01, high rate, end to end: what encode_high produces, decode_high_work restores. *)
From Coq Require Import NArith Arith Lia Bool List Permutation.
From RS.Gen Require Import Prelude GenConsts.
From RS.Model Require Import Field Tables Sched Codec Spec.
From RS.Proofs Require Import RateFacts FieldFacts Ring Scale FftSpec SchedEquiv Trunc Lengths FftTrunc Lagrange Cauchy LchPoly LchPoly2 DecodeBase DecodeLow Locator RoundLow Blocks DecodeHigh.
Import ListNotations.
Local Open Scope N_scope.

Lemma zero_tail_id (l : list N) : zero_tail sym_ops (length l) l = l.
Proof. unfold zero_tail. rewrite firstn_all, Nat.sub_diag. cbn. apply app_nil_r. Qed.
Lemma nth_xor_list a b t : length a = length b -> nth t (xor_list sym_ops a b) 0 = N.lxor (nth t a 0) (nth t b 0).
Proof.
  revert b t. induction a as [|x a IH]; intros [|y b] t H; cbn in H; try discriminate.
  - destruct t; reflexivity.
  - destruct t; [reflexivity|]. cbn. apply IH. lia.
Qed.
Lemma firstn_repeat0 j : forall n, firstn j (repeat 0 n) = repeat 0 (Nat.min j n).
Proof. induction j as [|j IHj]; intros [|n']; cbn; try reflexivity. f_equal. apply IHj. Qed.
Lemma skipn_repeat0 j : forall n, skipn j (repeat 0 n) = repeat 0 (n - j).
Proof. induction j as [|j IHj]; intros [|n']; cbn; try reflexivity. apply IHj. Qed.
Lemma lch_zeros k : forall x n, lch k (repeat 0 n) x = 0.
Proof.
  induction k as [|k IH]; intros x n; cbn [lch].
  - destruct n; reflexivity.
  - rewrite firstn_repeat0, skipn_repeat0, !IH. rewrite fmul_0_r. reflexivity.
Qed.

Section Enc.
Variables (e : engine) (K R : N) (w : list N) (k : nat).
Let m := 2 ^ N.of_nat k.
Let mn := N.to_nat m.
Hypothesis Hk : (k <= 15)%nat.
Hypothesis Ww : Forall W16 w.

(* coefficient vector contributed by chunk c of the originals *)
Definition hcoef (c : nat) : list N :=
  let cs := N.of_nat c * m in let t := N.min m (K - cs) in
  ifft sym_ops e m t (cs + m) (zero_tail sym_ops (N.to_nat t) (firstn mn (skipn (N.to_nat cs) w))).

Lemma mn_p2 : mn = p2 k.
Proof. unfold mn, m. apply Nat2N.inj. rewrite N2Nat.id, p2_N. reflexivity. Qed.
Lemma m_pos : 0 < m.
Proof. unfold m. pose proof (N.pow_nonzero 2 (N.of_nat k)). lia. Qed.

Lemma hcoef_len c : (N.to_nat (N.of_nat c * m) + mn <= length w)%nat -> length (hcoef c) = mn.
Proof.
  intros H. unfold hcoef. cbv zeta. pose proof mn_p2 as P.
  assert (L : length (zero_tail sym_ops (N.to_nat (N.min m (K - N.of_nat c * m))) (firstn mn (skipn (N.to_nat (N.of_nat c * m)) w))) = mn).
  { rewrite zero_tail_len; rewrite firstn_length, skipn_length; unfold mn in *; lia. }
  unfold m at 1. rewrite ifft_len; [exact L|lia|]. rewrite L, P. apply p2_N.
Qed.
Lemma hcoef_W16 c : Forall W16 (hcoef c).
Proof. unfold hcoef. cbv zeta. apply ifft_W16, zero_tail_W16, Forall_firstn', Forall_skipn', Ww. Qed.

Lemma high_chunks_coef : forall q fuel c acc, (q <= fuel)%nat ->
  length (skipn (N.to_nat (N.of_nat c * m)) w) = (mn * q)%nat -> length acc = mn ->
  (forall i, (i < q)%nat -> N.of_nat (c + i) * m < K) ->
  forall t, (t < mn)%nat ->
  nth t (high_enc_chunks sym_ops e K m (N.of_nat c * m) acc (chunks fuel mn (skipn (N.to_nat (N.of_nat c * m)) w))) 0 =
  N.lxor (nth t acc 0) (xsum q (fun i => nth t (hcoef (c + i)) 0)).
Proof.
  pose proof m_pos as Hmpos. pose proof mn_p2 as P.
  induction q as [|q IH]; intros fuel c acc Hf Lwl Lacc Hlt t Ht.
  - rewrite Nat.mul_0_r in Lwl. apply length_zero_iff_nil in Lwl. rewrite Lwl.
    assert (E : chunks fuel mn (@nil N) = []) by (destruct fuel; reflexivity). rewrite E. cbn [high_enc_chunks xsum].
    rewrite N.lxor_0_r. reflexivity.
  - destruct fuel as [|fuel]; [lia|]. set (cs := N.of_nat c * m) in *.
    set (wl := skipn (N.to_nat cs) w) in *.
    assert (Hne : wl <> []) by (intros E; rewrite E in Lwl; cbn in Lwl; unfold mn in *; lia).
    rewrite chunks_cons by exact Hne. cbn [high_enc_chunks].
    set (ch := firstn mn wl). assert (Lch : length ch = mn) by (unfold ch; rewrite firstn_length, Lwl; nia).
    assert (Hcs : cs < K) by (specialize (Hlt 0%nat ltac:(lia)); rewrite Nat.add_0_r in Hlt; exact Hlt).
    assert (Lsk : (N.to_nat cs + mn <= length w)%nat).
    { assert (L : length wl = (length w - N.to_nat cs)%nat) by apply skipn_length. rewrite Lwl in L. nia. }
    replace (S q) with (1 + q)%nat by lia. rewrite xsum_split. cbn [xsum]. rewrite N.lxor_0_l, Nat.add_0_r.
    destruct (N.leb_spec (cs + m) K) as [Hfull|Hpart].
    + assert (Eh : hcoef c = ifft sym_ops e m m (cs + m) ch).
      { unfold hcoef. cbv zeta. fold cs. rewrite N.min_l by lia. fold mn. fold wl. fold ch. rewrite <- Lch at 1. rewrite zero_tail_id. reflexivity. }
      assert (Ecs : N.of_nat (S c) * m = cs + m) by (unfold cs; lia).
      assert (Esk : skipn mn wl = skipn (N.to_nat (cs + m)) w).
      { unfold wl. rewrite <- skipn_add. f_equal. unfold mn. lia. }
      rewrite Esk.
      set (acc' := xor_list sym_ops acc (ifft sym_ops e m m (cs + m) ch)).
      assert (Lacc' : length acc' = mn) by (unfold acc'; rewrite xor_list_len, <- Eh, hcoef_len by (fold cs; exact Lsk); lia).
      pose proof (IH fuel (S c) acc' ltac:(lia)) as IHs. rewrite Ecs in IHs.
      rewrite IHs; try assumption.
      * unfold acc'. rewrite nth_xor_list by (rewrite <- Eh, hcoef_len by (fold cs; exact Lsk); exact Lacc).
        rewrite <- Eh. rewrite N.lxor_assoc. f_equal. f_equal. apply xsum_ext. intros i Hi. do 2 f_equal. lia.
      * rewrite <- Esk, skipn_length, Lwl. nia.
      * intros i Hi. replace (S c + i)%nat with (c + S i)%nat by lia. apply Hlt. lia.
    + (* the last, partial chunk *)
      assert (Hq : q = 0%nat).
      { destruct q as [|q']; [reflexivity|]. exfalso. specialize (Hlt 1%nat ltac:(lia)). unfold cs in *. lia. }
      subst q. cbn [xsum]. rewrite N.lxor_0_r.
      assert (Hmod : K mod m = K - cs) by (symmetry; apply (N.mod_unique K m (N.of_nat c) (K - cs)); unfold cs in *; lia).
      rewrite Hmod. assert ((0 <? K - cs) = true) as -> by (apply N.ltb_lt; lia).
      assert (Eh : hcoef c = ifft sym_ops e m (K - cs) (cs + m) (zero_tail sym_ops (N.to_nat (K - cs)) ch)).
      { unfold hcoef. cbv zeta. fold cs. rewrite N.min_r by lia. fold mn. fold wl. fold ch. reflexivity. }
      rewrite <- Eh. apply nth_xor_list. rewrite hcoef_len by (fold cs; exact Lsk). exact Lacc.
Qed.
End Enc.

Lemma next_mult_lt a b : 0 < b -> 1 <= a -> next_mult a b < a + b.
Proof.
  intros Hb Ha. unfold next_mult. cbv zeta. pose proof (N.mod_lt a b ltac:(lia)) as L.
  remember (a mod b) as r. clear Heqr. destruct (N.eqb_spec r 0); lia.
Qed.

Section AsPoly.
Variables (e : engine) (K R : N) (w : list N) (k kn : nat).
Let m := 2 ^ N.of_nat k.
Let n := 2 ^ N.of_nat kn.
Let mn := N.to_nat m.
Hypothesis HK : 1 <= K.
Hypothesis HR : 1 <= R.
Hypothesis Hm : npow2 R = m.
Hypothesis Henv : m + K <= 65536.
Hypothesis Hkn : (kn <= 16)%nat.
Hypothesis Hoe : m + K <= n.
Hypothesis Ww : Forall W16 w.
Hypothesis Lw : length w = N.to_nat (high_enc_work_count K R).

Theorem encode_high_as_poly :
  exists cF, length cF = p2 kn /\ Forall W16 cF /\
    (forall t, (p2 kn - p2 k <= t)%nat -> (t < p2 kn)%nat -> nth t cF 0 = 0) /\
    (forall j, j < R -> nth (N.to_nat j) (encode_high sym_ops e K R w) 0 = lch kn cF j) /\
    (forall i, i < K -> lch kn cF (m + i) = nth (N.to_nat i) w 0) /\
    (forall v, m + K <= v -> v < n -> lch kn cF v = 0).
Proof.
  pose proof (npow2_ge R) as HRm. rewrite Hm in HRm.
  assert (Hmpos : 0 < m) by (unfold m; pose proof (N.pow_nonzero 2 (N.of_nat k)); lia).
  assert (Hk : (k <= 15)%nat).
  { destruct (Nat.le_gt_cases k 15) as [H|H]; [exact H|]. exfalso.
    assert (2 ^ 16 <= m) by (unfold m; apply N.pow_le_mono_r; lia). change (2 ^ 16) with 65536 in *. lia. }
  assert (Hkk : (k <= kn)%nat).
  { assert (H : 2 ^ N.of_nat k <= 2 ^ N.of_nat kn) by (fold m n; lia). apply N.pow_le_mono_r_iff in H; lia. }
  assert (Pm : mn = p2 k) by (apply (mn_p2 k)).
  assert (HQ : 2 ^ (16 - N.of_nat k) * m = 65536).
  { unfold m. rewrite <- N.pow_add_r. replace (16 - N.of_nat k + N.of_nat k) with 16 by lia. reflexivity. }
  assert (Bound : forall c0, c0 * m < K -> (c0 + 1) * m + m <= 65536).
  { intros c0 Hc0. clear - HQ Hc0 Henv Hmpos. set (Q := 2 ^ (16 - N.of_nat k)) in *. assert (c0 + 2 <= Q) by nia. nia. }
  assert (Pk : N.of_nat (p2 k) = m) by apply p2_N. assert (Pn : N.of_nat (p2 kn) = n) by apply p2_N.
  (* the chunks *)
  unfold high_enc_work_count, np2 in Lw. rewrite Hm in Lw.
  destruct (next_mult_spec K m Hmpos) as [HKw [q Hq]]. pose proof (next_mult_lt K m Hmpos HK) as Hlt. rewrite Hq in *.
  set (Cn := N.to_nat q). assert (Lw' : length w = (mn * Cn)%nat) by (rewrite Lw; unfold mn, Cn; lia).
  assert (HC1 : (1 <= Cn)%nat) by (unfold Cn; nia).
  assert (HClt : forall c, (c < Cn)%nat -> N.of_nat c * m < K) by (intros c Hc; unfold Cn in Hc; nia).
  assert (Hlen_c : forall c, (c < Cn)%nat -> (N.to_nat (N.of_nat c * m) + mn <= length w)%nat).
  { intros c Hc. rewrite Lw'. unfold mn. nia. }
  (* the accumulated coefficient vector *)
  set (hc := hcoef e K w k).
  set (rest := chunks (length w - 1) mn (skipn mn w)).
  set (acc := if m <? K then high_enc_chunks sym_ops e K m m (hc 0%nat) rest else hc 0%nat).
  assert (Lh0 : length (hc 0%nat) = mn) by (apply hcoef_len; [exact Hk|apply Hlen_c; lia]).
  assert (Vacc : forall t, (t < mn)%nat -> nth t acc 0 = xsum Cn (fun c => nth t (hc c) 0)).
  { intros t Ht. unfold acc. destruct (N.ltb_spec m K) as [HmK|HmK].
    - pose proof (high_chunks_coef e K w k Hk (Cn - 1)%nat (length w - 1)%nat 1%nat (hc 0%nat)) as HC.
      fold m mn in HC. rewrite N.mul_1_l in HC. replace (N.to_nat m) with mn in HC by reflexivity.
      unfold rest. rewrite HC; try assumption.
      + replace Cn with (1 + (Cn - 1))%nat at 2 by lia. rewrite xsum_split. cbn [xsum]. rewrite N.lxor_0_l. reflexivity.
      + rewrite Lw'. nia.
      + rewrite skipn_length, Lw'. nia.
      + intros i Hi. apply HClt. lia.
    - assert (Cn = 1%nat) as -> by (unfold Cn in *; nia). cbn [xsum]. rewrite N.lxor_0_l. reflexivity. }
  assert (Lacc : length acc = mn).
  { unfold acc. destruct (m <? K); [|exact Lh0]. unfold mn, m.
    apply (high_enc_chunks_len sym_ops e K (2 ^ N.of_nat k) k ltac:(lia) eq_refl); [exact Lh0|].
    apply (chunks_all_len mn ltac:(unfold mn; lia) _ _ (Cn - 1)%nat). rewrite skipn_length, Lw'. nia. }
  assert (Wacc : Forall W16 acc).
  { unfold acc. destruct (m <? K); [|apply hcoef_W16; exact Ww]. apply high_enc_chunks_W16; [apply hcoef_W16; exact Ww|].
    apply chunks_W16, Forall_skipn'; exact Ww. }
  (* the coset polynomials *)
  set (kk := (kn - k)%nat). assert (Ekk : (kk + k)%nat = kn) by (unfold kk; lia).
  set (H := p2 kk). assert (PH : N.of_nat H * m = n).
  { unfold H, m, n. rewrite p2_N, <- N.pow_add_r. f_equal. lia. }
  assert (HCH : (Cn + 1 <= H)%nat).
  { assert (N.of_nat Cn * m < n) by (unfold Cn; rewrite N2Nat.id; nia). nia. }
  set (g := fun c' : nat => if Nat.eqb c' 0 then acc else if Nat.leb c' Cn then hc (c' - 1)%nat else repeat 0 mn).
  assert (Hg : forall c', (c' < H)%nat -> length (g c') = p2 k /\ Forall W16 (g c')).
  { intros c' Hc. unfold g. destruct (Nat.eqb_spec c' 0); [split; [rewrite <- Pm; exact Lacc|exact Wacc]|].
    destruct (Nat.leb_spec c' Cn).
    - split; [rewrite <- Pm; apply hcoef_len; [exact Hk|apply Hlen_c; lia]|apply hcoef_W16; exact Ww].
    - split; [rewrite repeat_length; exact Pm|]. apply Forall_forall. intros z Hz. apply repeat_spec in Hz. subst z. apply W16_0. }
  assert (Hsum : forall t, (t < p2 k)%nat -> xsum H (fun c' => nth t (g c') 0) = 0).
  { intros t Ht. replace H with (1 + (Cn + (H - 1 - Cn)))%nat by lia. rewrite !xsum_split. cbn [xsum]. rewrite N.lxor_0_l.
    rewrite (xsum_ext Cn _ (fun c => nth t (hc c) 0)).
    2:{ intros c Hc. unfold g. destruct (Nat.eqb_spec (1 + c) 0); [lia|]. destruct (Nat.leb_spec (1 + c) Cn); [|lia]. do 2 f_equal. lia. }
    rewrite (xsum_zero (H - 1 - Cn)).
    2:{ intros c Hc. unfold g. destruct (Nat.eqb_spec (1 + (Cn + c)) 0); [lia|]. destruct (Nat.leb_spec (1 + (Cn + c)) Cn); [lia|].
        clear. generalize mn. intros j. revert t. induction j; intros [|t]; cbn; auto. }
    rewrite N.lxor_0_r. unfold g at 1. cbn [Nat.eqb]. rewrite Vacc by (rewrite Pm; exact Ht). apply N.lxor_nilpotent. }
  destruct (assemble kk k g ltac:(lia) Hg Hsum) as (cF & LcF & WcF & Htop & Hval). rewrite Ekk in LcF, Htop, Hval.
  exists cF. split; [exact LcF|]. split; [exact WcF|]. split; [exact Htop|].
  (* values on coset c' at offset v *)
  assert (Hpos : (0 < H)%nat) by apply p2_pos.
  split; [|split].
  - intros j Hj.
    pose proof (Hval 0%nat (N.to_nat j) Hpos ltac:(rewrite <- Pm; unfold mn; lia)) as V. rewrite N.mul_0_l, N.add_0_l, N2Nat.id in V. rewrite V.
    unfold g. cbn [Nat.eqb].
    unfold encode_high, np2. rewrite Hm. fold m mn.
    assert (El : length w = S (length w - 1)) by lia.
    assert (Hne : w <> []) by (intros E; rewrite E in El; discriminate).
    replace (chunks (length w) mn w) with (chunks (S (length w - 1)) mn w) by (rewrite <- El; reflexivity).
    rewrite chunks_cons by exact Hne. cbv zeta.
    assert (E0 : ifft sym_ops e m (N.min K m) m (zero_tail sym_ops (N.to_nat (N.min K m)) (firstn mn w)) = hc 0%nat).
    { unfold hc, hcoef. cbv zeta. fold m mn. rewrite N.mul_0_l, N.sub_0_r, N.add_0_l. cbn [N.to_nat skipn]. rewrite (N.min_comm m K). reflexivity. }
    rewrite E0. fold rest. fold acc.
    rewrite nth_firstn_lt' by lia.
    pose proof (fft_trunc_spec e k 0 acc R ltac:(lia)) as FS. cbv zeta in FS. rewrite N.mul_0_l, !N.add_0_l in FS. fold m in FS.
    rewrite <- (N2Nat.id j) at 2. apply FS; try assumption; try lia; try (rewrite <- Pm; exact Lacc).
  - intros i Hi. set (c := i / m). set (v := i mod m).
    pose proof (N.div_mod i m ltac:(lia)) as D. pose proof (N.mod_lt i m ltac:(lia)) as L. fold c v in D, L. clearbody c v.
    assert (Hc : (N.to_nat c < Cn)%nat) by (unfold Cn; nia).
    pose proof (Hval (S (N.to_nat c)) (N.to_nat v) ltac:(lia) ltac:(rewrite <- Pm; unfold mn; lia)) as V.
    replace (N.of_nat (S (N.to_nat c)) * 2 ^ N.of_nat k + N.of_nat (N.to_nat v)) with (m + i) in V by (fold m; lia).
    rewrite V. unfold g. cbn [Nat.eqb]. destruct (Nat.leb_spec (S (N.to_nat c)) Cn); [|lia].
    replace (S (N.to_nat c) - 1)%nat with (N.to_nat c) by lia.
    unfold hc, hcoef. cbv zeta. fold m mn. rewrite N2Nat.id.
    set (cs := c * m). set (t := N.min m (K - cs)).
    set (D0 := firstn mn (skipn (N.to_nat cs) w)).
    assert (LD0 : length D0 = mn).
    { unfold D0. rewrite firstn_length, skipn_length. specialize (Hlen_c (N.to_nat c) Hc). rewrite N2Nat.id in Hlen_c. fold cs in Hlen_c. lia. }
    set (ch := zero_tail sym_ops (N.to_nat t) D0).
    assert (Lch : length ch = p2 k) by (unfold ch; rewrite zero_tail_len; unfold t, mn in *; lia).
    assert (Wch : Forall W16 ch) by (unfold ch; apply zero_tail_W16, Forall_firstn', Forall_skipn', Ww).
    pose proof (ifft_interpolates e k (c + 1) ch t ltac:(lia)) as I. cbv zeta in I. fold m in I.
    replace (m + i) with ((c + 1) * m + N.of_nat (N.to_nat v)) by (unfold cs in *; lia).
    replace (cs + m) with ((c + 1) * m) by (unfold cs; lia).
    rewrite I; try assumption; try (unfold t; lia).
    + unfold ch. rewrite zero_tail_nth by (unfold t, mn in *; lia).
      destruct (Nat.ltb_spec (N.to_nat v) (N.to_nat t)); [|unfold t, cs in *; lia].
      unfold D0. rewrite nth_firstn_lt' by (unfold mn; lia). rewrite nth_skipn_N. f_equal. unfold cs. lia.
    + apply Bound. unfold cs in *. nia.
    + intros i0 Hi0 Hle. apply zero_tail_contract; [unfold t, mn in *; lia|exact Hi0|rewrite N2Nat.id; exact Hle].
  - intros x Hx1 Hx2. set (c' := x / m). set (v := x mod m).
    pose proof (N.div_mod x m ltac:(lia)) as D. pose proof (N.mod_lt x m ltac:(lia)) as L. fold c' v in D, L. clearbody c' v.
    assert (Hc1 : 1 <= c') by nia. assert (HcH : (N.to_nat c' < H)%nat) by nia.
    pose proof (Hval (N.to_nat c') (N.to_nat v) HcH ltac:(rewrite <- Pm; unfold mn; lia)) as V.
    replace (N.of_nat (N.to_nat c') * 2 ^ N.of_nat k + N.of_nat (N.to_nat v)) with x in V by (fold m; lia).
    rewrite V. unfold g. destruct (Nat.eqb_spec (N.to_nat c') 0); [lia|].
    destruct (Nat.leb_spec (N.to_nat c') Cn) as [Hle|Hgt]; [|apply lch_zeros].
    set (c := c' - 1). replace (N.to_nat c' - 1)%nat with (N.to_nat c) by (unfold c; lia).
    assert (Hc : (N.to_nat c < Cn)%nat) by (unfold c; lia).
    unfold hc, hcoef. cbv zeta. fold m mn. rewrite N2Nat.id.
    set (cs := c * m). set (t := N.min m (K - cs)).
    set (D0 := firstn mn (skipn (N.to_nat cs) w)).
    assert (LD0 : length D0 = mn).
    { unfold D0. rewrite firstn_length, skipn_length. specialize (Hlen_c (N.to_nat c) Hc). rewrite N2Nat.id in Hlen_c. fold cs in Hlen_c. lia. }
    set (ch := zero_tail sym_ops (N.to_nat t) D0).
    assert (Lch : length ch = p2 k) by (unfold ch; rewrite zero_tail_len; unfold t, mn in *; lia).
    assert (Wch : Forall W16 ch) by (unfold ch; apply zero_tail_W16, Forall_firstn', Forall_skipn', Ww).
    pose proof (ifft_interpolates e k (c + 1) ch t ltac:(lia)) as I. cbv zeta in I. fold m in I.
    assert (Ec : c + 1 = c') by (unfold c; lia).
    replace x with ((c + 1) * m + N.of_nat (N.to_nat v)) by (rewrite Ec; lia).
    replace (cs + m) with ((c + 1) * m) by (unfold cs; lia).
    rewrite I; try assumption; try (unfold t; lia).
    + unfold ch. rewrite zero_tail_nth by (unfold t, mn in *; lia).
      destruct (Nat.ltb_spec (N.to_nat v) (N.to_nat t)); [unfold t, cs, c in *; lia|reflexivity].
    + apply Bound. specialize (HClt (N.to_nat c) Hc). rewrite N2Nat.id in HClt. exact HClt.
    + intros i0 Hi0 Hle0. apply zero_tail_contract; [unfold t, mn in *; lia|exact Hi0|rewrite N2Nat.id; exact Hle0].
Qed.
End AsPoly.

Section Round.
Variables (e e' : engine) (K R : N) (recv : N -> bool) (k kn : nat).
Let m := 2 ^ N.of_nat k.
Let n := 2 ^ N.of_nat kn.
Let oe := m + K.
Hypothesis HK : 1 <= K.
Hypothesis HR : 1 <= R.
Hypothesis Hm : npow2 R = m.
Hypothesis Henv : m + K <= 65536.
Hypothesis Hkn : (kn <= 16)%nat.
Hypothesis Hoe : oe <= n.

Lemma Eh_length : length (Eh K R recv k) = (N.to_nat R - cnt recv 0 R + N.to_nat (m - R) + (N.to_nat K - cnt recv m oe))%nat.
Proof.
  pose proof (npow2_ge R) as HRm. rewrite Hm in HRm.
  unfold Eh. fold m oe.
  rewrite (range_split 0 R 65536), (range_split R m 65536), (range_split m oe 65536) by (unfold oe; lia).
  rewrite !filter_app, !app_length.
  assert (E1 : filter (el_high K R recv k) (range 0 R) = filter (fun x => negb (recv x)) (range 0 R)).
  { apply filter_ext_in. intros x Hx. apply in_range_iff in Hx. unfold el_high. fold m oe. destruct (N.ltb_spec x R); [reflexivity|lia]. }
  assert (E2 : filter (el_high K R recv k) (range R m) = range R m).
  { apply filter_id. intros x Hx. apply in_range_iff in Hx. unfold el_high. fold m oe.
    destruct (N.ltb_spec x R); [lia|]. destruct (N.ltb_spec x m); [reflexivity|lia]. }
  assert (E3 : filter (el_high K R recv k) (range m oe) = filter (fun x => negb (recv x)) (range m oe)).
  { apply filter_ext_in. intros x Hx. apply in_range_iff in Hx. unfold el_high. fold m oe.
    destruct (N.ltb_spec x R); [lia|]. destruct (N.ltb_spec x m); [lia|]. destruct (N.ltb_spec x oe); [reflexivity|lia]. }
  assert (E4 : filter (el_high K R recv k) (range oe 65536) = []).
  { apply filter_none. intros x Hx. apply in_range_iff in Hx. unfold el_high. fold m oe.
    destruct (N.ltb_spec x R); [lia|]. destruct (N.ltb_spec x m); [lia|]. destruct (N.ltb_spec x oe); [lia|reflexivity]. }
  rewrite E1, E2, E3, E4. cbn [length].
  pose proof (filter_len_compl recv (range 0 R)) as C1. pose proof (filter_len_compl recv (range m oe)) as C2.
  rewrite !range_length in *. unfold cnt. unfold oe in *. lia.
Qed.

Theorem decode_high_roundtrip (w work : list N) :
  Forall W16 w -> length w = N.to_nat (high_enc_work_count K R) -> length work = p2 kn -> Forall W16 work ->
  (forall j, j < R -> recv j = true -> nth (N.to_nat j) work 0 = nth (N.to_nat j) (encode_high sym_ops e K R w) 0) ->
  (forall i, i < K -> recv (m + i) = true -> nth (N.to_nat (m + i)) work 0 = nth (N.to_nat i) w 0) ->
  (N.to_nat K <= cnt recv 0 R + cnt recv m oe)%nat ->
  forall i, i < K -> recv (m + i) = false ->
  nth (N.to_nat (m + i)) (snd (decode_high_work sym_ops e' K R recv work)) 0 = nth (N.to_nat i) w 0.
Proof.
  intros Ww Lw Lwork Wwork Hrr Hro Hcnt i Hi Hri.
  pose proof (npow2_ge R) as HRm. rewrite Hm in HRm.
  destruct (encode_high_as_poly e K R w k kn HK HR Hm Henv Hkn Hoe Ww Lw) as (cF & LcF & WcF & Htop & Vr & Vo & Vpad).
  assert (Hk : (k <= kn)%nat).
  { assert (H : 2 ^ N.of_nat k <= 2 ^ N.of_nat kn) by (fold m n; unfold oe in Hoe; lia).
    apply N.pow_le_mono_r_iff in H; lia. }
  rewrite <- (Vo i Hi).
  apply (decode_high_symbols e' K R recv k kn Hm HK HR Hkn Hoe cF work Hk LcF WcF Htop Lwork Wwork).
  - intros j Hj Hr0. rewrite <- Vr by exact Hj. apply Hrr; assumption.
  - intros i0 H1 H2 Hr0. fold m in H1. fold oe in H2. unfold oe in H2.
    replace i0 with (m + (i0 - m)) in * by lia. rewrite Vo by lia. apply Hro; [lia|exact Hr0].
  - intros v Hv1 Hv2. apply Vpad; assumption.
  - rewrite Eh_length. fold m oe.
    assert (P1 : N.of_nat (p2 k) = m) by apply p2_N.
    assert (C1 : (cnt recv 0 R <= N.to_nat R)%nat).
    { unfold cnt. pose proof (filter_len_compl recv (range 0 R)) as C. rewrite range_length in C. lia. }
    assert (C2 : (cnt recv m oe <= N.to_nat K)%nat).
    { unfold cnt. pose proof (filter_len_compl recv (range m oe)) as C. rewrite range_length in C. unfold oe in *. lia. }
    lia.
  - assert (E : high_erasures K R recv = map (fun i => if el_high K R recv k i then 1 else 0) (range 0 GF_ORDER)).
    { unfold high_erasures. cbv zeta. unfold np2. rewrite Hm. apply map_ext. intros x. unfold el_high. fold m oe.
      destruct (x <? R); [destruct (recv x); reflexivity|]. destruct (x <? m); [reflexivity|].
      unfold oe. destruct (x <? m + K); [destruct (recv x); reflexivity|reflexivity]. }
    rewrite E. apply eval_poly_er_spec; [unfold GF_ORDER, oe; lia|]. intros v Hv1 Hv2.
    unfold el_high. fold m oe. destruct (N.ltb_spec v R); [unfold oe in *; lia|]. destruct (N.ltb_spec v m); [unfold oe in *; lia|].
    destruct (N.ltb_spec v oe); [lia|reflexivity].
  - lia.
  - unfold oe. lia.
  - exact Hri.
Qed.
End Round.
