(* C01 through the streaming API of the machine: make an encoder, add the originals, encode;
   make a decoder (any engines), add any distinct valid shards out of the originals and the
   produced recovery shards, at least original_count of them; the decoder's working vector then
   holds, at every missing original's position, exactly that original. *)
From Coq Require Import NArith Arith Lia Bool List FMapPositive.
From RS.Gen Require Import Prelude GenConsts.
From RS.Model Require Import Field Tables Sched Codec Layout Machine Spec.
From RS.Proofs Require Import RateFacts FieldFacts Param Linear FftSpec Lengths Cauchy ShardLen LayoutFacts
     PermFacts Junk DecodeBase RoundLow RoundHigh RoundShards.
From RS.Proofs Require Import LayoutFacts2 MachineRound.
Import ListNotations.
Local Open Scope N_scope.

Definition byteshard (sb : N) (s : bytes) : Prop := blen s = sb /\ Forall (fun b => b < 256) s.

(* ---------- the encoder after adding the originals ---------- *)
Lemma enc_add_all_mem : forall l x x', enc_add_all x l = inl x' ->
  e_rate x' = e_rate x /\ e_engine x' = e_engine x /\ ew_K (e_work x') = ew_K (e_work x) /\ ew_R (e_work x') = ew_R (e_work x) /\
  ew_sb (e_work x') = ew_sb (e_work x) /\ ew_wc (e_work x') = ew_wc (e_work x) /\
  ew_recv (e_work x') = ew_recv (e_work x) + N.of_nat (length l) /\
  (forall p, mget (ew_mem (e_work x')) p =
     if (ew_recv (e_work x) <=? p) && (p <? ew_recv (e_work x) + N.of_nat (length l))
     then Some (syms_of_bytes (nth (N.to_nat (p - ew_recv (e_work x))) l [])) else mget (ew_mem (e_work x)) p).
Proof.
  induction l as [|s l IH]; intros x x' H.
  - cbn in H. inversion H; subst. cbn [length]. rewrite N.add_0_r. repeat split; try reflexivity.
    intros p. destruct (N.leb_spec (ew_recv (e_work x')) p), (N.ltb_spec p (ew_recv (e_work x'))); cbn; try reflexivity; lia.
  - cbn [enc_add_all] in H. destruct (enc_add x s) as [x1|e] eqn:E1; [|discriminate].
    destruct (IH x1 x' H) as (A1 & A2 & A3 & A4 & A5 & A6 & A7 & A8).
    unfold enc_add in E1. destruct (_ =? _); [discriminate|]. destruct (negb _); [discriminate|]. inversion E1; subst x1; clear E1.
    cbn in *. repeat split; try assumption; try lia.
    intros p. rewrite A8. rewrite mget_mset.
    set (r := ew_recv (e_work x)).
    destruct (N.eqb_spec p r) as [->|Hne].
    + assert ((r + 1 <=? r) = false) as -> by (apply N.leb_gt; lia). cbn [andb].
      assert ((r <=? r) && (r <? r + N.pos (Pos.of_succ_nat (length l))) = true) as ->
        by (apply andb_true_intro; split; [apply N.leb_le|apply N.ltb_lt]; lia).
      rewrite N.sub_diag. reflexivity.
    + destruct (N.leb_spec (r + 1) p) as [H1|H1].
      * assert ((r <=? p) = true) as -> by (apply N.leb_le; lia).
        replace (r + 1 + N.of_nat (length l)) with (r + N.pos (Pos.of_succ_nat (length l))) by lia.
        destruct (p <? r + N.pos (Pos.of_succ_nat (length l))); cbn [andb]; [|reflexivity].
        replace (N.to_nat (p - r)) with (S (N.to_nat (p - (r + 1)))) by lia. reflexivity.
      * cbn [andb]. assert ((r <=? p) = false) as -> by (apply N.leb_gt; lia). reflexivity.
Qed.

(* ---------- the decoder after a list of successful adds ---------- *)
Definition add_shard (a : add) : bytes := match a with AddO _ s | AddR _ s => s end.

Lemma apply_all_fields : forall l w,
  dw_K (apply_all w l) = dw_K w /\ dw_R (apply_all w l) = dw_R w /\ dw_sb (apply_all w l) = dw_sb w /\
  dw_obase (apply_all w l) = dw_obase w /\ dw_rbase (apply_all w l) = dw_rbase w /\ dw_wc (apply_all w l) = dw_wc w.
Proof.
  induction l as [|a l IH]; intros w; [repeat split; reflexivity|]. cbn [apply_all].
  destruct (IH (add_apply w a)) as (A & B & C & D & E & F). destruct a; cbn in *; repeat split; assumption.
Qed.
Lemma add_apply_pos w a b : add_pos (add_apply w a) b = add_pos w b.
Proof. destruct a, b; reflexivity. Qed.

Lemma existsb_ext' {A} (f g : A -> bool) l : (forall x, f x = g x) -> existsb f l = existsb g l.
Proof. intros H. induction l as [|x l IH]; cbn; [reflexivity|]. rewrite H, IH. reflexivity. Qed.
Lemma apply_all_recv : forall l w p,
  pmem (dw_received (apply_all w l)) p = pmem (dw_received w) p || existsb (fun a => add_pos w a =? p) l.
Proof.
  induction l as [|a l IH]; intros w p; [cbn; rewrite orb_false_r; reflexivity|]. cbn [apply_all existsb].
  rewrite IH. assert (E : dw_received (add_apply w a) = padd (dw_received w) (add_pos w a)) by (destruct a; reflexivity).
  rewrite E, pmem_padd. rewrite (existsb_ext' _ (fun b => add_pos w b =? p)) by (intros b; rewrite add_apply_pos; reflexivity).
  rewrite N.eqb_sym. destruct (add_pos w a =? p), (pmem (dw_received w) p), (existsb _ l); reflexivity.
Qed.
Lemma add_guard_pos w a : add_guard w a = true -> pmem (dw_received w) (add_pos w a) = false.
Proof.
  destruct a; cbn; intros H; apply andb_prop in H; destruct H as [H _]; apply andb_prop in H; destruct H as [_ H];
    apply negb_true_iff in H; exact H.
Qed.
Lemma apply_all_mem_other : forall l w p, (forall a, In a l -> add_pos w a <> p) ->
  mget (dw_mem (apply_all w l)) p = mget (dw_mem w) p.
Proof.
  induction l as [|a l IH]; intros w p H; [reflexivity|]. cbn [apply_all]. rewrite IH.
  - assert (E : dw_mem (add_apply w a) = mset (dw_mem w) (add_pos w a) (syms_of_bytes (add_shard a))) by (destruct a; reflexivity).
    rewrite E, mget_mset. destruct (N.eqb_spec p (add_pos w a)) as [->|]; [exfalso; apply (H a (or_introl eq_refl)); reflexivity|reflexivity].
  - intros b Hb. rewrite add_apply_pos. apply H. right. exact Hb.
Qed.
Lemma all_ok_fresh : forall l w, all_ok w l -> forall c, In c l -> pmem (dw_received w) (add_pos w c) = false.
Proof.
  induction l as [|a l IH]; intros w Hok c Hin; [destruct Hin|]. destruct Hok as [Hg Hok].
  destruct Hin as [<-|Hin]; [apply add_guard_pos; exact Hg|].
  specialize (IH _ Hok c Hin). rewrite add_apply_pos in IH.
  assert (E : dw_received (add_apply w a) = padd (dw_received w) (add_pos w a)) by (destruct a; reflexivity).
  rewrite E, pmem_padd in IH. apply orb_false_iff in IH. apply IH.
Qed.
Lemma all_ok_distinct : forall l w a, all_ok (add_apply w a) l -> forall c, In c l -> add_pos w c <> add_pos w a.
Proof.
  intros l w a Hok c Hin. pose proof (all_ok_fresh l _ Hok c Hin) as H. rewrite add_apply_pos in H.
  assert (E : dw_received (add_apply w a) = padd (dw_received w) (add_pos w a)) by (destruct a; reflexivity).
  rewrite E, pmem_padd in H. apply orb_false_iff in H. destruct H as [H _]. apply N.eqb_neq in H. exact H.
Qed.
Lemma apply_all_mem : forall l w, all_ok w l -> forall a, In a l ->
  mget (dw_mem (apply_all w l)) (add_pos w a) = Some (syms_of_bytes (add_shard a)).
Proof.
  induction l as [|b l IH]; intros w Hok a Hin; [destruct Hin|]. cbn [apply_all]. destruct Hok as [Hg Hok].
  destruct Hin as [->|Hin].
  - rewrite apply_all_mem_other.
    + assert (E : dw_mem (add_apply w a) = mset (dw_mem w) (add_pos w a) (syms_of_bytes (add_shard a))) by (destruct a; reflexivity).
      rewrite E, mget_mset, N.eqb_refl. reflexivity.
    + intros c Hc. rewrite add_apply_pos. apply (all_ok_distinct l w a Hok c Hc).
  - rewrite <- (add_apply_pos w b a). apply IH; assumption.
Qed.
Lemma apply_all_counts : forall l w, all_ok w l ->
  dw_orecv (apply_all w l) + dw_rrecv (apply_all w l) = dw_orecv w + dw_rrecv w + N.of_nat (length l).
Proof.
  induction l as [|a l IH]; intros w Hok; [cbn; lia|]. destruct Hok as [_ Hok]. cbn [apply_all length]. rewrite (IH _ Hok).
  destruct a; cbn; lia.
Qed.
Lemma all_ok_guard : forall l w, all_ok w l -> forall a, In a l ->
  blen (add_shard a) = dw_sb w /\ match a with AddO i _ => i < dw_K w | AddR j _ => j < dw_R w end.
Proof.
  induction l as [|b l IH]; intros w Hok a Hin; [destruct Hin|]. destruct Hok as [Hg Hok]. destruct Hin as [->|Hin].
  - destruct a; cbn in Hg; apply andb_prop in Hg; destruct Hg as [Hg H3]; apply andb_prop in Hg; destruct Hg as [H1 _];
      apply N.eqb_eq in H3; apply negb_true_iff, N.leb_gt in H1; cbn; split; assumption.
  - destruct (IH _ Hok a Hin) as [A B]. destruct (apply_all_fields [b] w) as (F1 & F2 & F3 & _). cbn [apply_all] in F1, F2, F3.
    rewrite F3 in A. rewrite F1, F2 in B. split; assumption.
Qed.
Lemma all_ok_nodup_pos : forall l w, all_ok w l -> NoDup (map (add_pos w) l).
Proof.
  induction l as [|a l IH]; intros w Hok; [constructor|]. destruct Hok as [Hg Hok]. cbn [map]. constructor.
  - intros Hin. apply in_map_iff in Hin. destruct Hin as (c & Ec & Hc). apply (all_ok_distinct l w a Hok c Hc). exact Ec.
  - rewrite <- (map_ext _ _ (add_apply_pos w a)). apply IH. exact Hok.
Qed.

(* ---------- rate and envelope ---------- *)
Lemma rate_env c K R : supportsb c K R = true ->
  (rate_of c K R = Low -> low_supportsb K R = true) /\ (rate_of c K R = High -> high_supportsb K R = true).
Proof.
  intros Hs. destruct (chosen_rate_supports K R) as [Ch Cl].
  destruct c; cbn [supportsb rate_of] in *.
  - unfold default_supportsb in Hs. destruct (use_high_rateb K R) as [[|]|]; try discriminate; split; intros H; try discriminate; auto.
  - unfold default_supportsb in Hs. destruct (use_high_rateb K R) as [[|]|]; try discriminate; split; intros H; try discriminate; auto.
  - split; intros H; [discriminate|exact Hs].
  - split; intros H; [exact Hs|discriminate].
Qed.
Lemma low_env K R : low_supportsb K R = true -> 1 <= K /\ 1 <= R /\ npow2 K + R <= 65536.
Proof.
  unfold low_supportsb, np2, GF_ORDER. intros H.
  apply andb_prop in H; destruct H as [H He]. apply andb_prop in H; destruct H as [H Hd].
  apply andb_prop in H; destruct H as [H Hc]. apply andb_prop in H; destruct H as [Ha Hb].
  apply N.ltb_lt in Ha, Hb, Hc, Hd. apply N.leb_le in He. lia.
Qed.
Lemma high_env K R : high_supportsb K R = true -> 1 <= K /\ 1 <= R /\ npow2 R + K <= 65536.
Proof.
  unfold high_supportsb, np2, GF_ORDER. intros H.
  apply andb_prop in H; destruct H as [H He]. apply andb_prop in H; destruct H as [H Hd].
  apply andb_prop in H; destruct H as [H Hc]. apply andb_prop in H; destruct H as [Ha Hb].
  apply N.ltb_lt in Ha, Hb, Hc, Hd. apply N.leb_le in He. lia.
Qed.

Lemma byteshard_syms sb s : N.even sb = true -> byteshard sb s ->
  length (syms_of_bytes s) = N.to_nat (lanes_of sb) /\ Forall W16 (syms_of_bytes s) /\ bytes_of_syms (syms_of_bytes s) = s.
Proof.
  intros He [Hl Hb]. pose proof (lanes_of_len sb s He Hl) as L.
  assert (Hq : exists q, length s = (q + q)%nat).
  { unfold blen in Hl. exists (N.to_nat (sb / 2)). rewrite <- N.negb_odd in He. apply negb_true_iff in He.
    pose proof (N.div_mod sb 2 ltac:(lia)) as D. rewrite <- N.bit0_mod, N.bit0_odd, He in D. change (N.b2n false) with 0 in D.
    set (q := sb / 2) in *. clearbody q. clear - D Hl. lia. }
  destruct Hq as [q Hq]. destruct (pack_unpack s q Hq Hb) as (P1 & P2 & P3). split; [exact L|]. split; assumption.
Qed.

(* counting distinct received positions *)
Lemma cnt_ge (recv : N -> bool) a b (P : list N) : NoDup P -> (forall p, In p P -> a <= p < b /\ recv p = true) ->
  (length P <= cnt recv a b)%nat.
Proof.
  intros ND H. unfold cnt. apply NoDup_incl_length; [exact ND|]. intros p Hp. apply filter_In. destruct (H p Hp) as [H1 H2].
  split; [apply in_range_iff; lia|exact H2].
Qed.

(* ---------- counting the originals among the adds ---------- *)
Definition is_orig (a : add) : bool := match a with AddO _ _ => true | AddR _ _ => false end.
Lemma apply_all_orecv : forall l w, dw_orecv (apply_all w l) = dw_orecv w + N.of_nat (length (filter is_orig l)).
Proof.
  induction l as [|a l IH]; intros w; [cbn; lia|]. cbn [apply_all filter]. rewrite IH. destruct a; cbn; lia.
Qed.
Lemma orig_adds_bound : forall l w K0 i, all_ok w l -> dw_K w = K0 -> i < K0 -> (forall s, ~ In (AddO i s) l) ->
  N.of_nat (length (filter is_orig l)) < K0.
Proof.
  intros l w K0 i Hok HK0 Hi Hno.
  set (idx := fun a => match a with AddO i0 _ => i0 | AddR j _ => j end).
  set (L := map idx (filter is_orig l)).
  assert (ND : NoDup L).
  { pose proof (all_ok_nodup_pos l w Hok) as ND.
    assert (G : forall l0, NoDup (map (add_pos w) l0) -> NoDup (map idx (filter is_orig l0))).
    { induction l0 as [|a l0 IH0]; intros H; [constructor|]. cbn [map] in H. inversion H as [|? ? Hn Hnd]; subst.
      cbn [filter]. destruct a as [i0 s0|j0 s0]; cbn [is_orig]; [|apply IH0; exact Hnd]. cbn [map]. constructor; [|apply IH0; exact Hnd].
      intros Hin. apply Hn. apply in_map_iff in Hin. destruct Hin as (b & Eb & Hb). apply filter_In in Hb. destruct Hb as [Hb Ho].
      destruct b as [i1 s1|]; [|discriminate]. cbn in Eb. subst i1. apply in_map_iff. exists (AddO i0 s1). split; [reflexivity|exact Hb]. }
    apply G. exact ND. }
  assert (Hin : forall p, In p L -> In p (filter (fun q => negb (q =? i)) (range 0 K0))).
  { intros p Hp. apply in_map_iff in Hp. destruct Hp as (a & <- & Ha). apply filter_In in Ha. destruct Ha as [Ha Ho].
    destruct a as [i0 s0|]; [|discriminate]. cbn. apply filter_In. split.
    - apply in_range_iff. destruct (all_ok_guard l w Hok _ Ha) as [_ G]. rewrite HK0 in G. lia.
    - apply negb_true_iff, N.eqb_neq. intros ->. apply (Hno s0 Ha). }
  pose proof (NoDup_incl_length ND Hin) as Hlen. unfold L in Hlen. rewrite map_length in Hlen.
  pose proof (filter_len_compl (fun q => q =? i) (range 0 K0)) as C. rewrite range_length in C.
  assert (Hone : (1 <= length (filter (fun q : N => (q =? i)%N) (range 0 K0)))%nat).
  { assert (In i (filter (fun q : N => (q =? i)%N) (range 0 K0))) by (apply filter_In; split; [apply in_range_iff; lia|apply N.eqb_refl]).
    destruct (filter (fun q : N => (q =? i)%N) (range 0 K0)); [destruct H|cbn; lia]. }
  lia.
Qed.

(* ---------- the streaming API, low rate ---------- *)
Section OpsLow.
Variable junk : N -> N -> N -> N.
Hypothesis Hjunk : forall a b c, junk a b c < 65536.
Variables (c : codec) (ee ed : engine) (K R sb ep ep' : N) (originals : list bytes).
Hypothesis Hval : validateb c K R sb = None.
Hypothesis Hrate : rate_of c K R = Low.
Hypothesis Lorig : N.of_nat (length originals) = K.
Hypothesis Borig : Forall (byteshard sb) originals.
Variables (w0 : encwork) (x0 x : encoder) (a0 : bool).
Hypothesis Hx0 : enc_make c ee K R sb w0 = inl (x0, a0).
Hypothesis Hx : enc_add_all x0 originals = inl x.
Variables (v0 : decwork) (y0 y : decoder) (b0 : bool) (adds : list add).
Hypothesis Hy0 : dec_make c ed K R sb v0 = inl (y0, b0).
Hypothesis Hy : dec_adds y0 adds = inl y.
Hypothesis Hadds : forall a, In a adds ->
  match a with AddO i s => s = nth (N.to_nat i) originals [] | AddR j s => s = nth (N.to_nat j) (encode_shards junk ep x) [] end.
Hypothesis Hcount : K <= N.of_nat (length adds).

Theorem ops_low_restores : forall i, i < K -> (forall s, ~ In (AddO i s) adds) ->
  nth (N.to_nat i) (decode_work junk ep' y) [] = syms_of_bytes (nth (N.to_nat i) originals []) /\
  bytes_of_syms (nth (N.to_nat i) (decode_work junk ep' y) []) = nth (N.to_nat i) originals [].
Proof.
  intros i Hi Hno.
  (* configuration *)
  assert (Hs : supportsb c K R = true /\ bad_size sb = false).
  { unfold validateb in Hval. destruct (supportsb c K R); cbn in Hval; [|discriminate]. destruct (bad_size sb); [discriminate|auto]. }
  destruct Hs as [Hs Hbs].
  assert (Hev : N.even sb = true).
  { unfold bad_size in Hbs. apply orb_false_iff in Hbs. destruct Hbs as [_ Ho]. rewrite <- N.negb_odd, Ho. reflexivity. }
  destruct (rate_env c K R Hs) as [Hlow _]. destruct (low_env K R (Hlow Hrate)) as (HK & HR & Henv).
  set (m := npow2 K) in *. pose proof (npow2_ge K) as HKm. fold m in HKm.
  set (lanes := N.to_nat (lanes_of sb)).
  (* the encoder *)
  assert (X0 : e_rate x0 = Low /\ e_engine x0 = ee /\ ew_K (e_work x0) = K /\ ew_R (e_work x0) = R /\ ew_sb (e_work x0) = sb /\
               ew_wc (e_work x0) = low_enc_work_count K R /\ ew_recv (e_work x0) = 0 /\ ew_mem (e_work x0) = mempty).
  { unfold enc_make in Hx0. rewrite Hval in Hx0. cbv zeta in Hx0. unfold encwork_reset in Hx0. cbv zeta in Hx0.
    inversion Hx0; subst x0. cbn. rewrite Hrate. repeat split; reflexivity. }
  destruct X0 as (X1 & X2 & X3 & X4 & X5 & X6 & X7 & X8).
  destruct (enc_add_all_mem originals x0 x Hx) as (E1 & E2 & E3 & E4 & E5 & E6 & E7 & E8).
  rewrite X7, N.add_0_l, Lorig in E7, E8.
  assert (Xorig : forall p, p < K -> mget (ew_mem (e_work x)) p = Some (syms_of_bytes (nth (N.to_nat p) originals []))).
  { intros p Hp. rewrite E8. assert ((0 <=? p) && (p <? K) = true) as -> by (apply andb_true_intro; split; [apply N.leb_le; lia|apply N.ltb_lt; exact Hp]).
    rewrite N.sub_0_r. reflexivity. }
  assert (Borig_nth : forall p, p < K -> byteshard sb (nth (N.to_nat p) originals [])).
  { intros p Hp. rewrite Forall_forall in Borig. apply Borig. apply nth_In. lia. }
  assert (Xmem : forall p s, mget (ew_mem (e_work x)) p = Some s -> length s = lanes /\ Forall W16 s).
  { intros p s. rewrite E8, X8. destruct ((0 <=? p) && (p <? K)) eqn:Ep.
    - apply andb_prop in Ep. destruct Ep as [_ Ep]. apply N.ltb_lt in Ep. intros [= <-]. rewrite N.sub_0_r.
      destruct (byteshard_syms sb _ Hev (Borig_nth p Ep)) as (A & B & _). split; assumption.
    - unfold mget, mempty. rewrite PositiveMap.gempty. discriminate. }
  (* the decoder *)
  pose proof (dec_adds_ok_inv adds y0 y Hy) as Hok. rewrite (dec_adds_spec adds y0 Hok) in Hy. inversion Hy as [Ey]. clear Hy.
  set (wd := d_work y0) in *.
  assert (Y0 : d_rate y0 = Low /\ dw_K wd = K /\ dw_R wd = R /\ dw_sb wd = sb /\ dw_obase wd = 0 /\ dw_rbase wd = m /\
               dw_wc wd = low_dec_work_count K R /\ dw_received wd = pempty /\ dw_mem wd = mempty /\ dw_orecv wd = 0 /\ dw_rrecv wd = 0).
  { unfold wd. unfold dec_make in Hy0. rewrite Hval in Hy0. cbv zeta in Hy0. unfold decwork_reset in Hy0. cbv zeta in Hy0.
    inversion Hy0; subst y0. cbn. rewrite Hrate. repeat split; reflexivity. }
  destruct Y0 as (Y1 & Y2 & Y3 & Y4 & Y5 & Y6 & Y7 & Y8 & Y9 & Y10 & Y11).
  destruct (apply_all_fields adds wd) as (F1 & F2 & F3 & F4 & F5 & F6).
  assert (Dy : d_work y = apply_all wd adds /\ d_rate y = Low /\ d_engine y = d_engine y0) by (rewrite <- Ey; cbn; auto).
  destruct Dy as (Dw & Dr & De).
  assert (Pos : forall a, In a adds -> match a with AddO i0 _ => add_pos wd a = i0 /\ i0 < K | AddR j _ => add_pos wd a = m + j /\ j < R end).
  { intros a Ha. destruct (all_ok_guard adds wd Hok a Ha) as [_ G]. destruct a; cbn [add_pos]; rewrite ?Y5, ?Y6, ?Y2, ?Y3 in *; split; try lia; assumption. }
  assert (Recv : forall p, pmem (dw_received (d_work y)) p = true -> exists a, In a adds /\ add_pos wd a = p).
  { intros p Hp. rewrite Dw, apply_all_recv, Y8 in Hp. unfold pmem at 1, pempty in Hp. rewrite PositiveMap.gempty in Hp. cbn [orb] in Hp.
    apply existsb_exists in Hp. destruct Hp as (a & Ha & E). apply N.eqb_eq in E. eauto. }
  assert (Shard_ok : forall a, In a adds -> byteshard sb (add_shard a)).
  { intros a Ha. destruct (all_ok_guard adds wd Hok a Ha) as [G1 G2]. rewrite Y4 in G1. split; [exact G1|].
    specialize (Hadds a Ha). destruct a as [i0 s|j s]; cbn [add_shard] in *; subst s.
    - rewrite Y2 in G2. apply (Borig_nth i0 G2).
    - (* a recovery shard: bytes of 16-bit symbols *)
      unfold encode_shards. rewrite E1, X1.
      set (rs := encode_low _ _ _ _ _).
      destruct (Nat.lt_ge_cases (N.to_nat j) (length (map bytes_of_syms rs))) as [Hlt|Hge].
      + rewrite (nth_map_lt _ []) by (rewrite map_length in Hlt; exact Hlt).
        apply unpack_pack.
        assert (Wrs : Forall (Forall W16) rs).
        { unfold rs. rewrite E5, X5. fold lanes. apply encode_low_W16.
          - apply (work_list_shape junk Hjunk). intros p s Hps. apply (Xmem p s Hps).
          - apply (work_list_shape junk Hjunk). intros p s Hps. apply (Xmem p s Hps). }
        rewrite Forall_forall in Wrs. apply Wrs. apply nth_In. rewrite map_length in Hlt. exact Hlt.
      + rewrite nth_overflow by exact Hge. constructor. }
  assert (Ymem : forall p s, mget (dw_mem (d_work y)) p = Some s -> length s = lanes /\ Forall W16 s).
  { intros p s Hps. rewrite Dw in Hps.
    destruct (existsb (fun a => add_pos wd a =? p) adds) eqn:Ex.
    - apply existsb_exists in Ex. destruct Ex as (a & Ha & E). apply N.eqb_eq in E. subst p.
      rewrite (apply_all_mem adds wd Hok a Ha) in Hps. inversion Hps; subst s.
      destruct (byteshard_syms sb _ Hev (Shard_ok a Ha)) as (A & B & _). split; assumption.
    - rewrite apply_all_mem_other in Hps.
      + rewrite Y9 in Hps. unfold mget, mempty in Hps. rewrite PositiveMap.gempty in Hps. discriminate.
      + intros a Ha E. assert (existsb (fun a0 => add_pos wd a0 =? p) adds = true) by (apply existsb_exists; exists a; split; [exact Ha|apply N.eqb_eq; exact E]). congruence. }
  (* apply the object-level theorem *)
  assert (Main : nth (N.to_nat i) (decode_work junk ep' y) [] = syms_of_bytes (nth (N.to_nat i) originals [])).
  { apply (machine_low_restores junk Hjunk ep ep' x y K R sb (fun p => syms_of_bytes (nth (N.to_nat p) originals [])) HK HR Henv);
      try (rewrite ?E1, ?E3, ?E4, ?E5, ?E6; assumption); try (rewrite Dw; assumption); try assumption.
    - rewrite Dw, F1. exact Y2.
    - rewrite Dw, F2. exact Y3.
    - rewrite Dw, F3. exact Y4.
    - rewrite Dw, F6. exact Y7.
    - intros i0 Hi0 Hr0. destruct (Recv i0 Hr0) as (a & Ha & Ep). specialize (Pos a Ha). specialize (Hadds a Ha).
      destruct a as [i1 s|j s]; destruct Pos as [P1 P2]; [|fold m in HKm; lia].
      rewrite P1 in Ep. subst i1. pose proof (apply_all_mem adds wd Hok _ Ha) as M. rewrite P1 in M. rewrite Dw, M. cbn [add_shard]. rewrite Hadds. reflexivity.
    - intros j Hj Hr0. fold m in Hr0 |- *. destruct (Recv (m + j) Hr0) as (a & Ha & Ep). specialize (Pos a Ha). specialize (Hadds a Ha).
      destruct a as [i1 s|j1 s]; destruct Pos as [P1 P2]; [lia|].
      assert (j1 = j) by lia. subst j1. pose proof (apply_all_mem adds wd Hok _ Ha) as M. rewrite P1 in M. rewrite Dw, M. cbn [add_shard]. rewrite Hadds. reflexivity.
    - (* enough distinct positions *)
      fold m. set (recv := pmem (dw_received (d_work y))).
      set (P := map (add_pos wd) adds). assert (ND : NoDup P) by (apply all_ok_nodup_pos; exact Hok).
      assert (HP : forall p, In p P -> recv p = true /\ (p < K \/ (m <= p /\ p < m + R))).
      { intros p Hp. apply in_map_iff in Hp. destruct Hp as (a & <- & Ha). split.
        - unfold recv. rewrite Dw, apply_all_recv. apply orb_true_intro. right. apply existsb_exists. exists a. split; [exact Ha|apply N.eqb_refl].
        - specialize (Pos a Ha). destruct a; destruct Pos as [P1 P2]; rewrite P1; [left; exact P2|right; lia]. }
      set (P1 := filter (fun p => p <? K) P). set (P2 := filter (fun p => negb (p <? K)) P).
      assert (L12 : (length P1 + length P2 = length P)%nat) by apply filter_len_compl.
      assert (C1 : (length P1 <= cnt recv 0 K)%nat).
      { apply cnt_ge; [apply NoDup_filter; exact ND|]. intros p Hp. apply filter_In in Hp. destruct Hp as [Hp Hlt]. apply N.ltb_lt in Hlt.
        destruct (HP p Hp) as [Hr _]. split; [lia|exact Hr]. }
      assert (C2 : (length P2 <= cnt recv m (m + R))%nat).
      { apply cnt_ge; [apply NoDup_filter; exact ND|]. intros p Hp. apply filter_In in Hp. destruct Hp as [Hp Hge]. apply negb_true_iff, N.ltb_ge in Hge.
        destruct (HP p Hp) as [Hr [Hlt|Hin]]; [lia|]. split; [lia|exact Hr]. }
      assert (LP : length P = length adds) by (unfold P; apply map_length). lia.
    - (* position i was not received *)
      destruct (pmem (dw_received (d_work y)) i) eqn:Er; [|reflexivity]. exfalso.
      destruct (Recv i Er) as (a & Ha & Ep). specialize (Pos a Ha). destruct a as [i1 s|j s]; destruct Pos as [P1 P2].
      + rewrite P1 in Ep. subst i1. apply (Hno s Ha).
      + fold m in HKm. lia. }
  rewrite ?Ey. split; [exact Main|]. rewrite Main. apply (byteshard_syms sb _ Hev (Borig_nth i Hi)).
Qed.

Theorem ops_low_decode probes : forall i, i < K -> (forall s, ~ In (AddO i s) adds) ->
  exists y' it pr, dec_decode junk ep' y probes = (y', RDec it pr) /\ In (i, nth (N.to_nat i) originals []) it.
Proof.
  intros i Hi Hno. destruct (ops_low_restores i Hi Hno) as [Main Bytes].
  assert (Hs : supportsb c K R = true).
  { unfold validateb in Hval. destruct (supportsb c K R); cbn in Hval; [reflexivity|discriminate]. }
  destruct (rate_env c K R Hs) as [Hlow _]. destruct (low_env K R (Hlow Hrate)) as (HK & HR & Henv).
  pose proof (npow2_ge K) as HKm.
  pose proof (dec_adds_ok_inv adds y0 y Hy) as Hok. pose proof Hy as Hy'. rewrite (dec_adds_spec adds y0 Hok) in Hy'. injection Hy' as Ey.
  set (wd := d_work y0) in *.
  assert (Y0 : d_rate y0 = Low /\ dw_K wd = K /\ dw_R wd = R /\ dw_sb wd = sb /\ dw_obase wd = 0 /\ dw_rbase wd = npow2 K /\
               dw_wc wd = low_dec_work_count K R /\ dw_received wd = pempty /\ dw_orecv wd = 0 /\ dw_rrecv wd = 0).
  { unfold wd. unfold dec_make in Hy0. rewrite Hval in Hy0. cbv zeta in Hy0. unfold decwork_reset in Hy0. cbv zeta in Hy0.
    inversion Hy0; subst y0. cbn. rewrite Hrate. repeat split; reflexivity. }
  destruct Y0 as (Y1 & Y2 & Y3 & Y4 & Y5 & Y6 & Y7 & Y8 & Y10 & Y11).
  destruct (apply_all_fields adds wd) as (F1 & F2 & F3 & F4 & F5 & F6).
  assert (Dw : d_work y = apply_all wd adds) by (rewrite <- Ey; reflexivity).
  assert (Dr : d_rate y = Low) by (rewrite <- Ey; exact Y1).
  (* counters *)
  pose proof (apply_all_counts adds wd Hok) as Cn. rewrite Y10, Y11 in Cn.
  pose proof (apply_all_orecv adds wd) as Co. rewrite Y10 in Co.
  pose proof (orig_adds_bound adds wd K i Hok Y2 Hi Hno) as Cb.
  (* the position was not received *)
  assert (Nr : pmem (dw_received (d_work y)) (dw_obase (d_work y) + i) = false).
  { rewrite Dw, F4, Y5, N.add_0_l, apply_all_recv, Y8. unfold pmem at 1, pempty. rewrite PositiveMap.gempty. cbn [orb].
    destruct (existsb (fun a => add_pos wd a =? i) adds) eqn:Ex; [|reflexivity]. exfalso.
    apply existsb_exists in Ex. destruct Ex as (a & Ha & E). apply N.eqb_eq in E.
    destruct (all_ok_guard adds wd Hok a Ha) as [_ G]. destruct a as [i1 s|j s]; cbn [add_pos] in E.
    - rewrite Y5 in E. assert (i1 = i) by lia. subst i1. apply (Hno s Ha).
    - rewrite Y6 in E. lia. }
  (* length of the output *)
  destruct (npow2_exp K HK ltac:(lia)) as (k & Hk & Hmk).
  destruct (npow2_exp (npow2 K + R) ltac:(lia) Henv) as (kn & Hkn & Hnk).
  assert (Lout : length (decode_work junk ep' y) = p2 kn).
  { unfold decode_work. rewrite Dr, Dw, F1, F2, F3, F6, Y2, Y3, Y4, Y7.
    assert (Ler : length (eval_poly (low_erasures K R (pmem (dw_received (apply_all wd adds)))) GF_ORDER) = N.to_nat 65536)
      by (apply (low_er_spec K R _ k Hmk)).
    apply decode_low_len; [exact Hkn| |exact Ler].
    rewrite (work_list_length junk Hjunk). unfold low_dec_work_count, np2. rewrite Hnk.
    apply Nat2N.inj. rewrite N2Nat.id, p2_N. reflexivity. }
  assert (Hlt : (N.to_nat i < p2 kn)%nat).
  { assert (i < N.of_nat (p2 kn)). { rewrite p2_N, <- Hnk. pose proof (npow2_ge (npow2 K + R)). lia. } lia. }
  unfold dec_decode. rewrite Dw, F1, Y2.
  assert ((dw_orecv (apply_all wd adds) + dw_rrecv (apply_all wd adds) <? K) = false) as -> by (apply N.ltb_ge; lia).
  assert ((dw_orecv (apply_all wd adds) =? K) = false) as -> by (apply N.eqb_neq; lia).
  rewrite <- Dw. eexists _, _, _. split; [reflexivity|].
  apply in_flat_map. exists i. split; [apply in_range_iff; lia|].
  assert ((i <? K) = true) as -> by (apply N.ltb_lt; exact Hi). rewrite Nr. cbn [negb andb].
  assert (Eo : dw_obase (d_work y) = 0) by (rewrite Dw, F4; exact Y5). rewrite Eo, N.add_0_l.
  rewrite (nth_error_nth' _ [] ltac:(rewrite Lout; exact Hlt)). cbn [option_map]. rewrite Bytes. left. reflexivity.
Qed.
End OpsLow.

(* ---------- the streaming API, high rate ---------- *)
Section OpsHigh.
Variable junk : N -> N -> N -> N.
Hypothesis Hjunk : forall a b c, junk a b c < 65536.
Variables (c : codec) (ee ed : engine) (K R sb ep ep' : N) (originals : list bytes).
Hypothesis Hval : validateb c K R sb = None.
Hypothesis Hrate : rate_of c K R = High.
Hypothesis Lorig : N.of_nat (length originals) = K.
Hypothesis Borig : Forall (byteshard sb) originals.
Variables (w0 : encwork) (x0 x : encoder) (a0 : bool).
Hypothesis Hx0 : enc_make c ee K R sb w0 = inl (x0, a0).
Hypothesis Hx : enc_add_all x0 originals = inl x.
Variables (v0 : decwork) (y0 y : decoder) (b0 : bool) (adds : list add).
Hypothesis Hy0 : dec_make c ed K R sb v0 = inl (y0, b0).
Hypothesis Hy : dec_adds y0 adds = inl y.
Hypothesis Hadds : forall a, In a adds ->
  match a with AddO i s => s = nth (N.to_nat i) originals [] | AddR j s => s = nth (N.to_nat j) (encode_shards junk ep x) [] end.
Hypothesis Hcount : K <= N.of_nat (length adds).

Theorem ops_high_restores : forall i, i < K -> (forall s, ~ In (AddO i s) adds) ->
  nth (N.to_nat (npow2 R + i)) (decode_work junk ep' y) [] = syms_of_bytes (nth (N.to_nat i) originals []) /\
  bytes_of_syms (nth (N.to_nat (npow2 R + i)) (decode_work junk ep' y) []) = nth (N.to_nat i) originals [].
Proof.
  intros i Hi Hno.
  (* configuration *)
  assert (Hs : supportsb c K R = true /\ bad_size sb = false).
  { unfold validateb in Hval. destruct (supportsb c K R); cbn in Hval; [|discriminate]. destruct (bad_size sb); [discriminate|auto]. }
  destruct Hs as [Hs Hbs].
  assert (Hev : N.even sb = true).
  { unfold bad_size in Hbs. apply orb_false_iff in Hbs. destruct Hbs as [_ Ho]. rewrite <- N.negb_odd, Ho. reflexivity. }
  destruct (rate_env c K R Hs) as [_ Hhigh]. destruct (high_env K R (Hhigh Hrate)) as (HK & HR & Henv).
  set (m := npow2 R) in *. pose proof (npow2_ge R) as HRm. fold m in HRm.
  set (lanes := N.to_nat (lanes_of sb)).
  (* the encoder *)
  assert (X0 : e_rate x0 = High /\ e_engine x0 = ee /\ ew_K (e_work x0) = K /\ ew_R (e_work x0) = R /\ ew_sb (e_work x0) = sb /\
               ew_wc (e_work x0) = high_enc_work_count K R /\ ew_recv (e_work x0) = 0 /\ ew_mem (e_work x0) = mempty).
  { unfold enc_make in Hx0. rewrite Hval in Hx0. cbv zeta in Hx0. unfold encwork_reset in Hx0. cbv zeta in Hx0.
    inversion Hx0; subst x0. cbn. rewrite Hrate. repeat split; reflexivity. }
  destruct X0 as (X1 & X2 & X3 & X4 & X5 & X6 & X7 & X8).
  destruct (enc_add_all_mem originals x0 x Hx) as (E1 & E2 & E3 & E4 & E5 & E6 & E7 & E8).
  rewrite X7, N.add_0_l, Lorig in E7, E8.
  assert (Xorig : forall p, p < K -> mget (ew_mem (e_work x)) p = Some (syms_of_bytes (nth (N.to_nat p) originals []))).
  { intros p Hp. rewrite E8. assert ((0 <=? p) && (p <? K) = true) as -> by (apply andb_true_intro; split; [apply N.leb_le; lia|apply N.ltb_lt; exact Hp]).
    rewrite N.sub_0_r. reflexivity. }
  assert (Borig_nth : forall p, p < K -> byteshard sb (nth (N.to_nat p) originals [])).
  { intros p Hp. rewrite Forall_forall in Borig. apply Borig. apply nth_In. lia. }
  assert (Xmem : forall p s, mget (ew_mem (e_work x)) p = Some s -> length s = lanes /\ Forall W16 s).
  { intros p s. rewrite E8, X8. destruct ((0 <=? p) && (p <? K)) eqn:Ep.
    - apply andb_prop in Ep. destruct Ep as [_ Ep]. apply N.ltb_lt in Ep. intros [= <-]. rewrite N.sub_0_r.
      destruct (byteshard_syms sb _ Hev (Borig_nth p Ep)) as (A & B & _). split; assumption.
    - unfold mget, mempty. rewrite PositiveMap.gempty. discriminate. }
  (* the decoder *)
  pose proof (dec_adds_ok_inv adds y0 y Hy) as Hok. rewrite (dec_adds_spec adds y0 Hok) in Hy. inversion Hy as [Ey]. clear Hy.
  set (wd := d_work y0) in *.
  assert (Y0 : d_rate y0 = High /\ dw_K wd = K /\ dw_R wd = R /\ dw_sb wd = sb /\ dw_obase wd = m /\ dw_rbase wd = 0 /\
               dw_wc wd = high_dec_work_count K R /\ dw_received wd = pempty /\ dw_mem wd = mempty /\ dw_orecv wd = 0 /\ dw_rrecv wd = 0).
  { unfold wd. unfold dec_make in Hy0. rewrite Hval in Hy0. cbv zeta in Hy0. unfold decwork_reset in Hy0. cbv zeta in Hy0.
    inversion Hy0; subst y0. cbn. rewrite Hrate. repeat split; reflexivity. }
  destruct Y0 as (Y1 & Y2 & Y3 & Y4 & Y5 & Y6 & Y7 & Y8 & Y9 & Y10 & Y11).
  destruct (apply_all_fields adds wd) as (F1 & F2 & F3 & F4 & F5 & F6).
  assert (Dy : d_work y = apply_all wd adds /\ d_rate y = High /\ d_engine y = d_engine y0) by (rewrite <- Ey; cbn; auto).
  destruct Dy as (Dw & Dr & De).
  assert (Pos : forall a, In a adds -> match a with AddO i0 _ => add_pos wd a = m + i0 /\ i0 < K | AddR j _ => add_pos wd a = j /\ j < R end).
  { intros a Ha. destruct (all_ok_guard adds wd Hok a Ha) as [_ G]. destruct a; cbn [add_pos]; rewrite ?Y5, ?Y6, ?Y2, ?Y3 in *; split; try lia; assumption. }
  assert (Recv : forall p, pmem (dw_received (d_work y)) p = true -> exists a, In a adds /\ add_pos wd a = p).
  { intros p Hp. rewrite Dw, apply_all_recv, Y8 in Hp. unfold pmem at 1, pempty in Hp. rewrite PositiveMap.gempty in Hp. cbn [orb] in Hp.
    apply existsb_exists in Hp. destruct Hp as (a & Ha & E). apply N.eqb_eq in E. eauto. }
  assert (Shard_ok : forall a, In a adds -> byteshard sb (add_shard a)).
  { intros a Ha. destruct (all_ok_guard adds wd Hok a Ha) as [G1 G2]. rewrite Y4 in G1. split; [exact G1|].
    specialize (Hadds a Ha). destruct a as [i0 s|j s]; cbn [add_shard] in *; subst s.
    - rewrite Y2 in G2. apply (Borig_nth i0 G2).
    - (* a recovery shard: bytes of 16-bit symbols *)
      unfold encode_shards. rewrite E1, X1.
      set (rs := encode_high _ _ _ _ _).
      destruct (Nat.lt_ge_cases (N.to_nat j) (length (map bytes_of_syms rs))) as [Hlt|Hge].
      + rewrite (nth_map_lt _ []) by (rewrite map_length in Hlt; exact Hlt).
        apply unpack_pack.
        assert (Wrs : Forall (Forall W16) rs).
        { unfold rs. rewrite E5, X5. fold lanes. apply encode_high_W16.
          - apply (work_list_shape junk Hjunk). intros p s Hps. apply (Xmem p s Hps).
          - apply (work_list_shape junk Hjunk). intros p s Hps. apply (Xmem p s Hps). }
        rewrite Forall_forall in Wrs. apply Wrs. apply nth_In. rewrite map_length in Hlt. exact Hlt.
      + rewrite nth_overflow by exact Hge. constructor. }
  assert (Ymem : forall p s, mget (dw_mem (d_work y)) p = Some s -> length s = lanes /\ Forall W16 s).
  { intros p s Hps. rewrite Dw in Hps.
    destruct (existsb (fun a => add_pos wd a =? p) adds) eqn:Ex.
    - apply existsb_exists in Ex. destruct Ex as (a & Ha & E). apply N.eqb_eq in E. subst p.
      rewrite (apply_all_mem adds wd Hok a Ha) in Hps. inversion Hps; subst s.
      destruct (byteshard_syms sb _ Hev (Shard_ok a Ha)) as (A & B & _). split; assumption.
    - rewrite apply_all_mem_other in Hps.
      + rewrite Y9 in Hps. unfold mget, mempty in Hps. rewrite PositiveMap.gempty in Hps. discriminate.
      + intros a Ha E. assert (existsb (fun a0 => add_pos wd a0 =? p) adds = true) by (apply existsb_exists; exists a; split; [exact Ha|apply N.eqb_eq; exact E]). congruence. }
  (* apply the object-level theorem *)
  assert (Main : nth (N.to_nat (m + i)) (decode_work junk ep' y) [] = syms_of_bytes (nth (N.to_nat i) originals [])).
  { apply (machine_high_restores junk Hjunk ep ep' x y K R sb (fun p => syms_of_bytes (nth (N.to_nat p) originals [])) HK HR Henv);
      try (rewrite ?E1, ?E3, ?E4, ?E5, ?E6; assumption); try (rewrite Dw; assumption); try assumption.
    - rewrite Dw, F1. exact Y2.
    - rewrite Dw, F2. exact Y3.
    - rewrite Dw, F3. exact Y4.
    - rewrite Dw, F6. exact Y7.
    - intros i0 Hi0 Hr0. fold m in Hr0 |- *. destruct (Recv (m + i0) Hr0) as (a & Ha & Ep). specialize (Pos a Ha). specialize (Hadds a Ha).
      destruct a as [i1 s|j s]; destruct Pos as [P1 P2]; [|lia].
      assert (i1 = i0) by lia. subst i1. pose proof (apply_all_mem adds wd Hok _ Ha) as M. rewrite P1 in M. rewrite Dw, M. cbn [add_shard]. rewrite Hadds. reflexivity.
    - intros j Hj Hr0. destruct (Recv j Hr0) as (a & Ha & Ep). specialize (Pos a Ha). specialize (Hadds a Ha).
      destruct a as [i1 s|j1 s]; destruct Pos as [P1 P2]; [lia|].
      rewrite P1 in Ep. subst j1. pose proof (apply_all_mem adds wd Hok _ Ha) as M. rewrite P1 in M. rewrite Dw, M. cbn [add_shard]. rewrite Hadds. reflexivity.
    - fold m. set (recv := pmem (dw_received (d_work y))).
      set (P := map (add_pos wd) adds). assert (ND : NoDup P) by (apply all_ok_nodup_pos; exact Hok).
      assert (HP : forall p, In p P -> recv p = true /\ (p < R \/ (m <= p /\ p < m + K))).
      { intros p Hp. apply in_map_iff in Hp. destruct Hp as (a & <- & Ha). split.
        - unfold recv. rewrite Dw, apply_all_recv. apply orb_true_intro. right. apply existsb_exists. exists a. split; [exact Ha|apply N.eqb_refl].
        - specialize (Pos a Ha). destruct a; destruct Pos as [P1 P2]; rewrite P1; [right; lia|left; exact P2]. }
      set (P1 := filter (fun p => p <? m) P). set (P2 := filter (fun p => negb (p <? m)) P).
      assert (L12 : (length P1 + length P2 = length P)%nat) by apply filter_len_compl.
      assert (C1 : (length P1 <= cnt recv 0 R)%nat).
      { apply cnt_ge; [apply NoDup_filter; exact ND|]. intros p Hp. apply filter_In in Hp. destruct Hp as [Hp Hlt]. apply N.ltb_lt in Hlt.
        destruct (HP p Hp) as [Hr [Hl|Hin]]; [split; [lia|exact Hr]|lia]. }
      assert (C2 : (length P2 <= cnt recv m (m + K))%nat).
      { apply cnt_ge; [apply NoDup_filter; exact ND|]. intros p Hp. apply filter_In in Hp. destruct Hp as [Hp Hge]. apply negb_true_iff, N.ltb_ge in Hge.
        destruct (HP p Hp) as [Hr [Hlt|Hin]]; [lia|]. split; [lia|exact Hr]. }
      assert (LP : length P = length adds) by (unfold P; apply map_length). lia.
    - fold m. destruct (pmem (dw_received (d_work y)) (m + i)) eqn:Er; [|reflexivity]. exfalso.
      destruct (Recv (m + i) Er) as (a & Ha & Ep). specialize (Pos a Ha). destruct a as [i1 s|j s]; destruct Pos as [P1 P2].
      + assert (i1 = i) by lia. subst i1. apply (Hno s Ha).
      + lia. }
  rewrite ?Ey. fold m. split; [exact Main|]. rewrite Main. apply (byteshard_syms sb _ Hev (Borig_nth i Hi)).
Qed.

Theorem ops_high_decode probes : forall i, i < K -> (forall s, ~ In (AddO i s) adds) ->
  exists y' it pr, dec_decode junk ep' y probes = (y', RDec it pr) /\ In (i, nth (N.to_nat i) originals []) it.
Proof.
  intros i Hi Hno. destruct (ops_high_restores i Hi Hno) as [Main Bytes].
  assert (Hs : supportsb c K R = true).
  { unfold validateb in Hval. destruct (supportsb c K R); cbn in Hval; [reflexivity|discriminate]. }
  destruct (rate_env c K R Hs) as [_ Hhigh]. destruct (high_env K R (Hhigh Hrate)) as (HK & HR & Henv).
  pose proof (npow2_ge R) as HRm.
  pose proof (dec_adds_ok_inv adds y0 y Hy) as Hok. pose proof Hy as Hy'. rewrite (dec_adds_spec adds y0 Hok) in Hy'. injection Hy' as Ey.
  set (wd := d_work y0) in *.
  assert (Y0 : d_rate y0 = High /\ dw_K wd = K /\ dw_R wd = R /\ dw_sb wd = sb /\ dw_obase wd = npow2 R /\ dw_rbase wd = 0 /\
               dw_wc wd = high_dec_work_count K R /\ dw_received wd = pempty /\ dw_orecv wd = 0 /\ dw_rrecv wd = 0).
  { unfold wd. unfold dec_make in Hy0. rewrite Hval in Hy0. cbv zeta in Hy0. unfold decwork_reset in Hy0. cbv zeta in Hy0.
    inversion Hy0; subst y0. cbn. rewrite Hrate. repeat split; reflexivity. }
  destruct Y0 as (Y1 & Y2 & Y3 & Y4 & Y5 & Y6 & Y7 & Y8 & Y10 & Y11).
  destruct (apply_all_fields adds wd) as (F1 & F2 & F3 & F4 & F5 & F6).
  assert (Dw : d_work y = apply_all wd adds) by (rewrite <- Ey; reflexivity).
  assert (Dr : d_rate y = High) by (rewrite <- Ey; exact Y1).
  pose proof (apply_all_counts adds wd Hok) as Cn. rewrite Y10, Y11 in Cn.
  pose proof (apply_all_orecv adds wd) as Co. rewrite Y10 in Co.
  pose proof (orig_adds_bound adds wd K i Hok Y2 Hi Hno) as Cb.
  assert (Eo : dw_obase (d_work y) = npow2 R) by (rewrite Dw, F4; exact Y5).
  assert (Nr : pmem (dw_received (d_work y)) (npow2 R + i) = false).
  { rewrite Dw, apply_all_recv, Y8. unfold pmem at 1, pempty. rewrite PositiveMap.gempty. cbn [orb].
    destruct (existsb (fun a => add_pos wd a =? npow2 R + i) adds) eqn:Ex; [|reflexivity]. exfalso.
    apply existsb_exists in Ex. destruct Ex as (a & Ha & E). apply N.eqb_eq in E.
    destruct (all_ok_guard adds wd Hok a Ha) as [_ G]. destruct a as [i1 s|j s]; cbn [add_pos] in E.
    - rewrite Y5 in E. assert (i1 = i) by lia. subst i1. apply (Hno s Ha).
    - rewrite Y6 in E. rewrite Y3 in G. lia. }
  destruct (npow2_exp R HR ltac:(lia)) as (k & Hk & Hmk).
  destruct (npow2_exp (npow2 R + K) ltac:(lia) Henv) as (kn & Hkn & Hnk).
  assert (Lout : length (decode_work junk ep' y) = p2 kn).
  { unfold decode_work. rewrite Dr, Dw, F1, F2, F3, F6, Y2, Y3, Y4, Y7.
    assert (Ler : length (eval_poly (high_erasures K R (pmem (dw_received (apply_all wd adds)))) (np2 R + K)) = N.to_nat 65536).
    { unfold np2. rewrite Hmk. apply (high_er_spec K R _ k Hmk). rewrite <- Hmk. exact Henv. }
    apply decode_high_len; [exact Hkn| |exact Ler].
    rewrite (work_list_length junk Hjunk). unfold high_dec_work_count, np2. rewrite Hnk.
    apply Nat2N.inj. rewrite N2Nat.id, p2_N. reflexivity. }
  assert (Hlt : (N.to_nat (npow2 R + i) < p2 kn)%nat).
  { assert (npow2 R + i < N.of_nat (p2 kn)). { rewrite p2_N, <- Hnk. pose proof (npow2_ge (npow2 R + K)). lia. } lia. }
  unfold dec_decode. rewrite Dw, F1, Y2.
  assert ((dw_orecv (apply_all wd adds) + dw_rrecv (apply_all wd adds) <? K) = false) as -> by (apply N.ltb_ge; lia).
  assert ((dw_orecv (apply_all wd adds) =? K) = false) as -> by (apply N.eqb_neq; lia).
  rewrite <- Dw. eexists _, _, _. split; [reflexivity|].
  apply in_flat_map. exists i. split; [apply in_range_iff; lia|].
  assert ((i <? K) = true) as -> by (apply N.ltb_lt; exact Hi). rewrite Eo, Nr. cbn [negb andb].
  rewrite (nth_error_nth' _ [] ltac:(rewrite Lout; exact Hlt)). cbn [option_map]. rewrite Bytes. left. reflexivity.
Qed.
End OpsHigh.
