(* C09 — the default codec is the rate fixed by the selection rule. *)
From Coq Require Import NArith Bool List.
From RS.Gen Require Import Prelude GenConsts GenRate.
From RS.Model Require Import Field Codec Machine Spec.
From RS.Proofs Require Import RateFacts.
Local Open Scope N_scope.

(* the rule of the property statement: high rate iff npow2(K) > npow2(R), or they
   are equal and K <= R *)
Check (eq_refl : rule_high =
  fun K R => (npow2 R <? npow2 K) || ((npow2 K =? npow2 R) && (K <=? R))).

(* translated use_high_rate: inside the envelope it returns exactly the rule, outside
   it returns UnsupportedShardCount; it depends on nothing but (K, R); no overflow *)
Theorem C09_rule : forall K R,
  (envelope K R -> use_high_rate K R = Val (ROk (rule_high K R))) /\
  (~ envelope K R -> use_high_rate K R = Val (RErr (UnsupportedShardCount K R))).
Proof.
  intros K R. rewrite use_high_rate_gen. rewrite <- default_supportsb_env. unfold default_supportsb.
  destruct (use_high_rateb K R) as [b|] eqn:E; cbn [rres_of].
  - split; [intros _; f_equal; f_equal; apply use_high_rate_rule; exact E | intros H; exfalso; apply H; reflexivity].
  - split; [discriminate | reflexivity].
Qed.
Print Assumptions C09_rule.

(* the model's default codec runs a configuration with the rate of the rule, whatever
   happened before (rate_of is a function of the current configuration only), and
   the dedicated codecs with their own *)
Theorem C09_rate_of : forall K R, envelope K R ->
  rate_of CDef K R = (if rule_high K R then High else Low) /\
  rate_of CRs K R = rate_of CDef K R /\ rate_of CHigh K R = High /\ rate_of CLow K R = Low.
Proof.
  intros K R H. apply default_supportsb_env in H. unfold default_supportsb in H.
  unfold rate_of. destruct (use_high_rateb K R) as [b|] eqn:E; [|discriminate].
  rewrite (use_high_rate_rule K R b E). destruct (rule_high K R); repeat split.
Qed.
Print Assumptions C09_rate_of.

(* the chosen dedicated rate supports the configuration (so default = dedicated is well defined) *)
Theorem C09_chosen_supported : forall K R, envelope K R ->
  if rule_high K R then high_supportsb K R = true else low_supportsb K R = true.
Proof.
  intros K R H. apply default_supportsb_env in H. unfold default_supportsb in H.
  destruct (use_high_rateb K R) as [b|] eqn:E; [|discriminate].
  pose proof (use_high_rate_rule K R b E) as Hb. destruct (chosen_rate_supports K R) as [H1 H2].
  rewrite <- Hb. destruct b; auto.
Qed.
Print Assumptions C09_chosen_supported.

Example C09_ties :
  rule_high 3 2 = true /\ rule_high 2 3 = false /\ rule_high 3 3 = true /\ rule_high 4 3 = false /\
  rule_high 3 4 = true /\ rule_high 32768 32768 = true /\ rule_high 61440 4096 = true /\ rule_high 4096 61440 = false.
Proof. vm_compute. repeat split. Qed.
