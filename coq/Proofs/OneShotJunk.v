(* C05 for the one-shot functions and for operation sequences that contain them: encode() and
   decode() build their codec on fresh working space, so their results depend on nothing but the
   arguments - not on the stale memory behind unwritten positions, not on the epoch. With this the
   history theorems of Junk.v / Hist.v hold for EVERY operation sequence of the machine. *)
From Coq Require Import NArith Arith Lia Bool List FMapPositive.
From RS.Gen Require Import Prelude GenConsts.
From RS.Model Require Import Field Tables Sched Codec Layout Machine.
From RS.Proofs Require Import PermFacts Junk Hist.
Import ListNotations.
Local Open Scope N_scope.

Lemma enc_add_all_inv : forall l x x', enc_inv (e_work x) -> enc_add_all x l = inl x' -> enc_inv (e_work x').
Proof.
  induction l as [|s l IH]; intros x x' Hi H; cbn in H; [inversion H; subst; exact Hi|].
  destruct (enc_add x s) as [x1|e] eqn:E; [|discriminate]. apply (IH x1 x' (enc_add_inv x s x1 Hi E) H).
Qed.
Lemma dec_add_all_inv orig : forall l x x', dec_inv (d_work x) -> dec_add_all orig x l = inl x' -> dec_inv (d_work x').
Proof.
  induction l as [|[i s] l IH]; intros x x' Hi H; cbn [dec_add_all] in H; [inversion H; subst; exact Hi|].
  destruct orig.
  - destruct (dec_add_original x i s) as [x1|e] eqn:E; [|discriminate]. apply (IH x1 x' (dec_add_original_inv x i s x1 Hi E) H).
  - destruct (dec_add_recovery x i s) as [x1|e] eqn:E; [|discriminate]. apply (IH x1 x' (dec_add_recovery_inv x i s x1 Hi E) H).
Qed.

Theorem oneshot_encode_junk junk1 junk2 ep1 ep2 K R shards :
  oneshot_encode junk1 ep1 K R shards = oneshot_encode junk2 ep2 K R shards.
Proof.
  unfold oneshot_encode. destruct (negb (default_supportsb K R)); [reflexivity|].
  destruct shards as [|first rest]; [reflexivity|].
  destruct (enc_make CRs DefaultE K R (blen first) encwork_new) as [[x a]|e] eqn:Em; [|reflexivity].
  destruct (enc_add_all x (first :: rest)) as [x'|e] eqn:Ea; [|reflexivity].
  rewrite (enc_encode_junk junk1 junk2 ep1 ep2 x' [] (enc_add_all_inv _ _ _ (enc_make_inv _ _ _ _ _ _ _ _ Em) Ea)). reflexivity.
Qed.

Theorem oneshot_decode_junk junk1 junk2 ep1 ep2 K R orig rec :
  oneshot_decode junk1 ep1 K R orig rec = oneshot_decode junk2 ep2 K R orig rec.
Proof.
  unfold oneshot_decode. destruct (negb (default_supportsb K R)); [reflexivity|].
  destruct (match rec with (_, s) :: _ => Some (blen s) | [] => match orig with (_, s) :: _ => Some (blen s) | [] => None end end) as [sb|]; [|reflexivity].
  destruct (dec_make CRs DefaultE K R sb decwork_new) as [[x a]|e] eqn:Em; [|reflexivity].
  destruct (dec_add_all true x orig) as [x1|e] eqn:E1; [|reflexivity].
  destruct (dec_add_all false x1 rec) as [x2|e] eqn:E2; [|reflexivity].
  rewrite (dec_decode_junk junk1 junk2 ep1 ep2 x2 []
             (dec_add_all_inv false _ _ _ (dec_add_all_inv true _ _ _ (dec_make_inv _ _ _ _ _ _ _ _ Em) E1) E2)).
  reflexivity.
Qed.

(* every step, one-shot calls included, is independent of the stale memory *)
Theorem step_junk_all junk1 junk2 s o : Inv s -> step junk1 s o = step junk2 s o.
Proof.
  intros Hs. destruct (uses_oneshot o) eqn:Ho; [|apply step_junk; assumption].
  destruct o; try discriminate Ho; unfold step.
  - rewrite (oneshot_encode_junk junk1 junk2 (s_epoch s) (s_epoch s)). reflexivity.
  - rewrite (oneshot_decode_junk junk1 junk2 (s_epoch s) (s_epoch s)). reflexivity.
Qed.

Theorem run_junk_all junk1 junk2 ops : forall s, Inv s -> run junk1 s ops = run junk2 s ops.
Proof.
  intros s Hs. unfold run.
  assert (G : forall acc s, Inv s ->
     fold_left (fun '(s, acc) o => let '(s', r) := step junk1 s o in (s', acc ++ [r])) ops (s, acc) =
     fold_left (fun '(s, acc) o => let '(s', r) := step junk2 s o in (s', acc ++ [r])) ops (s, acc)).
  { clear s Hs. induction ops as [|o ops IH]; intros acc s Hs; [reflexivity|].
    cbn [fold_left]. rewrite (step_junk_all junk1 junk2 s o Hs).
    destruct (step junk2 s o) as [s' r] eqn:E. apply IH.
    pose proof (step_Inv junk2 s o Hs) as Hi. rewrite E in Hi. exact Hi. }
  apply G, Hs.
Qed.

Lemma sim_bump s t : sim s t -> sim (bump s) (bump t).
Proof. intros H. exact H. Qed.

Theorem step_sim_all junk s t o : sim s t -> Inv s -> Inv t ->
  snd (step junk s o) = snd (step junk t o) /\ sim (fst (step junk s o)) (fst (step junk t o)).
Proof.
  intros Hst Hs Ht. destruct (uses_oneshot o) eqn:Ho; [|apply step_sim; assumption].
  assert (Hst' : sim (noalloc s) (noalloc t)) by exact Hst.
  destruct o; try discriminate Ho; unfold step; set (s' := noalloc s) in *; set (t' := noalloc t) in *.
  - rewrite (oneshot_encode_junk junk junk (s_epoch s') (s_epoch t')).
    destruct (oneshot_encode junk (s_epoch t') K R shards); cbn [fst snd]; (split; [reflexivity|first [exact Hst'|apply sim_bump; exact Hst']]).
  - rewrite (oneshot_decode_junk junk junk (s_epoch s') (s_epoch t')).
    destruct (oneshot_decode junk (s_epoch t') K R orig rec); cbn [fst snd]; (split; [reflexivity|first [exact Hst'|apply sim_bump; exact Hst']]).
Qed.

Theorem run_sim_all junk1 junk2 ops :
  forall s t, sim s t -> Inv s -> Inv t -> snd (run junk1 s ops) = snd (run junk2 t ops).
Proof.
  intros s t Hst Hs Ht. rewrite (run_junk_all junk1 junk2 ops s Hs). unfold run.
  assert (G : forall acc s t, sim s t -> Inv s -> Inv t ->
     snd (fold_left (fun '(s, acc) o => let '(s', r) := step junk2 s o in (s', acc ++ [r])) ops (s, acc)) =
     snd (fold_left (fun '(s, acc) o => let '(s', r) := step junk2 s o in (s', acc ++ [r])) ops (t, acc))).
  { clear s t Hst Hs Ht. induction ops as [|o ops IH]; intros acc s t Hst Hs Ht; [reflexivity|].
    cbn [fold_left]. destruct (step_sim_all junk2 s t o Hst Hs Ht) as [Hr Hsim].
    pose proof (step_Inv junk2 s o Hs) as Is. pose proof (step_Inv junk2 t o Ht) as It.
    destruct (step junk2 s o) as [s' r]. destruct (step junk2 t o) as [t' r']. cbn [fst snd] in *. subst r'.
    apply IH; assumption. }
  apply G; assumption.
Qed.
