(* C10: every error of the one-shot decode() describes a precondition the input really violates
   (membership in Admissible.adm_onedec), for all argument tuples. *)
From Coq Require Import NArith Arith Lia Bool List FMapPositive.
From RS.Gen Require Import Prelude GenConsts.
From RS.Model Require Import Field Tables Sched Codec Layout Machine Admissible.
From RS.Proofs Require Import RateFacts MachineFacts PermFacts.
Import ListNotations.
Local Open Scope N_scope.

Section OneDec.
Variables (K R sb obase rbase : N).
Hypothesis disj : forall i j, i < K -> j < R -> obase + i <> rbase + j.

Definition Inv (x : decoder) (d_o d_r : list N) : Prop :=
  let w := d_work x in
  dw_K w = K /\ dw_R w = R /\ dw_sb w = sb /\ dw_obase w = obase /\ dw_rbase w = rbase /\
  (forall p, pmem (dw_received w) p = true <->
     (exists i, In i d_o /\ p = obase + i) \/ (exists j, In j d_r /\ p = rbase + j)) /\
  dw_orecv w = N.of_nat (length d_o) /\ dw_rrecv w = N.of_nat (length d_r) /\
  Forall (fun i => i < K) d_o /\ Forall (fun j => j < R) d_r.

Lemma existsb_in i l : existsb (N.eqb i) l = true <-> In i l.
Proof. rewrite existsb_exists. split; [intros (y & Hy & E); apply N.eqb_eq in E; subst; exact Hy|intros H; exists i; split; [exact H|apply N.eqb_refl]]. Qed.
Lemma existsb_notin i l : ~ In i l -> existsb (N.eqb i) l = false.
Proof. intros H. destruct (existsb (N.eqb i) l) eqn:E; [|reflexivity]. apply existsb_in in E. contradiction. Qed.

Definition errs_o (d_o : list N) (l : list (N * bytes)) : list error :=
  map (fun p => InvalidOriginalShardIndex K (fst p)) (filter (fun p => K <=? fst p) l) ++
  dup_errors DuplicateOriginalShardIndex d_o (filter (fun p => fst p <? K) l) ++
  flat_map (fun p => adm_len sb (snd p)) l.
Definition errs_r (d_r : list N) (l : list (N * bytes)) : list error :=
  map (fun p => InvalidRecoveryShardIndex R (fst p)) (filter (fun p => R <=? fst p) l) ++
  dup_errors DuplicateRecoveryShardIndex d_r (filter (fun p => fst p <? R) l) ++
  flat_map (fun p => adm_len sb (snd p)) l.

Lemma errs_o_cons_ok d_o i s l : i < K -> ~ In i d_o -> blen s = sb ->
  forall e, In e (errs_o (i :: d_o) l) -> In e (errs_o d_o ((i, s) :: l)).
Proof.
  intros Hi Hn Hs e. unfold errs_o. cbn [filter fst snd flat_map].
  assert ((K <=? i) = false) as -> by (apply N.leb_gt; exact Hi).
  assert ((i <? K) = true) as -> by (apply N.ltb_lt; exact Hi).
  cbn [dup_errors]. rewrite (existsb_notin i d_o Hn).
  unfold adm_len at 2. rewrite Hs, N.eqb_refl. cbn [negb app]. tauto.
Qed.
Lemma errs_r_cons_ok d_r j s l : j < R -> ~ In j d_r -> blen s = sb ->
  forall e, In e (errs_r (j :: d_r) l) -> In e (errs_r d_r ((j, s) :: l)).
Proof.
  intros Hi Hn Hs e. unfold errs_r. cbn [filter fst snd flat_map].
  assert ((R <=? j) = false) as -> by (apply N.leb_gt; exact Hi).
  assert ((j <? R) = true) as -> by (apply N.ltb_lt; exact Hi).
  cbn [dup_errors]. rewrite (existsb_notin j d_r Hn).
  unfold adm_len at 2. rewrite Hs, N.eqb_refl. cbn [negb app]. tauto.
Qed.

Lemma add_all_o : forall l x d_o, Inv x d_o [] ->
  match dec_add_all true x l with
  | inr e => In e (errs_o d_o l)
  | inl x' => exists d', Inv x' d' [] /\ distinct_ok sb K d_o l + N.of_nat (length d_o) = N.of_nat (length d')
  end.
Proof.
  induction l as [|[i s] l IH]; intros x d_o HI.
  - cbn. exists d_o. split; [exact HI|reflexivity].
  - cbn [dec_add_all]. destruct HI as (HK & HR & Hsb & Hob & Hrb & Hrecv & Hoc & Hrc & Fo & Fr).
    unfold dec_add_original. rewrite HK, Hob, Hsb.
    destruct (N.leb_spec K i) as [Hge|Hlt].
    + unfold errs_o. cbn [filter fst]. assert ((K <=? i) = true) as -> by (apply N.leb_le; exact Hge). cbn. left. reflexivity.
    + destruct (pmem (dw_received (d_work x)) (obase + i)) eqn:Ep.
      * apply Hrecv in Ep. destruct Ep as [(i' & Hi' & E)|(j & Hj & _)]; [|destruct Hj].
        assert (i' = i) by lia. subst i'. unfold errs_o. cbn [filter fst].
        assert ((K <=? i) = false) as -> by (apply N.leb_gt; exact Hlt).
        assert ((i <? K) = true) as -> by (apply N.ltb_lt; exact Hlt).
        cbn [dup_errors]. assert (existsb (N.eqb i) d_o = true) as -> by (apply existsb_in; exact Hi').
        apply in_or_app. right. apply in_or_app. left. left. reflexivity.
      * destruct (N.eqb_spec (blen s) sb) as [Es|Es]; cbn [negb].
        -- (* success *)
           set (x' := with_dwork x (dw_insert (d_work x) (obase + i) s true)).
           assert (Hn : ~ In i d_o).
           { intros Hin. assert (pmem (dw_received (d_work x)) (obase + i) = true) by (apply Hrecv; left; exists i; auto). congruence. }
           assert (HI' : Inv x' (i :: d_o) []).
           { unfold Inv, x'. cbn. repeat split; try assumption.
             - rewrite pmem_padd. intros Hp. apply orb_prop in Hp. destruct Hp as [Hp|Hp].
               + apply N.eqb_eq in Hp. left. exists i. split; [left; reflexivity|exact Hp].
               + apply Hrecv in Hp. destruct Hp as [(i' & Hi' & E)|(j & Hj & _)]; [|destruct Hj]. left. exists i'. split; [right; exact Hi'|exact E].
             - intros [(i' & [<-|Hi'] & E)|(j & Hj & _)]; [| |destruct Hj]; rewrite pmem_padd.
               + subst p. rewrite N.eqb_refl. reflexivity.
               + apply orb_true_intro. right. apply Hrecv. left. exists i'. auto.
             - rewrite Hoc. lia.
             - constructor; assumption. }
           specialize (IH x' (i :: d_o) HI'). destruct (dec_add_all true x' l) as [x''|e].
           ++ destruct IH as (d' & HId & Hcnt). exists d'. split; [exact HId|].
              cbn [distinct_ok]. assert ((i <? K) = true) as -> by (apply N.ltb_lt; exact Hlt).
              rewrite Es, N.eqb_refl, (existsb_notin i d_o Hn). cbn [andb negb]. cbn [length] in Hcnt. lia.
           ++ apply (errs_o_cons_ok d_o i s l Hlt Hn Es). exact IH.
        -- unfold errs_o. apply in_or_app. right. apply in_or_app. right. cbn [flat_map snd]. apply in_or_app. left.
           unfold adm_len. apply N.eqb_neq in Es. rewrite Es. cbn. left. reflexivity.
Qed.

Lemma add_all_r : forall l x d_o d_r, Inv x d_o d_r ->
  match dec_add_all false x l with
  | inr e => In e (errs_r d_r l)
  | inl x' => exists d', Inv x' d_o d' /\ distinct_ok sb R d_r l + N.of_nat (length d_r) = N.of_nat (length d')
  end.
Proof.
  induction l as [|[j s] l IH]; intros x d_o d_r HI.
  - cbn. exists d_r. split; [exact HI|reflexivity].
  - cbn [dec_add_all]. destruct HI as (HK & HR & Hsb & Hob & Hrb & Hrecv & Hoc & Hrc & Fo & Fr).
    unfold dec_add_recovery. rewrite HR, Hrb, Hsb.
    destruct (N.leb_spec R j) as [Hge|Hlt].
    + unfold errs_r. cbn [filter fst]. assert ((R <=? j) = true) as -> by (apply N.leb_le; exact Hge). cbn. left. reflexivity.
    + destruct (pmem (dw_received (d_work x)) (rbase + j)) eqn:Ep.
      * apply Hrecv in Ep. destruct Ep as [(i & Hi & E)|(j' & Hj' & E)].
        { exfalso. rewrite Forall_forall in Fo. apply (disj i j (Fo i Hi) Hlt). congruence. }
        assert (j' = j) by lia. subst j'. unfold errs_r. cbn [filter fst].
        assert ((R <=? j) = false) as -> by (apply N.leb_gt; exact Hlt).
        assert ((j <? R) = true) as -> by (apply N.ltb_lt; exact Hlt).
        cbn [dup_errors]. assert (existsb (N.eqb j) d_r = true) as -> by (apply existsb_in; exact Hj').
        apply in_or_app. right. apply in_or_app. left. left. reflexivity.
      * destruct (N.eqb_spec (blen s) sb) as [Es|Es]; cbn [negb].
        -- set (x' := with_dwork x (dw_insert (d_work x) (rbase + j) s false)).
           assert (Hn : ~ In j d_r).
           { intros Hin. assert (pmem (dw_received (d_work x)) (rbase + j) = true) by (apply Hrecv; right; exists j; auto). congruence. }
           assert (HI' : Inv x' d_o (j :: d_r)).
           { unfold Inv, x'. cbn. repeat split; try assumption.
             - rewrite pmem_padd. intros Hp. apply orb_prop in Hp. destruct Hp as [Hp|Hp].
               + apply N.eqb_eq in Hp. right. exists j. split; [left; reflexivity|exact Hp].
               + apply Hrecv in Hp. destruct Hp as [(i' & Hi' & E)|(j' & Hj' & E)]; [left; exists i'; auto|right; exists j'; split; [right; exact Hj'|exact E]].
             - intros [(i' & Hi' & E)|(j' & [<-|Hj'] & E)]; rewrite pmem_padd.
               + apply orb_true_intro. right. apply Hrecv. left. exists i'. auto.
               + subst p. rewrite N.eqb_refl. reflexivity.
               + apply orb_true_intro. right. apply Hrecv. right. exists j'. auto.
             - rewrite Hrc. lia.
             - constructor; assumption. }
           specialize (IH x' d_o (j :: d_r) HI'). destruct (dec_add_all false x' l) as [x''|e].
           ++ destruct IH as (d' & HId & Hcnt). exists d'. split; [exact HId|].
              cbn [distinct_ok]. assert ((j <? R) = true) as -> by (apply N.ltb_lt; exact Hlt).
              rewrite Es, N.eqb_refl, (existsb_notin j d_r Hn). cbn [andb negb]. cbn [length] in Hcnt. lia.
           ++ apply (errs_r_cons_ok d_r j s l Hlt Hn Es). exact IH.
        -- unfold errs_r. apply in_or_app. right. apply in_or_app. right. cbn [flat_map snd]. apply in_or_app. left.
           unfold adm_len. apply N.eqb_neq in Es. rewrite Es. cbn. left. reflexivity.
Qed.
End OneDec.

Lemma Inv_init K R sb x a : dec_make CRs DefaultE K R sb decwork_new = inl (x, a) ->
  exists obase rbase, (forall i j, i < K -> j < R -> obase + i <> rbase + j) /\ Inv K R sb obase rbase x [] [].
Proof.
  unfold dec_make. destruct (validateb CRs K R sb); [discriminate|]. cbv zeta.
  set (r := rate_of CRs K R). clearbody r.
  unfold decwork_reset. cbv zeta. intros [= <- _].
  destruct r.
  - exists (np2 R), 0. split.
    + intros i j Hi Hj. pose proof (npow2_ge R). unfold np2. lia.
    + unfold Inv. cbn. repeat split; try reflexivity;
        try (intros H; unfold pmem, pempty in H; rewrite PositiveMap.gempty in H; discriminate);
        try (intros [(i & [] & _)|(j & [] & _)]); constructor.
  - exists 0, (np2 K). split.
    + intros i j Hi Hj. pose proof (npow2_ge K). unfold np2. lia.
    + unfold Inv. cbn. repeat split; try reflexivity;
        try (intros H; unfold pmem, pempty in H; rewrite PositiveMap.gempty in H; discriminate);
        try (intros [(i & [] & _)|(j & [] & _)]); constructor.
Qed.

Theorem oneshot_decode_truthful junk ep K R orig rec e :
  oneshot_decode junk ep K R orig rec = RError e -> In e (adm_onedec K R orig rec).
Proof.
  unfold oneshot_decode, adm_onedec.
  destruct (negb (default_supportsb K R)) eqn:Es; [intros [= <-]; left; reflexivity|].
  set (sbo := match rec with (_, s) :: _ => Some (blen s) | [] => match orig with (_, s) :: _ => Some (blen s) | [] => None end end).
  replace (match rec, orig with | (_, s) :: _, _ => Some (blen s) | [], (_, s) :: _ => Some (blen s) | [], [] => None end) with sbo
    by (unfold sbo; destruct rec as [|[? ?] ?]; [destruct orig as [|[? ?] ?]|]; reflexivity).
  destruct sbo as [sb|]; [|intros [= <-]; left; reflexivity].
  destruct (dec_make CRs DefaultE K R sb decwork_new) as [[x a]|err] eqn:Em.
  2:{ intros [= <-]. unfold dec_make in Em. unfold validateb in Em. cbn [supportsb] in Em. rewrite Es in Em.
      destruct (bad_size sb); [inversion Em; left; reflexivity|]. cbv zeta in Em. destruct (decwork_reset _ _ _ _ _); discriminate. }
  assert (Hbs : bad_size sb = false).
  { unfold dec_make, validateb in Em. cbn [supportsb] in Em. rewrite Es in Em. destruct (bad_size sb); [discriminate|reflexivity]. }
  rewrite Hbs.
  destruct (Inv_init K R sb x a Em) as (obase & rbase & Hd & HI).
  set (hard := _ ++ _ ++ _ ++ _ ++ _).
  pose proof (add_all_o K R sb obase rbase orig x [] HI) as Ao.
  destruct (dec_add_all true x orig) as [x1|e1].
  2:{ intros [= <-]. apply in_or_app. left. unfold hard. unfold errs_o in Ao.
      apply in_app_or in Ao. destruct Ao as [A|A]; [apply in_or_app; left; exact A|].
      apply in_app_or in A. destruct A as [A|A].
      - apply in_or_app. right. apply in_or_app. right. apply in_or_app. left. exact A.
      - do 4 (apply in_or_app; right). rewrite flat_map_app. apply in_or_app. left. exact A. }
  destruct Ao as (d_o & HI1 & Hco).
  pose proof (add_all_r K R sb obase rbase Hd rec x1 d_o [] HI1) as Ar.
  destruct (dec_add_all false x1 rec) as [x2|e2].
  2:{ intros [= <-]. apply in_or_app. left. unfold hard. unfold errs_r in Ar.
      apply in_app_or in Ar. destruct Ar as [A|A]; [apply in_or_app; right; apply in_or_app; left; exact A|].
      apply in_app_or in A. destruct A as [A|A].
      - do 3 (apply in_or_app; right). apply in_or_app. left. exact A.
      - do 4 (apply in_or_app; right). rewrite flat_map_app. apply in_or_app. right. exact A. }
  destruct Ar as (d_r & HI2 & Hcr).
  destruct HI2 as (HK & HR & _ & _ & _ & _ & Hoc & Hrc & _ & _).
  unfold dec_decode. rewrite HK, Hoc, Hrc. cbn [length] in Hco, Hcr. rewrite N.add_0_r in Hco, Hcr.
  destruct (N.ltb_spec (N.of_nat (length d_o) + N.of_nat (length d_r)) K) as [Hlt|Hge].
  - cbn [snd]. intros [= <-]. apply in_or_app. right. rewrite Hco, Hcr.
    assert ((N.of_nat (length d_o) + N.of_nat (length d_r) <? K) = true) as -> by (apply N.ltb_lt; exact Hlt). left. reflexivity.
  - destruct (N.of_nat (length d_o) =? K); cbn [snd]; discriminate.
Qed.
