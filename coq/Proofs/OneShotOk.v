(* C06/C10, the converse half for the one-shot functions: a call that violates no documented
   precondition (empty set of admissible errors) returns Ok. *)
From Coq Require Import NArith Arith Lia Bool List FMapPositive.
From RS.Gen Require Import Prelude GenConsts.
From RS.Model Require Import Field Tables Sched Codec Layout Machine Admissible.
From RS.Proofs Require Import OneShot OneShotEnc.
Import ListNotations.
Local Open Scope N_scope.

Lemma oneshot_encode_shape junk ep K R shards :
  (exists e, oneshot_encode junk ep K R shards = RError e) \/ (exists rec, oneshot_encode junk ep K R shards = RShards rec).
Proof.
  unfold oneshot_encode. destruct (negb _); [left; eexists; reflexivity|].
  destruct shards as [|first rest]; [left; eexists; reflexivity|].
  destruct (enc_make _ _ _ _ _ _) as [[x a]|e]; [|left; eexists; reflexivity].
  destruct (enc_add_all x (first :: rest)) as [x'|e]; [|left; eexists; reflexivity].
  unfold enc_encode. destruct (negb _); cbn [snd]; [left|right]; eexists; reflexivity.
Qed.
Lemma oneshot_decode_shape junk ep K R orig rec :
  (exists e, oneshot_decode junk ep K R orig rec = RError e) \/ (exists it, oneshot_decode junk ep K R orig rec = RMap it).
Proof.
  unfold oneshot_decode. destruct (negb _); [left; eexists; reflexivity|].
  destruct (match rec with (_, s) :: _ => Some (blen s) | [] => match orig with (_, s) :: _ => Some (blen s) | [] => None end end) as [sb|];
    [|left; eexists; reflexivity].
  destruct (dec_make _ _ _ _ _ _) as [[x a]|e]; [|left; eexists; reflexivity].
  destruct (dec_add_all true x orig) as [x1|e]; [|left; eexists; reflexivity].
  destruct (dec_add_all false x1 rec) as [x2|e]; [|left; eexists; reflexivity].
  unfold dec_decode. destruct (_ <? _); cbn [snd]; [left; eexists; reflexivity|].
  destruct (_ =? _); cbn [snd]; right; eexists; reflexivity.
Qed.

Theorem oneshot_encode_valid_ok junk ep K R shards : adm_oneenc K R shards = [] ->
  exists rec, oneshot_encode junk ep K R shards = RShards rec.
Proof.
  intros H. destruct (oneshot_encode_shape junk ep K R shards) as [[e He]|Hok]; [|exact Hok].
  pose proof (oneshot_encode_truthful junk ep K R shards e He) as Hin. rewrite H in Hin. destruct Hin.
Qed.
Theorem oneshot_decode_valid_ok junk ep K R orig rec : adm_onedec K R orig rec = [] ->
  exists it, oneshot_decode junk ep K R orig rec = RMap it.
Proof.
  intros H. destruct (oneshot_decode_shape junk ep K R orig rec) as [[e He]|Hok]; [|exact Hok].
  pose proof (oneshot_decode_truthful junk ep K R orig rec e He) as Hin. rewrite H in Hin. destruct Hin.
Qed.
