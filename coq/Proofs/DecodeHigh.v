(* C01, high rate: the decoder restores every missing original (symbol level), given a codeword
   polynomial with 2^kn LCH coefficients whose top 2^k vanish. *)
From Coq Require Import NArith Arith Lia Bool List Permutation.
From RS.Gen Require Import Prelude GenConsts.
From RS.Model Require Import Field Tables Sched Codec Spec.
From RS.Proofs Require Import RateFacts FieldFacts Ring Scale FftSpec SchedEquiv Trunc Lengths FftTrunc Lagrange Cauchy LchPoly LchPoly2 DecodeBase DecodeLow Locator.
Import ListNotations.
Local Open Scope N_scope.

Section High.
Variable e : engine.
Variables (K R : N) (recv : N -> bool).
Variables (k kn : nat).
Let m := 2 ^ N.of_nat k.
Let n := 2 ^ N.of_nat kn.
Let oe := m + K.

Definition el_high (v : N) : bool :=
  if v <? R then negb (recv v) else if v <? m then true else if v <? oe then negb (recv v) else false.
Definition Eh : list N := filter el_high (range 0 65536).

Hypothesis Hm : npow2 R = m.
Hypothesis HK : 1 <= K.
Hypothesis HR : 1 <= R.
Hypothesis Hkn : (kn <= 16)%nat.
Hypothesis Hoe : oe <= n.

Lemma n_le' : n <= 65536.
Proof. unfold n. change 65536 with (2 ^ 16). apply N.pow_le_mono_r; lia. Qed.
Lemma Eh_W16 : Forall W16 Eh.
Proof. apply filter_W16, range_W16. Qed.
Lemma Eh_in v : In v Eh <-> v < 65536 /\ el_high v = true.
Proof. unfold Eh. rewrite filter_In. unfold range. rewrite in_rangeN_iff, N2Nat.id. split; intros [H1 H2]; (split; [lia|exact H2]). Qed.
Lemma Eh_NoDup : NoDup Eh.
Proof. apply NoDup_filter. unfold range. apply NoDup_rangeN. Qed.
Lemma el_high_lt v : el_high v = true -> v < oe.
Proof.
  unfold el_high. pose proof (npow2_ge R) as G. rewrite Hm in G.
  destruct (N.ltb_spec v R); [unfold oe; lia|]. destruct (N.ltb_spec v m); [unfold oe; lia|].
  destruct (N.ltb_spec v oe); [lia|discriminate].
Qed.

Variable cF : list N.
Variable work : list N.
Hypothesis Hk : (k <= kn)%nat.
Hypothesis LcF : length cF = p2 kn.
Hypothesis WcF : Forall W16 cF.
Hypothesis Htop : forall t, (p2 kn - p2 k <= t)%nat -> (t < p2 kn)%nat -> nth t cF 0 = 0.
Hypothesis Lwork : length work = p2 kn.
Hypothesis Wwork : Forall W16 work.
Hypothesis Hrecv_r : forall j, j < R -> recv j = true -> nth (N.to_nat j) work 0 = lch kn cF j.
Hypothesis Hrecv_o : forall i, m <= i -> i < oe -> recv i = true -> nth (N.to_nat i) work 0 = lch kn cF i.
Hypothesis Hpad : forall v, oe <= v -> v < n -> lch kn cF v = 0.
Hypothesis Hcount : (length Eh <= p2 k)%nat.
Hypothesis Her : er_spec (eval_poly (high_erasures K R recv) oe) Eh.

Theorem decode_high_symbols : forall i, m <= i -> i < oe -> recv i = false ->
  nth (N.to_nat i) (snd (decode_high_work sym_ops e K R recv work)) 0 = lch kn cF i.
Proof.
  intros i Hi1 Hi2 Hri.
  pose proof n_le' as Hn. pose proof (npow2_ge R) as HRm. rewrite Hm in HRm.
  destruct Her as [Ler Her']. clear Her.
  pose proof Eh_W16 as WEn. pose proof Eh_NoDup as NDn.
  assert (Pn : N.of_nat (p2 kn) = n) by apply p2_N.
  assert (Pk : N.of_nat (p2 k) = m) by apply p2_N.
  unfold decode_high_work. cbv zeta. unfold np2. rewrite Hm. fold oe. cbn [snd].
  set (er := eval_poly (high_erasures K R recv) oe) in *. clearbody er.
  assert (Lw : N.of_nat (length work) = n) by (rewrite Lwork; apply Pn).
  rewrite Lw.
  set (w1 := mapi (fun i ei x => if i <? R then mul_or_zero sym_ops recv i ei x
                                  else if i <? m then zeroT sym_ops
                                  else if i <? oe then mul_or_zero sym_ops recv i ei x else zeroT sym_ops) er work).
  assert (Hp : N.of_nat (p2 kn) <= 65536) by (rewrite Pn; exact Hn).
  assert (Ler' : (length work <= length er)%nat) by (rewrite Ler, Lwork; lia).
  assert (Lw1 : length w1 = p2 kn) by (unfold w1; rewrite mapi_length by exact Ler'; exact Lwork).
  (* (1) the values fed to the transform *)
  assert (V1 : forall v, (v < p2 kn)%nat -> nth v w1 0 = fmul (lch kn cF (N.of_nat v)) (locN Eh (N.of_nat v))).
  { intros v Hv. set (vN := N.of_nat v). assert (HvN : vN < n) by (unfold vN; rewrite <- Pn; lia).
    assert (WvN : W16 vN) by (unfold W16; lia).
    unfold w1. rewrite mapi_nth by (try exact Ler'; rewrite Lwork; exact Hv). fold vN.
    assert (Wwv : W16 (nth v work 0)) by (apply nth_W16; exact Wwork).
    assert (WP : W16 (lch kn cF vN)) by (apply lch_W16; assumption).
    destruct (el_high vN) eqn:Eel.
    - rewrite (locN_root Eh vN WEn WvN) by (apply Eh_in; split; [lia|assumption]).
      rewrite fmul_0_r.
      unfold el_high in Eel. unfold mul_or_zero. cbn [zeroT mulT sym_ops].
      destruct (vN <? R); [apply negb_true_iff in Eel; rewrite Eel; reflexivity|].
      destruct (vN <? m); [reflexivity|]. destruct (vN <? oe); [apply negb_true_iff in Eel; rewrite Eel; reflexivity|reflexivity].
    - assert (Nin : ~ In vN Eh) by (rewrite Eh_in; intros [_ H]; congruence).
      assert (Lfull : locN' Eh vN = locN Eh vN) by (apply locN'_notin; exact Nin).
      destruct (Her' vN (nth v work 0) ltac:(lia) Wwv) as [Hmul _]. unfold vN in Hmul at 1. rewrite Nat2N.id in Hmul.
      unfold el_high in Eel. unfold mul_or_zero. cbn [zeroT mulT sym_ops].
      destruct (N.ltb_spec vN R) as [H1|H1].
      + apply negb_false_iff in Eel. rewrite Eel, Hmul, Lfull.
        pose proof (Hrecv_r vN H1 Eel) as Hw. unfold vN in Hw at 1. rewrite Nat2N.id in Hw. rewrite Hw. reflexivity.
      + destruct (N.ltb_spec vN m) as [H2|H2]; [discriminate|].
        destruct (N.ltb_spec vN oe) as [H3|H3].
        * apply negb_false_iff in Eel. rewrite Eel, Hmul, Lfull.
          pose proof (Hrecv_o vN H2 H3 Eel) as Hw. unfold vN in Hw at 1. rewrite Nat2N.id in Hw. rewrite Hw. reflexivity.
        * rewrite (Hpad vN H3 HvN). rewrite fmul_0_l. reflexivity. }
  assert (Ww1 : Forall W16 w1).
  { apply Forall_forall. intros x Hx. destruct (In_nth _ _ 0 Hx) as (v & Hv & <-). rewrite Lw1 in Hv. rewrite V1 by exact Hv.
    assert (W16 (N.of_nat v)) by (unfold W16; lia).
    apply fmul_lt; [apply lch_W16|apply locN_W16]; assumption. }
  unfold transform.
  set (c := ifft sym_ops e n oe 0 w1).
  assert (Lw1' : N.of_nat (length w1) = 2 ^ N.of_nat kn) by (rewrite Lw1; apply Pn).
  assert (Lc : length c = p2 kn) by (unfold c, n; rewrite ifft_len by (try exact Lw1'; exact Hkn); exact Lw1).
  assert (Wc : Forall W16 c) by (unfold c; apply ifft_W16; exact Ww1).
  assert (Zt : forall j, (j < length w1)%nat -> oe <= N.of_nat j -> nth_error w1 j = Some 0).
  { intros j Hj Hle. rewrite (nth_error_nth' _ 0 Hj). f_equal. rewrite Lw1 in Hj.
    unfold w1. rewrite mapi_nth by (try exact Ler'; rewrite Lwork; exact Hj).
    destruct (N.ltb_spec (N.of_nat j) R); [unfold oe in *; lia|]. destruct (N.ltb_spec (N.of_nat j) m); [unfold oe in *; lia|].
    destruct (N.ltb_spec (N.of_nat j) oe); [lia|reflexivity]. }
  assert (Vc : forall v, (v < p2 kn)%nat -> lch kn c (N.of_nat v) = nth v w1 0).
  { intros v Hv. pose proof (ifft_interpolates e kn 0 w1 oe Hkn) as I. cbv zeta in I. rewrite N.mul_0_l, !N.add_0_l in I.
    apply I; assumption. }
  assert (Efd : formal_derivative sym_ops c = formal_derivative_rec sym_ops kn c).
  { unfold formal_derivative. rewrite Lc, Pn. unfold n. rewrite N.log2_pow2 by lia. rewrite Nat2N.id. reflexivity. }
  rewrite Efd. set (c' := formal_derivative_rec sym_ops kn c).
  assert (Lc' : length c' = p2 kn) by (apply fdr_length; exact Lc).
  assert (Wc' : Forall W16 c') by (apply fdr_W16; exact Wc).
  set (w2 := fft sym_ops e n oe 0 c').
  assert (Lw2 : length w2 = p2 kn).
  { unfold w2. rewrite fft_len by (rewrite Lc'; apply Pn). exact Lc'. }
  assert (Hip : (N.to_nat i < p2 kn)%nat).
  { assert (Hi2' : i < N.of_nat (p2 kn)) by (rewrite Pn; lia). clear - Hi2'. lia. }
  rewrite mapi_nth by (rewrite ?Lw2, ?Ler; lia).
  rewrite N2Nat.id. assert ((m <=? i) && (i <? oe) = true) as ->.
  { apply andb_true_intro. split; [apply N.leb_le; exact Hi1|apply N.ltb_lt; exact Hi2]. }
  unfold reveal. rewrite Hri. cbn [mulT sym_ops].
  assert (V2 : nth (N.to_nat i) w2 0 = lch kn c' i).
  { pose proof (fft_trunc_spec e kn 0 c' oe Hkn) as FS. cbv zeta in FS. rewrite N.mul_0_l, !N.add_0_l in FS. fold n in FS.
    unfold w2. rewrite FS; try assumption; try lia. rewrite N2Nat.id. reflexivity. }
  rewrite V2.
  assert (Hin : In i Eh).
  { apply Eh_in. split; [lia|]. unfold el_high. destruct (N.ltb_spec i R); [lia|]. destruct (N.ltb_spec i m); [lia|].
    assert ((i <? oe) = true) as -> by (apply N.ltb_lt; exact Hi2). rewrite Hri. reflexivity. }
  assert (Wi : W16 i) by (unfold W16; lia).
  assert (Hs : (p2 kn - p2 k + length Eh <= p2 kn)%nat).
  { assert (p2 k <= p2 kn)%nat by (unfold p2; apply Nat.pow_le_mono_r; lia). lia. }
  assert (Hs0 : (0 < p2 kn - p2 k)%nat).
  { assert (N.of_nat (p2 k) < N.of_nat (p2 kn)) by (rewrite Pn, Pk; unfold oe in Hoe; lia). lia. }
  pose proof (@decode_core2 kn cF (p2 kn - p2 k)%nat Eh c Hkn LcF WcF Htop WEn NDn Hs Hs0 Lc Wc
               (fun v Hv => eq_trans (Vc v Hv) (V1 v Hv)) i Hin) as Core.
  unfold c'. rewrite Core.
  assert (WL' : W16 (locN' Eh i)) by (unfold locN'; apply locN_W16; [apply filter_W16|]; assumption).
  assert (WF : W16 (lch kn cF i)) by (apply lch_W16; assumption).
  destruct (Her' i _ ltac:(lia) (fmul_lt _ _ WF WL')) as [_ Hdiv]. rewrite Hdiv.
  apply fdiv_cancel; try assumption. apply locN'_nz; assumption.
Qed.
End High.
