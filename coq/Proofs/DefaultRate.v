(* C09 on codec objects: the default-rate codec (and ReedSolomonEncoder/Decoder) IS the dedicated
   codec of the rate the rule picks for the configuration - same validation result, same rate, same
   working space - and no later operation looks at which of the codec types the object is. *)
From Coq Require Import NArith Arith Lia Bool List FMapPositive.
From RS.Gen Require Import Prelude GenConsts.
From RS.Model Require Import Field Tables Sched Codec Layout Machine.
From RS.Proofs Require Import RateFacts PermFacts.
Import ListNotations.
Local Open Scope N_scope.

Definition set_ecodec (x : encoder) (c : codec) : encoder :=
  {| e_codec := c; e_engine := e_engine x; e_rate := e_rate x; e_work := e_work x |}.
Definition set_dcodec (y : decoder) (c : codec) : decoder :=
  {| d_codec := c; d_engine := d_engine y; d_rate := d_rate y; d_work := d_work y |}.
Definition dedicated (K R : N) : codec := if rule_high K R then CHigh else CLow.
Definition is_default (c : codec) : bool := match c with CRs | CDef => true | _ => false end.

Lemma default_facts c K R : is_default c = true -> default_supportsb K R = true ->
  supportsb c K R = true /\ supportsb (dedicated K R) K R = true /\ rate_of c K R = rate_of (dedicated K R) K R.
Proof.
  intros Hc Hs. unfold default_supportsb in Hs. destruct (use_high_rateb K R) as [b|] eqn:E; [|discriminate].
  pose proof (use_high_rate_rule K R b E) as Hb. destruct (chosen_rate_supports K R) as [H1 H2].
  assert (S : supportsb c K R = true) by (destruct c; try discriminate Hc; cbn; unfold default_supportsb; rewrite E; reflexivity).
  assert (Rt : rate_of c K R = if b then High else Low).
  { destruct c; try discriminate Hc; cbn; rewrite E; destruct b; reflexivity. }
  unfold dedicated. rewrite <- Hb. destruct b; cbn [supportsb rate_of]; (split; [exact S|split; [auto|exact Rt]]).
Qed.

(* outside the envelope both refuse, the default codec by definition, the dedicated one because
   neither rate supports the configuration (RateFacts) - not needed here: C08 *)

Theorem enc_make_default c e K R sb w : is_default c = true -> default_supportsb K R = true ->
  enc_make c e K R sb w =
  match enc_make (dedicated K R) e K R sb w with inl (x, a) => inl (set_ecodec x c, a) | inr err => inr err end.
Proof.
  intros Hc Hs. destruct (default_facts c K R Hc Hs) as (S1 & S2 & Rt).
  unfold enc_make, validateb. rewrite S1, S2. cbn [negb]. destruct (bad_size sb); [reflexivity|].
  cbv zeta. rewrite Rt. destruct (encwork_reset w (rate_of (dedicated K R) K R) K R sb) as [w' a]. reflexivity.
Qed.
Theorem dec_make_default c e K R sb w : is_default c = true -> default_supportsb K R = true ->
  dec_make c e K R sb w =
  match dec_make (dedicated K R) e K R sb w with inl (y, a) => inl (set_dcodec y c, a) | inr err => inr err end.
Proof.
  intros Hc Hs. destruct (default_facts c K R Hc Hs) as (S1 & S2 & Rt).
  unfold dec_make, validateb. rewrite S1, S2. cbn [negb]. destruct (bad_size sb); [reflexivity|].
  cbv zeta. rewrite Rt. destruct (decwork_reset w (rate_of (dedicated K R) K R) K R sb) as [w' a]. reflexivity.
Qed.

(* no operation on an object looks at its codec tag *)
Lemma enc_add_codec x c s :
  enc_add (set_ecodec x c) s = match enc_add x s with inl x' => inl (set_ecodec x' c) | inr err => inr err end.
Proof. unfold enc_add. cbn [set_ecodec e_work e_engine e_rate]. destruct (_ =? _); [reflexivity|]. destruct (negb _); reflexivity. Qed.
Lemma enc_add_all_codec : forall l x c,
  enc_add_all (set_ecodec x c) l = match enc_add_all x l with inl x' => inl (set_ecodec x' c) | inr err => inr err end.
Proof.
  induction l as [|s l IH]; intros x c; [reflexivity|]. cbn [enc_add_all]. rewrite enc_add_codec.
  destruct (enc_add x s) as [x'|err]; [apply IH|reflexivity].
Qed.
Section J.
Variable junk : N -> N -> N -> N.
Lemma enc_encode_codec ep x c probes :
  enc_encode junk ep (set_ecodec x c) probes =
  (set_ecodec (fst (enc_encode junk ep x probes)) c, snd (enc_encode junk ep x probes)).
Proof. unfold enc_encode. cbn [set_ecodec e_work]. destruct (negb _); reflexivity. Qed.

Lemma dec_add_codec y c a :
  dec_add (set_dcodec y c) a = match dec_add y a with inl y' => inl (set_dcodec y' c) | inr err => inr err end.
Proof.
  destruct a as [i s|i s]; cbn [dec_add]; unfold dec_add_original, dec_add_recovery; cbn [set_dcodec d_work];
    destruct (_ <=? _); try reflexivity; destruct (pmem _ _); try reflexivity; destruct (negb _); reflexivity.
Qed.
Lemma dec_adds_codec : forall l y c,
  dec_adds (set_dcodec y c) l = match dec_adds y l with inl y' => inl (set_dcodec y' c) | inr err => inr err end.
Proof.
  induction l as [|a l IH]; intros y c; [reflexivity|]. cbn [dec_adds]. rewrite dec_add_codec.
  destruct (dec_add y a) as [y'|err]; [apply IH|reflexivity].
Qed.
Lemma dec_decode_codec ep y c probes :
  dec_decode junk ep (set_dcodec y c) probes =
  (set_dcodec (fst (dec_decode junk ep y probes)) c, snd (dec_decode junk ep y probes)).
Proof.
  unfold dec_decode. cbn [set_dcodec d_work]. destruct (_ <? _); [reflexivity|]. destruct (_ =? _); reflexivity.
Qed.

(* a whole round on the default codec = the same round on the dedicated codec of the rule's rate *)
Theorem default_round_enc c e K R sb w originals ep probes : is_default c = true -> default_supportsb K R = true ->
  match enc_make c e K R sb w, enc_make (dedicated K R) e K R sb w with
  | inl (x, a), inl (x', a') =>
      a = a' /\
      match enc_add_all x originals, enc_add_all x' originals with
      | inl x1, inl x1' => snd (enc_encode junk ep x1 probes) = snd (enc_encode junk ep x1' probes)
      | inr err, inr err' => err = err'
      | _, _ => False
      end
  | inr err, inr err' => err = err'
  | _, _ => False
  end.
Proof.
  intros Hc Hs. rewrite (enc_make_default c e K R sb w Hc Hs).
  destruct (enc_make (dedicated K R) e K R sb w) as [[x' a']|err]; [|reflexivity].
  split; [reflexivity|]. rewrite enc_add_all_codec. destruct (enc_add_all x' originals) as [x1'|err]; [|reflexivity].
  rewrite enc_encode_codec. reflexivity.
Qed.
Theorem default_round_dec c e K R sb w adds ep probes : is_default c = true -> default_supportsb K R = true ->
  match dec_make c e K R sb w, dec_make (dedicated K R) e K R sb w with
  | inl (y, a), inl (y', a') =>
      a = a' /\
      match dec_adds y adds, dec_adds y' adds with
      | inl y1, inl y1' => snd (dec_decode junk ep y1 probes) = snd (dec_decode junk ep y1' probes)
      | inr err, inr err' => err = err'
      | _, _ => False
      end
  | inr err, inr err' => err = err'
  | _, _ => False
  end.
Proof.
  intros Hc Hs. rewrite (dec_make_default c e K R sb w Hc Hs).
  destruct (dec_make (dedicated K R) e K R sb w) as [[y' a']|err]; [|reflexivity].
  split; [reflexivity|]. rewrite dec_adds_codec. destruct (dec_adds y' adds) as [y1'|err]; [|reflexivity].
  rewrite dec_decode_codec. reflexivity.
Qed.
End J.
