//! `rsh tables <dir>`: dump the crate's five lookup tables.

use std::fs;
use std::io;
use std::path::Path;

use reed_solomon_simd::engine::tables;

fn u16s(v: &[u16]) -> Vec<u8> {
    let mut out = Vec::with_capacity(v.len() * 2);
    for x in v {
        out.extend_from_slice(&x.to_le_bytes());
    }
    out
}

pub fn dump(dir: &str) -> io::Result<()> {
    let dir = Path::new(dir);
    fs::create_dir_all(dir)?;

    let exp_log = &*tables::EXP_LOG;
    fs::write(dir.join("exp.bin"), u16s(&exp_log.exp[..]))?;
    fs::write(dir.join("log.bin"), u16s(&exp_log.log[..]))?;
    fs::write(dir.join("walsh.bin"), u16s(&tables::LOG_WALSH[..]))?;
    fs::write(dir.join("skew.bin"), u16s(&tables::SKEW[..]))?;

    // mul16.bin: [log_m][k][i], u16 LE.
    let mul16 = &*tables::MUL16;
    let mut out = Vec::with_capacity(65536 * 4 * 16 * 2);
    for lut in mul16.iter() {
        for row in lut {
            for x in row {
                out.extend_from_slice(&x.to_le_bytes());
            }
        }
    }
    fs::write(dir.join("mul16.bin"), out)?;

    // mul128.bin: per log_m: lo[0..4] then hi[0..4], each u128 LE.
    let mul128 = &*tables::MUL128;
    let mut out = Vec::with_capacity(65536 * 8 * 16);
    for lut in mul128.iter() {
        for x in lut.lo {
            out.extend_from_slice(&x.to_le_bytes());
        }
        for x in lut.hi {
            out.extend_from_slice(&x.to_le_bytes());
        }
    }
    fs::write(dir.join("mul128.bin"), out)?;
    Ok(())
}
