(* Byte layout of shards: src/engine/shards.rs (insert, undo_last_chunk_encoding),
   encoder_work.rs / decoder_work.rs (result slicing), src/algorithm.md. *)
From Coq Require Import NArith List Bool.
From RS.Model Require Import Field.
Import ListNotations.
Local Open Scope N_scope.

(* ---------- packed view: one 16-bit symbol per slot ---------- *)
Definition sym (lo hi : N) : N := lo + 256 * hi.
Definition lo_byte (s : N) : N := N.land s 255.
Definition hi_byte (s : N) : N := N.shiftr s 8.

(* symbols of one group of t bytes: t/2 low bytes then t/2 high bytes *)
Definition group_syms (g : list N) : list N :=
  let h := Nat.div2 (length g) in
  map (fun p => sym (fst p) (snd p)) (combine (firstn h g) (skipn h g)).
Definition group_bytes (s : list N) : list N := map lo_byte s ++ map hi_byte s.

Fixpoint syms_of_bytes_fuel (fuel : nat) (bs : list N) : list N :=
  match fuel with
  | O => []
  | S f => match bs with
           | [] => []
           | _ => group_syms (firstn 64 bs) ++ syms_of_bytes_fuel f (skipn 64 bs)
           end
  end.
Definition syms_of_bytes (bs : list N) : list N := syms_of_bytes_fuel (S (Nat.div (length bs) 64)) bs.

Fixpoint bytes_of_syms_fuel (fuel : nat) (s : list N) : list N :=
  match fuel with
  | O => []
  | S f => match s with
           | [] => []
           | _ => group_bytes (firstn 32 s) ++ bytes_of_syms_fuel f (skipn 32 s)
           end
  end.
Definition bytes_of_syms (s : list N) : list N := bytes_of_syms_fuel (S (Nat.div (length s) 32)) s.

(* ---------- block view (what the Rust does), for the layout theorems ---------- *)
Definition block := list N.          (* 64 bytes *)
Definition blocks_needed (sb : nat) : nat := Nat.div (sb + 63) 64.

(* Shards::insert on the blocks of one shard; [old] supplies the stale bytes *)
Definition insert_tail (old : block) (tail : list N) : block :=
  let t := length tail in
  let h := Nat.div2 t in
  firstn h tail ++ firstn (32 - h) (skipn h old) ++
  skipn h tail ++ skipn (32 + (t - h)) old.
Fixpoint insert_blocks (old : list block) (shard : list N) : list block :=
  match old with
  | [] => []
  | b :: rest =>
    if Nat.leb 64 (length shard) then firstn 64 shard :: insert_blocks rest (skipn 64 shard)
    else match shard with
         | [] => b :: rest
         | _ => insert_tail b shard :: rest
         end
  end.
(* undo_last_chunk_encoding on one shard + `.as_flattened()[..shard_bytes]` *)
Definition undo_last (sb : nat) (bl : list block) : list block :=
  let whole := Nat.div sb 64 in let t := Nat.modulo sb 64 in
  if Nat.eqb t 0 then bl
  else let h := Nat.div2 t in
       firstn whole bl ++
       match skipn whole bl with
       | [] => []
       | b :: rest => (firstn h b ++ firstn h (skipn 32 b) ++ skipn (h + h) b) :: rest
       end.
Definition read_shard (sb : nat) (bl : list block) : list N := firstn sb (concat (undo_last sb bl)).
(* lanes of a block: symbol r = (byte r, byte r+32) *)
Definition block_syms (b : block) : list N := group_syms b.
