//! Object-safe wrappers around the crate's encoders/decoders, the `guard`
//! (catch_unwind + allocation recording) and the engine dispatch.

use std::marker::PhantomData;
use std::panic::{catch_unwind, AssertUnwindSafe};

use reed_solomon_simd::{
    engine::{DefaultEngine, Engine, Naive, NoSimd},
    rate::{
        DecoderWork, DefaultRateDecoder, DefaultRateEncoder, EncoderWork, HighRateDecoder,
        HighRateEncoder, LowRateDecoder, LowRateEncoder, RateDecoder, RateEncoder,
    },
    DecoderResult, EncoderResult, Error, ReedSolomonDecoder, ReedSolomonEncoder,
};

#[cfg(any(target_arch = "x86", target_arch = "x86_64"))]
use reed_solomon_simd::engine::{Avx2, Ssse3};

use crate::alloc;
use crate::NeonEmu;

// ======================================================================
// guard

/// Runs a crate call: allocation recording on (in `--alloc` mode only),
/// panics caught. `Err(())` means the call panicked.
#[inline]
pub fn guard<R>(f: impl FnOnce() -> R) -> Result<R, ()> {
    alloc::start();
    let r = catch_unwind(AssertUnwindSafe(f));
    alloc::stop();
    r.map_err(|payload| {
        // Dropping a panic payload could itself panic in theory.
        let _ = catch_unwind(AssertUnwindSafe(move || drop(payload)));
    })
}

/// Like `guard` but never records allocations (harness-side copying that
/// still calls into the crate, e.g. iterating a result).
#[inline]
pub fn guard_norec<R>(f: impl FnOnce() -> R) -> Result<R, ()> {
    catch_unwind(AssertUnwindSafe(f)).map_err(|payload| {
        let _ = catch_unwind(AssertUnwindSafe(move || drop(payload)));
    })
}

// ======================================================================
// EncObj / DecObj

pub trait EncObj {
    fn add(&mut self, data: &[u8]) -> Result<(), Error>;
    fn encode(&mut self) -> Result<EncoderResult<'_>, Error>;
    fn reset(&mut self, k: usize, r: usize, sb: usize) -> Result<(), Error>;
    /// `into_parts()`, keeping only the work. `None` for `rs` (no such API).
    fn into_work(self: Box<Self>) -> Option<EncoderWork>;
}

pub trait DecObj {
    fn addo(&mut self, index: usize, data: &[u8]) -> Result<(), Error>;
    fn addr(&mut self, index: usize, data: &[u8]) -> Result<(), Error>;
    fn decode(&mut self) -> Result<DecoderResult<'_>, Error>;
    fn reset(&mut self, k: usize, r: usize, sb: usize) -> Result<(), Error>;
    fn into_work(self: Box<Self>) -> Option<DecoderWork>;
}

pub struct RateEnc<E, T>(T, PhantomData<fn() -> E>);
pub struct RateDec<E, T>(T, PhantomData<fn() -> E>);

impl<E: Engine, T: RateEncoder<E>> EncObj for RateEnc<E, T> {
    fn add(&mut self, data: &[u8]) -> Result<(), Error> {
        self.0.add_original_shard(data)
    }
    fn encode(&mut self) -> Result<EncoderResult<'_>, Error> {
        self.0.encode()
    }
    fn reset(&mut self, k: usize, r: usize, sb: usize) -> Result<(), Error> {
        self.0.reset(k, r, sb)
    }
    fn into_work(self: Box<Self>) -> Option<EncoderWork> {
        let this = *self;
        let (engine, work) = this.0.into_parts();
        drop(engine);
        Some(work)
    }
}

impl<E: Engine, T: RateDecoder<E>> DecObj for RateDec<E, T> {
    fn addo(&mut self, index: usize, data: &[u8]) -> Result<(), Error> {
        self.0.add_original_shard(index, data)
    }
    fn addr(&mut self, index: usize, data: &[u8]) -> Result<(), Error> {
        self.0.add_recovery_shard(index, data)
    }
    fn decode(&mut self) -> Result<DecoderResult<'_>, Error> {
        self.0.decode()
    }
    fn reset(&mut self, k: usize, r: usize, sb: usize) -> Result<(), Error> {
        self.0.reset(k, r, sb)
    }
    fn into_work(self: Box<Self>) -> Option<DecoderWork> {
        let this = *self;
        let (engine, work) = this.0.into_parts();
        drop(engine);
        Some(work)
    }
}

impl EncObj for ReedSolomonEncoder {
    fn add(&mut self, data: &[u8]) -> Result<(), Error> {
        self.add_original_shard(data)
    }
    fn encode(&mut self) -> Result<EncoderResult<'_>, Error> {
        ReedSolomonEncoder::encode(self)
    }
    fn reset(&mut self, k: usize, r: usize, sb: usize) -> Result<(), Error> {
        ReedSolomonEncoder::reset(self, k, r, sb)
    }
    fn into_work(self: Box<Self>) -> Option<EncoderWork> {
        None
    }
}

impl DecObj for ReedSolomonDecoder {
    fn addo(&mut self, index: usize, data: &[u8]) -> Result<(), Error> {
        self.add_original_shard(index, data)
    }
    fn addr(&mut self, index: usize, data: &[u8]) -> Result<(), Error> {
        self.add_recovery_shard(index, data)
    }
    fn decode(&mut self) -> Result<DecoderResult<'_>, Error> {
        ReedSolomonDecoder::decode(self)
    }
    fn reset(&mut self, k: usize, r: usize, sb: usize) -> Result<(), Error> {
        ReedSolomonDecoder::reset(self, k, r, sb)
    }
    fn into_work(self: Box<Self>) -> Option<DecoderWork> {
        None
    }
}

// ======================================================================
// Engine dispatch

/// Outcome of dispatching on an `<engine>` token.
pub enum Dispatch<T> {
    Done(T),
    /// CPU lacks the ISA the named engine needs.
    NoEngine,
    /// Unknown engine token.
    BadEngine,
}

#[cfg(any(target_arch = "x86", target_arch = "x86_64"))]
pub fn have_avx2() -> bool {
    std::arch::is_x86_feature_detected!("avx2")
}
#[cfg(any(target_arch = "x86", target_arch = "x86_64"))]
pub fn have_ssse3() -> bool {
    std::arch::is_x86_feature_detected!("ssse3")
}
#[cfg(not(any(target_arch = "x86", target_arch = "x86_64")))]
pub fn have_avx2() -> bool {
    false
}
#[cfg(not(any(target_arch = "x86", target_arch = "x86_64")))]
pub fn have_ssse3() -> bool {
    false
}

/// `with_engine!(token, func(args...))` calls `func::<E>(ctor, args...)` with
/// the engine type named by `token` and `ctor: fn() -> E`.
#[macro_export]
macro_rules! with_engine {
    ($tok:expr, $f:ident ( $($a:expr),* $(,)? )) => {{
        use reed_solomon_simd::engine::{DefaultEngine, Naive, NoSimd};
        #[cfg(any(target_arch = "x86", target_arch = "x86_64"))]
        use reed_solomon_simd::engine::{Avx2, Ssse3};
        use $crate::obj::Dispatch;
        let tok: &[u8] = $tok;
        match tok {
            b"naive" => Dispatch::Done($f::<Naive>(Naive::new, $($a),*)),
            b"nosimd" => Dispatch::Done($f::<NoSimd>(NoSimd::new, $($a),*)),
            #[cfg(any(target_arch = "x86", target_arch = "x86_64"))]
            b"ssse3" => {
                if $crate::obj::have_ssse3() {
                    Dispatch::Done($f::<Ssse3>(Ssse3::new, $($a),*))
                } else {
                    Dispatch::NoEngine
                }
            }
            #[cfg(any(target_arch = "x86", target_arch = "x86_64"))]
            b"avx2" => {
                if $crate::obj::have_avx2() {
                    Dispatch::Done($f::<Avx2>(Avx2::new, $($a),*))
                } else {
                    Dispatch::NoEngine
                }
            }
            #[cfg(not(any(target_arch = "x86", target_arch = "x86_64")))]
            b"ssse3" | b"avx2" => Dispatch::NoEngine,
            b"default" => Dispatch::Done($f::<DefaultEngine>(DefaultEngine::new, $($a),*)),
            b"neon" => Dispatch::Done($f::<$crate::NeonEmu>(<$crate::NeonEmu>::new, $($a),*)),
            _ => Dispatch::BadEngine,
        }
    }};
}

// ======================================================================
// Constructors

/// Result of a guarded constructor call.
pub enum New<T> {
    Ok(T),
    Err(Error),
    Panic,
    /// Unknown codec token.
    BadCodec,
}

fn new_enc_t<E, T>(
    ctor: fn() -> E,
    k: usize,
    r: usize,
    sb: usize,
    work: Option<EncoderWork>,
) -> New<Box<dyn EncObj>>
where
    E: Engine + 'static,
    T: RateEncoder<E> + 'static,
{
    match guard(move || T::new(k, r, sb, ctor(), work)) {
        Ok(Ok(t)) => New::Ok(Box::new(RateEnc::<E, T>(t, PhantomData))),
        Ok(Err(e)) => New::Err(e),
        Err(()) => New::Panic,
    }
}

fn new_dec_t<E, T>(
    ctor: fn() -> E,
    k: usize,
    r: usize,
    sb: usize,
    work: Option<DecoderWork>,
) -> New<Box<dyn DecObj>>
where
    E: Engine + 'static,
    T: RateDecoder<E> + 'static,
{
    match guard(move || T::new(k, r, sb, ctor(), work)) {
        Ok(Ok(t)) => New::Ok(Box::new(RateDec::<E, T>(t, PhantomData))),
        Ok(Err(e)) => New::Err(e),
        Err(()) => New::Panic,
    }
}

fn new_enc_e<E: Engine + 'static>(
    ctor: fn() -> E,
    codec: &[u8],
    k: usize,
    r: usize,
    sb: usize,
    work: Option<EncoderWork>,
) -> New<Box<dyn EncObj>> {
    match codec {
        b"def" => new_enc_t::<E, DefaultRateEncoder<E>>(ctor, k, r, sb, work),
        b"high" => new_enc_t::<E, HighRateEncoder<E>>(ctor, k, r, sb, work),
        b"low" => new_enc_t::<E, LowRateEncoder<E>>(ctor, k, r, sb, work),
        _ => New::BadCodec,
    }
}

fn new_dec_e<E: Engine + 'static>(
    ctor: fn() -> E,
    codec: &[u8],
    k: usize,
    r: usize,
    sb: usize,
    work: Option<DecoderWork>,
) -> New<Box<dyn DecObj>> {
    match codec {
        b"def" => new_dec_t::<E, DefaultRateDecoder<E>>(ctor, k, r, sb, work),
        b"high" => new_dec_t::<E, HighRateDecoder<E>>(ctor, k, r, sb, work),
        b"low" => new_dec_t::<E, LowRateDecoder<E>>(ctor, k, r, sb, work),
        _ => New::BadCodec,
    }
}

/// `true` if `codec`/`engine` are known tokens; `Ok(false)` = engine known but
/// unavailable on this CPU.
pub fn engine_status(codec: &[u8], engine: &[u8]) -> Result<bool, String> {
    match codec {
        b"rs" => return Ok(true),
        b"def" | b"high" | b"low" => {}
        _ => return Err(format!("bad-codec:{}", String::from_utf8_lossy(codec))),
    }
    match engine {
        b"naive" | b"nosimd" | b"default" | b"neon" => Ok(true),
        b"ssse3" => Ok(have_ssse3()),
        b"avx2" => Ok(have_avx2()),
        _ => Err(format!("bad-engine:{}", String::from_utf8_lossy(engine))),
    }
}

pub fn new_enc(
    codec: &[u8],
    engine: &[u8],
    k: usize,
    r: usize,
    sb: usize,
    work: Option<EncoderWork>,
) -> Dispatch<New<Box<dyn EncObj>>> {
    if codec == b"rs" {
        return Dispatch::Done(match guard(move || ReedSolomonEncoder::new(k, r, sb)) {
            Ok(Ok(t)) => New::Ok(Box::new(t)),
            Ok(Err(e)) => New::Err(e),
            Err(()) => New::Panic,
        });
    }
    with_engine!(engine, new_enc_e(codec, k, r, sb, work))
}

pub fn new_dec(
    codec: &[u8],
    engine: &[u8],
    k: usize,
    r: usize,
    sb: usize,
    work: Option<DecoderWork>,
) -> Dispatch<New<Box<dyn DecObj>>> {
    if codec == b"rs" {
        return Dispatch::Done(match guard(move || ReedSolomonDecoder::new(k, r, sb)) {
            Ok(Ok(t)) => New::Ok(Box::new(t)),
            Ok(Err(e)) => New::Err(e),
            Err(()) => New::Panic,
        });
    }
    with_engine!(engine, new_dec_e(codec, k, r, sb, work))
}

// Silence unused-import warnings on non-x86 targets / keep the types named.
#[allow(dead_code)]
fn _assert_engines() {
    fn is_engine<E: Engine>() {}
    is_engine::<Naive>();
    is_engine::<NoSimd>();
    is_engine::<DefaultEngine>();
    is_engine::<NeonEmu>();
    #[cfg(any(target_arch = "x86", target_arch = "x86_64"))]
    {
        is_engine::<Avx2>();
        is_engine::<Ssse3>();
    }
}
