# Case generators shared by the property checks.
import random
from .core import Case, prng_bytes, hexs

ENGINES = ['naive', 'nosimd', 'ssse3', 'avx2', 'default', 'neon']
GF = 65536


def np2(x):
    p = 1
    while p < x:
        p *= 2
    return p


def high_ok(K, R):
    return 0 < K < GF and 0 < R < GF and np2(R) + K <= GF


def low_ok(K, R):
    return 0 < K < GF and 0 < R < GF and np2(K) + R <= GF


def envelope(K, R):
    """README table: both >= 1 and for some n one count <= 2^n and the other <= 65536 - 2^n."""
    if K < 1 or R < 1:
        return False
    for n in range(17):
        if (K <= 2 ** n and R <= GF - 2 ** n) or (R <= 2 ** n and K <= GF - 2 ** n):
            return True
    return False


def rule_high(K, R):
    """C09 selection rule as stated in the property."""
    return np2(K) > np2(R) or (np2(K) == np2(R) and K <= R)


def codec_ok(codec, K, R):
    if codec == 'high':
        return high_ok(K, R)
    if codec == 'low':
        return low_ok(K, R)
    return envelope(K, R)


def codecs_for(K, R):
    out = []
    if envelope(K, R):
        out += ['rs', 'def']
    if high_ok(K, R):
        out.append('high')
    if low_ok(K, R):
        out.append('low')
    return out


def corners():
    return [(2 ** n, GF - 2 ** n) for n in range(16)] + [(GF - 2 ** n, 2 ** n) for n in range(16)]


def shape_stream(rng, n_small, n_edge, n_medium, n_large, large_cap=65535):
    """(K, R, class) tuples: mostly valid, structured around chunk edges and the envelope."""
    out = []
    for _ in range(n_small):
        out.append((rng.randint(1, 8), rng.randint(1, 8), 'small'))
    for _ in range(n_edge):
        j = rng.randint(0, 7)
        c = rng.randint(1, 4)
        m = 2 ** j
        K = max(1, c * m + rng.choice([-1, 0, 1]))
        R = max(1, m + rng.choice([-1, 0, 1]))
        if rng.random() < 0.5:
            K, R = R, K
        out.append((K, R, 'edge'))
    for _ in range(n_medium):
        K = int(2 ** rng.uniform(3, 9))
        R = int(2 ** rng.uniform(0, 9))
        if rng.random() < 0.5:
            K, R = R, K
        out.append((K, R, 'medium'))
    for _ in range(n_large):
        t = rng.random()
        if t < 0.5:
            K, R = rng.choice(corners())
            K = max(1, K - rng.choice([0, 0, 1, 2]))
            R = max(1, R - rng.choice([0, 0, 1, 2]))
        else:
            K = int(2 ** rng.uniform(9, 16))
            R = int(2 ** rng.uniform(0, 16))
            if rng.random() < 0.5:
                K, R = R, K
        K = min(K, large_cap)
        R = min(R, large_cap)
        if envelope(K, R):
            out.append((K, R, 'large'))
    return [(K, R, cl) for (K, R, cl) in out if envelope(K, R)]


SB_SMALL = [2, 4, 6, 30, 62, 64, 66, 126, 128, 130, 192, 200]


def pick_sb(rng, cls, K=None, R=None, budget=24000):
    """shard size: any class of size for small transforms, small sizes for large transforms
    (the extracted model costs ~5 us per symbol butterfly)"""
    if K is None:
        if cls == 'large':
            return rng.choice([2, 2, 4, 6])
        if cls == 'medium':
            return rng.choice([2, 4, 6, 30])
        return rng.choice(SB_SMALL)
    n = np2(np2(min(K, R)) + max(K, R))
    allowed = [x for x in SB_SMALL if n * x <= budget] or [2]
    return rng.choice(allowed)


def orig_tok(seed, i, sb):
    return '#%d:%d' % (seed * 100003 + i, sb)


def orig_bytes(seed, i, sb):
    return prng_bytes(seed * 100003 + i, sb)


PATTERNS = ['exactK', 'surplus', 'maxloss', 'burst', 'all_recovery_plus', 'first_last', 'none_missing', 'everything']


def pick_received(rng, K, R, pattern):
    """returns (orig index list, recovery index list), total >= K, arrival order not applied."""
    allo = list(range(K))
    allr = list(range(R))
    if pattern == 'none_missing':
        return allo, rng.sample(allr, rng.randint(0, min(R, 3)))
    if pattern == 'everything':
        return allo, allr
    if pattern == 'maxloss':
        nr = min(R, K)
        rs = rng.sample(allr, nr) if rng.random() < 0.5 else allr[:nr]
        os_ = rng.sample(allo, K - nr)
        return os_, rs
    if pattern == 'all_recovery_plus':
        rs = allr
        need = max(0, K - R)
        os_ = rng.sample(allo, min(K, need + rng.randint(0, 2)))
        return os_, rs
    if pattern == 'burst':
        lost = rng.randint(1, min(K, R))
        start = rng.randint(0, K - lost)
        os_ = [i for i in allo if not (start <= i < start + lost)]
        rs = rng.sample(allr, lost)
        return os_, rs
    if pattern == 'first_last':
        lost = sorted(set([0, K - 1]))[:R]
        os_ = [i for i in allo if i not in lost]
        rs = rng.sample(allr, len(lost))
        return os_, rs
    total = K if pattern == 'exactK' else min(K + R, K + rng.randint(1, max(1, R)))
    pool = [('o', i) for i in allo] + [('r', j) for j in allr]
    pick = rng.sample(pool, total)
    return [i for t, i in pick if t == 'o'], [j for t, j in pick if t == 'r']


def earlier_round(rng, codec, engine, both=True):
    """a complete round in another small configuration on the objects that the measured round then reuses through reset
    (C01/C02 quantify over reused objects and recycled working space as well as fresh ones)"""
    while True:
        K0, R0 = rng.randint(1, 9), rng.randint(1, 9)
        if codec in codecs_for(K0, R0):
            break
    sb0 = rng.choice([2, 64, 66, 130])
    seed0 = rng.randint(1, 10 ** 6)
    ops = ['E.new %s %s %d %d %d' % (codec, engine, K0, R0, sb0)] + ['E.add ' + orig_tok(seed0, i, sb0) for i in range(K0)] + ['E.encode -']
    if both:
        os_, rs = pick_received(rng, K0, R0, rng.choice(['maxloss', 'exactK', 'burst']))
        ops.append('D.new %s %s %d %d %d' % (codec, engine, K0, R0, sb0))
        adds = ['D.addo %d @o%d' % (i, i) for i in os_] + ['D.addr %d @r%d' % (j, j) for j in rs]
        t = rng.random()
        if t < 0.4:
            # the earlier round is abandoned: too few shards, given up with or without a (failing) decode
            adds = adds[:rng.randint(0, K0 - 1)]
            ops += adds + (['D.decode -'] if t < 0.2 else [])
        else:
            ops += adds + ['D.decode -']
    return ops


def roundtrip_case(cid, rng, codec, engine, K, R, sb, seed, pattern, probes=False, dec_codec=None, dec_engine=None, reuse=False):
    os_, rs = pick_received(rng, K, R, pattern)
    reuse = reuse and dec_codec is None and dec_engine is None
    first_idx = 0
    if reuse:
        ops = earlier_round(rng, codec, engine)
        first_idx = len(ops)
        ops.append('E.reset %d %d %d' % (K, R, sb))
    else:
        ops = ['E.new %s %s %d %d %d' % (codec, engine, K, R, sb)]
    ops += ['E.add ' + orig_tok(seed, i, sb) for i in range(K)]
    eprobe = '-'
    if probes:
        eprobe = ','.join(str(x) for x in sorted(set([0, R - 1, R, R + 1, 2 ** 32, 2 ** 64 - 1])))
    ops.append('E.encode ' + eprobe)
    enc_idx = len(ops) - 1
    if reuse:
        ops.append('D.reset %d %d %d' % (K, R, sb))
    else:
        ops.append('D.new %s %s %d %d %d' % (dec_codec or codec, dec_engine or engine, K, R, sb))
    adds = [('o', i) for i in os_] + [('r', j) for j in rs]
    rng.shuffle(adds)
    for t, i in adds:
        if t == 'o':
            ops.append('D.addo %d @o%d' % (i, i))
        else:
            ops.append('D.addr %d @r%d' % (i, i))
    dprobe = '-'
    if probes:
        dprobe = ','.join(str(x) for x in sorted(set([0, K - 1, K, K + 1, 2 ** 32, 2 ** 64 - 1])))
    ops.append('D.decode ' + dprobe)
    meta = dict(codec=codec, engine=engine, K=K, R=R, sb=sb, seed=seed, pattern=pattern,
                given_o=sorted(os_), given_r=sorted(rs), enc_idx=enc_idx, dec_idx=len(ops) - 1, reused=bool(reuse), first_idx=first_idx)
    return Case(cid, ops, meta)


def model_weight(c):
    """rough cost estimate of a case for the extracted model (for shard balancing)."""
    m = c.meta
    K, R, sb = m.get('K', 4), m.get('R', 4), m.get('sb', 64)
    n = np2(np2(min(K, R)) + max(K, R))
    w = 10 + n * (sb // 2) // 8
    if any(o.startswith('D.decode') for o in c.ops):
        w += 4000 + 3 * n * (sb // 2) // 4
    return w
