(* The Walsh-Hadamard transform over the integers and its convolution theorem:
   wht (wht a .* wht b) = 2^k * (a xor-convolved with b).  Pure list algebra over Z. *)
From Coq Require Import ZArith NArith Arith Lia Bool List.
From RS.Proofs Require Import FftSpec.
Import ListNotations.
Local Open Scope Z_scope.

Definition zmap2 (f : Z -> Z -> Z) (a b : list Z) : list Z := map (fun p => f (fst p) (snd p)) (combine a b).
Definition vadd := zmap2 Z.add.
Definition vsub := zmap2 Z.sub.
Definition vmul := zmap2 Z.mul.
Definition vscale (c : Z) (a : list Z) : list Z := map (Z.mul c) a.

Lemma zmap2_length f a b : length (zmap2 f a b) = Nat.min (length a) (length b).
Proof. unfold zmap2. rewrite map_length, combine_length. reflexivity. Qed.
Lemma nth_zmap2 f : forall a b i, (i < length a)%nat -> (i < length b)%nat ->
  nth i (zmap2 f a b) 0 = f (nth i a 0) (nth i b 0).
Proof.
  unfold zmap2. induction a as [|x a IH]; intros [|y b] i Ha Hb; cbn in *; try lia. destruct i; [reflexivity|]. apply IH; lia.
Qed.
Lemma nth_vscale c a i : nth i (vscale c a) 0 = c * nth i a 0.
Proof. unfold vscale. replace 0 with (c * 0) at 1 by ring. apply map_nth. Qed.
Lemma vscale_length c a : length (vscale c a) = length a.
Proof. apply map_length. Qed.
Lemma zmap2_app f a b c d : length a = length c -> zmap2 f (a ++ b) (c ++ d) = zmap2 f a c ++ zmap2 f b d.
Proof.
  intros H. unfold zmap2.
  assert (E : combine (a ++ b) (c ++ d) = combine a c ++ combine b d).
  { revert c H. induction a as [|x a IH]; intros [|y c] H; cbn in *; try discriminate; [reflexivity|]. f_equal. apply IH. lia. }
  rewrite E, map_app. reflexivity.
Qed.
Lemma firstn_zmap2 f n : forall a b, firstn n (zmap2 f a b) = zmap2 f (firstn n a) (firstn n b).
Proof. unfold zmap2. induction n as [|n IH]; intros [|x a] [|y b]; cbn; try reflexivity. f_equal. apply IH. Qed.
Lemma skipn_zmap2 f n : forall a b, skipn n (zmap2 f a b) = zmap2 f (skipn n a) (skipn n b).
Proof.
  unfold zmap2. induction n as [|n IH]; intros [|x a] [|y b]; cbn; try reflexivity.
  - destruct (skipn n a); reflexivity.
  - apply IH.
Qed.
Lemma vscale_app c a b : vscale c (a ++ b) = vscale c a ++ vscale c b.
Proof. apply map_app. Qed.

Lemma vec_ext (a b : list Z) : length a = length b -> (forall i, (i < length a)%nat -> nth i a 0 = nth i b 0) -> a = b.
Proof.
  revert b. induction a as [|x a IH]; intros [|y b] H E; cbn in *; try discriminate; [reflexivity|].
  f_equal; [apply (E 0%nat); lia|]. apply IH; [lia|]. intros i Hi. apply (E (S i)). lia.
Qed.

(* ---------- the transform and the convolution ---------- *)
Fixpoint wht (k : nat) (l : list Z) : list Z :=
  match k with
  | O => l
  | S k' => let a := wht k' (firstn (p2 k') l) in let b := wht k' (skipn (p2 k') l) in vadd a b ++ vsub a b
  end.
Fixpoint xconv (k : nat) (a b : list Z) : list Z :=
  match k with
  | O => vmul a b
  | S k' =>
    let h := p2 k' in
    let a0 := firstn h a in let a1 := skipn h a in let b0 := firstn h b in let b1 := skipn h b in
    vadd (xconv k' a0 b0) (xconv k' a1 b1) ++ vadd (xconv k' a0 b1) (xconv k' a1 b0)
  end.

Lemma halves k (l : list Z) : length l = p2 (S k) -> length (firstn (p2 k) l) = p2 k /\ length (skipn (p2 k) l) = p2 k.
Proof. intros H. rewrite p2_S in H. rewrite firstn_length, skipn_length. lia. Qed.

Lemma wht_length k : forall l, length l = p2 k -> length (wht k l) = p2 k.
Proof.
  induction k as [|k IH]; intros l H; cbn [wht]; [exact H|]. destruct (halves k l H) as [H1 H2].
  unfold vadd, vsub. rewrite app_length, !zmap2_length, !IH by assumption. rewrite p2_S. lia.
Qed.
Lemma xconv_length k : forall a b, length a = p2 k -> length b = p2 k -> length (xconv k a b) = p2 k.
Proof.
  induction k as [|k IH]; intros a b Ha Hb; cbn [xconv].
  - unfold vmul. rewrite zmap2_length. lia.
  - destruct (halves k a Ha) as [A1 A2]. destruct (halves k b Hb) as [B1 B2].
    cbv zeta. unfold vadd. rewrite app_length, !zmap2_length, !IH by assumption. rewrite p2_S. lia.
Qed.

Ltac vext := apply vec_ext; [repeat (rewrite ?zmap2_length, ?vscale_length, ?wht_length, ?xconv_length, ?firstn_length, ?skipn_length, ?app_length); try lia|].

Section Lin.
Variable k : nat.
Hypothesis IHw : True.

End Lin.

Lemma wht_lin2 (f : Z -> Z -> Z) (Hf : forall a b c d, f (a + b) (c + d) = f a c + f b d) (Hf' : forall a b c d, f (a - b) (c - d) = f a c - f b d) k :
  forall a b, length a = p2 k -> length b = p2 k -> wht k (zmap2 f a b) = zmap2 f (wht k a) (wht k b).
Proof.
  induction k as [|k IH]; intros a b Ha Hb; cbn [wht]; [reflexivity|].
  destruct (halves k a Ha) as [A1 A2]. destruct (halves k b Hb) as [B1 B2].
  rewrite firstn_zmap2, skipn_zmap2, !IH by assumption.
  set (A0 := wht k (firstn (p2 k) a)). set (A1' := wht k (skipn (p2 k) a)).
  set (B0 := wht k (firstn (p2 k) b)). set (B1' := wht k (skipn (p2 k) b)).
  assert (LA0 : length A0 = p2 k) by (apply wht_length; assumption).
  assert (LA1 : length A1' = p2 k) by (apply wht_length; assumption).
  assert (LB0 : length B0 = p2 k) by (apply wht_length; assumption).
  assert (LB1 : length B1' = p2 k) by (apply wht_length; assumption).
  unfold vadd, vsub. rewrite zmap2_app by (rewrite !zmap2_length; lia). f_equal.
  - apply vec_ext; [rewrite !zmap2_length; lia|]. intros i Hi. rewrite !zmap2_length in Hi.
    rewrite !nth_zmap2 by (rewrite ?zmap2_length; lia). symmetry. apply Hf.
  - apply vec_ext; [rewrite !zmap2_length; lia|]. intros i Hi. rewrite !zmap2_length in Hi.
    rewrite !nth_zmap2 by (rewrite ?zmap2_length; lia). symmetry. apply Hf'.
Qed.
Lemma wht_add k a b : length a = p2 k -> length b = p2 k -> wht k (vadd a b) = vadd (wht k a) (wht k b).
Proof. apply wht_lin2; intros; ring. Qed.
Lemma wht_sub k a b : length a = p2 k -> length b = p2 k -> wht k (vsub a b) = vsub (wht k a) (wht k b).
Proof. apply wht_lin2; intros; ring. Qed.
Lemma vscale_zmap2 c f (Hf : forall x y, c * f x y = f (c * x) (c * y)) : forall a b,
  vscale c (zmap2 f a b) = zmap2 f (vscale c a) (vscale c b).
Proof. unfold vscale, zmap2. induction a as [|x a IH]; intros [|y b]; cbn; try reflexivity. rewrite Hf. f_equal. apply IH. Qed.
Lemma firstn_vscale c n a : firstn n (vscale c a) = vscale c (firstn n a).
Proof. apply firstn_map. Qed.
Lemma skipn_vscale c n a : skipn n (vscale c a) = vscale c (skipn n a).
Proof. apply skipn_map. Qed.
Lemma wht_scale c k : forall a, length a = p2 k -> wht k (vscale c a) = vscale c (wht k a).
Proof.
  induction k as [|k IH]; intros a Ha; cbn [wht]; [reflexivity|]. destruct (halves k a Ha) as [A1 A2].
  rewrite !firstn_vscale, !skipn_vscale, !IH by assumption. rewrite vscale_app. unfold vadd, vsub.
  rewrite !vscale_zmap2 by (intros; ring). reflexivity.
Qed.

(* ---------- bilinearity of the convolution ---------- *)
Lemma zmap2_zmap2_swap (f : Z -> Z -> Z) (Hf : forall a b c d, f (a + b) (c + d) = f a c + f b d) X X' Y Y' :
  length X = length X' -> length Y = length Y' -> length X = length Y ->
  zmap2 f (vadd X Y) (vadd X' Y') = vadd (zmap2 f X X') (zmap2 f Y Y').
Proof.
  intros H1 H2 H3. unfold vadd. apply vec_ext; [rewrite !zmap2_length; lia|]. intros i Hi. rewrite !zmap2_length in Hi.
  rewrite !nth_zmap2 by (rewrite ?zmap2_length; lia). apply Hf.
Qed.

Lemma xconv_lin_l (f : Z -> Z -> Z) (Hf : forall a b c d, f (a + b) (c + d) = f a c + f b d)
      (Hm : forall x x' z, f x x' * z = f (x * z) (x' * z)) k :
  forall a a' b, length a = p2 k -> length a' = p2 k -> length b = p2 k ->
  xconv k (zmap2 f a a') b = zmap2 f (xconv k a b) (xconv k a' b).
Proof.
  induction k as [|k IH]; intros a a' b Ha Ha' Hb; cbn [xconv].
  - unfold vmul. apply vec_ext; [rewrite !zmap2_length; lia|]. intros i Hi. rewrite !zmap2_length in Hi.
    rewrite !nth_zmap2 by (rewrite ?zmap2_length; lia). apply Hm.
  - cbv zeta. destruct (halves k a Ha) as [A1 A2]. destruct (halves k a' Ha') as [A1' A2']. destruct (halves k b Hb) as [B1 B2].
    rewrite firstn_zmap2, skipn_zmap2, !IH by assumption.
    rewrite zmap2_app by (unfold vadd; rewrite !zmap2_length, !xconv_length by assumption; lia).
    f_equal; symmetry; apply zmap2_zmap2_swap; try exact Hf; rewrite !xconv_length by assumption; reflexivity.
Qed.
Lemma xconv_lin_r (f : Z -> Z -> Z) (Hf : forall a b c d, f (a + b) (c + d) = f a c + f b d)
      (Hm : forall z x x', z * f x x' = f (z * x) (z * x')) k :
  forall a b b', length a = p2 k -> length b = p2 k -> length b' = p2 k ->
  xconv k a (zmap2 f b b') = zmap2 f (xconv k a b) (xconv k a b').
Proof.
  induction k as [|k IH]; intros a b b' Ha Hb Hb'; cbn [xconv].
  - unfold vmul. apply vec_ext; [rewrite !zmap2_length; lia|]. intros i Hi. rewrite !zmap2_length in Hi.
    rewrite !nth_zmap2 by (rewrite ?zmap2_length; lia). apply Hm.
  - cbv zeta. destruct (halves k a Ha) as [A1 A2]. destruct (halves k b Hb) as [B1 B2]. destruct (halves k b' Hb') as [B1' B2'].
    rewrite firstn_zmap2, skipn_zmap2, !IH by assumption.
    rewrite zmap2_app by (unfold vadd; rewrite !zmap2_length, !xconv_length by assumption; lia).
    f_equal; symmetry; apply zmap2_zmap2_swap; try exact Hf; rewrite !xconv_length by assumption; reflexivity.
Qed.

Lemma xconv_add_l k a a' b : length a = p2 k -> length a' = p2 k -> length b = p2 k ->
  xconv k (vadd a a') b = vadd (xconv k a b) (xconv k a' b).
Proof. apply (xconv_lin_l Z.add); intros; ring. Qed.
Lemma xconv_sub_l k a a' b : length a = p2 k -> length a' = p2 k -> length b = p2 k ->
  xconv k (vsub a a') b = vsub (xconv k a b) (xconv k a' b).
Proof. apply (xconv_lin_l Z.sub); intros; ring. Qed.
Lemma xconv_add_r k a b b' : length a = p2 k -> length b = p2 k -> length b' = p2 k ->
  xconv k a (vadd b b') = vadd (xconv k a b) (xconv k a b').
Proof. apply (xconv_lin_r Z.add); intros; ring. Qed.
Lemma xconv_sub_r k a b b' : length a = p2 k -> length b = p2 k -> length b' = p2 k ->
  xconv k a (vsub b b') = vsub (xconv k a b) (xconv k a b').
Proof. apply (xconv_lin_r Z.sub); intros; ring. Qed.

(* ---------- the convolution theorem ---------- *)
Theorem wht_conv k : forall a b, length a = p2 k -> length b = p2 k ->
  wht k (vmul (wht k a) (wht k b)) = vscale (2 ^ Z.of_nat k) (xconv k a b).
Proof.
  induction k as [|k IH]; intros a b Ha Hb.
  - cbn [wht xconv]. unfold vscale. change (2 ^ Z.of_nat 0) with 1. symmetry. erewrite map_ext; [apply map_id|]. intros; ring.
  - destruct (halves k a Ha) as [A1 A2]. destruct (halves k b Hb) as [B1 B2].
    set (a0 := firstn (p2 k) a) in *. set (a1 := skipn (p2 k) a) in *. set (b0 := firstn (p2 k) b) in *. set (b1 := skipn (p2 k) b) in *.
    assert (Ea : wht (S k) a = wht k (vadd a0 a1) ++ wht k (vsub a0 a1)).
    { cbn [wht]. fold a0 a1. rewrite wht_add, wht_sub by assumption. reflexivity. }
    assert (Eb : wht (S k) b = wht k (vadd b0 b1) ++ wht k (vsub b0 b1)).
    { cbn [wht]. fold b0 b1. rewrite wht_add, wht_sub by assumption. reflexivity. }
    rewrite Ea, Eb.
    assert (Lp : length (vadd a0 a1) = p2 k) by (unfold vadd; rewrite zmap2_length; lia).
    assert (Lm : length (vsub a0 a1) = p2 k) by (unfold vsub; rewrite zmap2_length; lia).
    assert (Lp' : length (vadd b0 b1) = p2 k) by (unfold vadd; rewrite zmap2_length; lia).
    assert (Lm' : length (vsub b0 b1) = p2 k) by (unfold vsub; rewrite zmap2_length; lia).
    unfold vmul at 1. rewrite zmap2_app by (rewrite !wht_length by assumption; reflexivity).
    fold vmul. cbn [wht].
    set (P1 := vmul (wht k (vadd a0 a1)) (wht k (vadd b0 b1))). set (P2 := vmul (wht k (vsub a0 a1)) (wht k (vsub b0 b1))).
    assert (LP1 : length P1 = p2 k) by (unfold P1, vmul; rewrite zmap2_length, !wht_length by assumption; lia).
    assert (LP2 : length P2 = p2 k) by (unfold P2, vmul; rewrite zmap2_length, !wht_length by assumption; lia).
    rewrite firstn_app, skipn_app, LP1, Nat.sub_diag. cbn [firstn skipn]. rewrite app_nil_r.
    rewrite firstn_all2 by lia. rewrite skipn_all2 by lia. cbn [app].
    unfold P1, P2. rewrite !IH by assumption.
    (* expand by bilinearity *)
    rewrite xconv_add_l, xconv_sub_l by assumption.
    rewrite !xconv_add_r, !xconv_sub_r by assumption.
    cbn [xconv]. cbv zeta. fold a0 a1 b0 b1.
    set (c00 := xconv k a0 b0). set (c01 := xconv k a0 b1). set (c10 := xconv k a1 b0). set (c11 := xconv k a1 b1).
    assert (L00 : length c00 = p2 k) by (apply xconv_length; assumption).
    assert (L01 : length c01 = p2 k) by (apply xconv_length; assumption).
    assert (L10 : length c10 = p2 k) by (apply xconv_length; assumption).
    assert (L11 : length c11 = p2 k) by (apply xconv_length; assumption).
    rewrite vscale_app.
    assert (E2 : 2 ^ Z.of_nat (S k) = 2 * 2 ^ Z.of_nat k) by (rewrite Nat2Z.inj_succ, Z.pow_succ_r by lia; reflexivity).
    rewrite E2. set (t := 2 ^ Z.of_nat k).
    f_equal; unfold vadd, vsub; apply vec_ext;
      try (rewrite ?zmap2_length, ?vscale_length, ?zmap2_length, ?vscale_length, ?zmap2_length; lia).
    + intros i Hi. rewrite ?zmap2_length, ?vscale_length, ?zmap2_length in Hi.
      repeat (rewrite ?nth_vscale, ?nth_zmap2 by (rewrite ?zmap2_length, ?vscale_length, ?zmap2_length; lia)). ring.
    + intros i Hi. rewrite ?zmap2_length, ?vscale_length, ?zmap2_length in Hi.
      repeat (rewrite ?nth_vscale, ?nth_zmap2 by (rewrite ?zmap2_length, ?vscale_length, ?zmap2_length; lia)). ring.
Qed.

(* ---------- the convolution, pointwise ---------- *)
Fixpoint zsum (n : nat) (f : nat -> Z) : Z := match n with O => 0 | S n' => zsum n' f + f n' end.
Lemma zsum_ext n f g : (forall y, (y < n)%nat -> f y = g y) -> zsum n f = zsum n g.
Proof. induction n as [|n IH]; intros H; cbn [zsum]; [reflexivity|]. rewrite IH by (intros; apply H; lia). rewrite H by lia. reflexivity. Qed.
Lemma zsum_add n f g : zsum n (fun y => f y + g y) = zsum n f + zsum n g.
Proof. induction n as [|n IH]; cbn [zsum]; [reflexivity|]. rewrite IH. ring. Qed.
Lemma zsum_split n m f : zsum (n + m) f = zsum n f + zsum m (fun y => f (n + y)%nat).
Proof. induction m as [|m IH]; [rewrite Nat.add_0_r; cbn [zsum]; ring|]. rewrite Nat.add_succ_r. cbn [zsum]. rewrite IH. ring. Qed.

Definition xr (x y : nat) : nat := N.to_nat (N.lxor (N.of_nat x) (N.of_nat y)).

Lemma p2_N' k : N.of_nat (p2 k) = (2 ^ N.of_nat k)%N.
Proof. unfold p2. rewrite Nat2N.inj_pow. reflexivity. Qed.
Lemma xr_lt k x y : (x < p2 k)%nat -> (y < p2 k)%nat -> (xr x y < p2 k)%nat.
Proof.
  intros Hx Hy. unfold xr. pose proof (p2_N' k) as P.
  assert (H : (N.lxor (N.of_nat x) (N.of_nat y) < 2 ^ N.of_nat k)%N).
  { apply FieldFacts.lt_shiftr. rewrite N.shiftr_lxor.
    assert (E1 : N.shiftr (N.of_nat x) (N.of_nat k) = 0%N) by (apply FieldFacts.lt_shiftr; lia).
    assert (E2 : N.shiftr (N.of_nat y) (N.of_nat k) = 0%N) by (apply FieldFacts.lt_shiftr; lia).
    rewrite E1, E2. reflexivity. }
  lia.
Qed.
Lemma xr_hi_r k x y : (x < p2 k)%nat -> (y < p2 k)%nat -> xr x (p2 k + y) = (p2 k + xr x y)%nat.
Proof.
  intros Hx Hy. unfold xr. pose proof (p2_N' k) as P. pose proof (xr_lt k x y Hx Hy) as L. unfold xr in L.
  rewrite Nat2N.inj_add, P.
  pose proof (add_aligned 1 (N.of_nat k) (N.of_nat y) ltac:(lia)) as E1. rewrite N.mul_1_l in E1. rewrite E1.
  rewrite (N.lxor_comm (2 ^ N.of_nat k)), <- N.lxor_assoc, N.lxor_comm.
  pose proof (add_aligned 1 (N.of_nat k) (N.lxor (N.of_nat x) (N.of_nat y)) ltac:(lia)) as E2. rewrite N.mul_1_l in E2.
  rewrite <- E2. lia.
Qed.
Lemma xr_hi_l k x y : (x < p2 k)%nat -> (y < p2 k)%nat -> xr (p2 k + x) y = (p2 k + xr x y)%nat.
Proof.
  intros Hx Hy. unfold xr. rewrite N.lxor_comm. fold (xr y (p2 k + x)). rewrite (xr_hi_r k y x Hy Hx). unfold xr. rewrite N.lxor_comm. reflexivity.
Qed.
Lemma xr_hi_lr k x y : (x < p2 k)%nat -> (y < p2 k)%nat -> xr (p2 k + x) (p2 k + y) = xr x y.
Proof.
  intros Hx Hy. unfold xr. pose proof (p2_N' k) as P. rewrite !Nat2N.inj_add, P.
  pose proof (add_aligned 1 (N.of_nat k) (N.of_nat x) ltac:(lia)) as E1. rewrite N.mul_1_l in E1.
  pose proof (add_aligned 1 (N.of_nat k) (N.of_nat y) ltac:(lia)) as E2. rewrite N.mul_1_l in E2.
  rewrite E1, E2. f_equal.
  rewrite N.lxor_assoc, <- (N.lxor_assoc (N.of_nat x)), (N.lxor_comm (N.of_nat x)), N.lxor_assoc, <- N.lxor_assoc, N.lxor_nilpotent, N.lxor_0_l. reflexivity.
Qed.

Theorem xconv_nth k : forall a b x, length a = p2 k -> length b = p2 k -> (x < p2 k)%nat ->
  nth x (xconv k a b) 0 = zsum (p2 k) (fun y => nth y a 0 * nth (xr x y) b 0).
Proof.
  induction k as [|k IH]; intros a b x Ha Hb Hx.
  - cbn [xconv]. change (p2 0) with 1%nat in *. assert (x = 0)%nat as -> by lia. unfold vmul. rewrite nth_zmap2 by lia.
    cbn [zsum]. unfold xr. cbn. ring.
  - cbn [xconv]. cbv zeta. destruct (halves k a Ha) as [A1 A2]. destruct (halves k b Hb) as [B1 B2].
    assert (Ea : forall y, (y < (p2 k))%nat -> nth y a 0 = nth y (firstn (p2 k) a) 0 /\ nth ((p2 k) + y) a 0 = nth y (skipn (p2 k) a) 0).
    { intros y Hy. rewrite <- (firstn_skipn (p2 k) a) at 1 3. split; [rewrite app_nth1 by lia; reflexivity|].
      rewrite app_nth2 by lia. f_equal. lia. }
    assert (Eb : forall y, (y < (p2 k))%nat -> nth y b 0 = nth y (firstn (p2 k) b) 0 /\ nth ((p2 k) + y) b 0 = nth y (skipn (p2 k) b) 0).
    { intros y Hy. rewrite <- (firstn_skipn (p2 k) b) at 1 3. split; [rewrite app_nth1 by lia; reflexivity|].
      rewrite app_nth2 by lia. f_equal. lia. }
    rewrite p2_S. rewrite zsum_split.
    destruct (Nat.ltb_spec x (p2 k)) as [Hl|Hg].
    + rewrite app_nth1 by (unfold vadd; rewrite zmap2_length, !xconv_length by assumption; lia).
      unfold vadd. rewrite nth_zmap2 by (rewrite xconv_length by assumption; lia).
      rewrite !IH by assumption. f_equal; apply zsum_ext; intros y Hy.
      * destruct (Ea y Hy) as [-> _]. destruct (Eb (xr x y) (xr_lt k x y Hl Hy)) as [-> _]. reflexivity.
      * destruct (Ea y Hy) as [_ ->]. rewrite (xr_hi_r k x y Hl Hy). destruct (Eb (xr x y) (xr_lt k x y Hl Hy)) as [_ ->]. reflexivity.
    + rewrite p2_S in Hx. set (x' := (x - (p2 k))%nat). assert (Ex : x = ((p2 k) + x')%nat) by (unfold x'; lia). assert (Hx' : (x' < (p2 k))%nat) by (unfold x'; lia).
      rewrite app_nth2 by (unfold vadd; rewrite zmap2_length, !xconv_length by assumption; lia).
      unfold vadd at 1. rewrite zmap2_length, !xconv_length by assumption. rewrite Nat.min_id. fold x'.
      unfold vadd. rewrite nth_zmap2 by (rewrite xconv_length by assumption; lia).
      rewrite !IH by assumption. rewrite Ex. f_equal; apply zsum_ext; intros y Hy.
      * destruct (Ea y Hy) as [-> _]. rewrite (xr_hi_l k x' y Hx' Hy). destruct (Eb (xr x' y) (xr_lt k x' y Hx' Hy)) as [_ ->]. reflexivity.
      * destruct (Ea y Hy) as [_ ->]. rewrite (xr_hi_lr k x' y Hx' Hy). destruct (Eb (xr x' y) (xr_lt k x' y Hx' Hy)) as [-> _]. reflexivity.
Qed.
