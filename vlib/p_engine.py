# C03 engines identical, C15 primitives/tables, C14 dispatch, C16 concurrency, C08 envelope
import hashlib
from .common import *

TWO = ['nosimd', 'ssse3', 'avx2', 'neon', 'default']


def gen_fft_cases(rng, n, big=2, unaligned=False):
    """one logical case = the same primitive call on every engine"""
    groups = []
    for t in range(n):
        k = rng.choice([0, 1, 2, 2, 3, 3, 4, 5, 6, 7, 8])
        if t < big:
            k = rng.choice([10, 12])
        size = 2 ** k
        trunc = rng.choice(sorted(set([1, size, size, max(1, size // 2 - 1), size // 2 + 1, max(1, size - 1), rng.randint(1, size)])))
        trunc = min(max(trunc, 1), size)
        pre, post = rng.randint(0, 3), rng.randint(0, 3)
        if k >= 10:
            pre = post = 1
        len64 = 1 if k >= 8 else rng.randint(1, 4)
        count = pre + size + post
        # skew_delta: multiple of size, skew index r + dist + sd - 1 <= 65534
        maxmul = (65536 - size) // size
        sd = size * rng.choice([0, 1, 1, 2, maxmul, rng.randint(0, maxmul)])
        if unaligned and rng.random() < 0.25:
            # not chunk-aligned: outside what the codecs use, but inside the skew table (engines must still agree)
            sd = rng.randint(0, 65535 - size)
            if rng.random() < 0.6:
                # aim at the table entries that hold GF_MODULUS (index 2^j - 1): exercises the xor-only butterfly branches
                sd = min(max(0, 2 ** rng.randint(0, 15) - 1 - rng.randint(0, size)), 65535 - size)
        which = rng.choice(['P.fft', 'P.ifft'])
        seed = rng.randint(1, 2 ** 40)
        zero_tail = which == 'P.ifft' and rng.random() < 0.5
        data = bytearray(prng_bytes(seed, count * len64 * 64))
        if zero_tail:
            a = (pre + trunc) * len64 * 64
            b = (pre + size) * len64 * 64
            data[a:b] = bytes(b - a)
        groups.append(dict(which=which, count=count, len64=len64, pos=pre, size=size, trunc=trunc, sd=sd,
                           data=bytes(data), zero_tail=zero_tail, k=k))
    return groups


def fft_case(cid, g, engine):
    return Case(cid, ['%s %s %d %d %d %d %d %d %s' % (g['which'], engine, g['count'], g['len64'], g['pos'], g['size'],
                                                        g['trunc'], g['sd'], g['data'].hex())],
                dict(engine=engine, **{k: g[k] for k in ('which', 'count', 'len64', 'pos', 'size', 'trunc', 'sd', 'zero_tail', 'k')}))


def regions(g):
    """byte ranges: frame (outside [pos,pos+size)), contract (outputs the Engine trait defines), garbage"""
    L = g['len64'] * 64
    a, b = g['pos'] * L, (g['pos'] + g['size']) * L
    if g['which'] == 'P.fft':
        c_end = (g['pos'] + g['trunc']) * L
    else:
        # ifft is only specified when the inputs beyond truncated_size are zero
        c_end = b if g['zero_tail'] or g['trunc'] == g['size'] else a
    return a, c_end, b


def check_fft_group(v, g, outs, label):
    """outs: engine -> bytes. C03 oracle: two-layer engines equal on all bytes; Naive equal on contract region; frame untouched."""
    a, c_end, b = regions(g)
    ref_e = next((e for e in TWO if outs.get(e) is not None), None)
    for e, o in outs.items():
        if o is None:
            continue
        if o[:a] != g['data'][:a] or o[b:] != g['data'][b:]:
            return '%s on %s changed shards outside the range it was asked to transform' % (g['which'], e)
    if ref_e is None:
        return None
    ref = outs[ref_e]
    for e in TWO:
        if outs.get(e) is not None and outs[e] != ref:
            return '%s: engines %s and %s differ (size=%d trunc=%d skew_delta=%d len64=%d)' % (g['which'], ref_e, e, g['size'], g['trunc'], g['sd'], g['len64'])
    if outs.get('naive') is not None and outs['naive'][a:c_end] != ref[a:c_end]:
        return '%s: Naive and %s differ on the contract-defined outputs (size=%d trunc=%d skew_delta=%d)' % (g['which'], ref_e, g['size'], g['trunc'], g['sd'])
    return None


def run_fft_groups(v, groups, tag, engines):
    cases = []
    for n, g in enumerate(groups):
        for e in engines:
            cases.append(fft_case('f%d_%s' % (n, e), g, e))
    w = [c.meta['size'] * c.meta['len64'] * (c.meta['k'] + 1) for c in cases]
    impl = run_cases('impl', cases, tag, weights=w)
    model = run_cases('model', cases, tag, weights=w)
    for n, g in enumerate(groups):
        outs = {}
        for e in engines:
            r = (impl.get('f%d_%s' % (n, e)) or [None])[0]
            outs[e] = bytes.fromhex(r[3:]) if r and r.startswith('ok ') else None
            if r is not None and not r.startswith('ok'):
                if r != 'noengine':
                    v.violation('%s on %s returned %s for arguments the contract permits' % (g['which'], e, r),
                                {'kind': 'oracle', 'case': fft_case('x', g, e).line()[:100000]})
        v.evaluations += 1
        v.nontrivial.add((g['which'], g['size'], g['trunc'], g['sd'], g['len64'], hashlib.md5(g['data']).hexdigest()))
        v.count('%s/size=2^%d/%s' % (g['which'], g['k'], 'full' if g['trunc'] == g['size'] else 'trunc'))
        why = check_fft_group(v, g, outs, tag)
        if why:
            v.violation(why, {'kind': 'oracle', 'oracle': 'engines pairwise / frame', 'group': {k: g[k] for k in g if k != 'data'},
                              'cases': [fft_case('x', g, e).line()[:60000] for e in engines[:6]]})
    if len(v.samples) < 3 and cases:
        v.samples.append(cases[0].line()[:500])

    def ignore(c, k, a, b):
        # model vs impl: compare frame + contract region; the documented garbage region is free
        if a is None or b is None or not a.startswith('ok ') or not b.startswith('ok '):
            return a == 'noengine'
        g = c.meta
        x, y = bytes.fromhex(a[3:]), bytes.fromhex(b[3:])
        lo, c_end, hi = regions(g)
        return x[:c_end] == y[:c_end] and x[hi:] == y[hi:]
    corr_report(v, cases, impl, model, 'fft/ifft per engine impl = model (contract region + frame)', ignore=ignore)
    return cases, impl


def gen_mul_cases(rng, n, engines):
    cases = []
    for t in range(n):
        log_m = rng.choice([0, 1, 2, 65534, 65535, rng.randint(0, 65535), rng.randint(0, 65535), rng.randint(0, 65535)])
        nb = rng.randint(1, 4)
        seed = rng.randint(1, 2 ** 40)
        data = bytearray(prng_bytes(seed, nb * 64))
        if rng.random() < 0.2:      # structured: single nibbles / zeros
            for i in range(len(data)):
                data[i] = rng.choice([0, 0, 1, 0x0f, 0xf0, 0x80, 0xff])
        for e in engines:
            cases.append(Case('m%d_%s' % (t, e), ['P.mul %s %d %s' % (e, log_m, bytes(data).hex())],
                              dict(engine=e, log_m=log_m, group=t, data=bytes(data))))
    return cases


def mul_oracle(data, log_m, exp, log):
    """independent of the crate: symbol * g^log_m with tables built in Python from the published constants"""
    out = bytearray(len(data))
    for q in range(len(data) // 64):
        for r in range(32):
            x = data[64 * q + r] | (data[64 * q + 32 + r] << 8)
            p = 0 if x == 0 else exp[(log[x] + log_m) % 65535]
            out[64 * q + r] = p & 255
            out[64 * q + 32 + r] = p >> 8
    return bytes(out)


_tables = None


def py_tables():
    """exp/log in the Cantor representation from GF_POLYNOMIAL and CANTOR_BASIS (own code)."""
    global _tables
    if _tables is None:
        from . import gf
        plog = [0] * 65536
        pexp = [0] * 65535
        s = 1
        for i in range(65535):
            plog[s] = i
            pexp[i] = s
            s <<= 1
            if s & 0x10000:
                s ^= gf.POLY
        log = [65535] * 65536
        exp = [0] * 65536
        for x in range(1, 65536):
            log[x] = plog[gf._PHI[x]]
            exp[log[x]] = x
        _tables = (exp, log)
    return _tables


def check_mul_cases(v, cases, impl):
    exp, log = py_tables()
    for c in cases:
        r = (impl.get(c.id) or [None])[0]
        if r == 'noengine':
            continue
        v.evaluations += 1
        v.nontrivial.add((c.meta['engine'], c.meta['log_m'], hashlib.md5(c.meta['data']).hexdigest()))
        v.count('mul/%s' % c.meta['engine'])
        want = mul_oracle(c.meta['data'], c.meta['log_m'], exp, log).hex()
        if r is None or not r.startswith('ok ') or r[3:] != want:
            v.violation('mul on %s does not multiply every symbol by g^%d' % (c.meta['engine'], c.meta['log_m']),
                        {'kind': 'oracle', 'oracle': 'field multiplication from the published constants', 'case': c.line()[:20000],
                         'impl': (r or '')[:600], 'expected': want[:600]})
            return


def gen_evalpoly(rng, n, engines):
    cases = []
    for t in range(n):
        kind = rng.choice(['high', 'low', 'sparse', 'dense'])
        if kind == 'high':
            top = rng.randint(2, 3000)
            marked = sorted(rng.sample(range(top), rng.randint(1, min(top, 40))))
            trunc = rng.choice([top, top + 1, 65536, np2(top)])
            sparse = ','.join('%d:1' % i for i in marked)
        elif kind == 'low':
            re_ = rng.randint(2, 5000)
            inner = sorted(rng.sample(range(re_), rng.randint(0, min(re_, 30))))
            marked = inner + list(range(re_, 65536))
            trunc = 65536
            sparse = ','.join(['%d:1' % i for i in inner] + ['%d-65535:1' % re_])
        elif kind == 'sparse':
            marked = sorted(rng.sample(range(65536), rng.randint(1, 50)))
            trunc = 65536
            sparse = ','.join('%d:1' % i for i in marked)
        else:
            a = rng.randint(0, 60000)
            b = a + rng.randint(1, 5000)
            marked = list(range(a, b + 1))
            trunc = rng.choice([b + 1, 65536])
            sparse = '%d-%d:1' % (a, b)
        xs = sorted(set(rng.sample(range(65536), 6) + marked[:2] + [0, 65535]))
        for e in engines:
            cases.append(Case('e%d_%s' % (t, e), ['P.evalpoly %s %d %s' % (e, trunc, sparse)],
                              dict(engine=e, group=t, kind=kind, marked=marked, trunc=trunc, xs=xs, sparse=sparse)))
    return cases


def check_evalpoly(v, cases, impl):
    exp, log = py_tables()
    groups = {}
    for c in cases:
        groups.setdefault(c.meta['group'], []).append(c)
    for g, cs in groups.items():
        outs = {}
        for c in cs:
            r = (impl.get(c.id) or [None])[0]
            if r and r.startswith('ok '):
                outs[c.meta['engine']] = r[3:]
        m = cs[0].meta
        v.evaluations += 1
        v.nontrivial.add(('evalpoly', m['sparse'][:200], m['trunc']))
        v.count('evalpoly/%s' % m['kind'])
        if len(set(outs.values())) > 1:
            v.violation('eval_poly differs between engines', {'kind': 'oracle', 'case': cs[0].line()[:20000], 'engines': list(outs)})
            continue
        if not outs:
            continue
        o = next(iter(outs.values()))
        for x in m['xs']:
            got = int(o[4 * x:4 * x + 4], 16) % 65535
            want = sum(log[x ^ j] for j in m['marked'] if j != x) % 65535
            if got != want:
                v.violation('eval_poly output at point %d is not the log of the locator product over the marked positions (mod 65535)' % x,
                            {'kind': 'oracle', 'oracle': 'sum of log(x xor j) from the published constants', 'case': cs[0].line()[:20000],
                             'x': x, 'got': got, 'expected': want, 'truncated_size': m['trunc']})
                break


def e2e_engine_groups(rng, n):
    """the same round trip on every engine and rate"""
    cases = []
    for t, (K, R, cls) in enumerate(shape_stream(rng, n // 2, n // 3, n // 6, 0)):
        sb = pick_sb(rng, cls, K, R)
        seed = rng.randint(1, 10 ** 6)
        pat = rng.choice(PATTERNS)
        sub = rng.randint(0, 2 ** 30)
        codec = rng.choice([c for c in codecs_for(K, R) if c != 'rs'])
        for e in ENGINES:
            c = roundtrip_case('g%d_%s' % (t, e), random.Random(sub), codec, e, K, R, sb, seed, pat)
            c.meta.update(group=t, cls=cls)
            cases.append(c)
    return cases


def check_C03(v, tier, rng):
    q = tier == 'quick'
    groups = gen_fft_cases(rng, 320 if q else 6000, big=2 if q else 20, unaligned=True)
    run_fft_groups(v, groups, 'C03fft', ENGINES)
    mc = gen_mul_cases(rng, 250 if q else 8000, ENGINES)
    impl = run_cases('impl', mc, 'C03mul')
    model = run_cases('model', mc, 'C03mul')
    check_mul_cases(v, mc, impl)
    corr_report(v, mc, impl, model, 'mul kernels per engine impl = model (intrinsic-level models)')
    ec = gen_evalpoly(rng, 6 if q else 60, ENGINES)
    impl = run_cases('impl', ec, 'C03ep')
    check_evalpoly(v, ec, impl)
    rc = e2e_engine_groups(rng, 60 if q else 800)
    w = [model_weight(c) for c in rc]
    impl = run_cases('impl', rc, 'C03e2e', weights=w)
    groups = {}
    for c in rc:
        groups.setdefault(c.meta['group'], []).append(c)
    for g, cs in groups.items():
        ref = None
        v.evaluations += 1
        v.nontrivial.add(('e2e', cs[0].meta['K'], cs[0].meta['R'], cs[0].meta['sb'], cs[0].meta['seed']))
        v.count('e2e/%s' % cs[0].meta['codec'])
        for c in cs:
            res = impl.get(c.id) or []
            if not check_roundtrip(v, c, res, 'C03 end to end'):
                break
            sig = (res[c.meta['enc_idx']], res[c.meta['dec_idx']])
            if ref is None:
                ref = (sig, c)
            elif sig != ref[0]:
                v.violation('encode/decode bytes differ between engines %s and %s (K=%d R=%d sb=%d %s)'
                            % (ref[1].meta['engine'], c.meta['engine'], c.meta['K'], c.meta['R'], c.meta['sb'], c.meta['codec']),
                            {'kind': 'oracle', 'case_a': ref[1].line()[:100000], 'case_b': c.line()[:100000]})
                break


# ------------------------------------------------------------------ C15
def check_C15(v, tier, rng):
    q = tier == 'quick'
    # 1. tables: exhaustive comparison of exp/log/walsh/skew; mul16/mul128 rows
    tdir_i = os.path.join(BUILD, 'run', 'C15', 'impl_tables')
    tdir_m = os.path.join(BUILD, 'run', 'C15', 'model_tables')
    for d in (tdir_i, tdir_m):
        shutil.rmtree(d, ignore_errors=True)
        os.makedirs(d)
    rc1, o1 = sh([rsh('release'), 'tables', tdir_i], timeout=600)
    p = subprocess.Popen([DRIVER, 'tables', tdir_m] + ([] if q else ['--full']), preexec_fn=None)
    p.wait()
    for name in ['exp', 'log', 'walsh', 'skew'] + ([] if q else ['mul16', 'mul128']):
        a = open(os.path.join(tdir_i, name + '.bin'), 'rb').read() if os.path.exists(os.path.join(tdir_i, name + '.bin')) else b''
        b = open(os.path.join(tdir_m, name + '.bin'), 'rb').read() if os.path.exists(os.path.join(tdir_m, name + '.bin')) else b'?'
        v.evaluations += 1
        v.count('table:' + name)
        v.extra.setdefault('tables_compared', {})[name] = len(a)
        if a != b:
            first = next((i for i in range(min(len(a), len(b))) if a[i] != b[i]), min(len(a), len(b)))
            ent = first // 2
            v.violation('table %s: entry %d differs from its definition (model table)' % (name, ent),
                        {'kind': 'oracle', 'oracle': 'tables defined from GF_POLYNOMIAL and CANTOR_BASIS (Model/Field.v, Tables.v), exhaustive',
                         'table': name, 'first_differing_entry': ent, 'impl': a[first - first % 2:first - first % 2 + 2].hex(),
                         'definition': b[first - first % 2:first - first % 2 + 2].hex(), 'replay': 'rsh tables <dir>; driver tables <dir>'})
    # exp/log against the independent Python construction too
    exp, log = py_tables()
    a = open(os.path.join(tdir_i, 'log.bin'), 'rb').read()
    ilog = [a[2 * i] | (a[2 * i + 1] << 8) for i in range(65536)] if len(a) == 131072 else []
    if ilog and ilog[1:] != log[1:]:
        i = next(i for i in range(1, 65536) if ilog[i] != log[i])
        v.violation('LOG table entry %d is not the discrete log in the Cantor representation' % i,
                    {'kind': 'oracle', 'table': 'log', 'entry': i, 'impl': ilog[i], 'expected': log[i]})
    if q:
        rows = sorted(set([0, 1, 2, 65534, 65535] + [rng.randrange(65536) for _ in range(512)]))
        rf = os.path.join(BUILD, 'run', 'C15', 'rows.txt')
        open(rf, 'w').write('\n'.join(map(str, rows)) + '\n')
        sh([DRIVER, 'rows', rf, rf + '.out'], timeout=600)
        m16 = open(os.path.join(tdir_i, 'mul16.bin'), 'rb').read()
        m128 = open(os.path.join(tdir_i, 'mul128.bin'), 'rb').read()
        for line in open(rf + '.out'):
            m, h16, lo, hi = line.split()
            m = int(m)
            want16 = b''.join(int(h16[4 * i:4 * i + 4], 16).to_bytes(2, 'little') for i in range(64))
            v.evaluations += 1
            if m16[m * 128:(m + 1) * 128] != want16 or m128[m * 128:(m + 1) * 128] != bytes.fromhex(lo) + bytes.fromhex(hi):
                v.violation('MUL16/MUL128 row log_m=%d differs from its definition' % m,
                            {'kind': 'oracle', 'table': 'mul16/mul128', 'log_m': m})
                break
        v.count('table:mul rows', len(rows))
    # 2. mul oracle on all engines
    mc = gen_mul_cases(rng, 200 if q else 6000, ENGINES)
    impl = run_cases('impl', mc, 'C15mul')
    model = run_cases('model', mc, 'C15mul')
    check_mul_cases(v, mc, impl)
    corr_report(v, mc, impl, model, 'mul impl = model')
    # 3. fft = LCH evaluation, ifft its inverse
    groups = []
    for t in range(60 if q else 1200):
        k = rng.choice([0, 1, 2, 3, 4, 5, 6] if q else [0, 1, 2, 3, 4, 5, 6, 7, 8])
        size = 2 ** k
        trunc = rng.choice([size, size, rng.randint(1, size)])
        maxmul = (65536 - size) // size
        sd = size * rng.choice([0, 1, 2, maxmul, rng.randint(0, maxmul)])
        seed = rng.randint(1, 2 ** 40)
        # the transformed range sits inside a larger shard array (pos != 0) in half of the groups
        pre = rng.choice([0, 0, 0, 1, 3, size, 2 * size])
        post = rng.choice([0, 0, 1, size])
        groups.append(dict(which='P.fft', count=pre + size + post, len64=1, pos=pre, size=size, trunc=trunc, sd=sd,
                           data=prng_bytes(seed, (pre + size + post) * 64), zero_tail=False, k=k))
    cases = []
    for n, g in enumerate(groups):
        for e in ENGINES:
            c = fft_case('l%d_%s' % (n, e), g, e)
            # inverse: ifft of the (full) fft output must return the input
            cases.append(c)
    impl = run_cases('impl', cases, 'C15fft')
    model = run_cases('model', cases, 'C15fft')
    qs = []
    lanes = {}
    for n, g in enumerate(groups):
        lane = rng.randrange(32)
        lanes[n] = lane
        coeffs = [g['data'][64 * (g['pos'] + i) + lane] | (g['data'][64 * (g['pos'] + i) + 32 + lane] << 8) for i in range(g['size'])]
        idxs = list(range(g['trunc'])) if g['trunc'] <= 16 else sorted(rng.sample(range(g['trunc']), 16))
        g['idxs'] = idxs
        qs.append('l%d lch %d %s %s' % (n, g['sd'], ','.join(map(str, idxs)), ','.join(map(str, coeffs))))
    orc = run_oracle(qs, 'C15')
    inv_cases = []
    for n, g in enumerate(groups):
        want = [int(x) for x in (orc.get('l%d' % n) or [''])[0].split(',') if x]
        v.evaluations += 1
        v.nontrivial.add(('fft', g['size'], g['trunc'], g['sd'], hashlib.md5(g['data']).hexdigest()))
        v.count('fft-lch/size=2^%d/%s/%s' % (g['k'], 'full' if g['trunc'] == g['size'] else 'trunc', 'pos=0' if g['pos'] == 0 else 'pos>0'))
        for e in ENGINES:
            r = (impl.get('l%d_%s' % (n, e)) or [None])[0]
            if not r or not r.startswith('ok '):
                continue
            out = bytes.fromhex(r[3:])
            got = [out[64 * (g['pos'] + i) + lanes[n]] | (out[64 * (g['pos'] + i) + 32 + lanes[n]] << 8) for i in g['idxs']]
            if got != want:
                v.violation('fft on %s: output %s is not the value of the LCH-basis polynomial at point skew_delta+i (size=%d trunc=%d skew_delta=%d)'
                            % (e, [i for i, (x, y) in zip(g['idxs'], zip(got, want)) if x != y][:1], g['size'], g['trunc'], g['sd']),
                            {'kind': 'oracle', 'oracle': 'Spec.lch_eval (product of subspace polynomials, no transform)',
                             'case': fft_case('x', g, e).line()[:60000], 'lane': lanes[n], 'got': got, 'expected': want})
                break
            if g['trunc'] == g['size']:
                gi = dict(g, which='P.ifft', data=out, zero_tail=False)
                ci = fft_case('i%d_%s' % (n, e), gi, e)
                ci.meta['orig'] = g['data'].hex()
                inv_cases.append(ci)
    impl_i = run_cases('impl', inv_cases, 'C15ifft')
    for c in inv_cases:
        r = (impl_i.get(c.id) or [None])[0]
        v.evaluations += 1
        if not r or r[3:] != c.meta['orig']:
            v.violation('ifft is not the inverse of fft on %s (size=%d skew_delta=%d)' % (c.meta['engine'], c.meta['size'], c.meta['sd']),
                        {'kind': 'oracle', 'case': c.line()[:60000]})
            break
    # truncated ifft with zero tail equals full ifft
    tg = [g for g in gen_fft_cases(rng, 40 if q else 600, big=0) if g['which'] == 'P.ifft' and g['zero_tail']]
    # the final odd layer of the two-layer schedule (sizes 2*4^k) with few valid inputs and a non-zero skew_delta
    for size in (2, 8, 32, 128):
        for trunc in sorted({1, max(1, size // 4), max(1, size // 2 - 1)}):
            sd = size * rng.randint(1, (65536 - size) // size)
            data = bytearray(prng_bytes(rng.randint(1, 2 ** 40), size * 64))
            data[trunc * 64:] = bytes((size - trunc) * 64)
            tg.append(dict(which='P.ifft', count=size, len64=1, pos=0, size=size, trunc=trunc, sd=sd,
                           data=bytes(data), zero_tail=True, k=size.bit_length() - 1))
    tc = []
    for n, g in enumerate(tg):
        for e in ENGINES:
            tc.append(fft_case('z%d_%s_t' % (n, e), g, e))
            tc.append(fft_case('z%d_%s_f' % (n, e), dict(g, trunc=g['size']), e))
    impl_t = run_cases('impl', tc, 'C15trunc')
    for i in range(0, len(tc), 2):
        a = (impl_t.get(tc[i].id) or [None])[0]
        b = (impl_t.get(tc[i + 1].id) or [None])[0]
        v.evaluations += 1
        v.count('ifft-zero-tail')
        if a != b:
            v.violation('ifft with a zero tail differs from the untruncated ifft (%s size=%d trunc=%d)' % (tc[i].meta['engine'], tc[i].meta['size'], tc[i].meta['trunc']),
                        {'kind': 'oracle', 'case': tc[i].line()[:60000], 'full_case': tc[i + 1].line()[:60000]})
            break

    def ignore(c, k, a, b):
        if a is None or b is None or not a.startswith('ok ') or not b.startswith('ok '):
            return a == 'noengine'
        x, y = bytes.fromhex(a[3:]), bytes.fromhex(b[3:])
        lo, c_end, hi = regions(c.meta)
        return x[:c_end] == y[:c_end] and x[hi:] == y[hi:]
    corr_report(v, cases, impl, model, 'fft impl = model (contract region + frame)', ignore=ignore)
    # 4. eval_poly
    ec = gen_evalpoly(rng, 8 if q else 80, ['nosimd', 'avx2', 'default'] if q else ENGINES)
    impl = run_cases('impl', ec, 'C15ep')
    check_evalpoly(v, ec, impl)
    sub = [c for c in ec if c.meta['engine'] == 'nosimd'][:4 if q else 20]
    model = run_cases('model', sub, 'C15ep')
    corr_report(v, sub, impl, model, 'eval_poly impl = model')
    # truncation independence
    tcs = []
    for c in [c for c in ec if c.meta['engine'] == 'nosimd' and c.meta['trunc'] != 65536][:6]:
        tcs.append((c, Case(c.id + 'full', ['P.evalpoly nosimd 65536 %s' % c.meta['sparse']], {})))
    impl_t = run_cases('impl', [t for _, t in tcs], 'C15ept')
    for c, t in tcs:
        a = (impl.get(c.id) or [None])[0]
        b = (impl_t.get(t.id) or [None])[0]
        if a and b:
            xa = [int(a[3 + 4 * i:7 + 4 * i], 16) % 65535 for i in range(65536)]
            xb = [int(b[3 + 4 * i:7 + 4 * i], 16) % 65535 for i in range(65536)]
            if xa != xb:
                v.violation('eval_poly result depends on truncated_size although it covers all non-zero entries',
                            {'kind': 'oracle', 'case': c.line()[:20000], 'full_case': t.line()[:20000]})


# ------------------------------------------------------------------ C14
def check_C14(v, tier, rng):
    q = tier == 'quick'
    rc, cpu = sh(['grep', '-m1', 'flags', '/proc/cpuinfo'])
    have = (1 if ' avx2' in cpu else 0) | (2 if ' ssse3' in cpu else 0)
    ref = None
    masks = [0, 1, 2, 3]
    for mask in masks:
        for rep in range(2 if q else 12):
            K, R, sb = rng.choice([(3, 2, 64), (5, 7, 66), (20, 4, 2), (2, 30, 130), (33, 33, 64)]) if rep else (5, 3, 64)
            seed = 1234 + rep
            rc, out = sh([rsh('release'), 'mask', str(mask), str(K), str(R), str(sb), str(seed)], timeout=120)
            v.evaluations += 1
            v.nontrivial.add((mask, K, R, sb, seed))
            v.count('mask=%d' % mask)
            fields = dict(x.split('=', 1) for x in out.strip().split() if '=' in x)
            eff = mask & have
            expect = 1 if eff & 1 else (2 if eff & 2 else 0)
            if len(v.samples) < 4:
                v.samples.append('rsh mask %d %d %d %d %d -> %s' % (mask, K, R, sb, seed, out.strip()[:160]))
            if rc != 0 or 'bytes' not in fields:
                v.violation('default engine failed under feature mask %d: %s' % (mask, out[-300:]),
                            {'kind': 'oracle', 'cmd': 'rsh mask %d %d %d %d %d' % (mask, K, R, sb, seed)})
                continue
            for prim in ('mul', 'fft', 'ifft', 'evalpoly', 'enc', 'dec'):
                t = int(fields.get(prim, -1))
                if t != expect:
                    what = 'ran code for unreported features' if t & ~eff else 'did not use the most capable reported feature'
                    v.violation('under reported-feature set %s the default engine %s in %s (ISA trace %d, expected %d; 1=AVX2 2=SSSE3 0=portable)'
                                % (eff, what, prim, t, expect),
                                {'kind': 'oracle', 'oracle': 'ISA trace at target_feature entry points', 'cmd': 'rsh mask %d %d %d %d %d' % (mask, K, R, sb, seed),
                                 'output': out.strip()[:2000]})
                    break
            key = (K, R, sb, seed)
            if ref is None:
                ref = {}
            if key in ref and ref[key] != fields['bytes']:
                v.violation('results differ between feature masks (mask %d vs earlier)' % mask,
                            {'kind': 'oracle', 'cmd': 'rsh mask %d %d %d %d %d' % (mask, K, R, sb, seed)})
            ref.setdefault(key, fields['bytes'])
    v.extra['cpu_reports'] = have


# ------------------------------------------------------------------ C16
def check_C16(v, tier, rng):
    q = tier == 'quick'
    n = 40 if q else 1000
    procs = []
    results = []

    def drain():
        while procs:
            p, desc = procs.pop(0)
            try:
                out, _ = p.communicate(timeout=120)
                rc = p.returncode
            except subprocess.TimeoutExpired:
                p.kill()
                out, rc = b'hang (killed by check)', 2
            results.append((desc, rc, out.decode(errors='replace').strip()))
    for t in range(n):
        nth = rng.choice([2, 3, 4, 8, 16])
        seed = rng.randint(1, 10 ** 6)
        rounds = rng.choice([2, 5, 12])
        prof = 'release' if t % 3 else 'debug'
        cmd = [rsh(prof), 'stress', str(nth), str(seed), str(rounds)]
        procs.append((subprocess.Popen(cmd, stdout=subprocess.PIPE, stderr=subprocess.STDOUT, env=ENV), ' '.join(cmd[1:]) + ' (%s)' % prof))
        if len(procs) >= 8:
            drain()
    drain()
    for desc, rc, out in results:
        v.evaluations += 1
        v.nontrivial.add(desc)
        v.count('threads=' + desc.split()[1])
        if len(v.samples) < 4:
            v.samples.append('rsh %s -> %s' % (desc, out[:80]))
        if rc != 0 or not out.startswith('ok'):
            v.violation('concurrent use differs from sequential use / hangs: rsh %s -> %s' % (desc, out[:200]),
                        {'kind': 'oracle', 'oracle': 'sequential recomputation; watchdog', 'cmd': 'rsh ' + desc, 'output': out[:2000]})


# ------------------------------------------------------------------ C08
def check_C08(v, tier, rng):
    q = tier == 'quick'
    # supports of all rate types vs the envelope (independent Python predicate from the README table) and vs the model's rmax
    ops = []
    vals = set()
    for n in range(17):
        for base in (2 ** n, 65536 - 2 ** n):
            for d in range(-2, 3):
                if base + d >= 0:
                    vals.add(base + d)
    vals |= {0, 1, 2, 3, 65535, 65536, 65537, 2 ** 32, 2 ** 63, 2 ** 63 + 1, 2 ** 64 - 1}
    vals = sorted(vals)
    pairs = [(a, b) for a in vals for b in vals]
    cases = []
    for i in range(0, len(pairs), 200):
        chunk = pairs[i:i + 200]
        ops = []
        for (K, R) in chunk:
            for c in ('rs', 'def', 'high', 'low'):
                ops.append('supports %s %d %d' % (c, K, R))
            ops.append('validate %s %d %d %d' % (rng.choice(['rs', 'def', 'high', 'low']), K, R, rng.choice([0, 1, 2, 64, 63, 2 ** 64 - 1])))
        cases.append(Case('g%d' % (i // 200), ops, dict(pairs=chunk)))
    impl = run_cases('impl', cases, 'C08')
    implD = run_cases('impl', cases, 'C08d', profile='debug')
    model = run_cases('model', cases, 'C08', adm=True)
    for c in cases:
        for tag, resd in (('release', impl), ('debug', implD)):
            res = resd.get(c.id) or []
            for k, op in enumerate(c.ops):
                t = op.split()
                a = res[k] if k < len(res) else None
                K, R = int(t[2]), int(t[3])
                if t[0] == 'supports':
                    want = {'rs': envelope, 'def': envelope, 'high': lambda K, R: envelope(K, R) and high_ok(K, R), 'low': lambda K, R: envelope(K, R) and low_ok(K, R)}[t[1]](K, R)
                    # dedicated rates: the part of the envelope in which R (resp. K) is the power-of-two-bounded side
                    if t[1] == 'high':
                        want = K >= 1 and R >= 1 and any(R <= 2 ** n and K <= 65536 - 2 ** n for n in range(17))
                    if t[1] == 'low':
                        want = K >= 1 and R >= 1 and any(K <= 2 ** n and R <= 65536 - 2 ** n for n in range(17))
                    v.evaluations += 1
                    if a != ('ok true' if want else 'ok false'):
                        v.violation('supports(%d, %d) of %s is %s but the documented envelope says %s (%s build)' % (K, R, t[1], a, want, tag),
                                    {'kind': 'oracle', 'oracle': 'README envelope', 'case': '%s %s' % (c.id, op), 'impl': a})
                        break
                else:
                    sb = int(t[4])
                    sup = {'rs': envelope, 'def': envelope, 'high': high_ok, 'low': low_ok}[t[1]](K, R)
                    good = sup and sb > 0 and sb % 2 == 0
                    if (a == 'ok') != good:
                        v.violation('validate(%d, %d, %d) of %s returns %s; supports=%s shard size valid=%s (%s build)' % (K, R, sb, t[1], a, sup, sb > 0 and sb % 2 == 0, tag),
                                    {'kind': 'oracle', 'case': '%s %s' % (c.id, op), 'impl': a})
                        break
    v.nontrivial.update(pairs[:5000])
    v.count('boundary pairs', len(pairs))
    corr_report(v, cases, impl, model, 'supports/validate on the boundary grid impl = model', with_adm=True)
    # exhaustive 0..=65537 squared through per-K intervals: harness counts vs the model's rmax
    lo, hi = (0, 65537)
    rc, out = sh([rsh('release'), 'supgrid', str(lo), str(hi)], timeout=1200)
    orc = run_oracle(['r rmax %d %d' % (lo, hi)], 'C08')
    rmax = {}
    for l in orc.get('r', []):
        k, val = l.split()
        rmax[int(k)] = int(val)
    nlines = 0
    for line in out.strip().split('\n'):
        f = line.split()
        if len(f) != 5:
            continue
        nlines += 1
        K, a, b, c_, okflag = int(f[0]), int(f[1]), int(f[2]), int(f[3]), f[4]
        if okflag != 'ok' or a != rmax.get(K, -1):
            v.violation('supports(%d, R) is true for %d values of R (interval check %s); the envelope allows exactly 1..=%d' % (K, a, okflag, rmax.get(K, -1)),
                        {'kind': 'oracle', 'oracle': 'Spec.rmax (envelope), exhaustive over R in 0..=65537', 'cmd': 'rsh supgrid %d %d' % (K, K), 'line': line})
            break
    v.evaluations += nlines
    v.extra['exhaustive_pairs'] = nlines * 65538
    v.count('exhaustive K rows', nlines)
    if nlines != hi - lo + 1:
        v.notes.append('supgrid returned %d lines' % nlines)
    # every corner really encodes and decodes (quick: a sample)
    from .p_codec import gen_roundtrips
    cs = corners()
    rt = []
    for n, (K, R) in enumerate(cs if not q else rng.sample(cs, 3)):
        for codec in codecs_for(K, R) if not q else [rng.choice(codecs_for(K, R))]:
            c = roundtrip_case('corner%d%s' % (n, codec), rng, codec, 'default' if codec == 'rs' else 'avx2', K, R, 2, rng.randint(1, 10 ** 6), 'maxloss')
            c.meta['cls'] = 'corner'
            rt.append(c)
    for n, (K, R, cls) in enumerate(shape_stream(rng, 20, 20, 5, 0)):
        codec = rng.choice(codecs_for(K, R))
        rt.append(roundtrip_case('in%d' % n, rng, codec, 'default' if codec == 'rs' else rng.choice(ENGINES), K, R, pick_sb(rng, cls, K, R), rng.randint(1, 10 ** 6), 'maxloss'))
    implr = run_cases('impl', rt, 'C08rt', weights=[model_weight(c) for c in rt])
    for c in rt:
        note_case(v, c, (c.meta['K'], c.meta['R'], c.meta['codec']))
        v.count('roundtrip/' + c.meta.get('cls', 'inner'))
        check_roundtrip(v, c, implr.get(c.id), 'C08 configuration inside the envelope')
