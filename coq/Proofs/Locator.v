(* eval_poly satisfies the decoder's requirement er_spec: its value at v represents, modulo
   65535, the logarithm of the erasure locator's derivative-like product at v. *)
From Coq Require Import ZArith NArith Arith Lia Bool List.
From RS.Gen Require Import Prelude GenConsts.
From RS.Model Require Import Field Tables Sched.
From RS.Proofs Require Import FieldFacts Ring Scale Param Lagrange FftSpec Cauchy WalshZ Walsh LchPoly DecodeBase.
Import ListNotations.
Local Open Scope N_scope.

(* ---------- logarithms of products ---------- *)
Lemma glog_1 : glog 1 = 0. Proof. vm_compute. reflexivity. Qed.
Lemma glog_fmul x y : W16 x -> W16 y -> x <> 0 -> y <> 0 -> glog (fmul x y) = (glog x + glog y) mod 65535.
Proof.
  intros Wx Wy Nx Ny. destruct (glog_lt x Wx Nx) as [Lx _]. destruct (glog_lt y Wy Ny) as [Ly _].
  unfold fmul, mul. apply N.eqb_neq in Nx, Ny. rewrite Nx, Ny. unfold add_mod. cbv zeta.
  destruct (N.ltb_spec (glog x + glog y) 65536) as [H|H].
  - destruct (N.eq_dec (glog x + glog y) 65535) as [E|E].
    + rewrite E, gexp_wrap. change (65535 mod 65535) with 0. destruct (gexp_facts 0 ltac:(lia)) as (_ & _ & G). apply G. lia.
    + rewrite N.mod_small by lia. destruct (gexp_facts (glog x + glog y) ltac:(lia)) as (_ & _ & G). apply G. lia.
  - destruct (gexp_facts (glog x + glog y - 65535) ltac:(lia)) as (_ & _ & G). rewrite G by lia.
    apply (N.mod_unique _ _ 1); lia.
Qed.

Definition lrep (o y : N) : Prop := o <= 65535 /\ W16 y /\ y <> 0 /\ o mod 65535 = glog y.

Lemma lrep_mul o y x : lrep o y -> W16 x -> mul x o = fmul x y /\ mul x (GF_MODULUS - o) = fdiv x y.
Proof.
  intros (Ho & Wy & Ny & E) Wx. destruct (glog_lt y Wy Ny) as [Ly _]. unfold GF_MODULUS.
  destruct (N.eq_dec o 65535) as [->|Ne].
  - change (65535 mod 65535) with 0 in E. change (65535 - 65535) with 0.
    assert (M : mul x 65535 = mul x 0).
    { unfold mul. destruct (x =? 0); [reflexivity|]. unfold add_mod. cbv zeta. rewrite N.add_0_r.
      destruct (N.ltb_spec (glog x + 65535) 65536) as [H|H].
      - assert (glog x = 0) as -> by lia. cbn. destruct (0 <? 65536); exact gexp_wrap.
      - replace (glog x + 65535 - 65535) with (glog x) by lia.
        destruct (N.ltb_spec (glog x) 65536); [reflexivity|].
        exfalso. destruct (N.eq_dec x 0) as [->|Nx]; [assert (G0 : glog 0 = 65535) by (vm_compute; reflexivity); rewrite G0 in H0; lia|]. destruct (glog_lt x Wx Nx). lia. }
    split.
    + rewrite M. rewrite <- mul_glog by exact Ny. rewrite <- E. reflexivity.
    + unfold fdiv, GF_MODULUS. rewrite <- E. change (65535 - 0) with 65535. rewrite M. unfold mul. destruct (x =? 0); reflexivity.
  - rewrite N.mod_small in E by lia. subst o. split; [apply mul_glog; exact Ny|].
    unfold fdiv, mul, GF_MODULUS. destruct (x =? 0); reflexivity.
Qed.

(* sum of logs <-> log of product *)
Definition lsum (L : list N) (g : N -> Z) : Z := fold_right (fun j acc => (g j + acc)%Z) 0%Z L.
Lemma lsum_app L1 L2 g : lsum (L1 ++ L2) g = (lsum L1 g + lsum L2 g)%Z.
Proof. induction L1 as [|j L1 IH]; cbn; [reflexivity|]. fold (lsum (L1 ++ L2) g). fold (lsum L1 g). rewrite IH. ring. Qed.

Lemma prod_log (xs : list N) : Forall (fun x => W16 x /\ x <> 0) xs ->
  let P := fold_right fmul 1 xs in
  W16 P /\ P <> 0 /\ (lsum xs (fun x => Z.of_N (glog x)) mod 65535 = Z.of_N (glog P))%Z.
Proof.
  induction 1 as [|x xs [Wx Nx] _ IH]; cbn [fold_right lsum].
  - cbv zeta. split; [apply W16_1|split; [discriminate|rewrite glog_1; reflexivity]].
  - cbv zeta in IH. destruct IH as (WP & NP & E). set (P := fold_right fmul 1 xs) in *.
    cbv zeta. fold P. split; [apply fmul_lt; assumption|split; [apply fmul_nz; assumption|]].
    fold (lsum xs (fun x => Z.of_N (glog x))).
    rewrite glog_fmul by assumption. rewrite N2Z.inj_mod, N2Z.inj_add. change (Z.of_N 65535) with 65535%Z.
    rewrite <- E. rewrite Zplus_mod_idemp_r. reflexivity.
Qed.

(* ---------- sums over marked positions ---------- *)
Lemma rangeN_snoc n : forall a, rangeN a (S n) = rangeN a n ++ [a + N.of_nat n].
Proof.
  induction n as [|n IH]; intros a; [cbn; rewrite N.add_0_r; reflexivity|].
  change (rangeN a (S (S n))) with (a :: rangeN (a + 1) (S n)). rewrite IH. cbn [rangeN app]. do 3 f_equal. lia.
Qed.
Lemma zsum_filter n (p : N -> bool) (g : N -> Z) :
  zsum n (fun y => ((if p (N.of_nat y) then 1 else 0) * g (N.of_nat y))%Z) = lsum (filter p (rangeN 0 n)) g.
Proof.
  induction n as [|n IH]; [reflexivity|]. cbn [zsum]. rewrite IH, rangeN_snoc, filter_app, lsum_app. rewrite N.add_0_l.
  cbn [filter]. destruct (p (N.of_nat n)); cbn [lsum fold_right]; ring.
Qed.
Lemma lsum_ext L g h : (forall j, In j L -> g j = h j) -> lsum L g = lsum L h.
Proof. induction L as [|j L IH]; intros H; cbn; [reflexivity|]. fold (lsum L g). fold (lsum L h). rewrite H by (left; reflexivity). rewrite IH; [reflexivity|]. intros; apply H; right; assumption. Qed.
Lemma lsum_map L (f : N -> N) g : lsum (map f L) g = lsum L (fun j => g (f j)).
Proof. induction L as [|j L IH]; cbn; [reflexivity|]. fold (lsum (map f L) g). fold (lsum L (fun j => g (f j))). rewrite IH. reflexivity. Qed.
Lemma lsum_filter_zero L (q : N -> bool) g : (forall j, In j L -> q j = false -> g j = 0%Z) -> lsum L g = lsum (filter q L) g.
Proof.
  induction L as [|j L IH]; intros H; cbn; [reflexivity|]. fold (lsum L g).
  rewrite IH by (intros; apply H; [right|]; assumption).
  destruct (q j) eqn:E; cbn; [reflexivity|]. rewrite (H j (or_introl eq_refl) E). apply Z.add_0_l.
Qed.

Definition Lf (i : N) : N := if i =? 0 then 0 else glog i.
Lemma logtab_nth i : i < 65536 -> nth (N.to_nat i) logtab 0 = Lf i.
Proof.
  intros Hi. unfold logtab, range.
  rewrite (nth_map_lt _ 0) by (rewrite rangeN_len'; unfold GF_ORDER; lia).
  rewrite nth_rangeN by (unfold GF_ORDER; lia). rewrite N.add_0_l, N2Nat.id. reflexivity.
Qed.

Lemma p2_16 : p2 16 = N.to_nat 65536.
Proof. apply Nat2N.inj. rewrite N2Nat.id. apply (p2_N' 16). Qed.

Theorem eval_poly_er_spec (el : N -> bool) t : t <= GF_ORDER -> (forall v, t <= v -> v < 65536 -> el v = false) ->
  er_spec (eval_poly (map (fun i => if el i then 1 else 0) (range 0 GF_ORDER)) t) (filter el (range 0 65536)).
Proof.
  intros Ht Hel. set (er := map (fun i => if el i then 1 else 0) (range 0 GF_ORDER)).
  assert (Ler : N.of_nat (length er) = GF_ORDER).
  { unfold er, range. rewrite map_length, rangeN_len', N2Nat.id. reflexivity. }
  assert (Her : Forall (fun x => x <= 65535) er).
  { unfold er. apply Forall_forall. intros x Hx. apply in_map_iff in Hx. destruct Hx as (i & <- & _). destruct (el i); lia. }
  assert (Enth : forall y, (y < p2 16)%nat -> nth y er 0 = if el (N.of_nat y) then 1 else 0).
  { intros y Hy. pose proof (p2_N' 16) as P. change (2 ^ N.of_nat 16) with 65536 in P.
    unfold er, range. rewrite (nth_map_lt _ 0) by (rewrite rangeN_len'; unfold GF_ORDER; lia).
    rewrite nth_rangeN by (unfold GF_ORDER; lia). rewrite N.add_0_l. reflexivity. }
  assert (Hz : forall i, (i < length er)%nat -> t <= N.of_nat i -> nth i er 0 = 0).
  { intros i Hi Hti. pose proof (p2_N' 16) as P. change (2 ^ N.of_nat 16) with 65536 in P. unfold GF_ORDER in Ler.
    rewrite Enth by lia. rewrite Hel by (try exact Hti; lia). reflexivity. }
  split.
  - rewrite (eval_poly_len er t Ler Her Ht Hz). apply Nat2N.inj. rewrite N2Nat.id. apply (p2_N' 16).
  - intros v x Hv Wx.
    assert (Hvn : (N.to_nat v < p2 16)%nat).
    { pose proof (p2_N' 16) as P. change (2 ^ N.of_nat 16) with 65536 in P. lia. }
    destruct (eval_poly_mod er t Ler Her Ht Hz (N.to_nat v) Hvn) as [Ho Hmod].
    set (o := nth (N.to_nat v) (eval_poly er t) 0) in *.
    set (E := filter el (range 0 65536)).
    assert (Wv : W16 v) by exact Hv.
    assert (WE : Forall W16 E) by (apply filter_W16, range_W16).
    (* the sum as a sum over the marked positions other than v *)
    assert (S1 : zsum (p2 16) (fun y => (Z.of_N (nth y er 0%N) * Z.of_N (nth (xr (N.to_nat v) y) logtab 0%N))%Z) =
                 lsum (map (N.lxor v) (filter (fun j => negb (j =? v)) E)) (fun x => Z.of_N (glog x))).
    { rewrite (zsum_ext _ _ (fun y => ((if el (N.of_nat y) then 1 else 0) * Z.of_N (Lf (N.lxor v (N.of_nat y))))%Z)).
      2:{ intros y Hy. rewrite Enth by exact Hy. unfold xr. rewrite N2Nat.id.
          rewrite logtab_nth.
          - destruct (el (N.of_nat y)); reflexivity.
          - pose proof (p2_N' 16) as P. change (2 ^ N.of_nat 16) with 65536 in P. apply W16_lxor; unfold W16; lia. }
      rewrite (zsum_filter (p2 16) el (fun j => Z.of_N (Lf (N.lxor v j)))).
      assert (ER : rangeN 0 (p2 16) = range 0 65536).
      { unfold range. change (65536 - 0) with 65536. rewrite <- p2_16. reflexivity. }
      rewrite ER. fold E.
      rewrite (lsum_filter_zero E (fun j => negb (j =? v))).
      2:{ intros j _ Hj. apply negb_false_iff, N.eqb_eq in Hj. subst j. rewrite N.lxor_nilpotent. reflexivity. }
      rewrite lsum_map. apply lsum_ext. intros j Hj. apply filter_In in Hj. destruct Hj as [_ Hj].
      apply negb_true_iff, N.eqb_neq in Hj. unfold Lf.
      destruct (N.eqb_spec (N.lxor v j) 0) as [E0|E0]; [apply N.lxor_eq in E0; congruence|reflexivity]. }
    rewrite S1 in Hmod.
    set (xs := map (N.lxor v) (filter (fun j => negb (j =? v)) E)) in *.
    assert (Hxs : Forall (fun x => W16 x /\ x <> 0) xs).
    { unfold xs. apply Forall_forall. intros y Hy. apply in_map_iff in Hy. destruct Hy as (j & <- & Hj).
      apply filter_In in Hj. destruct Hj as [HjE Hj]. apply negb_true_iff, N.eqb_neq in Hj.
      rewrite Forall_forall in WE. split; [apply W16_lxor; auto|]. intros E0. apply N.lxor_eq in E0. congruence. }
    destruct (prod_log xs Hxs) as (WP & NP & EP). cbv zeta in EP.
    assert (PE : fold_right fmul 1 xs = locN' E v) by (unfold locN'; rewrite locN_as_prod; reflexivity).
    rewrite PE in *.
    assert (LR : lrep o (locN' E v)).
    { split; [exact Ho|]. split; [exact WP|]. split; [exact NP|].
      apply N2Z.inj. rewrite N2Z.inj_mod. change (Z.of_N 65535) with 65535%Z. rewrite Hmod. exact EP. }
    apply lrep_mul; assumption.
Qed.
