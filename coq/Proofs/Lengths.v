(* Length facts: transforms preserve the length of the work vector, encode yields exactly
   recovery_count elements, every element keeps its lane count. *)
From Coq Require Import NArith Arith Lia Bool List.
From RS.Gen Require Import Prelude GenConsts.
From RS.Model Require Import Field Tables Sched Codec Layout.
From RS.Proofs Require Import FieldFacts Param SchedEquiv RateFacts.
Import ListNotations.
Local Open Scope N_scope.

Section Len.
Context {T : Type} (ops : elt_ops T).
Variable skewf : N -> N.

Lemma two_layer_length (two : N -> N -> N -> (T * T) * (T * T) -> (T * T) * (T * T)) f d :
  forall r trunc sd l, (4 * d * f <= length l)%nat -> length (two_layer skewf two f d r trunc sd l) = length l.
Proof.
  induction f as [|f IH]; intros r trunc sd l Hl; cbn [two_layer]; [reflexivity|].
  destruct (r <? trunc); [|reflexivity].
  rewrite !app_length, !map_length, !combine_length, !firstn_length, !skipn_length, IH; rewrite ?skipn_length; lia.
Qed.

Lemma fold_length {A} (f : list T -> A -> list T) ds : (forall (l : list T) d, length (f l d) = length l) ->
  forall l, length (fold_left f ds l) = length l.
Proof. intros H. induction ds as [|d ds IH]; intros l; cbn; [reflexivity|]. rewrite IH. apply H. Qed.

Lemma naive_pass_len bf size trunc sd (l : list T) d : N.of_nat (length l) = size ->
  length (naive_pass skewf bf size trunc sd l d) = length l.
Proof.
  intros Hl. unfold naive_pass. apply glayer_length.
  destruct (N.eq_dec d 0) as [->|Hd]; [cbn; lia|].
  pose proof (N.mul_div_le size (2 * d) ltac:(lia)). lia.
Qed.
Lemma two_pass_len two trunc sd (l : list T) d : length (two_pass skewf two trunc sd l d) = length l.
Proof.
  unfold two_pass. apply two_layer_length.
  destruct (N.eq_dec d 0) as [->|Hd]; [cbn; lia|].
  pose proof (N.mul_div_le (N.of_nat (length l)) (4 * d) ltac:(lia)). lia.
Qed.

Lemma naive_fft_len size trunc sd (l : list T) : N.of_nat (length l) = size -> length (naive_fft ops skewf size trunc sd l) = length l.
Proof.
  intros Hl. unfold naive_fft.
  assert (G : forall ds l0, N.of_nat (length l0) = size -> length (fold_left (naive_pass skewf (fft_bf ops) size trunc sd) ds l0) = length l0).
  { induction ds as [|d ds IH]; intros l0 H0; [reflexivity|]. cbn [fold_left]. rewrite IH; rewrite naive_pass_len; auto. }
  apply G, Hl.
Qed.
Lemma naive_ifft_len size trunc sd (l : list T) : N.of_nat (length l) = size -> length (naive_ifft ops skewf size trunc sd l) = length l.
Proof.
  intros Hl. unfold naive_ifft.
  assert (G : forall ds l0, N.of_nat (length l0) = size -> length (fold_left (naive_pass skewf (ifft_bf ops) size trunc sd) ds l0) = length l0).
  { induction ds as [|d ds IH]; intros l0 H0; [reflexivity|]. cbn [fold_left]. rewrite IH; rewrite naive_pass_len; auto. }
  apply G, Hl.
Qed.
Lemma two_fft_len size trunc sd (l : list T) : N.of_nat (length l) = size -> length (two_fft ops skewf size trunc sd l) = length l.
Proof.
  intros Hl. unfold two_fft. destruct (dists4_down 17 size (N.shiftr size 2)) as [ds d4].
  assert (L : length (fold_left (two_pass skewf (fft_two ops) trunc sd) ds l) = length l) by (apply fold_length; intros; apply two_pass_len).
  destruct (d4 =? 2); [|exact L]. rewrite glayer_length; [exact L|].
  rewrite L. pose proof (N.mul_div_le size 2 ltac:(lia)) as Hd. assert (E : N.of_nat (2 * 1 * N.to_nat (size / 2)) <= N.of_nat (length l)) by (rewrite !Nat2N.inj_mul, N2Nat.id, Hl; change (N.of_nat 2) with 2; change (N.of_nat 1) with 1; lia). lia.
Qed.
Lemma two_ifft_len k trunc sd (l : list T) : (k <= 16)%nat -> N.of_nat (length l) = 2 ^ N.of_nat k ->
  length (two_ifft ops skewf (2 ^ N.of_nat k) trunc sd l) = length l.
Proof.
  intros Hk Hl. pose proof sched_ok_i_all as H. rewrite forallb_forall in H. specialize (H k ltac:(apply in_seq; lia)).
  unfold sched_ok_i in H. cbv zeta in H. unfold two_ifft. set (size := 2 ^ N.of_nat k) in *.
  destruct (dists4_up 17 1 4 size) as [ds d].
  apply andb_prop in H. destruct H as [_ H3].
  assert (L : length (fold_left (two_pass skewf (ifft_two ops) trunc sd) ds l) = length l) by (apply fold_length; intros; apply two_pass_len).
  destruct (d <? size) eqn:E; [|exact L]. cbn [negb orb] in H3. apply andb_prop in H3. destruct H3 as [H3 H4].
  apply N.eqb_eq in H3. apply N.ltb_lt in H4.
  assert (H2d : 2 * d <= size).
  { pose proof (N.mul_div_le size (2 * d) ltac:(lia)) as Hm. rewrite H3 in Hm. lia. }
  set (X := fold_left _ ds l) in *.
  pose proof (bf2_length (ifft_bf ops (skewf (d + sd - 1))) (firstn (N.to_nat d) X) (firstn (N.to_nat d) (skipn (N.to_nat d) X))) as [L1 L2].
  destruct (bf2 _ _ _) as [a' b']. cbn [fst snd] in L1, L2.
  rewrite !app_length, L1, L2, !firstn_length, !skipn_length.
  assert (2 * N.to_nat d <= length X)%nat by lia. lia.
Qed.
End Len.

Lemma fft_len {T} (ops : elt_ops T) e size trunc sd (l : list T) : N.of_nat (length l) = size -> length (fft ops e size trunc sd l) = length l.
Proof. intros. unfold fft. destruct (two_layer_engine e); [apply two_fft_len|apply naive_fft_len]; assumption. Qed.
Lemma ifft_len {T} (ops : elt_ops T) e k trunc sd (l : list T) : (k <= 16)%nat -> N.of_nat (length l) = 2 ^ N.of_nat k ->
  length (ifft ops e (2 ^ N.of_nat k) trunc sd l) = length l.
Proof. intros. unfold ifft. destruct (two_layer_engine e); [apply two_ifft_len|apply naive_ifft_len]; assumption. Qed.

(* ---------- encode yields exactly recovery_count elements ---------- *)
Section EncLen.
Context {T : Type} (ops : elt_ops T).
Variable e : engine.

Lemma zero_tail_len keep (c : list T) : (keep <= length c)%nat -> length (zero_tail ops keep c) = length c.
Proof. intros H. unfold zero_tail, zeros. rewrite app_length, firstn_length, repeat_length. lia. Qed.
Lemma xor_list_len (a b : list T) : length (xor_list ops a b) = Nat.min (length a) (length b).
Proof. unfold xor_list, map2. rewrite map_length, combine_length. reflexivity. Qed.

(* npow2 as a power with an explicit exponent <= 16 *)
Lemma npow2_exp x : 1 <= x -> x <= 65536 -> exists k, (k <= 16)%nat /\ npow2 x = 2 ^ N.of_nat k.
Proof.
  intros H1 H2. destruct (npow2_spec x H1) as (a & Ha & _ & Hmin).
  exists (N.to_nat a). rewrite N2Nat.id. split; [|exact Ha].
  specialize (Hmin 16 H2). apply N.pow_le_mono_r_iff in Hmin; lia.
Qed.

Lemma chunks_all_len m : (0 < m)%nat -> forall fuel (l : list T) q, length l = (m * q)%nat ->
  Forall (fun c => length c = m) (chunks fuel m l).
Proof.
  intros Hm. induction fuel as [|f IH]; intros l q Hl; cbn [chunks]; [constructor|].
  destruct l as [|x l]; [constructor|]. destruct q as [|q]; [rewrite Nat.mul_0_r in Hl; discriminate|].
  constructor.
  - rewrite firstn_length. rewrite Hl. nia.
  - apply (IH _ q). rewrite skipn_length, Hl. nia.
Qed.

Lemma high_enc_chunks_len K m k : (k <= 16)%nat -> m = 2 ^ N.of_nat k -> forall cl cs acc,
  length acc = N.to_nat m -> Forall (fun c => length c = N.to_nat m) cl ->
  length (high_enc_chunks ops e K m cs acc cl) = N.to_nat m.
Proof.
  intros Hk Hm. induction cl as [|c cl IH]; intros cs acc Ha Hc; cbn [high_enc_chunks]; [exact Ha|].
  pose proof (Forall_inv Hc) as Hc1. pose proof (Forall_inv_tail Hc) as Hc2. cbv beta in Hc1.
  assert (Lc : N.of_nat (length c) = 2 ^ N.of_nat k) by (rewrite Hc1, <- Hm; apply N2Nat.id).
  destruct (cs + m <=? K).
  - apply IH; [|exact Hc2]. rewrite xor_list_len, Ha. rewrite Hm at 2. rewrite ifft_len by assumption. lia.
  - destruct (0 <? K mod m) eqn:El; [|exact Ha].
    rewrite xor_list_len, Ha. rewrite Hm at 2.
    pose proof (N.mod_upper_bound K m ltac:(rewrite Hm; apply N.pow_nonzero; lia)) as Hmod.
    rewrite ifft_len; try assumption.
    + rewrite zero_tail_len by lia. lia.
    + rewrite zero_tail_len by lia. exact Lc.
Qed.

Theorem encode_high_length K R (w : list T) : 1 <= K -> 1 <= R -> R < 65536 ->
  length w = N.to_nat (high_enc_work_count K R) -> length (encode_high ops e K R w) = N.to_nat R.
Proof.
  intros HK HR HR2 Hw. unfold encode_high. unfold high_enc_work_count, np2 in *.
  destruct (npow2_exp R HR ltac:(lia)) as (k & Hk & Hm). set (m := npow2 R) in *.
  assert (Hmpos : 0 < m) by (rewrite Hm; pose proof (N.pow_nonzero 2 (N.of_nat k)); lia).
  pose proof (npow2_ge R) as HRm. fold m in HRm.
  destruct (next_mult_bounds K m ltac:(lia)) as (B1 & B2 & B3).
  assert (Hq : exists q, next_mult K m = m * q /\ 1 <= q).
  { exists (next_mult K m / m). pose proof (N.div_mod (next_mult K m) m ltac:(lia)) as D. rewrite B3 in D.
    rewrite N.add_0_r in D. split; [exact D|].
    destruct (N.eq_dec (next_mult K m / m) 0) as [E|E]; [rewrite E, N.mul_0_r in D; lia|lia]. }
  destruct Hq as (q & Hq & Hq1).
  assert (Hwn : length w = (N.to_nat m * N.to_nat q)%nat) by (rewrite Hw, Hq; lia).
  pose proof (chunks_all_len (N.to_nat m) ltac:(lia) (length w) w (N.to_nat q) Hwn) as Hch.
  destruct (chunks (length w) (N.to_nat m) w) as [|c0 rest] eqn:Ec.
  - exfalso. destruct w as [|x w0]; [cbn in Hwn; lia|]. cbn in Ec. discriminate.
  - pose proof (Forall_inv Hch) as H0. pose proof (Forall_inv_tail Hch) as Hrest. cbv beta in H0.
    assert (L0 : N.of_nat (length c0) = 2 ^ N.of_nat k) by (rewrite H0, <- Hm; apply N2Nat.id).
    set (c0' := ifft ops e m (N.min K m) m (zero_tail ops (N.to_nat (N.min K m)) c0)).
    assert (Lc0' : length c0' = N.to_nat m).
    { unfold c0'. rewrite Hm at 1. rewrite ifft_len; try assumption; rewrite zero_tail_len by lia; [exact H0|exact L0]. }
    assert (Lacc : length (if m <? K then high_enc_chunks ops e K m m c0' rest else c0') = N.to_nat m).
    { destruct (m <? K); [|exact Lc0']. apply (high_enc_chunks_len K m k Hk Hm); assumption. }
    rewrite firstn_length, fft_len; [rewrite Lacc; lia|]. rewrite Lacc. apply N2Nat.id.
Qed.

Lemma low_enc_chunks_len R m k : (k <= 16)%nat -> m = 2 ^ N.of_nat k -> forall fuel cs (co : list T) j,
  length co = N.to_nat m -> cs = j * m -> cs <= R -> (N.to_nat ((R - cs) / m) < fuel)%nat ->
  (N.to_nat (R - cs) <= length (low_enc_chunks ops e fuel R m cs co))%nat.
Proof.
  intros Hk Hm. assert (Hmpos : 0 < m) by (rewrite Hm; pose proof (N.pow_nonzero 2 (N.of_nat k)); lia).
  induction fuel as [|f IH]; intros cs co j Hco Hj Hcs Hf; [exfalso; exact (Nat.nlt_0_r _ Hf)|].
  cbn [low_enc_chunks].
  assert (Lco : N.of_nat (length co) = 2 ^ N.of_nat k) by (rewrite Hco, <- Hm; apply N2Nat.id).
  destruct (N.leb_spec (cs + m) R) as [Hfull|Hpart].
  - rewrite app_length. rewrite Hm at 1. rewrite fft_len by assumption.
    assert (Hd : (R - cs) / m = (R - (cs + m)) / m + 1).
    { replace (R - cs) with ((R - (cs + m)) + 1 * m) by lia. rewrite N.div_add by lia. reflexivity. }
    assert (Hj' : cs + m = (j + 1) * m) by (rewrite Hj, N.mul_add_distr_r, N.mul_1_l; reflexivity).
    assert (Hf' : (N.to_nat ((R - (cs + m)) / m) < f)%nat).
    { rewrite Hd in Hf. remember ((R - (cs + m)) / m) as qq. clear - Hf. lia. }
    specialize (IH (cs + m) co (j + 1) Hco Hj' Hfull Hf').
    remember (length (low_enc_chunks ops e f R m (cs + m) co)) as LL. rewrite Hco. clear - IH Hfull Hmpos. lia.
  - destruct (0 <? R mod m) eqn:El.
    + rewrite Hm at 1. rewrite fft_len by assumption. rewrite Hco. clear - Hpart Hcs. lia.
    + apply N.ltb_ge in El. assert (E0 : R mod m = 0) by (remember (R mod m) as rm; clear - El; lia).
      pose proof (N.div_mod R m ltac:(lia)) as D. rewrite E0, N.add_0_r in D.
      (* R and cs are multiples of m with cs <= R < cs + m *)
      assert (R = cs) as ->; [|rewrite N.sub_diag; cbn; apply Nat.le_0_l]. subst cs.
      assert (Hq : R / m = j); [|rewrite D, Hq; apply N.mul_comm].
      assert (H1 : j <= R / m) by (apply N.div_le_lower_bound; [clear - Hmpos; lia|rewrite N.mul_comm; exact Hcs]).
      assert (H2 : R / m < j + 1) by (apply N.div_lt_upper_bound; [clear - Hmpos; lia|rewrite N.mul_comm, N.mul_add_distr_r, N.mul_1_l; exact Hpart]).
      remember (R / m) as qq. clear - H1 H2. lia.
Qed.

Theorem encode_low_length K R (w : list T) : 1 <= K -> K <= 65536 -> 1 <= R ->
  (N.to_nat (np2 K) <= length w)%nat -> length (encode_low ops e K R w) = N.to_nat R.
Proof.
  intros HK HK2 HR Hw. unfold encode_low. unfold np2 in *.
  destruct (npow2_exp K HK HK2) as (k & Hk & Hm). set (m := npow2 K) in *.
  assert (Hmpos : 0 < m) by (rewrite Hm; pose proof (N.pow_nonzero 2 (N.of_nat k)); lia).
  pose proof (npow2_ge K) as HKm. fold m in HKm.
  set (c0 := zero_tail ops (N.to_nat K) (firstn (N.to_nat m) w)).
  assert (L0 : length c0 = N.to_nat m) by (unfold c0; rewrite zero_tail_len; rewrite firstn_length; lia).
  set (co := ifft ops e m K 0 c0).
  assert (Lco : length co = N.to_nat m).
  { unfold co. rewrite Hm at 1. rewrite ifft_len; try assumption. rewrite L0, <- Hm. apply N2Nat.id. }
  pose proof (low_enc_chunks_len R m k Hk Hm (S (N.to_nat (R / m))) 0 co 0 Lco ltac:(lia) ltac:(lia)) as H.
  rewrite N.sub_0_r in H. specialize (H ltac:(lia)).
  rewrite firstn_length. lia.
Qed.
End EncLen.
