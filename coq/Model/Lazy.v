(* Lazily initialised global tables (src/engine/tables.rs: LazyLock statics) as an
   abstract once-cell machine. The dependency graph comes from Gen/GenStatics.v. *)
From Coq Require Import NArith Bool List String.
From RS.Gen Require Import Prelude GenStatics.
Import ListNotations.
Local Open Scope string_scope.

Definition names (d : list (string * list string)) : list string := map fst d.
Definition deps_of (d : list (string * list string)) (c : string) : list string :=
  match find (fun p => String.eqb (fst p) c) d with Some p => snd p | None => [] end.

(* can [target] be reached from [c] in at most [fuel] dependency steps (at least one step)? *)
Fixpoint reaches (d : list (string * list string)) (fuel : nat) (c target : string) : bool :=
  match fuel with
  | O => false
  | S f => existsb (fun x => String.eqb x target || reaches d f x target) (deps_of d c)
  end.
Definition acyclicb (d : list (string * list string)) : bool :=
  forallb (fun c => negb (reaches d (List.length d) c c)) (names d).
(* every dependency is itself a declared static *)
Definition closedb (d : list (string * list string)) : bool :=
  forallb (fun p => forallb (fun x => existsb (String.eqb x) (names d)) (snd p)) d.

(* a rank function: length of the longest dependency chain below a cell *)
Fixpoint depth (d : list (string * list string)) (fuel : nat) (c : string) : nat :=
  match fuel with
  | O => O
  | S f => fold_right (fun x acc => Nat.max (S (depth d f x)) acc) O (deps_of d c)
  end.
Definition rank (d : list (string * list string)) (c : string) : nat := depth d (List.length d) c.
Definition ranked (d : list (string * list string)) : bool :=
  forallb (fun p => forallb (fun x => Nat.ltb (rank d x) (rank d (fst p))) (snd p)) d.

(* ---------- the once-cell machine ---------- *)
Inductive cell := Uninit | Running (tid : nat) | Done.
Definition cells := string -> cell.
Definition cset (cs : cells) (c : string) (v : cell) : cells :=
  fun x => if String.eqb x c then v else cs x.

(* a thread: the stack of initialisers it is running (innermost first) and the cells it still wants *)
Record thread := { stack : list string; pending : list string }.
Record mstate := { tbl : cells; threads : list thread; inits : list string (* completed initialisations, in order *) }.

Definition set_thread (ts : list thread) (t : nat) (th : thread) : list thread :=
  firstn t ts ++ th :: skipn (S t) ts.

Definition is_done (cs : cells) (c : string) : bool := match cs c with Done => true | _ => false end.

(* one step of thread t; None = not enabled (finished or blocked) *)
Definition mstep (d : list (string * list string)) (m : mstate) (t : nat) : option mstate :=
  match nth_error (threads m) t with
  | None => None
  | Some th =>
    match stack th with
    | c :: rest =>
      match find (fun x => negb (is_done (tbl m) x)) (deps_of d c) with
      | None => (* all dependencies initialised: run the initialiser to completion, publish *)
        Some {| tbl := cset (tbl m) c Done; threads := set_thread (threads m) t {| stack := rest; pending := pending th |};
                inits := inits m ++ [c] |}
      | Some x =>
        match tbl m x with
        | Uninit => Some {| tbl := cset (tbl m) x (Running t);
                            threads := set_thread (threads m) t {| stack := x :: stack th; pending := pending th |};
                            inits := inits m |}
        | _ => None (* Running elsewhere: blocked; Running here: a cycle (std would deadlock/panic) *)
        end
      end
    | [] =>
      match pending th with
      | [] => None
      | c :: rest =>
        match tbl m c with
        | Done => Some {| tbl := tbl m; threads := set_thread (threads m) t {| stack := []; pending := rest |}; inits := inits m |}
        | Uninit => Some {| tbl := cset (tbl m) c (Running t);
                            threads := set_thread (threads m) t {| stack := [c]; pending := pending th |}; inits := inits m |}
        | Running _ => None
        end
      end
    end
  end.

Definition thread_finished (th : thread) : bool := match stack th, pending th with [], [] => true | _, _ => false end.
Definition finished (m : mstate) : bool := forallb thread_finished (threads m).

(* run a schedule (list of thread ids; steps of non-enabled threads are skipped) *)
Fixpoint mrun (d : list (string * list string)) (m : mstate) (sched : list nat) : mstate :=
  match sched with
  | [] => m
  | t :: rest => match mstep d m t with Some m' => mrun d m' rest | None => mrun d m rest end
  end.

Definition minit (wants : list (list string)) : mstate :=
  {| tbl := fun _ => Uninit; threads := map (fun w => {| stack := []; pending := w |}) wants; inits := [] |}.
