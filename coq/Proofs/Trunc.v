(* Truncated transforms.  The engines skip blocks whose start is at or beyond `truncated_size`;
   the two-layer engines moreover process whole 4*dist blocks, so different engines touch
   different sets of blocks.  This file shows, for any element type and any skew table:
   - (fft) every output below the truncation point is the same whichever blocks beyond it were
     processed, hence equals the output of the untruncated reference transform;
   - (ifft) when the input is zero from the truncation point on, the truncated transform of any
     engine equals the untruncated reference transform. *)
From Coq Require Import NArith Arith Lia Bool List.
From RS.Gen Require Import Prelude GenConsts.
From RS.Model Require Import Field Tables Sched.
From RS.Proofs Require Import SchedEquiv.
Import ListNotations.
Local Open Scope N_scope.

Definition p2' (k : nat) : nat := Nat.pow 2 k.
Lemma p2'_pos k : (0 < p2' k)%nat.
Proof. unfold p2'. induction k; cbn; lia. Qed.
Lemma p2'_S k : p2' (S k) = (p2' k + p2' k)%nat.
Proof. unfold p2'. cbn. lia. Qed.
Definition ddists' (k : nat) : list nat := map p2' (rev (seq 0 k)).
Lemma ddists'_S k : ddists' (S k) = p2' k :: ddists' k.
Proof. unfold ddists'. rewrite seq_S, rev_app_distr. reflexivity. Qed.

Section Gen.
Context {T : Type}.
Variable skewf : N -> N.
Variable bfa : N -> T * T -> T * T.
Variable sd : N.
Notation layer := (naive_layer skewf bfa).

Lemma glayer_stop f d r trunc l : trunc <= r -> layer f d r trunc sd l = l.
Proof. intros H. destruct f; cbn [naive_layer]; [reflexivity|]. assert ((r <? trunc) = false) as -> by (apply N.ltb_ge; exact H). reflexivity. Qed.

(* a layer acts independently on consecutive parts whose lengths are multiples of 2 dist,
   whatever the truncation *)
Lemma glayer_app' f1 f2 dist : forall r trunc l1 l2, length l1 = (2 * dist * f1)%nat -> (0 < dist)%nat ->
  layer (f1 + f2) dist r trunc sd (l1 ++ l2) =
  layer f1 dist r trunc sd l1 ++ layer f2 dist (r + N.of_nat (length l1)) trunc sd l2.
Proof.
  induction f1 as [|f1 IH]; intros r trunc l1 l2 Hl Hd.
  - rewrite Nat.mul_0_r in Hl. destruct l1; [|discriminate]. cbn [naive_layer app length Nat.add]. rewrite N.add_0_r. reflexivity.
  - cbn [Nat.add naive_layer].
    destruct (r <? trunc) eqn:Hr.
    + rewrite (firstn_app_le' dist l1 l2) by lia. rewrite (skipn_app_le' dist l1 l2) by lia.
      rewrite (firstn_app_le' dist (skipn dist l1) l2) by (rewrite skipn_length; lia).
      rewrite (skipn_app_le' dist (skipn dist l1) l2) by (rewrite skipn_length; lia).
      destruct (bf2 _ (firstn dist l1) (firstn dist (skipn dist l1))) as [a' b'].
      rewrite <- !app_assoc. f_equal. f_equal.
      rewrite (IH (r + 2 * N.of_nat dist) trunc (skipn dist (skipn dist l1)) l2).
      * f_equal. f_equal. rewrite !skipn_length. lia.
      * rewrite !skipn_length. lia.
      * exact Hd.
    + f_equal. symmetry. apply glayer_stop. apply N.ltb_ge in Hr. lia.
Qed.

(* one pass over a (sub-)vector starting at work position r0; dt = (dist, truncation) *)
Definition tpass (r0 : N) (l : list T) (dt : nat * N) : list T :=
  layer (Nat.div (length l) (2 * fst dt)) (fst dt) r0 (snd dt) sd l.

Lemma tpass_length r0 l dt : (0 < fst dt)%nat -> length (tpass r0 l dt) = length l.
Proof.
  intros Hd. unfold tpass. apply glayer_length.
  pose proof (Nat.mul_div_le (length l) (2 * fst dt) ltac:(lia)). lia.
Qed.
Lemma tpasses_length dts : Forall (fun dt => (0 < fst dt)%nat) dts ->
  forall r0 l, length (fold_left (tpass r0) dts l) = length l.
Proof.
  induction dts as [|dt dts IH]; intros H r0 l; [reflexivity|]. inversion H; subst.
  cbn [fold_left]. rewrite IH by assumption. apply tpass_length. assumption.
Qed.

Definition divs (n m : nat) (dt : nat * N) : Prop :=
  (0 < fst dt)%nat /\ exists fx fy, n = (2 * fst dt * fx)%nat /\ m = (2 * fst dt * fy)%nat.

Lemma tpass_app r0 x y dt : divs (length x) (length y) dt ->
  tpass r0 (x ++ y) dt = tpass r0 x dt ++ tpass (r0 + N.of_nat (length x)) y dt.
Proof.
  intros (Hd & fx & fy & Hx & Hy). unfold tpass.
  assert (D1 : Nat.div (length (x ++ y)) (2 * fst dt) = (fx + fy)%nat).
  { rewrite app_length, Hx, Hy. replace (2 * fst dt * fx + 2 * fst dt * fy)%nat with ((fx + fy) * (2 * fst dt))%nat by lia.
    apply Nat.div_mul. lia. }
  assert (D2 : Nat.div (length x) (2 * fst dt) = fx).
  { rewrite Hx. replace (2 * fst dt * fx)%nat with (fx * (2 * fst dt))%nat by lia. apply Nat.div_mul. lia. }
  assert (D3 : Nat.div (length y) (2 * fst dt) = fy).
  { rewrite Hy. replace (2 * fst dt * fy)%nat with (fy * (2 * fst dt))%nat by lia. apply Nat.div_mul. lia. }
  rewrite D1, D2, D3. apply glayer_app'; assumption.
Qed.

Lemma tpasses_app dts : forall r0 x y, Forall (divs (length x) (length y)) dts ->
  fold_left (tpass r0) dts (x ++ y) =
  fold_left (tpass r0) dts x ++ fold_left (tpass (r0 + N.of_nat (length x))) dts y.
Proof.
  induction dts as [|dt dts IH]; intros r0 x y H; [reflexivity|]. inversion H as [|? ? H1 H2]; subst.
  cbn [fold_left]. rewrite tpass_app by assumption.
  destruct H1 as [Hd _].
  rewrite IH; rewrite !tpass_length by assumption; [reflexivity|assumption].
Qed.

Lemma divs_ddists k : forall fx fy (dts : list (nat * N)), map fst dts = ddists' k ->
  Forall (divs (p2' k * fx) (p2' k * fy)) dts.
Proof.
  induction k as [|k IH]; intros fx fy dts H.
  - destruct dts; [constructor|discriminate].
  - rewrite ddists'_S in H. destruct dts as [|dt dts]; [discriminate|]. cbn [map] in H. inversion H as [[H1 H2]].
    constructor.
    + split; [rewrite H1; apply p2'_pos|]. exists fx, fy. rewrite H1, p2'_S. lia.
    + specialize (IH (2 * fx)%nat (2 * fy)%nat dts H2). rewrite p2'_S.
      replace ((p2' k + p2' k) * fx)%nat with (p2' k * (2 * fx))%nat by lia.
      replace ((p2' k + p2' k) * fy)%nat with (p2' k * (2 * fy))%nat by lia. exact IH.
Qed.
Lemma pos_ddists k : forall dts : list (nat * N), map fst dts = ddists' k -> Forall (fun dt => (0 < fst dt)%nat) dts.
Proof.
  intros dts H. apply Forall_forall. intros dt Hin.
  assert (Hi : In (fst dt) (ddists' k)) by (rewrite <- H; apply in_map; exact Hin).
  unfold ddists' in Hi. apply in_map_iff in Hi. destruct Hi as (j & <- & _). apply p2'_pos.
Qed.

(* ---------- recursive forms ---------- *)
(* the single block [r0, r0 + 2d) of a pass *)
Definition blk (d : nat) (r0 tr : N) (c : list T) : list T :=
  if r0 <? tr then
    let '(a', b') := bf2 (bfa (skewf (r0 + N.of_nat d + sd - 1))) (firstn d c) (skipn d c) in a' ++ b'
  else c.

Lemma blk_length d r0 tr c : length c = (d + d)%nat -> length (blk d r0 tr c) = (d + d)%nat.
Proof.
  intros H. unfold blk. destruct (r0 <? tr); [|exact H].
  pose proof (bf2_length (bfa (skewf (r0 + N.of_nat d + sd - 1))) (firstn d c) (skipn d c)) as [L1 L2].
  destruct (bf2 _ _ _) as [a' b']. cbn [fst snd] in *. rewrite app_length, L1, L2, firstn_length, skipn_length. lia.
Qed.

Lemma tpass_blk r0 c d tr : (0 < d)%nat -> length c = (d + d)%nat -> tpass r0 c (d, tr) = blk d r0 tr c.
Proof.
  intros Hd Hc. unfold tpass, blk. cbn [fst snd]. rewrite Hc.
  replace (d + d)%nat with (1 * (2 * d))%nat by lia. rewrite Nat.div_mul by lia.
  cbn [naive_layer]. destruct (r0 <? tr); [|reflexivity].
  replace (firstn d (skipn d c)) with (skipn d c) by (symmetry; apply firstn_all2; rewrite skipn_length; lia).
  replace (skipn d (skipn d c)) with (@nil T) by (symmetry; apply skipn_all2; rewrite skipn_length; lia).
  destruct (bf2 _ _ _) as [a' b']. rewrite app_nil_r. reflexivity.
Qed.

(* forward order: top layer first *)
Fixpoint frec (k : nat) (r0 : N) (ts : list N) (c : list T) : list T :=
  match k, ts with
  | S k', tr :: ts' =>
    let c1 := blk (p2' k') r0 tr c in
    frec k' r0 ts' (firstn (p2' k') c1) ++ frec k' (r0 + N.of_nat (p2' k')) ts' (skipn (p2' k') c1)
  | _, _ => c
  end.
(* inverse order: top layer last *)
Fixpoint irec (k : nat) (r0 : N) (ts : list N) (c : list T) : list T :=
  match k, ts with
  | S k', tr :: ts' =>
    blk (p2' k') r0 tr (irec k' r0 ts' (firstn (p2' k') c) ++ irec k' (r0 + N.of_nat (p2' k')) ts' (skipn (p2' k') c))
  | _, _ => c
  end.

Lemma frec_length k : forall r0 ts c, length ts = k -> length c = p2' k -> length (frec k r0 ts c) = p2' k.
Proof.
  induction k as [|k IH]; intros r0 ts c Ht Hc; [destruct ts; exact Hc|].
  destruct ts as [|tr ts]; [discriminate|]. cbn [frec]. cbv zeta.
  rewrite p2'_S in Hc. pose proof (blk_length (p2' k) r0 tr c Hc) as Lb.
  rewrite app_length, !IH; [rewrite p2'_S; reflexivity| | | |]; cbn in Ht; try lia;
    rewrite ?firstn_length, ?skipn_length; lia.
Qed.
Lemma irec_length k : forall r0 ts c, length ts = k -> length c = p2' k -> length (irec k r0 ts c) = p2' k.
Proof.
  induction k as [|k IH]; intros r0 ts c Ht Hc; [destruct ts; exact Hc|].
  destruct ts as [|tr ts]; [discriminate|]. cbn [irec].
  rewrite p2'_S in Hc. rewrite blk_length; [rewrite p2'_S; reflexivity|].
  cbn in Ht. rewrite app_length, !IH; rewrite ?firstn_length, ?skipn_length; lia.
Qed.

Theorem passes_frec k : forall r0 dts c, map fst dts = ddists' k -> length c = p2' k ->
  fold_left (tpass r0) dts c = frec k r0 (map snd dts) c.
Proof.
  induction k as [|k IH]; intros r0 dts c Hd Hc.
  - destruct dts; [reflexivity|discriminate].
  - rewrite ddists'_S in Hd. destruct dts as [|[d tr] dts]; [discriminate|]. cbn [map fst snd] in Hd.
    inversion Hd as [[H1 H2]]. subst d. cbn [fold_left map snd frec]. cbv zeta.
    rewrite p2'_S in Hc. rewrite tpass_blk by (try apply p2'_pos; exact Hc).
    pose proof (blk_length (p2' k) r0 tr c Hc) as Lb. set (c1 := blk (p2' k) r0 tr c) in *.
    rewrite <- (firstn_skipn (p2' k) c1) at 1.
    assert (Lx : length (firstn (p2' k) c1) = p2' k) by (rewrite firstn_length; lia).
    assert (Ly : length (skipn (p2' k) c1) = p2' k) by (rewrite skipn_length; lia).
    rewrite tpasses_app.
    + rewrite Lx. rewrite !IH by assumption. reflexivity.
    + rewrite Lx, Ly. pose proof (divs_ddists k 1 1 dts H2) as D. rewrite !Nat.mul_1_r in D. exact D.
Qed.

Theorem passes_irec k : forall r0 dts c, map fst dts = ddists' k -> length c = p2' k ->
  fold_left (tpass r0) (rev dts) c = irec k r0 (map snd dts) c.
Proof.
  induction k as [|k IH]; intros r0 dts c Hd Hc.
  - destruct dts; [reflexivity|discriminate].
  - rewrite ddists'_S in Hd. destruct dts as [|[d tr] dts]; [discriminate|]. cbn [map fst snd] in Hd.
    inversion Hd as [[H1 H2]]. subst d. cbn [rev map snd irec]. rewrite fold_left_app. cbn [fold_left].
    rewrite p2'_S in Hc.
    rewrite <- (firstn_skipn (p2' k) c) at 1.
    assert (Lx : length (firstn (p2' k) c) = p2' k) by (rewrite firstn_length; lia).
    assert (Ly : length (skipn (p2' k) c) = p2' k) by (rewrite skipn_length; lia).
    rewrite tpasses_app.
    + rewrite Lx. rewrite !IH by assumption. apply tpass_blk; [apply p2'_pos|].
      rewrite app_length, !irec_length; try assumption; try lia;
        (rewrite <- (map_length fst), H2; unfold ddists'; rewrite map_length, rev_length, seq_length, ?map_length; reflexivity) || idtac.
      all: rewrite map_length, <- (map_length fst dts), H2; unfold ddists'; rewrite map_length, rev_length, seq_length; reflexivity.
    + rewrite Lx, Ly. pose proof (divs_ddists k 1 1 dts H2) as D. rewrite !Nat.mul_1_r in D.
      apply Forall_forall. intros dt Hin. apply in_rev in Hin. rewrite Forall_forall in D. apply D. exact Hin.
Qed.

(* ---------- (A) forward transform: outputs below the truncation point ---------- *)
Theorem frec_prefix k : forall r0 ts1 ts2 c t0, length ts1 = k -> length ts2 = k ->
  Forall (fun t => t0 <= t) ts1 -> Forall (fun t => t0 <= t) ts2 -> length c = p2' k ->
  forall i, r0 + N.of_nat i < t0 -> nth_error (frec k r0 ts1 c) i = nth_error (frec k r0 ts2 c) i.
Proof.
  induction k as [|k IH]; intros r0 ts1 ts2 c t0 L1 L2 F1 F2 Hc i Hi.
  - destruct ts1, ts2; try discriminate. reflexivity.
  - destruct ts1 as [|t1 ts1]; [discriminate|]. destruct ts2 as [|t2 ts2]; [discriminate|].
    inversion F1 as [|? ? G1 F1']; subst. inversion F2 as [|? ? G2 F2']; subst.
    cbn [frec]. cbv zeta. unfold blk.
    assert ((r0 <? t1) = true) as -> by (apply N.ltb_lt; lia).
    assert ((r0 <? t2) = true) as -> by (apply N.ltb_lt; lia).
    rewrite p2'_S in Hc.
    pose proof (bf2_length (bfa (skewf (r0 + N.of_nat (p2' k) + sd - 1))) (firstn (p2' k) c) (skipn (p2' k) c)) as [La Lb].
    destruct (bf2 _ _ _) as [a' b']. cbn [fst snd] in La, Lb. rewrite firstn_length, skipn_length in La, Lb.
    set (c1 := a' ++ b').
    assert (Lx : length (firstn (p2' k) c1) = p2' k) by (unfold c1; rewrite firstn_length, app_length; lia).
    assert (Ly : length (skipn (p2' k) c1) = p2' k) by (unfold c1; rewrite skipn_length, app_length; lia).
    cbn in L1, L2.
    destruct (Nat.ltb i (p2' k)) eqn:Ei.
    + apply Nat.ltb_lt in Ei. rewrite !nth_error_app1 by (rewrite frec_length; lia).
      apply (IH r0 ts1 ts2 _ t0); try assumption; lia.
    + apply Nat.ltb_ge in Ei. rewrite !nth_error_app2 by (rewrite frec_length; lia).
      rewrite !frec_length by lia.
      apply (IH (r0 + N.of_nat (p2' k)) ts1 ts2 _ t0); try assumption; lia.
Qed.

(* ---------- (B) inverse transform: zero input from the truncation point on ---------- *)
Variable z : T.
Hypothesis bfa_zero : forall m, bfa m (z, z) = (z, z).

Lemma repeat_add' (n m : nat) : repeat z (n + m) = repeat z n ++ repeat z m.
Proof. induction n; cbn; [reflexivity|]. f_equal. assumption. Qed.
Lemma bf2_zeros m d : bf2 (bfa m) (repeat z d) (repeat z d) = (repeat z d, repeat z d).
Proof.
  unfold bf2. induction d as [|d IH]; [reflexivity|]. cbn [repeat combine map]. rewrite bfa_zero. cbn [fst snd].
  injection IH as E1 E2. f_equal; f_equal; assumption.
Qed.
Lemma blk_zeros d r0 tr : blk d r0 tr (repeat z (d + d)) = repeat z (d + d).
Proof.
  unfold blk. destruct (r0 <? tr); [|reflexivity]. rewrite repeat_add'.
  rewrite firstn_app_le' by (rewrite repeat_length; lia). rewrite firstn_all2 by (rewrite repeat_length; lia).
  rewrite skipn_app_le' by (rewrite repeat_length; lia). rewrite skipn_all2 by (rewrite repeat_length; lia). cbn [app].
  rewrite bf2_zeros. reflexivity.
Qed.
Lemma irec_zeros k : forall r0 ts, irec k r0 ts (repeat z (p2' k)) = repeat z (p2' k).
Proof.
  induction k as [|k IH]; intros r0 ts; [destruct ts; reflexivity|]. destruct ts as [|tr ts]; [reflexivity|].
  cbn [irec]. rewrite p2'_S. rewrite repeat_add' at 1 2.
  rewrite firstn_app_le' by (rewrite repeat_length; lia). rewrite firstn_all2 by (rewrite repeat_length; lia).
  rewrite skipn_app_le' by (rewrite repeat_length; lia). rewrite skipn_all2 by (rewrite repeat_length; lia). cbn [app].
  rewrite !IH. rewrite <- repeat_add'. apply blk_zeros.
Qed.
Lemma all_z : forall (c : list T) n, length c = n -> (forall i, (i < n)%nat -> nth_error c i = Some z) -> c = repeat z n.
Proof.
  induction c as [|x c IH]; intros n Hn H; subst n; [reflexivity|]. cbn [length repeat].
  pose proof (H 0%nat ltac:(cbn; lia)) as H0. cbn in H0. inversion H0; subst. f_equal.
  apply IH; [reflexivity|]. intros i Hi. apply (H (S i)). cbn. lia.
Qed.

Theorem irec_zero_tail k : forall r0 ts1 ts2 c t0, length ts1 = k -> length ts2 = k ->
  Forall (fun t => t0 <= t) ts1 -> Forall (fun t => t0 <= t) ts2 -> length c = p2' k ->
  (forall i, (i < p2' k)%nat -> t0 <= r0 + N.of_nat i -> nth_error c i = Some z) ->
  irec k r0 ts1 c = irec k r0 ts2 c.
Proof.
  induction k as [|k IH]; intros r0 ts1 ts2 c t0 L1 L2 F1 F2 Hc Hz.
  - destruct ts1, ts2; try discriminate. reflexivity.
  - destruct (t0 <=? r0) eqn:E0.
    + apply N.leb_le in E0. assert (Ec : c = repeat z (p2' (S k))).
      { apply all_z; [exact Hc|]. intros i Hi. apply Hz; [exact Hi|lia]. }
      rewrite Ec, !irec_zeros. reflexivity.
    + apply N.leb_gt in E0.
      destruct ts1 as [|t1 ts1]; [discriminate|]. destruct ts2 as [|t2 ts2]; [discriminate|].
      inversion F1 as [|? ? G1 F1']; subst. inversion F2 as [|? ? G2 F2']; subst.
      cbn [irec]. cbn in L1, L2. rewrite p2'_S in Hc.
      assert (Lx : length (firstn (p2' k) c) = p2' k) by (rewrite firstn_length; lia).
      assert (Ly : length (skipn (p2' k) c) = p2' k) by (rewrite skipn_length; lia).
      rewrite (IH r0 ts1 ts2 (firstn (p2' k) c) t0); try assumption; try lia.
      2:{ intros i Hi Ht. rewrite <- (firstn_skipn (p2' k) c) in Hz.
          specialize (Hz i ltac:(rewrite p2'_S; lia) Ht). rewrite nth_error_app1 in Hz by lia. exact Hz. }
      rewrite (IH (r0 + N.of_nat (p2' k)) ts1 ts2 (skipn (p2' k) c) t0); try assumption; try lia.
      2:{ intros i Hi Ht. rewrite <- (firstn_skipn (p2' k) c) in Hz.
          specialize (Hz (p2' k + i)%nat ltac:(rewrite p2'_S; lia) ltac:(lia)). rewrite nth_error_app2 in Hz by lia.
          rewrite Lx in Hz. replace (p2' k + i - p2' k)%nat with i in Hz by lia. exact Hz. }
      unfold blk.
      assert ((r0 <? t1) = true) as -> by (apply N.ltb_lt; lia).
      assert ((r0 <? t2) = true) as -> by (apply N.ltb_lt; lia). reflexivity.
Qed.
End Gen.

(* ---------- two layers at a time, truncated ---------- *)
(* trunc' is trunc rounded up to a multiple of 4d: a two-layer pass over the 4d-blocks that
   start below trunc performs, at the inner distance d, the blocks that start below trunc' *)
Definition ru4 (d : nat) (t t' : N) : Prop :=
  t <= t' /\ forall q, (4 * N.of_nat d * q < t -> 4 * N.of_nat d * q + 4 * N.of_nat d <= t') /\
                      (t <= 4 * N.of_nat d * q -> t' <= 4 * N.of_nat d * q).
Definition ruN (d t : N) : N := 4 * d * ((t + 4 * d - 1) / (4 * d)).
Lemma ru4_ruN d t : (0 < d)%nat -> ru4 d t (ruN (N.of_nat d) t).
Proof.
  intros Hd. unfold ru4, ruN. set (D := 4 * N.of_nat d). assert (HD : 0 < D) by (unfold D; lia).
  pose proof (N.div_mod (t + D - 1) D ltac:(lia)) as E. pose proof (N.mod_lt (t + D - 1) D ltac:(lia)) as R.
  set (Q := (t + D - 1) / D) in *. set (M := (t + D - 1) mod D) in *.
  split; [lia|]. intros q. split; intros H.
  - assert (q < Q) by nia. nia.
  - assert (Q <= q) by nia. nia.
Qed.

Section TwoT.
Context {T : Type} (ops : elt_ops T).
Variable skewf : N -> N.
Notation layer := (naive_layer skewf (fft_bf ops)).
Notation ilayer := (naive_layer skewf (ifft_bf ops)).

Lemma two_layer_naive_t f d : (0 < d)%nat -> forall q trunc trunc' sd l,
  length l = (4 * d * f)%nat -> ru4 d trunc trunc' ->
  two_layer skewf (fft_two ops) f d (4 * N.of_nat d * q) trunc sd l =
  layer (2 * f) d (4 * N.of_nat d * q) trunc' sd (layer f (2 * d) (4 * N.of_nat d * q) trunc sd l).
Proof.
  intros Hd. induction f as [|f IH]; intros q trunc trunc' sd l Hl Hru; [reflexivity|].
  set (r := 4 * N.of_nat d * q).
  destruct (r <? trunc) eqn:Hr.
  2:{ cbn [two_layer naive_layer]. rewrite Hr. symmetry. apply glayer_stop.
      destruct Hru as [_ H]. apply N.ltb_ge in Hr. apply (H q). exact Hr. }
  assert (Hr4 : r + 4 * N.of_nat d <= trunc') by (destruct Hru as [_ H]; apply N.ltb_lt in Hr; apply (H q); exact Hr).
  assert (Hr' : (r <? trunc') = true) by (apply N.ltb_lt; lia).
  (* the four quarters of the first block *)
  set (a := firstn d l). set (b := firstn d (skipn d l)).
  set (c := firstn d (skipn d (skipn d l))). set (dd := firstn d (skipn d (skipn d (skipn d l)))).
  set (tl := skipn d (skipn d (skipn d (skipn d l)))).
  assert (La : length a = d) by (unfold a; rewrite firstn_length; lia).
  assert (Lb : length b = d) by (unfold b; rewrite firstn_length, skipn_length; lia).
  assert (Lc : length c = d) by (unfold c; rewrite firstn_length, !skipn_length; lia).
  assert (Ld : length dd = d) by (unfold dd; rewrite firstn_length, !skipn_length; lia).
  assert (Ltl : length tl = (4 * d * f)%nat) by (unfold tl; rewrite !skipn_length; lia).
  (* left side: one step *)
  cbn [two_layer]. rewrite Hr. fold a b c dd tl.
  set (dn := N.of_nat d). set (base := r + dn + sd - 1).
  set (m01 := skewf base). set (m02 := skewf (base + dn)). set (m23 := skewf (base + dn * 2)).
  (* right side, inner layer (dist 2d): one step *)
  replace (2 * S f)%nat with (2 + 2 * f)%nat by lia.
  cbn [naive_layer]. rewrite Hr.
  replace (firstn (2 * d) l) with (a ++ b) by (replace (2 * d)%nat with (d + d)%nat by lia; rewrite firstn_add; reflexivity).
  replace (skipn (2 * d) l) with (skipn d (skipn d l)) by (replace (2 * d)%nat with (d + d)%nat by lia; rewrite skipn_add; reflexivity).
  replace (firstn (2 * d) (skipn d (skipn d l))) with (c ++ dd)
    by (replace (2 * d)%nat with (d + d)%nat by lia; rewrite firstn_add; reflexivity).
  replace (skipn (2 * d) (skipn d (skipn d l))) with tl
    by (replace (2 * d)%nat with (d + d)%nat by lia; rewrite skipn_add; reflexivity).
  assert (Em02 : skewf (r + N.of_nat (2 * d) + sd - 1) = m02).
  { unfold m02, base, dn. f_equal. lia. }
  rewrite Em02. rewrite (bf2_app (fft_bf ops m02) a b c dd) by congruence.
  pose proof (bf2_length (fft_bf ops m02) a c) as [L1 L2]. pose proof (bf2_length (fft_bf ops m02) b dd) as [L3 L4].
  destruct (bf2 (fft_bf ops m02) a c) as [a1 c1] eqn:E1. destruct (bf2 (fft_bf ops m02) b dd) as [b1 d1] eqn:E2.
  cbn [fst snd] in *. rewrite La, Lc, Nat.min_id in L1, L2. rewrite Lb, Ld, Nat.min_id in L3, L4.
  (* outer layer (dist d) over the first block and the rest *)
  set (Y := layer f (2 * d) (r + 2 * N.of_nat (2 * d)) trunc sd tl).
  assert (LY : length Y = (4 * d * f)%nat) by (unfold Y; rewrite glayer_length; lia).
  replace ((a1 ++ b1) ++ (c1 ++ d1) ++ Y) with (((a1 ++ b1) ++ (c1 ++ d1)) ++ Y) by (rewrite <- !app_assoc; reflexivity).
  rewrite (glayer_app' skewf (fft_bf ops) sd 2 (2 * f) d r trunc' ((a1 ++ b1) ++ (c1 ++ d1)) Y);
    [|rewrite !app_length; lia|exact Hd].
  rewrite !app_length, L1, L2, L3, L4.
  (* the two sub-blocks of the first block *)
  cbn [naive_layer]. rewrite Hr'.
  assert (Hr2 : (r + 2 * N.of_nat d <? trunc') = true) by (apply N.ltb_lt; lia). rewrite Hr2.
  rewrite <- !app_assoc.
  rewrite (firstn_app_le' d a1) by lia. rewrite firstn_all2 by lia.
  rewrite (skipn_app_le' d a1) by lia. rewrite (skipn_all2 a1) by lia. cbn [app].
  rewrite (firstn_app_le' d b1) by lia. rewrite (firstn_all2 b1) by lia.
  rewrite (skipn_app_le' d b1) by lia. rewrite (skipn_all2 b1) by lia. cbn [app].
  rewrite (firstn_app_le' d c1) by lia. rewrite (firstn_all2 c1) by lia.
  rewrite (skipn_app_le' d c1) by lia. rewrite (skipn_all2 c1) by lia. cbn [app].
  rewrite (firstn_all2 d1) by lia. rewrite (skipn_all2 d1) by lia.
  fold dn. fold base. fold m01.
  assert (Em23 : skewf (r + 2 * dn + dn + sd - 1) = m23) by (unfold m23, base; f_equal; lia).
  rewrite Em23.
  pose proof (quad_block (fft_bf ops m01) (fft_bf ops m23) (fft_bf ops m02) a b c dd ltac:(congruence) ltac:(congruence) ltac:(congruence)) as Q.
  cbv zeta in Q. rewrite E1, E2 in Q.
  destruct (bf2 (fft_bf ops m01) a1 b1) as [a2 b2]. destruct (bf2 (fft_bf ops m23) c1 d1) as [c2 d2].
  destruct Q as (Q1 & Q2 & Q3 & Q4).
  unfold fft_two. rewrite Q1, Q2, Q3, Q4.
  cbn [naive_layer]. rewrite app_nil_r.
  rewrite <- !app_assoc. do 4 f_equal.
  (* the rest *)
  change (fun (m00 m0 m03 : N) '(s0, s1, (s2, s3)) =>
     let '(s4, s5) := fft_bf ops m03 (s0, s2) in
      let '(s6, s7) := fft_bf ops m03 (s1, s3) in
       (fft_bf ops m00 (s4, s6), fft_bf ops m0 (s5, s7))) with (fft_two ops).
  replace (r + 4 * dn) with (4 * N.of_nat d * (q + 1)) by (unfold r, dn; lia).
  rewrite (IH (q + 1) trunc trunc' sd tl Ltl Hru).
  replace (4 * N.of_nat d * (q + 1)) with (r + 4 * dn) by (unfold r, dn; lia).
  unfold Y. replace (r + 2 * N.of_nat (2 * d)) with (r + 4 * dn) by (unfold dn; lia).
  replace (r + N.of_nat (d + d + (d + d))) with (r + 4 * dn) by (unfold dn; lia). reflexivity.
Qed.

Lemma two_layer_naive_i_t f d : (0 < d)%nat -> forall q trunc trunc' sd l,
  length l = (4 * d * f)%nat -> ru4 d trunc trunc' ->
  two_layer skewf (ifft_two ops) f d (4 * N.of_nat d * q) trunc sd l =
  ilayer f (2 * d) (4 * N.of_nat d * q) trunc sd (ilayer (2 * f) d (4 * N.of_nat d * q) trunc' sd l).
Proof.
  intros Hd. induction f as [|f IH]; intros q trunc trunc' sd l Hl Hru; [reflexivity|].
  set (r := 4 * N.of_nat d * q).
  destruct (r <? trunc) eqn:Hr.
  2:{ cbn [two_layer]. rewrite Hr. rewrite (glayer_stop skewf (ifft_bf ops) sd (2 * S f) d r trunc' l).
      - cbn [naive_layer]. rewrite Hr. reflexivity.
      - destruct Hru as [_ H]. apply N.ltb_ge in Hr. apply (H q). exact Hr. }
  assert (Hr4 : r + 4 * N.of_nat d <= trunc') by (destruct Hru as [_ H]; apply N.ltb_lt in Hr; apply (H q); exact Hr).
  assert (Hr' : (r <? trunc') = true) by (apply N.ltb_lt; lia).
  set (a := firstn d l). set (b := firstn d (skipn d l)).
  set (c := firstn d (skipn d (skipn d l))). set (dd := firstn d (skipn d (skipn d (skipn d l)))).
  set (tl := skipn d (skipn d (skipn d (skipn d l)))).
  assert (La : length a = d) by (unfold a; rewrite firstn_length; lia).
  assert (Lb : length b = d) by (unfold b; rewrite firstn_length, skipn_length; lia).
  assert (Lc : length c = d) by (unfold c; rewrite firstn_length, !skipn_length; lia).
  assert (Ld : length dd = d) by (unfold dd; rewrite firstn_length, !skipn_length; lia).
  assert (Ltl : length tl = (4 * d * f)%nat) by (unfold tl; rewrite !skipn_length; lia).
  cbn [two_layer]. rewrite Hr. fold a b c dd tl.
  set (dn := N.of_nat d). set (base := r + dn + sd - 1).
  set (m01 := skewf base). set (m02 := skewf (base + dn)). set (m23 := skewf (base + dn * 2)).
  (* right side, inner layer (dist d): two steps on the first block *)
  replace (2 * S f)%nat with (2 + 2 * f)%nat by lia.
  assert (El : l = (a ++ b ++ c ++ dd) ++ tl).
  { unfold a, b, c, dd, tl. rewrite <- !app_assoc.
    rewrite <- (firstn_skipn d l) at 1. f_equal.
    rewrite <- (firstn_skipn d (skipn d l)) at 1. f_equal.
    rewrite <- (firstn_skipn d (skipn d (skipn d l))) at 1. f_equal.
    rewrite <- (firstn_skipn d (skipn d (skipn d (skipn d l)))) at 1. reflexivity. }
  rewrite El at 1.
  rewrite (glayer_app' skewf (ifft_bf ops) sd 2 (2 * f) d r trunc' (a ++ b ++ c ++ dd) tl);
    [|rewrite !app_length; lia|exact Hd].
  rewrite !app_length, La, Lb, Lc, Ld.
  cbn [naive_layer]. rewrite Hr'.
  assert (Hr2 : (r + 2 * N.of_nat d <? trunc') = true) by (apply N.ltb_lt; lia). rewrite Hr2.
  rewrite (firstn_app_le' d a) by lia. rewrite (firstn_all2 a) by lia.
  rewrite (skipn_app_le' d a) by lia. rewrite (skipn_all2 a) by lia. cbn [app].
  rewrite (firstn_app_le' d b) by lia. rewrite (firstn_all2 b) by lia.
  rewrite (skipn_app_le' d b) by lia. rewrite (skipn_all2 b) by lia. cbn [app].
  rewrite (firstn_app_le' d c) by lia. rewrite (firstn_all2 c) by lia.
  rewrite (skipn_app_le' d c) by lia. rewrite (skipn_all2 c) by lia. cbn [app].
  rewrite (firstn_all2 dd) by lia. rewrite (skipn_all2 dd) by lia.
  fold dn. fold base. fold m01.
  assert (Em23 : skewf (r + 2 * dn + dn + sd - 1) = m23) by (unfold m23, base; f_equal; lia).
  rewrite Em23. cbn [naive_layer]. rewrite Hr.
  pose proof (bf2_length (ifft_bf ops m01) a b) as [L1 L2]. pose proof (bf2_length (ifft_bf ops m23) c dd) as [L3 L4].
  pose proof (quad_block_i (ifft_bf ops m01) (ifft_bf ops m23) (ifft_bf ops m02) a b c dd ltac:(congruence) ltac:(congruence) ltac:(congruence)) as Q.
  cbv zeta in Q.
  destruct (bf2 (ifft_bf ops m01) a b) as [a1 b1] eqn:E1. destruct (bf2 (ifft_bf ops m23) c dd) as [c1 d1] eqn:E2.
  cbn [fst snd] in *. rewrite La, Lb, Nat.min_id in L1, L2. rewrite Lc, Ld, Nat.min_id in L3, L4.
  rewrite app_nil_r.
  (* outer layer (dist 2d) *)
  set (Y := ilayer (2 * f) d (r + N.of_nat (d + (d + (d + d)))) trunc' sd tl).
  assert (LY : length Y = (4 * d * f)%nat) by (unfold Y; rewrite glayer_length; lia).
  rewrite <- !app_assoc.
  replace (firstn (2 * d) (a1 ++ b1 ++ c1 ++ d1 ++ Y)) with (a1 ++ b1).
  2:{ replace (2 * d)%nat with (d + d)%nat by lia. rewrite firstn_add.
      rewrite (firstn_app_le' d a1) by lia. rewrite (firstn_all2 a1) by lia.
      rewrite (skipn_app_le' d a1) by lia. rewrite (skipn_all2 a1) by lia. cbn [app].
      rewrite (firstn_app_le' d b1) by lia. rewrite (firstn_all2 b1) by lia. reflexivity. }
  replace (skipn (2 * d) (a1 ++ b1 ++ c1 ++ d1 ++ Y)) with (c1 ++ d1 ++ Y).
  2:{ replace (2 * d)%nat with (d + d)%nat by lia. rewrite skipn_add.
      rewrite (skipn_app_le' d a1) by lia. rewrite (skipn_all2 a1) by lia. cbn [app].
      rewrite (skipn_app_le' d b1) by lia. rewrite (skipn_all2 b1) by lia. reflexivity. }
  replace (firstn (2 * d) (c1 ++ d1 ++ Y)) with (c1 ++ d1).
  2:{ replace (2 * d)%nat with (d + d)%nat by lia. rewrite firstn_add.
      rewrite (firstn_app_le' d c1) by lia. rewrite (firstn_all2 c1) by lia.
      rewrite (skipn_app_le' d c1) by lia. rewrite (skipn_all2 c1) by lia. cbn [app].
      rewrite (firstn_app_le' d d1) by lia. rewrite (firstn_all2 d1) by lia. reflexivity. }
  replace (skipn (2 * d) (c1 ++ d1 ++ Y)) with Y.
  2:{ replace (2 * d)%nat with (d + d)%nat by lia. rewrite skipn_add.
      rewrite (skipn_app_le' d c1) by lia. rewrite (skipn_all2 c1) by lia. cbn [app].
      rewrite (skipn_app_le' d d1) by lia. rewrite (skipn_all2 d1) by lia. reflexivity. }
  assert (Em02 : skewf (r + N.of_nat (2 * d) + sd - 1) = m02) by (unfold m02, base, dn; f_equal; lia).
  rewrite Em02. rewrite (bf2_app (ifft_bf ops m02) a1 b1 c1 d1) by congruence.
  destruct (bf2 (ifft_bf ops m02) a1 c1) as [a2 c2]. destruct (bf2 (ifft_bf ops m02) b1 d1) as [b2 d2].
  cbn [fst snd]. destruct Q as (Q1 & Q2 & Q3 & Q4).
  unfold ifft_two. rewrite Q1, Q2, Q3, Q4.
  rewrite <- !app_assoc. do 4 f_equal.
  change (fun (m00 m0 m03 : N) '(s0, s1, (s2, s3)) =>
     let '(s4, s5) := ifft_bf ops m00 (s0, s1) in
      let '(s6, s7) := ifft_bf ops m0 (s2, s3) in
       let '(s8, s9) := ifft_bf ops m03 (s4, s6) in
        let '(s10, s11) := ifft_bf ops m03 (s5, s7) in (s8, s10, (s9, s11))) with (ifft_two ops).
  replace (r + 4 * dn) with (4 * N.of_nat d * (q + 1)) by (unfold r, dn; lia).
  rewrite (IH (q + 1) trunc trunc' sd tl Ltl Hru).
  replace (4 * N.of_nat d * (q + 1)) with (r + 4 * dn) by (unfold r, dn; lia).
  unfold Y. replace (r + N.of_nat (d + (d + (d + d)))) with (r + 4 * dn) by (unfold dn; lia).
  replace (r + 2 * N.of_nat (2 * d)) with (r + 4 * dn) by (unfold dn; lia). reflexivity.
Qed.
End TwoT.

(* ---------- the schedules of the model in recursive form ---------- *)
Lemma dists_pow2' k : (k <= 16)%nat -> rev (dists (2 ^ N.of_nat k)) = map N.of_nat (ddists' k).
Proof.
  intros Hk.
  assert (H : forallb (fun k => if list_eq_dec N.eq_dec (rev (dists (2 ^ N.of_nat k))) (map N.of_nat (ddists' k)) then true else false)
                      (seq 0 17) = true) by (vm_compute; reflexivity).
  rewrite forallb_forall in H. specialize (H k ltac:(apply in_seq; lia)).
  destruct (list_eq_dec _ _ _) as [E|]; [exact E|discriminate].
Qed.
Lemma ddists'_length k : length (ddists' k) = k.
Proof. unfold ddists'. rewrite map_length, rev_length, seq_length. reflexivity. Qed.
Lemma map_to_of (l : list nat) : map N.to_nat (map N.of_nat l) = l.
Proof. induction l as [|x l IH]; cbn; [reflexivity|]. rewrite Nat2N.id, IH. reflexivity. Qed.
Lemma p2'_N k : N.of_nat (p2' k) = 2 ^ N.of_nat k.
Proof. unfold p2'. rewrite Nat2N.inj_pow. reflexivity. Qed.

Section Final.
Context {T : Type} (ops : elt_ops T).
Variable skewf : N -> N.

Lemma naive_pass_tpass (bfa : N -> T * T -> T * T) size trunc sd l d : N.of_nat (length l) = size -> (0 < d)%nat ->
  naive_pass skewf bfa size trunc sd l (N.of_nat d) = tpass skewf bfa sd 0 l (d, trunc).
Proof.
  intros Hl Hd. unfold naive_pass, tpass. cbn [fst snd]. rewrite Nat2N.id. f_equal.
  rewrite <- Hl. replace (2 * N.of_nat d) with (N.of_nat (2 * d)) by lia.
  rewrite <- Nat2N.inj_div, Nat2N.id. reflexivity.
Qed.

Lemma fold_naive_tpass (bfa : N -> T * T -> T * T) size trunc sd : forall ds l, Forall (fun d => (0 < d)%nat) ds -> N.of_nat (length l) = size ->
  fold_left (naive_pass skewf bfa size trunc sd) (map N.of_nat ds) l =
  fold_left (tpass skewf bfa sd 0) (map (fun d => (d, trunc)) ds) l.
Proof.
  induction ds as [|d ds IH]; intros l Hd Hl; [reflexivity|]. inversion Hd; subst.
  cbn [map fold_left]. rewrite naive_pass_tpass by (try reflexivity; assumption). apply IH; [assumption|].
  rewrite tpass_length by assumption. reflexivity.
Qed.

Lemma ddists'_pos k : Forall (fun d => (0 < d)%nat) (ddists' k).
Proof. apply Forall_forall. intros d Hd. unfold ddists' in Hd. apply in_map_iff in Hd. destruct Hd as (j & <- & _). apply p2'_pos. Qed.
Lemma map_fst_const (tr : N) (l : list nat) : map fst (map (fun d => (d, tr)) l) = l.
Proof. induction l as [|x l IH]; cbn; [reflexivity|]. rewrite IH. reflexivity. Qed.
Lemma map_snd_const (tr : N) (l : list nat) : map snd (map (fun d => (d, tr)) l) = repeat tr (length l).
Proof. induction l as [|x l IH]; cbn; [reflexivity|]. rewrite IH. reflexivity. Qed.

Theorem naive_fft_frec k trunc sd l : (k <= 16)%nat -> N.of_nat (length l) = 2 ^ N.of_nat k ->
  naive_fft ops skewf (2 ^ N.of_nat k) trunc sd l = frec skewf (fft_bf ops) sd k 0 (repeat trunc k) l.
Proof.
  intros Hk Hl. unfold naive_fft. rewrite (dists_pow2' k Hk).
  rewrite fold_naive_tpass by (try apply ddists'_pos; exact Hl).
  rewrite (passes_frec skewf (fft_bf ops) sd k).
  - rewrite map_snd_const, ddists'_length. reflexivity.
  - apply map_fst_const.
  - apply Nat2N.inj. rewrite Hl, p2'_N. reflexivity.
Qed.

Theorem naive_ifft_irec k trunc sd l : (k <= 16)%nat -> N.of_nat (length l) = 2 ^ N.of_nat k ->
  naive_ifft ops skewf (2 ^ N.of_nat k) trunc sd l = irec skewf (ifft_bf ops) sd k 0 (repeat trunc k) l.
Proof.
  intros Hk Hl. unfold naive_ifft.
  rewrite <- (rev_involutive (dists (2 ^ N.of_nat k))), (dists_pow2' k Hk), <- map_rev.
  rewrite fold_naive_tpass; [| |exact Hl].
  2:{ apply Forall_forall. intros d Hd. apply in_rev in Hd. pose proof (ddists'_pos k) as P. rewrite Forall_forall in P. auto. }
  rewrite map_rev. rewrite (passes_irec skewf (ifft_bf ops) sd k).
  - rewrite map_snd_const, ddists'_length. reflexivity.
  - apply map_fst_const.
  - apply Nat2N.inj. rewrite Hl, p2'_N. reflexivity.
Qed.

(* one two-layer pass = two one-layer passes, the inner one with the rounded-up truncation *)
Lemma two_pass_tpass trunc sd l d : (0 < d)%nat -> (exists f, length l = (4 * d * f)%nat) ->
  two_pass skewf (fft_two ops) trunc sd l (N.of_nat d) =
  tpass skewf (fft_bf ops) sd 0 (tpass skewf (fft_bf ops) sd 0 l ((2 * d)%nat, trunc)) (d, ruN (N.of_nat d) trunc).
Proof.
  intros Hd [f Hf]. unfold two_pass, tpass. cbn [fst snd]. rewrite Nat2N.id.
  rewrite glayer_length.
  2:{ pose proof (Nat.mul_div_le (length l) (2 * (2 * d)) ltac:(lia)). lia. }
  assert (F1 : N.to_nat (N.of_nat (length l) / (4 * N.of_nat d)) = f).
  { rewrite Hf. replace (4 * N.of_nat d) with (N.of_nat (4 * d)) by lia. rewrite <- Nat2N.inj_div, Nat2N.id.
    replace (4 * d * f)%nat with (f * (4 * d))%nat by lia. apply Nat.div_mul. lia. }
  assert (F2 : Nat.div (length l) (2 * (2 * d)) = f).
  { rewrite Hf. replace (4 * d * f)%nat with (f * (2 * (2 * d)))%nat by lia. apply Nat.div_mul. lia. }
  assert (F3 : Nat.div (length l) (2 * d) = (2 * f)%nat).
  { rewrite Hf. replace (4 * d * f)%nat with ((2 * f) * (2 * d))%nat by lia. apply Nat.div_mul. lia. }
  rewrite F1, F2, F3.
  replace 0 with (4 * N.of_nat d * 0) by lia.
  apply two_layer_naive_t; [exact Hd|exact Hf|apply ru4_ruN; exact Hd].
Qed.
Lemma two_pass_tpass_i trunc sd l d : (0 < d)%nat -> (exists f, length l = (4 * d * f)%nat) ->
  two_pass skewf (ifft_two ops) trunc sd l (N.of_nat d) =
  tpass skewf (ifft_bf ops) sd 0 (tpass skewf (ifft_bf ops) sd 0 l (d, ruN (N.of_nat d) trunc)) ((2 * d)%nat, trunc).
Proof.
  intros Hd [f Hf]. unfold two_pass, tpass. cbn [fst snd]. rewrite Nat2N.id.
  rewrite glayer_length.
  2:{ pose proof (Nat.mul_div_le (length l) (2 * d) ltac:(lia)). lia. }
  assert (F1 : N.to_nat (N.of_nat (length l) / (4 * N.of_nat d)) = f).
  { rewrite Hf. replace (4 * N.of_nat d) with (N.of_nat (4 * d)) by lia. rewrite <- Nat2N.inj_div, Nat2N.id.
    replace (4 * d * f)%nat with (f * (4 * d))%nat by lia. apply Nat.div_mul. lia. }
  assert (F2 : Nat.div (length l) (2 * (2 * d)) = f).
  { rewrite Hf. replace (4 * d * f)%nat with (f * (2 * (2 * d)))%nat by lia. apply Nat.div_mul. lia. }
  assert (F3 : Nat.div (length l) (2 * d) = (2 * f)%nat).
  { rewrite Hf. replace (4 * d * f)%nat with ((2 * f) * (2 * d))%nat by lia. apply Nat.div_mul. lia. }
  rewrite F1, F2, F3.
  replace 0 with (4 * N.of_nat d * 0) by lia.
  apply two_layer_naive_i_t; [exact Hd|exact Hf|apply ru4_ruN; exact Hd].
Qed.

Lemma fst_flat_f (trunc : N) ds :
  map fst (flat_map (fun d => [(N.to_nat (2 * d), trunc); (N.to_nat d, ruN d trunc)]) ds) =
  map N.to_nat (flat_map (fun d => [2 * d; d]) ds).
Proof. induction ds as [|d ds IH]; [reflexivity|]. cbn [flat_map app map fst]. rewrite IH. reflexivity. Qed.
Lemma fst_flat_i (trunc : N) ds :
  map fst (flat_map (fun d => [(N.to_nat d, ruN d trunc); (N.to_nat (2 * d), trunc)]) ds) =
  map N.to_nat (flat_map (fun d => [d; 2 * d]) ds).
Proof. induction ds as [|d ds IH]; [reflexivity|]. cbn [flat_map app map fst]. rewrite IH. reflexivity. Qed.
Lemma ruN_ge d t : 0 < d -> t <= ruN d t.
Proof. intros Hd. pose proof (ru4_ruN (N.to_nat d) t ltac:(lia)) as [H _]. rewrite N2Nat.id in H. exact H. Qed.

Theorem two_fft_frec k trunc sd l : (k <= 16)%nat -> N.of_nat (length l) = 2 ^ N.of_nat k ->
  exists ts, length ts = k /\ Forall (fun t => trunc <= t) ts /\
    two_fft ops skewf (2 ^ N.of_nat k) trunc sd l = frec skewf (fft_bf ops) sd k 0 ts l.
Proof.
  intros Hk Hl. pose proof sched_ok_all as H. rewrite forallb_forall in H. specialize (H k ltac:(apply in_seq; lia)).
  unfold sched_ok in H. cbv zeta in H. unfold two_fft.
  pose proof (dists_pow2' k Hk) as DP.
  set (size := 2 ^ N.of_nat k) in *.
  destruct (dists4_down 17 size (N.shiftr size 2)) as [ds d4].
  apply andb_prop in H. destruct H as [H H3]. apply andb_prop in H. destruct H as [H1 H2].
  unfold leqN in H1. destruct (list_eq_dec _ _ _) as [E|]; [|discriminate]. clear H1.
  set (dts := flat_map (fun d => [(N.to_nat (2 * d), trunc); (N.to_nat d, ruN d trunc)]) ds ++
              (if d4 =? 2 then [(1%nat, trunc)] else [])).
  assert (Hfst : map fst dts = ddists' k).
  { unfold dts. rewrite map_app, fst_flat_f.
    replace (map fst (if d4 =? 2 then [(1%nat, trunc)] else [])) with (map N.to_nat (if d4 =? 2 then [1] else []))
      by (destruct (d4 =? 2); reflexivity).
    rewrite <- map_app, <- E, DP. apply map_to_of. }
  exists (map snd dts). split; [|split].
  - rewrite map_length, <- (map_length fst), Hfst. apply ddists'_length.
  - unfold dts. rewrite map_app. apply Forall_app. split.
    + apply Forall_forall. intros t Ht. apply in_map_iff in Ht. destruct Ht as ([d' t'] & <- & Hin).
      apply in_flat_map in Hin. destruct Hin as (d & Hd & Hin).
      rewrite forallb_forall in H2. specialize (H2 d Hd). apply andb_prop in H2. destruct H2 as [Hd0 _]. apply N.ltb_lt in Hd0.
      cbn [In] in Hin. destruct Hin as [Hin|[Hin|[]]]; inversion Hin; subst; cbn [snd]; [lia|apply ruN_ge; exact Hd0].
    + destruct (d4 =? 2); cbn; constructor; [lia|constructor].
  - rewrite <- (passes_frec skewf (fft_bf ops) sd k 0 dts l Hfst) by (apply Nat2N.inj; rewrite Hl, p2'_N; reflexivity).
    unfold dts. rewrite fold_left_app.
    assert (G : forall l0, N.of_nat (length l0) = size ->
              fold_left (tpass skewf (fft_bf ops) sd 0) (flat_map (fun d => [(N.to_nat (2 * d), trunc); (N.to_nat d, ruN d trunc)]) ds) l0 =
              fold_left (two_pass skewf (fft_two ops) trunc sd) ds l0 /\
              N.of_nat (length (fold_left (two_pass skewf (fft_two ops) trunc sd) ds l0)) = size).
    { clear Hl H3 E dts Hfst. induction ds as [|d ds IH]; intros l0 Hl0; [split; [reflexivity|exact Hl0]|].
      cbn [forallb] in H2. apply andb_prop in H2. destruct H2 as [Hd H2]. apply andb_prop in Hd. destruct Hd as [Hd0 Hdv].
      apply N.ltb_lt in Hd0. apply N.eqb_eq in Hdv.
      cbn [flat_map app fold_left].
      assert (Ex : exists f, length l0 = (4 * N.to_nat d * f)%nat).
      { exists (N.to_nat (size / (4 * d))). apply Nat2N.inj. rewrite Hl0, !Nat2N.inj_mul, !N2Nat.id. change (N.of_nat 4) with 4. lia. }
      pose proof (two_pass_tpass trunc sd l0 (N.to_nat d) ltac:(lia) Ex) as TP. rewrite N2Nat.id in TP.
      replace (N.to_nat (2 * d)) with (2 * N.to_nat d)%nat by lia.
      rewrite <- TP. apply (IH H2).
      rewrite TP, !tpass_length by (cbn [fst]; lia). exact Hl0. }
    destruct (G l Hl) as [G1 G2]. rewrite G1.
    destruct (d4 =? 2); [|reflexivity]. cbn [fold_left]. unfold tpass. cbn [fst snd]. f_equal.
    rewrite <- G2. change 2 with (N.of_nat 2). rewrite <- Nat2N.inj_div, Nat2N.id. reflexivity.
Qed.

Theorem two_ifft_irec k trunc sd l : (k <= 16)%nat -> N.of_nat (length l) = 2 ^ N.of_nat k ->
  trunc <= 2 ^ N.of_nat k ->
  exists ts, length ts = k /\ Forall (fun t => trunc <= t) ts /\
    two_ifft ops skewf (2 ^ N.of_nat k) trunc sd l = irec skewf (ifft_bf ops) sd k 0 ts l.
Proof.
  intros Hk Hl Htr. pose proof sched_ok_i_all as H. rewrite forallb_forall in H. specialize (H k ltac:(apply in_seq; lia)).
  unfold sched_ok_i in H. cbv zeta in H. unfold two_ifft.
  pose proof (dists_pow2' k Hk) as DP.
  set (size := 2 ^ N.of_nat k) in *.
  destruct (dists4_up 17 1 4 size) as [ds dl].
  apply andb_prop in H. destruct H as [H H3]. apply andb_prop in H. destruct H as [H1 H2].
  unfold leqN in H1. destruct (list_eq_dec _ _ _) as [E|]; [|discriminate]. clear H1.
  set (asc := flat_map (fun d => [(N.to_nat d, ruN d trunc); (N.to_nat (2 * d), trunc)]) ds ++
              (if dl <? size then [(N.to_nat dl, size)] else [])).
  assert (Hfst : map fst (rev asc) = ddists' k).
  { rewrite map_rev. unfold asc. rewrite map_app, fst_flat_i.
    replace (map fst (if dl <? size then [(N.to_nat dl, size)] else [])) with (map N.to_nat (if dl <? size then [dl] else []))
      by (destruct (dl <? size); reflexivity).
    rewrite <- map_app, <- E, <- map_rev, DP. apply map_to_of. }
  exists (map snd (rev asc)). split; [|split].
  - rewrite map_length, <- (map_length fst), Hfst. apply ddists'_length.
  - rewrite map_rev. apply Forall_rev. unfold asc. rewrite map_app. apply Forall_app. split.
    + apply Forall_forall. intros t Ht. apply in_map_iff in Ht. destruct Ht as ([d' t'] & <- & Hin).
      apply in_flat_map in Hin. destruct Hin as (d & Hd & Hin).
      rewrite forallb_forall in H2. specialize (H2 d Hd). apply andb_prop in H2. destruct H2 as [Hd0 _]. apply N.ltb_lt in Hd0.
      cbn [In] in Hin. destruct Hin as [Hin|[Hin|[]]]; inversion Hin; subst; cbn [snd]; [apply ruN_ge; exact Hd0|lia].
    + destruct (dl <? size); cbn; constructor; [exact Htr|constructor].
  - rewrite <- (passes_irec skewf (ifft_bf ops) sd k 0 (rev asc) l Hfst) by (apply Nat2N.inj; rewrite Hl, p2'_N; reflexivity).
    rewrite rev_involutive. unfold asc. rewrite fold_left_app.
    assert (G : forall l0, N.of_nat (length l0) = size ->
              fold_left (tpass skewf (ifft_bf ops) sd 0) (flat_map (fun d => [(N.to_nat d, ruN d trunc); (N.to_nat (2 * d), trunc)]) ds) l0 =
              fold_left (two_pass skewf (ifft_two ops) trunc sd) ds l0 /\
              N.of_nat (length (fold_left (two_pass skewf (ifft_two ops) trunc sd) ds l0)) = size).
    { clear Hl H3 E asc Hfst. induction ds as [|d ds IH]; intros l0 Hl0; [split; [reflexivity|exact Hl0]|].
      cbn [forallb] in H2. apply andb_prop in H2. destruct H2 as [Hd H2]. apply andb_prop in Hd. destruct Hd as [Hd0 Hdv].
      apply N.ltb_lt in Hd0. apply N.eqb_eq in Hdv.
      cbn [flat_map app fold_left].
      assert (Ex : exists f, length l0 = (4 * N.to_nat d * f)%nat).
      { exists (N.to_nat (size / (4 * d))). apply Nat2N.inj. rewrite Hl0, !Nat2N.inj_mul, !N2Nat.id. change (N.of_nat 4) with 4. lia. }
      pose proof (two_pass_tpass_i trunc sd l0 (N.to_nat d) ltac:(lia) Ex) as TP. rewrite N2Nat.id in TP.
      replace (N.to_nat (2 * d)) with (2 * N.to_nat d)%nat by lia.
      rewrite <- TP. apply (IH H2).
      rewrite TP, !tpass_length by (cbn [fst]; lia). exact Hl0. }
    destruct (G l Hl) as [G1 G2]. rewrite G1.
    destruct (dl <? size) eqn:Edl; [|reflexivity]. cbn [negb orb] in H3.
    apply andb_prop in H3. destruct H3 as [H3 H4]. apply N.eqb_eq in H3. apply N.ltb_lt in H4.
    cbn [fold_left]. unfold tpass. cbn [fst snd].
    set (l1 := fold_left (two_pass skewf (ifft_two ops) trunc sd) ds l) in *.
    assert (F : Nat.div (length l1) (2 * N.to_nat dl) = 1%nat).
    { apply Nat2N.inj. rewrite Nat2N.inj_div, G2. replace (N.of_nat (2 * N.to_nat dl)) with (2 * dl) by lia. rewrite H3. reflexivity. }
    rewrite F. cbn [naive_layer].
    assert ((0 <? size) = true) as -> by (apply N.ltb_lt; apply N.ltb_lt in Edl; lia).
    rewrite N2Nat.id, N.add_0_l.
    destruct (bf2 _ _ _) as [a' b']. reflexivity.
Qed.
End Final.

(* ---------- the two statements for the engines of the model ---------- *)
Definition ops_zero {T} (ops : elt_ops T) : Prop :=
  xorT ops (zeroT ops) (zeroT ops) = zeroT ops /\ forall m, mulT ops (zeroT ops) m = zeroT ops.
Lemma sym_ops_zero : ops_zero sym_ops.
Proof. split; [reflexivity|]. intros m. cbn [mulT sym_ops zeroT]. unfold mul. reflexivity. Qed.
Lemma shard_ops_zero n : ops_zero (shard_ops n).
Proof.
  split; cbn [xorT mulT zeroT shard_ops].
  - unfold map2. induction n as [|n IH]; [reflexivity|]. cbn [repeat combine map fst snd]. rewrite IH. reflexivity.
  - intros m. induction n as [|n IH]; [reflexivity|]. cbn [repeat map]. rewrite IH. reflexivity.
Qed.
Lemma ifft_bf_zero {T} (ops : elt_ops T) : ops_zero ops -> forall m, ifft_bf ops m (zeroT ops, zeroT ops) = (zeroT ops, zeroT ops).
Proof. intros [H1 H2] m. unfold ifft_bf, muladd. rewrite H1. destruct (m =? GF_MODULUS); [reflexivity|]. rewrite H2, H1. reflexivity. Qed.

Lemma Forall_repeat {A} (P : A -> Prop) x n : P x -> Forall P (repeat x n).
Proof. intros H. apply Forall_forall. intros y Hy. apply repeat_spec in Hy. subst. exact H. Qed.

(* (A) whatever the engine, the outputs of a truncated forward transform below the truncation
   point are those of the untruncated transform of the reference engine *)
Theorem fft_trunc_prefix {T} (ops : elt_ops T) e k trunc sd l : (k <= 16)%nat ->
  N.of_nat (length l) = 2 ^ N.of_nat k -> trunc <= 2 ^ N.of_nat k ->
  forall i, N.of_nat i < trunc ->
  nth_error (fft ops e (2 ^ N.of_nat k) trunc sd l) i =
  nth_error (fft ops Naive (2 ^ N.of_nat k) (2 ^ N.of_nat k) sd l) i.
Proof.
  intros Hk Hl Ht i Hi. unfold fft. cbn [two_layer_engine].
  assert (Lc : length l = p2' k) by (apply Nat2N.inj; rewrite Hl, p2'_N; reflexivity).
  rewrite (naive_fft_frec ops skew k (2 ^ N.of_nat k) sd l Hk Hl).
  destruct (two_layer_engine e).
  - destruct (two_fft_frec ops skew k trunc sd l Hk Hl) as (ts & L & F & E). rewrite E.
    apply (frec_prefix skew (fft_bf ops) sd k 0 ts _ l trunc); try assumption; try lia.
    + apply repeat_length.
    + apply Forall_repeat. exact Ht.
  - rewrite (naive_fft_frec ops skew k trunc sd l Hk Hl).
    apply (frec_prefix skew (fft_bf ops) sd k 0 _ _ l trunc); try assumption; try lia; try apply repeat_length.
    + apply Forall_repeat. lia.
    + apply Forall_repeat. exact Ht.
Qed.

(* (B) whatever the engine, a truncated inverse transform of an input that is zero from the
   truncation point on is the untruncated inverse transform of the reference engine *)
Theorem ifft_trunc_exact {T} (ops : elt_ops T) e k trunc sd l : ops_zero ops -> (k <= 16)%nat ->
  N.of_nat (length l) = 2 ^ N.of_nat k -> trunc <= 2 ^ N.of_nat k ->
  (forall i, (i < length l)%nat -> trunc <= N.of_nat i -> nth_error l i = Some (zeroT ops)) ->
  ifft ops e (2 ^ N.of_nat k) trunc sd l = ifft ops Naive (2 ^ N.of_nat k) (2 ^ N.of_nat k) sd l.
Proof.
  intros Hz Hk Hl Ht Hzero. unfold ifft. cbn [two_layer_engine].
  assert (Lc : length l = p2' k) by (apply Nat2N.inj; rewrite Hl, p2'_N; reflexivity).
  rewrite (naive_ifft_irec ops skew k (2 ^ N.of_nat k) sd l Hk Hl).
  assert (Z : forall i, (i < p2' k)%nat -> trunc <= 0 + N.of_nat i -> nth_error l i = Some (zeroT ops)).
  { intros i Hi Hti. apply Hzero; lia. }
  destruct (two_layer_engine e).
  - destruct (two_ifft_irec ops skew k trunc sd l Hk Hl Ht) as (ts & L & F & E). rewrite E.
    apply (irec_zero_tail skew (ifft_bf ops) sd (zeroT ops) (ifft_bf_zero ops Hz) k 0 ts _ l trunc); try assumption.
    + apply repeat_length.
    + apply Forall_repeat. exact Ht.
  - rewrite (naive_ifft_irec ops skew k trunc sd l Hk Hl).
    apply (irec_zero_tail skew (ifft_bf ops) sd (zeroT ops) (ifft_bf_zero ops Hz) k 0 _ _ l trunc); try assumption; try apply repeat_length.
    + apply Forall_repeat. lia.
    + apply Forall_repeat. exact Ht.
Qed.

Lemma nth_error_ext' {A} : forall a b : list A, (forall i, nth_error a i = nth_error b i) -> a = b.
Proof.
  induction a as [|x a IH]; intros [|y b] H; [reflexivity|specialize (H 0%nat); discriminate|specialize (H 0%nat); discriminate|].
  pose proof (H 0%nat) as H0. cbn in H0. inversion H0; subst. f_equal. apply IH. intros i. apply (H (S i)).
Qed.
Lemma nth_error_firstn' {A} : forall n (l : list A) i, (i < n)%nat -> nth_error (firstn n l) i = nth_error l i.
Proof.
  induction n as [|n IH]; intros l i Hi; [lia|]. destruct l as [|x l]; [reflexivity|]. destruct i; [reflexivity|].
  cbn. apply IH. lia.
Qed.

(* all engines agree on the meaningful part of a truncated forward transform, and completely on
   a truncated inverse transform within its contract *)
Corollary fft_trunc_engines {T} (ops : elt_ops T) e1 e2 k trunc sd l : (k <= 16)%nat ->
  N.of_nat (length l) = 2 ^ N.of_nat k -> trunc <= 2 ^ N.of_nat k ->
  firstn (N.to_nat trunc) (fft ops e1 (2 ^ N.of_nat k) trunc sd l) =
  firstn (N.to_nat trunc) (fft ops e2 (2 ^ N.of_nat k) trunc sd l).
Proof.
  intros Hk Hl Ht. apply nth_error_ext'. intros i.
  destruct (Nat.ltb i (N.to_nat trunc)) eqn:Ei.
  - apply Nat.ltb_lt in Ei. rewrite !nth_error_firstn' by exact Ei.
    rewrite !(fft_trunc_prefix ops _ k trunc sd l Hk Hl Ht) by lia. reflexivity.
  - apply Nat.ltb_ge in Ei.
    assert (A : forall x : list T, nth_error (firstn (N.to_nat trunc) x) i = None).
    { intros x. apply nth_error_None. rewrite firstn_length. lia. }
    rewrite !A. reflexivity.
Qed.
