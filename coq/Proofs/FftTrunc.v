(* Symbol-level consequences of Trunc.v, SchedEquiv.v and FftSpec.v: the truncated transforms of
   every engine in terms of the LCH-basis polynomial. *)
From Coq Require Import NArith Arith Lia Bool List.
From RS.Gen Require Import Prelude GenConsts.
From RS.Model Require Import Field Tables Sched Spec.
From RS.Proofs Require Import FieldFacts Ring Param SchedEquiv FftSpec Trunc Lengths.
Import ListNotations.
Local Open Scope N_scope.

(* ---------- the transforms keep symbols 16-bit ---------- *)
Definition Rw (x y : N) : Prop := W16 x /\ y = x.
Lemma Rw_list l : Forall W16 l -> Forall2 Rw l l.
Proof. induction 1; constructor; [split; [assumption|reflexivity]|assumption]. Qed.
Lemma Rw_W16 l l' : Forall2 Rw l l' -> Forall W16 l.
Proof. induction 1 as [|x y l l' [H _] _ IH]; constructor; assumption. Qed.
Lemma Rw_xor a a' b b' : Rw a a' -> Rw b b' -> Rw (xorT sym_ops a b) (xorT sym_ops a' b').
Proof. intros [A ->] [B ->]. split; [apply W16_lxor; assumption|reflexivity]. Qed.
Lemma Rw_mul a a' m : okm m -> Rw a a' -> Rw (mulT sym_ops a m) (mulT sym_ops a' m).
Proof. intros Hm [A ->]. split; [apply mul_lt; assumption|reflexivity]. Qed.
Lemma Rw_zero : Rw (zeroT sym_ops) (zeroT sym_ops).
Proof. split; [apply W16_0|reflexivity]. Qed.

Lemma fft_W16 e size trunc sd l : Forall W16 l -> Forall W16 (fft sym_ops e size trunc sd l).
Proof. intros H. eapply Rw_W16. apply (RL_fft sym_ops sym_ops Rw Rw_xor Rw_mul). apply Rw_list. exact H. Qed.
Lemma ifft_W16 e size trunc sd l : Forall W16 l -> Forall W16 (ifft sym_ops e size trunc sd l).
Proof. intros H. eapply Rw_W16. apply (RL_ifft sym_ops sym_ops Rw Rw_xor Rw_mul). apply Rw_list. exact H. Qed.

Lemma nth_error_nth_eq {A} (a b : list A) i d : nth_error a i = nth_error b i -> nth i a d = nth i b d.
Proof.
  intros H. destruct (nth_error a i) as [x|] eqn:Ea.
  - rewrite (nth_error_nth a i d Ea). symmetry in H. rewrite (nth_error_nth b i d H). reflexivity.
  - symmetry in H. apply nth_error_None in Ea, H. rewrite !nth_overflow by assumption. reflexivity.
Qed.

(* ---------- C15: the forward transform, every engine, truncated or not ---------- *)
Theorem fft_trunc_spec e k q c trunc : (k <= 16)%nat ->
  let size := 2 ^ N.of_nat k in let sd := q * size in
  sd + size <= 65536 -> length c = p2 k -> Forall W16 c -> trunc <= size ->
  forall i, N.of_nat i < trunc ->
  nth i (fft sym_ops e size trunc sd c) 0 = lch k c (sd + N.of_nat i).
Proof.
  intros Hk size sd Hb Hc Wc Ht i Hi. subst sd size.
  assert (Pk : N.of_nat (p2 k) = 2 ^ N.of_nat k) by (unfold p2; rewrite Nat2N.inj_pow; reflexivity).
  assert (Hl : N.of_nat (length c) = 2 ^ N.of_nat k) by (rewrite Hc; exact Pk).
  rewrite (nth_error_nth_eq _ _ i 0 (fft_trunc_prefix sym_ops e k trunc _ c Hk Hl Ht i Hi)).
  apply (naive_fft_spec k q c Hk Hb Hc Wc). lia.
Qed.

(* ---------- fft after ifft (the other composition) ---------- *)
Section Inverse'.
Variable skewf : N -> N.
Lemma bf_inverse' m p : fft_bf sym_ops m (ifft_bf sym_ops m p) = p.
Proof.
  destruct p as [a b]. unfold ifft_bf, fft_bf, muladd. cbn [xorT mulT sym_ops].
  destruct (m =? GF_MODULUS).
  - rewrite N.lxor_assoc, N.lxor_nilpotent, N.lxor_0_r. reflexivity.
  - rewrite (N.lxor_assoc a), N.lxor_nilpotent, N.lxor_0_r.
    rewrite N.lxor_assoc, N.lxor_nilpotent, N.lxor_0_r. reflexivity.
Qed.
Lemma bf2_inverse' m : forall a b, length a = length b ->
  bf2 (fft_bf sym_ops m) (fst (bf2 (ifft_bf sym_ops m) a b)) (snd (bf2 (ifft_bf sym_ops m) a b)) = (a, b).
Proof.
  unfold bf2. cbn [fst snd]. induction a as [|x a IH]; intros [|y b] H; try discriminate; [reflexivity|].
  cbn in H. specialize (IH b ltac:(lia)).
  cbn [combine map fst snd].
  pose proof (bf_inverse' m (x, y)) as Hb. destruct (ifft_bf sym_ops m (x, y)) as [x' y']. cbn [fst snd]. rewrite Hb. cbn [fst snd].
  set (L := map fst (map (fft_bf sym_ops m) _)) in *. set (Rr := map snd (map (fft_bf sym_ops m) _)) in *.
  inversion IH as [[E1 E2]]. reflexivity.
Qed.
Lemma layer_inverse' f d : (0 < d)%nat -> forall r trunc sd l, (2 * d * f <= length l)%nat ->
  naive_layer skewf (fft_bf sym_ops) f d r trunc sd (naive_layer skewf (ifft_bf sym_ops) f d r trunc sd l) = l.
Proof.
  intros Hd. induction f as [|f IH]; intros r trunc sd l Hl; [reflexivity|].
  cbn [naive_layer]. destruct (r <? trunc) eqn:Hr; [|cbn [naive_layer]; rewrite ?Hr; reflexivity].
  set (a := firstn d l). set (b := firstn d (skipn d l)). set (tl := skipn d (skipn d l)).
  assert (La : length a = d) by (unfold a; rewrite firstn_length; lia).
  assert (Lb : length b = d) by (unfold b; rewrite firstn_length, skipn_length; lia).
  set (m := skewf (r + N.of_nat d + sd - 1)).
  pose proof (bf2_inverse' m a b ltac:(congruence)) as Hi.
  pose proof (bf2_length (ifft_bf sym_ops m) a b) as [L1 L2].
  destruct (bf2 (ifft_bf sym_ops m) a b) as [a' b']. cbn [fst snd] in *. rewrite La, Lb, Nat.min_id in L1, L2.
  cbn [naive_layer]. rewrite ?Hr.
  rewrite (firstn_app_le' d a') by lia. rewrite (firstn_all2 a') by lia.
  rewrite (skipn_app_le' d a') by lia. rewrite (skipn_all2 a') by lia. cbn [app].
  rewrite (firstn_app_le' d b') by lia. rewrite (firstn_all2 b') by lia.
  rewrite (skipn_app_le' d b') by lia. rewrite (skipn_all2 b') by lia. cbn [app].
  fold m. rewrite Hi. rewrite IH by (unfold tl; rewrite !skipn_length; lia).
  unfold a, b, tl. rewrite <- (firstn_skipn d l) at 4. f_equal. rewrite <- (firstn_skipn d (skipn d l)) at 3. reflexivity.
Qed.

Theorem naive_fft_ifft k trunc sd l : (k <= 16)%nat -> N.of_nat (length l) = 2 ^ N.of_nat k ->
  naive_fft sym_ops skewf (2 ^ N.of_nat k) trunc sd (naive_ifft sym_ops skewf (2 ^ N.of_nat k) trunc sd l) = l.
Proof.
  intros Hk Hl. unfold naive_ifft, naive_fft. set (size := 2 ^ N.of_nat k) in *.
  rewrite <- (rev_involutive (dists size)) at 2.
  apply (folds_inverse _ _ (fun l0 => N.of_nat (length l0) = size)); [|exact Hl].
  intros l0 d Hl0 Hd. apply in_rev in Hd.
  assert (Hdd : 0 < d /\ 2 * d * (size / (2 * d)) <= size).
  { assert (H : forallb (fun k => forallb (fun d => (0 <? d) && (2 * d * (2 ^ N.of_nat k / (2 * d)) <=? 2 ^ N.of_nat k)) (dists (2 ^ N.of_nat k))) (seq 0 17) = true)
      by (vm_compute; reflexivity).
    rewrite forallb_forall in H. specialize (H k ltac:(apply in_seq; lia)). rewrite forallb_forall in H.
    specialize (H d Hd). apply andb_prop in H. destruct H as [H1 H2]. apply N.ltb_lt in H1. apply N.leb_le in H2. auto. }
  destruct Hdd as [Hd0 Hdv]. unfold naive_pass. split.
  - apply layer_inverse'; lia.
  - rewrite glayer_length by lia. exact Hl0.
Qed.
End Inverse'.

(* ---------- C15: the inverse transform interpolates, every engine, truncated or not ---------- *)
(* within its contract (input zero from truncated_size on) the result of ifft is the coefficient
   vector, in the LCH basis, of the polynomial that takes the given values at skew_delta + i *)
Theorem ifft_interpolates e k q x trunc : (k <= 16)%nat ->
  let size := 2 ^ N.of_nat k in let sd := q * size in
  sd + size <= 65536 -> length x = p2 k -> Forall W16 x -> trunc <= size ->
  (forall i, (i < length x)%nat -> trunc <= N.of_nat i -> nth_error x i = Some 0) ->
  forall i, (i < p2 k)%nat ->
  lch k (ifft sym_ops e size trunc sd x) (sd + N.of_nat i) = nth i x 0.
Proof.
  intros Hk size sd Hb Hx Wx Ht Hz i Hi. subst sd size.
  assert (Pk : N.of_nat (p2 k) = 2 ^ N.of_nat k) by (unfold p2; rewrite Nat2N.inj_pow; reflexivity).
  assert (Hl : N.of_nat (length x) = 2 ^ N.of_nat k) by (rewrite Hx; exact Pk).
  set (c := ifft sym_ops e (2 ^ N.of_nat k) trunc (q * 2 ^ N.of_nat k) x).
  assert (Lc : length c = p2 k) by (unfold c; rewrite (ifft_len sym_ops e k) by assumption; exact Hx).
  assert (Wc : Forall W16 c) by (unfold c; apply ifft_W16; exact Wx).
  rewrite <- (naive_fft_spec k q c Hk Hb Lc Wc i Hi).
  unfold c. rewrite (ifft_trunc_exact sym_ops e k trunc _ x sym_ops_zero Hk Hl Ht Hz).
  unfold fft, ifft. cbn [two_layer_engine]. rewrite naive_fft_ifft by assumption. reflexivity.
Qed.

(* fft and ifft are mutually inverse bijections on vectors of 2^k symbols, every engine *)
Theorem fft_ifft_inverse e k sd l : (k <= 16)%nat -> N.of_nat (length l) = 2 ^ N.of_nat k ->
  fft sym_ops e (2 ^ N.of_nat k) (2 ^ N.of_nat k) sd (ifft sym_ops e (2 ^ N.of_nat k) (2 ^ N.of_nat k) sd l) = l.
Proof.
  intros Hk Hl. rewrite ifft_engines_agree by assumption.
  rewrite fft_engines_agree; [|assumption|].
  - unfold ifft, fft. cbn [two_layer_engine]. apply naive_fft_ifft; assumption.
  - rewrite (ifft_len sym_ops Naive k) by assumption. exact Hl.
Qed.
