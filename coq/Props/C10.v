(* C10 — one-shot encode()/decode() equal the streaming API, errors included.
   In the model the one-shot functions are compositions of exactly the functions the streaming
   steps use (enc_make / enc_add / enc_encode, dec_make / dec_add_* / dec_decode on a fresh
   ReedSolomonEncoder/Decoder), with the shard size inferred as lib.rs does; that the Rust
   one-shot functions behave like this model is what the correspondence check ties
   (tuples with and without recovery shards, malformed input). *)
From Coq Require Import NArith Bool List.
From RS.Gen Require Import Prelude GenConsts.
From RS.Model Require Import Field Sched Codec Machine Admissible.
From RS.Proofs Require Import MachineFacts OneShot OneShotEnc OneShotOk OneShotInvalid.
Import ListNotations.
Local Open Scope N_scope.

(* encode = new(K,R,len(first)) ; add every shard in order, stopping at the first error ; encode *)
Theorem C10_encode : forall junk ep K R first rest,
  default_supportsb K R = true ->
  oneshot_encode junk ep K R (first :: rest) =
  match enc_make CRs DefaultE K R (blen first) encwork_new with
  | inr e => RError e
  | inl (x, _) =>
    match enc_add_all x (first :: rest) with
    | inr e => RError e
    | inl x' => match snd (enc_encode junk ep x' []) with REnc rec _ => RShards rec | r => r end
    end
  end.
Proof. intros. unfold oneshot_encode. rewrite H. reflexivity. Qed.
Print Assumptions C10_encode.

(* an error of the streaming adds is truthful for the one-shot input too: it names a shard
   of the input whose length differs from the first one, or a surplus shard *)
Theorem C10_encode_add_errors : forall l x e, enc_add_all x l = inr e ->
  (exists s, In s l /\ e = DifferentShardSize (ew_sb (e_work x)) (blen s)) \/
  e = TooManyOriginalShards (ew_K (e_work x)).
Proof.
  induction l as [|s l IH]; intros x e; cbn; [discriminate|].
  destruct (enc_add x s) as [x'|e'] eqn:E.
  - intros H. assert (Hsb : ew_sb (e_work x') = ew_sb (e_work x) /\ ew_K (e_work x') = ew_K (e_work x)).
    { unfold enc_add in E. destruct (_ =? _); [discriminate|]. destruct (negb _); [discriminate|].
      inversion E; subst; cbn; auto. }
    destruct Hsb as [H1 H2]. destruct (IH x' e H) as [(s' & Hin & He)|He]; subst e.
    + left. exists s'. rewrite H1. auto.
    + right. rewrite H2. reflexivity.
  - intros [= <-]. unfold enc_add in E. destruct (_ =? _); [inversion E; auto|].
    destruct (negb _); [inversion E; left; exists s; auto|discriminate].
Qed.
Print Assumptions C10_encode_add_errors.

(* decode never reports success for an input with an out-of-range index, whatever else it contains *)
Theorem C10_decode_bad_index : forall l x i s, In (i, s) l -> dw_K (d_work x) <= i ->
  exists e, dec_add_all true x l = inr e.
Proof.
  induction l as [|[j t] l IH]; intros x i s Hin Hi; [destruct Hin|].
  cbn. destruct (dec_add_original x j t) as [x'|e] eqn:E; [|eexists; reflexivity].
  destruct Hin as [[= -> ->]|Hin].
  - unfold dec_add_original in E. apply N.leb_le in Hi. rewrite Hi in E. discriminate.
  - apply (IH x' i s Hin).
    unfold dec_add_original in E.
    destruct (_ <=? _); [discriminate|]. destruct (pmem _ _); [discriminate|]. destruct (negb _); [discriminate|].
    inversion E; subst; cbn. exact Hi.
Qed.
Print Assumptions C10_decode_bad_index.

(* every error of the one-shot decode() is a member of the set of errors that truthfully
   describe a violated precondition of the given input (Admissible.adm_onedec): an unsupported
   configuration, an empty input, an invalid size, an out-of-range or repeated index, a shard of
   different length, or too few distinct valid shards - for ALL argument tuples *)
Theorem C10_decode_truthful : forall junk ep K R orig rec e,
  oneshot_decode junk ep K R orig rec = RError e -> In e (adm_onedec K R orig rec).
Proof. exact oneshot_decode_truthful. Qed.
Print Assumptions C10_decode_truthful.

(* ... and the same for the one-shot encode() *)
Theorem C10_encode_truthful : forall junk ep K R shards e,
  oneshot_encode junk ep K R shards = RError e -> In e (adm_oneenc K R shards).
Proof. exact oneshot_encode_truthful. Qed.
Print Assumptions C10_encode_truthful.

(* the converse halves: a one-shot call that violates no documented precondition returns Ok, and
   one that violates any is rejected - for ALL argument tuples *)
Theorem C10_valid_ok : forall junk ep K R,
  (forall shards, adm_oneenc K R shards = [] -> exists rec, oneshot_encode junk ep K R shards = RShards rec) /\
  (forall orig rec, adm_onedec K R orig rec = [] -> exists it, oneshot_decode junk ep K R orig rec = RMap it).
Proof. intros; split; intros; [apply oneshot_encode_valid_ok|apply oneshot_decode_valid_ok]; assumption. Qed.
Print Assumptions C10_valid_ok.
Theorem C10_invalid_err : forall junk ep K R,
  (forall shards, adm_oneenc K R shards <> [] -> exists e, oneshot_encode junk ep K R shards = RError e) /\
  (forall orig rec, adm_onedec K R orig rec <> [] -> exists e, oneshot_decode junk ep K R orig rec = RError e).
Proof. intros; split; intros; [apply oneshot_encode_invalid_err|apply oneshot_decode_invalid_err]; assumption. Qed.
Print Assumptions C10_invalid_err.

Example C10_no_recovery :
  let j := fun _ _ _ : N => 0 in
  oneshot_decode j 0 2 1 [(0, [1;2]); (0, [1;2])] [] = RError (DuplicateOriginalShardIndex 0) /\
  oneshot_decode j 0 2 1 [(0, [1;2]); (7, [1;2;3])] [] = RError (InvalidOriginalShardIndex 2 7) /\
  oneshot_decode j 0 2 1 [(0, [1;2]); (1, [3;4])] [] = RMap [] /\
  oneshot_decode j 0 2 1 [(0, [1;2])] [] = RError (NotEnoughShards 2 1 0) /\
  oneshot_decode j 0 2 1 [] [] = RError (NotEnoughShards 2 0 0).
Proof. vm_compute. repeat split. Qed.
