(* Corollaries of parametricity (Param.v) and of the field facts (FieldFacts.v):
   - encode and decode are GF(2)-linear in the work vector (C13_add, C13_zero);
   - the shard-level codec acts on every 16-bit lane like the symbol-level codec (C04). *)
From Coq Require Import NArith Arith Lia Bool List.
From RS.Gen Require Import Prelude GenConsts.
From RS.Model Require Import Field Tables Sched Codec.
From RS.Proofs Require Import FieldFacts Param.
Import ListNotations.
Local Open Scope N_scope.

(* ---------- generic list facts ---------- *)
Lemma Forall2_combine_fst {A B} (a : list A) (b : list B) : length a = length b ->
  Forall2 (fun p x => fst p = x) (combine a b) a.
Proof. revert b. induction a as [|x a IH]; intros [|y b] H; cbn in *; try discriminate; constructor; auto. Qed.
Lemma Forall2_combine_snd {A B} (a : list A) (b : list B) : length a = length b ->
  Forall2 (fun p x => snd p = x) (combine a b) b.
Proof. revert b. induction a as [|x a IH]; intros [|y b] H; cbn in *; try discriminate; constructor; auto. Qed.

Lemma Forall2_three {P A} (R1 R2 R3 : P -> A -> Prop) (f : A -> A -> A) ps l1 l2 l3 :
  (forall p a b c, R1 p a -> R2 p b -> R3 p c -> c = f a b) ->
  Forall2 R1 ps l1 -> Forall2 R2 ps l2 -> Forall2 R3 ps l3 -> l3 = map2 f l1 l2.
Proof.
  intros Hf H1. revert l2 l3. unfold map2. induction H1; intros l2 l3 H2 H3; inversion H2; subst; inversion H3; subst; cbn; [reflexivity|].
  f_equal; eauto.
Qed.

(* ---------- linearity ---------- *)
Definition pair_ops : elt_ops (N * N) :=
  {| xorT := fun p q => (N.lxor (fst p) (fst q), N.lxor (snd p) (snd q));
     mulT := fun p m => (mul (fst p) m, mul (snd p) m);
     zeroT := (0, 0) |}.

Definition Rfst (p : N * N) (x : N) : Prop := fst p = x.
Definition Rsnd (p : N * N) (x : N) : Prop := snd p = x.
Definition Rlin (p : N * N) (x : N) : Prop := W16 (fst p) /\ W16 (snd p) /\ x = N.lxor (fst p) (snd p).

Lemma Rlin_xor a a' b b' : Rlin a a' -> Rlin b b' -> Rlin (xorT pair_ops a b) (xorT sym_ops a' b').
Proof.
  intros (A1 & A2 & ->) (B1 & B2 & ->). cbn. repeat split; try (apply W16_lxor; assumption). apply lxor_4.
Qed.
Lemma Rlin_mul a a' m : okm m -> Rlin a a' -> Rlin (mulT pair_ops a m) (mulT sym_ops a' m).
Proof.
  intros Hm (A1 & A2 & ->). cbn. repeat split; try (apply mul_lt; assumption). apply mul_additive; assumption.
Qed.
Lemma Rlin_zero : Rlin (zeroT pair_ops) (zeroT sym_ops).
Proof. cbn. repeat split; apply W16_0. Qed.

Lemma Rlin_combine w1 w2 : length w1 = length w2 -> Forall W16 w1 -> Forall W16 w2 ->
  Forall2 Rlin (combine w1 w2) (map2 N.lxor w1 w2).
Proof.
  revert w2. unfold map2. induction w1 as [|x w1 IH]; intros [|y w2] Hl H1 H2; cbn in *; try discriminate; [constructor|].
  inversion H1; subst. inversion H2; subst. constructor; [repeat split; assumption|]. apply IH; auto.
Qed.

Section Lin.
(* any function of the work vector that is parametric in the element operations *)
Variable F : forall T, elt_ops T -> list T -> list T.
Hypothesis Fparam : forall T1 T2 (o1 : elt_ops T1) (o2 : elt_ops T2) (R : T1 -> T2 -> Prop),
  (forall a a' b b', R a a' -> R b b' -> R (xorT o1 a b) (xorT o2 a' b')) ->
  (forall a a' m, okm m -> R a a' -> R (mulT o1 a m) (mulT o2 a' m)) ->
  R (zeroT o1) (zeroT o2) ->
  forall w w', Forall2 R w w' -> Forall2 R (F T1 o1 w) (F T2 o2 w').

Theorem parametric_linear w1 w2 : length w1 = length w2 -> Forall W16 w1 -> Forall W16 w2 ->
  F N sym_ops (map2 N.lxor w1 w2) = map2 N.lxor (F N sym_ops w1) (F N sym_ops w2).
Proof.
  intros Hl H1 H2.
  apply (Forall2_three Rfst Rsnd Rlin N.lxor (F _ pair_ops (combine w1 w2))).
  - intros p a b c Ha Hb (_ & _ & Hc). unfold Rfst, Rsnd in *. subst. reflexivity.
  - apply Fparam; [| | |apply Forall2_combine_fst, Hl]; unfold Rfst; cbn; intros; subst; reflexivity.
  - apply Fparam; [| | |apply Forall2_combine_snd, Hl]; unfold Rsnd; cbn; intros; subst; reflexivity.
  - apply Fparam; [exact Rlin_xor|exact Rlin_mul|exact Rlin_zero|apply Rlin_combine; assumption].
Qed.
End Lin.

Theorem encode_high_linear e K R w1 w2 : length w1 = length w2 -> Forall W16 w1 -> Forall W16 w2 ->
  encode_high sym_ops e K R (map2 N.lxor w1 w2) =
  map2 N.lxor (encode_high sym_ops e K R w1) (encode_high sym_ops e K R w2).
Proof.
  apply (parametric_linear (fun T o => encode_high o e K R)).
  intros. apply RL_encode_high; assumption.
Qed.
Theorem encode_low_linear e K R w1 w2 : length w1 = length w2 -> Forall W16 w1 -> Forall W16 w2 ->
  encode_low sym_ops e K R (map2 N.lxor w1 w2) =
  map2 N.lxor (encode_low sym_ops e K R w1) (encode_low sym_ops e K R w2).
Proof.
  apply (parametric_linear (fun T o => encode_low o e K R)).
  intros. apply RL_encode_low; assumption.
Qed.
Theorem fft_linear e size trunc sd w1 w2 : length w1 = length w2 -> Forall W16 w1 -> Forall W16 w2 ->
  fft sym_ops e size trunc sd (map2 N.lxor w1 w2) = map2 N.lxor (fft sym_ops e size trunc sd w1) (fft sym_ops e size trunc sd w2).
Proof. apply (parametric_linear (fun T o => fft o e size trunc sd)). intros. apply RL_fft; assumption. Qed.
Theorem ifft_linear e size trunc sd w1 w2 : length w1 = length w2 -> Forall W16 w1 -> Forall W16 w2 ->
  ifft sym_ops e size trunc sd (map2 N.lxor w1 w2) = map2 N.lxor (ifft sym_ops e size trunc sd w1) (ifft sym_ops e size trunc sd w2).
Proof. apply (parametric_linear (fun T o => ifft o e size trunc sd)). intros. apply RL_ifft; assumption. Qed.
Theorem decode_high_linear e K R recv w1 w2 : length w1 = length w2 -> Forall W16 w1 -> Forall W16 w2 ->
  snd (decode_high_work sym_ops e K R recv (map2 N.lxor w1 w2)) =
  map2 N.lxor (snd (decode_high_work sym_ops e K R recv w1)) (snd (decode_high_work sym_ops e K R recv w2)).
Proof.
  apply (parametric_linear (fun T o w => snd (decode_high_work o e K R recv w))).
  intros. apply RL_decode_high; assumption.
Qed.
Theorem decode_low_linear e K R recv w1 w2 : length w1 = length w2 -> Forall W16 w1 -> Forall W16 w2 ->
  snd (decode_low_work sym_ops e K R recv (map2 N.lxor w1 w2)) =
  map2 N.lxor (snd (decode_low_work sym_ops e K R recv w1)) (snd (decode_low_work sym_ops e K R recv w2)).
Proof.
  apply (parametric_linear (fun T o w => snd (decode_low_work o e K R recv w))).
  intros. apply RL_decode_low; assumption.
Qed.

(* zero in, zero out: a parametric function maps the all-zero vector to all zeros *)
Definition Rz (x y : N) : Prop := x = 0 /\ y = 0.
Lemma Rz_all a b : Forall2 Rz a b -> Forall (fun x => x = 0) a.
Proof. induction 1 as [|x y l l' [Hx _] _ IH]; constructor; auto. Qed.
Theorem encode_high_zero e K R n :
  Forall (fun x => x = 0) (encode_high sym_ops e K R (repeat 0 n)).
Proof.
  assert (H : Forall2 Rz (encode_high sym_ops e K R (repeat 0 n)) (encode_high sym_ops e K R (repeat 0 n))).
  { apply RL_encode_high.
    - intros a a' b b' [Ha Ha'] [Hb Hb']. subst. split; reflexivity.
    - intros a a' m _ [Ha Ha']. subst. split; reflexivity.
    - split; reflexivity.
    - induction n; cbn; constructor; [split; reflexivity|assumption]. }
  exact (Rz_all _ _ H).
Qed.
Theorem encode_low_zero e K R n :
  Forall (fun x => x = 0) (encode_low sym_ops e K R (repeat 0 n)).
Proof.
  assert (H : Forall2 Rz (encode_low sym_ops e K R (repeat 0 n)) (encode_low sym_ops e K R (repeat 0 n))).
  { apply RL_encode_low.
    - intros a a' b b' [Ha Ha'] [Hb Hb']. subst. split; reflexivity.
    - intros a a' m _ [Ha Ha']. subst. split; reflexivity.
    - split; reflexivity.
    - induction n; cbn; constructor; [split; reflexivity|assumption]. }
  exact (Rz_all _ _ H).
Qed.

(* ---------- lanes: the shard-level codec is the symbol-level codec on every lane ---------- *)
Section Lanes.
Variable lanes : nat.
Variable k : nat.
Hypothesis Hk : (k < lanes)%nat.
Definition Rlane (s : list N) (x : N) : Prop := length s = lanes /\ nth k s 0 = x.

Lemma nth_map2_lxor a b : length a = lanes -> length b = lanes ->
  nth k (map2 N.lxor a b) 0 = N.lxor (nth k a 0) (nth k b 0) /\ length (map2 N.lxor a b) = lanes.
Proof.
  unfold map2. intros Ha Hb. split.
  - change 0 with ((fun p : N * N => N.lxor (fst p) (snd p)) (0, 0)) at 1. rewrite map_nth. rewrite combine_nth by congruence. reflexivity.
  - rewrite map_length, combine_length, Ha, Hb. apply Nat.min_id.
Qed.
Lemma Rlane_xor a a' b b' : Rlane a a' -> Rlane b b' -> Rlane (xorT (shard_ops lanes) a b) (xorT sym_ops a' b').
Proof. intros [La <-] [Lb <-]. cbn. destruct (nth_map2_lxor a b La Lb). split; auto. Qed.
Lemma Rlane_mul a a' m : Rlane a a' -> Rlane (mulT (shard_ops lanes) a m) (mulT sym_ops a' m).
Proof.
  intros [La <-]. cbn. split; [rewrite map_length; exact La|].
  change 0 with (mul 0 m) at 1. apply (map_nth (fun x => mul x m)).
Qed.
Lemma Rlane_zero : Rlane (zeroT (shard_ops lanes)) (zeroT sym_ops).
Proof. cbn. split; [apply repeat_length|]. apply nth_repeat. Qed.

Theorem encode_high_lanes e K R (w : list (list N)) :
  Forall (fun s => length s = lanes) w ->
  Forall2 Rlane (encode_high (shard_ops lanes) e K R w) (encode_high sym_ops e K R (map (fun s => nth k s 0) w)).
Proof.
  intros Hw. apply RL_encode_high; [exact Rlane_xor|intros; apply Rlane_mul; assumption|exact Rlane_zero|].
  induction Hw; cbn; constructor; [split; auto|assumption].
Qed.
Theorem encode_low_lanes e K R (w : list (list N)) :
  Forall (fun s => length s = lanes) w ->
  Forall2 Rlane (encode_low (shard_ops lanes) e K R w) (encode_low sym_ops e K R (map (fun s => nth k s 0) w)).
Proof.
  intros Hw. apply RL_encode_low; [exact Rlane_xor|intros; apply Rlane_mul; assumption|exact Rlane_zero|].
  induction Hw; cbn; constructor; [split; auto|assumption].
Qed.
Theorem decode_high_lanes e K R recv (w : list (list N)) :
  Forall (fun s => length s = lanes) w ->
  Forall2 Rlane (snd (decode_high_work (shard_ops lanes) e K R recv w))
                (snd (decode_high_work sym_ops e K R recv (map (fun s => nth k s 0) w))).
Proof.
  intros Hw. apply RL_decode_high; [exact Rlane_xor|intros; apply Rlane_mul; assumption|exact Rlane_zero|].
  induction Hw; cbn; constructor; [split; auto|assumption].
Qed.
Theorem decode_low_lanes e K R recv (w : list (list N)) :
  Forall (fun s => length s = lanes) w ->
  Forall2 Rlane (snd (decode_low_work (shard_ops lanes) e K R recv w))
                (snd (decode_low_work sym_ops e K R recv (map (fun s => nth k s 0) w))).
Proof.
  intros Hw. apply RL_decode_low; [exact Rlane_xor|intros; apply Rlane_mul; assumption|exact Rlane_zero|].
  induction Hw; cbn; constructor; [split; auto|assumption].
Qed.
End Lanes.

(* ---------- kernels: Naive and NoSimd multiply every lane by g^log_m ---------- *)
From RS.Model Require Import Layout Kernels.

Lemma nibbles x : W16 x ->
  x = N.lxor (N.lxor (N.lxor (N.shiftl (N.land x 15) 0) (N.shiftl (N.land (N.shiftr x 4) 15) 4))
                     (N.shiftl (N.land (N.shiftr x 8) 15) 8)) (N.shiftl (N.shiftr x 12) 12).
Proof.
  intros Hx.
  assert (H : forallb (fun x => x =? N.lxor (N.lxor (N.lxor (N.shiftl (N.land x 15) 0) (N.shiftl (N.land (N.shiftr x 4) 15) 4))
                     (N.shiftl (N.land (N.shiftr x 8) 15) 8)) (N.shiftl (N.shiftr x 12) 12)) (rangeN 0 (N.to_nat 65536)) = true)
    by (vm_compute; reflexivity).
  apply N.eqb_eq. exact (sweep16 _ H x Hx).
Qed.
Lemma nibble_parts_w16 x : W16 x ->
  W16 (N.shiftl (N.land x 15) 0) /\ W16 (N.shiftl (N.land (N.shiftr x 4) 15) 4) /\
  W16 (N.shiftl (N.land (N.shiftr x 8) 15) 8) /\ W16 (N.shiftl (N.shiftr x 12) 12).
Proof.
  intros Hx.
  assert (H : forallb (fun x => (N.shiftl (N.land x 15) 0 <? 65536) && (N.shiftl (N.land (N.shiftr x 4) 15) 4 <? 65536) &&
                      (N.shiftl (N.land (N.shiftr x 8) 15) 8 <? 65536) && (N.shiftl (N.shiftr x 12) 12 <? 65536)) (rangeN 0 (N.to_nat 65536)) = true)
    by (vm_compute; reflexivity).
  pose proof (sweep16 _ H x Hx) as Hx'. cbv beta in Hx'.
  repeat (apply andb_prop in Hx'; destruct Hx' as [Hx' ?]).
  unfold W16. repeat split; apply N.ltb_lt; assumption.
Qed.
(* byte-level nibble extraction equals symbol-level nibble extraction *)
Lemma byte_nibbles lo hi : lo < 256 -> hi < 256 ->
  let x := N.lor lo (N.shiftl hi 8) in
  W16 x /\ N.land lo 15 = N.land x 15 /\ N.shiftr lo 4 = N.land (N.shiftr x 4) 15 /\
  N.land hi 15 = N.land (N.shiftr x 8) 15 /\ N.shiftr hi 4 = N.shiftr x 12 /\ x = sym lo hi.
Proof.
  intros Hlo Hhi.
  assert (H : forallb (fun lo => forallb (fun hi =>
     let x := N.lor lo (N.shiftl hi 8) in
     (x <? 65536) && (N.land lo 15 =? N.land x 15) && (N.shiftr lo 4 =? N.land (N.shiftr x 4) 15) &&
     (N.land hi 15 =? N.land (N.shiftr x 8) 15) && (N.shiftr hi 4 =? N.shiftr x 12) && (x =? sym lo hi))
     (rangeN 0 (N.to_nat 256))) (rangeN 0 (N.to_nat 256)) = true) by (vm_compute; reflexivity).
  pose proof (forallb_rangeN _ _ _ H lo ltac:(rewrite N2Nat.id; lia)) as H1. cbv beta in H1.
  pose proof (forallb_rangeN _ _ _ H1 hi ltac:(rewrite N2Nat.id; lia)) as H2. cbv beta zeta in H2.
  repeat (apply andb_prop in H2; destruct H2 as [H2 ?]).
  cbv zeta. unfold W16.
  repeat split; try (apply N.eqb_eq; assumption). apply N.ltb_lt; assumption.
Qed.

Theorem nosimd_prod_spec m lo hi : m <= 65535 -> lo < 256 -> hi < 256 ->
  nosimd_prod m lo hi = mul (sym lo hi) m.
Proof.
  intros Hm Hlo Hhi. destruct (byte_nibbles lo hi Hlo Hhi) as (Hx & E0 & E1 & E2 & E3 & Es).
  cbv zeta in *. set (x := N.lor lo (N.shiftl hi 8)) in *.
  unfold nosimd_prod, mul16. rewrite E0, E1, E2, E3.
  destruct (nibble_parts_w16 x Hx) as (W0 & W1 & W2 & W3).
  rewrite <- Es. rewrite (nibbles x Hx) at 5.
  rewrite !mul_additive; try assumption; try (repeat apply W16_lxor; assumption).
  reflexivity.
Qed.

Theorem naive_prod_spec m lo hi : lo < 256 -> hi < 256 ->
  mul (N.lor lo (N.shiftl hi 8)) m = mul (sym lo hi) m.
Proof. intros Hlo Hhi. destruct (byte_nibbles lo hi Hlo Hhi) as (_ & _ & _ & _ & _ & ->). reflexivity. Qed.

Lemma map2_ext_in {A B C} (f g : A -> B -> C) (P : A -> Prop) (Q : B -> Prop) l1 l2 :
  (forall a b, P a -> Q b -> f a b = g a b) -> Forall P l1 -> Forall Q l2 -> map2 f l1 l2 = map2 g l1 l2.
Proof.
  intros Hfg H1. revert l2. unfold map2. induction H1; intros l2 H2; [reflexivity|].
  destruct H2; [reflexivity|]. cbn. f_equal; auto.
Qed.
Lemma Forall_firstn {A} (P : A -> Prop) n l : Forall P l -> Forall P (firstn n l).
Proof. intros H. revert n. induction H; intros [|n]; cbn; constructor; auto. Qed.
Lemma Forall_skipn {A} (P : A -> Prop) n l : Forall P l -> Forall P (skipn n l).
Proof. intros H. revert n. induction H; intros [|n]; cbn; auto. Qed.

Definition byte (x : N) : Prop := x < 256.

(* C03_mul for the two portable engines, for every block and every multiplier *)
Theorem nosimd_mul_block_spec m b : m <= 65535 -> length b = 64%nat -> Forall byte b ->
  nosimd_mul_block m b = spec_mul_block m b.
Proof.
  intros Hm Hl Hb. unfold nosimd_mul_block, spec_mul_block, group_bytes, group_syms. rewrite Hl.
  change (Nat.div2 64) with 32%nat.
  assert (E : map2 (nosimd_prod m) (firstn 32 b) (skipn 32 b) =
              map (fun x => mul x m) (map (fun p => sym (fst p) (snd p)) (combine (firstn 32 b) (skipn 32 b)))).
  { rewrite map_map. rewrite (map2_ext_in _ (fun lo hi => mul (sym lo hi) m) byte byte).
    - reflexivity.
    - intros; apply nosimd_prod_spec; assumption.
    - apply Forall_firstn, Hb.
    - apply Forall_skipn, Hb. }
  rewrite E. reflexivity.
Qed.
Theorem naive_mul_block_spec m b : length b = 64%nat -> Forall byte b ->
  naive_mul_block m b = spec_mul_block m b.
Proof.
  intros Hl Hb. unfold naive_mul_block, spec_mul_block, group_bytes, group_syms. rewrite Hl.
  change (Nat.div2 64) with 32%nat.
  assert (E : map2 (fun l h => mul (N.lor l (N.shiftl h 8)) m) (firstn 32 b) (skipn 32 b) =
              map (fun x => mul x m) (map (fun p => sym (fst p) (snd p)) (combine (firstn 32 b) (skipn 32 b)))).
  { rewrite map_map. rewrite (map2_ext_in _ (fun lo hi => mul (sym lo hi) m) byte byte).
    - reflexivity.
    - intros; apply naive_prod_spec; assumption.
    - apply Forall_firstn, Hb.
    - apply Forall_skipn, Hb. }
  rewrite E. reflexivity.
Qed.
