(* Facts about the translated decision functions (Gen/GenRate.v, regenerated from
   the Rust source on every run) : they never overflow on usize arguments, equal
   the model's boolean functions, and characterise the documented envelope. *)
From Coq Require Import NArith Lia Bool List ZifyBool.
From RS.Gen Require Import Prelude GenConsts GenRate.
From RS.Model Require Import Field Codec Machine Spec.
Import ListNotations.
Local Open Scope N_scope.

Definition USIZE : N := 2 ^ 64.

(* ---------- next_power_of_two ---------- *)
Lemma npow2_spec x : 1 <= x ->
  exists a, npow2 x = 2 ^ a /\ x <= 2 ^ a /\ (forall b, x <= 2 ^ b -> 2 ^ a <= 2 ^ b).
Proof.
  intros Hx. unfold npow2. destruct (N.leb_spec x 1) as [H1|H1].
  - exists 0. assert (x = 1) by lia. subst. split; [reflexivity|]. split; [simpl; lia|].
    intros b _. apply N.pow_le_mono_r; lia.
  - exists (N.log2_up x). split; [reflexivity|]. split.
    + apply N.log2_up_spec; lia.
    + intros b Hb. apply N.pow_le_mono_r; [lia|]. apply N.log2_up_le_pow2; lia.
Qed.

Lemma npow2_0 : npow2 0 = 1.
Proof. reflexivity. Qed.

Lemma pow2_pos a : 1 <= 2 ^ a.
Proof. assert (2 ^ a <> 0) by (apply N.pow_nonzero; lia). lia. Qed.

Lemma pow2_lt_half a k : 2 ^ a < 2 ^ (N.succ k) -> 2 ^ a <= 2 ^ k.
Proof.
  intros H. apply N.pow_lt_mono_r_iff in H; [|lia]. apply N.pow_le_mono_r; lia.
Qed.

Lemma npow2_le_65536 x : x <= 65536 -> npow2 x <= 65536.
Proof.
  intros H. destruct (N.eq_dec x 0) as [->|Hx]; [rewrite npow2_0; lia|].
  destruct (npow2_spec x) as (a & Ha & _ & Hmin); [lia|]. rewrite Ha. apply (Hmin 16). exact H.
Qed.

Lemma npow2_ge x : x <= npow2 x.
Proof.
  destruct (N.eq_dec x 0) as [->|Hx]; [rewrite npow2_0; lia|].
  destruct (npow2_spec x) as (a & Ha & Hle & _); [lia|]. lia.
Qed.

Lemma npow2_mono x y : x <= y -> npow2 x <= npow2 y.
Proof.
  intros H. destruct (N.eq_dec x 0) as [->|Hx].
  - rewrite npow2_0. destruct (N.eq_dec y 0) as [->|Hy]; [rewrite npow2_0; lia|].
    destruct (npow2_spec y) as (b & Hb & _ & _); [lia|]. rewrite Hb. apply pow2_pos.
  - destruct (npow2_spec x) as (a & Ha & _ & Hmin); [lia|].
    destruct (npow2_spec y) as (b & Hb & Hyb & _); [lia|].
    rewrite Ha, Hb. apply Hmin. lia.
Qed.

(* a power of two strictly below 2^16 is at most 2^15 *)
Lemma npow2_lt_half x : 1 <= x -> npow2 x < 65536 -> npow2 x <= 32768.
Proof.
  intros Hx H. destruct (npow2_spec x Hx) as (a & Ha & _ & _). rewrite Ha in *.
  change 65536 with (2 ^ N.succ 15) in H. apply pow2_lt_half in H. exact H.
Qed.

Lemma fits_usize x : x < USIZE -> fits W_usize x = true.
Proof. unfold fits, W_usize, USIZE. intros. apply N.ltb_lt. exact H. Qed.

Lemma next_pow2_small x : x <= 65536 -> next_power_of_two W_usize x = Val (npow2 x).
Proof.
  intros H. unfold next_power_of_two. rewrite fits_usize; [reflexivity|].
  pose proof (npow2_le_65536 x H). unfold USIZE. change (2 ^ 64) with 18446744073709551616. lia.
Qed.

Lemma uadd_small a b : a + b < USIZE -> uadd W_usize a b = Val (a + b).
Proof. intros H. unfold uadd. rewrite fits_usize; auto. Qed.


Lemma usub_small a b : b <= a -> usub W_usize a b = Val (a - b).
Proof. intros H. unfold usub. apply N.leb_le in H. rewrite H. reflexivity. Qed.

(* Symbolic execution of a translated decision function on arguments for which no checked operation
   fails. It does not depend on the shape of the Rust text (early returns or one && chain, a + b <= c or
   a <= c - b, the order of independent checks): case analysis on every comparison, the checked operations
   resolved by linear arithmetic with npow2 x an atom bounded by x <= npow2 x <= 65536. A rewrite of
   supports / use_high_rate that keeps the meaning keeps these proofs; one that changes it does not. *)
Ltac usize_bound := unfold USIZE; change (2 ^ 64) with 18446744073709551616; lia.
Ltac split_cmp :=
  match goal with
  | |- context [N.ltb ?a ?b] => destruct (N.ltb_spec a b)
  | |- context [N.leb ?a ?b] => destruct (N.leb_spec a b)
  | |- context [N.eqb ?a ?b] => destruct (N.eqb_spec a b)
  | |- context [N.compare ?a ?b] => destruct (N.compare_spec a b)
  end.
Ltac res_exec :=
  repeat first
  [ progress cbn [bind andb orb negb]
  | match goal with
    | |- context [next_power_of_two W_usize ?x] =>
        let H := fresh "Hx" in assert (H : x <= 65536) by lia;
        rewrite (next_pow2_small x H); pose proof (npow2_le_65536 x H); pose proof (npow2_ge x)
    | |- context [uadd W_usize ?a ?b] => rewrite (uadd_small a b) by usize_bound
    | |- context [usub W_usize ?a ?b] => rewrite (usub_small a b) by lia
    end
  | split_cmp; try (exfalso; lia) ].
Ltac res_done := first [reflexivity | exfalso; lia | f_equal; lia | f_equal; f_equal; lia].

(* ---------- supports: translated = model, never Overflow ---------- *)
Theorem high_supports_gen K R : high_supports K R = Val (high_supportsb K R).
Proof.
  unfold high_supports, high_supportsb, and_then, or_else, np2, GF_ORDER. cbv zeta. res_exec; res_done.
Qed.

Theorem low_supports_gen K R : low_supports K R = Val (low_supportsb K R).
Proof.
  unfold low_supports, low_supportsb, and_then, or_else, np2, GF_ORDER. cbv zeta. res_exec; res_done.
Qed.

Definition rres_of (K R : N) (o : option bool) : rres bool :=
  match o with Some b => ROk b | None => RErr (UnsupportedShardCount K R) end.

Theorem use_high_rate_gen K R : use_high_rate K R = Val (rres_of K R (use_high_rateb K R)).
Proof.
  unfold use_high_rate, use_high_rateb, and_then, or_else, ncmp, np2, GF_ORDER. cbv zeta.
  res_exec; cbn [rres_of]; res_exec; res_done.
Qed.

Theorem default_supports_gen K R : default_supports K R = Val (default_supportsb K R).
Proof.
  unfold default_supports, default_supportsb. rewrite use_high_rate_gen. cbn [bind].
  destruct (use_high_rateb K R); reflexivity.
Qed.

(* ---------- envelope characterisations ---------- *)
Definition high_env (K R : N) : Prop :=
  1 <= K /\ 1 <= R /\ exists n, n <= 16 /\ R <= 2 ^ n /\ K <= 65536 - 2 ^ n.
Definition low_env (K R : N) : Prop :=
  1 <= K /\ 1 <= R /\ exists n, n <= 16 /\ K <= 2 ^ n /\ R <= 65536 - 2 ^ n.
(* README table: both counts >= 1 and for some n one is <= 2^n, the other <= 65536 - 2^n *)
Definition envelope (K R : N) : Prop := high_env K R \/ low_env K R.

Lemma pow2_le_16 n : 2 ^ n <= 65536 -> n <= 16.
Proof.
  intros H. change 65536 with (2 ^ 16) in H. apply N.pow_le_mono_r_iff in H; lia.
Qed.

Lemma side_char a b : (* a = power-of-two-bounded side, b = the other *)
  ((0 <? b) && (0 <? a) && (b <? 65536) && (a <? 65536) && (npow2 a + b <=? 65536) = true)
  <-> (1 <= b /\ 1 <= a /\ exists n, n <= 16 /\ a <= 2 ^ n /\ b <= 65536 - 2 ^ n).
Proof.
  split.
  - intros H. repeat (apply andb_prop in H; destruct H as [H ?]).
    apply N.ltb_lt in H, H3, H2, H1. apply N.leb_le in H0.
    split; [lia|]. split; [lia|].
    destruct (npow2_spec a) as (n & Hn & Hle & _); [lia|].
    exists n. rewrite Hn in H0. split; [apply pow2_le_16; lia|]. split; lia.
  - intros (Hb & Ha & n & Hn & Han & Hbn).
    destruct (npow2_spec a Ha) as (k & Hk & _ & Hmin).
    specialize (Hmin n Han). pose proof (pow2_pos n).
    assert (2 ^ n <= 65536).
    { change 65536 with (2 ^ 16). apply N.pow_le_mono_r; lia. }
    rewrite Hk.
    repeat (apply andb_true_intro; split); try (apply N.ltb_lt; lia). apply N.leb_le. lia.
Qed.

Theorem high_supportsb_env K R : high_supportsb K R = true <-> high_env K R.
Proof. unfold high_supportsb, high_env, np2, GF_ORDER. apply side_char. Qed.

Theorem low_supportsb_env K R : low_supportsb K R = true <-> low_env K R.
Proof.
  unfold low_supportsb, low_env, np2, GF_ORDER.
  pose proof (side_char K R) as [S1 S2].
  split.
  - intros H. destruct S1 as (a & b & c).
    + repeat (apply andb_prop in H; destruct H as [H ?]).
      repeat (apply andb_true_intro; split); assumption.
    + auto.
  - intros (a & b & c). specialize (S2 (conj b (conj a c))).
    repeat (apply andb_prop in S2; destruct S2 as [S2 ?]).
    repeat (apply andb_true_intro; split); assumption.
Qed.

Lemma default_char K R :
  default_supportsb K R = true <-> (high_supportsb K R = true \/ low_supportsb K R = true).
Proof.
  unfold default_supportsb, use_high_rateb, high_supportsb, low_supportsb, np2, GF_ORDER.
  destruct (65536 <? K) eqn:E1; cbn [orb].
  { apply N.ltb_lt in E1. split; [discriminate|].
    intros [H|H]; repeat (apply andb_prop in H; destruct H as [H ?]);
      repeat match goal with X : (_ <? _) = true |- _ => apply N.ltb_lt in X end; lia. }
  destruct (65536 <? R) eqn:E2; cbn [orb].
  { apply N.ltb_lt in E2. split; [discriminate|].
    intros [H|H]; repeat (apply andb_prop in H; destruct H as [H ?]);
      repeat match goal with X : (_ <? _) = true |- _ => apply N.ltb_lt in X end; lia. }
  apply N.ltb_ge in E1, E2.
  destruct (K =? 0) eqn:E3; cbn [orb].
  { apply N.eqb_eq in E3. subst. cbn. split; [discriminate|]. intros [H|H]; discriminate. }
  destruct (R =? 0) eqn:E4; cbn [orb].
  { apply N.eqb_eq in E4. subst. split; [discriminate|].
    intros [H|H]; repeat (apply andb_prop in H; destruct H as [H ?]); discriminate. }
  apply N.eqb_neq in E3, E4.
  pose proof (npow2_ge K). pose proof (npow2_ge R).
  pose proof (npow2_le_65536 K E1). pose proof (npow2_le_65536 R E2).
  destruct (65536 <? N.min (npow2 K) (npow2 R) + N.max K R) eqn:E5.
  - apply N.ltb_lt in E5. split; [discriminate|].
    intros [Hh|Hl]; repeat (apply andb_prop in Hh || apply andb_prop in Hl);
      [destruct Hh as [Hh Hs] | destruct Hl as [Hl Hs]]; apply N.leb_le in Hs.
    + (* high part holds: npow2 R + K <= 65536 *)
      destruct (N.le_gt_cases R K) as [Hc|Hc].
      * lia.
      * assert (npow2 R < 65536) by lia.
        pose proof (npow2_lt_half R ltac:(lia) H3). pose proof (npow2_mono K R ltac:(lia)). lia.
    + destruct (N.le_gt_cases K R) as [Hc|Hc].
      * lia.
      * assert (npow2 K < 65536) by lia.
        pose proof (npow2_lt_half K ltac:(lia) H3). pose proof (npow2_mono R K ltac:(lia)). lia.
  - apply N.ltb_ge in E5.
    assert (Hd : npow2 R + K <= 65536 \/ npow2 K + R <= 65536) by lia.
    split; [intros _|].
    + assert (K < 65536 /\ R < 65536) as [HK HR].
      { destruct Hd; split; lia. }
      destruct Hd as [Hd|Hd]; [left|right];
        repeat (apply andb_true_intro; split); try (apply N.ltb_lt; lia); apply N.leb_le; lia.
    + intros _. destruct (npow2 K ?= npow2 R); reflexivity.
Qed.

Theorem default_supportsb_env K R : default_supportsb K R = true <-> envelope K R.
Proof.
  rewrite default_char, high_supportsb_env, low_supportsb_env. reflexivity.
Qed.

(* ---------- validate ---------- *)
Lemma land1_odd sb : negb (N.land sb 1 =? 0) = N.odd sb.
Proof.
  change 1 with (N.ones 1) at 1. rewrite N.land_ones. change (2 ^ 1) with 2.
  rewrite <- N.bit0_mod, N.bit0_odd. destruct (N.odd sb); reflexivity.
Qed.

Definition validate_res (supb : N -> N -> bool) (K R sb : N) : rres unit :=
  if negb (supb K R) then RErr (UnsupportedShardCount K R)
  else if bad_size sb then RErr (InvalidShardSize sb) else ROk tt.

Lemma validate_gen sup supb K R sb :
  (forall K R, sup K R = Val (supb K R)) ->
  validate sup K R sb = Val (validate_res supb K R sb).
Proof.
  intros Hs. unfold validate, validate_res, bad_size, or_else, bind. rewrite Hs.
  destruct (negb (supb K R)); [reflexivity|].
  destruct (sb =? 0) eqn:E; cbn [orb]; [reflexivity|].
  rewrite land1_odd. destruct (N.odd sb); reflexivity.
Qed.

Definition sup_gen (c : codec) : N -> N -> res bool :=
  match c with CRs => rs_encoder_supports | CDef => default_supports | CHigh => high_supports | CLow => low_supports end.

Lemma sup_gen_ok c K R : sup_gen c K R = Val (supportsb c K R).
Proof.
  destruct c; cbn [sup_gen supportsb]; unfold rs_encoder_supports;
    auto using default_supports_gen, high_supports_gen, low_supports_gen.
Qed.

Lemma rs_decoder_supports_gen K R : rs_decoder_supports K R = Val (default_supportsb K R).
Proof. unfold rs_decoder_supports. apply default_supports_gen. Qed.

(* the translated validate agrees with the model's validateb for every codec type *)
Theorem validate_codec_gen c K R sb :
  validate (sup_gen c) K R sb =
  Val (match validateb c K R sb with Some e => RErr e | None => ROk tt end).
Proof.
  rewrite (validate_gen _ (supportsb c)) by (apply sup_gen_ok).
  unfold validate_res, validateb. destruct (negb (supportsb c K R)); [reflexivity|].
  destruct (bad_size sb); reflexivity.
Qed.

(* ---------- work_count ---------- *)
Lemma next_multiple_of_gen a b : 1 <= b -> a + b < USIZE ->
  next_multiple_of W_usize a b = Val (next_mult a b).
Proof.
  intros Hb Hab. unfold next_multiple_of, next_mult.
  destruct (b =? 0) eqn:E; [apply N.eqb_eq in E; lia|].
  pose proof (N.mod_upper_bound a b ltac:(lia)).
  destruct (a mod b =? 0); [reflexivity|]. apply uadd_small.
  remember (a mod b) as r. remember USIZE as U. clear HeqU Heqr. lia.
Qed.

Ltac big := unfold USIZE; change (2 ^ 64) with 18446744073709551616.

Theorem high_encoder_work_count_gen K R : high_supportsb K R = true ->
  high_encoder_work_count K R = Val (high_enc_work_count K R).
Proof.
  intros H. unfold high_encoder_work_count, guard, bind. rewrite high_supports_gen, H.
  unfold high_supportsb, GF_ORDER in H. repeat (apply andb_prop in H; destruct H as [H ?]).
  apply N.ltb_lt in H, H3, H2, H1.
  rewrite next_pow2_small by lia. unfold high_enc_work_count, np2.
  pose proof (npow2_le_65536 R ltac:(lia)). pose proof (npow2_ge R).
  apply next_multiple_of_gen; [lia| big; lia].
Qed.

Theorem low_encoder_work_count_gen K R : low_supportsb K R = true ->
  low_encoder_work_count K R = Val (low_enc_work_count K R).
Proof.
  intros H. unfold low_encoder_work_count, guard, bind. rewrite low_supports_gen, H.
  unfold low_supportsb, GF_ORDER in H. repeat (apply andb_prop in H; destruct H as [H ?]).
  apply N.ltb_lt in H, H3, H2, H1.
  rewrite next_pow2_small by lia. unfold low_enc_work_count, np2.
  pose proof (npow2_le_65536 K ltac:(lia)). pose proof (npow2_ge K).
  apply next_multiple_of_gen; [lia| big; lia].
Qed.

Theorem high_decoder_work_count_gen K R : high_supportsb K R = true ->
  high_decoder_work_count K R = Val (high_dec_work_count K R).
Proof.
  intros H. unfold high_decoder_work_count, guard, bind. rewrite high_supports_gen, H.
  unfold high_supportsb, GF_ORDER, np2 in H. repeat (apply andb_prop in H; destruct H as [H ?]).
  apply N.ltb_lt in H, H3, H2, H1. apply N.leb_le in H0.
  rewrite next_pow2_small by lia.
  rewrite uadd_small by (big; lia). rewrite next_pow2_small by lia. reflexivity.
Qed.

Theorem low_decoder_work_count_gen K R : low_supportsb K R = true ->
  low_decoder_work_count K R = Val (low_dec_work_count K R).
Proof.
  intros H. unfold low_decoder_work_count, guard, bind. rewrite low_supports_gen, H.
  unfold low_supportsb, GF_ORDER, np2 in H. repeat (apply andb_prop in H; destruct H as [H ?]).
  apply N.ltb_lt in H, H3, H2, H1. apply N.leb_le in H0.
  rewrite next_pow2_small by lia.
  rewrite uadd_small by (big; lia). rewrite next_pow2_small by lia. reflexivity.
Qed.

(* work_count bounds: every decoder/encoder work vector has at most 65536 positions *)
Lemma next_mult_bounds a b : 1 <= b -> a <= next_mult a b /\ next_mult a b < a + b /\ (next_mult a b) mod b = 0.
Proof.
  intros Hb. unfold next_mult. pose proof (N.mod_upper_bound a b ltac:(lia)).
  destruct (a mod b =? 0) eqn:E.
  - apply N.eqb_eq in E. split; [lia|]. split; [lia|exact E].
  - apply N.eqb_neq in E. remember (a mod b) as r. split; [lia|]. split; [lia|]. subst r.
    pose proof (N.div_mod a b ltac:(lia)).
    replace (a + (b - a mod b)) with ((a / b + 1) * b) by nia.
    apply N.mod_mul. lia.
Qed.

(* ---------- C09: the selection rule ---------- *)
Definition rule_high (K R : N) : bool :=
  (npow2 R <? npow2 K) || ((npow2 K =? npow2 R) && (K <=? R)).

Theorem use_high_rate_rule K R b : use_high_rateb K R = Some b -> b = rule_high K R.
Proof.
  unfold use_high_rateb, rule_high, np2.
  destruct ((GF_ORDER <? K) || (GF_ORDER <? R)); [discriminate|].
  destruct ((K =? 0) || (R =? 0) || (GF_ORDER <? N.min (npow2 K) (npow2 R) + N.max K R)); [discriminate|].
  destruct (N.compare_spec (npow2 K) (npow2 R)) as [E|E|E]; intros [= <-].
  - rewrite E, N.ltb_irrefl, N.eqb_refl. reflexivity.
  - assert (npow2 R <? npow2 K = false) as -> by (apply N.ltb_ge; lia).
    assert (npow2 K =? npow2 R = false) as -> by (apply N.eqb_neq; lia). reflexivity.
  - assert (npow2 R <? npow2 K = true) as -> by (apply N.ltb_lt; lia). reflexivity.
Qed.

(* C08_chosen: the rate the default codec picks supports the configuration *)
Theorem chosen_rate_supports K R :
  (use_high_rateb K R = Some true -> high_supportsb K R = true) /\
  (use_high_rateb K R = Some false -> low_supportsb K R = true).
Proof.
  unfold use_high_rateb, high_supportsb, low_supportsb, np2, GF_ORDER.
  destruct (65536 <? K) eqn:E1; cbn [orb]; [split; discriminate|].
  destruct (65536 <? R) eqn:E2; cbn [orb]; [split; discriminate|].
  destruct (K =? 0) eqn:E3; cbn [orb]; [split; discriminate|].
  destruct (R =? 0) eqn:E4; cbn [orb]; [split; discriminate|].
  destruct (65536 <? N.min (npow2 K) (npow2 R) + N.max K R) eqn:E5; [split; discriminate|].
  apply N.ltb_ge in E1, E2, E5. apply N.eqb_neq in E3, E4.
  pose proof (npow2_ge K). pose proof (npow2_ge R).
  destruct (N.compare_spec (npow2 K) (npow2 R)) as [E|E|E].
  - destruct (K <=? R) eqn:E6; [apply N.leb_le in E6 | apply N.leb_gt in E6]; split; try discriminate; intros _;
      repeat (apply andb_true_intro; split); try (apply N.ltb_lt; lia); apply N.leb_le; lia.
  - split; [discriminate|]. intros _.
    repeat (apply andb_true_intro; split); try (apply N.ltb_lt; lia); apply N.leb_le; lia.
  - split; [|discriminate]. intros _.
    repeat (apply andb_true_intro; split); try (apply N.ltb_lt; lia); apply N.leb_le; lia.
Qed.
