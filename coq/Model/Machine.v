(* State machine of the public API: EncoderWork / DecoderWork (src/rate/encoder_work.rs,
   decoder_work.rs), High/Low/Default rate codecs (rate_high.rs, rate_low.rs,
   rate_default.rs), ReedSolomonEncoder/Decoder (reed_solomon.rs), results
   (encoder_result.rs, decoder_result.rs) and the one-shot functions (lib.rs).
   Working memory that was not written in the current round is *junk*: supplied
   by the section variable [junk] (epoch, work position, lane).  *)
From Coq Require Import NArith List Bool FMapPositive.
From RS.Gen Require Import Prelude GenConsts.
From RS.Model Require Import Field Tables Sched Codec Layout.
Import ListNotations.
Local Open Scope N_scope.

Inductive codec := CRs | CDef | CHigh | CLow.
Inductive rate := High | Low.

(* ---------- supports / validate (pure; tied to Gen/GenRate.v by RateFacts.v) ---------- *)
Definition high_supportsb (K R : N) : bool :=
  (0 <? K) && (0 <? R) && (K <? GF_ORDER) && (R <? GF_ORDER) && (np2 R + K <=? GF_ORDER).
Definition low_supportsb (K R : N) : bool :=
  (0 <? K) && (0 <? R) && (K <? GF_ORDER) && (R <? GF_ORDER) && (np2 K + R <=? GF_ORDER).
(* use_high_rate: None = UnsupportedShardCount *)
Definition use_high_rateb (K R : N) : option bool :=
  if (GF_ORDER <? K) || (GF_ORDER <? R) then None
  else if (K =? 0) || (R =? 0) || (GF_ORDER <? N.min (np2 K) (np2 R) + N.max K R) then None
  else match np2 K ?= np2 R with
       | Lt => Some false
       | Gt => Some true
       | Eq => Some (K <=? R)
       end.
Definition default_supportsb (K R : N) : bool :=
  match use_high_rateb K R with Some _ => true | None => false end.
Definition supportsb (c : codec) (K R : N) : bool :=
  match c with
  | CRs | CDef => default_supportsb K R
  | CHigh => high_supportsb K R
  | CLow => low_supportsb K R
  end.
Definition bad_size (sb : N) : bool := (sb =? 0) || N.odd sb.
Definition validateb (c : codec) (K R sb : N) : option error :=
  if negb (supportsb c K R) then Some (UnsupportedShardCount K R)
  else if bad_size sb then Some (InvalidShardSize sb)
  else None.
(* the rate a codec runs a configuration with *)
Definition rate_of (c : codec) (K R : N) : rate :=
  match c with
  | CHigh => High
  | CLow => Low
  | _ => match use_high_rateb K R with Some false => Low | _ => High end
  end.

Definition blocks_of (sb : N) : N := (sb + 63) / 64.

(* ---------- EncoderWork ---------- *)
Definition mem := PositiveMap.t (list N).
Definition mget (m : mem) (p : N) : option (list N) := PositiveMap.find (N.succ_pos p) m.
Definition mset (m : mem) (p : N) (v : list N) : mem := PositiveMap.add (N.succ_pos p) v m.
Definition mempty : mem := PositiveMap.empty (list N).

Record encwork := {
  ew_K : N; ew_R : N; ew_sb : N;
  ew_recv : N;
  ew_mem : mem;
  ew_wc : N;
  ew_cap : N            (* lower bound of the capacity (64-byte blocks) of the shard buffer *)
}.
Definition encwork_new : encwork :=
  {| ew_K := 0; ew_R := 0; ew_sb := 0; ew_recv := 0; ew_mem := mempty; ew_wc := 0; ew_cap := 0 |}.
Definition enc_work_count (r : rate) (K R : N) : N :=
  match r with High => high_enc_work_count K R | Low => low_enc_work_count K R end.
Definition dec_work_count (r : rate) (K R : N) : N :=
  match r with High => high_dec_work_count K R | Low => low_dec_work_count K R end.

(* EncoderWork::reset; second component: does the shard buffer have to grow? *)
Definition encwork_reset (w : encwork) (r : rate) (K R sb : N) : encwork * bool :=
  let wc := enc_work_count r K R in
  let need := wc * blocks_of sb in
  ({| ew_K := K; ew_R := R; ew_sb := sb; ew_recv := 0; ew_mem := mempty; ew_wc := wc;
      ew_cap := N.max (ew_cap w) need |}, ew_cap w <? need).

Record encoder := {
  e_codec : codec; e_engine : engine; e_rate : rate; e_work : encwork }.

(* ---------- DecoderWork ---------- *)
Definition pset := PositiveMap.t unit.
Definition pmem (s : pset) (p : N) : bool :=
  match PositiveMap.find (N.succ_pos p) s with Some _ => true | None => false end.
Definition padd (s : pset) (p : N) : pset := PositiveMap.add (N.succ_pos p) tt s.
Definition pempty : pset := PositiveMap.empty unit.

Record decwork := {
  dw_K : N; dw_R : N; dw_sb : N;
  dw_obase : N; dw_rbase : N;
  dw_orecv : N; dw_rrecv : N;
  dw_received : pset;
  dw_mem : mem;
  dw_wc : N;
  dw_cap : N;           (* lower bound of shard buffer capacity, blocks *)
  dw_bits : N           (* length of the received bitmap, bits *)
}.
Definition decwork_new : decwork :=
  {| dw_K := 0; dw_R := 0; dw_sb := 0; dw_obase := 0; dw_rbase := 0; dw_orecv := 0; dw_rrecv := 0;
     dw_received := pempty; dw_mem := mempty; dw_wc := 0; dw_cap := 0; dw_bits := 0 |}.

Definition decwork_reset (w : decwork) (r : rate) (K R sb : N) : decwork * bool :=
  let wc := dec_work_count r K R in
  let obase := match r with High => np2 R | Low => 0 end in
  let rbase := match r with High => 0 | Low => np2 K end in
  let need := wc * blocks_of sb in
  let maxpos := N.max (obase + K) (rbase + R) in
  (* FixedBitSet::grow is called exactly when the bitmap is too short *)
  let bits_grow := dw_bits w <? maxpos in
  ({| dw_K := K; dw_R := R; dw_sb := sb; dw_obase := obase; dw_rbase := rbase;
      dw_orecv := 0; dw_rrecv := 0; dw_received := pempty; dw_mem := mempty; dw_wc := wc;
      dw_cap := N.max (dw_cap w) need; dw_bits := N.max (dw_bits w) maxpos |},
   (dw_cap w <? need) || bits_grow).

Record decoder := {
  d_codec : codec; d_engine : engine; d_rate : rate; d_work : decwork }.

(* ---------- results ---------- *)
Definition bytes := list N.
Inductive result :=
| ROkUnit
| RError (e : error)
| RPanic
| RNoObj
| RBool (b : bool)
| REnc (it : list bytes) (probes : list (N * option bytes))
| RDec (it : list (N * bytes)) (probes : list (N * option bytes))
| RShards (l : list bytes)
| RMap (l : list (N * bytes)).

Inductive op :=
| ENew (c : codec) (e : engine) (K R sb : N)
| ENewW (c : codec) (e : engine) (K R sb : N)
| EParts
| EReset (K R sb : N)
| EAdd (shard : bytes)
| EEncode (probes : list N)
| DNew (c : codec) (e : engine) (K R sb : N)
| DNewW (c : codec) (e : engine) (K R sb : N)
| DParts
| DReset (K R sb : N)
| DAddO (idx : N) (shard : bytes)
| DAddR (idx : N) (shard : bytes)
| DDecode (probes : list N)
| Supports (c : codec) (K R : N)
| Validate (c : codec) (K R sb : N)
| OneEnc (K R : N) (shards : list bytes)
| OneDec (K R : N) (orig rec : list (N * bytes)).

Record state := {
  s_enc : option encoder;
  s_dec : option decoder;
  s_encwork : option encwork;
  s_decwork : option decwork;
  s_epoch : N;
  s_alloc : bool          (* did the last op have to grow a buffer (C17) *)
}.
Definition init : state :=
  {| s_enc := None; s_dec := None; s_encwork := None; s_decwork := None; s_epoch := 0; s_alloc := false |}.

Section Machine.
Variable junk : N -> N -> N -> N.    (* epoch -> work position -> lane -> stale symbol *)

Definition blen (b : bytes) : N := N.of_nat (length b).
Definition lanes_of (sb : N) : N := sb / 2.
Definition junk_shard (ep p lanes : N) : list N := map (junk ep p) (range 0 lanes).
Definition work_list (ep : N) (m : mem) (wc lanes : N) : list (list N) :=
  map (fun p => match mget m p with Some s => s | None => junk_shard ep p lanes end) (range 0 wc).

(* ---------- encoder ---------- *)
Definition enc_make (c : codec) (e : engine) (K R sb : N) (w : encwork) : (encoder * bool) + error :=
  match validateb c K R sb with
  | Some err => inr err
  | None => let r := rate_of c K R in
            let '(w', a) := encwork_reset w r K R sb in
            inl ({| e_codec := c; e_engine := e; e_rate := r; e_work := w' |}, a)
  end.

Definition enc_add (x : encoder) (shard : bytes) : encoder + error :=
  let w := e_work x in
  if ew_recv w =? ew_K w then inr (TooManyOriginalShards (ew_K w))
  else if negb (blen shard =? ew_sb w) then inr (DifferentShardSize (ew_sb w) (blen shard))
  else inl {| e_codec := e_codec x; e_engine := e_engine x; e_rate := e_rate x;
              e_work := {| ew_K := ew_K w; ew_R := ew_R w; ew_sb := ew_sb w;
                           ew_recv := ew_recv w + 1;
                           ew_mem := mset (ew_mem w) (ew_recv w) (syms_of_bytes shard);
                           ew_wc := ew_wc w; ew_cap := ew_cap w |} |}.

Definition encode_shards (ep : N) (x : encoder) : list bytes :=
  let w := e_work x in
  let lanes := lanes_of (ew_sb w) in
  let work := work_list ep (ew_mem w) (ew_wc w) lanes in
  let ops := shard_ops (N.to_nat lanes) in
  let rec := match e_rate x with
             | High => encode_high ops (e_engine x) (ew_K w) (ew_R w) work
             | Low => encode_low ops (e_engine x) (ew_K w) (ew_R w) work
             end in
  map bytes_of_syms rec.

(* result dropped: EncoderWork::reset_received; memory becomes stale *)
Definition enc_after_round (x : encoder) : encoder :=
  let w := e_work x in
  {| e_codec := e_codec x; e_engine := e_engine x; e_rate := e_rate x;
     e_work := {| ew_K := ew_K w; ew_R := ew_R w; ew_sb := ew_sb w; ew_recv := 0;
                  ew_mem := mempty; ew_wc := ew_wc w; ew_cap := ew_cap w |} |}.

Definition enc_encode (ep : N) (x : encoder) (probes : list N) : (encoder * result) :=
  let w := e_work x in
  if negb (ew_recv w =? ew_K w) then (x, RError (TooFewOriginalShards (ew_K w) (ew_recv w)))
  else
    let rec := encode_shards ep x in
    let recovery (i : N) : option bytes := if i <? ew_R w then nth_error rec (N.to_nat i) else None in
    (enc_after_round x, REnc rec (map (fun i => (i, recovery i)) probes)).

(* ---------- decoder ---------- *)
Definition dec_make (c : codec) (e : engine) (K R sb : N) (w : decwork) : (decoder * bool) + error :=
  match validateb c K R sb with
  | Some err => inr err
  | None => let r := rate_of c K R in
            let '(w', a) := decwork_reset w r K R sb in
            inl ({| d_codec := c; d_engine := e; d_rate := r; d_work := w' |}, a)
  end.

Definition dw_insert (w : decwork) (pos : N) (shard : bytes) (is_orig : bool) : decwork :=
  {| dw_K := dw_K w; dw_R := dw_R w; dw_sb := dw_sb w; dw_obase := dw_obase w; dw_rbase := dw_rbase w;
     dw_orecv := if is_orig then dw_orecv w + 1 else dw_orecv w;
     dw_rrecv := if is_orig then dw_rrecv w else dw_rrecv w + 1;
     dw_received := padd (dw_received w) pos;
     dw_mem := mset (dw_mem w) pos (syms_of_bytes shard);
     dw_wc := dw_wc w; dw_cap := dw_cap w; dw_bits := dw_bits w |}.
Definition with_dwork (x : decoder) (w : decwork) : decoder :=
  {| d_codec := d_codec x; d_engine := d_engine x; d_rate := d_rate x; d_work := w |}.

Definition dec_add_original (x : decoder) (idx : N) (shard : bytes) : decoder + error :=
  let w := d_work x in
  if dw_K w <=? idx then inr (InvalidOriginalShardIndex (dw_K w) idx)
  else let pos := dw_obase w + idx in
       if pmem (dw_received w) pos then inr (DuplicateOriginalShardIndex idx)
       else if negb (blen shard =? dw_sb w) then inr (DifferentShardSize (dw_sb w) (blen shard))
       else inl (with_dwork x (dw_insert w pos shard true)).
Definition dec_add_recovery (x : decoder) (idx : N) (shard : bytes) : decoder + error :=
  let w := d_work x in
  if dw_R w <=? idx then inr (InvalidRecoveryShardIndex (dw_R w) idx)
  else let pos := dw_rbase w + idx in
       if pmem (dw_received w) pos then inr (DuplicateRecoveryShardIndex idx)
       else if negb (blen shard =? dw_sb w) then inr (DifferentShardSize (dw_sb w) (blen shard))
       else inl (with_dwork x (dw_insert w pos shard false)).

Definition dec_after_round (x : decoder) : decoder :=
  let w := d_work x in
  with_dwork x
    {| dw_K := dw_K w; dw_R := dw_R w; dw_sb := dw_sb w; dw_obase := dw_obase w; dw_rbase := dw_rbase w;
       dw_orecv := 0; dw_rrecv := 0; dw_received := pempty; dw_mem := mempty;
       dw_wc := dw_wc w; dw_cap := dw_cap w; dw_bits := dw_bits w |}.

(* the work vector after a full decode *)
Definition decode_work (ep : N) (x : decoder) : list (list N) :=
  let w := d_work x in
  let lanes := lanes_of (dw_sb w) in
  let work := work_list ep (dw_mem w) (dw_wc w) lanes in
  let ops := shard_ops (N.to_nat lanes) in
  let recv := pmem (dw_received w) in
  snd (match d_rate x with
       | High => decode_high_work ops (d_engine x) (dw_K w) (dw_R w) recv work
       | Low => decode_low_work ops (d_engine x) (dw_K w) (dw_R w) recv work
       end).

Definition dec_decode (ep : N) (x : decoder) (probes : list N) : decoder * result :=
  let w := d_work x in
  if dw_orecv w + dw_rrecv w <? dw_K w
  then (x, RError (NotEnoughShards (dw_K w) (dw_orecv w) (dw_rrecv w)))
  else
    let missing (i : N) : bool := (i <? dw_K w) && negb (pmem (dw_received w) (dw_obase w + i)) in
    if dw_orecv w =? dw_K w then
      (* nothing to restore *)
      (dec_after_round x, RDec [] (map (fun i => (i, None)) probes))
    else
      let out := decode_work ep x in
      let restored (i : N) : option bytes :=
        if missing i then option_map bytes_of_syms (nth_error out (N.to_nat (dw_obase w + i))) else None in
      let it := flat_map (fun i => match restored i with Some b => [(i, b)] | None => [] end)
                         (range 0 (dw_K w)) in
      (dec_after_round x, RDec it (map (fun i => (i, restored i)) probes)).

(* ---------- one-shot functions (lib.rs) ---------- *)
Fixpoint enc_add_all (x : encoder) (l : list bytes) : encoder + error :=
  match l with
  | [] => inl x
  | s :: rest => match enc_add x s with inl x' => enc_add_all x' rest | inr e => inr e end
  end.
Definition oneshot_encode (ep : N) (K R : N) (shards : list bytes) : result :=
  if negb (default_supportsb K R) then RError (UnsupportedShardCount K R)
  else match shards with
       | [] => RError (TooFewOriginalShards K 0)
       | first :: _ =>
         match enc_make CRs DefaultE K R (blen first) encwork_new with
         | inr e => RError e
         | inl (x, _) =>
           match enc_add_all x shards with
           | inr e => RError e
           | inl x' => match snd (enc_encode ep x' []) with
                       | REnc rec _ => RShards rec
                       | r => r
                       end
           end
         end
       end.

Fixpoint dec_add_all (orig : bool) (x : decoder) (l : list (N * bytes)) : decoder + error :=
  match l with
  | [] => inl x
  | (i, s) :: rest =>
    match (if orig then dec_add_original x i s else dec_add_recovery x i s) with
    | inl x' => dec_add_all orig x' rest
    | inr e => inr e
    end
  end.
Definition oneshot_decode (ep : N) (K R : N) (orig rec : list (N * bytes)) : result :=
  if negb (default_supportsb K R) then RError (UnsupportedShardCount K R)
  else
    let sb := match rec, orig with
              | (_, s) :: _, _ => Some (blen s)
              | [], (_, s) :: _ => Some (blen s)
              | [], [] => None
              end in
    match sb with
    | None => RError (NotEnoughShards K 0 0)
    | Some sb =>
      match dec_make CRs DefaultE K R sb decwork_new with
      | inr e => RError e
      | inl (x, _) =>
        match dec_add_all true x orig with
        | inr e => RError e
        | inl x1 =>
          match dec_add_all false x1 rec with
          | inr e => RError e
          | inl x2 => match snd (dec_decode ep x2 []) with
                      | RDec it _ => RMap it
                      | r => r
                      end
          end
        end
      end
    end.

(* ---------- step ---------- *)
Definition set_enc (s : state) (x : option encoder) (a : bool) : state :=
  {| s_enc := x; s_dec := s_dec s; s_encwork := s_encwork s; s_decwork := s_decwork s;
     s_epoch := s_epoch s; s_alloc := a |}.
Definition set_dec (s : state) (x : option decoder) (a : bool) : state :=
  {| s_enc := s_enc s; s_dec := x; s_encwork := s_encwork s; s_decwork := s_decwork s;
     s_epoch := s_epoch s; s_alloc := a |}.
Definition noalloc (s : state) : state :=
  {| s_enc := s_enc s; s_dec := s_dec s; s_encwork := s_encwork s; s_decwork := s_decwork s;
     s_epoch := s_epoch s; s_alloc := false |}.
Definition bump (s : state) : state :=
  {| s_enc := s_enc s; s_dec := s_dec s; s_encwork := s_encwork s; s_decwork := s_decwork s;
     s_epoch := s_epoch s + 1; s_alloc := s_alloc s |}.

Definition step (s0 : state) (o : op) : state * result :=
  let s := noalloc s0 in
  match o with
  | ENew c e K R sb =>
    match enc_make c e K R sb encwork_new with
    | inl (x, a) => (set_enc s (Some x) a, ROkUnit)
    | inr err => (s, RError err)
    end
  | ENewW c e K R sb =>
    match c with
    | CRs => match enc_make c e K R sb encwork_new with
             | inl (x, a) => (set_enc s (Some x) a, ROkUnit)
             | inr err => (s, RError err)
             end
    | _ =>
      let w := match s_encwork s with Some w => w | None => encwork_new end in
      let s1 := {| s_enc := s_enc s; s_dec := s_dec s; s_encwork := None; s_decwork := s_decwork s;
                   s_epoch := s_epoch s; s_alloc := false |} in
      match enc_make c e K R sb w with
      | inl (x, a) => (set_enc s1 (Some x) a, ROkUnit)
      | inr err => (s1, RError err)
      end
    end
  | EParts =>
    match s_enc s with
    | None => (s, RNoObj)
    | Some x =>
      ({| s_enc := None; s_dec := s_dec s;
          s_encwork := match e_codec x with CRs => s_encwork s | _ => Some (e_work x) end;
          s_decwork := s_decwork s; s_epoch := s_epoch s; s_alloc := false |}, ROkUnit)
    end
  | EReset K R sb =>
    match s_enc s with
    | None => (s, RNoObj)
    | Some x => match enc_make (e_codec x) (e_engine x) K R sb (e_work x) with
                | inl (x', a) => (set_enc s (Some x') a, ROkUnit)
                | inr err => (s, RError err)
                end
    end
  | EAdd shard =>
    match s_enc s with
    | None => (s, RNoObj)
    | Some x => match enc_add x shard with
                | inl x' => (set_enc s (Some x') false, ROkUnit)
                | inr err => (s, RError err)
                end
    end
  | EEncode probes =>
    match s_enc s with
    | None => (s, RNoObj)
    | Some x => let '(x', r) := enc_encode (s_epoch s) x probes in
                match r with
                | RError _ => (s, r)
                | _ => (bump (set_enc s (Some x') false), r)
                end
    end
  | DNew c e K R sb =>
    match dec_make c e K R sb decwork_new with
    | inl (x, a) => (set_dec s (Some x) a, ROkUnit)
    | inr err => (s, RError err)
    end
  | DNewW c e K R sb =>
    match c with
    | CRs => match dec_make c e K R sb decwork_new with
             | inl (x, a) => (set_dec s (Some x) a, ROkUnit)
             | inr err => (s, RError err)
             end
    | _ =>
      let w := match s_decwork s with Some w => w | None => decwork_new end in
      let s1 := {| s_enc := s_enc s; s_dec := s_dec s; s_encwork := s_encwork s; s_decwork := None;
                   s_epoch := s_epoch s; s_alloc := false |} in
      match dec_make c e K R sb w with
      | inl (x, a) => (set_dec s1 (Some x) a, ROkUnit)
      | inr err => (s1, RError err)
      end
    end
  | DParts =>
    match s_dec s with
    | None => (s, RNoObj)
    | Some x =>
      ({| s_enc := s_enc s; s_dec := None; s_encwork := s_encwork s;
          s_decwork := match d_codec x with CRs => s_decwork s | _ => Some (d_work x) end;
          s_epoch := s_epoch s; s_alloc := false |}, ROkUnit)
    end
  | DReset K R sb =>
    match s_dec s with
    | None => (s, RNoObj)
    | Some x => match dec_make (d_codec x) (d_engine x) K R sb (d_work x) with
                | inl (x', a) => (set_dec s (Some x') a, ROkUnit)
                | inr err => (s, RError err)
                end
    end
  | DAddO idx shard =>
    match s_dec s with
    | None => (s, RNoObj)
    | Some x => match dec_add_original x idx shard with
                | inl x' => (set_dec s (Some x') false, ROkUnit)
                | inr err => (s, RError err)
                end
    end
  | DAddR idx shard =>
    match s_dec s with
    | None => (s, RNoObj)
    | Some x => match dec_add_recovery x idx shard with
                | inl x' => (set_dec s (Some x') false, ROkUnit)
                | inr err => (s, RError err)
                end
    end
  | DDecode probes =>
    match s_dec s with
    | None => (s, RNoObj)
    | Some x => let '(x', r) := dec_decode (s_epoch s) x probes in
                match r with
                | RError _ => (s, r)
                | _ => (bump (set_dec s (Some x') false), r)
                end
    end
  | Supports c K R => (s, RBool (supportsb c K R))
  | Validate c K R sb =>
    (s, match validateb c K R sb with Some e => RError e | None => ROkUnit end)
  | OneEnc K R shards =>
    match oneshot_encode (s_epoch s) K R shards with
    | RError e => (s, RError e)
    | r => (bump s, r)
    end
  | OneDec K R orig rec =>
    match oneshot_decode (s_epoch s) K R orig rec with
    | RError e => (s, RError e)
    | r => (bump s, r)
    end
  end.

Definition run (s : state) (ops : list op) : state * list result :=
  fold_left (fun '(s, acc) o => let '(s', r) := step s o in (s', acc ++ [r])) ops (s, []).
End Machine.
