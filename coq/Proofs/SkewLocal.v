(* C08, index safety of the transforms: a transform of size 2^k at skew_delta reads the skew
   table only below index skew_delta + 2^k - 1.  Inside the envelope every call of the codecs has
   skew_delta + size <= 65536, so only SKEW[0 .. 65533] is read: the table (65535 entries) is
   never indexed out of bounds.  Stated as extensionality in the table. *)
From Coq Require Import NArith Arith Lia Bool List.
From RS.Gen Require Import Prelude GenConsts.
From RS.Model Require Import Field Tables Sched.
From RS.Proofs Require Import SchedEquiv Lengths.
Import ListNotations.
Local Open Scope N_scope.

Section Ext.
Context {T : Type}.
Variables (skew1 skew2 : N -> N) (b : N).
Hypothesis Hsk : forall i, i < b -> skew1 i = skew2 i.

Lemma layer_ext (bfa : N -> T * T -> T * T) : forall f d r t sd l, (0 < d)%nat ->
  r + N.of_nat (2 * d * f) + sd <= b + N.of_nat d ->
  naive_layer skew1 bfa f d r t sd l = naive_layer skew2 bfa f d r t sd l.
Proof.
  induction f as [|f IH]; intros d r t sd l Hd Hb; cbn [naive_layer]; [reflexivity|].
  destruct (r <? t); [|reflexivity].
  rewrite (Hsk (r + N.of_nat d + sd - 1)) by lia.
  rewrite (IH d (r + 2 * N.of_nat d) t sd) by (try exact Hd; lia). reflexivity.
Qed.

Lemma two_layer_ext (two : N -> N -> N -> (T * T) * (T * T) -> (T * T) * (T * T)) : forall f d r t sd l, (0 < d)%nat ->
  r + N.of_nat (4 * d * f) + sd <= b + N.of_nat d ->
  two_layer skew1 two f d r t sd l = two_layer skew2 two f d r t sd l.
Proof.
  induction f as [|f IH]; intros d r t sd l Hd Hb; cbn [two_layer]; [reflexivity|].
  destruct (r <? t); [|reflexivity].
  rewrite (Hsk (r + N.of_nat d + sd - 1)) by lia.
  rewrite (Hsk (r + N.of_nat d + sd - 1 + N.of_nat d)) by lia.
  rewrite (Hsk (r + N.of_nat d + sd - 1 + N.of_nat d * 2)) by lia.
  rewrite (IH d (r + 4 * N.of_nat d) t sd) by (try exact Hd; lia). reflexivity.
Qed.
End Ext.

Section Transforms.
Context {T : Type} (ops : elt_ops T).
Variables (skew1 skew2 : N -> N).

Definition dists_ok (k : nat) : bool :=
  let size := 2 ^ N.of_nat k in
  forallb (fun d => (0 <? d) && (2 * d * (size / (2 * d)) =? size)) (dists size).
Lemma dists_ok_all : forallb dists_ok (seq 0 17) = true.
Proof. vm_compute. reflexivity. Qed.

Lemma naive_pass_ext bfa k trunc sd l d : (k <= 16)%nat -> In d (dists (2 ^ N.of_nat k)) ->
  (forall i, i + 1 < sd + 2 ^ N.of_nat k -> skew1 i = skew2 i) ->
  naive_pass (T:=T) skew1 bfa (2 ^ N.of_nat k) trunc sd l d = naive_pass skew2 bfa (2 ^ N.of_nat k) trunc sd l d.
Proof.
  intros Hk Hd Hsk. pose proof dists_ok_all as H. rewrite forallb_forall in H. specialize (H k ltac:(apply in_seq; lia)).
  unfold dists_ok in H. cbv zeta in H. rewrite forallb_forall in H. specialize (H d Hd).
  apply andb_prop in H. destruct H as [H1 H2]. apply N.ltb_lt in H1. apply N.eqb_eq in H2.
  unfold naive_pass. apply (layer_ext skew1 skew2 (sd + 2 ^ N.of_nat k - 1)); [intros i Hi; apply Hsk; lia|lia|].
  set (size := 2 ^ N.of_nat k) in *. rewrite !Nat2N.inj_mul, !N2Nat.id. change (N.of_nat 2) with 2. lia.
Qed.

Lemma fold_ext {A} (f g : list T -> A -> list T) (ds : list A) : (forall l d, In d ds -> f l d = g l d) ->
  forall l, fold_left f ds l = fold_left g ds l.
Proof.
  induction ds as [|d ds IH]; intros H l; [reflexivity|]. cbn [fold_left]. rewrite H by (left; reflexivity).
  apply IH. intros l0 d0 Hd0. apply H. right. exact Hd0.
Qed.

Theorem naive_fft_ext k trunc sd l : (k <= 16)%nat ->
  (forall i, i + 1 < sd + 2 ^ N.of_nat k -> skew1 i = skew2 i) ->
  naive_fft ops skew1 (2 ^ N.of_nat k) trunc sd l = naive_fft ops skew2 (2 ^ N.of_nat k) trunc sd l.
Proof.
  intros Hk Hsk. unfold naive_fft. apply fold_ext. intros l0 d Hd. apply naive_pass_ext; [exact Hk|apply in_rev; exact Hd|exact Hsk].
Qed.
Theorem naive_ifft_ext k trunc sd l : (k <= 16)%nat ->
  (forall i, i + 1 < sd + 2 ^ N.of_nat k -> skew1 i = skew2 i) ->
  naive_ifft ops skew1 (2 ^ N.of_nat k) trunc sd l = naive_ifft ops skew2 (2 ^ N.of_nat k) trunc sd l.
Proof.
  intros Hk Hsk. unfold naive_ifft. apply fold_ext. intros l0 d Hd. apply naive_pass_ext; assumption.
Qed.

Lemma fold_ext_inv {A} (P : list T -> Prop) (f g : list T -> A -> list T) (ds : list A) :
  (forall l d, P l -> In d ds -> f l d = g l d /\ P (g l d)) ->
  forall l, P l -> fold_left f ds l = fold_left g ds l /\ P (fold_left g ds l).
Proof.
  induction ds as [|d ds IH]; intros H l Hl; [split; [reflexivity|exact Hl]|]. cbn [fold_left].
  destruct (H l d Hl (or_introl eq_refl)) as [E Pn]. rewrite E. apply IH; [|exact Pn].
  intros l0 d0 Hl0 Hd0. apply H; [exact Hl0|right; exact Hd0].
Qed.

Lemma two_pass_ext two k trunc sd l d : N.of_nat (length l) = 2 ^ N.of_nat k -> 0 < d ->
  4 * d * (2 ^ N.of_nat k / (4 * d)) = 2 ^ N.of_nat k ->
  (forall i, i + 1 < sd + 2 ^ N.of_nat k -> skew1 i = skew2 i) ->
  two_pass (T:=T) skew1 two trunc sd l d = two_pass skew2 two trunc sd l d.
Proof.
  intros Hl Hd Hdiv Hsk. unfold two_pass. rewrite Hl.
  apply (two_layer_ext skew1 skew2 (sd + 2 ^ N.of_nat k - 1)); [intros i Hi; apply Hsk; lia|lia|].
  set (size := 2 ^ N.of_nat k) in *. rewrite !Nat2N.inj_mul, !N2Nat.id. change (N.of_nat 4) with 4. lia.
Qed.

Theorem two_fft_ext k trunc sd l : (k <= 16)%nat -> N.of_nat (length l) = 2 ^ N.of_nat k ->
  (forall i, i + 1 < sd + 2 ^ N.of_nat k -> skew1 i = skew2 i) ->
  two_fft ops skew1 (2 ^ N.of_nat k) trunc sd l = two_fft ops skew2 (2 ^ N.of_nat k) trunc sd l.
Proof.
  intros Hk Hl Hsk. pose proof sched_ok_all as H. rewrite forallb_forall in H. specialize (H k ltac:(apply in_seq; lia)).
  unfold sched_ok in H. cbv zeta in H. unfold two_fft. set (size := 2 ^ N.of_nat k) in *.
  destruct (dists4_down 17 size (N.shiftr size 2)) as [ds d4].
  apply andb_prop in H. destruct H as [H H3]. apply andb_prop in H. destruct H as [_ H2].
  rewrite forallb_forall in H2.
  destruct (fold_ext_inv (fun l0 => N.of_nat (length l0) = size) (two_pass skew1 (fft_two ops) trunc sd) (two_pass skew2 (fft_two ops) trunc sd) ds) with (l := l) as [E Pl].
  - intros l0 d Hl0 Hd. specialize (H2 d Hd). apply andb_prop in H2. destruct H2 as [A B]. apply N.ltb_lt in A. apply N.eqb_eq in B.
    split; [apply (two_pass_ext _ k); assumption|]. rewrite two_pass_len. exact Hl0.
  - exact Hl.
  - rewrite E. destruct (d4 =? 2) eqn:E4; [|reflexivity]. cbn [negb orb] in H3. apply N.eqb_eq in H3.
    apply (layer_ext skew1 skew2 (sd + size - 1)); [intros i Hi; apply Hsk; lia|lia|].
    rewrite !Nat2N.inj_mul, N2Nat.id. change (N.of_nat 2) with 2. change (N.of_nat 1) with 1. lia.
Qed.

Theorem two_ifft_ext k trunc sd l : (k <= 16)%nat -> N.of_nat (length l) = 2 ^ N.of_nat k ->
  (forall i, i + 1 < sd + 2 ^ N.of_nat k -> skew1 i = skew2 i) ->
  two_ifft ops skew1 (2 ^ N.of_nat k) trunc sd l = two_ifft ops skew2 (2 ^ N.of_nat k) trunc sd l.
Proof.
  intros Hk Hl Hsk. pose proof sched_ok_i_all as H. rewrite forallb_forall in H. specialize (H k ltac:(apply in_seq; lia)).
  unfold sched_ok_i in H. cbv zeta in H. unfold two_ifft. set (size := 2 ^ N.of_nat k) in *.
  destruct (dists4_up 17 1 4 size) as [ds dl].
  apply andb_prop in H. destruct H as [H H3]. apply andb_prop in H. destruct H as [_ H2].
  rewrite forallb_forall in H2.
  destruct (fold_ext_inv (fun l0 => N.of_nat (length l0) = size) (two_pass skew1 (ifft_two ops) trunc sd) (two_pass skew2 (ifft_two ops) trunc sd) ds) with (l := l) as [E Pl].
  - intros l0 d Hl0 Hd. specialize (H2 d Hd). apply andb_prop in H2. destruct H2 as [A B]. apply N.ltb_lt in A. apply N.eqb_eq in B.
    split; [apply (two_pass_ext _ k); assumption|]. rewrite two_pass_len. exact Hl0.
  - exact Hl.
  - rewrite E. destruct (dl <? size) eqn:Edl; [|reflexivity]. apply N.ltb_lt in Edl.
    rewrite (Hsk (dl + sd - 1)) by lia. reflexivity.
Qed.
End Transforms.

(* every engine of the model: the guard of Tables.skew (index >= 65535) is never reached by a
   transform with skew_delta + size <= 65536 *)
Definition skew_raw (i : N) : N := tget skew_tbl i.
Theorem fft_index_safe {T} (ops : elt_ops T) e k trunc sd l : (k <= 16)%nat -> N.of_nat (length l) = 2 ^ N.of_nat k ->
  sd + 2 ^ N.of_nat k <= 65536 ->
  fft ops e (2 ^ N.of_nat k) trunc sd l =
    (if two_layer_engine e then two_fft ops skew_raw else naive_fft ops skew_raw) (2 ^ N.of_nat k) trunc sd l /\
  ifft ops e (2 ^ N.of_nat k) trunc sd l =
    (if two_layer_engine e then two_ifft ops skew_raw else naive_ifft ops skew_raw) (2 ^ N.of_nat k) trunc sd l.
Proof.
  intros Hk Hl Hb.
  assert (Hsk : forall i, i + 1 < sd + 2 ^ N.of_nat k -> skew i = skew_raw i).
  { intros i Hi. unfold skew, skew_raw, GF_MODULUS. assert ((i <? 65535) = true) as -> by (apply N.ltb_lt; lia). reflexivity. }
  unfold fft, ifft. destruct (two_layer_engine e); split.
  - apply two_fft_ext; assumption.
  - apply two_ifft_ext; assumption.
  - apply naive_fft_ext; assumption.
  - apply naive_ifft_ext; assumption.
Qed.
