(* C11 — decoding is independent of arrival order and of surplus shards. *)
From Coq Require Import NArith Bool List Permutation FMapPositive.
From RS.Gen Require Import Prelude GenConsts.
From RS.Model Require Import Field Sched Codec Machine.
From RS.Proofs Require Import PermFacts.
Import ListNotations.
Local Open Scope N_scope.

(* any order (arbitrary interleaving of original and recovery shards) of a set of adds that is
   accepted in one order is accepted in every order and leaves the SAME decoder object: same
   bitmap, counters and memory; hence decode() returns the same result, byte for byte *)
Theorem C11_perm : forall x l l' x',
  Permutation l l' -> dec_adds x l = inl x' -> dec_adds x l' = inl x'.
Proof. exact dec_adds_perm. Qed.
Print Assumptions C11_perm.

Theorem C11_perm_decode : forall junk ep x l l' x1 x2 probes,
  Permutation l l' -> dec_adds x l = inl x1 -> dec_adds x l' = inl x2 ->
  dec_decode junk ep x1 probes = dec_decode junk ep x2 probes.
Proof. intros. rewrite (dec_adds_perm _ _ _ _ H H0) in H1. congruence. Qed.
Print Assumptions C11_perm_decode.

(* originals that were given are never reported as restored; when all originals were given
   the result is empty, whatever recovery shards accompany them *)
Theorem C11_given_not_restored : forall junk ep x probes x' it pr i b,
  dec_decode junk ep x probes = (x', RDec it pr) -> In (i, b) it ->
  i < dw_K (d_work x) /\ pmem (dw_received (d_work x)) (dw_obase (d_work x) + i) = false.
Proof.
  intros junk ep x probes x' it pr i b. unfold dec_decode.
  destruct (_ <? _); [discriminate|]. destruct (_ =? _); [intros [= _ <- _] []|].
  intros [= _ <- _] Hin. apply in_flat_map in Hin. destruct Hin as (k & _ & Hk).
  destruct ((k <? dw_K (d_work x)) && negb (pmem (dw_received (d_work x)) (dw_obase (d_work x) + k))) eqn:E; [|destruct Hk].
  destruct (option_map _ _); [|destruct Hk]. destruct Hk as [[= -> _]|[]].
  apply andb_prop in E. destruct E as [E1 E2]. apply N.ltb_lt in E1. apply negb_true_iff in E2. auto.
Qed.
Print Assumptions C11_given_not_restored.

Theorem C11_full : forall junk ep x probes,
  dw_orecv (d_work x) = dw_K (d_work x) ->
  snd (dec_decode junk ep x probes) = RDec [] (map (fun i => (i, None)) probes).
Proof.
  intros junk ep x probes H. unfold dec_decode. rewrite H, N.eqb_refl.
  assert ((dw_K (d_work x) + dw_rrecv (d_work x) <? dw_K (d_work x)) = false) as -> by (apply N.ltb_ge; apply N.le_add_r).
  reflexivity.
Qed.
Print Assumptions C11_full.

Example C11_example :
  let j := fun _ _ _ : N => 7 in
  let s := fst (step j init (DNew CHigh NoSimd 3 2 2)) in
  match s_dec s with
  | Some x => dec_adds x [AddO 1 [1; 2]; AddR 0 [3; 4]; AddR 1 [5; 6]] =
              dec_adds x [AddR 1 [5; 6]; AddO 1 [1; 2]; AddR 0 [3; 4]] /\
              exists x', dec_adds x [AddO 1 [1; 2]; AddR 0 [3; 4]; AddR 1 [5; 6]] = inl x'
  | None => False
  end.
Proof. vm_compute. split; [reflexivity|eexists; reflexivity]. Qed.
