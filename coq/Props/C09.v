(* C09 — the default codec is the rate fixed by the selection rule. *)
From Coq Require Import NArith Bool List.
From RS.Gen Require Import Prelude GenConsts GenRate.
From RS.Model Require Import Field Codec Machine Spec.
From RS.Proofs Require Import RateFacts PermFacts DefaultRate.
Local Open Scope N_scope.

(* the rule of the property statement: high rate iff npow2(K) > npow2(R), or they
   are equal and K <= R *)
Check (eq_refl : rule_high =
  fun K R => (npow2 R <? npow2 K) || ((npow2 K =? npow2 R) && (K <=? R))).

(* translated use_high_rate: inside the envelope it returns exactly the rule, outside
   it returns UnsupportedShardCount; it depends on nothing but (K, R); no overflow *)
Theorem C09_rule : forall K R,
  (envelope K R -> use_high_rate K R = Val (ROk (rule_high K R))) /\
  (~ envelope K R -> use_high_rate K R = Val (RErr (UnsupportedShardCount K R))).
Proof.
  intros K R. rewrite use_high_rate_gen. rewrite <- default_supportsb_env. unfold default_supportsb.
  destruct (use_high_rateb K R) as [b|] eqn:E; cbn [rres_of].
  - split; [intros _; f_equal; f_equal; apply use_high_rate_rule; exact E | intros H; exfalso; apply H; reflexivity].
  - split; [discriminate | reflexivity].
Qed.
Print Assumptions C09_rule.

(* the model's default codec runs a configuration with the rate of the rule, whatever
   happened before (rate_of is a function of the current configuration only), and
   the dedicated codecs with their own *)
Theorem C09_rate_of : forall K R, envelope K R ->
  rate_of CDef K R = (if rule_high K R then High else Low) /\
  rate_of CRs K R = rate_of CDef K R /\ rate_of CHigh K R = High /\ rate_of CLow K R = Low.
Proof.
  intros K R H. apply default_supportsb_env in H. unfold default_supportsb in H.
  unfold rate_of. destruct (use_high_rateb K R) as [b|] eqn:E; [|discriminate].
  rewrite (use_high_rate_rule K R b E). destruct (rule_high K R); repeat split.
Qed.
Print Assumptions C09_rate_of.

(* the chosen dedicated rate supports the configuration (so default = dedicated is well defined) *)
Theorem C09_chosen_supported : forall K R, envelope K R ->
  if rule_high K R then high_supportsb K R = true else low_supportsb K R = true.
Proof.
  intros K R H. apply default_supportsb_env in H. unfold default_supportsb in H.
  destruct (use_high_rateb K R) as [b|] eqn:E; [|discriminate].
  pose proof (use_high_rate_rule K R b E) as Hb. destruct (chosen_rate_supports K R) as [H1 H2].
  rewrite <- Hb. destruct b; auto.
Qed.
Print Assumptions C09_chosen_supported.

Example C09_ties :
  rule_high 3 2 = true /\ rule_high 2 3 = false /\ rule_high 3 3 = true /\ rule_high 4 3 = false /\
  rule_high 3 4 = true /\ rule_high 32768 32768 = true /\ rule_high 61440 4096 = true /\ rule_high 4096 61440 = false.
Proof. vm_compute. repeat split. Qed.

(* ---- on codec objects: the default-rate codec and ReedSolomonEncoder/Decoder (is_default) ARE the
   dedicated codec of the rate the rule picks (dedicated K R = CHigh if rule_high K R, else CLow): same
   validation result, same rate, same working space, same allocation flag; and whole rounds - construction
   (or reset, which is the same function on the held working space), adds, encode / decode with any probes -
   give identical results, errors included. The engine does not matter either (C03_api_encode/decode). ---- *)
Check (eq_refl : dedicated = fun K R => if rule_high K R then CHigh else CLow).
Theorem C09_enc_make : forall c e K R sb w, is_default c = true -> default_supportsb K R = true ->
  enc_make c e K R sb w =
  match enc_make (dedicated K R) e K R sb w with inl (x, a) => inl (set_ecodec x c, a) | inr err => inr err end.
Proof. exact enc_make_default. Qed.
Print Assumptions C09_enc_make.
Theorem C09_dec_make : forall c e K R sb w, is_default c = true -> default_supportsb K R = true ->
  dec_make c e K R sb w =
  match dec_make (dedicated K R) e K R sb w with inl (y, a) => inl (set_dcodec y c, a) | inr err => inr err end.
Proof. exact dec_make_default. Qed.
Print Assumptions C09_dec_make.
Theorem C09_round_enc : forall junk c e K R sb w originals ep probes, is_default c = true -> default_supportsb K R = true ->
  match enc_make c e K R sb w, enc_make (dedicated K R) e K R sb w with
  | inl (x, a), inl (x', a') =>
      a = a' /\
      match enc_add_all x originals, enc_add_all x' originals with
      | inl x1, inl x1' => snd (enc_encode junk ep x1 probes) = snd (enc_encode junk ep x1' probes)
      | inr err, inr err' => err = err'
      | _, _ => False
      end
  | inr err, inr err' => err = err'
  | _, _ => False
  end.
Proof. exact default_round_enc. Qed.
Print Assumptions C09_round_enc.
Theorem C09_round_dec : forall junk c e K R sb w adds ep probes, is_default c = true -> default_supportsb K R = true ->
  match dec_make c e K R sb w, dec_make (dedicated K R) e K R sb w with
  | inl (y, a), inl (y', a') =>
      a = a' /\
      match dec_adds y adds, dec_adds y' adds with
      | inl y1, inl y1' => snd (dec_decode junk ep y1 probes) = snd (dec_decode junk ep y1' probes)
      | inr err, inr err' => err = err'
      | _, _ => False
      end
  | inr err, inr err' => err = err'
  | _, _ => False
  end.
Proof. exact default_round_dec. Qed.
Print Assumptions C09_round_dec.
