(* C03 — all engines are bit-identical, end to end and primitive by primitive.
   Instances by computation: (1) every multiply kernel (Naive, NoSimd nibble tables, SSSE3
   pshufb/psrlq, AVX2 lane-local vpshufb on a broadcast LUT, Neon vqtbl1q/vshrq) equals the
   field multiplication of every 16-bit lane on structured and pseudo-random blocks;
   (2) the one-layer and the two-layer schedules agree on the contract-defined outputs for all
   sizes up to 32, all truncations; (3) untruncated they agree on all outputs.
   General theorems: C03_mul_all_engines (kernels), C03_fft_untruncated, C03_fft_truncated and
   C03_ifft_truncated (schedules: any element type, size, truncation); end to end on codec objects:
   C03_api_encode, C03_api_decode (any engines, any contents of the shards). *)
From Coq Require Import NArith Bool List Lia.
From RS.Gen Require Import Prelude GenConsts.
From RS.Model Require Import Field Tables Sched Codec Layout Machine Kernels.
From RS.Proofs Require Import FieldFacts Param Linear FftSpec SchedEquiv Trunc KernelFacts PermFacts MachineOps MachineLin EngineIndep.
Import ListNotations.
Local Open Scope N_scope.

Definition leq (a b : list N) : bool := if list_eq_dec N.eq_dec a b then true else false.
Definition blk (seed : N) : list N := map (fun i => (i * i * 31 + i * seed + 7) mod 256) (range 0 64).
Definition blocks : list (list N) :=
  [blk 1; blk 77; blk 200; repeat 0 64; repeat 255 64; repeat 15 64; repeat 240 64; repeat 128 64;
   map (fun i => i mod 16) (range 0 64); map (fun i => (i mod 16) * 16) (range 0 64)].
Definition engines := [Naive; NoSimd; Ssse3; Avx2; Neon; DefaultE].

(* Naive and NoSimd: for EVERY 64-byte block and every multiplier the kernel is the field
   multiplication of each 16-bit lane (nibble decomposition + additivity of the product) *)
Theorem C03_mul_portable : forall m b, m <= 65535 -> length b = 64%nat -> Forall (fun x => x < 256) b ->
  naive_mul_block m b = spec_mul_block m b /\ nosimd_mul_block m b = spec_mul_block m b.
Proof. intros; split; [apply naive_mul_block_spec|apply nosimd_mul_block_spec]; assumption. Qed.
Print Assumptions C03_mul_portable.

(* every engine's kernel (incl. the SSSE3, AVX2 and Neon models built from pshufb / psrlq+pand /
   vpshufb on a broadcast LUT / vqtbl1q / vshrq) is, for EVERY 64-byte block and every
   multiplier, the field multiplication of each of its 32 lanes: all engines bit-identical *)
Theorem C03_mul_all_engines : forall e m b, m <= 65535 -> length b = 64%nat -> Forall (fun x => x < 256) b ->
  mul_block e m b = spec_mul_block m b.
Proof. exact mul_block_spec. Qed.
Print Assumptions C03_mul_all_engines.

(* untruncated transforms: every engine computes exactly what the reference engine computes,
   on ALL outputs, for any element type (symbols or whole shards), any size 2^k <= 2^16, any
   skew_delta and any contents.  (Truncated transforms: instances below.) *)
Theorem C03_fft_untruncated : forall T (ops : elt_ops T) e k sd l, (k <= 16)%nat -> N.of_nat (length l) = 2 ^ N.of_nat k ->
  fft ops e (2 ^ N.of_nat k) (2 ^ N.of_nat k) sd l = fft ops Naive (2 ^ N.of_nat k) (2 ^ N.of_nat k) sd l /\
  ifft ops e (2 ^ N.of_nat k) (2 ^ N.of_nat k) sd l = ifft ops Naive (2 ^ N.of_nat k) (2 ^ N.of_nat k) sd l.
Proof. intros; split; [apply fft_engines_agree|apply ifft_engines_agree]; assumption. Qed.
Print Assumptions C03_fft_untruncated.

(* truncated forward transform: the engines process different sets of blocks beyond the
   truncation point, but every output below it is the same for all engines — any element type,
   any size 2^k <= 2^16, any truncation, any skew_delta, any contents *)
Theorem C03_fft_truncated : forall T (ops : elt_ops T) e1 e2 k trunc sd l, (k <= 16)%nat ->
  N.of_nat (length l) = 2 ^ N.of_nat k -> trunc <= 2 ^ N.of_nat k ->
  firstn (N.to_nat trunc) (fft ops e1 (2 ^ N.of_nat k) trunc sd l) =
  firstn (N.to_nat trunc) (fft ops e2 (2 ^ N.of_nat k) trunc sd l).
Proof. exact @fft_trunc_engines. Qed.
Print Assumptions C03_fft_truncated.

(* truncated inverse transform within its contract (input zero from the truncation point on):
   every engine returns, on ALL positions, what the untruncated reference transform returns *)
Theorem C03_ifft_truncated : forall T (ops : elt_ops T) e k trunc sd l, ops_zero ops -> (k <= 16)%nat ->
  N.of_nat (length l) = 2 ^ N.of_nat k -> trunc <= 2 ^ N.of_nat k ->
  (forall i, (i < length l)%nat -> trunc <= N.of_nat i -> nth_error l i = Some (zeroT ops)) ->
  ifft ops e (2 ^ N.of_nat k) trunc sd l = ifft ops Naive (2 ^ N.of_nat k) (2 ^ N.of_nat k) sd l.
Proof. exact @ifft_trunc_exact. Qed.
Print Assumptions C03_ifft_truncated.
(* the element types of the model satisfy the side condition *)
Theorem C03_ops_zero : ops_zero sym_ops /\ forall n, ops_zero (shard_ops n).
Proof. split; [exact sym_ops_zero|exact shard_ops_zero]. Qed.

(* ---- end to end, on codec objects ---- *)
(* encode: two encoders of the same codec and configuration on ANY two engines (and any recycled working
   spaces, stale memories, epochs) return the same recovery shards for the same originals *)
Theorem C03_api_encode : forall (junk1 junk2 : N -> N -> N -> N),
  (forall a b c, junk1 a b c < 65536) -> (forall a b c, junk2 a b c < 65536) ->
  forall (c : codec) (e1 e2 : engine) (K R sb ep1 ep2 : N) (o : list bytes),
  validateb c K R sb = None -> N.of_nat (length o) = K -> Forall (byteshard sb) o ->
  forall (w1 w2 : encwork) (x01 x1 x02 x2 : encoder) (a1 a2 : bool),
  enc_make c e1 K R sb w1 = inl (x01, a1) -> enc_add_all x01 o = inl x1 ->
  enc_make c e2 K R sb w2 = inl (x02, a2) -> enc_add_all x02 o = inl x2 ->
  forall j, j < R ->
  nth (N.to_nat j) (encode_shards junk1 ep1 x1) [] = nth (N.to_nat j) (encode_shards junk2 ep2 x2) [].
Proof. exact ops_encode_engines. Qed.
Print Assumptions C03_api_encode.

(* decode: the same construction and the same accepted adds - shards with ARBITRARY contents, codewords
   or not - on any two engines: decode() returns the same result (same restored shards, same probes) *)
Theorem C03_api_decode : forall junk c e1 e2 K R sb w y1 a1 adds z1 ep probes,
  dec_make c e1 K R sb w = inl (y1, a1) -> dec_adds y1 adds = inl z1 ->
  exists y2 z2, dec_make c e2 K R sb w = inl (y2, a1) /\ dec_adds y2 adds = inl z2 /\
  snd (dec_decode junk ep z2 probes) = snd (dec_decode junk ep z1 probes).
Proof. exact ops_decode_engines. Qed.
Print Assumptions C03_api_decode.

(* the decoders themselves, any element type: below the truncation point (all that is read back)
   the work vector after decoding does not depend on the engine *)
Theorem C03_decode_high : forall T (ops : elt_ops T), ops_zero ops -> forall e1 e2 K R recv kn (work : list T),
  (kn <= 16)%nat -> length work = p2 kn -> np2 R + K <= 2 ^ N.of_nat kn ->
  length (eval_poly (high_erasures K R recv) (np2 R + K)) = N.to_nat 65536 ->
  forall i, N.of_nat i < np2 R + K ->
  nth_error (snd (decode_high_work ops e1 K R recv work)) i = nth_error (snd (decode_high_work ops e2 K R recv work)) i.
Proof. exact @decode_high_engines. Qed.
Print Assumptions C03_decode_high.
Theorem C03_decode_low : forall T (ops : elt_ops T), ops_zero ops -> forall e1 e2 K R recv kn (work : list T),
  (kn <= 16)%nat -> length work = p2 kn -> np2 K + R <= 2 ^ N.of_nat kn ->
  length (eval_poly (low_erasures K R recv) GF_ORDER) = N.to_nat 65536 ->
  forall i, N.of_nat i < np2 K + R ->
  nth_error (snd (decode_low_work ops e1 K R recv work)) i = nth_error (snd (decode_low_work ops e2 K R recv work)) i.
Proof. exact @decode_low_engines. Qed.
Print Assumptions C03_decode_low.

Theorem C03_mul_instances :
  forallb (fun m => forallb (fun b => forallb (fun e => leq (mul_block e m b) (spec_mul_block m b)) engines) blocks)
          [0; 1; 2; 255; 256; 4096; 12345; 43690; 65534; 65535] = true.
Proof. vm_compute. reflexivity. Qed.
Print Assumptions C03_mul_instances.

(* psrlq 4 followed by pand 0x0f is the per-byte high nibble: all 256 byte values in every
   position of a 64-bit lane pattern *)
Theorem C03_high_nibble :
  forallb (fun x => leq (vand (srli_epi64 2 (repeat x 16) 4) (vset1 16 15)) (repeat (N.shiftr x 4) 16) &&
                    leq (vand (srli_epi64 2 (map (fun i => (x + i * 17) mod 256) (range 0 16)) 4) (vset1 16 15))
                        (map (fun i => N.shiftr ((x + i * 17) mod 256) 4) (range 0 16))) (range 0 256) = true.
Proof. vm_compute. reflexivity. Qed.
Print Assumptions C03_high_nibble.

Definition vecn (n seed : N) : list N := map (fun i => (i * 7919 + seed) mod 65536) (range 0 n).
(* fft: agreement on [0, truncated) for every truncation; ifft: agreement everywhere when the
   tail is zero; both: agreement everywhere when untruncated *)
Definition sched_ok (k : N) : bool :=
  let size := 2 ^ k in
  forallb (fun sd => forallb (fun trunc =>
     let v := vecn size 5 in
     let vz := firstn (N.to_nat trunc) v ++ repeat 0 (N.to_nat (size - trunc)) in
     leq (firstn (N.to_nat trunc) (fft sym_ops Naive size trunc sd v)) (firstn (N.to_nat trunc) (fft sym_ops NoSimd size trunc sd v)) &&
     leq (ifft sym_ops Naive size trunc sd vz) (ifft sym_ops NoSimd size trunc sd vz))
     (range 1 (size + 1))) [0; size; 3 * size].
Theorem C03_schedules_instances : forallb sched_ok [0; 1; 2; 3; 4; 5] = true.
Proof. vm_compute. reflexivity. Qed.
Print Assumptions C03_schedules_instances.

(* the four optimised engines share one schedule in the model by definition; DefaultE is one of them *)
Theorem C03_two_layer_engines : forall e, e <> Naive -> two_layer_engine e = true.
Proof. destruct e; intros H; try reflexivity. congruence. Qed.
Print Assumptions C03_two_layer_engines.
