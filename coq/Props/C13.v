(* C13 — encoding is linear over GF(2^16).  Additivity and the zero case are proved for all
   inputs (C13_add_*, C13_zero) from the distributivity of the field (FieldFacts) by relational
   parametricity of the schedules (Param); scaling by a constant likewise (C13_scale, using the
   associativity and commutativity of the table product, Ring). *)
From Coq Require Import NArith Bool List Lia.
From RS.Gen Require Import Prelude GenConsts.
From RS.Model Require Import Field Tables Sched Codec Layout Machine Spec.
From RS.Proofs Require Import FieldFacts Param Linear Scale MachineOps MachineLin.
Import ListNotations.
Local Open Scope N_scope.

Definition d1 (K : N) : list N := map (fun i => (i * 40503 + 977) mod 65536) (range 0 K).
Definition d2 (K : N) : list N := map (fun i => (i * 30011 + 65521) mod 65536) (range 0 K).
Definition pad (K wc : N) (d : list N) : list N := d ++ repeat 0 (N.to_nat (wc - K)).
Definition enc (high : bool) (e : engine) (K R : N) (d : list N) : list N :=
  if high then encode_high sym_ops e K R (pad K (high_enc_work_count K R) d)
  else encode_low sym_ops e K R (pad K (N.max (np2 K) (low_enc_work_count K R)) d).
Definition leq (a b : list N) : bool := if list_eq_dec N.eq_dec a b then true else false.
Definition linear_ok (high : bool) (e : engine) (K R : N) : bool :=
  leq (enc high e K R (map2 N.lxor (d1 K) (d2 K))) (map2 N.lxor (enc high e K R (d1 K)) (enc high e K R (d2 K))) &&
  leq (enc high e K R (repeat 0 (N.to_nat K))) (repeat 0 (N.to_nat R)) &&
  forallb (fun c => leq (enc high e K R (map (fmul c) (d1 K))) (map (fmul c) (enc high e K R (d1 K)))) [0; 1; 2; 44234; 65535].

Theorem C13_instances :
  forallb (fun high => forallb (fun e => forallb (fun K => forallb (fun R => linear_ok high e K R) (range 1 6)) (range 1 6))
          [Naive; NoSimd]) [true; false] = true.
Proof. vm_compute. reflexivity. Qed.
Print Assumptions C13_instances.

(* the primitive facts linearity rests on, for all symbols: x * 0-log = identity is not needed;
   zero is absorbing, and the nibble decomposition used by every optimised kernel is additive
   on the basis (all 16 x 16 basis pairs, all sampled multipliers) *)
(* ---- the unbounded theorems: for EVERY configuration, engine schedule, work-vector length and
   data (16-bit symbols), per symbol slot ---- *)
Theorem C13_add_high : forall e K R w1 w2, length w1 = length w2 -> Forall W16 w1 -> Forall W16 w2 ->
  encode_high sym_ops e K R (map2 N.lxor w1 w2) =
  map2 N.lxor (encode_high sym_ops e K R w1) (encode_high sym_ops e K R w2).
Proof. exact encode_high_linear. Qed.
Print Assumptions C13_add_high.

Theorem C13_add_low : forall e K R w1 w2, length w1 = length w2 -> Forall W16 w1 -> Forall W16 w2 ->
  encode_low sym_ops e K R (map2 N.lxor w1 w2) =
  map2 N.lxor (encode_low sym_ops e K R w1) (encode_low sym_ops e K R w2).
Proof. exact encode_low_linear. Qed.
Print Assumptions C13_add_low.

Theorem C13_zero : forall e K R n,
  Forall (fun x => x = 0) (encode_high sym_ops e K R (repeat 0 n)) /\
  Forall (fun x => x = 0) (encode_low sym_ops e K R (repeat 0 n)).
Proof. intros; split; [apply encode_high_zero|apply encode_low_zero]. Qed.
Print Assumptions C13_zero.

(* scaling: multiplying every original symbol by a field constant c multiplies every recovery
   symbol by c (c * x is the table product fmul, a commutative field multiplication: Ring) *)
Theorem C13_scale : forall c e K R w, c < 65536 -> Forall W16 w ->
  encode_high sym_ops e K R (map (fmul c) w) = map (fmul c) (encode_high sym_ops e K R w) /\
  encode_low sym_ops e K R (map (fmul c) w) = map (fmul c) (encode_low sym_ops e K R w).
Proof. intros; split; [apply encode_high_scale|apply encode_low_scale]; assumption. Qed.
Print Assumptions C13_scale.

(* every engine primitive and the decoder's data path are linear as well *)
Theorem C13_primitives : forall e size trunc sd w1 w2, length w1 = length w2 -> Forall W16 w1 -> Forall W16 w2 ->
  fft sym_ops e size trunc sd (map2 N.lxor w1 w2) = map2 N.lxor (fft sym_ops e size trunc sd w1) (fft sym_ops e size trunc sd w2) /\
  ifft sym_ops e size trunc sd (map2 N.lxor w1 w2) = map2 N.lxor (ifft sym_ops e size trunc sd w1) (ifft sym_ops e size trunc sd w2).
Proof. intros; split; [apply fft_linear|apply ifft_linear]; assumption. Qed.
Print Assumptions C13_primitives.

(* bytes: a shard-level encode acts on each 16-bit lane as the symbol-level encode (C04), so the
   statements above are the bytewise-XOR statements of the property *)
Theorem C13_lanes : forall lanes k e K R w, (k < lanes)%nat -> Forall (fun s => length s = lanes) w ->
  Forall2 (Rlane lanes k) (encode_high (shard_ops lanes) e K R w) (encode_high sym_ops e K R (map (fun s => nth k s 0) w)) /\
  Forall2 (Rlane lanes k) (encode_low (shard_ops lanes) e K R w) (encode_low sym_ops e K R (map (fun s => nth k s 0) w)).
Proof. intros; split; [apply encode_high_lanes|apply encode_low_lanes]; assumption. Qed.
Print Assumptions C13_lanes.

(* the one non-trivial algebraic fact linearity needs, for all symbols and multipliers:
   multiplication by g^m distributes over xor *)
Theorem C13_mul_additive : forall x y m, x < 65536 -> y < 65536 -> m <= 65535 ->
  mul (N.lxor x y) m = N.lxor (mul x m) (mul y m).
Proof. exact mul_additive. Qed.
Print Assumptions C13_mul_additive.

Theorem C13_mul_zero : forall m, mul 0 m = 0.
Proof. reflexivity. Qed.
Print Assumptions C13_mul_zero.

Theorem C13_mul_additive_basis :
  forallb (fun m => forallb (fun i => forallb (fun j =>
     mul (N.lxor (2 ^ i) (2 ^ j)) m =? (if i =? j then 0 else N.lxor (mul (2 ^ i) m) (mul (2 ^ j) m)))
     (range 0 16)) (range 0 16)) [0; 1; 2; 12345; 65534; 65535] = true.
Proof. vm_compute. reflexivity. Qed.
Print Assumptions C13_mul_additive_basis.

(* ---- through the streaming API, on bytes: what encoder OBJECTS return (any codec of the crate, any
   engines - a different one for each of the three encoders -, recycled working space, stale memory
   behind every position that was not written this round) ---- *)
Theorem C13_api_xor : forall (junk : N -> N -> N -> N), (forall a b c, junk a b c < 65536) ->
  forall (c : codec) (e1 e2 e3 : engine) (K R sb ep1 ep2 ep3 : N) (o1 o2 : list bytes),
  validateb c K R sb = None ->
  N.of_nat (length o1) = K -> N.of_nat (length o2) = K -> Forall (byteshard sb) o1 -> Forall (byteshard sb) o2 ->
  forall (w1 w2 w3 : encwork) (x01 x1 x02 x2 x03 x3 : encoder) (a1 a2 a3 : bool),
  enc_make c e1 K R sb w1 = inl (x01, a1) -> enc_add_all x01 o1 = inl x1 ->
  enc_make c e2 K R sb w2 = inl (x02, a2) -> enc_add_all x02 o2 = inl x2 ->
  enc_make c e3 K R sb w3 = inl (x03, a3) -> enc_add_all x03 (bxor_shards o1 o2) = inl x3 ->
  forall j, j < R ->
  nth (N.to_nat j) (encode_shards junk ep3 x3) [] =
  map2 N.lxor (nth (N.to_nat j) (encode_shards junk ep1 x1) []) (nth (N.to_nat j) (encode_shards junk ep2 x2) []).
Proof. exact ops_encode_linear. Qed.
Print Assumptions C13_api_xor.

Theorem C13_api_zero : forall (junk : N -> N -> N -> N), (forall a b c, junk a b c < 65536) ->
  forall (c : codec) (ee : engine) (K R sb ep : N), validateb c K R sb = None ->
  forall (w0 : encwork) (x0 x : encoder) (a0 : bool),
  enc_make c ee K R sb w0 = inl (x0, a0) ->
  enc_add_all x0 (repeat (repeat 0 (N.to_nat sb)) (N.to_nat K)) = inl x ->
  forall j, j < R -> nth (N.to_nat j) (encode_shards junk ep x) [] = repeat 0 (N.to_nat sb).
Proof. exact ops_encode_zero. Qed.
Print Assumptions C13_api_zero.

(* scale_bytes k b: every 16-bit symbol of the shard b multiplied by the field constant k *)
Theorem C13_api_scale : forall (junk : N -> N -> N -> N), (forall a b c, junk a b c < 65536) ->
  forall (c : codec) (e1 e2 : engine) (K R sb ep1 ep2 k : N) (o : list bytes),
  validateb c K R sb = None -> k < 65536 ->
  N.of_nat (length o) = K -> Forall (byteshard sb) o ->
  forall (w1 w2 : encwork) (x01 x1 x02 x2 : encoder) (a1 a2 : bool),
  enc_make c e1 K R sb w1 = inl (x01, a1) -> enc_add_all x01 o = inl x1 ->
  enc_make c e2 K R sb w2 = inl (x02, a2) -> enc_add_all x02 (map (scale_bytes k) o) = inl x2 ->
  forall j, j < R ->
  nth (N.to_nat j) (encode_shards junk ep2 x2) [] = scale_bytes k (nth (N.to_nat j) (encode_shards junk ep1 x1) []).
Proof. exact ops_encode_scale. Qed.
Print Assumptions C13_api_scale.

(* non-vacuity: the hypotheses are met by a concrete encoder (3 originals, 2 recovery, 4-byte shards) *)
Example C13_api_instance :
  let o1 := [[1; 2; 3; 4]; [5; 6; 7; 8]; [9; 10; 11; 12]] in
  let o2 := [[255; 0; 17; 4]; [0; 0; 0; 1]; [200; 100; 50; 25]] in
  let run o := match enc_make CHigh NoSimd 3 2 4 encwork_new with
               | inl (x0, _) => match enc_add_all x0 o with inl x => Some (encode_shards (fun _ _ _ => 7) 0 x) | inr _ => None end
               | inr _ => None end in
  match run o1, run o2, run (bxor_shards o1 o2) with
  | Some r1, Some r2, Some r3 => leq (concat r3) (concat (map2 (map2 N.lxor) r1 r2)) && negb (leq (concat r3) (repeat 0 8))
  | _, _, _ => false
  end = true.
Proof. vm_compute. reflexivity. Qed.
