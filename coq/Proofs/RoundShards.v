(* C01 for whole shards: every 16-bit slot of every restored shard. *)
From Coq Require Import NArith Arith Lia Bool List.
From RS.Gen Require Import Prelude GenConsts.
From RS.Model Require Import Field Tables Sched Codec Spec.
From RS.Proofs Require Import RateFacts FieldFacts Param Linear FftSpec Lengths Cauchy DecodeBase DecodeLow DecodeHigh Locator RoundLow RoundHigh.
Import ListNotations.
Local Open Scope N_scope.

Lemma nth_lane l (ws : list (list N)) i : nth i (map (fun s => nth l s 0) ws) 0 = nth l (nth i ws []) 0.
Proof.
  revert i. induction ws as [|s ws IH]; intros [|i]; cbn; try reflexivity; [destruct l; reflexivity|destruct l; reflexivity|apply IH].
Qed.
Lemma shard_ext lanes (a b : list N) : length a = lanes -> length b = lanes ->
  (forall l, (l < lanes)%nat -> nth l a 0 = nth l b 0) -> a = b.
Proof.
  revert a b. induction lanes as [|n IH]; intros [|x a] [|y b] La Lb H; cbn in *; try discriminate; [reflexivity|].
  f_equal; [apply (H 0%nat); lia|]. apply IH; try lia. intros l Hl. apply (H (S l)). lia.
Qed.
Lemma Forall2_nth_l {A B} (P : A -> B -> Prop) da db : forall a b, Forall2 P a b ->
  forall j, (j < length a)%nat -> P (nth j a da) (nth j b db).
Proof.
  induction 1 as [|x y a b Hxy _ IH]; intros j Hj; [cbn in Hj; lia|]. destruct j; [exact Hxy|]. cbn. apply IH. cbn in Hj. lia.
Qed.
Lemma Forall2_length' {A B} (P : A -> B -> Prop) a b : Forall2 P a b -> length a = length b.
Proof. induction 1; cbn; congruence. Qed.


(* ---------- lengths through the decoder, any element type ---------- *)
Section Len.
Context {T : Type} (ops : elt_ops T).
Variable e : engine.

Lemma mapi_len (f : N -> N -> T -> T) er (l : list T) : (length l <= length er)%nat -> length (mapi f er l) = length l.
Proof. intros H. unfold mapi. rewrite map_length, !combine_length. unfold range. rewrite rangeN_length. lia. Qed.
Lemma fdr_len_gen k : forall l : list T, length l = p2 k -> length (formal_derivative_rec ops k l) = p2 k.
Proof.
  induction k as [|k IH]; intros l Hl; cbn [formal_derivative_rec]; [exact Hl|]. rewrite p2_S in Hl. fold (p2 k).
  assert (L1 : length (firstn (p2 k) l) = p2 k) by (rewrite firstn_length; lia).
  assert (L2 : length (skipn (p2 k) l) = p2 k) by (rewrite skipn_length; lia).
  unfold map2. rewrite app_length, map_length, combine_length, !IH by assumption. rewrite L2, p2_S. lia.
Qed.
Lemma transform_len kn t (w : list T) : (kn <= 16)%nat -> length w = p2 kn ->
  length (transform ops e (2 ^ N.of_nat kn) t w) = p2 kn.
Proof.
  intros Hk Lw. unfold transform.
  assert (Lw' : N.of_nat (length w) = 2 ^ N.of_nat kn) by (rewrite Lw; apply p2_N).
  assert (L1 : length (ifft ops e (2 ^ N.of_nat kn) t 0 w) = p2 kn) by (rewrite ifft_len by assumption; exact Lw).
  assert (L2 : length (formal_derivative ops (ifft ops e (2 ^ N.of_nat kn) t 0 w)) = p2 kn).
  { unfold formal_derivative. rewrite L1, p2_N, N.log2_pow2, Nat2N.id by lia. apply fdr_len_gen. exact L1. }
  rewrite fft_len by (rewrite L2; apply p2_N). exact L2.
Qed.
Lemma decode_low_len K R recv kn (work : list T) : (kn <= 16)%nat -> length work = p2 kn ->
  length (eval_poly (low_erasures K R recv) GF_ORDER) = N.to_nat 65536 ->
  length (snd (decode_low_work ops e K R recv work)) = p2 kn.
Proof.
  intros Hk Lw Ler. unfold decode_low_work. cbv zeta. cbn [snd].
  assert (Hp : N.of_nat (p2 kn) <= 65536) by (rewrite p2_N; change 65536 with (2 ^ 16); apply N.pow_le_mono_r; lia).
  assert (Ln : N.of_nat (length work) = 2 ^ N.of_nat kn) by (rewrite Lw; apply p2_N). rewrite Ln.
  rewrite mapi_len; [apply transform_len; [exact Hk|]|]; rewrite ?transform_len; try exact Hk;
    try (rewrite mapi_len; [exact Lw|rewrite Ler, Lw; lia]); rewrite Ler; lia.
Qed.
Lemma decode_high_len K R recv kn (work : list T) : (kn <= 16)%nat -> length work = p2 kn ->
  length (eval_poly (high_erasures K R recv) (np2 R + K)) = N.to_nat 65536 ->
  length (snd (decode_high_work ops e K R recv work)) = p2 kn.
Proof.
  intros Hk Lw Ler. unfold decode_high_work. cbv zeta. cbn [snd].
  assert (Hp : N.of_nat (p2 kn) <= 65536) by (rewrite p2_N; change 65536 with (2 ^ 16); apply N.pow_le_mono_r; lia).
  assert (Ln : N.of_nat (length work) = 2 ^ N.of_nat kn) by (rewrite Lw; apply p2_N). rewrite Ln.
  rewrite mapi_len; [apply transform_len; [exact Hk|]|]; rewrite ?transform_len; try exact Hk;
    try (rewrite mapi_len; [exact Lw|rewrite Ler, Lw; lia]); rewrite Ler; lia.
Qed.
End Len.

Lemma low_er_spec K R recv k : npow2 K = 2 ^ N.of_nat k ->
  er_spec (eval_poly (low_erasures K R recv) GF_ORDER) (Efull_low K R recv k).
Proof.
  intros Hm.
  assert (E : low_erasures K R recv = map (fun i => if el_low K R recv k i then 1 else 0) (range 0 GF_ORDER)).
  { unfold low_erasures. cbv zeta. unfold np2. rewrite Hm. apply map_ext. intros x. unfold el_low.
    destruct (x <? K); [destruct (recv x); reflexivity|]. destruct (x <? 2 ^ N.of_nat k); [reflexivity|].
    destruct (x <? 2 ^ N.of_nat k + R); [destruct (recv x); reflexivity|reflexivity]. }
  rewrite E. apply eval_poly_er_spec; [lia|]. intros v Hv1 Hv2. unfold GF_ORDER in Hv1. lia.
Qed.
Lemma high_er_spec K R recv k : npow2 R = 2 ^ N.of_nat k -> 2 ^ N.of_nat k + K <= 65536 ->
  er_spec (eval_poly (high_erasures K R recv) (2 ^ N.of_nat k + K)) (Eh K R recv k).
Proof.
  intros Hm Henv. pose proof (npow2_ge R) as G. rewrite Hm in G.
  assert (E : high_erasures K R recv = map (fun i => if el_high K R recv k i then 1 else 0) (range 0 GF_ORDER)).
  { unfold high_erasures. cbv zeta. unfold np2. rewrite Hm. apply map_ext. intros x. unfold el_high.
    destruct (x <? R); [destruct (recv x); reflexivity|]. destruct (x <? 2 ^ N.of_nat k); [reflexivity|].
    destruct (x <? 2 ^ N.of_nat k + K); [destruct (recv x); reflexivity|reflexivity]. }
  rewrite E. apply eval_poly_er_spec; [unfold GF_ORDER; lia|]. intros v Hv1 Hv2.
  unfold el_high. destruct (N.ltb_spec v R); [lia|]. destruct (N.ltb_spec v (2 ^ N.of_nat k)); [lia|].
  destruct (N.ltb_spec v (2 ^ N.of_nat k + K)); [lia|reflexivity].
Qed.

Section Shards.
Variables (lanes : nat) (e e' : engine) (K R : N) (recv : N -> bool) (k kn : nat).
Let m := 2 ^ N.of_nat k.
Variables (w work : list (list N)).
Hypothesis HK : 1 <= K.
Hypothesis HR : 1 <= R.
Hypothesis Hkn : (kn <= 16)%nat.
Hypothesis Hw : Forall (fun s => length s = lanes) w.
Hypothesis Ww : Forall (Forall W16) w.
Hypothesis Hwork : Forall (fun s => length s = lanes) work.
Hypothesis Wwork : Forall (Forall W16) work.
Hypothesis Lwork : length work = p2 kn.

Theorem decode_low_roundtrip_shards :
  npow2 K = m -> m + R <= 65536 -> m + R <= 2 ^ N.of_nat kn -> (N.to_nat m <= length w)%nat ->
  (forall i, i < K -> recv i = true -> nth (N.to_nat i) work [] = nth (N.to_nat i) w []) ->
  (forall j, j < R -> recv (m + j) = true ->
     nth (N.to_nat (m + j)) work [] = nth (N.to_nat j) (encode_low (shard_ops lanes) e K R w) []) ->
  (N.to_nat K <= cnt recv 0 K + cnt recv m (m + R))%nat ->
  forall i, i < K -> recv i = false ->
  nth (N.to_nat i) (snd (decode_low_work (shard_ops lanes) e' K R recv work)) [] = nth (N.to_nat i) w [].
Proof.
  intros Hm Henv Hre Lw Hro Hrr Hcnt i Hi Hri.
  pose proof (npow2_ge K) as HKm. rewrite Hm in HKm.
  assert (Pn : N.of_nat (p2 kn) = 2 ^ N.of_nat kn) by apply p2_N.
  assert (Hiw : (N.to_nat i < length w)%nat) by lia.
  assert (Hiwork : (N.to_nat i < length work)%nat) by (rewrite Lwork; lia).
  assert (Ler : length (eval_poly (low_erasures K R recv) GF_ORDER) = N.to_nat 65536) by (apply (low_er_spec K R recv k Hm)).
  assert (Lo : length (snd (decode_low_work (shard_ops lanes) e' K R recv work)) = p2 kn) by (apply decode_low_len; assumption).
  apply (shard_ext lanes).
  - pose proof (decode_low_lanes lanes 0 e' K R recv work Hwork) as F.
    destruct (Forall2_nth_l _ [] 0 _ _ F (N.to_nat i) ltac:(lia)) as [L _]. exact L.
  - rewrite Forall_forall in Hw. apply Hw. apply nth_In. exact Hiw.
  - intros l Hl.
    pose proof (decode_low_lanes lanes l e' K R recv work Hwork) as F.
    destruct (Forall2_nth_l _ [] 0 _ _ F (N.to_nat i) ltac:(lia)) as [_ E]. rewrite E.
    rewrite <- nth_lane.
    apply (decode_low_roundtrip e e' K R recv k kn HK HR Hm Henv Hkn Hre).
    + apply lane_W16; exact Ww.
    + rewrite map_length. exact Lw.
    + rewrite map_length. exact Lwork.
    + apply lane_W16; exact Wwork.
    + intros i0 Hi0 Hr0. rewrite !nth_lane, Hro by assumption. reflexivity.
    + intros j Hj Hr0. rewrite nth_lane, Hrr by assumption.
      pose proof (encode_low_lanes lanes l e K R w Hw) as FE.
      assert (LE : length (encode_low sym_ops e K R (map (fun s => nth l s 0) w)) = N.to_nat R).
      { apply encode_low_length; try lia. rewrite map_length. unfold np2. rewrite Hm. exact Lw. }
      destruct (Forall2_nth _ [] 0 _ _ FE (N.to_nat j) ltac:(lia)) as [_ E2]. exact E2.
    + exact Hcnt.
    + exact Hi.
    + exact Hri.
Qed.

Theorem decode_high_roundtrip_shards :
  npow2 R = m -> m + K <= 65536 -> m + K <= 2 ^ N.of_nat kn -> length w = N.to_nat (high_enc_work_count K R) ->
  (forall j, j < R -> recv j = true ->
     nth (N.to_nat j) work [] = nth (N.to_nat j) (encode_high (shard_ops lanes) e K R w) []) ->
  (forall i, i < K -> recv (m + i) = true -> nth (N.to_nat (m + i)) work [] = nth (N.to_nat i) w []) ->
  (N.to_nat K <= cnt recv 0 R + cnt recv m (m + K))%nat ->
  forall i, i < K -> recv (m + i) = false ->
  nth (N.to_nat (m + i)) (snd (decode_high_work (shard_ops lanes) e' K R recv work)) [] = nth (N.to_nat i) w [].
Proof.
  intros Hm Henv Hoe Lw Hrr Hro Hcnt i Hi Hri.
  pose proof (npow2_ge R) as HRm. rewrite Hm in HRm.
  assert (Pn : N.of_nat (p2 kn) = 2 ^ N.of_nat kn) by apply p2_N.
  assert (Hmpos : 0 < m) by (unfold m; pose proof (N.pow_nonzero 2 (N.of_nat k)); lia).
  assert (Lw' : (N.to_nat K <= length w)%nat).
  { rewrite Lw. unfold high_enc_work_count, np2. rewrite Hm. destruct (next_mult_spec K m Hmpos) as [H _]. lia. }
  assert (Hiw : (N.to_nat i < length w)%nat) by lia.
  assert (Hiwork : (N.to_nat (m + i) < length work)%nat) by (rewrite Lwork; lia).
  assert (Ler : length (eval_poly (high_erasures K R recv) (np2 R + K)) = N.to_nat 65536).
  { unfold np2. rewrite Hm. apply (high_er_spec K R recv k Hm Henv). }
  assert (Lo : length (snd (decode_high_work (shard_ops lanes) e' K R recv work)) = p2 kn) by (apply decode_high_len; assumption).
  apply (shard_ext lanes).
  - pose proof (decode_high_lanes lanes 0 e' K R recv work Hwork) as F.
    destruct (Forall2_nth_l _ [] 0 _ _ F (N.to_nat (m + i)) ltac:(lia)) as [L _]. exact L.
  - rewrite Forall_forall in Hw. apply Hw. apply nth_In. exact Hiw.
  - intros l Hl.
    pose proof (decode_high_lanes lanes l e' K R recv work Hwork) as F.
    destruct (Forall2_nth_l _ [] 0 _ _ F (N.to_nat (m + i)) ltac:(lia)) as [_ E]. rewrite E.
    rewrite <- nth_lane.
    apply (decode_high_roundtrip e e' K R recv k kn HK HR Hm Henv Hkn Hoe).
    + apply lane_W16; exact Ww.
    + rewrite map_length. exact Lw.
    + rewrite map_length. exact Lwork.
    + apply lane_W16; exact Wwork.
    + intros j Hj Hr0. rewrite nth_lane, Hrr by assumption.
      pose proof (encode_high_lanes lanes l e K R w Hw) as FE.
      assert (LE : length (encode_high sym_ops e K R (map (fun s => nth l s 0) w)) = N.to_nat R).
      { apply encode_high_length; try lia. rewrite map_length. exact Lw. }
      destruct (Forall2_nth _ [] 0 _ _ FE (N.to_nat j) ltac:(lia)) as [_ E2]. exact E2.
    + intros i0 Hi0 Hr0. rewrite !nth_lane, Hro by assumption. reflexivity.
    + exact Hcnt.
    + exact Hi.
    + exact Hri.
Qed.
End Shards.
