(* C16: the once-cell machine of Model/Lazy.v (lazily initialised tables with a ranked, i.e.
   acyclic, dependency graph): invariants of every reachable state, no deadlock under any
   schedule, every initialiser runs at most once. Unbounded number of threads. *)
From Coq Require Import NArith Arith Lia Bool List String.
From RS.Model Require Import Lazy.
Import ListNotations.
Local Open Scope string_scope.

Section L.
Variable d : list (string * list string).
Variable rk : string -> nat.
Hypothesis Hrk : forall c x, In x (deps_of d c) -> (rk x < rk c)%nat.

Fixpoint chain (s : list string) : Prop :=
  match s with
  | x :: r => match r with y :: _ => In x (deps_of d y) | [] => True end /\ chain r
  | [] => True
  end.

Record Inv (m : mstate) : Prop := {
  I1 : forall t th c, nth_error (threads m) t = Some th -> In c (stack th) -> tbl m c = Running t;
  I2 : forall c t, tbl m c = Running t -> exists th, nth_error (threads m) t = Some th /\ In c (stack th);
  I3 : forall t th, nth_error (threads m) t = Some th -> chain (stack th);
  I4 : forall t th, nth_error (threads m) t = Some th -> NoDup (stack th) }.

(* ---------- list plumbing ---------- *)
Lemma nth_firstn_lt {A} (l : list A) : forall n i, (i < n)%nat -> nth_error (firstn n l) i = nth_error l i.
Proof. induction l as [|x l IH]; intros [|n] [|i] H; cbn; try reflexivity; try lia. apply IH. lia. Qed.
Lemma nth_skipn' {A} (l : list A) : forall n i, nth_error (skipn n l) i = nth_error l (n + i).
Proof. induction l as [|x l IH]; intros [|n] i; cbn; try reflexivity; [destruct i; reflexivity|apply IH]. Qed.
Lemma nth_set_thread ts t th t' : (t < List.length ts)%nat ->
  nth_error (set_thread ts t th) t' = if Nat.eqb t' t then Some th else nth_error ts t'.
Proof.
  intros Ht. unfold set_thread.
  assert (Lf : List.length (firstn t ts) = t) by (rewrite firstn_length; lia).
  destruct (Nat.eqb_spec t' t) as [->|Hne].
  - rewrite nth_error_app2 by lia. rewrite Lf, Nat.sub_diag. reflexivity.
  - destruct (Nat.lt_ge_cases t' t) as [Hlt|Hge].
    + rewrite nth_error_app1 by lia. apply nth_firstn_lt. exact Hlt.
    + rewrite nth_error_app2 by lia. rewrite Lf.
      destruct (t' - t)%nat as [|k] eqn:Ek; [lia|]. cbn [nth_error].
      rewrite nth_skipn'. f_equal. lia.
Qed.
Lemma nth_some_lt {A} (l : list A) n x : nth_error l n = Some x -> (n < List.length l)%nat.
Proof. intros H. apply nth_error_Some. congruence. Qed.

Lemma cset_same cs c v : cset cs c v c = v.
Proof. unfold cset. rewrite String.eqb_refl. reflexivity. Qed.
Lemma cset_other cs c v x : x <> c -> cset cs c v x = cs x.
Proof. intros H. unfold cset. apply String.eqb_neq in H. rewrite H. reflexivity. Qed.

Lemma chain_tail x r : chain (x :: r) -> chain r.
Proof. cbn. tauto. Qed.

Lemma Inv_init wants : Inv (minit wants).
Proof.
  constructor; cbn.
  - intros t th c H Hc. apply nth_error_In in H. apply in_map_iff in H. destruct H as (w & <- & _). destruct Hc.
  - intros c t H. discriminate.
  - intros t th H. apply nth_error_In in H. apply in_map_iff in H. destruct H as (w & <- & _). exact I.
  - intros t th H. apply nth_error_In in H. apply in_map_iff in H. destruct H as (w & <- & _). constructor.
Qed.

Theorem Inv_step m t m' : Inv m -> mstep d m t = Some m' -> Inv m'.
Proof.
  intros [J1 J2 J3 J4]. unfold mstep. destruct (nth_error (threads m) t) as [th|] eqn:Eth; [|discriminate].
  pose proof (nth_some_lt _ _ _ Eth) as Hlt.
  destruct (stack th) as [|c rest] eqn:Es.
  - (* empty stack: look at the pending list *)
    destruct (pending th) as [|c rest] eqn:Ep; [discriminate|].
    destruct (tbl m c) eqn:Ec; [| discriminate |].
    + (* Uninit: start initialising c *)
      intros [= <-]. constructor; cbn [tbl threads].
      * intros t' th' c' H Hc'. rewrite nth_set_thread in H by exact Hlt. destruct (Nat.eqb_spec t' t) as [->|Hne].
        -- inversion H; subst th'. cbn in Hc'. destruct Hc' as [<-|[]]. apply cset_same.
        -- rewrite cset_other; [apply (J1 t' th' c' H Hc')|]. intros ->. rewrite (J1 t' th' c H Hc') in Ec. discriminate.
      * intros c' t' H. destruct (String.eqb_spec c' c) as [->|Hne].
        -- rewrite cset_same in H. inversion H; subst t'. eexists. rewrite nth_set_thread by exact Hlt. rewrite Nat.eqb_refl. split; [reflexivity|left; reflexivity].
        -- rewrite cset_other in H by exact Hne. destruct (J2 c' t' H) as (th' & H1 & H2).
           destruct (Nat.eqb_spec t' t) as [->|Hnt].
           ++ rewrite Eth in H1. inversion H1; subst th'. rewrite Es in H2. destruct H2.
           ++ exists th'. rewrite nth_set_thread by exact Hlt. apply Nat.eqb_neq in Hnt. rewrite Hnt. auto.
      * intros t' th' H. rewrite nth_set_thread in H by exact Hlt. destruct (Nat.eqb_spec t' t) as [->|Hne].
        -- inversion H; subst th'. cbn. auto.
        -- apply (J3 t' th' H).
      * intros t' th' H. rewrite nth_set_thread in H by exact Hlt. destruct (Nat.eqb_spec t' t) as [->|Hne].
        -- inversion H; subst th'. cbn. constructor; [intros []|constructor].
        -- apply (J4 t' th' H).
    + (* Done: nothing to do *)
      intros [= <-]. constructor; cbn [tbl threads].
      * intros t' th' c' H Hc'. rewrite nth_set_thread in H by exact Hlt. destruct (Nat.eqb_spec t' t) as [->|Hne].
        -- inversion H; subst th'. destruct Hc'.
        -- apply (J1 t' th' c' H Hc').
      * intros c' t' H. destruct (J2 c' t' H) as (th' & H1 & H2). destruct (Nat.eqb_spec t' t) as [->|Hnt].
        -- rewrite Eth in H1. inversion H1; subst th'. rewrite Es in H2. destruct H2.
        -- exists th'. rewrite nth_set_thread by exact Hlt. apply Nat.eqb_neq in Hnt. rewrite Hnt. auto.
      * intros t' th' H. rewrite nth_set_thread in H by exact Hlt. destruct (Nat.eqb_spec t' t) as [->|Hne].
        -- inversion H; subst th'. exact I.
        -- apply (J3 t' th' H).
      * intros t' th' H. rewrite nth_set_thread in H by exact Hlt. destruct (Nat.eqb_spec t' t) as [->|Hne].
        -- inversion H; subst th'. constructor.
        -- apply (J4 t' th' H).
  - (* non-empty stack c :: rest *)
    assert (Hc : tbl m c = Running t) by (apply (J1 t th c Eth); rewrite Es; left; reflexivity).
    pose proof (J3 t th Eth) as Hch. rewrite Es in Hch. pose proof (J4 t th Eth) as Hnd. rewrite Es in Hnd.
    destruct (find (fun x => negb (is_done (tbl m) x)) (deps_of d c)) as [x|] eqn:Ef.
    + apply find_some in Ef. destruct Ef as [Hx Hnx].
      destruct (tbl m x) eqn:Ex; try discriminate.
      (* push the dependency x *)
      intros [= <-]. constructor; cbn [tbl threads].
      * intros t' th' c' H Hc'. rewrite nth_set_thread in H by exact Hlt. destruct (Nat.eqb_spec t' t) as [->|Hne].
        -- inversion H; subst th'. cbn in Hc'. destruct Hc' as [<-|Hc']; [apply cset_same|].
           rewrite cset_other; [apply (J1 t th c' Eth); rewrite Es; exact Hc'|].
           intros ->. rewrite (J1 t th x Eth) in Ex; [discriminate|rewrite Es; exact Hc'].
        -- rewrite cset_other; [apply (J1 t' th' c' H Hc')|]. intros ->. rewrite (J1 t' th' x H Hc') in Ex. discriminate.
      * intros c' t' H. destruct (String.eqb_spec c' x) as [->|Hne].
        -- rewrite cset_same in H. inversion H; subst t'. eexists. rewrite nth_set_thread by exact Hlt. rewrite Nat.eqb_refl. split; [reflexivity|left; reflexivity].
        -- rewrite cset_other in H by exact Hne. destruct (J2 c' t' H) as (th' & H1 & H2).
           destruct (Nat.eqb_spec t' t) as [->|Hnt].
           ++ rewrite Eth in H1. inversion H1; subst th'. eexists. rewrite nth_set_thread by exact Hlt. rewrite Nat.eqb_refl.
              split; [reflexivity|]. cbn. right. first [exact H2 | rewrite Es in H2; exact H2].
           ++ exists th'. rewrite nth_set_thread by exact Hlt. apply Nat.eqb_neq in Hnt. rewrite Hnt. auto.
      * intros t' th' H. rewrite nth_set_thread in H by exact Hlt. destruct (Nat.eqb_spec t' t) as [->|Hne].
        -- inversion H; subst th'. cbn [stack]. rewrite ?Es. cbn. split; [exact Hx|exact Hch].
        -- apply (J3 t' th' H).
      * intros t' th' H. rewrite nth_set_thread in H by exact Hlt. destruct (Nat.eqb_spec t' t) as [->|Hne].
        -- inversion H; subst th'. cbn [stack]. rewrite ?Es. constructor; [|exact Hnd].
           intros Hin. rewrite (J1 t th x Eth) in Ex; [discriminate|rewrite Es; exact Hin].
        -- apply (J4 t' th' H).
    + (* complete the initialiser of c *)
      intros [= <-]. inversion Hnd as [|? ? Hnotin Hnd']; subst.
      constructor; cbn [tbl threads].
      * intros t' th' c' H Hc'. rewrite nth_set_thread in H by exact Hlt. destruct (Nat.eqb_spec t' t) as [->|Hne].
        -- inversion H; subst th'. cbn in Hc'. rewrite cset_other; [apply (J1 t th c' Eth); rewrite Es; right; exact Hc'|].
           intros ->. contradiction.
        -- rewrite cset_other; [apply (J1 t' th' c' H Hc')|]. intros ->. rewrite (J1 t' th' c H Hc') in Hc. inversion Hc. contradiction.
      * intros c' t' H. destruct (String.eqb_spec c' c) as [->|Hne]; [rewrite cset_same in H; discriminate|].
        rewrite cset_other in H by exact Hne. destruct (J2 c' t' H) as (th' & H1 & H2).
        destruct (Nat.eqb_spec t' t) as [->|Hnt].
        -- rewrite Eth in H1. inversion H1; subst th'. eexists. rewrite nth_set_thread by exact Hlt. rewrite Nat.eqb_refl.
           split; [reflexivity|]. cbn. rewrite Es in H2. destruct H2 as [->|H2]; [contradiction|exact H2].
        -- exists th'. rewrite nth_set_thread by exact Hlt. apply Nat.eqb_neq in Hnt. rewrite Hnt. auto.
      * intros t' th' H. rewrite nth_set_thread in H by exact Hlt. destruct (Nat.eqb_spec t' t) as [->|Hne].
        -- inversion H; subst th'. cbn. apply (chain_tail c rest Hch).
        -- apply (J3 t' th' H).
      * intros t' th' H. rewrite nth_set_thread in H by exact Hlt. destruct (Nat.eqb_spec t' t) as [->|Hne].
        -- inversion H; subst th'. exact Hnd'.
        -- apply (J4 t' th' H).
Qed.

(* ---------- no deadlock ---------- *)
Definition awaits (m : mstate) (th : thread) : option string :=
  match stack th with
  | c :: _ =>
    match find (fun x => negb (is_done (tbl m) x)) (deps_of d c) with
    | None => None
    | Some x => match tbl m x with Uninit => None | _ => Some x end
    end
  | [] =>
    match pending th with
    | [] => None
    | c :: _ => match tbl m c with Running _ => Some c | _ => None end
    end
  end.

Lemma awaits_none_enabled m t th : nth_error (threads m) t = Some th -> thread_finished th = false ->
  awaits m th = None -> exists m', mstep d m t = Some m'.
Proof.
  intros Eth Hf Ha. unfold mstep. rewrite Eth. unfold awaits, thread_finished in *.
  destruct (stack th) as [|c rest].
  - destruct (pending th) as [|c rest]; [discriminate|]. destruct (tbl m c); try discriminate; eexists; reflexivity.
  - destruct (find _ _) as [x|]; [|eexists; reflexivity]. destruct (tbl m x); try discriminate. eexists; reflexivity.
Qed.

Lemma chain_rank c s : chain (c :: s) -> forall y, In y s -> (rk c < rk y)%nat.
Proof.
  revert c. induction s as [|z s IH]; intros c Hc y Hy; [destruct Hy|].
  cbn in Hc. destruct Hc as [Hcz Hc]. pose proof (Hrk z c Hcz) as H1.
  destruct Hy as [<-|Hy]; [exact H1|]. specialize (IH z Hc y Hy). lia.
Qed.

Lemma descend m : Inv m -> forall n t th a, nth_error (threads m) t = Some th ->
  awaits m th = Some a -> (rk a <= n)%nat -> exists t' m', mstep d m t' = Some m'.
Proof.
  intros J. induction n as [|n IH]; intros t th a Eth Ha Hn.
  - (* the owner of a cannot wait for anything of smaller rank *)
    assert (Hown : exists t', tbl m a = Running t').
    { unfold awaits in Ha. destruct (stack th) as [|c rest].
      - destruct (pending th) as [|c rest]; [discriminate|]. destruct (tbl m c) eqn:E; try discriminate. inversion Ha; subst. eexists; exact E.
      - destruct (find _ _) as [x|] eqn:Ef; [|discriminate]. apply find_some in Ef. destruct Ef as [_ Hnd].
        destruct (tbl m x) eqn:E; try discriminate; inversion Ha; subst.
        + eexists; exact E.
        + unfold is_done in Hnd. rewrite E in Hnd. discriminate. }
    destruct Hown as [t' Ht']. destruct (I2 m J a t' Ht') as (th' & Eth' & Hin).
    destruct (awaits m th') as [a'|] eqn:Ea'.
    + exfalso. unfold awaits in Ea'. destruct (stack th') as [|c' rest'] eqn:Es'; [destruct Hin|].
      destruct (find _ _) as [x|] eqn:Ef; [|discriminate]. apply find_some in Ef. destruct Ef as [Hx _].
      pose proof (Hrk c' x Hx) as H1.
      assert (rk c' <= rk a)%nat.
      { destruct Hin as [->|Hin]; [lia|]. pose proof (I3 m J t' th' Eth') as Hc. rewrite Es' in Hc.
        pose proof (chain_rank c' rest' Hc a Hin). lia. }
      lia.
    + exists t'. apply (awaits_none_enabled m t' th' Eth'); [|exact Ea'].
      unfold thread_finished. destruct (stack th'); [destruct Hin|reflexivity].
  - assert (Hown : exists t', tbl m a = Running t').
    { unfold awaits in Ha. destruct (stack th) as [|c rest].
      - destruct (pending th) as [|c rest]; [discriminate|]. destruct (tbl m c) eqn:E; try discriminate. inversion Ha; subst. eexists; exact E.
      - destruct (find _ _) as [x|] eqn:Ef; [|discriminate]. apply find_some in Ef. destruct Ef as [_ Hnd].
        destruct (tbl m x) eqn:E; try discriminate; inversion Ha; subst.
        + eexists; exact E.
        + unfold is_done in Hnd. rewrite E in Hnd. discriminate. }
    destruct Hown as [t' Ht']. destruct (I2 m J a t' Ht') as (th' & Eth' & Hin).
    destruct (awaits m th') as [a'|] eqn:Ea'.
    + apply (IH t' th' a' Eth' Ea').
      unfold awaits in Ea'. destruct (stack th') as [|c' rest'] eqn:Es'; [destruct Hin|].
      destruct (find _ _) as [x|] eqn:Ef; [|discriminate]. apply find_some in Ef. destruct Ef as [Hx _].
      assert (a' = x) by (destruct (tbl m x); try discriminate; inversion Ea'; reflexivity). subst a'.
      pose proof (Hrk c' x Hx) as H1.
      assert (rk c' <= rk a)%nat.
      { destruct Hin as [->|Hin]; [lia|]. pose proof (I3 m J t' th' Eth') as Hc. rewrite Es' in Hc.
        pose proof (chain_rank c' rest' Hc a Hin). lia. }
      lia.
    + exists t'. apply (awaits_none_enabled m t' th' Eth'); [|exact Ea'].
      unfold thread_finished. destruct (stack th'); [destruct Hin|reflexivity].
Qed.

(* in every state satisfying the invariant, if some thread is not finished then some thread
   can take a step: no schedule deadlocks, whatever the number of threads *)
Theorem progress m : Inv m -> finished m = false -> exists t m', mstep d m t = Some m'.
Proof.
  intros J Hf. unfold finished in Hf.
  assert (Hex : exists t th, nth_error (threads m) t = Some th /\ thread_finished th = false).
  { clear J. induction (threads m) as [|th ts IH]; [discriminate|]. cbn in Hf.
    destruct (thread_finished th) eqn:E.
    - destruct (IH Hf) as (t & th' & H1 & H2). exists (S t), th'. auto.
    - exists 0%nat, th. auto. }
  destruct Hex as (t & th & Eth & Hu).
  destruct (awaits m th) as [a|] eqn:Ea.
  - apply (descend m J (rk a) t th a Eth Ea). lia.
  - exists t. apply (awaits_none_enabled m t th Eth Hu Ea).
Qed.

(* ---------- every initialiser completes at most once ---------- *)
Lemma once_step m t m' : Inv m -> (forall c, In c (inits m) -> tbl m c = Done) -> NoDup (inits m) ->
  mstep d m t = Some m' -> (forall c, In c (inits m') -> tbl m' c = Done) /\ NoDup (inits m').
Proof.
  intros J H5 H6. unfold mstep. destruct (nth_error (threads m) t) as [th|] eqn:Eth; [|discriminate].
  destruct (stack th) as [|c rest] eqn:Es.
  - destruct (pending th) as [|c rest]; [discriminate|]. destruct (tbl m c) eqn:Ec; try discriminate; intros [= <-]; cbn [tbl inits]; (split; [|exact H6]).
    + intros c' Hc'. rewrite cset_other; [apply H5, Hc'|]. intros ->. rewrite (H5 c Hc') in Ec. discriminate.
    + exact H5.
  - assert (Hc : tbl m c = Running t) by (apply (I1 m J t th c Eth); rewrite Es; left; reflexivity).
    destruct (find _ _) as [x|] eqn:Ef.
    + destruct (tbl m x) eqn:Ex; try discriminate. intros [= <-]; cbn [tbl inits]. split; [|exact H6].
      intros c' Hc'. rewrite cset_other; [apply H5, Hc'|]. intros ->. rewrite (H5 x Hc') in Ex. discriminate.
    + intros [= <-]; cbn [tbl inits]. split.
      * intros c' Hc'. apply in_app_or in Hc'. destruct Hc' as [Hc'|[<-|[]]]; [|apply cset_same].
        destruct (String.eqb_spec c' c) as [->|Hne]; [apply cset_same|]. rewrite cset_other by exact Hne. apply H5, Hc'.
      * apply NoDup_app_remove_l || idtac.
        assert (Hn : ~ In c (inits m)) by (intros Hin; rewrite (H5 c Hin) in Hc; discriminate).
        clear - H6 Hn. induction (inits m) as [|z zs IH]; cbn; [constructor; [intros []|constructor]|].
        inversion H6; subst. constructor.
        -- intros Hin. apply in_app_or in Hin. destruct Hin as [Hin|[<-|[]]]; [contradiction|]. apply Hn. left. reflexivity.
        -- apply IH; [assumption|]. intros Hin. apply Hn. right. exact Hin.
Qed.

(* lifted to every schedule from the initial state *)
Theorem run_invariants wants sched :
  let m := mrun d (minit wants) sched in
  Inv m /\ (forall c, In c (inits m) -> tbl m c = Done) /\ NoDup (inits m).
Proof.
  cbv zeta.
  assert (G : forall m, Inv m /\ (forall c, In c (inits m) -> tbl m c = Done) /\ NoDup (inits m) ->
              Inv (mrun d m sched) /\ (forall c, In c (inits (mrun d m sched)) -> tbl (mrun d m sched) c = Done) /\ NoDup (inits (mrun d m sched))).
  { induction sched as [|t sched IH]; intros m H; [exact H|]. cbn [mrun].
    destruct (mstep d m t) as [m'|] eqn:E; [|apply IH, H].
    apply IH. destruct H as (J & H5 & H6). split; [eapply Inv_step; eauto|]. eapply once_step; eauto. }
  apply G. split; [apply Inv_init|]. split; [intros c []|constructor].
Qed.
End L.
