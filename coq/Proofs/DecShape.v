(* C12, decoder side: every restored shard has exactly shard_bytes bytes, for every decoder
   object the machine can produce and whatever shards it was given (codewords or not). *)
From Coq Require Import NArith Arith Lia Bool List FMapPositive.
From RS.Gen Require Import Prelude GenConsts.
From RS.Model Require Import Field Tables Sched Codec Layout Machine.
From RS.Proofs Require Import RateFacts FieldFacts Param Lengths ShardLen Junk PermFacts.
Import ListNotations.
Local Open Scope N_scope.

Definition dec_cfg (y : decoder) : Prop :=
  let w := d_work y in
  N.even (dw_sb w) = true /\
  (forall p s, mget (dw_mem w) p = Some s -> length s = N.to_nat (lanes_of (dw_sb w))).

Lemma dec_make_cfg c e K R sb w y a : dec_make c e K R sb w = inl (y, a) -> dec_cfg y.
Proof.
  unfold dec_make, validateb. destruct (supportsb c K R); cbn [negb]; [|discriminate].
  destruct (bad_size sb) eqn:Eb; [discriminate|]. cbv zeta. unfold decwork_reset. cbv zeta. intros [= <- _]. unfold dec_cfg. cbn. split.
  - unfold bad_size in Eb. apply orb_false_iff in Eb. destruct Eb as [_ Eo]. rewrite <- N.negb_odd, Eo. reflexivity.
  - intros p s. unfold mget, mempty. rewrite PositiveMap.gempty. discriminate.
Qed.
Lemma dec_add_cfg y a y' : dec_cfg y -> dec_add y a = inl y' -> dec_cfg y'.
Proof.
  intros [He Hm] H. destruct (add_guard (d_work y) a) eqn:G.
  - destruct (dec_add_spec y a) as [S _]. rewrite (S G) in H. inversion H; subst y'. clear H S.
    assert (Hlen : blen (match a with AddO _ s | AddR _ s => s end) = dw_sb (d_work y)).
    { destruct a; cbn in G; apply andb_prop in G; destruct G as [_ G]; apply N.eqb_eq in G; exact G. }
    unfold dec_cfg. destruct a as [i s|i s]; cbn in *; (split; [exact He|]); intros p t; rewrite mget_mset;
      (destruct (p =? _); [intros [= <-]; apply lanes_of_len; assumption|apply Hm]).
  - destruct (dec_add_spec y a) as [_ S]. destruct (S G) as [e He']. rewrite He' in H. discriminate.
Qed.
Lemma dec_after_round_cfg y : dec_cfg y -> dec_cfg (dec_after_round y).
Proof.
  intros [He Hm]. unfold dec_cfg. cbn. split; [exact He|]. intros p s. unfold mget, mempty. rewrite PositiveMap.gempty. discriminate.
Qed.

Section Shape.
Variable junk : N -> N -> N -> N.

Lemma decode_work_lanes ep y : dec_cfg y ->
  Forall (fun s => length s = N.to_nat (lanes_of (dw_sb (d_work y)))) (decode_work junk ep y).
Proof.
  intros [He Hm]. unfold decode_work. set (w := d_work y) in *. set (lanes := lanes_of (dw_sb w)).
  set (work := work_list junk ep (dw_mem w) (dw_wc w) lanes).
  assert (Fw : Forall (fun s => length s = N.to_nat lanes) work).
  { unfold work, work_list. apply Forall_forall. intros s Hs. apply in_map_iff in Hs. destruct Hs as (p & <- & _).
    destruct (mget (dw_mem w) p) eqn:Em; [apply (Hm p _ Em)|].
    unfold junk_shard, range. rewrite map_length, N.sub_0_r. clear. generalize 0. induction (N.to_nat lanes); intros; cbn; auto. }
  destruct (d_rate y).
  - eapply Rl_out. apply (RL_decode_high _ _ (Rl (N.to_nat lanes)) (Rl_xor _) (Rl_mul _) (Rl_zero _)). apply Rl_refl, Fw.
  - eapply Rl_out. apply (RL_decode_low _ _ (Rl (N.to_nat lanes)) (Rl_xor _) (Rl_mul _) (Rl_zero _)). apply Rl_refl, Fw.
Qed.

Theorem dec_decode_shape ep y probes y' it pr : dec_cfg y ->
  dec_decode junk ep y probes = (y', RDec it pr) ->
  Forall (fun ib => blen (snd ib) = dw_sb (d_work y)) it /\
  (forall i b, In (i, Some b) pr -> blen b = dw_sb (d_work y)) /\ dec_cfg y'.
Proof.
  intros Hc. pose proof (decode_work_lanes ep y Hc) as FL. destruct Hc as [He Hm].
  unfold dec_decode. destruct (_ <? _); [discriminate|]. destruct (_ =? _).
  - intros [= <- <- <-]. split; [constructor|]. split; [|apply dec_after_round_cfg; split; assumption].
    intros i b Hin. apply in_map_iff in Hin. destruct Hin as (k & Hk & _). discriminate.
  - intros [= <- <- <-].
    assert (Hb : forall i b, (if (i <? dw_K (d_work y)) && negb (pmem (dw_received (d_work y)) (dw_obase (d_work y) + i))
                             then option_map bytes_of_syms (nth_error (decode_work junk ep y) (N.to_nat (dw_obase (d_work y) + i))) else None) = Some b ->
                            blen b = dw_sb (d_work y)).
    { intros i b H. destruct (_ && _); [|discriminate]. destruct (nth_error _ _) as [s|] eqn:En; [|discriminate]. cbn [option_map] in H. injection H as <-.
      rewrite Forall_forall in FL. pose proof (FL s (nth_error_In _ _ En)) as Ls.
      unfold blen. rewrite bytes_of_syms_len, Ls. unfold lanes_of.
      rewrite <- N.negb_odd in He. apply negb_true_iff in He.
      pose proof (N.div_mod (dw_sb (d_work y)) 2 ltac:(lia)) as Dm.
      assert (dw_sb (d_work y) mod 2 = 0) by (rewrite <- N.bit0_mod, N.bit0_odd, He; reflexivity).
      rewrite Nat2N.inj_mul, N2Nat.id. change (N.of_nat 2) with 2. lia. }
    split; [|split; [|apply dec_after_round_cfg; split; assumption]].
    + apply Forall_forall. intros [i b] Hin. apply in_flat_map in Hin. destruct Hin as (k & _ & Hk).
      match type of Hk with In _ (match ?r with _ => _ end) => destruct r as [b'|] eqn:Er end; [|destruct Hk].
      destruct Hk as [[= <- <-]|[]]. cbn [snd]. apply (Hb k b' Er).
    + intros i b Hin. apply in_map_iff in Hin. destruct Hin as (k & Hk & _). inversion Hk; subst k. apply (Hb i b). assumption.
Qed.
End Shape.
