(* Driver for the extracted Coq model (model.ml). Parses case files as specified
   in /verif/PROTOCOL.md, calls the extracted functions, prints canonical result
   lines. No codec logic lives here: only parsing, payload expansion, reference
   resolution (@o / @r) and printing. *)
open Model

(* ---------- conversions ---------- *)
let rec pos_of_int i =
  if i = 1 then XH else if i land 1 = 1 then XI (pos_of_int (i lsr 1)) else XO (pos_of_int (i lsr 1))
let n_of_int i = if i = 0 then N0 else Npos (pos_of_int i)
let rec int_of_pos = function XH -> 1 | XO p -> 2 * int_of_pos p | XI p -> 2 * int_of_pos p + 1
let int_of_n = function N0 -> 0 | Npos p -> int_of_pos p
let byte_tab = Array.init 65536 n_of_int
let nb i = byte_tab.(i)
let n10 = n_of_int 10

(* decimal string -> N (any size) *)
let n_of_string s =
  if String.length s <= 17 then n_of_int (int_of_string s)
  else begin
    let acc = ref N0 in
    String.iter (fun c ->
      let d = Char.code c - 48 in
      if d < 0 || d > 9 then failwith ("bad number " ^ s);
      acc := N.add (N.mul !acc n10) (n_of_int d)) s;
    !acc
  end
let rec bits_of_pos = function XH -> 1 | XO p | XI p -> 1 + bits_of_pos p
let string_of_n = function
  | N0 -> "0"
  | Npos p as x ->
    if bits_of_pos p <= 61 then string_of_int (int_of_pos p)
    else begin
      let buf = Buffer.create 24 in
      let rec go x acc =
        match x with
        | N0 -> acc
        | _ -> let (q, r) = N.div_eucl x n10 in go q (string_of_int (int_of_n r) :: acc)
      in
      List.iter (Buffer.add_string buf) (go x []); Buffer.contents buf
    end

(* ---------- payloads ---------- *)
let hexval c =
  match c with
  | '0'..'9' -> Char.code c - 48
  | 'a'..'f' -> Char.code c - 87
  | _ -> failwith "bad hex"
let bytes_of_hex s : n list =
  let l = String.length s in
  if l land 1 = 1 then failwith "odd hex";
  let rec go i acc = if i < 0 then acc else go (i - 2) (nb ((hexval s.[i] lsl 4) lor hexval s.[i + 1]) :: acc) in
  go (l - 2) []
let hexdigits = "0123456789abcdef"
let hex_of_bytes (b : n list) : string =
  match b with
  | [] -> "-"
  | _ ->
    let buf = Buffer.create 256 in
    List.iter (fun x -> let v = int_of_n x in
                Buffer.add_char buf hexdigits.[(v lsr 4) land 15]; Buffer.add_char buf hexdigits.[v land 15]) b;
    Buffer.contents buf

(* splitmix64 *)
let prng_bytes (seed : int64) (len : int) : n list =
  let state = ref seed in
  let out = Bytes.create (len + 8) in
  let i = ref 0 in
  while !i < len do
    state := Int64.add !state 0x9E3779B97F4A7C15L;
    let z = !state in
    let z = Int64.mul (Int64.logxor z (Int64.shift_right_logical z 30)) 0xBF58476D1CE4E5B9L in
    let z = Int64.mul (Int64.logxor z (Int64.shift_right_logical z 27)) 0x94D049BB133111EBL in
    let z = Int64.logxor z (Int64.shift_right_logical z 31) in
    Bytes.set_int64_le out !i z;
    i := !i + 8
  done;
  let rec go k acc = if k < 0 then acc else go (k - 1) (nb (Char.code (Bytes.get out k)) :: acc) in
  go (len - 1) []

let uint64_of_string s = Scanf.sscanf s "%Lu" (fun x -> x)

type ctx = { mutable origs : (int, n list) Hashtbl.t; (* payloads handed to E.add this round, by position *)
             mutable norigs : int;
             mutable recs : n list array }
let new_ctx () = { origs = Hashtbl.create 64; norigs = 0; recs = [||] }

let payload ctx (tok : string) : n list =
  if tok = "-" then []
  else match tok.[0] with
    | '#' ->
      let body = String.sub tok 1 (String.length tok - 1) in
      (match String.index_opt body ':' with
       | Some k -> prng_bytes (uint64_of_string (String.sub body 0 k))
                     (int_of_string (String.sub body (k + 1) (String.length body - k - 1)))
       | None -> failwith "bad # payload")
    | '@' ->
      let idx = int_of_string (String.sub tok 2 (String.length tok - 2)) in
      if tok.[1] = 'o' then (match Hashtbl.find_opt ctx.origs idx with Some b -> b | None -> [])
      else if idx < Array.length ctx.recs then ctx.recs.(idx) else []
    | _ -> bytes_of_hex tok

let split_list s = if s = "-" then [] else String.split_on_char ',' s
let idx_payload ctx item =
  match String.index_opt item ':' with
  | Some k -> (n_of_string (String.sub item 0 k), payload ctx (String.sub item (k + 1) (String.length item - k - 1)))
  | None -> failwith "bad idx:payload"

(* ---------- printing ---------- *)
let str_error = function
  | DifferentShardSize (a, b) -> Printf.sprintf "DifferentShardSize %s %s" (string_of_n a) (string_of_n b)
  | DuplicateOriginalShardIndex a -> "DuplicateOriginalShardIndex " ^ string_of_n a
  | DuplicateRecoveryShardIndex a -> "DuplicateRecoveryShardIndex " ^ string_of_n a
  | InvalidOriginalShardIndex (a, b) -> Printf.sprintf "InvalidOriginalShardIndex %s %s" (string_of_n a) (string_of_n b)
  | InvalidRecoveryShardIndex (a, b) -> Printf.sprintf "InvalidRecoveryShardIndex %s %s" (string_of_n a) (string_of_n b)
  | InvalidShardSize a -> "InvalidShardSize " ^ string_of_n a
  | NotEnoughShards (a, b, c) -> Printf.sprintf "NotEnoughShards %s %s %s" (string_of_n a) (string_of_n b) (string_of_n c)
  | TooFewOriginalShards (a, b) -> Printf.sprintf "TooFewOriginalShards %s %s" (string_of_n a) (string_of_n b)
  | TooManyOriginalShards a -> "TooManyOriginalShards " ^ string_of_n a
  | UnsupportedShardCount (a, b) -> Printf.sprintf "UnsupportedShardCount %s %s" (string_of_n a) (string_of_n b)

let str_list f l = match l with [] -> "-" | _ -> String.concat "," (List.map f l)
let str_probe (i, o) = string_of_n i ^ "=" ^ (match o with Some b -> hex_of_bytes b | None -> "none")
let str_result = function
  | ROkUnit -> "ok"
  | RError e -> "err " ^ str_error e
  | RPanic -> "panic"
  | RNoObj -> "noobj"
  | RBool b -> if b then "ok true" else "ok false"
  | REnc (it, probes) ->
    Printf.sprintf "ok it=%s x=NNN p=%s" (str_list hex_of_bytes it) (str_list str_probe probes)
  | RDec (it, probes) ->
    Printf.sprintf "ok it=%s x=NNN p=%s"
      (str_list (fun (i, b) -> string_of_n i ^ ":" ^ hex_of_bytes b) it) (str_list str_probe probes)
  | RShards l -> "ok " ^ str_list hex_of_bytes l
  | RMap l -> "ok " ^ str_list (fun (i, b) -> string_of_n i ^ ":" ^ hex_of_bytes b) l

(* ---------- parsing ops ---------- *)
let codec_of = function
  | "rs" -> CRs | "def" -> CDef | "high" -> CHigh | "low" -> CLow | s -> failwith ("codec " ^ s)
let engine_of = function
  | "naive" -> Naive | "nosimd" -> NoSimd | "ssse3" -> Ssse3 | "avx2" -> Avx2
  | "default" -> DefaultE | "neon" -> Neon | s -> failwith ("engine " ^ s)

(* stale working memory: any function will do; non-zero on purpose *)
let junk ep p lane =
  nb (((int_of_n ep) * 7919 + (int_of_n p) * 31 + (int_of_n lane) * 17 + 1) land 65535)

let rec split_n k l = if k = 0 then ([], l) else match l with [] -> ([], []) | x :: r -> let (a, b) = split_n (k - 1) r in (x :: a, b)
let rec chunk k l = match l with [] -> [] | _ -> let (a, b) = split_n k l in a :: chunk k b

(* buffer of shard_count*len64*64 bytes -> list of shards, each a list of 32*len64 lane symbols *)
let shards_of_buffer len64 (buf : n list) : n list list =
  List.map (fun shard -> List.concat_map group_syms (chunk 64 shard)) (chunk (len64 * 64) buf)
let buffer_of_shards (sh : n list list) : n list =
  List.concat_map (fun shard -> List.concat_map group_bytes (chunk 32 shard)) sh

let prim toks : string =
  match toks with
  | [("P.fft" | "P.ifft") as which; eng; sc; l64; pos; size; trunc; sd; pl] ->
    let e = engine_of eng in
    let len64 = int_of_string l64 and pos = int_of_string pos and sizei = int_of_string size in
    let _ = sc in
    let buf = payload (new_ctx ()) pl in
    let shards = shards_of_buffer len64 buf in
    let (pre, rest) = split_n pos shards in
    let (mid, post) = split_n sizei rest in
    let rec nat_of_int i = if i = 0 then O else S (nat_of_int (i - 1)) in
    let ops = shard_ops (nat_of_int (32 * len64)) in
    let f = if which = "P.fft" then fft else ifft in
    let mid' = f ops e (n_of_int sizei) (n_of_string trunc) (n_of_string sd) mid in
    "ok " ^ hex_of_bytes (buffer_of_shards (pre @ mid' @ post))
  | ["P.mul"; eng; log_m; pl] ->
    let e = engine_of eng in
    let buf = payload (new_ctx ()) pl in
    let m = n_of_string log_m in
    "ok " ^ hex_of_bytes (List.concat_map (mul_block e m) (chunk 64 buf))
  | ["P.evalpoly"; _eng; trunc; sparse] ->
    let arr = Array.make 65536 N0 in
    List.iter (fun item ->
        match String.index_opt item ':' with
        | None -> failwith "sparse"
        | Some k ->
          let v = n_of_string (String.sub item (k + 1) (String.length item - k - 1)) in
          let rng = String.sub item 0 k in
          let (a, b) = match String.index_opt rng '-' with
            | Some d -> (int_of_string (String.sub rng 0 d), int_of_string (String.sub rng (d + 1) (String.length rng - d - 1)))
            | None -> let a = int_of_string rng in (a, a) in
          for i = a to b do arr.(i) <- v done) (split_list sparse);
    let r = eval_poly (Array.to_list arr) (n_of_string trunc) in
    let buf = Buffer.create 262144 in
    List.iter (fun v -> Buffer.add_string buf (Printf.sprintf "%04x" (int_of_n v))) r;
    "ok " ^ Buffer.contents buf
  | _ -> "badcase prim"

let parse_op ctx toks : op option =
  let n = n_of_string in
  match toks with
  | ["E.new"; c; e; k; r; sb] -> Some (ENew (codec_of c, engine_of e, n k, n r, n sb))
  | ["E.neww"; c; e; k; r; sb] -> Some (ENewW (codec_of c, engine_of e, n k, n r, n sb))
  | ["E.parts"] -> Some EParts
  | ["E.reset"; k; r; sb] -> Some (EReset (n k, n r, n sb))
  | ["E.add"; pl] -> let b = payload ctx pl in Hashtbl.replace ctx.origs ctx.norigs b; ctx.norigs <- ctx.norigs + 1; Some (EAdd b)
  | ["E.encode"; probes] -> Some (EEncode (List.map n (split_list probes)))
  | ["D.new"; c; e; k; r; sb] -> Some (DNew (codec_of c, engine_of e, n k, n r, n sb))
  | ["D.neww"; c; e; k; r; sb] -> Some (DNewW (codec_of c, engine_of e, n k, n r, n sb))
  | ["D.parts"] -> Some DParts
  | ["D.reset"; k; r; sb] -> Some (DReset (n k, n r, n sb))
  | ["D.addo"; i; pl] -> Some (DAddO (n i, payload ctx pl))
  | ["D.addr"; i; pl] -> Some (DAddR (n i, payload ctx pl))
  | ["D.decode"; probes] -> Some (DDecode (List.map n (split_list probes)))
  | ["supports"; c; k; r] -> Some (Supports (codec_of c, n k, n r))
  | ["validate"; c; k; r; sb] -> Some (Validate (codec_of c, n k, n r, n sb))
  | ["oneenc"; k; r; pls] -> Some (OneEnc (n k, n r, List.map (payload ctx) (split_list pls)))
  | ["onedec"; k; r; os; rs] ->
    Some (OneDec (n k, n r, List.map (idx_payload ctx) (split_list os), List.map (idx_payload ctx) (split_list rs)))
  | _ -> None

let split_ops (line : string) : string * string list list =
  let toks = List.filter (fun s -> s <> "") (String.split_on_char ' ' line) in
  match toks with
  | [] -> ("", [])
  | id :: rest ->
    let rec go cur acc = function
      | [] -> List.rev (List.rev cur :: acc)
      | ";" :: r -> go [] (List.rev cur :: acc) r
      | t :: r -> go (t :: cur) acc r in
    (id, go [] [] rest)

let adm_mode = ref false
let run_case alloc oc (line : string) =
  let (id, ops) = split_ops line in
  let ctx = (new_ctx ()) in
  let st = ref init in
  List.iteri (fun i toks ->
      let res =
        match toks with
        | t :: _ when String.length t > 2 && String.sub t 0 2 = "P." -> (try prim toks with Failure m -> "badcase " ^ m)
        | "rs16" :: _ -> "skip"
        | _ ->
          (match (try parse_op ctx toks with Failure _ | Invalid_argument _ -> None) with
           | None -> "badcase"
           | Some o ->
             let adm = if !adm_mode then admissible !st o else [] in
             let (st', r) = step junk !st o in
             (* glue: reference lists *)
             (match o, r with
              | (ENew _ | ENewW _ | EReset _), ROkUnit -> Hashtbl.reset ctx.origs; ctx.norigs <- 0
              | EEncode _, REnc (it, _) -> ctx.recs <- Array.of_list it
              | _ -> ());
             st := st';
             let s = str_result r in
             let s = if !adm_mode then s ^ " | adm=" ^ (match adm with [] -> "-" | _ -> String.concat ";" (List.map str_error adm)) else s in
             if alloc then
               (match o with
                | Supports _ | Validate _ | OneEnc _ | OneDec _ -> s
                | _ -> s ^ (if st'.s_alloc then " A=1" else " A=0"))
             else s) in
      Printf.fprintf oc "%s %d %s\n" id i res) ops

let run_file alloc infile outfile =
  let ic = open_in infile and oc = open_out outfile in
  (try
     while true do
       let line = input_line ic in
       if String.length line > 0 && line.[0] <> '#' then run_case alloc oc line
     done
   with End_of_file -> ());
  close_in ic; close_out oc

(* ---------- tables ---------- *)
let dump_u16 path (f : int -> int) count =
  let oc = open_out_bin path in
  for i = 0 to count - 1 do let v = f i in output_byte oc (v land 255); output_byte oc (v lsr 8) done;
  close_out oc
let tables dir full =
  dump_u16 (Filename.concat dir "exp.bin") (fun i -> int_of_n (tget exp_tbl (nb i))) 65536;
  dump_u16 (Filename.concat dir "log.bin") (fun i -> int_of_n (tget log_tbl (nb i))) 65536;
  dump_u16 (Filename.concat dir "walsh.bin") (fun i -> int_of_n (tget log_walsh_tbl (nb i))) 65536;
  dump_u16 (Filename.concat dir "skew.bin") (fun i -> int_of_n (tget skew_tbl (nb i))) 65535;
  if full then begin
    (* mul16[log_m][k][i], mul128[log_m] = lo[0..4] hi[0..4] *)
    let oc16 = open_out_bin (Filename.concat dir "mul16.bin") in
    let oc128 = open_out_bin (Filename.concat dir "mul128.bin") in
    for m = 0 to 65535 do
      let nm = nb m in
      let rows = Array.init 4 (fun k -> Array.init 16 (fun i -> int_of_n (mul16 nm (nb k) (nb i)))) in
      Array.iter (fun row -> Array.iter (fun v -> output_byte oc16 (v land 255); output_byte oc16 (v lsr 8)) row) rows;
      Array.iter (fun row -> Array.iter (fun v -> output_byte oc128 (v land 255)) row) rows;
      Array.iter (fun row -> Array.iter (fun v -> output_byte oc128 (v lsr 8)) row) rows
    done;
    close_out oc16; close_out oc128
  end

(* rows of mul16/mul128 for selected log_m through the Kernels definitions (vector form) *)
let table_rows infile outfile =
  let ic = open_in infile and oc = open_out outfile in
  (try while true do
       let m = int_of_string (String.trim (input_line ic)) in
       let nm = nb m in
       let lo = List.concat_map (fun k -> mul128_lo nm (nb k)) [0;1;2;3] in
       let hi = List.concat_map (fun k -> mul128_hi nm (nb k)) [0;1;2;3] in
       let m16 = List.concat_map (fun k -> List.map (fun i -> mul16 nm (nb k) (nb i)) (List.init 16 (fun i -> i))) [0;1;2;3] in
       Printf.fprintf oc "%d %s %s %s\n" m
         (String.concat "" (List.map (fun v -> Printf.sprintf "%04x" (int_of_n v)) m16))
         (hex_of_bytes lo) (hex_of_bytes hi)
     done with End_of_file -> ());
  close_in ic; close_out oc

(* ---------- oracles (specifications, no transforms) ---------- *)
let oracle infile outfile =
  let ic = open_in infile and oc = open_out outfile in
  let ctx = (new_ctx ()) in
  (try while true do
       let line = input_line ic in
       let toks = List.filter (fun s -> s <> "") (String.split_on_char ' ' line) in
       (match toks with
        | [id; "cauchy"; rate; k; r; js; pls] ->
          (* closed-form recovery shards j (comma list) from originals *)
          let k = n_of_string k and r = n_of_string r in
          let origs = List.map (fun p -> syms_of_bytes (payload ctx p)) (split_list pls) in
          let nslots = match origs with [] -> 0 | o :: _ -> List.length o in
          let column s = List.map (fun o -> List.nth o s) origs in
          let cols = List.init nslots column in
          let rowf = if rate = "high" then cauchy_high_row else cauchy_low_row in
          let outs = List.map (fun j ->
              let row = rowf k r (n_of_string j) in
              hex_of_bytes (bytes_of_syms (List.map (fun col -> row_apply row col) cols))) (split_list js) in
          Printf.fprintf oc "%s %s\n" id (String.concat "," outs)
        | [id; "lch"; sd; is; coeffs] ->
          (* value at point sd+i of the polynomial with LCH coefficients (u16 list) *)
          let c = List.map n_of_string (split_list coeffs) in
          let sd = int_of_string sd in
          let outs = List.map (fun i -> string_of_n (lch_eval c (nb (sd + int_of_string i)))) (split_list is) in
          Printf.fprintf oc "%s %s\n" id (String.concat "," outs)
        | [id; "locator"; xs; marked] ->
          let mk = List.concat_map (fun item ->
              match String.index_opt item '-' with
              | Some d -> let a = int_of_string (String.sub item 0 d)
                and b = int_of_string (String.sub item (d + 1) (String.length item - d - 1)) in
                List.init (b - a + 1) (fun i -> nb (a + i))
              | None -> [nb (int_of_string item)]) (split_list marked) in
          let outs = List.map (fun x -> string_of_n (locator_log mk (n_of_string x))) (split_list xs) in
          Printf.fprintf oc "%s %s\n" id (String.concat "," outs)
        | [id; "rmax"; a; b] ->
          let a = int_of_string a and b = int_of_string b in
          for k = a to b do Printf.fprintf oc "%s %d %s\n" id k (string_of_n (rmax (n_of_int k))) done
        | [id; "envelope"; k; r] ->
          Printf.fprintf oc "%s %b\n" id (envelopeb (n_of_string k) (n_of_string r))
        | [] -> ()
        | id :: _ -> Printf.fprintf oc "%s badcase\n" id)
     done with End_of_file -> ());
  close_in ic; close_out oc

let () =
  match Array.to_list Sys.argv with
  | _ :: "run" :: infile :: outfile :: rest -> adm_mode := List.mem "--adm" rest; run_file (List.mem "--alloc" rest) infile outfile
  | [_; "tables"; dir] -> tables dir false
  | [_; "tables"; dir; "--full"] -> tables dir true
  | [_; "rows"; infile; outfile] -> table_rows infile outfile
  | [_; "oracle"; infile; outfile] -> oracle infile outfile
  | _ -> prerr_endline "usage: driver run|tables|rows|oracle ..."; exit 2
