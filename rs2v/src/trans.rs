//! Translation of small pure Rust functions into Gallina over the Prelude
//! vocabulary (`res` monad, checked fixed-width arithmetic).
//!
//! Every operation that can panic in a debug build goes through a checked
//! Prelude operation, in Rust's left-to-right evaluation order; `&&`/`||`
//! become `and_then`/`or_else`; anything outside the subset is an error.

use std::collections::HashMap;

use syn::{BinOp, Block, Expr, FnArg, Lit, Pat, ReturnType, Signature, Stmt, Type, UnOp};

use crate::scan::expr_attrs;
use crate::util::*;

// ----------------------------------------------------------------------
// types

#[derive(Clone, Debug, PartialEq)]
pub enum Ty {
    /// unsigned integer of the given bit width (usize = 64)
    U(u32),
    /// unsuffixed integer literal whose type is not fixed yet
    Lit,
    Bool,
    Unit,
    Tuple(Vec<Ty>),
    /// Result<T, Error>
    Res(Box<Ty>),
    /// array / slice of unsigned integers, modelled as `list N`
    Arr(Box<Ty>),
    /// the crate's Error enum
    Error,
}

impl Ty {
    pub fn coq(&self) -> String {
        match self {
            Ty::U(_) | Ty::Lit => "N".into(),
            Ty::Bool => "bool".into(),
            Ty::Unit => "unit".into(),
            Ty::Tuple(ts) => format!(
                "({})",
                ts.iter().map(|t| t.coq()).collect::<Vec<_>>().join(" * ")
            ),
            Ty::Res(t) => format!("rres {}", paren(&t.coq())),
            Ty::Arr(_) => "list N".into(),
            Ty::Error => "error".into(),
        }
    }
}

fn width_name(w: u32) -> &'static str {
    match w {
        64 => "W_usize",
        32 => "W_u32",
        16 => "W_u16",
        8 => "W_u8",
        _ => unreachable!(),
    }
}

fn uint_width(name: &str) -> Option<u32> {
    match name {
        "usize" => Some(64),
        "u32" => Some(32),
        "u16" => Some(16),
        "u8" => Some(8),
        _ => None,
    }
}

/// Wraps a term in parentheses unless it is a single token or already
/// enclosed by one matching pair.
pub fn paren(s: &str) -> String {
    let t = s.trim();
    if !t.contains(char::is_whitespace) {
        return t.to_string();
    }
    if t.starts_with('(') && t.ends_with(')') {
        let mut depth = 0i32;
        let mut closes_at_end = true;
        for (i, c) in t.char_indices() {
            match c {
                '(' => depth += 1,
                ')' => {
                    depth -= 1;
                    if depth == 0 && i + 1 != t.len() {
                        closes_at_end = false;
                        break;
                    }
                }
                _ => {}
            }
        }
        if closes_at_end {
            return t.to_string();
        }
    }
    format!("({})", t)
}

/// Does the term contain `;;` outside of all parentheses?
fn has_top_level_seq(s: &str) -> bool {
    let b = s.as_bytes();
    let mut depth = 0i32;
    for i in 0..b.len() {
        match b[i] {
            b'(' => depth += 1,
            b')' => depth -= 1,
            b';' if depth == 0 && i + 1 < b.len() && b[i + 1] == b';' => return true,
            _ => {}
        }
    }
    false
}

fn one_line(s: &str) -> String {
    s.split_whitespace().collect::<Vec<_>>().join(" ")
}

// ----------------------------------------------------------------------
// signatures and call resolution

#[derive(Clone, Debug)]
pub struct FnSig {
    pub coq: String,
    pub params: Vec<Ty>,
    pub ret: Ty,
}

/// A callee the function under translation may call.
#[derive(Clone, Debug)]
pub struct Callee {
    /// path as written in the source, e.g. ["utils", "add_mod"]
    pub path: Vec<String>,
    /// if set, the first path segment must be imported as exactly this path
    pub first_seg_is: Option<Vec<String>>,
    pub sig: FnSig,
}

/// Everything the translator knows about the crate outside the function.
pub struct World<'a> {
    pub cr: &'a Crate,
    /// Error variant -> field names in the order of the Coq constructor
    pub error_ctors: HashMap<String, Vec<String>>,
    /// constants exported by GenConsts: name -> type
    pub consts: HashMap<String, Ty>,
}

pub struct FnJob<'a> {
    pub file: &'a SrcFile,
    /// name used in messages, e.g. "HighRate::supports"
    pub label: String,
    pub coq_name: String,
    pub sig: &'a Signature,
    pub block: &'a Block,
    pub callees: Vec<Callee>,
    /// extra leading Coq binders, e.g. "(supports : N -> N -> res bool)"
    pub extra_binders: Vec<String>,
    /// allow `HighRate::supports(..)`-style calls to resolve to these Coq names
    pub rate_supports: Option<HashMap<String, FnSig>>,
}

pub struct Emitted {
    pub text: String,
    pub sig: FnSig,
}

// ----------------------------------------------------------------------
// sequencing

enum Item {
    Bind(String, String),
    Let(String, String),
    Guard(String),
    /// `x` bound to the Ok payload of the pure term `r`; Err returns early
    Try(String, String),
}

struct Seq {
    items: Vec<Item>,
    /// true when an early return from here is an early return of the function
    fn_level: bool,
}

impl Seq {
    fn new(fn_level: bool) -> Self {
        Seq {
            items: Vec::new(),
            fn_level,
        }
    }

    fn render(self, fin: String) -> String {
        let mut out = fin;
        for it in self.items.into_iter().rev() {
            out = match it {
                Item::Bind(x, c) => {
                    // the bound term sits at level 60: if/let/sequences need parentheses
                    let t = c.trim_start();
                    let c = if t.starts_with("if ")
                        || t.starts_with("let ")
                        || t.starts_with("match ")
                        || has_top_level_seq(t)
                    {
                        format!("({})", c)
                    } else {
                        c
                    };
                    format!("{} <- {} ;;\n{}", x, c, out)
                }
                Item::Let(x, t) => format!("let {} := {} in\n{}", x, t, out),
                Item::Guard(c) => format!("guard {} (\n{})", paren(&c), out),
                Item::Try(x, r) => format!(
                    "match {} with\n| RErr err_ => Val (RErr err_)\n| ROk {} =>\n{}\nend",
                    r, x, out
                ),
            };
        }
        out
    }
}

enum Code {
    /// pure Gallina term of the value's type
    Pure(String),
    /// Gallina term of type `res T`
    Comp(String),
}

const RESERVED: &[&str] = &[
    // Coq keywords
    "as", "at", "cofix", "else", "end", "exists", "exists2", "fix", "for", "forall", "fun", "if",
    "IF", "in", "let", "match", "mod", "return", "Set", "Prop", "SProp", "Type", "then", "using",
    "where", "with", "_",
    // Prelude / stdlib vocabulary used by the output
    "res", "Val", "Overflow", "bind", "ret", "error", "rres", "ROk", "RErr", "ordering", "OLess",
    "OEqual", "OGreater", "ncmp", "W_usize", "W_u32", "W_u16", "W_u8", "fits", "uadd", "usub",
    "umul", "udiv", "urem", "ushl", "ushr", "wadd", "wsub", "cast", "npow2", "next_power_of_two",
    "next_multiple_of", "and_then", "or_else", "guard", "aget", "negb", "true", "false", "tt",
    "unit", "bool", "list", "N", "nat", "err_", "andb", "orb",
];

struct Tr<'a, 'w> {
    w: &'w World<'a>,
    job: &'w FnJob<'a>,
    ret: Ty,
    locals: Vec<Vec<(String, Ty)>>,
    tcount: usize,
    ccount: usize,
}

type TR<T> = R<T>;

impl<'a, 'w> Tr<'a, 'w> {
    fn un<T>(&self, what: impl AsRef<str>) -> TR<T> {
        unsupported(what, &self.job.file.rel, &self.job.label)
    }

    fn fresh_t(&mut self) -> String {
        let s = format!("t{}", self.tcount);
        self.tcount += 1;
        s
    }

    fn fresh_c(&mut self) -> String {
        let s = format!("c{}", self.ccount);
        self.ccount += 1;
        s
    }

    fn check_name(&self, name: &str) -> TR<()> {
        let generated = {
            let b = name.as_bytes();
            b.len() >= 2
                && (b[0] == b't' || b[0] == b'c')
                && b[1..].iter().all(|c| c.is_ascii_digit())
        };
        if generated
            || RESERVED.contains(&name)
            || self.w.consts.contains_key(name)
            || self.job.callees.iter().any(|c| c.sig.coq == name)
            || name == self.job.coq_name
            || !name.chars().all(|c| c.is_ascii_alphanumeric() || c == '_')
        {
            return self.un(format!("identifier `{}` clashes with a reserved/generated name", name));
        }
        Ok(())
    }

    fn lookup_local(&self, name: &str) -> Option<Ty> {
        for scope in self.locals.iter().rev() {
            for (n, t) in scope.iter().rev() {
                if n == name {
                    return Some(t.clone());
                }
            }
        }
        None
    }

    fn bind_local(&mut self, name: &str, ty: Ty) {
        self.locals.last_mut().unwrap().push((name.to_string(), ty));
    }

    // ------------------------------------------------------------------
    // name resolution

    /// Full path a plain name refers to in the current file: a local
    /// top-level item, or an explicit import.
    fn resolve_name(&self, name: &str) -> Option<Vec<String>> {
        let file = self.job.file;
        if file
            .ast
            .items
            .iter()
            .any(|it| item_name(it).as_deref() == Some(name))
        {
            let mut full = vec!["crate".to_string()];
            let stem = file.rel.trim_end_matches(".rs");
            if stem != "lib" {
                for s in stem.split('/') {
                    if s != "mod" {
                        full.push(s.to_string());
                    }
                }
            }
            full.push(name.to_string());
            return Some(full);
        }
        file.uses.get(name).cloned()
    }

    fn is_crate_error(&self, name: &str) -> bool {
        self.resolve_name(name) == Some(vec!["crate".into(), "Error".into()])
    }

    fn is_std_ordering(&self, path: &[String]) -> bool {
        match path {
            [o] => {
                self.resolve_name(o)
                    == Some(vec!["std".into(), "cmp".into(), "Ordering".into()])
                    || self.resolve_name(o)
                        == Some(vec!["core".into(), "cmp".into(), "Ordering".into()])
            }
            [a, b, c] => (a == "std" || a == "core") && b == "cmp" && c == "Ordering",
            [b, c] => {
                b == "cmp"
                    && c == "Ordering"
                    && self.resolve_name("cmp") == Some(vec!["std".into(), "cmp".into()])
            }
            _ => false,
        }
    }

    /// Is `path` the function std::cmp::min / std::cmp::max?
    fn std_min_max(&self, path: &[String]) -> Option<&'static str> {
        let last = path.last()?;
        let which = match last.as_str() {
            "min" => "N.min",
            "max" => "N.max",
            _ => return None,
        };
        let full: Vec<String> = match path.len() {
            3 => path.to_vec(),
            2 | 1 => {
                let mut f = self.resolve_name(&path[0])?;
                f.extend(path[1..].iter().cloned());
                f
            }
            _ => return None,
        };
        if full.len() == 3 && (full[0] == "std" || full[0] == "core") && full[1] == "cmp" {
            Some(which)
        } else {
            None
        }
    }

    // ------------------------------------------------------------------
    // types

    fn ty_of(&self, t: &Type) -> TR<Ty> {
        self.ty_of_in(t, self.job.file, 0)
    }

    fn ty_of_in(&self, t: &Type, file: &SrcFile, depth: usize) -> TR<Ty> {
        if depth > 8 {
            return self.un("type alias chain too deep");
        }
        match t {
            Type::Paren(p) => self.ty_of_in(&p.elem, file, depth),
            Type::Group(g) => self.ty_of_in(&g.elem, file, depth),
            Type::Reference(r) => {
                if r.mutability.is_some() {
                    return self.un("`&mut` type");
                }
                self.ty_of_in(&r.elem, file, depth)
            }
            Type::Tuple(tt) => {
                if tt.elems.is_empty() {
                    Ok(Ty::Unit)
                } else {
                    let mut v = Vec::new();
                    for e in &tt.elems {
                        v.push(self.ty_of_in(e, file, depth)?);
                    }
                    Ok(Ty::Tuple(v))
                }
            }
            Type::Array(a) => {
                let e = self.ty_of_in(&a.elem, file, depth)?;
                match e {
                    Ty::U(_) => Ok(Ty::Arr(Box::new(e))),
                    _ => self.un(format!("array type `{}`", tokens_text(t))),
                }
            }
            Type::Slice(a) => {
                let e = self.ty_of_in(&a.elem, file, depth)?;
                match e {
                    Ty::U(_) => Ok(Ty::Arr(Box::new(e))),
                    _ => self.un(format!("slice type `{}`", tokens_text(t))),
                }
            }
            Type::Path(tp) if tp.qself.is_none() => {
                let segs = &tp.path.segments;
                if segs.len() == 1 {
                    let seg = &segs[0];
                    let name = seg.ident.to_string();
                    if seg.arguments.is_empty() {
                        if let Some(w) = uint_width(&name) {
                            return Ok(Ty::U(w));
                        }
                        if name == "bool" {
                            return Ok(Ty::Bool);
                        }
                        // alias or Error
                        let full = self.resolve_in(file, &name);
                        if full == Some(vec!["crate".into(), "Error".into()]) {
                            return Ok(Ty::Error);
                        }
                        if let Some(full) = full {
                            if let Some((f2, syn::Item::Type(alias))) = self.w.cr.lookup_item(&full)
                            {
                                if alias.generics.params.is_empty() {
                                    return self.ty_of_in(&alias.ty, f2, depth + 1);
                                }
                            }
                        }
                        return self.un(format!("type `{}`", name));
                    }
                    if name == "Result" {
                        if let syn::PathArguments::AngleBracketed(ab) = &seg.arguments {
                            let args: Vec<_> = ab.args.iter().collect();
                            if let [syn::GenericArgument::Type(ok), syn::GenericArgument::Type(er)] =
                                args.as_slice()
                            {
                                let e = self.ty_of_in(er, file, depth)?;
                                if e != Ty::Error {
                                    return self.un("Result with an error type other than crate::Error");
                                }
                                let o = self.ty_of_in(ok, file, depth)?;
                                return Ok(Ty::Res(Box::new(o)));
                            }
                        }
                    }
                }
                self.un(format!("type `{}`", tokens_text(t)))
            }
            _ => self.un(format!("type `{}`", tokens_text(t))),
        }
    }

    fn resolve_in(&self, file: &SrcFile, name: &str) -> Option<Vec<String>> {
        if file
            .ast
            .items
            .iter()
            .any(|it| item_name(it).as_deref() == Some(name))
        {
            let mut full = vec!["crate".to_string()];
            let stem = file.rel.trim_end_matches(".rs");
            if stem != "lib" {
                for s in stem.split('/') {
                    if s != "mod" {
                        full.push(s.to_string());
                    }
                }
            }
            full.push(name.to_string());
            return Some(full);
        }
        file.uses.get(name).cloned()
    }

    /// Unifies two types (integer literals adapt to the other side).
    fn unify(&self, a: &Ty, b: &Ty, what: &str) -> TR<Ty> {
        match (a, b) {
            (Ty::Lit, Ty::Lit) => Ok(Ty::Lit),
            (Ty::Lit, Ty::U(w)) | (Ty::U(w), Ty::Lit) => Ok(Ty::U(*w)),
            (Ty::Res(x), Ty::Res(y)) => Ok(Ty::Res(Box::new(self.unify(x, y, what)?))),
            (Ty::Tuple(xs), Ty::Tuple(ys)) if xs.len() == ys.len() => {
                let mut v = Vec::new();
                for (x, y) in xs.iter().zip(ys) {
                    v.push(self.unify(x, y, what)?);
                }
                Ok(Ty::Tuple(v))
            }
            _ if a == b => Ok(a.clone()),
            _ => self.un(format!("type mismatch in {} ({:?} vs {:?})", what, a, b)),
        }
    }

    /// A literal used at width `w` must fit (rustc rejects it otherwise).
    fn check_lit_fits(&self, term: &str, ty_before: &Ty, w: u32) -> TR<()> {
        if *ty_before == Ty::Lit {
            if let Ok(v) = term.parse::<u128>() {
                if w < 128 && v >= (1u128 << w) {
                    return self.un(format!("literal {} out of range for a {}-bit type", v, w));
                }
            }
        }
        Ok(())
    }

    // ------------------------------------------------------------------
    // expressions

    fn check_expr_attrs(&self, attrs: &[syn::Attribute]) -> TR<()> {
        if has_cfg(attrs) {
            return self.un("#[cfg] on an expression");
        }
        Ok(())
    }

    fn atom(&mut self, e: &Expr, expect: Option<&Ty>, seq: &mut Seq) -> TR<(String, Ty)> {
        let (c, ty) = self.value(e, expect, seq)?;
        match c {
            Code::Pure(s) => Ok((s, ty)),
            Code::Comp(s) => {
                let t = self.fresh_t();
                seq.items.push(Item::Bind(t.clone(), one_line(&s)));
                Ok((t, ty))
            }
        }
    }

    /// `res T` term for an expression, evaluated in its own sequence.
    fn comp(&mut self, e: &Expr, expect: Option<&Ty>) -> TR<(String, Ty)> {
        // keep nested && / || chains as nested and_then / or_else
        let mut sub = Seq::new(false);
        let (c, ty) = self.value(e, expect, &mut sub)?;
        let fin = match c {
            Code::Pure(s) => format!("Val {}", paren(&s)),
            Code::Comp(s) => s,
        };
        Ok((one_line(&sub.render(fin)), ty))
    }

    fn int_ty(&self, t: &Ty, what: &str) -> TR<()> {
        match t {
            Ty::U(_) | Ty::Lit => Ok(()),
            _ => self.un(format!("{} on non-integer operand ({:?})", what, t)),
        }
    }

    fn value(&mut self, e: &Expr, expect: Option<&Ty>, seq: &mut Seq) -> TR<(Code, Ty)> {
        match e {
            Expr::Paren(p) => {
                self.check_expr_attrs(&p.attrs)?;
                self.value(&p.expr, expect, seq)
            }
            Expr::Group(g) => self.value(&g.expr, expect, seq),
            Expr::Lit(l) => {
                self.check_expr_attrs(&l.attrs)?;
                match &l.lit {
                    Lit::Int(i) => {
                        let digits = i.base10_digits().to_string();
                        let v: u128 = match digits.parse() {
                            Ok(v) => v,
                            Err(_) => return self.un("integer literal too large"),
                        };
                        let ty = if i.suffix().is_empty() {
                            match expect {
                                Some(Ty::U(w)) => Ty::U(*w),
                                _ => Ty::Lit,
                            }
                        } else if let Some(w) = uint_width(i.suffix()) {
                            Ty::U(w)
                        } else {
                            return self.un(format!("integer literal suffix `{}`", i.suffix()));
                        };
                        if let Ty::U(w) = ty {
                            if v >= (1u128 << w) {
                                return self
                                    .un(format!("literal {} out of range for a {}-bit type", v, w));
                            }
                        }
                        Ok((Code::Pure(v.to_string()), ty))
                    }
                    Lit::Bool(b) => Ok((
                        Code::Pure(if b.value { "true" } else { "false" }.into()),
                        Ty::Bool,
                    )),
                    _ => self.un("non-integer literal"),
                }
            }
            Expr::Path(p) => {
                self.check_expr_attrs(&p.attrs)?;
                if p.qself.is_some() {
                    return self.un("qualified path expression");
                }
                let ids = path_idents(&p.path);
                if p.path.segments.iter().any(|s| !s.arguments.is_empty()) {
                    return self.un(format!("path expression `{}`", tokens_text(&p.path)));
                }
                if ids.len() == 1 {
                    if let Some(t) = self.lookup_local(&ids[0]) {
                        return Ok((Code::Pure(ids[0].clone()), t));
                    }
                }
                // crate constant exported by GenConsts
                let full = match ids.len() {
                    1 => self.resolve_name(&ids[0]),
                    _ => {
                        if ids[0] == "crate" {
                            Some(ids.clone())
                        } else {
                            self.resolve_name(&ids[0]).map(|mut f| {
                                f.extend(ids[1..].iter().cloned());
                                f
                            })
                        }
                    }
                };
                if let Some(full) = full {
                    let name = full.last().unwrap().clone();
                    if full.len() == 3 && full[0] == "crate" && full[1] == "engine" {
                        if let Some(t) = self.w.consts.get(&name) {
                            return Ok((Code::Pure(name), t.clone()));
                        }
                    }
                }
                self.un(format!("path expression `{}`", tokens_text(&p.path)))
            }
            Expr::Binary(b) => {
                self.check_expr_attrs(&b.attrs)?;
                self.binary(b, expect, seq)
            }
            Expr::Unary(u) => {
                self.check_expr_attrs(&u.attrs)?;
                match u.op {
                    UnOp::Not(_) => {
                        let (a, t) = self.atom(&u.expr, Some(&Ty::Bool), seq)?;
                        if t != Ty::Bool {
                            return self.un("`!` on a non-bool operand");
                        }
                        Ok((Code::Pure(format!("negb {}", paren(&a))), Ty::Bool))
                    }
                    UnOp::Deref(_) => self.value(&u.expr, expect, seq),
                    UnOp::Neg(_) => self.un("unary minus"),
                    _ => self.un("unary operator"),
                }
            }
            Expr::Reference(r) => {
                self.check_expr_attrs(&r.attrs)?;
                if r.mutability.is_some() {
                    return self.un("`&mut` borrow");
                }
                self.value(&r.expr, expect, seq)
            }
            Expr::Cast(c) => {
                self.check_expr_attrs(&c.attrs)?;
                let dst = self.ty_of(&c.ty)?;
                let wd = match dst {
                    Ty::U(w) => w,
                    _ => return self.un(format!("cast to `{}`", tokens_text(&*c.ty))),
                };
                let (a, src) = self.atom(&c.expr, None, seq)?;
                match src {
                    Ty::U(ws) if ws <= wd => Ok((Code::Pure(a), Ty::U(wd))),
                    Ty::U(_) => Ok((
                        Code::Pure(format!("cast {} {}", width_name(wd), paren(&a))),
                        Ty::U(wd),
                    )),
                    Ty::Lit => {
                        let fits = a.parse::<u128>().map(|v| v < (1u128 << wd)).unwrap_or(false);
                        if fits {
                            Ok((Code::Pure(a), Ty::U(wd)))
                        } else {
                            self.un("cast of an out-of-range literal")
                        }
                    }
                    _ => self.un(format!("cast from {:?}", src)),
                }
            }
            Expr::Call(c) => {
                self.check_expr_attrs(&c.attrs)?;
                self.call(c, expect, seq)
            }
            Expr::MethodCall(m) => {
                self.check_expr_attrs(&m.attrs)?;
                self.method(m, expect, seq)
            }
            Expr::Index(ix) => {
                self.check_expr_attrs(&ix.attrs)?;
                let (a, ta) = self.atom(&ix.expr, None, seq)?;
                let elem = match ta {
                    Ty::Arr(e) => *e,
                    _ => return self.un("indexing into a non-array value"),
                };
                let (i, ti) = self.atom(&ix.index, Some(&Ty::U(64)), seq)?;
                match ti {
                    Ty::U(64) => {}
                    Ty::Lit => self.check_lit_fits(&i, &ti, 64)?,
                    _ => return self.un("array index that is not usize"),
                }
                Ok((
                    Code::Comp(format!("aget {} {}", paren(&a), paren(&i))),
                    elem,
                ))
            }
            Expr::Tuple(t) => {
                self.check_expr_attrs(&t.attrs)?;
                if t.elems.is_empty() {
                    return Ok((Code::Pure("tt".into()), Ty::Unit));
                }
                let exp_elems: Option<&Vec<Ty>> = match expect {
                    Some(Ty::Tuple(v)) if v.len() == t.elems.len() => Some(v),
                    _ => None,
                };
                let mut terms = Vec::new();
                let mut tys = Vec::new();
                for (k, el) in t.elems.iter().enumerate() {
                    let ex = exp_elems.map(|v| &v[k]);
                    let (a, ty) = self.atom(el, ex, seq)?;
                    let ty = match ex {
                        Some(x) => {
                            let u = self.unify(&ty, x, "tuple element")?;
                            if let Ty::U(w) = u {
                                self.check_lit_fits(&a, &ty, w)?;
                            }
                            u
                        }
                        None => ty,
                    };
                    terms.push(a);
                    tys.push(ty);
                }
                Ok((
                    Code::Pure(format!("({})", terms.join(", "))),
                    Ty::Tuple(tys),
                ))
            }
            Expr::Struct(s) => {
                self.check_expr_attrs(&s.attrs)?;
                self.error_struct(s, seq)
            }
            Expr::If(_) | Expr::Block(_) | Expr::Match(_) => {
                // value position: own sequence, no early return out of it
                let (s, ty) = self.tail(e, expect, false, seq)?;
                Ok((Code::Comp(s), ty))
            }
            Expr::Try(t) => {
                self.check_expr_attrs(&t.attrs)?;
                if !seq.fn_level {
                    return self.un("`?` inside a nested expression (&&, ||, value block)");
                }
                if !matches!(self.ret, Ty::Res(_)) {
                    return self.un("`?` in a function that does not return Result<_, Error>");
                }
                let (r, ty) = self.atom(&t.expr, None, seq)?;
                let inner = match ty {
                    Ty::Res(i) => *i,
                    _ => return self.un("`?` on a value that is not Result<_, Error>"),
                };
                let x = self.fresh_t();
                seq.items.push(Item::Try(x.clone(), r));
                Ok((Code::Pure(x), inner))
            }
            Expr::Return(_) => self.un("`return` in expression position"),
            Expr::Macro(m) => self.un(format!(
                "macro `{}!` in expression position",
                tokens_text(&m.mac.path)
            )),
            Expr::ForLoop(_) => self.un("`for` loop"),
            Expr::While(_) => self.un("`while` loop"),
            Expr::Loop(_) => self.un("`loop`"),
            Expr::Assign(_) => self.un("assignment"),
            Expr::Closure(_) => self.un("closure"),
            Expr::Unsafe(_) => self.un("`unsafe` block"),
            Expr::Field(_) => self.un("field access"),
            Expr::Range(_) => self.un("range expression"),
            Expr::Array(_) => self.un("array expression"),
            Expr::Repeat(_) => self.un("array repeat expression"),
            Expr::Let(_) => self.un("`let` condition"),
            Expr::Break(_) => self.un("`break`"),
            Expr::Continue(_) => self.un("`continue`"),
            Expr::Await(_) | Expr::Async(_) => self.un("async code"),
            _ => self.un(format!("expression `{}`", one_line(&tokens_text(e)))),
        }
    }

    fn binary(&mut self, b: &syn::ExprBinary, expect: Option<&Ty>, seq: &mut Seq) -> TR<(Code, Ty)> {
        match b.op {
            BinOp::And(_) | BinOp::Or(_) => {
                let f = if matches!(b.op, BinOp::And(_)) {
                    "and_then"
                } else {
                    "or_else"
                };
                let (l, tl) = self.comp(&b.left, Some(&Ty::Bool))?;
                let (r, tr) = self.comp(&b.right, Some(&Ty::Bool))?;
                if tl != Ty::Bool || tr != Ty::Bool {
                    return self.un("`&&`/`||` on non-bool operands");
                }
                Ok((
                    Code::Comp(format!("{} {} {}", f, paren(&l), paren(&r))),
                    Ty::Bool,
                ))
            }
            BinOp::Add(_) | BinOp::Sub(_) | BinOp::Mul(_) | BinOp::Div(_) | BinOp::Rem(_) => {
                let op = match b.op {
                    BinOp::Add(_) => "uadd",
                    BinOp::Sub(_) => "usub",
                    BinOp::Mul(_) => "umul",
                    BinOp::Div(_) => "udiv",
                    _ => "urem",
                };
                let ex = match expect {
                    Some(Ty::U(w)) => Some(Ty::U(*w)),
                    _ => None,
                };
                let (l, tl) = self.atom(&b.left, ex.as_ref(), seq)?;
                let ex_r = match (&tl, &ex) {
                    (Ty::U(w), _) => Some(Ty::U(*w)),
                    (_, e) => e.clone(),
                };
                let (r, tr) = self.atom(&b.right, ex_r.as_ref(), seq)?;
                self.int_ty(&tl, "arithmetic")?;
                self.int_ty(&tr, "arithmetic")?;
                let ty = self.unify(&tl, &tr, "arithmetic operands")?;
                let w = match ty {
                    Ty::U(w) => w,
                    _ => return self.un("arithmetic on literals of unknown width"),
                };
                self.check_lit_fits(&l, &tl, w)?;
                self.check_lit_fits(&r, &tr, w)?;
                Ok((
                    Code::Comp(format!(
                        "{} {} {} {}",
                        op,
                        width_name(w),
                        paren(&l),
                        paren(&r)
                    )),
                    Ty::U(w),
                ))
            }
            BinOp::Shl(_) | BinOp::Shr(_) => {
                let op = if matches!(b.op, BinOp::Shl(_)) {
                    "ushl"
                } else {
                    "ushr"
                };
                let ex = match expect {
                    Some(Ty::U(w)) => Some(Ty::U(*w)),
                    _ => None,
                };
                let (l, tl) = self.atom(&b.left, ex.as_ref(), seq)?;
                let (r, tr) = self.atom(&b.right, None, seq)?;
                self.int_ty(&tr, "shift amount")?;
                let w = match tl {
                    Ty::U(w) => w,
                    _ => return self.un("shift of a value of unknown width"),
                };
                Ok((
                    Code::Comp(format!(
                        "{} {} {} {}",
                        op,
                        width_name(w),
                        paren(&l),
                        paren(&r)
                    )),
                    Ty::U(w),
                ))
            }
            BinOp::BitAnd(_) | BinOp::BitOr(_) | BinOp::BitXor(_) => {
                let op = match b.op {
                    BinOp::BitAnd(_) => "N.land",
                    BinOp::BitOr(_) => "N.lor",
                    _ => "N.lxor",
                };
                let ex = match expect {
                    Some(Ty::U(w)) => Some(Ty::U(*w)),
                    _ => None,
                };
                let (l, tl) = self.atom(&b.left, ex.as_ref(), seq)?;
                let ex_r = match (&tl, &ex) {
                    (Ty::U(w), _) => Some(Ty::U(*w)),
                    (_, e) => e.clone(),
                };
                let (r, tr) = self.atom(&b.right, ex_r.as_ref(), seq)?;
                self.int_ty(&tl, "bitwise operator")?;
                self.int_ty(&tr, "bitwise operator")?;
                let ty = self.unify(&tl, &tr, "bitwise operands")?;
                if let Ty::U(w) = ty {
                    self.check_lit_fits(&l, &tl, w)?;
                    self.check_lit_fits(&r, &tr, w)?;
                }
                Ok((
                    Code::Pure(format!("{} {} {}", op, paren(&l), paren(&r))),
                    ty,
                ))
            }
            BinOp::Eq(_) | BinOp::Ne(_) | BinOp::Lt(_) | BinOp::Le(_) | BinOp::Gt(_)
            | BinOp::Ge(_) => {
                let (l, tl) = self.atom(&b.left, None, seq)?;
                let ex_r = match &tl {
                    Ty::U(w) => Some(Ty::U(*w)),
                    _ => None,
                };
                let (r, tr) = self.atom(&b.right, ex_r.as_ref(), seq)?;
                self.int_ty(&tl, "comparison")?;
                self.int_ty(&tr, "comparison")?;
                let ty = self.unify(&tl, &tr, "comparison operands")?;
                if let Ty::U(w) = ty {
                    self.check_lit_fits(&l, &tl, w)?;
                    self.check_lit_fits(&r, &tr, w)?;
                }
                let (l, r) = (paren(&l), paren(&r));
                let s = match b.op {
                    BinOp::Eq(_) => format!("N.eqb {} {}", l, r),
                    BinOp::Ne(_) => format!("negb (N.eqb {} {})", l, r),
                    BinOp::Lt(_) => format!("N.ltb {} {}", l, r),
                    BinOp::Le(_) => format!("N.leb {} {}", l, r),
                    BinOp::Gt(_) => format!("N.ltb {} {}", r, l),
                    _ => format!("N.leb {} {}", r, l),
                };
                Ok((Code::Pure(s), Ty::Bool))
            }
            _ => self.un(format!("binary operator `{}`", tokens_text(&b.op))),
        }
    }

    fn call(&mut self, c: &syn::ExprCall, expect: Option<&Ty>, seq: &mut Seq) -> TR<(Code, Ty)> {
        let p = match &*c.func {
            Expr::Path(p) if p.qself.is_none() => p,
            _ => return self.un("call of a non-path callee"),
        };
        let ids = path_idents(&p.path);
        let args: Vec<&Expr> = c.args.iter().collect();
        let has_generics = p.path.segments.iter().any(|s| !s.arguments.is_empty());

        // u32::from(x) and friends: lossless widening
        if ids.len() == 2 && ids[1] == "from" && !has_generics {
            if let Some(wd) = uint_width(&ids[0]) {
                if args.len() != 1 {
                    return self.un("`from` with several arguments");
                }
                let (a, src) = self.atom(args[0], None, seq)?;
                return match src {
                    Ty::U(ws) if ws <= wd => Ok((Code::Pure(a), Ty::U(wd))),
                    Ty::Lit => {
                        self.check_lit_fits(&a, &src, wd)?;
                        Ok((Code::Pure(a), Ty::U(wd)))
                    }
                    _ => self.un(format!("`{}::from` on {:?}", ids[0], src)),
                };
            }
        }

        // Ok(..) / Err(..)
        if ids.len() == 1 && (ids[0] == "Ok" || ids[0] == "Err") && !has_generics
            && self.lookup_local(&ids[0]).is_none()
        {
            if args.len() != 1 {
                return self.un("Ok/Err with several arguments");
            }
            let exp_inner: Option<Ty> = match expect {
                Some(Ty::Res(i)) => Some((**i).clone()),
                _ => None,
            };
            if ids[0] == "Ok" {
                let (a, t) = self.atom(args[0], exp_inner.as_ref(), seq)?;
                let t = match &exp_inner {
                    Some(x) => {
                        let u = self.unify(&t, x, "Ok payload")?;
                        if let Ty::U(w) = u {
                            self.check_lit_fits(&a, &t, w)?;
                        }
                        u
                    }
                    None => t,
                };
                return Ok((
                    Code::Pure(format!("ROk {}", paren(&a))),
                    Ty::Res(Box::new(t)),
                ));
            } else {
                let (a, t) = self.atom(args[0], Some(&Ty::Error), seq)?;
                if t != Ty::Error {
                    return self.un("Err payload that is not crate::Error");
                }
                let inner = match exp_inner {
                    Some(x) => x,
                    None => return self.un("Err(..) whose Ok type cannot be determined"),
                };
                return Ok((
                    Code::Pure(format!("RErr {}", paren(&a))),
                    Ty::Res(Box::new(inner)),
                ));
            }
        }

        // std::cmp::min / max
        if !has_generics {
            if let Some(f) = self.std_min_max(&ids) {
                if args.len() != 2 {
                    return self.un("min/max arity");
                }
                let (a, ta) = self.atom(args[0], expect, seq)?;
                let ex_b = match &ta {
                    Ty::U(w) => Some(Ty::U(*w)),
                    _ => None,
                };
                let (b, tb) = self.atom(args[1], ex_b.as_ref().or(expect), seq)?;
                self.int_ty(&ta, "min/max")?;
                self.int_ty(&tb, "min/max")?;
                let ty = self.unify(&ta, &tb, "min/max operands")?;
                if let Ty::U(w) = ty {
                    self.check_lit_fits(&a, &ta, w)?;
                    self.check_lit_fits(&b, &tb, w)?;
                }
                return Ok((Code::Pure(format!("{} {} {}", f, paren(&a), paren(&b))), ty));
            }
        }

        // translated callees
        let mut sig: Option<FnSig> = None;
        if !has_generics {
            for cal in &self.job.callees {
                if cal.path == ids {
                    if let Some(req) = &cal.first_seg_is {
                        if self.resolve_name(&ids[0]).as_ref() != Some(req) {
                            return self.un(format!(
                                "call `{}`: `{}` does not resolve to {}",
                                ids.join("::"),
                                ids[0],
                                req.join("::")
                            ));
                        }
                    }
                    sig = Some(cal.sig.clone());
                }
            }
        }
        // HighRate::<E>::supports(..) and friends
        if sig.is_none() && ids.len() == 2 && ids[1] == "supports" {
            if let Some(map) = &self.job.rate_supports {
                if let Some(s) = map.get(&ids[0]) {
                    let full = self.resolve_name(&ids[0]);
                    let ok = match &full {
                        Some(f) => {
                            f.len() >= 3
                                && f[0] == "crate"
                                && f[1] == "rate"
                                && f.last() == Some(&ids[0])
                        }
                        None => false,
                    };
                    if !ok {
                        return self.un(format!(
                            "call `{}`: `{}` does not resolve to crate::rate::{}",
                            ids.join("::"),
                            ids[0],
                            ids[0]
                        ));
                    }
                    sig = Some(s.clone());
                }
            }
        }
        let sig = match sig {
            Some(s) => s,
            None => return self.un(format!("call to `{}`", one_line(&tokens_text(&p.path)))),
        };
        if sig.params.len() != args.len() {
            return self.un(format!("call to `{}` with wrong arity", ids.join("::")));
        }
        let mut terms = Vec::new();
        for (a, pt) in args.iter().zip(sig.params.iter()) {
            let (t, ty) = self.atom(a, Some(pt), seq)?;
            let u = self.unify(&ty, pt, "call argument")?;
            if let Ty::U(w) = u {
                self.check_lit_fits(&t, &ty, w)?;
            }
            terms.push(paren(&t));
        }
        Ok((
            Code::Comp(format!("{} {}", sig.coq, terms.join(" "))),
            sig.ret.clone(),
        ))
    }

    fn method(&mut self, m: &syn::ExprMethodCall, expect: Option<&Ty>, seq: &mut Seq) -> TR<(Code, Ty)> {
        if m.turbofish.is_some() {
            return self.un("method call with turbofish");
        }
        let name = m.method.to_string();
        let args: Vec<&Expr> = m.args.iter().collect();
        let ex_int = match expect {
            Some(Ty::U(w)) => Some(Ty::U(*w)),
            _ => None,
        };
        match (name.as_str(), args.len()) {
            ("next_power_of_two", 0) => {
                let (a, t) = self.atom(&m.receiver, None, seq)?;
                match t {
                    Ty::U(w) => Ok((
                        Code::Comp(format!("next_power_of_two {} {}", width_name(w), paren(&a))),
                        Ty::U(w),
                    )),
                    _ => self.un("next_power_of_two on a value of unknown integer type"),
                }
            }
            ("next_multiple_of", 1) | ("wrapping_add", 1) | ("wrapping_sub", 1) | ("min", 1)
            | ("max", 1) => {
                let (a, ta) = self.atom(&m.receiver, ex_int.as_ref(), seq)?;
                let ex_b = match &ta {
                    Ty::U(w) => Some(Ty::U(*w)),
                    _ => ex_int.clone(),
                };
                let (b, tb) = self.atom(args[0], ex_b.as_ref(), seq)?;
                self.int_ty(&ta, &name)?;
                self.int_ty(&tb, &name)?;
                let ty = self.unify(&ta, &tb, "method operands")?;
                let w = match ty {
                    Ty::U(w) => w,
                    _ => return self.un(format!("`{}` on literals of unknown width", name)),
                };
                self.check_lit_fits(&a, &ta, w)?;
                self.check_lit_fits(&b, &tb, w)?;
                let (a, b) = (paren(&a), paren(&b));
                let code = match name.as_str() {
                    "next_multiple_of" => {
                        Code::Comp(format!("next_multiple_of {} {} {}", width_name(w), a, b))
                    }
                    "wrapping_add" => Code::Pure(format!("wadd {} {} {}", width_name(w), a, b)),
                    "wrapping_sub" => Code::Pure(format!("wsub {} {} {}", width_name(w), a, b)),
                    "min" => Code::Pure(format!("N.min {} {}", a, b)),
                    _ => Code::Pure(format!("N.max {} {}", a, b)),
                };
                Ok((code, Ty::U(w)))
            }
            ("is_ok", 0) | ("is_err", 0) => {
                let (a, t) = self.atom(&m.receiver, None, seq)?;
                if !matches!(t, Ty::Res(_)) {
                    return self.un(format!("`.{}()` on a value that is not Result<_, Error>", name));
                }
                let (o, e) = if name == "is_ok" {
                    ("true", "false")
                } else {
                    ("false", "true")
                };
                Ok((
                    Code::Pure(format!(
                        "(match {} with ROk _ => {} | RErr _ => {} end)",
                        a, o, e
                    )),
                    Ty::Bool,
                ))
            }
            ("cmp", 1) => self.un("`.cmp()` outside of a `match` scrutinee"),
            _ => self.un(format!("method call `.{}()`", name)),
        }
    }

    fn error_struct(&mut self, s: &syn::ExprStruct, seq: &mut Seq) -> TR<(Code, Ty)> {
        if s.qself.is_some() || s.rest.is_some() || s.dot2_token.is_some() {
            return self.un("struct expression with qualified path or `..`");
        }
        let ids = path_idents(&s.path);
        let (en, variant) = match ids.as_slice() {
            [e, v] => (e.clone(), v.clone()),
            [c, e, v] if c == "crate" && e == "Error" => ("Error".to_string(), v.clone()),
            _ => {
                return self.un(format!("struct expression `{}`", tokens_text(&s.path)));
            }
        };
        if !(ids.len() == 3 || self.is_crate_error(&en)) {
            return self.un(format!("struct expression `{}`", tokens_text(&s.path)));
        }
        let order = match self.w.error_ctors.get(&variant) {
            Some(o) => o.clone(),
            None => return self.un(format!("unknown Error variant `{}`", variant)),
        };
        // field initialisers run in source order
        let mut vals: HashMap<String, String> = HashMap::new();
        for f in &s.fields {
            if has_cfg(&f.attrs) {
                return self.un("#[cfg] on a struct field initialiser");
            }
            let fname = match &f.member {
                syn::Member::Named(i) => i.to_string(),
                _ => return self.un("tuple-struct field"),
            };
            let (a, t) = self.atom(&f.expr, Some(&Ty::U(64)), seq)?;
            match t {
                Ty::U(64) => {}
                Ty::Lit => self.check_lit_fits(&a, &t, 64)?,
                _ => return self.un(format!("Error field `{}` that is not usize", fname)),
            }
            if vals.insert(fname.clone(), paren(&a)).is_some() {
                return self.un(format!("duplicate field `{}`", fname));
            }
        }
        if vals.len() != order.len() || order.iter().any(|f| !vals.contains_key(f)) {
            return self.un(format!("fields of Error::{} do not match its declaration", variant));
        }
        let args: Vec<String> = order.iter().map(|f| vals[f].clone()).collect();
        Ok((
            Code::Pure(format!("{} {}", variant, args.join(" "))),
            Ty::Error,
        ))
    }

    // ------------------------------------------------------------------
    // statements / tail positions

    /// Does control never fall out of the end of these statements?
    fn diverges(stmts: &[Stmt]) -> bool {
        match stmts.last() {
            Some(Stmt::Expr(e, _)) => Self::expr_diverges(e),
            _ => false,
        }
    }

    fn expr_diverges(e: &Expr) -> bool {
        match e {
            Expr::Return(_) => true,
            Expr::Block(b) => Self::diverges(&b.block.stmts),
            Expr::If(i) => {
                Self::diverges(&i.then_branch.stmts)
                    && match &i.else_branch {
                        Some((_, el)) => Self::expr_diverges(el),
                        None => false,
                    }
            }
            Expr::Paren(p) => Self::expr_diverges(&p.expr),
            _ => false,
        }
    }

    fn wrap_branch(s: &str) -> String {
        let t = s.trim_start();
        if has_top_level_seq(t) || t.starts_with("if ") || t.starts_with("let ") || t.starts_with("guard") {
            format!("({})", s)
        } else {
            s.to_string()
        }
    }

    /// Evaluates a condition in `seq` and returns a pure bool term.
    fn cond(&mut self, e: &Expr, seq: &mut Seq) -> TR<String> {
        let (c, t) = self.value(e, Some(&Ty::Bool), seq)?;
        if t != Ty::Bool {
            return self.un("condition that is not bool");
        }
        Ok(match c {
            Code::Pure(s) => s,
            Code::Comp(s) => {
                let x = self.fresh_c();
                seq.items.push(Item::Bind(x.clone(), one_line(&s)));
                x
            }
        })
    }

    /// `res T` term for an expression in tail position of a block.
    /// `fn_tail`: the block's value is the function's return value, so
    /// `return` is allowed. Conditions/scrutinees are evaluated in `seq`.
    fn tail(&mut self, e: &Expr, expect: Option<&Ty>, fn_tail: bool, seq: &mut Seq) -> TR<(String, Ty)> {
        match e {
            Expr::If(i) => {
                self.check_expr_attrs(&i.attrs)?;
                let c = self.cond(&i.cond, seq)?;
                let (th, t1) = self.block(&i.then_branch.stmts, expect, fn_tail)?;
                let (el, t2) = match &i.else_branch {
                    Some((_, el)) => {
                        let mut sub = Seq::new(fn_tail);
                        let (s, t) = self.tail(el, expect.or(Some(&t1)), fn_tail, &mut sub)?;
                        (sub.render(s), t)
                    }
                    None => return self.un("`if` without `else` used as a value"),
                };
                let ty = self.unify(&t1, &t2, "if/else branches")?;
                Ok((
                    format!("if {} then {} else\n{}", c, Self::wrap_branch(&th), el),
                    ty,
                ))
            }
            Expr::Match(m) => {
                self.check_expr_attrs(&m.attrs)?;
                self.match_cmp(m, expect, fn_tail, seq)
            }
            Expr::Block(b) => {
                self.check_expr_attrs(&b.attrs)?;
                if b.label.is_some() {
                    return self.un("labelled block");
                }
                self.block(&b.block.stmts, expect, fn_tail)
            }
            Expr::Return(r) => {
                if !fn_tail {
                    return self.un("`return` out of a nested value expression");
                }
                match &r.expr {
                    Some(inner) => {
                        let ret = self.ret.clone();
                        self.tail(inner, Some(&ret), true, seq)
                    }
                    None => {
                        if self.ret != Ty::Unit {
                            return self.un("`return;` in a function with a result");
                        }
                        Ok(("Val tt".into(), Ty::Unit))
                    }
                }
            }
            _ => {
                let (c, ty) = self.value(e, expect, seq)?;
                let ty = match expect {
                    Some(x) => {
                        let u = self.unify(&ty, x, "result value")?;
                        if let (Ty::U(w), Code::Pure(s)) = (&u, &c) {
                            self.check_lit_fits(s, &ty, *w)?;
                        }
                        u
                    }
                    None => ty,
                };
                Ok((
                    match c {
                        Code::Pure(s) => format!("Val {}", paren(&s)),
                        Code::Comp(s) => s,
                    },
                    ty,
                ))
            }
        }
    }

    fn match_cmp(&mut self, m: &syn::ExprMatch, expect: Option<&Ty>, fn_tail: bool, seq: &mut Seq) -> TR<(String, Ty)> {
        // scrutinee: a.cmp(&b)
        let mc = match &*m.expr {
            Expr::MethodCall(mc) if mc.method == "cmp" && mc.args.len() == 1 && mc.turbofish.is_none() => mc,
            _ => return self.un("`match` on something other than `a.cmp(&b)`"),
        };
        let rhs = match &mc.args[0] {
            Expr::Reference(r) if r.mutability.is_none() => &*r.expr,
            _ => return self.un("`.cmp()` argument that is not `&expr`"),
        };
        let (a, ta) = self.atom(&mc.receiver, None, seq)?;
        let ex_b = match &ta {
            Ty::U(w) => Some(Ty::U(*w)),
            _ => None,
        };
        let (b, tb) = self.atom(rhs, ex_b.as_ref(), seq)?;
        self.int_ty(&ta, "cmp")?;
        self.int_ty(&tb, "cmp")?;
        let ty = self.unify(&ta, &tb, "cmp operands")?;
        if let Ty::U(w) = ty {
            self.check_lit_fits(&a, &ta, w)?;
            self.check_lit_fits(&b, &tb, w)?;
        }
        let mut seen: Vec<&str> = Vec::new();
        let mut arms = Vec::new();
        let mut res_ty: Option<Ty> = None;
        for arm in &m.arms {
            if has_cfg(&arm.attrs) {
                return self.un("#[cfg] on a match arm");
            }
            if arm.guard.is_some() {
                return self.un("match arm guard");
            }
            let pp = match &arm.pat {
                Pat::Path(pp) if pp.qself.is_none() => path_idents(&pp.path),
                _ => return self.un("match arm pattern other than Ordering::{Less,Equal,Greater}"),
            };
            let (head, last) = pp.split_at(pp.len() - 1);
            if head.is_empty() || !self.is_std_ordering(head) {
                return self.un("match arm pattern other than Ordering::{Less,Equal,Greater}");
            }
            let ctor = match last[0].as_str() {
                "Less" => "OLess",
                "Equal" => "OEqual",
                "Greater" => "OGreater",
                _ => return self.un("match arm pattern other than Ordering::{Less,Equal,Greater}"),
            };
            if seen.contains(&ctor) {
                return self.un("duplicate match arm");
            }
            seen.push(ctor);
            let mut sub = Seq::new(fn_tail);
            let (s, t) = self.tail(&arm.body, expect.or(res_ty.as_ref()), fn_tail, &mut sub)?;
            let s = sub.render(s);
            res_ty = Some(match &res_ty {
                Some(prev) => self.unify(prev, &t, "match arms")?,
                None => t,
            });
            arms.push(format!("| {} => {}", ctor, Self::wrap_branch(&s)));
        }
        if seen.len() != 3 {
            return self.un("`match` on Ordering without exactly the three arms");
        }
        Ok((
            format!(
                "match ncmp {} {} with\n{}\nend",
                paren(&a),
                paren(&b),
                arms.join("\n")
            ),
            res_ty.unwrap(),
        ))
    }

    fn block(&mut self, stmts: &[Stmt], expect: Option<&Ty>, fn_tail: bool) -> TR<(String, Ty)> {
        self.locals.push(Vec::new());
        let r = self.stmts_from(stmts, expect, fn_tail);
        self.locals.pop();
        r
    }

    fn stmts_from(&mut self, stmts: &[Stmt], expect: Option<&Ty>, fn_tail: bool) -> TR<(String, Ty)> {
        let mut seq = Seq::new(fn_tail);
        let n = stmts.len();
        for (i, st) in stmts.iter().enumerate() {
            let last = i + 1 == n;
            match st {
                Stmt::Local(l) => {
                    if is_hook(&l.attrs) {
                        continue;
                    }
                    if has_cfg(&l.attrs) {
                        return self.un("#[cfg] on a `let`");
                    }
                    let (name, decl): (String, Option<Ty>) = match &l.pat {
                        Pat::Ident(pi) => {
                            if pi.mutability.is_some() || pi.by_ref.is_some() || pi.subpat.is_some() {
                                return self.un("`let mut` / `ref` / `@` binding");
                            }
                            (pi.ident.to_string(), None)
                        }
                        Pat::Type(pt) => match &*pt.pat {
                            Pat::Ident(pi)
                                if pi.mutability.is_none() && pi.by_ref.is_none() && pi.subpat.is_none() =>
                            {
                                (pi.ident.to_string(), Some(self.ty_of(&pt.ty)?))
                            }
                            _ => return self.un("`let` pattern"),
                        },
                        _ => return self.un("`let` pattern"),
                    };
                    let init = match &l.init {
                        Some(init) => {
                            if init.diverge.is_some() {
                                return self.un("`let ... else`");
                            }
                            &*init.expr
                        }
                        None => return self.un("`let` without initialiser"),
                    };
                    self.check_name(&name)?;
                    let (c, ty) = self.value(init, decl.as_ref(), &mut seq)?;
                    let ty = match &decl {
                        Some(d) => {
                            let u = self.unify(&ty, d, "let binding")?;
                            if let (Ty::U(w), Code::Pure(s)) = (&u, &c) {
                                self.check_lit_fits(s, &ty, *w)?;
                            }
                            u
                        }
                        None => ty,
                    };
                    if ty == Ty::Lit {
                        return self.un(format!("`let {}` bound to a literal without a type", name));
                    }
                    match c {
                        Code::Pure(s) => seq.items.push(Item::Let(name.clone(), s)),
                        Code::Comp(s) => seq.items.push(Item::Bind(name.clone(), one_line(&s))),
                    }
                    self.bind_local(&name, ty);
                }
                Stmt::Item(_) => return self.un("item inside a function body"),
                Stmt::Macro(sm) => {
                    if is_hook(&sm.attrs) {
                        continue;
                    }
                    if has_cfg(&sm.attrs) {
                        return self.un("#[cfg] on a macro statement");
                    }
                    let mname = path_idents(&sm.mac.path).join("::");
                    if mname != "debug_assert" {
                        return self.un(format!("macro `{}!`", mname));
                    }
                    let args = sm
                        .mac
                        .parse_body_with(
                            syn::punctuated::Punctuated::<Expr, syn::Token![,]>::parse_terminated,
                        )
                        .map_err(|_| Error::Unsupported(format!(
                            "unparsable debug_assert! arguments at {}:{}",
                            self.job.file.rel, self.job.label
                        )))?;
                    let first = match args.first() {
                        Some(f) => f,
                        None => return self.un("empty debug_assert!"),
                    };
                    let (c, t) = self.comp(&first, Some(&Ty::Bool))?;
                    if t != Ty::Bool {
                        return self.un("debug_assert! on a non-bool");
                    }
                    seq.items.push(Item::Guard(c));
                }
                Stmt::Expr(e, semi) => {
                    let attrs = expr_attrs(e);
                    if is_hook(attrs) {
                        continue;
                    }
                    if has_cfg(attrs) {
                        return self.un("#[cfg] on a statement");
                    }
                    // return
                    if let Expr::Return(_) = e {
                        if !last {
                            return self.un("statements after `return`");
                        }
                        let (s, ty) = self.tail(e, expect, fn_tail, &mut seq)?;
                        return Ok((seq.render(s), ty));
                    }
                    // tail expression
                    if last && semi.is_none() {
                        let (s, ty) = self.tail(e, expect, fn_tail, &mut seq)?;
                        return Ok((seq.render(s), ty));
                    }
                    // if c { ..; return E; }  followed by the rest
                    if let Expr::If(ifx) = e {
                        if ifx.else_branch.is_none() && Self::diverges(&ifx.then_branch.stmts) {
                            if !fn_tail {
                                return self.un("`return` out of a nested value expression");
                            }
                            if last {
                                return self.un("function body ending in an `if` without `else`");
                            }
                            let c = self.cond(&ifx.cond, &mut seq)?;
                            let ret = self.ret.clone();
                            let (th, _) = self.block(&ifx.then_branch.stmts, Some(&ret), true)?;
                            let (rest, ty) = self.stmts_from(&stmts[i + 1..], expect, fn_tail)?;
                            let s = format!("if {} then {} else\n{}", c, Self::wrap_branch(&th), rest);
                            return Ok((seq.render(s), ty));
                        }
                        if last && Self::expr_diverges(e) {
                            let (s, ty) = self.tail(e, expect, fn_tail, &mut seq)?;
                            return Ok((seq.render(s), ty));
                        }
                        return self.un("`if` statement that is not an early return");
                    }
                    let what = match e {
                        Expr::ForLoop(_) => "`for` loop".to_string(),
                        Expr::While(_) => "`while` loop".to_string(),
                        Expr::Loop(_) => "`loop`".to_string(),
                        Expr::Assign(_) => "assignment".to_string(),
                        Expr::Unsafe(_) => "`unsafe` block".to_string(),
                        Expr::Macro(m) => {
                            format!("macro `{}!`", path_idents(&m.mac.path).join("::"))
                        }
                        Expr::Binary(b)
                            if matches!(
                                b.op,
                                BinOp::AddAssign(_)
                                    | BinOp::SubAssign(_)
                                    | BinOp::MulAssign(_)
                                    | BinOp::DivAssign(_)
                                    | BinOp::RemAssign(_)
                                    | BinOp::BitXorAssign(_)
                                    | BinOp::BitAndAssign(_)
                                    | BinOp::BitOrAssign(_)
                                    | BinOp::ShlAssign(_)
                                    | BinOp::ShrAssign(_)
                            ) =>
                        {
                            "compound assignment".to_string()
                        }
                        _ => format!("expression statement `{}`", one_line(&tokens_text(e))),
                    };
                    return self.un(what);
                }
            }
        }
        // fell off the end: unit
        match expect {
            Some(Ty::Unit) | None => Ok((seq.render("Val tt".into()), Ty::Unit)),
            _ => self.un("block without a value"),
        }
    }
}

// ----------------------------------------------------------------------
// entry point

fn indent(s: &str, by: &str) -> String {
    s.lines()
        .map(|l| format!("{}{}", by, l))
        .collect::<Vec<_>>()
        .join("\n")
}

/// Parameter and return types of a function, in the context of `file`.
pub fn signature_types(w: &World, file: &SrcFile, label: &str, sig: &Signature) -> R<(Vec<(String, Ty)>, Ty)> {
    // a throw-away translator gives access to the type resolver
    let dummy_block: Block = syn::parse_str("{}").unwrap();
    let job = FnJob {
        file,
        label: label.to_string(),
        coq_name: String::new(),
        sig,
        block: &dummy_block,
        callees: Vec::new(),
        extra_binders: Vec::new(),
        rate_supports: None,
    };
    let tr = Tr {
        w,
        job: &job,
        ret: Ty::Unit,
        locals: vec![],
        tcount: 0,
        ccount: 0,
    };
    sig_types(&tr, sig)
}

fn sig_types(tr: &Tr, sig: &Signature) -> R<(Vec<(String, Ty)>, Ty)> {
    if !sig.generics.params.is_empty() || sig.generics.where_clause.is_some() {
        return tr.un("generic function");
    }
    if sig.asyncness.is_some() || sig.variadic.is_some() {
        return tr.un("async/variadic function");
    }
    if sig.unsafety.is_some() {
        return tr.un("unsafe function");
    }
    let mut params = Vec::new();
    for a in &sig.inputs {
        match a {
            FnArg::Receiver(_) => return tr.un("`self` parameter"),
            FnArg::Typed(pt) => {
                if has_cfg(&pt.attrs) {
                    return tr.un("#[cfg] on a parameter");
                }
                let name = match &*pt.pat {
                    Pat::Ident(pi) if pi.mutability.is_none() && pi.by_ref.is_none() && pi.subpat.is_none() => {
                        pi.ident.to_string()
                    }
                    _ => return tr.un("parameter pattern"),
                };
                let ty = tr.ty_of(&pt.ty)?;
                match ty {
                    Ty::U(_) | Ty::Bool | Ty::Arr(_) => {}
                    _ => return tr.un(format!("parameter type `{}`", tokens_text(&*pt.ty))),
                }
                params.push((name, ty));
            }
        }
    }
    let ret = match &sig.output {
        ReturnType::Default => Ty::Unit,
        ReturnType::Type(_, t) => tr.ty_of(t)?,
    };
    Ok((params, ret))
}

pub fn translate_fn<'a>(w: &World<'a>, job: &FnJob<'a>) -> R<Emitted> {
    let mut tr = Tr {
        w,
        job,
        ret: Ty::Unit,
        locals: vec![Vec::new()],
        tcount: 0,
        ccount: 0,
    };
    let (params, ret) = sig_types(&tr, job.sig)?;
    tr.ret = ret.clone();
    for (n, t) in &params {
        tr.check_name(n)?;
        tr.bind_local(n, t.clone());
    }
    let (body, ty) = tr.block(&job.block.stmts, Some(&ret), true)?;
    tr.unify(&ty, &ret, "function result")?;

    // binders, grouping neighbours of equal Coq type
    let mut binders: Vec<String> = job.extra_binders.clone();
    let mut i = 0;
    while i < params.len() {
        let cty = params[i].1.coq();
        let mut names = vec![params[i].0.clone()];
        let mut j = i + 1;
        while j < params.len() && params[j].1.coq() == cty {
            names.push(params[j].0.clone());
            j += 1;
        }
        binders.push(format!("({} : {})", names.join(" "), cty));
        i = j;
    }
    let text = format!(
        "(* {} :: {} *)\nDefinition {} {} : res {} :=\n{}.\n",
        job.file.rel,
        job.label,
        job.coq_name,
        binders.join(" "),
        paren(&ret.coq()),
        indent(&body, "  ")
    );
    Ok(Emitted {
        text,
        sig: FnSig {
            coq: job.coq_name.clone(),
            params: params.into_iter().map(|(_, t)| t).collect(),
            ret,
        },
    })
}

#[cfg(test)]
mod tests {
    use super::*;
    use std::collections::HashMap;

    const LIB: &str = r#"
pub mod engine;
mod t;
pub enum Error {
    InvalidShardSize { shard_bytes: usize },
    UnsupportedShardCount { original_count: usize, recovery_count: usize },
}
"#;
    const ENGINE: &str = r#"
pub const GF_BITS: usize = 16;
pub const GF_ORDER: usize = 65536;
pub type GfElement = u16;
"#;
    const T: &str = r#"
use crate::engine::{GfElement, GF_BITS, GF_ORDER};
use crate::Error;
use std::cmp::Ordering;

fn f(a: usize, b: usize) -> Result<usize, Error> {
    debug_assert!(a != 3, "no {}", a);
    if a > b {
        return Err(Error::UnsupportedShardCount { recovery_count: b, original_count: a });
    }
    Ok(b - a)
}

fn g(a: usize, b: usize) -> Result<(usize, bool), Error> {
    let d = f(a, b)?;
    let e: usize = if d % 2 == 0 { d / 2 } else if d.min(7) == 7 { d * 3 } else { 1 << d };
    let k = f(e, GF_ORDER)? + 1;
    match k.cmp(&d) {
        Ordering::Less => return Ok((k, f(k, d).is_err())),
        Ordering::Equal => {
            let x: GfElement = (k >> GF_BITS) as GfElement;
            Ok((usize::from(x), true))
        }
        Ordering::Greater => Err(Error::InvalidShardSize { shard_bytes: f(d, k)? }),
    }
}
"#;

    fn load() -> Crate {
        let dir = std::env::temp_dir().join(format!("rs2v-test-{}", std::process::id()));
        let _ = std::fs::remove_dir_all(&dir);
        std::fs::create_dir_all(&dir).unwrap();
        std::fs::write(dir.join("lib.rs"), LIB).unwrap();
        std::fs::write(dir.join("engine.rs"), ENGINE).unwrap();
        std::fs::write(dir.join("t.rs"), T).unwrap();
        let cr = Crate::load(&dir).unwrap();
        let _ = std::fs::remove_dir_all(&dir);
        cr
    }

    fn find<'a>(file: &'a SrcFile, name: &str) -> (&'a Signature, &'a Block) {
        for it in &file.ast.items {
            if let syn::Item::Fn(f) = it {
                if f.sig.ident == name {
                    return (&f.sig, &f.block);
                }
            }
        }
        panic!()
    }

    #[test]
    fn try_and_friends() {
        let cr = load();
        let mut error_ctors = HashMap::new();
        error_ctors.insert("InvalidShardSize".to_string(), vec!["shard_bytes".to_string()]);
        error_ctors.insert(
            "UnsupportedShardCount".to_string(),
            vec!["original_count".to_string(), "recovery_count".to_string()],
        );
        let mut consts = HashMap::new();
        consts.insert("GF_BITS".to_string(), Ty::U(64));
        consts.insert("GF_ORDER".to_string(), Ty::U(64));
        let w = World {
            cr: &cr,
            error_ctors,
            consts,
        };
        let file = cr.file("t.rs").unwrap();
        let (sig, block) = find(file, "f");
        let f = translate_fn(
            &w,
            &FnJob {
                file,
                label: "f".into(),
                coq_name: "f".into(),
                sig,
                block,
                callees: vec![],
                extra_binders: vec![],
                rate_supports: None,
            },
        )
        .unwrap();
        let (sig, block) = find(file, "g");
        let g = translate_fn(
            &w,
            &FnJob {
                file,
                label: "g".into(),
                coq_name: "g".into(),
                sig,
                block,
                callees: vec![Callee {
                    path: vec!["f".into()],
                    first_seg_is: None,
                    sig: f.sig.clone(),
                }],
                extra_binders: vec![],
                rate_supports: None,
            },
        )
        .unwrap();
        let text = format!("{}\n{}", f.text, g.text);
        if let Ok(p) = std::env::var("RS2V_TEST_DUMP") {
            std::fs::write(p, &text).unwrap();
        }
        let expected = include_str!("../tests/expected_try.v");
        assert_eq!(text.trim(), expected.trim());
    }
}
