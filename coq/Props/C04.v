(* C04 — every even shard size works and symbol slots never interact. *)
From Coq Require Import NArith Arith Bool List Lia.
From RS.Gen Require Import Prelude GenConsts.
From RS.Model Require Import Field Sched Codec Layout.
From RS.Proofs Require Import Param Linear LayoutFacts BlockFacts.
Import ListNotations.
Local Open Scope N_scope.

Definition bytes_n (n : nat) (seed : N) : list N := map (fun i => (N.of_nat i * 37 + seed) mod 256) (seq 0 n).
Definition leq (a b : list N) : bool := if list_eq_dec N.eq_dec a b then true else false.
Definition evens : list nat := map (fun k => 2 * (k + 1))%nat (seq 0 160).   (* 2, 4, ..., 320 *)

(* what the Rust does on 64-byte blocks (insert into stale memory, undo_last_chunk_encoding,
   cut to shard_bytes) returns exactly the shard that was inserted, whatever the stale bytes,
   for every even size up to 5 blocks *)
Theorem C04_block_roundtrip :
  forallb (fun sb => forallb (fun junk =>
     leq (read_shard sb (insert_blocks (repeat (repeat junk 64) (blocks_needed sb)) (bytes_n sb 11))) (bytes_n sb 11))
     [0; 255; 90]) evens = true.
Proof. vm_compute. reflexivity. Qed.
Print Assumptions C04_block_roundtrip.

(* the packed view used by the model (slot k = k-th 16-bit symbol) is the block view: the
   lanes of the inserted blocks, restricted to the sb/2 slots, are syms_of_bytes; the other
   lanes hold stale data and belong to no slot *)
Definition slot_lanes (sb : nat) (bl : list block) : list N :=
  let whole := Nat.div sb 64 in
  concat (map block_syms (firstn whole bl)) ++
  match skipn whole bl with [] => [] | b :: _ => firstn (Nat.div2 (Nat.modulo sb 64)) (block_syms b) end.
Theorem C04_packed_is_blocks :
  forallb (fun sb => leq (slot_lanes sb (insert_blocks (repeat (repeat 201 64) (blocks_needed sb)) (bytes_n sb 5)))
                         (syms_of_bytes (bytes_n sb 5))) evens = true.
Proof. vm_compute. reflexivity. Qed.
Print Assumptions C04_packed_is_blocks.

(* ... and for EVERY even size, any stale blocks: what the Rust does on 64-byte blocks returns
   the inserted shard, and the lanes of the blocks restricted to the shard's slots are the packed
   symbols of the model *)
Theorem C04_block_roundtrip_all : forall (old : list block) (shard : list N) q, length shard = (q + q)%nat ->
  Forall (fun b => length b = 64%nat) old -> (blocks_needed (length shard) <= length old)%nat ->
  read_shard (length shard) (insert_blocks old shard) = shard.
Proof. exact block_roundtrip. Qed.
Print Assumptions C04_block_roundtrip_all.
Theorem C04_packed_is_blocks_all : forall (old : list block) (shard : list N) q, length shard = (q + q)%nat ->
  Forall (fun b => length b = 64%nat) old -> (blocks_needed (length shard) <= length old)%nat ->
  BlockFacts.slot_lanes (length shard) (insert_blocks old shard) = syms_of_bytes shard.
Proof.
  intros old shard q Lq Fo Hn. unfold syms_of_bytes. apply (packed_is_blocks old shard q _ Lq Fo Hn).
  pose proof (Nat.div_mod (length shard) 64 ltac:(lia)). pose proof (Nat.mod_upper_bound (length shard) 64 ltac:(lia)). lia.
Qed.
Print Assumptions C04_packed_is_blocks_all.

(* bytes <-> symbols are mutually inverse and length preserving for every even size up to 320 *)
Theorem C04_pack_unpack :
  forallb (fun sb => leq (bytes_of_syms (syms_of_bytes (bytes_n sb 3))) (bytes_n sb 3) &&
                     Nat.eqb (length (syms_of_bytes (bytes_n sb 3))) (Nat.div2 sb)) evens = true.
Proof. vm_compute. reflexivity. Qed.
Print Assumptions C04_pack_unpack.

(* ... and for EVERY even size: unpacking the packed symbols returns the shard, the number of
   symbols is half the size, and every symbol is 16-bit *)
Theorem C04_pack_unpack_all : forall (bs : list N) q, length bs = (q + q)%nat -> Forall (fun x => x < 256) bs ->
  bytes_of_syms (syms_of_bytes bs) = bs /\ length (syms_of_bytes bs) = q /\ Forall (fun x => x < 65536) (syms_of_bytes bs).
Proof. exact pack_unpack. Qed.
Print Assumptions C04_pack_unpack_all.

(* documented placement: in a full block symbol r is (byte r, byte r+32); in a final block
   of t bytes symbol r is (byte r, byte r + t/2) *)
Theorem C04_placement : forall lo hi,
  length lo = length hi -> group_syms (lo ++ hi) = map (fun p => sym (fst p) (snd p)) (combine lo hi).
Proof.
  intros lo hi H. unfold group_syms. rewrite app_length, <- H.
  replace (Nat.div2 (length lo + length lo)) with (length lo).
  - rewrite firstn_app, firstn_all, Nat.sub_diag, skipn_app, skipn_all, Nat.sub_diag. cbn. rewrite app_nil_r. reflexivity.
  - clear H. induction (length lo) as [|n IH]; [reflexivity|]. rewrite Nat.add_succ_r. cbn. f_equal. exact IH.
Qed.
Print Assumptions C04_placement.

(* slots never interact: for every configuration, engine schedule and lane count, lane k of
   every output shard of the shard-level codec is the symbol-level codec applied to lane k of
   the input shards — encode and decode, both rates.  Hence coding shards of any size yields
   the same symbols as coding every slot on its own. *)
Theorem C04_slot_encode : forall lanes k e K R w, (k < lanes)%nat -> Forall (fun s => length s = lanes) w ->
  Forall2 (Rlane lanes k) (encode_high (shard_ops lanes) e K R w) (encode_high sym_ops e K R (map (fun s => nth k s 0) w)) /\
  Forall2 (Rlane lanes k) (encode_low (shard_ops lanes) e K R w) (encode_low sym_ops e K R (map (fun s => nth k s 0) w)).
Proof. intros; split; [apply encode_high_lanes|apply encode_low_lanes]; assumption. Qed.
Print Assumptions C04_slot_encode.

Theorem C04_slot_decode : forall lanes k e K R recv w, (k < lanes)%nat -> Forall (fun s => length s = lanes) w ->
  Forall2 (Rlane lanes k) (snd (decode_high_work (shard_ops lanes) e K R recv w))
                          (snd (decode_high_work sym_ops e K R recv (map (fun s => nth k s 0) w))) /\
  Forall2 (Rlane lanes k) (snd (decode_low_work (shard_ops lanes) e K R recv w))
                          (snd (decode_low_work sym_ops e K R recv (map (fun s => nth k s 0) w))).
Proof. intros; split; [apply decode_high_lanes|apply decode_low_lanes]; assumption. Qed.
Print Assumptions C04_slot_decode.

(* ---- through the streaming API: every 16-bit slot of every recovery shard an encoder object returns for
   shards of ANY even size is what an encoder for 2-byte shards returns for that slot on its own
   (slot_shard l b = the 2-byte shard holding slot l of b); any codec, any two engines, recycled working
   space, stale memory ---- *)
From RS.Model Require Import Machine.
From RS.Proofs Require Import MachineOps MachineSlots.
Theorem C04_api_slotwise : forall (junk : N -> N -> N -> N), (forall a b c, junk a b c < 65536) ->
  forall (c : codec) (e1 e2 : engine) (K R sb ep1 ep2 : N) (o : list bytes) (l : nat),
  validateb c K R sb = None -> N.of_nat (length o) = K -> Forall (byteshard sb) o -> (l < N.to_nat (lanes_of sb))%nat ->
  forall (w1 w2 : encwork) (x01 x1 x02 x2 : encoder) (a1 a2 : bool),
  enc_make c e1 K R sb w1 = inl (x01, a1) -> enc_add_all x01 o = inl x1 ->
  enc_make c e2 K R 2 w2 = inl (x02, a2) -> enc_add_all x02 (map (slot_shard l) o) = inl x2 ->
  forall j, j < R ->
  nth (N.to_nat j) (encode_shards junk ep2 x2) [] = slot_shard l (nth (N.to_nat j) (encode_shards junk ep1 x1) []).
Proof. exact ops_encode_slotwise. Qed.
Print Assumptions C04_api_slotwise.
