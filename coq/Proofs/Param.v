(* Relational parametricity of the schedules and of encode: if the element operations of
   two instances are related by R (xor, multiply-by-constant, zero), the transforms map
   R-related vectors to R-related vectors.  Instances give linearity (C13), lane
   independence (C04) and engine-kernel independence (C03). *)
From Coq Require Import NArith Lia Bool List.
From RS.Gen Require Import Prelude GenConsts.
From RS.Model Require Import Field Tables Sched Codec.
From RS.Proofs Require FieldFacts.
Import ListNotations.
Local Open Scope N_scope.

Section Param.
Context {T1 T2 : Type} (o1 : elt_ops T1) (o2 : elt_ops T2) (R : T1 -> T2 -> Prop).
Variable skewf : N -> N.
Variable okm : N -> Prop.           (* the multipliers that actually occur (u16 values) *)
Hypothesis Hskew : forall i, okm (skewf i).
Hypothesis Rxor : forall a a' b b', R a a' -> R b b' -> R (xorT o1 a b) (xorT o2 a' b').
Hypothesis Rmul : forall a a' m, okm m -> R a a' -> R (mulT o1 a m) (mulT o2 a' m).
Hypothesis Rzero : R (zeroT o1) (zeroT o2).

Notation RL := (Forall2 R).

Lemma RL_firstn n : forall l l', RL l l' -> RL (firstn n l) (firstn n l').
Proof. induction n; intros l l' H; [constructor|]. destruct H; cbn; constructor; auto. Qed.
Lemma RL_skipn n : forall l l', RL l l' -> RL (skipn n l) (skipn n l').
Proof. induction n; intros l l' H; [exact H|]. destruct H; cbn; [constructor|auto]. Qed.
Lemma RL_app l1 l1' l2 l2' : RL l1 l1' -> RL l2 l2' -> RL (l1 ++ l2) (l1' ++ l2').
Proof. intros H1 H2. apply Forall2_app; assumption. Qed.
Lemma RL_length l l' : RL l l' -> length l = length l'.
Proof. induction 1; cbn; congruence. Qed.

Lemma R_muladd a a' b b' m : okm m -> R a a' -> R b b' -> R (muladd o1 a b m) (muladd o2 a' b' m).
Proof. intros. unfold muladd. destruct (m =? GF_MODULUS); auto. Qed.

Definition R2 (p : T1 * T1) (q : T2 * T2) : Prop := R (fst p) (fst q) /\ R (snd p) (snd q).
Lemma R_fft_bf m p q : okm m -> R2 p q -> R2 (fft_bf o1 m p) (fft_bf o2 m q).
Proof.
  destruct p as [a b], q as [a' b']. intros Hm [Ha Hb]. cbn in *. split; cbn.
  - apply R_muladd; assumption.
  - apply Rxor; [assumption|apply R_muladd; assumption].
Qed.
Lemma R_ifft_bf m p q : okm m -> R2 p q -> R2 (ifft_bf o1 m p) (ifft_bf o2 m q).
Proof.
  destruct p as [a b], q as [a' b']. intros Hm [Ha Hb]. cbn in *. split; cbn.
  - apply R_muladd; [assumption|assumption|apply Rxor; assumption].
  - apply Rxor; assumption.
Qed.

Lemma RL_combine l1 l1' l2 l2' : RL l1 l1' -> RL l2 l2' -> Forall2 R2 (combine l1 l2) (combine l1' l2').
Proof.
  intros H. revert l2 l2'. induction H; intros l2 l2' H2; [constructor|].
  destruct H2; cbn; constructor; [split; assumption|auto].
Qed.

Section BF.
Variables (bf1 : T1 * T1 -> T1 * T1) (bf2' : T2 * T2 -> T2 * T2).
Hypothesis Hbf : forall p q, R2 p q -> R2 (bf1 p) (bf2' q).
Lemma RL_bf2 a a' b b' : RL a a' -> RL b b' ->
  RL (fst (bf2 bf1 a b)) (fst (bf2 bf2' a' b')) /\ RL (snd (bf2 bf1 a b)) (snd (bf2 bf2' a' b')).
Proof.
  intros Ha Hb. unfold bf2. cbn. pose proof (RL_combine _ _ _ _ Ha Hb) as Hc.
  induction Hc as [|p q lp lq Hpq _ [IH1 IH2]]; cbn; [split; constructor|].
  destruct (Hbf _ _ Hpq). split; constructor; assumption.
Qed.
End BF.

Section Layer.
Variables (bfa : N -> T1 * T1 -> T1 * T1) (bfb : N -> T2 * T2 -> T2 * T2).
Hypothesis Hbf : forall m p q, okm m -> R2 p q -> R2 (bfa m p) (bfb m q).

Lemma RL_naive_layer fuel dist : forall r trunc sd l l', RL l l' ->
  RL (naive_layer skewf bfa fuel dist r trunc sd l) (naive_layer skewf bfb fuel dist r trunc sd l').
Proof.
  induction fuel as [|f IH]; intros r trunc sd l l' H; cbn [naive_layer]; [exact H|].
  destruct (r <? trunc); [|exact H].
  set (m := skewf _).
  pose proof (RL_bf2 (bfa m) (bfb m) (fun p q => Hbf m p q (Hskew _)) _ _ _ _ (RL_firstn dist _ _ H)
                     (RL_firstn dist _ _ (RL_skipn dist _ _ H))) as [H1 H2].
  destruct (bf2 (bfa m) _ _) as [x y]. destruct (bf2 (bfb m) _ _) as [x' y']. cbn in H1, H2.
  apply RL_app; [exact H1|]. apply RL_app; [exact H2|].
  apply IH. apply RL_skipn, RL_skipn, H.
Qed.
End Layer.

Lemma fold_left_RL {A} (f1 : list T1 -> A -> list T1) (f2 : list T2 -> A -> list T2) (ds : list A) :
  (forall l l' d, RL l l' -> RL (f1 l d) (f2 l' d)) -> forall l l', RL l l' -> RL (fold_left f1 ds l) (fold_left f2 ds l').
Proof. intros Hf. induction ds as [|d ds IH]; intros l l' H; cbn; [exact H|]. apply IH, Hf, H. Qed.

Lemma RL_naive_fft size trunc sd l l' : RL l l' ->
  RL (naive_fft o1 skewf size trunc sd l) (naive_fft o2 skewf size trunc sd l').
Proof.
  intros H. unfold naive_fft. apply fold_left_RL; [|exact H].
  intros. unfold naive_pass. apply RL_naive_layer; [intros; apply R_fft_bf; assumption|assumption].
Qed.
Lemma RL_naive_ifft size trunc sd l l' : RL l l' ->
  RL (naive_ifft o1 skewf size trunc sd l) (naive_ifft o2 skewf size trunc sd l').
Proof.
  intros H. unfold naive_ifft. apply fold_left_RL; [|exact H].
  intros. unfold naive_pass. apply RL_naive_layer; [intros; apply R_ifft_bf; assumption|assumption].
Qed.

(* ---------- two layers at a time ---------- *)
Definition R4 (p : (T1 * T1) * (T1 * T1)) (q : (T2 * T2) * (T2 * T2)) : Prop := R2 (fst p) (fst q) /\ R2 (snd p) (snd q).
Lemma R_fft_two m01 m23 m02 p q : okm m01 -> okm m23 -> okm m02 -> R4 p q -> R4 (fft_two o1 m01 m23 m02 p) (fft_two o2 m01 m23 m02 q).
Proof.
  destruct p as [[s0 s1] [s2 s3]], q as [[t0 t1] [t2 t3]]. intros K01 K23 K02 [[H0 H1] [H2 H3]]. cbn [fst snd] in *.
  unfold fft_two.
  pose proof (R_fft_bf m02 (s0, s2) (t0, t2) K02 (conj H0 H2)) as A.
  destruct (fft_bf o1 m02 (s0, s2)) as [a0 a2]. destruct (fft_bf o2 m02 (t0, t2)) as [b0 b2].
  pose proof (R_fft_bf m02 (s1, s3) (t1, t3) K02 (conj H1 H3)) as B.
  destruct (fft_bf o1 m02 (s1, s3)) as [a1 a3]. destruct (fft_bf o2 m02 (t1, t3)) as [b1 b3].
  destruct A as [A0 A2], B as [B1 B3]. cbn [fst snd] in *.
  split; cbn [fst snd]; apply R_fft_bf; try assumption; split; cbn [fst snd]; assumption.
Qed.
Lemma R_ifft_two m01 m23 m02 p q : okm m01 -> okm m23 -> okm m02 -> R4 p q -> R4 (ifft_two o1 m01 m23 m02 p) (ifft_two o2 m01 m23 m02 q).
Proof.
  destruct p as [[s0 s1] [s2 s3]], q as [[t0 t1] [t2 t3]]. intros K01 K23 K02 [[H0 H1] [H2 H3]]. cbn [fst snd] in *.
  unfold ifft_two.
  pose proof (R_ifft_bf m01 (s0, s1) (t0, t1) K01 (conj H0 H1)) as A.
  destruct (ifft_bf o1 m01 (s0, s1)) as [a0 a1]. destruct (ifft_bf o2 m01 (t0, t1)) as [b0 b1].
  pose proof (R_ifft_bf m23 (s2, s3) (t2, t3) K23 (conj H2 H3)) as B.
  destruct (ifft_bf o1 m23 (s2, s3)) as [a2 a3]. destruct (ifft_bf o2 m23 (t2, t3)) as [b2 b3].
  destruct A as [A0 A1], B as [B2 B3]. cbn [fst snd] in *.
  pose proof (R_ifft_bf m02 (a0, a2) (b0, b2) K02 (conj A0 B2)) as C.
  destruct (ifft_bf o1 m02 (a0, a2)) as [c0 c2]. destruct (ifft_bf o2 m02 (b0, b2)) as [d0 d2].
  pose proof (R_ifft_bf m02 (a1, a3) (b1, b3) K02 (conj A1 B3)) as D.
  destruct (ifft_bf o1 m02 (a1, a3)) as [c1 c3]. destruct (ifft_bf o2 m02 (b1, b3)) as [d1 d3].
  destruct C, D. cbn [fst snd] in *. repeat split; assumption.
Qed.

Lemma Forall2_map2 {A B C D} (P : A -> B -> Prop) (Q : C -> D -> Prop) (f : A -> C) (g : B -> D) l l' :
  (forall a b, P a b -> Q (f a) (g b)) -> Forall2 P l l' -> Forall2 Q (map f l) (map g l').
Proof. intros Hfg H. induction H; cbn; constructor; auto. Qed.

Lemma RL_combine4 a a' b b' c c' d d' : RL a a' -> RL b b' -> RL c c' -> RL d d' ->
  Forall2 R4 (combine (combine a b) (combine c d)) (combine (combine a' b') (combine c' d')).
Proof.
  intros Ha. revert b b' c c' d d'. induction Ha; intros b b' c c' d d' Hb Hc Hd; [constructor|].
  destruct Hb; [constructor|]. destruct Hc; [constructor|]. destruct Hd; [constructor|].
  cbn. constructor; [repeat split; assumption|]. apply IHHa; assumption.
Qed.

Section Two.
Variables (twa : N -> N -> N -> (T1 * T1) * (T1 * T1) -> (T1 * T1) * (T1 * T1))
          (twb : N -> N -> N -> (T2 * T2) * (T2 * T2) -> (T2 * T2) * (T2 * T2)).
Hypothesis Htw : forall a b c p q, okm a -> okm b -> okm c -> R4 p q -> R4 (twa a b c p) (twb a b c q).
Lemma RL_two_layer fuel dist : forall r trunc sd l l', RL l l' ->
  RL (two_layer skewf twa fuel dist r trunc sd l) (two_layer skewf twb fuel dist r trunc sd l').
Proof.
  induction fuel as [|f IH]; intros r trunc sd l l' H; cbn [two_layer]; [exact H|].
  destruct (r <? trunc); [|exact H].
  pose proof (RL_combine4 _ _ _ _ _ _ _ _
                (RL_firstn dist _ _ H) (RL_firstn dist _ _ (RL_skipn dist _ _ H))
                (RL_firstn dist _ _ (RL_skipn dist _ _ (RL_skipn dist _ _ H)))
                (RL_firstn dist _ _ (RL_skipn dist _ _ (RL_skipn dist _ _ (RL_skipn dist _ _ H))))) as Hq.
  match goal with |- context [map (twa ?a ?b ?c)] =>
    pose proof (Forall2_map2 R4 R4 (twa a b c) (twb a b c) _ _ (fun p q => Htw a b c p q (Hskew _) (Hskew _) (Hskew _)) Hq) as Hq' end.
  repeat apply RL_app.
  - eapply Forall2_map2; [|exact Hq']. intros ? ? [[? ?] _]. assumption.
  - eapply Forall2_map2; [|exact Hq']. intros ? ? [[? ?] _]. assumption.
  - eapply Forall2_map2; [|exact Hq']. intros ? ? [_ [? ?]]. assumption.
  - eapply Forall2_map2; [|exact Hq']. intros ? ? [_ [? ?]]. assumption.
  - apply IH. repeat apply RL_skipn. exact H.
Qed.
End Two.

Lemma RL_two_fft size trunc sd l l' : RL l l' ->
  RL (two_fft o1 skewf size trunc sd l) (two_fft o2 skewf size trunc sd l').
Proof.
  intros H. unfold two_fft. destruct (dists4_down 17 size (N.shiftr size 2)) as [ds d4].
  assert (H' : RL (fold_left (two_pass skewf (fft_two o1) trunc sd) ds l) (fold_left (two_pass skewf (fft_two o2) trunc sd) ds l')).
  { apply fold_left_RL; [|exact H]. intros a b d Hab. unfold two_pass. rewrite (RL_length _ _ Hab).
    apply RL_two_layer; [intros; apply R_fft_two; assumption|exact Hab]. }
  destruct (d4 =? 2); [|exact H']. apply RL_naive_layer; [intros; apply R_fft_bf; assumption|exact H'].
Qed.
Lemma RL_two_ifft size trunc sd l l' : RL l l' ->
  RL (two_ifft o1 skewf size trunc sd l) (two_ifft o2 skewf size trunc sd l').
Proof.
  intros H. unfold two_ifft. destruct (dists4_up 17 1 4 size) as [ds d].
  assert (H' : RL (fold_left (two_pass skewf (ifft_two o1) trunc sd) ds l) (fold_left (two_pass skewf (ifft_two o2) trunc sd) ds l')).
  { apply fold_left_RL; [|exact H]. intros a b d0 Hab. unfold two_pass. rewrite (RL_length _ _ Hab).
    apply RL_two_layer; [intros; apply R_ifft_two; assumption|exact Hab]. }
  destruct (d <? size); [|exact H'].
  set (m := skewf _).
  pose proof (RL_bf2 (ifft_bf o1 m) (ifft_bf o2 m) (fun p q => R_ifft_bf m p q (Hskew _)) _ _ _ _ (RL_firstn (N.to_nat d) _ _ H')
                     (RL_firstn (N.to_nat d) _ _ (RL_skipn (N.to_nat d) _ _ H'))) as [H1 H2].
  destruct (bf2 (ifft_bf o1 m) _ _) as [x y]. destruct (bf2 (ifft_bf o2 m) _ _) as [x' y']. cbn in H1, H2.
  apply RL_app; [exact H1|]. apply RL_app; [exact H2|]. apply RL_skipn, RL_skipn, H'.
Qed.
End Param.

(* ---------- engines, formal derivative, encode, decode ---------- *)
Section Param2.
Context {T1 T2 : Type} (o1 : elt_ops T1) (o2 : elt_ops T2) (R : T1 -> T2 -> Prop).
Definition okm (m : N) : Prop := m <= 65535.
Hypothesis Rxor : forall a a' b b', R a a' -> R b b' -> R (xorT o1 a b) (xorT o2 a' b').
Hypothesis Rmul : forall a a' m, okm m -> R a a' -> R (mulT o1 a m) (mulT o2 a' m).
Hypothesis Rzero : R (zeroT o1) (zeroT o2).
Notation RL := (Forall2 R).

Lemma skew_ok i : okm (skew i).
Proof.
  unfold okm, skew, GF_MODULUS.
  destruct (N.ltb_spec i 65535) as [Hi|Hi]; [|lia].
  assert (H : forallb (fun i => tget skew_tbl i <=? 65535) (rangeN 0 (N.to_nat 65536)) = true) by (vm_compute; reflexivity).
  apply N.leb_le. apply (FieldFacts.sweep16 _ H). unfold FieldFacts.W16. lia.
Qed.

Lemma RL_fft e size trunc sd l l' : RL l l' -> RL (fft o1 e size trunc sd l) (fft o2 e size trunc sd l').
Proof. intros H. unfold fft. destruct (two_layer_engine e); [apply (RL_two_fft _ _ _ _ okm)|apply (RL_naive_fft _ _ _ _ okm)]; auto using skew_ok. Qed.
Lemma RL_ifft e size trunc sd l l' : RL l l' -> RL (ifft o1 e size trunc sd l) (ifft o2 e size trunc sd l').
Proof. intros H. unfold ifft. destruct (two_layer_engine e); [apply (RL_two_ifft _ _ _ _ okm)|apply (RL_naive_ifft _ _ _ _ okm)]; auto using skew_ok. Qed.

Lemma RL_map2_xor a a' b b' : RL a a' -> RL b b' -> RL (map2 (xorT o1) a b) (map2 (xorT o2) a' b').
Proof.
  intros Ha. revert b b'. unfold map2. induction Ha; intros b b' Hb; [constructor|].
  destruct Hb; cbn; constructor; auto.
Qed.
Lemma RL_xor_list a a' b b' : RL a a' -> RL b b' -> RL (xor_list o1 a b) (xor_list o2 a' b').
Proof. apply RL_map2_xor. Qed.

Lemma RL_formal_derivative_rec k : forall l l', RL l l' -> RL (formal_derivative_rec o1 k l) (formal_derivative_rec o2 k l').
Proof.
  induction k as [|k IH]; intros l l' H; cbn [formal_derivative_rec]; [exact H|].
  apply (RL_app R).
  - apply RL_map2_xor; [apply IH, (RL_firstn R), H|apply (RL_skipn R), H].
  - apply IH, (RL_skipn R), H.
Qed.
Lemma RL_formal_derivative l l' : RL l l' -> RL (formal_derivative o1 l) (formal_derivative o2 l').
Proof. intros H. unfold formal_derivative. rewrite (RL_length R _ _ H). apply RL_formal_derivative_rec, H. Qed.

Lemma RL_zeros n : RL (zeros o1 n) (zeros o2 n).
Proof. induction n; cbn; constructor; auto. Qed.
Lemma RL_zero_tail keep l l' : RL l l' -> RL (zero_tail o1 keep l) (zero_tail o2 keep l').
Proof. intros H. unfold zero_tail. rewrite (RL_length R _ _ H). apply (RL_app R); [apply (RL_firstn R), H|apply RL_zeros]. Qed.

Lemma RL_chunks fuel m : forall l l', RL l l' -> Forall2 RL (chunks fuel m l) (chunks fuel m l').
Proof.
  induction fuel as [|f IH]; intros l l' H; cbn [chunks]; [constructor|].
  destruct H as [|x y l l' Hxy H]; [constructor|].
  constructor; [apply (RL_firstn R); constructor; assumption|]. apply IH, (RL_skipn R). constructor; assumption.
Qed.

Lemma RL_high_enc_chunks e K m : forall cl cl' cs acc acc', Forall2 RL cl cl' -> RL acc acc' ->
  RL (high_enc_chunks o1 e K m cs acc cl) (high_enc_chunks o2 e K m cs acc' cl').
Proof.
  induction cl as [|c cl IH]; intros cl' cs acc acc' Hc Ha; inversion Hc; subst; cbn [high_enc_chunks]; [exact Ha|].
  destruct (cs + m <=? K).
  - apply IH; [assumption|]. apply RL_xor_list; [exact Ha|]. apply RL_ifft. assumption.
  - destruct (0 <? K mod m); [|exact Ha]. apply RL_xor_list; [exact Ha|]. apply RL_ifft, RL_zero_tail. assumption.
Qed.

Theorem RL_encode_high e K Rc w w' : RL w w' -> RL (encode_high o1 e K Rc w) (encode_high o2 e K Rc w').
Proof.
  intros H. unfold encode_high. rewrite (RL_length R _ _ H).
  pose proof (RL_chunks (length w') (N.to_nat (np2 Rc)) _ _ H) as Hc.
  destruct Hc as [|c c' cl cl' Hcc Hcl]; [constructor|].
  apply (RL_firstn R), RL_fft.
  assert (H0 : RL (ifft o1 e (np2 Rc) (N.min K (np2 Rc)) (np2 Rc) (zero_tail o1 (N.to_nat (N.min K (np2 Rc))) c))
                  (ifft o2 e (np2 Rc) (N.min K (np2 Rc)) (np2 Rc) (zero_tail o2 (N.to_nat (N.min K (np2 Rc))) c')))
    by (apply RL_ifft, RL_zero_tail, Hcc).
  destruct (np2 Rc <? K); [|exact H0]. apply RL_high_enc_chunks; assumption.
Qed.

Lemma RL_low_enc_chunks e fuel Rc m : forall cs co co', RL co co' ->
  RL (low_enc_chunks o1 e fuel Rc m cs co) (low_enc_chunks o2 e fuel Rc m cs co').
Proof.
  induction fuel as [|f IH]; intros cs co co' H; cbn [low_enc_chunks]; [constructor|].
  destruct (cs + m <=? Rc).
  - apply (RL_app R); [apply RL_fft, H|apply IH, H].
  - destruct (0 <? Rc mod m); [apply RL_fft, H|constructor].
Qed.
Theorem RL_encode_low e K Rc w w' : RL w w' -> RL (encode_low o1 e K Rc w) (encode_low o2 e K Rc w').
Proof.
  intros H. unfold encode_low. apply (RL_firstn R), RL_low_enc_chunks, RL_ifft, RL_zero_tail, (RL_firstn R), H.
Qed.

(* ---------- eval_poly produces u16 values ---------- *)
Lemma add_mod_ok x y : okm x -> okm y -> okm (add_mod x y).
Proof. unfold okm, add_mod. intros. cbv zeta. destruct (x + y <? 65536) eqn:E; [apply N.ltb_lt in E|apply N.ltb_ge in E]; lia. Qed.
Lemma sub_mod_ok x y : okm x -> okm y -> okm (sub_mod x y).
Proof. unfold okm, sub_mod. intros. destruct (y <=? x) eqn:E; [apply N.leb_le in E|apply N.leb_gt in E]; lia. Qed.

Notation OK := (Forall okm).
Lemma OK_firstn n l : OK l -> OK (firstn n l).
Proof. intros H. revert n. induction H; intros [|n]; cbn; constructor; auto. Qed.
Lemma OK_skipn n l : OK l -> OK (skipn n l).
Proof. intros H. revert n. induction H; intros [|n]; cbn; auto. Qed.
Lemma OK_app a b : OK a -> OK b -> OK (a ++ b).
Proof. intros. apply Forall_app. split; assumption. Qed.

Definition ok4 (q : (N * N) * (N * N)) : Prop := okm (fst (fst q)) /\ okm (snd (fst q)) /\ okm (fst (snd q)) /\ okm (snd (snd q)).
Lemma fwht_4v_ok q : ok4 q -> ok4 (fwht_4v q).
Proof.
  destruct q as [[a b] [c d]]. intros (Ha & Hb & Hc & Hd). cbn [fst snd] in *. unfold fwht_4v, fwht_2.
  repeat split; cbn [fst snd]; repeat (apply add_mod_ok || apply sub_mod_ok); assumption.
Qed.
Lemma ok4_combine a b c d : OK a -> OK b -> OK c -> OK d -> Forall ok4 (combine (combine a b) (combine c d)).
Proof.
  intros Ha. revert b c d. induction Ha; intros b c d Hb Hc Hd; [constructor|].
  destruct Hb; [constructor|]. destruct Hc; [constructor|]. destruct Hd; [constructor|].
  cbn. constructor; [repeat split; assumption|]. apply IHHa; assumption.
Qed.
Lemma Forall_map_imp {A B} (P : A -> Prop) (Q : B -> Prop) (f : A -> B) l : (forall a, P a -> Q (f a)) -> Forall P l -> Forall Q (map f l).
Proof. intros Hf H. induction H; cbn; constructor; auto. Qed.

Lemma fwht_layer_ok fuel dist : forall r t l, OK l -> OK (fwht_layer fuel dist r t l).
Proof.
  induction fuel as [|f IH]; intros r t l H; cbn [fwht_layer]; [exact H|].
  destruct (r <? t); [|exact H].
  pose proof (ok4_combine _ _ _ _ (OK_firstn dist _ H) (OK_firstn dist _ (OK_skipn dist _ H))
                (OK_firstn dist _ (OK_skipn dist _ (OK_skipn dist _ H)))
                (OK_firstn dist _ (OK_skipn dist _ (OK_skipn dist _ (OK_skipn dist _ H))))) as Hq.
  pose proof (Forall_map_imp ok4 ok4 fwht_4v _ fwht_4v_ok Hq) as Hq'.
  repeat apply OK_app.
  - eapply Forall_map_imp; [|exact Hq']. intros ? (? & _). assumption.
  - eapply Forall_map_imp; [|exact Hq']. intros ? (_ & ? & _). assumption.
  - eapply Forall_map_imp; [|exact Hq']. intros ? (_ & _ & ? & _). assumption.
  - eapply Forall_map_imp; [|exact Hq']. intros ? (_ & _ & _ & ?). assumption.
  - apply IH. repeat apply OK_skipn. exact H.
Qed.
Lemma fwht_ok l t : OK l -> OK (fwht l t).
Proof.
  intros H. unfold fwht. generalize fwht_dists as ds. intros ds. revert l H.
  induction ds as [|d ds IH]; intros l H; cbn; [exact H|]. apply IH. unfold fwht_pass. apply fwht_layer_ok, H.
Qed.
Lemma OK_combine a b : OK a -> OK b -> Forall (fun p => okm (fst p) /\ okm (snd p)) (combine a b).
Proof. intros Ha. revert b. induction Ha; intros b Hb; [constructor|]. destruct Hb; cbn; constructor; auto. Qed.
Lemma in_rangeN i n : forall a, In i (rangeN a n) -> a <= i < a + N.of_nat n.
Proof.
  induction n as [|n IH]; intros a H; [destruct H|]. destruct H as [<-|H]; [lia|]. apply IH in H. lia.
Qed.
Lemma in_range i a b : In i (range a b) -> a <= i < a + (b - a).
Proof. unfold range. intros H. apply in_rangeN in H. rewrite N2Nat.id in H. exact H. Qed.
Lemma OK_log_walsh : OK log_walsh.
Proof.
  unfold log_walsh. apply fwht_ok. apply Forall_forall. intros v Hv. apply in_map_iff in Hv.
  destruct Hv as (i & <- & Hi). apply in_range in Hi.
  assert (H : forallb (fun v => glog v <=? 65535) (rangeN 0 (N.to_nat 65536)) = true) by (vm_compute; reflexivity).
  destruct (i =? 0); [unfold okm; lia|]. apply N.leb_le. apply (FieldFacts.sweep16 _ H). unfold FieldFacts.W16, GF_ORDER in *. lia.
Qed.
Lemma eval_poly_ok er t : OK er -> OK (eval_poly er t).
Proof.
  intros H. unfold eval_poly. apply fwht_ok.
  pose proof (OK_combine _ _ (fwht_ok er t H) OK_log_walsh) as Hc.
  eapply Forall_map_imp; [|exact Hc]. intros [a b] [Ha Hb]. cbn [fst snd] in *. unfold okm in *.
  apply add_mod_ok; unfold okm.
  - pose proof (N.land_ones (a * b) 16) as E. change (N.ones 16) with 65535 in E. rewrite E.
    pose proof (N.mod_upper_bound (a * b) (2 ^ 16) ltac:(cbn; lia)). change (2 ^ 16) with 65536 in *. lia.
  - rewrite N.shiftr_div_pow2. change (2 ^ 16) with 65536.
    assert (a * b <= 65535 * 65535) by (apply N.mul_le_mono; assumption).
    apply N.div_le_upper_bound; lia.
Qed.

(* decode: the erasure-locator values do not depend on the element type *)
Lemma RL_mapi (f1 : N -> N -> T1 -> T1) (f2 : N -> N -> T2 -> T2) er l l' :
  (forall i ei x y, okm ei -> R x y -> R (f1 i ei x) (f2 i ei y)) -> OK er -> RL l l' -> RL (mapi f1 er l) (mapi f2 er l').
Proof.
  intros Hf Her H. unfold mapi. rewrite (RL_length R _ _ H).
  assert (Hie : Forall (fun p => okm (snd p)) (combine (range 0 (N.of_nat (length l'))) er)).
  { generalize (range 0 (N.of_nat (length l'))) as rg. induction Her; intros [|r rg]; cbn; constructor; auto. }
  revert Hie. generalize (combine (range 0 (N.of_nat (length l'))) er) as ie. intros ie Hie. revert ie Hie.
  induction H; intros ie Hie; destruct ie as [|[i ei] ie]; cbn; try constructor; inversion Hie; subst; auto.
Qed.
Lemma OK_erasures (f : N -> N) : (forall i, f i <= 1) -> OK (map f (range 0 GF_ORDER)).
Proof. intros Hf. apply Forall_forall. intros v Hv. apply in_map_iff in Hv. destruct Hv as (i & <- & _). unfold okm. specialize (Hf i). lia. Qed.
Lemma RL_transform e n trunc w w' : RL w w' -> RL (transform o1 e n trunc w) (transform o2 e n trunc w').
Proof. intros H. unfold transform. apply RL_fft, RL_formal_derivative, RL_ifft, H. Qed.

Theorem RL_decode_high e K Rc recv w w' : RL w w' ->
  fst (decode_high_work o1 e K Rc recv w) = fst (decode_high_work o2 e K Rc recv w') /\
  RL (snd (decode_high_work o1 e K Rc recv w)) (snd (decode_high_work o2 e K Rc recv w')).
Proof.
  intros H. unfold decode_high_work. cbn [fst snd]. split; [reflexivity|]. rewrite (RL_length R _ _ H).
  assert (Her : OK (eval_poly (high_erasures K Rc recv) (np2 Rc + K))).
  { apply eval_poly_ok, OK_erasures. intros i. repeat (destruct (_ <? _)); try destruct (recv i); lia. }
  apply RL_mapi; [|exact Her|].
  - intros i ei x y Hei Hxy. destruct ((np2 Rc <=? i) && (i <? np2 Rc + K)); [|exact Hxy].
    unfold reveal. destruct (recv i); [exact Hxy|apply Rmul; [unfold okm, GF_MODULUS; lia|exact Hxy]].
  - apply RL_transform, RL_mapi; [|exact Her|exact H].
    intros i ei x y Hei Hxy. unfold mul_or_zero.
    destruct (i <? Rc); [destruct (recv i); [apply Rmul; assumption|exact Rzero]|].
    destruct (i <? np2 Rc); [exact Rzero|].
    destruct (i <? np2 Rc + K); [destruct (recv i); [apply Rmul; assumption|exact Rzero]|exact Rzero].
Qed.
Theorem RL_decode_low e K Rc recv w w' : RL w w' ->
  fst (decode_low_work o1 e K Rc recv w) = fst (decode_low_work o2 e K Rc recv w') /\
  RL (snd (decode_low_work o1 e K Rc recv w)) (snd (decode_low_work o2 e K Rc recv w')).
Proof.
  intros H. unfold decode_low_work. cbn [fst snd]. split; [reflexivity|]. rewrite (RL_length R _ _ H).
  assert (Her : OK (eval_poly (low_erasures K Rc recv) GF_ORDER)).
  { apply eval_poly_ok, OK_erasures. intros i. repeat (destruct (_ <? _)); try destruct (recv i); lia. }
  apply RL_mapi; [|exact Her|].
  - intros i ei x y Hei Hxy. destruct (i <? K); [|exact Hxy].
    unfold reveal. destruct (recv i); [exact Hxy|apply Rmul; [unfold okm, GF_MODULUS; lia|exact Hxy]].
  - apply RL_transform, RL_mapi; [|exact Her|exact H].
    intros i ei x y Hei Hxy. unfold mul_or_zero.
    destruct (i <? K); [destruct (recv i); [apply Rmul; assumption|exact Rzero]|].
    destruct (i <? np2 K); [exact Rzero|].
    destruct (i <? np2 K + Rc); [destruct (recv i); [apply Rmul; assumption|exact Rzero]|exact Rzero].
Qed.
End Param2.
