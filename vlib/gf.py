# Independent GF(2^16) arithmetic for the Python-side oracles (C13 scaling): built only from the two
# published constants (field polynomial 0x1002D, Cantor basis), no code shared with the crate or the model.
POLY = 0x1002D
CANTOR = [0x0001, 0xACCA, 0x3C0E, 0x163E, 0xC582, 0xED2E, 0x914C, 0x4012, 0x6C98, 0x10D8, 0x6A72, 0xB900,
          0xFDB8, 0xFB34, 0xFF38, 0x991E]


def _phi(x):
    r = 0
    for i in range(16):
        if (x >> i) & 1:
            r ^= CANTOR[i]
    return r


def _pmul(a, b):
    r = 0
    while b:
        if b & 1:
            r ^= a
        a <<= 1
        if a & 0x10000:
            a ^= POLY
        b >>= 1
    return r


_PHI = [_phi(x) for x in range(65536)]
_INV = [0] * 65536
for _i, _p in enumerate(_PHI):
    _INV[_p] = _i
_cache = {}


def mul_const_table(c):
    """table x -> c*x in the Cantor representation"""
    t = _cache.get(c)
    if t is None:
        pc = _PHI[c]
        # linear in x: build from 16 basis images
        basis = [_INV[_pmul(_PHI[1 << i], pc)] for i in range(16)]
        t = [0] * 65536
        for x in range(1, 65536):
            low = x & -x
            t[x] = t[x ^ low] ^ basis[low.bit_length() - 1]
        if len(_cache) > 64:
            _cache.clear()
        _cache[c] = t
    return t


def fmul(a, b):
    return _INV[_pmul(_PHI[a], _PHI[b])]


def scale_shard(shard, c):
    """multiply every 16-bit symbol slot of a shard (documented byte placement) by the constant c"""
    t = mul_const_table(c)
    sb = len(shard)
    out = bytearray(sb)
    full = sb // 64
    for qb in range(full):
        for r in range(32):
            lo, hi = 64 * qb + r, 64 * qb + 32 + r
            p = t[shard[lo] | (shard[hi] << 8)]
            out[lo] = p & 255
            out[hi] = p >> 8
    tl = sb % 64
    for r in range(tl // 2):
        lo, hi = 64 * full + r, 64 * full + tl // 2 + r
        p = t[shard[lo] | (shard[hi] << 8)]
        out[lo] = p & 255
        out[hi] = p >> 8
    return bytes(out)
