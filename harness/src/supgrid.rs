//! `rsh supgrid <lo> <hi>`: for every K in lo..=hi print
//! `K rmax_def rmax_high rmax_low ok|bad` where `rmax_x` is the number of R in
//! 0..=65537 with `supports(K,R)` and `ok` means that for all three codecs the
//! supported set is exactly the interval `1..=rmax_x`.

use std::io::Write;

use reed_solomon_simd::{
    engine::NoSimd,
    rate::{DefaultRate, HighRate, LowRate, Rate},
};

const R_MAX: usize = 65537;

/// (count, supported set is exactly 1..=count)
fn scan<Rt: Rate<NoSimd>>(k: usize) -> (usize, bool) {
    let mut count = 0usize;
    let mut min = usize::MAX;
    let mut max = 0usize;
    for r in 0..=R_MAX {
        if Rt::supports(k, r) {
            count += 1;
            min = min.min(r);
            max = max.max(r);
        }
    }
    (count, count == 0 || (min == 1 && max == count))
}

fn line(k: usize) -> String {
    let (d, dok) = scan::<DefaultRate<NoSimd>>(k);
    let (h, hok) = scan::<HighRate<NoSimd>>(k);
    let (l, lok) = scan::<LowRate<NoSimd>>(k);
    format!(
        "{k} {d} {h} {l} {}\n",
        if dok && hok && lok { "ok" } else { "bad" }
    )
}

pub fn supgrid(lo: usize, hi: usize) -> i32 {
    if lo > hi {
        return 0;
    }
    let total = hi - lo + 1;
    let nthreads = std::thread::available_parallelism()
        .map(|n| n.get())
        .unwrap_or(1)
        .min(total)
        .max(1);

    // Thread t handles K = lo+t, lo+t+nthreads, ... (strided for balance).
    let mut parts: Vec<Vec<String>> = Vec::new();
    std::thread::scope(|s| {
        let handles: Vec<_> = (0..nthreads)
            .map(|t| {
                s.spawn(move || {
                    let mut v = Vec::new();
                    let mut k = lo + t;
                    while k <= hi {
                        v.push(line(k));
                        match k.checked_add(nthreads) {
                            Some(n) => k = n,
                            None => break,
                        }
                    }
                    v
                })
            })
            .collect();
        for h in handles {
            parts.push(h.join().expect("supgrid worker panicked"));
        }
    });

    let stdout = std::io::stdout();
    let mut w = std::io::BufWriter::new(stdout.lock());
    for i in 0..total {
        let _ = w.write_all(parts[i % nthreads][i / nthreads].as_bytes());
    }
    let _ = w.flush();
    0
}
