(* C04: bytes <-> 16-bit symbols are mutually inverse for EVERY even shard size (the packed view
   of the model): 64-byte blocks of 32 low bytes then 32 high bytes, the final block of t bytes
   as t/2 low bytes then t/2 high bytes. *)
From Coq Require Import NArith Arith Lia Bool List.
From RS.Model Require Import Field Layout.
From RS.Proofs Require Import FieldFacts Linear SchedEquiv.
Import ListNotations.
Local Open Scope N_scope.

Lemma sym_bytes lo hi : lo < 256 -> hi < 256 -> lo_byte (sym lo hi) = lo /\ hi_byte (sym lo hi) = hi /\ W16 (sym lo hi).
Proof.
  intros Hl Hh. unfold lo_byte, hi_byte, sym, W16. change 255 with (N.ones 8). rewrite N.land_ones, N.shiftr_div_pow2.
  change (2 ^ 8) with 256. repeat split.
  - replace (lo + 256 * hi) with (lo + hi * 256) by lia. rewrite N.mod_add by lia. apply N.mod_small. exact Hl.
  - replace (lo + 256 * hi) with (lo + hi * 256) by lia. rewrite N.div_add by lia. rewrite N.div_small by exact Hl. reflexivity.
  - lia.
Qed.

Lemma div2_double n : Nat.div2 (n + n) = n.
Proof. induction n as [|n IH]; [reflexivity|]. rewrite Nat.add_succ_r. cbn. f_equal. exact IH. Qed.

Lemma group_rt : forall lo hi, length lo = length hi -> Forall byte lo -> Forall byte hi ->
  let s := map (fun p => sym (fst p) (snd p)) (combine lo hi) in
  map lo_byte s = lo /\ map hi_byte s = hi /\ length s = length lo /\ Forall W16 s.
Proof.
  induction lo as [|x lo IH]; intros [|y hi] L Bl Bh; cbn in L; try discriminate.
  - cbn. repeat split; constructor.
  - inversion Bl as [|? ? Hx Bl']; subst. inversion Bh as [|? ? Hy Bh']; subst.
    destruct (IH hi ltac:(lia) Bl' Bh') as (E1 & E2 & E3 & E4). cbv zeta in *.
    destruct (sym_bytes x y Hx Hy) as (S1 & S2 & S3).
    cbn [combine map fst snd length]. rewrite S1, S2, E1, E2, E3. repeat split; try reflexivity. constructor; assumption.
Qed.

Lemma group_roundtrip (g : list N) h : length g = (h + h)%nat -> Forall byte g ->
  group_bytes (group_syms g) = g /\ length (group_syms g) = h /\ Forall W16 (group_syms g).
Proof.
  intros Lg Hb. unfold group_syms. rewrite Lg, div2_double.
  assert (Llo : length (firstn h g) = h) by (rewrite firstn_length; lia).
  assert (Lhi : length (skipn h g) = h) by (rewrite skipn_length; lia).
  destruct (group_rt (firstn h g) (skipn h g) ltac:(lia) ltac:(apply Forall_firstn; exact Hb) ltac:(apply Forall_skipn; exact Hb))
    as (E1 & E2 & E3 & E4). cbv zeta in *.
  unfold group_bytes. rewrite E1, E2, E3, firstn_skipn. auto.
Qed.

(* whole shards *)
Lemma bos_step f (s : list N) : (0 < length s)%nat ->
  bytes_of_syms_fuel (S f) s = group_bytes (firstn 32 s) ++ bytes_of_syms_fuel f (skipn 32 s).
Proof. intros H. destruct s; [cbn in H; lia|reflexivity]. Qed.

Lemma syms_fuel : forall f (bs : list N) q, length bs = (q + q)%nat -> (length bs <= 64 * f)%nat -> Forall byte bs ->
  let s := syms_of_bytes_fuel f bs in
  length s = q /\ Forall W16 s /\ forall f', (q <= 32 * f')%nat -> bytes_of_syms_fuel f' s = bs.
Proof.
  induction f as [|f IH]; intros bs q Lb Lf Hb.
  - destruct bs; [|cbn in Lf; lia]. cbn in Lb. assert (q = 0)%nat by lia. subst q. cbn.
    repeat split; try constructor. intros f' _. destruct f'; reflexivity.
  - cbn [syms_of_bytes_fuel]. destruct bs as [|b0 bs'] eqn:Ebs.
    { cbn in Lb. assert (q = 0)%nat by lia. subst q. cbn. repeat split; try constructor. intros f' _. destruct f'; reflexivity. }
    assert (Hne : (0 < length bs)%nat) by (rewrite Ebs; cbn; lia). rewrite <- Ebs in *. clear Ebs b0 bs'.
    destruct (Nat.le_gt_cases 64 (length bs)) as [Hge|Hlt].
    + (* a full block *)
      assert (L1 : length (firstn 64 bs) = (32 + 32)%nat) by (rewrite firstn_length; lia).
      destruct (group_roundtrip (firstn 64 bs) 32 L1 ltac:(apply Forall_firstn; exact Hb)) as (G1 & G2 & G3).
      assert (L2 : length (skipn 64 bs) = ((q - 32) + (q - 32))%nat) by (rewrite skipn_length; lia).
      destruct (IH (skipn 64 bs) (q - 32)%nat L2 ltac:(rewrite skipn_length; lia) ltac:(apply Forall_skipn; exact Hb)) as (I1 & I2 & I3).
      cbv zeta in *. split; [rewrite app_length, G2, I1; lia|]. split; [apply Forall_app; split; assumption|].
      intros f' Hf'. destruct f' as [|f']; [lia|]. rewrite bos_step by (rewrite app_length, G2; lia).
      rewrite firstn_app_le' by lia. rewrite firstn_all2 by lia.
      rewrite skipn_app_le' by lia. rewrite skipn_all2 by lia. cbn [app].
      rewrite G1, I3 by lia. apply firstn_skipn.
    + (* the final, partial block *)
      rewrite firstn_all2 by lia. rewrite skipn_all2 by lia.
      destruct (group_roundtrip bs q Lb Hb) as (G1 & G2 & G3).
      assert (E0 : syms_of_bytes_fuel f [] = []) by (destruct f; reflexivity). rewrite E0, app_nil_r. cbv zeta.
      split; [exact G2|]. split; [exact G3|].
      intros f' Hf'. destruct f' as [|f']; [lia|]. rewrite bos_step by (rewrite G2; lia).
      rewrite firstn_all2 by lia. rewrite skipn_all2 by lia.
      assert (E1 : bytes_of_syms_fuel f' [] = []) by (destruct f'; reflexivity). rewrite E1, app_nil_r. exact G1.
Qed.

Theorem pack_unpack (bs : list N) q : length bs = (q + q)%nat -> Forall byte bs ->
  bytes_of_syms (syms_of_bytes bs) = bs /\ length (syms_of_bytes bs) = q /\ Forall W16 (syms_of_bytes bs).
Proof.
  intros Lb Hb. unfold syms_of_bytes, bytes_of_syms.
  assert (Hf : (length bs <= 64 * S (length bs / 64))%nat).
  { pose proof (Nat.div_mod (length bs) 64 ltac:(lia)). pose proof (Nat.mod_upper_bound (length bs) 64 ltac:(lia)). lia. }
  destruct (syms_fuel (S (length bs / 64)) bs q Lb Hf Hb) as (S1 & S2 & S3). cbv zeta in *.
  split; [|split; assumption]. apply S3. rewrite S1.
  pose proof (Nat.div_mod q 32 ltac:(lia)). pose proof (Nat.mod_upper_bound q 32 ltac:(lia)). lia.
Qed.

