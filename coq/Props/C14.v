(* C14 — the default engine runs only SIMD code the CPU reports and picks the best.
   Statements are about Gen/GenDispatch.v (regenerated from engine_default.rs and the
   SIMD engine files on every run); the mask space is finite, so each is decided by
   computation over all subsets of the architecture's features. *)
From Coq Require Import NArith Bool List String.
From RS.Gen Require Import Prelude GenDispatch.
From RS.Model Require Import Dispatch.
Import ListNotations.
Local Open Scope string_scope.

Definition archs := ["x86"; "aarch64"].
Definition all_masks (arch : string) := subsets (arch_features arch).

(* only reported features: the selected engine is portable or compiled for a reported ISA *)
Definition reported_ok chain fb :=
  forallb (fun arch => forallb (fun mask =>
    let isa := isa_of (select chain fb arch mask) in
    String.eqb isa "" || reports mask isa) (all_masks arch)) archs.
(* best: no reported feature outranks the ISA of the selected engine *)
Definition best_ok chain fb :=
  forallb (fun arch => forallb (fun mask =>
    forallb (fun f => Nat.leb (rank f) (rank (isa_of (select chain fb arch mask)))) mask) (all_masks arch)) archs.

Theorem C14_reported : reported_ok new_chain new_fallback = true /\ reported_ok evalpoly_chain evalpoly_fallback = true.
Proof. vm_compute. split; reflexivity. Qed.
Print Assumptions C14_reported.

Theorem C14_best : best_ok new_chain new_fallback = true /\ best_ok evalpoly_chain evalpoly_fallback = true.
Proof. vm_compute. split; reflexivity. Qed.
Print Assumptions C14_best.

(* polynomial evaluation during decode is dispatched exactly like construction *)
Theorem C14_agree : forall arch mask, In arch archs -> In mask (all_masks arch) ->
  select evalpoly_chain evalpoly_fallback arch mask = select new_chain new_fallback arch mask.
Proof.
  assert (H : forallb (fun arch => forallb (fun mask =>
            String.eqb (select evalpoly_chain evalpoly_fallback arch mask) (select new_chain new_fallback arch mask))
            (all_masks arch)) archs = true) by (vm_compute; reflexivity).
  intros arch mask Ha Hm. rewrite forallb_forall in H. specialize (H arch Ha).
  rewrite forallb_forall in H. apply String.eqb_eq. apply H. exact Hm.
Qed.
Print Assumptions C14_agree.

(* the portable engine is the fallback when nothing is reported *)
Theorem C14_fallback : forall arch, In arch archs ->
  select new_chain new_fallback arch [] = "NoSimd" /\ select evalpoly_chain evalpoly_fallback arch [] = "NoSimd" /\
  isa_of "NoSimd" = "".
Proof. intros arch [<-|[<-|[]]]; vm_compute; repeat split. Qed.
Print Assumptions C14_fallback.

(* fft / ifft / mul of DefaultEngine only forward to the selected engine, and every trait
   method of a SIMD engine reaches only entry points compiled for that engine's ISA *)
Theorem C14_entry :
  forallb snd delegation = true /\ map fst delegation = ["fft"; "ifft"; "mul"] /\
  entry_ok "Avx2" = true /\ entry_ok "Ssse3" = true /\ entry_ok "Neon" = true /\
  isa_of "Avx2" = "avx2" /\ isa_of "Ssse3" = "ssse3" /\ isa_of "Neon" = "neon".
Proof. vm_compute. repeat split. Qed.
Print Assumptions C14_entry.

(* the intrinsics each SIMD file uses belong to its own ISA family (name prefix) *)
Definition prefix_ok (e : string) (ok : string -> bool) : bool :=
  match find (fun t => String.eqb (fst t) e) intrinsics with
  | Some t => forallb ok (snd t)
  | None => false
  end.
Theorem C14_intrinsics :
  prefix_ok "Ssse3" (fun i => String.prefix "_mm_" i) = true /\
  prefix_ok "Avx2" (fun i => String.prefix "_mm256_" i || String.eqb i "_mm_loadu_si128") = true /\
  prefix_ok "Neon" (fun i => String.prefix "v" i) = true.
Proof. vm_compute. repeat split. Qed.
Print Assumptions C14_intrinsics.
