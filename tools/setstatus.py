#!/usr/bin/env python3
"""Propagate status.json (per-property proof status and coverage text) into MANIFEST.json
(level_claimed.text) and the table of DESIGN.md section 10.2.  Usage: tools/setstatus.py"""
import json, re, os
root = os.path.dirname(os.path.dirname(os.path.abspath(__file__)))
st = json.load(open(os.path.join(root, 'status.json')))
m = json.load(open(os.path.join(root, 'MANIFEST.json')))
for c in m['checks']:
    pid = c['property_id']
    kind, text = st[pid]
    tag = '[proof + correspondence] ' if kind == 'proof' else '[partial proof + correspondence] '
    c['level_claimed']['text'] = tag + text
json.dump(m, open(os.path.join(root, 'MANIFEST.json'), 'w'), indent=1)
d = open(os.path.join(root, 'DESIGN.md')).read().split('\n')
out = []
for line in d:
    mm = re.match(r'^\| (C\d\d) \| (proof|partial) \| ', line)
    if mm and mm.group(1) in st:
        kind, text = st[mm.group(1)]
        line = '| %s | %s | %s |' % (mm.group(1), kind, text)
    out.append(line)
open(os.path.join(root, 'DESIGN.md'), 'w').write('\n'.join(out))
print('ok')
