(* C04 through the streaming API: coding shards of any even size gives, in every 16-bit slot, what
   coding that slot on its own as 2-byte shards gives (any codec, engines, recycled work, stale memory). *)
From Coq Require Import NArith Arith Lia Bool List FMapPositive.
From RS.Gen Require Import Prelude GenConsts.
From RS.Model Require Import Field Tables Sched Codec Layout Machine Spec.
From RS.Proofs Require Import RateFacts FieldFacts LayoutFacts LayoutFacts2 PermFacts MachineOps MachineEnc MachineLin.
Import ListNotations.
Local Open Scope N_scope.

(* slot l of a shard as a 2-byte shard *)
Definition slot_shard (l : nat) (b : bytes) : bytes := bytes_of_syms [nth l (syms_of_bytes b) 0].

Lemma slot_shard_facts sb l b : N.even sb = true -> byteshard sb b -> (l < N.to_nat (lanes_of sb))%nat ->
  byteshard 2 (slot_shard l b) /\ syms_of_bytes (slot_shard l b) = [nth l (syms_of_bytes b) 0].
Proof.
  intros He Hb Hl. destruct (byteshard_syms sb b He Hb) as (L & Wb & _).
  assert (Wv : Forall W16 [nth l (syms_of_bytes b) 0]).
  { constructor; [|constructor]. rewrite Forall_forall in Wb. apply Wb. apply nth_In. rewrite L. exact Hl. }
  destruct (unpack_pack _ Wv) as (U1 & U2 & U3). unfold slot_shard. split; [|exact U1].
  split; [unfold blen; rewrite U2; reflexivity|exact U3].
Qed.

Section Slots.
Variable junk : N -> N -> N -> N.
Hypothesis Hjunk : forall a b c, junk a b c < 65536.
Variables (c : codec) (e1 e2 : engine) (K R sb ep1 ep2 : N) (o : list bytes) (l : nat).
Hypothesis Hval : validateb c K R sb = None.
Hypothesis Lo : N.of_nat (length o) = K.
Hypothesis Bo : Forall (byteshard sb) o.
Hypothesis Hl : (l < N.to_nat (lanes_of sb))%nat.
Variables (w1 w2 : encwork) (x01 x1 x02 x2 : encoder) (a1 a2 : bool).
Hypothesis H01 : enc_make c e1 K R sb w1 = inl (x01, a1).
Hypothesis H1 : enc_add_all x01 o = inl x1.
Hypothesis H02 : enc_make c e2 K R 2 w2 = inl (x02, a2).
Hypothesis H2 : enc_add_all x02 (map (slot_shard l) o) = inl x2.

Theorem ops_encode_slotwise : forall j, j < R ->
  nth (N.to_nat j) (encode_shards junk ep2 x2) [] = slot_shard l (nth (N.to_nat j) (encode_shards junk ep1 x1) []).
Proof.
  intros j Hj.
  assert (Hs : supportsb c K R = true /\ bad_size sb = false).
  { unfold validateb in Hval. destruct (supportsb c K R); cbn in Hval; [|discriminate]. destruct (bad_size sb); [discriminate|auto]. }
  destruct Hs as [Hs Hbs].
  assert (Hev : N.even sb = true).
  { unfold bad_size in Hbs. apply orb_false_iff in Hbs. destruct Hbs as [_ Ho]. rewrite <- N.negb_odd, Ho. reflexivity. }
  assert (Hval2 : validateb c K R 2 = None) by (unfold validateb; rewrite Hs; reflexivity).
  assert (L2 : N.of_nat (length (map (slot_shard l) o)) = K) by (rewrite map_length; exact Lo).
  assert (B2 : Forall (byteshard 2) (map (slot_shard l) o)).
  { apply Forall_forall. intros b Hb. apply in_map_iff in Hb. destruct Hb as (b0 & <- & Hb0). rewrite Forall_forall in Bo.
    apply (slot_shard_facts sb l b0 Hev (Bo b0 Hb0) Hl). }
  set (s1 := nth (N.to_nat j) (encode_shards junk ep1 x1) []).
  set (s2 := nth (N.to_nat j) (encode_shards junk ep2 x2) []).
  assert (Q2 : byteshard 2 s2) by (apply (enc_out_byteshard junk Hjunk c e2 K R 2 ep2 _ Hval2 L2 B2 w2 x02 x2 a2 H02 H2 j Hj)).
  destruct (byteshard_syms 2 s2 eq_refl Q2) as (Ls2 & Ws2 & Rs2).
  rewrite <- Rs2. unfold slot_shard. f_equal.
  change (N.to_nat (lanes_of 2)) with 1%nat in Ls2.
  destruct (syms_of_bytes s2) as [|v [|v' t]] eqn:Es; cbn in Ls2; try discriminate. f_equal.
  assert (E2 : v = nth 0 (syms_of_bytes s2) 0) by (rewrite Es; reflexivity). rewrite E2. unfold s1, s2.
  rewrite (ops_encode_cauchy junk Hjunk c e1 K R sb ep1 o Hval Lo Bo w1 x01 x1 a1 H01 H1 j l Hj Hl).
  rewrite (ops_encode_cauchy junk Hjunk c e2 K R 2 ep2 _ Hval2 L2 B2 w2 x02 x2 a2 H02 H2 j 0 Hj ltac:(change (N.to_nat (lanes_of 2)) with 1%nat; lia)).
  assert (Eslot : slot (map (slot_shard l) o) 0 = slot o l).
  { unfold slot. rewrite map_map. apply map_ext_in. intros b Hb. rewrite Forall_forall in Bo.
    destruct (slot_shard_facts sb l b Hev (Bo b Hb) Hl) as [_ E]. rewrite E. reflexivity. }
  rewrite Eslot. reflexivity.
Qed.
End Slots.
