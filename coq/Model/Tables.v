(* fwht, eval_poly, LOG_WALSH, SKEW following src/engine/fwht.rs, utils.rs, tables.rs *)
From Coq Require Import NArith List Bool FMapPositive.
From RS.Gen Require Import Prelude GenConsts.
From RS.Model Require Import Field.
Import ListNotations.
Local Open Scope N_scope.

(* ---------- fwht.rs ---------- *)
(* The data array is a list of GF_ORDER elements; element i is data[i]. *)
Definition fwht_2 (a b : N) : N * N := (add_mod a b, sub_mod a b).

(* fwht_4 on the values at offset, offset+dist, offset+2dist, offset+3dist *)
Definition fwht_4v (q : (N * N) * (N * N)) : (N * N) * (N * N) :=
  let '((a, b), (c, d)) := q in
  let '(s0, d0) := fwht_2 a b in
  let '(s1, d1) := fwht_2 c d in
  let '(s2, d2) := fwht_2 s0 s1 in
  let '(s3, d3) := fwht_2 d0 d1 in
  ((s2, s3), (d2, d3)).

(* for r in (0..m_truncated).step_by(4 dist) { for offset in r..r+dist { fwht_4 } } *)
Fixpoint fwht_layer (fuel dist : nat) (r m_truncated : N) (l : list N) : list N :=
  match fuel with
  | O => l
  | S f =>
    if r <? m_truncated then
      let a := firstn dist l in let l1 := skipn dist l in
      let b := firstn dist l1 in let l2 := skipn dist l1 in
      let c := firstn dist l2 in let l3 := skipn dist l2 in
      let d := firstn dist l3 in let tl := skipn dist l3 in
      let q := map fwht_4v (combine (combine a b) (combine c d)) in
      map (fun x => fst (fst x)) q ++ map (fun x => snd (fst x)) q ++
      map (fun x => fst (snd x)) q ++ map (fun x => snd (snd x)) q ++
      fwht_layer f dist (r + 4 * N.of_nat dist) m_truncated tl
    else l
  end.

(* (0..m_truncated).step_by(dist4), used by skew_inner below *)
Fixpoint steps (fuel : nat) (r step bound : N) : list N :=
  match fuel with
  | O => []
  | S f => if r <? bound then r :: steps f (r + step) step bound else []
  end.

(* dist = 1, 4, 16, ..., 16384  (while dist4 <= GF_ORDER) *)
Definition fwht_dists : list N := [1; 4; 16; 64; 256; 1024; 4096; 16384].
Definition fwht_pass (m_truncated : N) (l : list N) (dist : N) : list N :=
  fwht_layer (N.to_nat (GF_ORDER / (4 * dist))) (N.to_nat dist) 0 m_truncated l.
Definition fwht (d : list N) (m_truncated : N) : list N :=
  fold_left (fwht_pass m_truncated) fwht_dists d.

(* ---------- LOG_WALSH ---------- *)
Definition log_walsh : list N :=
  fwht (map (fun i => if i =? 0 then 0 else glog i) (range 0 GF_ORDER)) GF_ORDER.
Definition log_walsh_tbl : tbl := tbl_of_list log_walsh.

(* ---------- utils::eval_poly ---------- *)
Definition eval_poly (erasures : list N) (truncated_size : N) : list N :=
  let e1 := fwht erasures truncated_size in
  let e2 := map (fun p => let product := fst p * snd p in
                          add_mod (N.land product 65535) (N.shiftr product 16))
                (combine e1 log_walsh) in
  fwht e2 GF_ORDER.

(* ---------- initialize_skew ---------- *)
(* while j < s { skew[j + s] = skew[j] ^ temp[i]; j += step } *)
Definition skew_inner (start step s ti : N) (skew : tbl) : tbl :=
  fold_left (fun sk j => tset sk (j + s) (N.lxor (tget sk j) ti))
            (map (fun j => j + start)
                 (steps (N.to_nat ((s - start + step - 1) / step)) 0 step (s - start))) skew.

Definition skew_m (m : N) (st : tbl * tbl) : tbl * tbl :=
  let '(skew, temp) := st in
  let step := 2 ^ (m + 1) in
  let skew := tset skew (2 ^ m - 1) 0 in
  let skew := fold_range m 15 (fun i sk => skew_inner (2 ^ m - 1) step (2 ^ (i + 1)) (tget temp i) sk) skew in
  let tm := tget temp m in
  let tm' := GF_MODULUS - glog (mul tm (glog (N.lxor tm 1))) in
  let temp := tset temp m tm' in
  let temp := fold_range (m + 1) 15 (fun i t =>
                let sum := add_mod (glog (N.lxor (tget t i) 1)) tm' in
                tset t i (mul (tget t i) sum)) temp in
  (skew, temp).

Definition skew_tbl : tbl :=
  let temp0 := fold_range 1 16 (fun i t => tset t (i - 1) (2 ^ i)) tempty in
  let '(skew, _) := fold_range 0 15 skew_m (tempty, temp0) in
  fold_range 0 GF_MODULUS (fun i t => tset t i (glog (tget skew i))) tempty.

(* SKEW has GF_MODULUS entries; an index beyond it is an out-of-bounds panic in Rust and is
   never reached inside the supported envelope (value irrelevant; GF_MODULUS = no multiply) *)
Definition skew (i : N) : N := if i <? GF_MODULUS then tget skew_tbl i else GF_MODULUS.
