(* The error decisions of the model's add / encode / decode entry points ARE the decision trees that
   rs2v regenerates from EncoderWork / DecoderWork (Gen/GenGuards.v): same conditions in the same
   order, same error variants with the same fields.  A change of the Rust text in any of these
   (a swapped check, a wrong field in an error value, a comparison off by one) changes the generated
   definition and breaks these lemmas. *)
From Coq Require Import NArith Arith Lia Bool List FMapPositive.
From RS.Gen Require Import Prelude GenConsts GenGuards.
From RS.Model Require Import Field Tables Sched Codec Layout Machine.
From RS.Proofs Require Import RateFacts.
Import ListNotations.
Local Open Scope N_scope.

(* case analysis on every comparison and bitmap lookup on both sides: independent of how the Rust text
   arranges its checks (else-if chain, early returns, inverted conditions) as long as the decisions agree *)
Ltac guard_exec :=
  cbv zeta;
  repeat (first [ split_cmp
                | match goal with |- context [pmem ?a ?b] => destruct (pmem a b) eqn:? end ];
          cbn [negb andb orb]; try (exfalso; lia));
  first [ reflexivity | exfalso; lia | congruence ].

Theorem enc_add_guard x s :
  gen_enc_add (ew_K (e_work x)) (ew_recv (e_work x)) (ew_sb (e_work x)) (blen s) =
  match enc_add x s with inr e => GErr e | inl _ => GOk 0 end.
Proof.
  unfold gen_enc_add, enc_add. guard_exec.
Qed.

Section J.
Variable junk : N -> N -> N -> N.

Theorem enc_begin_guard ep x probes :
  gen_enc_begin (ew_K (e_work x)) (ew_recv (e_work x)) =
  match snd (enc_encode junk ep x probes) with RError e => GErr e | _ => GOk 0 end.
Proof.
  unfold gen_enc_begin, enc_encode. guard_exec.
Qed.

Theorem dec_begin_guard ep x probes :
  match gen_dec_begin (dw_K (d_work x)) (dw_orecv (d_work x)) (dw_rrecv (d_work x)) with
  | GErr e => snd (dec_decode junk ep x probes) = RError e
  | GOk 0 => dw_orecv (d_work x) = dw_K (d_work x) /\ exists pr, snd (dec_decode junk ep x probes) = RDec [] pr
  | GOk _ => dw_orecv (d_work x) <> dw_K (d_work x) /\ exists it pr, snd (dec_decode junk ep x probes) = RDec it pr
  | _ => False
  end.
Proof.
  unfold gen_dec_begin, dec_decode. cbv zeta.
  repeat (split_cmp; cbn [negb andb orb snd]; try (exfalso; lia)); cbn [snd];
    first [ reflexivity | split; [lia|eexists; reflexivity] | split; [lia|eexists; eexists; reflexivity] ].
Qed.
End J.

Theorem dec_add_original_guard x i s :
  gen_dec_add_original (dw_obase (d_work x)) (dw_K (d_work x)) (dw_sb (d_work x)) i (blen s) (pmem (dw_received (d_work x))) =
  match dec_add_original x i s with inr e => GErr e | inl _ => GOk 0 end.
Proof.
  unfold gen_dec_add_original, dec_add_original. guard_exec.
Qed.

Theorem dec_add_recovery_guard x i s :
  gen_dec_add_recovery (dw_rbase (d_work x)) (dw_R (d_work x)) (dw_sb (d_work x)) i (blen s) (pmem (dw_received (d_work x))) =
  match dec_add_recovery x i s with inr e => GErr e | inl _ => GOk 0 end.
Proof.
  unfold gen_dec_add_recovery, dec_add_recovery. guard_exec.
Qed.

(* ---------- accessors: recovery(i) and restored_original(i) ---------- *)
Section Acc.
Variable junk : N -> N -> N -> N.

Definition enc_recovery_of (rec : list bytes) (R sb i : N) : option bytes :=
  match gen_enc_recovery R sb i with GSome pos _ => nth_error rec (N.to_nat pos) | _ => None end.

Theorem enc_recovery_guard ep x probes : ew_recv (e_work x) = ew_K (e_work x) ->
  snd (enc_encode junk ep x probes) =
  REnc (encode_shards junk ep x)
       (map (fun i => (i, enc_recovery_of (encode_shards junk ep x) (ew_R (e_work x)) (ew_sb (e_work x)) i)) probes).
Proof.
  intros H. unfold enc_encode. rewrite H, N.eqb_refl. cbn [negb snd]. f_equal. apply map_ext. intros i.
  unfold enc_recovery_of, gen_enc_recovery. guard_exec.
Qed.

Definition dec_restored_of (out : list (list N)) (obase K sb : N) (recv : N -> bool) (i : N) : option bytes :=
  match gen_dec_restored obase K sb i recv with
  | GSome pos _ => option_map bytes_of_syms (nth_error out (N.to_nat pos))
  | _ => None
  end.

Theorem dec_restored_guard ep x probes :
  (dw_orecv (d_work x) + dw_rrecv (d_work x) <? dw_K (d_work x)) = false -> (dw_orecv (d_work x) =? dw_K (d_work x)) = false ->
  let w := d_work x in
  let r := dec_restored_of (decode_work junk ep x) (dw_obase w) (dw_K w) (dw_sb w) (pmem (dw_received w)) in
  snd (dec_decode junk ep x probes) =
  RDec (flat_map (fun i => match r i with Some b => [(i, b)] | None => [] end) (range 0 (dw_K w)))
       (map (fun i => (i, r i)) probes).
Proof.
  intros H1 H2. cbv zeta. unfold dec_decode. rewrite H1, H2. cbn [snd].
  set (w := d_work x).
  set (r := dec_restored_of (decode_work junk ep x) (dw_obase w) (dw_K w) (dw_sb w) (pmem (dw_received w))).
  assert (E : forall i, (if (i <? dw_K w) && negb (pmem (dw_received w) (dw_obase w + i))
                         then option_map bytes_of_syms (nth_error (decode_work junk ep x) (N.to_nat (dw_obase w + i))) else None) = r i).
  { intros i. unfold r, dec_restored_of, gen_dec_restored. guard_exec. }
  f_equal; [apply flat_map_ext|apply map_ext]; intros i; rewrite E; reflexivity.
Qed.
End Acc.
