(* FFT / IFFT schedules of the engines, polymorphic in the element type.
   Naive: src/engine/engine_naive.rs (one layer at a time).
   Two-layer: fft_private / ifft_private of engine_nosimd.rs, engine_ssse3.rs,
   engine_avx2.rs, engine_neon.rs (identical loop structure).
   A transform acts on the sub-list data[pos .. pos+size]; element i of the
   list is work position pos+i. *)
From Coq Require Import NArith List Bool.
From RS.Gen Require Import Prelude GenConsts.
From RS.Model Require Import Field Tables.
Import ListNotations.
Local Open Scope N_scope.

Record elt_ops (T : Type) : Type := {
  xorT : T -> T -> T;
  mulT : T -> N -> T;      (* multiply every symbol by g^log_m *)
  zeroT : T }.
Arguments xorT {T}. Arguments mulT {T}. Arguments zeroT {T}.

Definition sym_ops : elt_ops N := {| xorT := N.lxor; mulT := mul; zeroT := 0 |}.
Definition map2 {A B C} (f : A -> B -> C) (l1 : list A) (l2 : list B) : list C :=
  map (fun p => f (fst p) (snd p)) (combine l1 l2).
Definition shard_ops (lanes : nat) : elt_ops (list N) :=
  {| xorT := map2 N.lxor; mulT := fun s m => map (fun x => mul x m) s; zeroT := repeat 0 lanes |}.

Section Sched.
Context {T : Type} (ops : elt_ops T).
(* skew table lookup; a section variable so that theorems can abstract it *)
Variable skewf : N -> N.

(* x ^= y * log_m, skipped when log_m = GF_MODULUS *)
Definition muladd (x y : T) (log_m : N) : T :=
  if log_m =? GF_MODULUS then x else xorT ops x (mulT ops y log_m).
Definition fft_bf (log_m : N) (ab : T * T) : T * T :=
  let '(a, b) := ab in let a' := muladd a b log_m in (a', xorT ops b a').
Definition ifft_bf (log_m : N) (ab : T * T) : T * T :=
  let '(a, b) := ab in let b' := xorT ops b a in (muladd a b' log_m, b').

Definition bf2 (bf : T * T -> T * T) (a b : list T) : list T * list T :=
  let ab := map bf (combine a b) in (map fst ab, map snd ab).

(* ---------- Naive ---------- *)
(* one layer: while r < truncated { butterflies on [r, r+2dist) ; r += 2dist } *)
Fixpoint naive_layer (bf : N -> T * T -> T * T) (fuel dist : nat) (r trunc sd : N)
         (l : list T) : list T :=
  match fuel with
  | O => l
  | S f =>
    if r <? trunc then
      let a := firstn dist l in let rest := skipn dist l in
      let b := firstn dist rest in let tl := skipn dist rest in
      let log_m := skewf (r + N.of_nat dist + sd - 1) in
      let '(a', b') := bf2 (bf log_m) a b in
      a' ++ b' ++ naive_layer bf f dist (r + 2 * N.of_nat dist) trunc sd tl
    else l
  end.

(* [1; 2; 4; ...] below size *)
Fixpoint dists_up (fuel : nat) (d size : N) : list N :=
  match fuel with
  | O => []
  | S f => if d <? size then d :: dists_up f (2 * d) size else []
  end.
Definition dists (size : N) : list N := dists_up 17 1 size.

Definition naive_pass bf (size trunc sd : N) (l : list T) (dist : N) : list T :=
  naive_layer bf (N.to_nat (size / (2 * dist))) (N.to_nat dist) 0 trunc sd l.
Definition naive_fft (size trunc sd : N) (l : list T) : list T :=
  fold_left (naive_pass fft_bf size trunc sd) (rev (dists size)) l.
Definition naive_ifft (size trunc sd : N) (l : list T) : list T :=
  fold_left (naive_pass ifft_bf size trunc sd) (dists size) l.

(* ---------- two layers at a time ---------- *)
Definition fft_two (m01 m23 m02 : N) (q : (T * T) * (T * T)) : (T * T) * (T * T) :=
  let '((s0, s1), (s2, s3)) := q in
  let '(s0, s2) := fft_bf m02 (s0, s2) in
  let '(s1, s3) := fft_bf m02 (s1, s3) in
  (fft_bf m01 (s0, s1), fft_bf m23 (s2, s3)).
Definition ifft_two (m01 m23 m02 : N) (q : (T * T) * (T * T)) : (T * T) * (T * T) :=
  let '((s0, s1), (s2, s3)) := q in
  let '(s0, s1) := ifft_bf m01 (s0, s1) in
  let '(s2, s3) := ifft_bf m23 (s2, s3) in
  let '(s0, s2) := ifft_bf m02 (s0, s2) in
  let '(s1, s3) := ifft_bf m02 (s1, s3) in
  ((s0, s1), (s2, s3)).

Fixpoint two_layer (two : N -> N -> N -> (T * T) * (T * T) -> (T * T) * (T * T))
         (fuel dist : nat) (r trunc sd : N) (l : list T) : list T :=
  match fuel with
  | O => l
  | S f =>
    if r <? trunc then
      let a := firstn dist l in let l1 := skipn dist l in
      let b := firstn dist l1 in let l2 := skipn dist l1 in
      let c := firstn dist l2 in let l3 := skipn dist l2 in
      let d := firstn dist l3 in let tl := skipn dist l3 in
      let dn := N.of_nat dist in
      let base := r + dn + sd - 1 in
      let m01 := skewf base in
      let m02 := skewf (base + dn) in
      let m23 := skewf (base + dn * 2) in
      let q := map (two m01 m23 m02) (combine (combine a b) (combine c d)) in
      map (fun x => fst (fst x)) q ++ map (fun x => snd (fst x)) q ++
      map (fun x => fst (snd x)) q ++ map (fun x => snd (snd x)) q ++
      two_layer two f dist (r + 4 * dn) trunc sd tl
    else l
  end.

(* dist = size>>2, then >>2 each round while non-zero; returns the dists and the final dist4 *)
Fixpoint dists4_down (fuel : nat) (dist4 dist : N) : list N * N :=
  match fuel with
  | O => ([], dist4)
  | S f => if dist =? 0 then ([], dist4)
           else let '(ds, last) := dists4_down f dist (N.shiftr dist 2) in (dist :: ds, last)
  end.
Fixpoint dists4_up (fuel : nat) (dist dist4 size : N) : list N * N :=
  match fuel with
  | O => ([], dist)
  | S f => if dist4 <=? size
           then let '(ds, last) := dists4_up f dist4 (N.shiftl dist4 2) size in (dist :: ds, last)
           else ([], dist)
  end.

Definition two_pass two (trunc sd : N) (l : list T) (dist : N) : list T :=
  two_layer two (N.to_nat (N.of_nat (length l) / (4 * dist))) (N.to_nat dist) 0 trunc sd l.

Definition two_fft (size trunc sd : N) (l : list T) : list T :=
  let '(ds, dist4) := dists4_down 17 size (N.shiftr size 2) in
  let l := fold_left (two_pass fft_two trunc sd) ds l in
  if dist4 =? 2 then
    (* FINAL ODD LAYER: r = 0, 2, 4, ... < truncated; log_m = skew[r + skew_delta] *)
    naive_layer fft_bf (N.to_nat (size / 2)) 1 0 trunc sd l
  else l.

Definition two_ifft (size trunc sd : N) (l : list T) : list T :=
  let '(ds, dist) := dists4_up 17 1 4 size in
  let l := fold_left (two_pass ifft_two trunc sd) ds l in
  if dist <? size then
    (* FINAL ODD LAYER: not truncated *)
    let dn := N.to_nat dist in
    let a := firstn dn l in let rest := skipn dn l in
    let b := firstn dn rest in let tl := skipn dn rest in
    let log_m := skewf (dist + sd - 1) in
    let '(a', b') := bf2 (ifft_bf log_m) a b in
    a' ++ b' ++ tl
  else l.

(* ---------- utils::formal_derivative ---------- *)
(* executable form: D(L ++ H) = (D L xor H) ++ D H for |L| = |H| = 2^k *)
Fixpoint formal_derivative_rec (k : nat) (l : list T) : list T :=
  match k with
  | O => l
  | S k' =>
    let h := Nat.pow 2 k' in
    let lo := firstn h l in let hi := skipn h l in
    map2 (xorT ops) (formal_derivative_rec k' lo) hi ++ formal_derivative_rec k' hi
  end.
Definition formal_derivative (l : list T) : list T :=
  formal_derivative_rec (N.to_nat (N.log2 (N.of_nat (length l)))) l.

(* literal form: for i in 1..len { width = 1 << tz(i); data[i-width..i] ^= data[i..i+width] } *)
Definition xor_within (l : list T) (x y count : nat) : list T :=
  let ys := firstn count (skipn y l) in
  let xs := firstn count (skipn x l) in
  firstn x l ++ map2 (xorT ops) xs ys ++ skipn (x + count) l.
Fixpoint tz_fuel (fuel : nat) (i : N) : N :=
  match fuel with
  | O => 0
  | S f => if N.odd i then 0 else 1 + tz_fuel f (N.div2 i)
  end.
Definition formal_derivative_loop (l : list T) : list T :=
  fold_left (fun l i => let w := 2 ^ tz_fuel 64 i in
                        xor_within l (N.to_nat (i - w)) (N.to_nat i) (N.to_nat w))
            (range 1 (N.of_nat (length l))) l.
End Sched.

Inductive engine := Naive | NoSimd | Ssse3 | Avx2 | Neon | DefaultE.
Definition two_layer_engine (e : engine) : bool :=
  match e with Naive => false | _ => true end.

Definition fft {T} (ops : elt_ops T) (e : engine) :=
  if two_layer_engine e then two_fft ops skew else naive_fft ops skew.
Definition ifft {T} (ops : elt_ops T) (e : engine) :=
  if two_layer_engine e then two_ifft ops skew else naive_ifft ops skew.
