#!/usr/bin/env python3
# usage: check_engines.py <resultfile>; groups results by case id minus engine suffix.
import sys, collections
groups = collections.defaultdict(dict)
for line in open(sys.argv[1]):
    cid, idx, res = line.rstrip("\n").split(" ", 2)
    base, eng = cid.rsplit(":", 1)
    groups[(base, idx)][eng] = res
bad = 0; total = 0; naive_diff = 0
for key, d in sorted(groups.items()):
    total += 1
    isprim_fft = key[0].startswith("prim")
    ref = d["nosimd"]
    for eng, res in d.items():
        if res != ref:
            if eng == "naive" and isprim_fft:
                naive_diff += 1   # documented: garbage beyond truncated_size may differ for Naive
                continue
            bad += 1
            print("DIFF", key, eng, res[:80], "vs", ref[:80])
        if not res.startswith("ok"):
            bad += 1; print("NOTOK", key, eng, res[:80])
print(f"groups={total} bad={bad} naive_prim_diffs={naive_diff}")
