(* The fast Walsh-Hadamard transform of the crate (fwht.rs: radix-4 layers, truncated) and
   eval_poly, related to the integer transform of WalshZ.v modulo 65535. *)
From Coq Require Import ZArith NArith Arith Lia Bool List.
From RS.Gen Require Import Prelude GenConsts.
From RS.Model Require Import Field Tables Sched.
From RS.Proofs Require Import FieldFacts Param SchedEquiv Trunc FftSpec WalshZ.
Import ListNotations.
Local Open Scope N_scope.

(* ---------- two layers at a time with an arbitrary butterfly ---------- *)
Section GenTwo.
Context {T : Type}.
Variable skewf : N -> N.
Variable bfa : N -> T * T -> T * T.
Notation ilayer := (naive_layer skewf bfa).

Definition gtwo_i (m01 m23 m02 : N) (q : (T * T) * (T * T)) : (T * T) * (T * T) :=
  let '((s0, s1), (s2, s3)) := q in
  let '(s0, s1) := bfa m01 (s0, s1) in
  let '(s2, s3) := bfa m23 (s2, s3) in
  let '(s0, s2) := bfa m02 (s0, s2) in
  let '(s1, s3) := bfa m02 (s1, s3) in
  ((s0, s1), (s2, s3)).

Lemma two_layer_gen_i_t f d : (0 < d)%nat -> forall q trunc trunc' sd l,
  length l = (4 * d * f)%nat -> ru4 d trunc trunc' ->
  two_layer skewf gtwo_i f d (4 * N.of_nat d * q) trunc sd l =
  ilayer f (2 * d) (4 * N.of_nat d * q) trunc sd (ilayer (2 * f) d (4 * N.of_nat d * q) trunc' sd l).
Proof.
  intros Hd. induction f as [|f IH]; intros q trunc trunc' sd l Hl Hru; [reflexivity|].
  set (r := 4 * N.of_nat d * q).
  destruct (r <? trunc) eqn:Hr.
  2:{ cbn [two_layer]. rewrite Hr. rewrite (glayer_stop skewf bfa sd (2 * S f) d r trunc' l).
      - cbn [naive_layer]. rewrite Hr. reflexivity.
      - destruct Hru as [_ H]. apply N.ltb_ge in Hr. apply (H q). exact Hr. }
  assert (Hr4 : r + 4 * N.of_nat d <= trunc') by (destruct Hru as [_ H]; apply N.ltb_lt in Hr; apply (H q); exact Hr).
  assert (Hr' : (r <? trunc') = true) by (apply N.ltb_lt; lia).
  set (a := firstn d l). set (b := firstn d (skipn d l)).
  set (c := firstn d (skipn d (skipn d l))). set (dd := firstn d (skipn d (skipn d (skipn d l)))).
  set (tl := skipn d (skipn d (skipn d (skipn d l)))).
  assert (La : length a = d) by (unfold a; rewrite firstn_length; lia).
  assert (Lb : length b = d) by (unfold b; rewrite firstn_length, skipn_length; lia).
  assert (Lc : length c = d) by (unfold c; rewrite firstn_length, !skipn_length; lia).
  assert (Ld : length dd = d) by (unfold dd; rewrite firstn_length, !skipn_length; lia).
  assert (Ltl : length tl = (4 * d * f)%nat) by (unfold tl; rewrite !skipn_length; lia).
  cbn [two_layer]. rewrite Hr. fold a b c dd tl.
  set (dn := N.of_nat d). set (base := r + dn + sd - 1).
  set (m01 := skewf base). set (m02 := skewf (base + dn)). set (m23 := skewf (base + dn * 2)).
  (* right side, inner layer (dist d): two steps on the first block *)
  replace (2 * S f)%nat with (2 + 2 * f)%nat by lia.
  assert (El : l = (a ++ b ++ c ++ dd) ++ tl).
  { unfold a, b, c, dd, tl. rewrite <- !app_assoc.
    rewrite <- (firstn_skipn d l) at 1. f_equal.
    rewrite <- (firstn_skipn d (skipn d l)) at 1. f_equal.
    rewrite <- (firstn_skipn d (skipn d (skipn d l))) at 1. f_equal.
    rewrite <- (firstn_skipn d (skipn d (skipn d (skipn d l)))) at 1. reflexivity. }
  rewrite El at 1.
  rewrite (glayer_app' skewf bfa sd 2 (2 * f) d r trunc' (a ++ b ++ c ++ dd) tl);
    [|rewrite !app_length; lia|exact Hd].
  rewrite !app_length, La, Lb, Lc, Ld.
  cbn [naive_layer]. rewrite Hr'.
  assert (Hr2 : (r + 2 * N.of_nat d <? trunc') = true) by (apply N.ltb_lt; lia). rewrite Hr2.
  rewrite (firstn_app_le' d a) by lia. rewrite (firstn_all2 a) by lia.
  rewrite (skipn_app_le' d a) by lia. rewrite (skipn_all2 a) by lia. cbn [app].
  rewrite (firstn_app_le' d b) by lia. rewrite (firstn_all2 b) by lia.
  rewrite (skipn_app_le' d b) by lia. rewrite (skipn_all2 b) by lia. cbn [app].
  rewrite (firstn_app_le' d c) by lia. rewrite (firstn_all2 c) by lia.
  rewrite (skipn_app_le' d c) by lia. rewrite (skipn_all2 c) by lia. cbn [app].
  rewrite (firstn_all2 dd) by lia. rewrite (skipn_all2 dd) by lia.
  fold dn. fold base. fold m01.
  assert (Em23 : skewf (r + 2 * dn + dn + sd - 1) = m23) by (unfold m23, base; f_equal; lia).
  rewrite Em23. cbn [naive_layer]. rewrite Hr.
  pose proof (bf2_length (bfa m01) a b) as [L1 L2]. pose proof (bf2_length (bfa m23) c dd) as [L3 L4].
  pose proof (quad_block_i (bfa m01) (bfa m23) (bfa m02) a b c dd ltac:(congruence) ltac:(congruence) ltac:(congruence)) as Q.
  cbv zeta in Q.
  destruct (bf2 (bfa m01) a b) as [a1 b1] eqn:E1. destruct (bf2 (bfa m23) c dd) as [c1 d1] eqn:E2.
  cbn [fst snd] in *. rewrite La, Lb, Nat.min_id in L1, L2. rewrite Lc, Ld, Nat.min_id in L3, L4.
  rewrite app_nil_r.
  (* outer layer (dist 2d) *)
  set (Y := ilayer (2 * f) d (r + N.of_nat (d + (d + (d + d)))) trunc' sd tl).
  assert (LY : length Y = (4 * d * f)%nat) by (unfold Y; rewrite glayer_length; lia).
  rewrite <- !app_assoc.
  replace (firstn (2 * d) (a1 ++ b1 ++ c1 ++ d1 ++ Y)) with (a1 ++ b1).
  2:{ replace (2 * d)%nat with (d + d)%nat by lia. rewrite firstn_add.
      rewrite (firstn_app_le' d a1) by lia. rewrite (firstn_all2 a1) by lia.
      rewrite (skipn_app_le' d a1) by lia. rewrite (skipn_all2 a1) by lia. cbn [app].
      rewrite (firstn_app_le' d b1) by lia. rewrite (firstn_all2 b1) by lia. reflexivity. }
  replace (skipn (2 * d) (a1 ++ b1 ++ c1 ++ d1 ++ Y)) with (c1 ++ d1 ++ Y).
  2:{ replace (2 * d)%nat with (d + d)%nat by lia. rewrite skipn_add.
      rewrite (skipn_app_le' d a1) by lia. rewrite (skipn_all2 a1) by lia. cbn [app].
      rewrite (skipn_app_le' d b1) by lia. rewrite (skipn_all2 b1) by lia. reflexivity. }
  replace (firstn (2 * d) (c1 ++ d1 ++ Y)) with (c1 ++ d1).
  2:{ replace (2 * d)%nat with (d + d)%nat by lia. rewrite firstn_add.
      rewrite (firstn_app_le' d c1) by lia. rewrite (firstn_all2 c1) by lia.
      rewrite (skipn_app_le' d c1) by lia. rewrite (skipn_all2 c1) by lia. cbn [app].
      rewrite (firstn_app_le' d d1) by lia. rewrite (firstn_all2 d1) by lia. reflexivity. }
  replace (skipn (2 * d) (c1 ++ d1 ++ Y)) with Y.
  2:{ replace (2 * d)%nat with (d + d)%nat by lia. rewrite skipn_add.
      rewrite (skipn_app_le' d c1) by lia. rewrite (skipn_all2 c1) by lia. cbn [app].
      rewrite (skipn_app_le' d d1) by lia. rewrite (skipn_all2 d1) by lia. reflexivity. }
  assert (Em02 : skewf (r + N.of_nat (2 * d) + sd - 1) = m02) by (unfold m02, base, dn; f_equal; lia).
  rewrite Em02. rewrite (bf2_app (bfa m02) a1 b1 c1 d1) by congruence.
  destruct (bf2 (bfa m02) a1 c1) as [a2 c2]. destruct (bf2 (bfa m02) b1 d1) as [b2 d2].
  cbn [fst snd]. destruct Q as (Q1 & Q2 & Q3 & Q4).
  unfold gtwo_i. rewrite Q1, Q2, Q3, Q4.
  rewrite <- !app_assoc. do 4 f_equal.
  change (fun (m00 m0 m03 : N) '(s0, s1, (s2, s3)) =>
     let '(s4, s5) := bfa m00 (s0, s1) in
      let '(s6, s7) := bfa m0 (s2, s3) in
       let '(s8, s9) := bfa m03 (s4, s6) in
        let '(s10, s11) := bfa m03 (s5, s7) in (s8, s10, (s9, s11))) with gtwo_i.
  replace (r + 4 * dn) with (4 * N.of_nat d * (q + 1)) by (unfold r, dn; lia).
  rewrite (IH (q + 1) trunc trunc' sd tl Ltl Hru).
  replace (4 * N.of_nat d * (q + 1)) with (r + 4 * dn) by (unfold r, dn; lia).
  unfold Y. replace (r + N.of_nat (d + (d + (d + d)))) with (r + 4 * dn) by (unfold dn; lia).
  replace (r + 2 * N.of_nat (2 * d)) with (r + 4 * dn) by (unfold dn; lia). reflexivity.
Qed.
End GenTwo.

(* ---------- the schedule of fwht.rs over an arbitrary element type ---------- *)
Section GenFwht.
Context {T : Type}.
Variable bf : T * T -> T * T.                 (* the butterfly (a, b) -> (a + b, a - b) *)
Notation bfa := (fun _ : N => bf).
Notation nosk := (fun _ : N => 0).

Definition gfwht_pass (t : N) (l : list T) (dist : N) : list T :=
  two_layer nosk (gtwo_i bfa) (N.to_nat (GF_ORDER / (4 * dist))) (N.to_nat dist) 0 t 0 l.
Definition gfwht (l : list T) (t : N) : list T := fold_left (gfwht_pass t) fwht_dists l.

Definition fw_asc (t : N) : list (nat * N) :=
  flat_map (fun d => [(N.to_nat d, ruN d t); (N.to_nat (2 * d), t)]) fwht_dists.

Lemma fw_asc_fst t : map fst (rev (fw_asc t)) = ddists' 16.
Proof.
  rewrite map_rev. unfold fw_asc. rewrite fst_flat_i. rewrite <- map_rev.
  assert (E : rev (flat_map (fun d => [d; 2 * d]) fwht_dists) = map (fun j => 2 ^ N.of_nat j) (rev (seq 0 16)))
    by (vm_compute; reflexivity).
  rewrite E, map_map. unfold ddists'. apply map_ext. intros j.
  apply Nat2N.inj. rewrite N2Nat.id, p2'_N. reflexivity.
Qed.

Lemma gfwht_pass_tpass t l d : (0 < d)%nat -> (exists f, length l = (4 * d * f)%nat) -> N.of_nat (length l) = GF_ORDER ->
  gfwht_pass t l (N.of_nat d) =
  tpass nosk bfa 0 0 (tpass nosk bfa 0 0 l (d, ruN (N.of_nat d) t)) ((2 * d)%nat, t).
Proof.
  intros Hd [f Hf] Hl. unfold gfwht_pass, tpass. cbn [fst snd]. rewrite Nat2N.id.
  rewrite glayer_length.
  2:{ pose proof (Nat.mul_div_le (length l) (2 * d) ltac:(lia)). lia. }
  assert (F1 : N.to_nat (GF_ORDER / (4 * N.of_nat d)) = f).
  { rewrite <- Hl, Hf. replace (4 * N.of_nat d) with (N.of_nat (4 * d)) by lia. rewrite <- Nat2N.inj_div, Nat2N.id.
    replace (4 * d * f)%nat with (f * (4 * d))%nat by lia. apply Nat.div_mul. lia. }
  assert (F2 : Nat.div (length l) (2 * (2 * d)) = f).
  { rewrite Hf. replace (4 * d * f)%nat with (f * (2 * (2 * d)))%nat by lia. apply Nat.div_mul. lia. }
  assert (F3 : Nat.div (length l) (2 * d) = (2 * f)%nat).
  { rewrite Hf. replace (4 * d * f)%nat with ((2 * f) * (2 * d))%nat by lia. apply Nat.div_mul. lia. }
  rewrite F1, F2, F3.
  replace 0 with (4 * N.of_nat d * 0) at 1 3 5 by lia.
  apply (two_layer_gen_i_t nosk bfa); [exact Hd|exact Hf|apply ru4_ruN; exact Hd].
Qed.

Theorem gfwht_irec t l : N.of_nat (length l) = GF_ORDER -> t <= GF_ORDER ->
  exists ts, length ts = 16%nat /\ Forall (fun x => t <= x) ts /\
    gfwht l t = irec nosk bfa 0 16 0 ts l.
Proof.
  intros Hl Ht.
  exists (map snd (rev (fw_asc t))). split; [|split].
  - rewrite map_length, <- (map_length fst), fw_asc_fst. reflexivity.
  - rewrite map_rev. apply Forall_rev. unfold fw_asc, fwht_dists. cbn [flat_map app map snd].
    repeat constructor; try lia; apply ruN_ge; lia.
  - assert (Lp : length l = p2' 16).
    { apply Nat2N.inj. rewrite Hl. reflexivity. }
    rewrite <- (passes_irec nosk bfa 0 16 0 (rev (fw_asc t)) l (fw_asc_fst t) Lp).
    rewrite rev_involutive. unfold gfwht, fw_asc.
    assert (G : forall ds l0, N.of_nat (length l0) = GF_ORDER ->
              Forall (fun d => 0 < d /\ exists f, GF_ORDER = 4 * d * f) ds ->
              fold_left (tpass nosk bfa 0 0) (flat_map (fun d => [(N.to_nat d, ruN d t); (N.to_nat (2 * d), t)]) ds) l0 =
              fold_left (gfwht_pass t) ds l0).
    { induction ds as [|d ds IH]; intros l0 Hl0 Hds; [reflexivity|]. inversion Hds as [|? ? [Hd0 [f Hf]] Hds']; subst.
      cbn [flat_map app fold_left].
      assert (Ex : exists f0, length l0 = (4 * N.to_nat d * f0)%nat).
      { exists (N.to_nat f). apply Nat2N.inj. rewrite Hl0, Hf, !Nat2N.inj_mul, !N2Nat.id. reflexivity. }
      pose proof (gfwht_pass_tpass t l0 (N.to_nat d) ltac:(lia) Ex ltac:(rewrite Hl0; reflexivity)) as TP. rewrite N2Nat.id in TP.
      replace (N.to_nat (2 * d)) with (2 * N.to_nat d)%nat by lia.
      rewrite <- TP. apply IH; [|exact Hds'].
      rewrite TP, !tpass_length by (cbn [fst]; lia). exact Hl0. }
    symmetry. apply G; [exact Hl|]. unfold fwht_dists.
    repeat constructor; try lia;
      [exists 16384|exists 4096|exists 1024|exists 256|exists 64|exists 16|exists 4|exists 1]; reflexivity.
Qed.
End GenFwht.

(* ---------- over the integers: the schedule computes the transform of WalshZ.v ---------- *)
Definition bz (p : Z * Z) : Z * Z := ((fst p + snd p)%Z, (fst p - snd p)%Z).
Notation bza := (fun _ : N => bz).
Notation nosk := (fun _ : N => 0).

Lemma bf2_bz a b : bf2 bz a b = (vadd a b, vsub a b).
Proof. unfold bf2, vadd, vsub, zmap2. rewrite !map_map. reflexivity. Qed.

Lemma p2'_eq k : p2' k = p2 k. Proof. reflexivity. Qed.

Lemma irec_full k : forall r0 ts c, length ts = k -> length c = p2 k ->
  Forall (fun t => r0 + N.of_nat (p2 k) <= t) ts ->
  irec nosk bza 0 k r0 ts c = wht k c.
Proof.
  induction k as [|k IH]; intros r0 ts c Lt Lc Ft; [destruct ts; reflexivity|].
  destruct ts as [|tr ts]; [discriminate|]. inversion Ft as [|? ? F1 F2]; subst. cbn [irec wht].
  rewrite !p2'_eq. destruct (halves k c Lc) as [H1 H2]. cbn in Lt.
  pose proof (p2_pos k) as Hpos. rewrite p2_S in F1, F2.
  rewrite (IH r0 ts (firstn (p2 k) c)); try assumption; try lia.
  2:{ eapply Forall_impl; [|exact F2]. cbv beta. intros; lia. }
  rewrite (IH (r0 + N.of_nat (p2 k)) ts (skipn (p2 k) c)); try assumption; try lia.
  2:{ eapply Forall_impl; [|exact F2]. cbv beta. intros; lia. }
  unfold blk. assert ((r0 <? tr) = true) as -> by (apply N.ltb_lt; lia).
  set (A := wht k (firstn (p2 k) c)). set (B := wht k (skipn (p2 k) c)).
  assert (LA : length A = p2 k) by (apply wht_length; exact H1).
  assert (LB : length B = p2 k) by (apply wht_length; exact H2).
  rewrite firstn_app_le' by lia. rewrite firstn_all2 by lia.
  rewrite skipn_app_le' by lia. rewrite skipn_all2 by lia. cbn [app].
  rewrite bf2_bz. reflexivity.
Qed.

Theorem zfwht_wht (l : list Z) t : N.of_nat (length l) = GF_ORDER -> t <= GF_ORDER ->
  (forall i, (i < length l)%nat -> t <= N.of_nat i -> nth_error l i = Some 0%Z) ->
  gfwht bz l t = wht 16 l.
Proof.
  intros Hl Ht Hz. destruct (gfwht_irec bz t l Hl Ht) as (ts & Lts & Fts & E). rewrite E.
  assert (Lp : length l = p2 16) by (apply Nat2N.inj; rewrite Hl; reflexivity).
  rewrite <- (irec_full 16 0 (repeat GF_ORDER 16) l (repeat_length _ _) Lp).
  2:{ apply Forall_repeat. rewrite N.add_0_l. change (N.of_nat (p2 16)) with 65536. unfold GF_ORDER. lia. }
  apply (irec_zero_tail nosk bza 0 0%Z (fun m => eq_refl) 16 0 ts (repeat GF_ORDER 16) l t); try assumption.
  - apply repeat_length.
  - apply Forall_repeat. exact Ht.
  - intros i Hi Hti. apply Hz; [rewrite Lp; exact Hi|lia].
Qed.

(* ---------- the crate's fwht (values in [0, 65535], 65535 = 0) modulo 65535 ---------- *)
Definition Rm (x : N) (z : Z) : Prop := x <= 65535 /\ (Z.of_N x mod 65535 = z mod 65535)%Z.

Lemma fwht_layer_two f d : forall r t l,
  fwht_layer f d r t l = two_layer nosk (fun _ _ _ => fwht_4v) f d r t 0 l.
Proof.
  induction f as [|f IH]; intros r t l; cbn [fwht_layer two_layer]; [reflexivity|].
  destruct (r <? t); [|reflexivity]. rewrite IH. reflexivity.
Qed.
Definition bn (p : N * N) : N * N := (add_mod (fst p) (snd p), sub_mod (fst p) (snd p)).
Lemma fwht_4v_gtwo q : fwht_4v q = gtwo_i (fun _ : N => bn) 0 0 0 q.
Proof. destruct q as [[a b] [c d]]. reflexivity. Qed.
Lemma fold_left_ext_simple {A B} (f g : A -> B -> A) : (forall a b, f a b = g a b) ->
  forall l a, fold_left f l a = fold_left g l a.
Proof. intros H. induction l as [|x l IH]; intros a; cbn; [reflexivity|]. rewrite H. apply IH. Qed.
Lemma two_layer_ext {T} skewf (tw1 tw2 : N -> N -> N -> (T * T) * (T * T) -> (T * T) * (T * T)) :
  (forall a b c q, tw1 a b c q = tw2 a b c q) ->
  forall f d r t sd l, two_layer skewf tw1 f d r t sd l = two_layer skewf tw2 f d r t sd l.
Proof.
  intros H. induction f as [|f IH]; intros d r t sd l; cbn [two_layer]; [reflexivity|].
  destruct (r <? t); [|reflexivity]. rewrite IH.
  rewrite (map_ext _ _ (H _ _ _)). reflexivity.
Qed.
Lemma fwht_gfwht l t : fwht l t = gfwht bn l t.
Proof.
  unfold fwht, gfwht. apply fold_left_ext_simple. intros l0 d. unfold fwht_pass, gfwht_pass.
  rewrite fwht_layer_two. apply two_layer_ext. intros a b c q. apply fwht_4v_gtwo.
Qed.

(* the modular butterfly refines the integer butterfly *)
Lemma Rm_bn p q : R2 Rm p q -> R2 Rm (bn p) (bz q).
Proof.
  destruct p as [a b], q as [za zb]. intros [[Ha Ea] [Hb Eb]]. cbn [fst snd] in *.
  unfold bn, bz, R2, Rm, add_mod, sub_mod. cbn [fst snd]. cbv zeta.
  split; split.
  - destruct (N.ltb_spec (a + b) 65536); lia.
  - rewrite Z.add_mod, <- Ea, <- Eb, <- Z.add_mod by lia.
    destruct (N.ltb_spec (a + b) 65536) as [H|H].
    + rewrite N2Z.inj_add. reflexivity.
    + rewrite N2Z.inj_sub, N2Z.inj_add by lia. change (Z.of_N 65535) with 65535%Z.
      replace (Z.of_N a + Z.of_N b - 65535)%Z with (Z.of_N a + Z.of_N b + (-1) * 65535)%Z by lia.
      apply Z.mod_add. lia.
  - destruct (N.leb_spec b a); lia.
  - rewrite Zminus_mod, <- Ea, <- Eb, <- Zminus_mod.
    destruct (N.leb_spec b a) as [H|H].
    + rewrite N2Z.inj_sub by lia. reflexivity.
    + rewrite N2Z.inj_sub, N2Z.inj_add by lia. change (Z.of_N 65535) with 65535%Z.
      replace (Z.of_N a + 65535 - Z.of_N b)%Z with (Z.of_N a - Z.of_N b + 1 * 65535)%Z by lia.
      apply Z.mod_add. lia.
Qed.
Lemma Rm_gtwo a b c p q : R4 Rm p q -> R4 Rm (gtwo_i (fun _ : N => bn) a b c p) (gtwo_i (fun _ : N => bz) a b c q).
Proof.
  destruct p as [[p0 p1] [p2 p3]], q as [[q0 q1] [q2 q3]]. intros [[H0 H1] [H2 H3]]. cbn [fst snd] in *.
  unfold gtwo_i.
  pose proof (Rm_bn (p0, p1) (q0, q1) (conj H0 H1)) as A. pose proof (Rm_bn (p2, p3) (q2, q3) (conj H2 H3)) as B.
  destruct (bn (p0, p1)) as [s0 s1], (bz (q0, q1)) as [t0 t1], (bn (p2, p3)) as [s2 s3], (bz (q2, q3)) as [t2 t3].
  destruct A as [A0 A1], B as [B0 B1]. cbn [fst snd] in *.
  pose proof (Rm_bn (s0, s2) (t0, t2) (conj A0 B0)) as C. pose proof (Rm_bn (s1, s3) (t1, t3) (conj A1 B1)) as D.
  destruct (bn (s0, s2)) as [u0 u2], (bz (t0, t2)) as [v0 v2], (bn (s1, s3)) as [u1 u3], (bz (t1, t3)) as [v1 v3].
  destruct C as [C0 C2], D as [D1 D3]. unfold R4, R2. cbn [fst snd] in *. exact (conj (conj C0 D1) (conj C2 D3)).
Qed.

Theorem fwht_Rm l lz t : Forall2 Rm l lz -> Forall2 Rm (fwht l t) (gfwht bz lz t).
Proof.
  intros H. rewrite fwht_gfwht. unfold gfwht. revert H. apply fold_left_RL. intros l0 l0' d H0. unfold gfwht_pass.
  apply (RL_two_layer Rm nosk (fun _ => True) (fun _ => I)); [|exact H0].
  intros a b c p q _ _ _ Hpq. apply Rm_gtwo. exact Hpq.
Qed.

(* ---------- eval_poly ---------- *)
Definition logtab : list N := map (fun i => if i =? 0 then 0 else glog i) (range 0 GF_ORDER).
Definition prodfold (p : N * N) : N := let product := fst p * snd p in add_mod (N.land product 65535) (N.shiftr product 16).

Lemma rangeN_len' n : forall a, length (rangeN a n) = n.
Proof. induction n as [|n IH]; intros a; cbn; [reflexivity|]. rewrite IH. reflexivity. Qed.
Lemma log_walsh_eq : log_walsh = fwht logtab GF_ORDER.
Proof. unfold log_walsh, logtab. reflexivity. Qed.
Lemma Rm_of_N l : Forall (fun x => x <= 65535) l -> Forall2 Rm l (map Z.of_N l).
Proof. induction 1; cbn; constructor; [split; [assumption|reflexivity]|assumption]. Qed.
Lemma Rm_prod a b za zb : Rm a za -> Rm b zb -> Rm (prodfold (a, b)) (za * zb)%Z.
Proof.
  intros [Ha Ea] [Hb Eb]. unfold prodfold. cbn [fst snd]. cbv zeta.
  set (p := a * b). assert (Hp : p <= 65535 * 65535) by (unfold p; nia).
  change 65535 with (N.ones 16) at 1. rewrite N.land_ones, N.shiftr_div_pow2. change (2 ^ 16) with 65536.
  pose proof (N.div_mod p 65536 ltac:(lia)) as D. pose proof (N.mod_lt p 65536 ltac:(lia)) as L.
  set (lo := p mod 65536) in *. set (hi := p / 65536) in *.
  assert (Hhi : hi <= 65534) by nia.
  unfold Rm, add_mod. cbv zeta. split.
  - destruct (N.ltb_spec (lo + hi) 65536); lia.
  - rewrite Z.mul_mod, <- Ea, <- Eb, <- Z.mul_mod by lia. rewrite <- N2Z.inj_mul. fold p. rewrite D.
    destruct (N.ltb_spec (lo + hi) 65536) as [H|H].
    + rewrite !N2Z.inj_add, N2Z.inj_mul. change (Z.of_N 65536) with 65536%Z.
      replace (65536 * Z.of_N hi + Z.of_N lo)%Z with (Z.of_N lo + Z.of_N hi + Z.of_N hi * 65535)%Z by lia.
      rewrite Z.mod_add by lia. reflexivity.
    + rewrite N2Z.inj_sub, !N2Z.inj_add, N2Z.inj_mul by lia. change (Z.of_N 65536) with 65536%Z. change (Z.of_N 65535) with 65535%Z.
      replace (65536 * Z.of_N hi + Z.of_N lo)%Z with (Z.of_N lo + Z.of_N hi - 65535 + (Z.of_N hi + 1) * 65535)%Z by lia.
      rewrite Z.mod_add by lia. reflexivity.
Qed.
Lemma Rm_prods : forall a az b bz', Forall2 Rm a az -> Forall2 Rm b bz' ->
  Forall2 Rm (map prodfold (combine a b)) (vmul az bz').
Proof.
  intros a az b bz' H. revert b bz'. induction H as [|x z a az Hx _ IH]; intros b bz' Hb; [constructor|].
  destruct Hb as [|y w b bz' Hy Hb]; [constructor|]. cbn. constructor; [apply Rm_prod; assumption|apply IH; exact Hb].
Qed.
Lemma Forall2_nth' {A B} (P : A -> B -> Prop) da db : forall a b, Forall2 P a b ->
  forall j, (j < length a)%nat -> P (nth j a da) (nth j b db).
Proof.
  induction 1 as [|x y a b Hxy _ IH]; intros j Hj; [cbn in Hj; lia|]. destruct j; [exact Hxy|]. cbn. apply IH. cbn in Hj. lia.
Qed.
Lemma Forall2_len {A B} (P : A -> B -> Prop) a b : Forall2 P a b -> length a = length b.
Proof. induction 1; cbn; congruence. Qed.

Lemma logtab_le : Forall (fun x => x <= 65535) logtab.
Proof.
  unfold logtab. apply Forall_forall. intros x Hx. apply in_map_iff in Hx. destruct Hx as (i & <- & Hi).
  destruct (N.eqb_spec i 0); [lia|]. apply in_range in Hi. unfold GF_ORDER in Hi.
  assert (Wi : W16 i) by (unfold W16; lia). destruct (glog_lt i Wi n). lia.
Qed.

Lemma mod_65536 S : ((65536 * S) mod 65535 = S mod 65535)%Z.
Proof. replace (65536 * S)%Z with (S + S * 65535)%Z by ring. apply Z.mod_add. lia. Qed.

Lemma len16 {A} (l : list A) : N.of_nat (length l) = GF_ORDER -> length l = p2 16.
Proof. intros H. apply Nat2N.inj. rewrite H. reflexivity. Qed.

Lemma ep_step1 (er : list N) t : N.of_nat (length er) = GF_ORDER -> Forall (fun x => x <= 65535) er -> t <= GF_ORDER ->
  (forall i, (i < length er)%nat -> t <= N.of_nat i -> nth i er 0 = 0) ->
  Forall2 Rm (fwht er t) (wht 16 (map Z.of_N er)).
Proof.
  intros Ler Her Ht Hz.
  assert (Lerz : N.of_nat (length (map Z.of_N er)) = GF_ORDER) by (rewrite map_length; exact Ler).
  rewrite <- (zfwht_wht (map Z.of_N er) t Lerz Ht).
  - apply fwht_Rm. apply Rm_of_N. exact Her.
  - intros i Hi Hti. rewrite map_length in Hi. rewrite (nth_error_nth' _ 0%Z) by (rewrite map_length; exact Hi).
    f_equal. change 0%Z with (Z.of_N 0). rewrite map_nth. rewrite Hz by assumption. reflexivity.
Qed.
Lemma logtab_len : N.of_nat (length logtab) = GF_ORDER.
Proof. unfold logtab. rewrite map_length. unfold range. rewrite rangeN_len', N2Nat.id. reflexivity. Qed.
Lemma ep_step2 : Forall2 Rm log_walsh (wht 16 (map Z.of_N logtab)).
Proof.
  rewrite log_walsh_eq.
  assert (LLz : N.of_nat (length (map Z.of_N logtab)) = GF_ORDER) by (rewrite map_length; exact logtab_len).
  rewrite <- (zfwht_wht (map Z.of_N logtab) GF_ORDER LLz (N.le_refl _)).
  - apply fwht_Rm. apply Rm_of_N. exact logtab_le.
  - intros i Hi Hti. exfalso. assert (Hi' : N.of_nat i < N.of_nat (length (map Z.of_N logtab))) by lia. rewrite LLz in Hi'. lia.
Qed.
Lemma ep_step3 (az bz' : list Z) (e2 : list N) : length az = p2 16 -> length bz' = p2 16 ->
  Forall2 Rm e2 (vmul (wht 16 az) (wht 16 bz')) ->
  Forall2 Rm (fwht e2 GF_ORDER) (vscale 65536 (xconv 16 az bz')).
Proof.
  intros La Lb H.
  change 65536%Z with (2 ^ Z.of_nat 16)%Z. rewrite <- (wht_conv 16 az bz' La Lb).
  set (v := vmul (wht 16 az) (wht 16 bz')) in *.
  assert (Lv : length v = p2 16) by (unfold v, vmul; rewrite zmap2_length, !wht_length by assumption; apply Nat.min_id).
  assert (Lv' : N.of_nat (length v) = GF_ORDER) by (rewrite Lv; reflexivity).
  rewrite <- (zfwht_wht v GF_ORDER Lv' (N.le_refl _)).
  - apply fwht_Rm. exact H.
  - intros i Hi Hti. exfalso. assert (Hi' : N.of_nat i < N.of_nat (length v)) by lia. rewrite Lv' in Hi'. lia.
Qed.

Theorem eval_poly_mod (er : list N) t : N.of_nat (length er) = GF_ORDER -> Forall (fun x => x <= 65535) er -> t <= GF_ORDER ->
  (forall i, (i < length er)%nat -> t <= N.of_nat i -> nth i er 0 = 0) ->
  forall x, (x < p2 16)%nat ->
  nth x (eval_poly er t) 0 <= 65535 /\
  (Z.of_N (nth x (eval_poly er t) 0%N) mod 65535 =
   zsum (p2 16) (fun y => Z.of_N (nth y er 0%N) * Z.of_N (nth (xr x y) logtab 0%N)) mod 65535)%Z.
Proof.
  intros Ler Her Ht Hz x Hx. unfold eval_poly. cbv zeta. fold prodfold.
  pose proof (ep_step1 er t Ler Her Ht Hz) as R1. pose proof ep_step2 as R2.
  pose proof (Rm_prods _ _ _ _ R1 R2) as R3.
  assert (Le : length (map Z.of_N er) = p2 16) by (apply len16; rewrite map_length; exact Ler).
  assert (LL : length (map Z.of_N logtab) = p2 16) by (apply len16; rewrite map_length; exact logtab_len).
  pose proof (ep_step3 _ _ _ Le LL R3) as R4.
  assert (Lout : length (fwht (map prodfold (combine (fwht er t) log_walsh)) GF_ORDER) = p2 16).
  { rewrite (Forall2_len _ _ _ R4), vscale_length, xconv_length by assumption. reflexivity. }
  destruct (Forall2_nth' Rm 0 0%Z _ _ R4 x ltac:(rewrite Lout; exact Hx)) as [Hle Hmod].
  split; [exact Hle|]. rewrite Hmod. rewrite nth_vscale, (xconv_nth 16 _ _ x Le LL Hx).
  rewrite mod_65536.
  apply (f_equal (fun z => Z.modulo z 65535)). apply zsum_ext. intros y Hy.
  change 0%Z with (Z.of_N 0). rewrite !map_nth. reflexivity.
Qed.

Lemma eval_poly_len (er : list N) t : N.of_nat (length er) = GF_ORDER -> Forall (fun x => x <= 65535) er -> t <= GF_ORDER ->
  (forall i, (i < length er)%nat -> t <= N.of_nat i -> nth i er 0 = 0) ->
  length (eval_poly er t) = p2 16.
Proof.
  intros Ler Her Ht Hz. unfold eval_poly. cbv zeta. fold prodfold.
  pose proof (ep_step1 er t Ler Her Ht Hz) as R1. pose proof ep_step2 as R2.
  pose proof (Rm_prods _ _ _ _ R1 R2) as R3.
  assert (Le : length (map Z.of_N er) = p2 16) by (apply len16; rewrite map_length; exact Ler).
  assert (LL : length (map Z.of_N logtab) = p2 16) by (apply len16; rewrite map_length; exact logtab_len).
  pose proof (ep_step3 _ _ _ Le LL R3) as R4.
  rewrite (Forall2_len _ _ _ R4), vscale_length, xconv_length by assumption. reflexivity.
Qed.
