
val negb : bool -> bool

type nat =
| O
| S of nat

val option_map : ('a1 -> 'a2) -> 'a1 option -> 'a2 option

type ('a, 'b) sum =
| Inl of 'a
| Inr of 'b

val fst : ('a1 * 'a2) -> 'a1

val snd : ('a1 * 'a2) -> 'a2

val length : 'a1 list -> nat

val app : 'a1 list -> 'a1 list -> 'a1 list

type comparison =
| Eq
| Lt
| Gt

val add : nat -> nat -> nat

val mul : nat -> nat -> nat

val sub : nat -> nat -> nat

val pow : nat -> nat -> nat

val divmod : nat -> nat -> nat -> nat -> nat * nat

val div : nat -> nat -> nat

val div2 : nat -> nat

type positive =
| XI of positive
| XO of positive
| XH

type n =
| N0
| Npos of positive

module Pos :
 sig
  type mask =
  | IsNul
  | IsPos of positive
  | IsNeg
 end

module Coq_Pos :
 sig
  val succ : positive -> positive

  val add : positive -> positive -> positive

  val add_carry : positive -> positive -> positive

  val pred_double : positive -> positive

  val pred_N : positive -> n

  type mask = Pos.mask =
  | IsNul
  | IsPos of positive
  | IsNeg

  val succ_double_mask : mask -> mask

  val double_mask : mask -> mask

  val double_pred_mask : positive -> mask

  val sub_mask : positive -> positive -> mask

  val sub_mask_carry : positive -> positive -> mask

  val mul : positive -> positive -> positive

  val iter : ('a1 -> 'a1) -> 'a1 -> positive -> 'a1

  val pow : positive -> positive -> positive

  val size : positive -> positive

  val compare_cont : comparison -> positive -> positive -> comparison

  val compare : positive -> positive -> comparison

  val eqb : positive -> positive -> bool

  val coq_Nsucc_double : n -> n

  val coq_Ndouble : n -> n

  val coq_lor : positive -> positive -> positive

  val coq_land : positive -> positive -> n

  val coq_lxor : positive -> positive -> n

  val shiftl : positive -> n -> positive

  val testbit : positive -> n -> bool

  val iter_op : ('a1 -> 'a1 -> 'a1) -> positive -> 'a1 -> 'a1

  val to_nat : positive -> nat

  val of_succ_nat : nat -> positive
 end

module N :
 sig
  val succ_double : n -> n

  val double : n -> n

  val succ : n -> n

  val pred : n -> n

  val succ_pos : n -> positive

  val add : n -> n -> n

  val sub : n -> n -> n

  val mul : n -> n -> n

  val compare : n -> n -> comparison

  val eqb : n -> n -> bool

  val leb : n -> n -> bool

  val ltb : n -> n -> bool

  val min : n -> n -> n

  val max : n -> n -> n

  val div2 : n -> n

  val even : n -> bool

  val odd : n -> bool

  val pow : n -> n -> n

  val log2 : n -> n

  val pos_div_eucl : positive -> n -> n * n

  val div_eucl : n -> n -> n * n

  val div : n -> n -> n

  val modulo : n -> n -> n

  val coq_lor : n -> n -> n

  val coq_land : n -> n -> n

  val coq_lxor : n -> n -> n

  val shiftl : n -> n -> n

  val shiftr : n -> n -> n

  val testbit : n -> n -> bool

  val to_nat : n -> nat

  val of_nat : nat -> n

  val iter : n -> ('a1 -> 'a1) -> 'a1 -> 'a1

  val log2_up : n -> n
 end

val nth : nat -> 'a1 list -> 'a1 -> 'a1

val nth_error : 'a1 list -> nat -> 'a1 option

val rev : 'a1 list -> 'a1 list

val map : ('a1 -> 'a2) -> 'a1 list -> 'a2 list

val flat_map : ('a1 -> 'a2 list) -> 'a1 list -> 'a2 list

val fold_left : ('a1 -> 'a2 -> 'a1) -> 'a2 list -> 'a1 -> 'a1

val existsb : ('a1 -> bool) -> 'a1 list -> bool

val filter : ('a1 -> bool) -> 'a1 list -> 'a1 list

val combine : 'a1 list -> 'a2 list -> ('a1 * 'a2) list

val firstn : nat -> 'a1 list -> 'a1 list

val skipn : nat -> 'a1 list -> 'a1 list

val repeat : 'a1 -> nat -> 'a1 list

type error =
| DifferentShardSize of n * n
| DuplicateOriginalShardIndex of n
| DuplicateRecoveryShardIndex of n
| InvalidOriginalShardIndex of n * n
| InvalidRecoveryShardIndex of n * n
| InvalidShardSize of n
| NotEnoughShards of n * n * n
| TooFewOriginalShards of n * n
| TooManyOriginalShards of n
| UnsupportedShardCount of n * n

val npow2 : n -> n

val gF_ORDER : n

val gF_MODULUS : n

val gF_POLYNOMIAL : n

val cANTOR_BASIS : n list

module PositiveMap :
 sig
  type key = positive

  type 'a tree =
  | Leaf
  | Node of 'a tree * 'a option * 'a tree

  type 'a t = 'a tree

  val empty : 'a1 t

  val find : key -> 'a1 t -> 'a1 option

  val add : key -> 'a1 -> 'a1 t -> 'a1 t
 end

type tbl = n PositiveMap.t

val tempty : tbl

val tget : tbl -> n -> n

val tset : tbl -> n -> n -> tbl

val rangeN : n -> nat -> n list

val range : n -> n -> n list

val fold_range : n -> n -> (n -> 'a1 -> 'a1) -> 'a1 -> 'a1

val tbl_of_list : n list -> tbl

val mulx : n -> n

val phi_aux : n list -> n -> n -> n

val phi : n -> n

val add_mod : n -> n -> n

val sub_mod : n -> n -> n

val lfsr_step : ((n * n) * tbl) -> (n * n) * tbl

val lfsr_tbl : tbl

val log_tbl : tbl

val exp_tbl : tbl

val glog : n -> n

val gexp : n -> n

val mul0 : n -> n -> n

val fmul : n -> n -> n

val fdiv : n -> n -> n

val fwht_2 : n -> n -> n * n

val fwht_4v : ((n * n) * (n * n)) -> (n * n) * (n * n)

val fwht_layer : nat -> nat -> n -> n -> n list -> n list

val steps : nat -> n -> n -> n -> n list

val fwht_dists : n list

val fwht_pass : n -> n list -> n -> n list

val fwht : n list -> n -> n list

val log_walsh : n list

val log_walsh_tbl : tbl

val eval_poly : n list -> n -> n list

val skew_inner : n -> n -> n -> n -> tbl -> tbl

val skew_m : n -> (tbl * tbl) -> tbl * tbl

val skew_tbl : tbl

val skew : n -> n

type 't elt_ops = { xorT : ('t -> 't -> 't); mulT : ('t -> n -> 't);
                    zeroT : 't }

val sym_ops : n elt_ops

val map2 : ('a1 -> 'a2 -> 'a3) -> 'a1 list -> 'a2 list -> 'a3 list

val shard_ops : nat -> n list elt_ops

val muladd : 'a1 elt_ops -> 'a1 -> 'a1 -> n -> 'a1

val fft_bf : 'a1 elt_ops -> n -> ('a1 * 'a1) -> 'a1 * 'a1

val ifft_bf : 'a1 elt_ops -> n -> ('a1 * 'a1) -> 'a1 * 'a1

val bf2 :
  (('a1 * 'a1) -> 'a1 * 'a1) -> 'a1 list -> 'a1 list -> 'a1 list * 'a1 list

val naive_layer :
  (n -> n) -> (n -> ('a1 * 'a1) -> 'a1 * 'a1) -> nat -> nat -> n -> n -> n ->
  'a1 list -> 'a1 list

val dists_up : nat -> n -> n -> n list

val dists : n -> n list

val naive_pass :
  (n -> n) -> (n -> ('a1 * 'a1) -> 'a1 * 'a1) -> n -> n -> n -> 'a1 list -> n
  -> 'a1 list

val naive_fft : 'a1 elt_ops -> (n -> n) -> n -> n -> n -> 'a1 list -> 'a1 list

val naive_ifft :
  'a1 elt_ops -> (n -> n) -> n -> n -> n -> 'a1 list -> 'a1 list

val fft_two :
  'a1 elt_ops -> n -> n -> n -> (('a1 * 'a1) * ('a1 * 'a1)) ->
  ('a1 * 'a1) * ('a1 * 'a1)

val ifft_two :
  'a1 elt_ops -> n -> n -> n -> (('a1 * 'a1) * ('a1 * 'a1)) ->
  ('a1 * 'a1) * ('a1 * 'a1)

val two_layer :
  (n -> n) -> (n -> n -> n -> (('a1 * 'a1) * ('a1 * 'a1)) ->
  ('a1 * 'a1) * ('a1 * 'a1)) -> nat -> nat -> n -> n -> n -> 'a1 list -> 'a1
  list

val dists4_down : nat -> n -> n -> n list * n

val dists4_up : nat -> n -> n -> n -> n list * n

val two_pass :
  (n -> n) -> (n -> n -> n -> (('a1 * 'a1) * ('a1 * 'a1)) ->
  ('a1 * 'a1) * ('a1 * 'a1)) -> n -> n -> 'a1 list -> n -> 'a1 list

val two_fft : 'a1 elt_ops -> (n -> n) -> n -> n -> n -> 'a1 list -> 'a1 list

val two_ifft : 'a1 elt_ops -> (n -> n) -> n -> n -> n -> 'a1 list -> 'a1 list

val formal_derivative_rec : 'a1 elt_ops -> nat -> 'a1 list -> 'a1 list

val formal_derivative : 'a1 elt_ops -> 'a1 list -> 'a1 list

type engine =
| Naive
| NoSimd
| Ssse3
| Avx2
| Neon
| DefaultE

val two_layer_engine : engine -> bool

val fft : 'a1 elt_ops -> engine -> n -> n -> n -> 'a1 list -> 'a1 list

val ifft : 'a1 elt_ops -> engine -> n -> n -> n -> 'a1 list -> 'a1 list

val np2 : n -> n

val next_mult : n -> n -> n

val high_enc_work_count : n -> n -> n

val high_dec_work_count : n -> n -> n

val low_enc_work_count : n -> n -> n

val low_dec_work_count : n -> n -> n

val zeros : 'a1 elt_ops -> nat -> 'a1 list

val xor_list : 'a1 elt_ops -> 'a1 list -> 'a1 list -> 'a1 list

val zero_tail : 'a1 elt_ops -> nat -> 'a1 list -> 'a1 list

val chunks : nat -> nat -> 'a1 list -> 'a1 list list

val high_enc_chunks :
  'a1 elt_ops -> engine -> n -> n -> n -> 'a1 list -> 'a1 list list -> 'a1
  list

val encode_high : 'a1 elt_ops -> engine -> n -> n -> 'a1 list -> 'a1 list

val low_enc_chunks :
  'a1 elt_ops -> engine -> nat -> n -> n -> n -> 'a1 list -> 'a1 list

val encode_low : 'a1 elt_ops -> engine -> n -> n -> 'a1 list -> 'a1 list

val mul_or_zero : 'a1 elt_ops -> (n -> bool) -> n -> n -> 'a1 -> 'a1

val reveal : 'a1 elt_ops -> (n -> bool) -> n -> n -> 'a1 -> 'a1

val mapi : (n -> n -> 'a1 -> 'a1) -> n list -> 'a1 list -> 'a1 list

val transform : 'a1 elt_ops -> engine -> n -> n -> 'a1 list -> 'a1 list

val high_erasures : n -> n -> (n -> bool) -> n list

val decode_high_work :
  'a1 elt_ops -> engine -> n -> n -> (n -> bool) -> 'a1 list -> n list * 'a1
  list

val low_erasures : n -> n -> (n -> bool) -> n list

val decode_low_work :
  'a1 elt_ops -> engine -> n -> n -> (n -> bool) -> 'a1 list -> n list * 'a1
  list

val sym : n -> n -> n

val lo_byte : n -> n

val hi_byte : n -> n

val group_syms : n list -> n list

val group_bytes : n list -> n list

val syms_of_bytes_fuel : nat -> n list -> n list

val syms_of_bytes : n list -> n list

val bytes_of_syms_fuel : nat -> n list -> n list

val bytes_of_syms : n list -> n list

type vec = n list

val nthb : vec -> n -> n

val mul16 : n -> n -> n -> n

val mul128_lo : n -> n -> vec

val mul128_hi : n -> n -> vec

val naive_mul_block : n -> vec -> vec

val nosimd_prod : n -> n -> n -> n

val nosimd_mul_block : n -> vec -> vec

val vand : vec -> vec -> vec

val vxor : vec -> vec -> vec

val vset1 : nat -> n -> vec

val pshufb : vec -> vec -> vec

val word_of : n list -> n

val bytes_of : nat -> n -> n list

val srli_epi64 : nat -> vec -> n -> vec

val mul_128 : n -> vec -> vec -> vec * vec

val ssse3_mul_block : n -> vec -> vec

val vpshufb : vec -> vec -> vec

val bcast : vec -> vec

val mul_256 : n -> vec -> vec -> vec * vec

val avx2_mul_block : n -> vec -> vec

val vqtbl1q : vec -> vec -> vec

val vshrq_n : vec -> n -> vec

val neon_mul_128 : n -> vec -> vec -> vec * vec

val neon_mul_block : n -> vec -> vec

val mul_block : engine -> n -> vec -> vec

type codec =
| CRs
| CDef
| CHigh
| CLow

type rate =
| High
| Low

val high_supportsb : n -> n -> bool

val low_supportsb : n -> n -> bool

val use_high_rateb : n -> n -> bool option

val default_supportsb : n -> n -> bool

val supportsb : codec -> n -> n -> bool

val bad_size : n -> bool

val validateb : codec -> n -> n -> n -> error option

val rate_of : codec -> n -> n -> rate

val blocks_of : n -> n

type mem = n list PositiveMap.t

val mget : mem -> n -> n list option

val mset : mem -> n -> n list -> mem

val mempty : mem

type encwork = { ew_K : n; ew_R : n; ew_sb : n; ew_recv : n; ew_mem : 
                 mem; ew_wc : n; ew_cap : n }

val encwork_new : encwork

val enc_work_count : rate -> n -> n -> n

val dec_work_count : rate -> n -> n -> n

val encwork_reset : encwork -> rate -> n -> n -> n -> encwork * bool

type encoder = { e_codec : codec; e_engine : engine; e_rate : rate;
                 e_work : encwork }

type pset = unit PositiveMap.t

val pmem : pset -> n -> bool

val padd : pset -> n -> pset

val pempty : pset

type decwork = { dw_K : n; dw_R : n; dw_sb : n; dw_obase : n; dw_rbase : 
                 n; dw_orecv : n; dw_rrecv : n; dw_received : pset;
                 dw_mem : mem; dw_wc : n; dw_cap : n; dw_bits : n }

val decwork_new : decwork

val decwork_reset : decwork -> rate -> n -> n -> n -> decwork * bool

type decoder = { d_codec : codec; d_engine : engine; d_rate : rate;
                 d_work : decwork }

type bytes = n list

type result =
| ROkUnit
| RError of error
| RPanic
| RNoObj
| RBool of bool
| REnc of bytes list * (n * bytes option) list
| RDec of (n * bytes) list * (n * bytes option) list
| RShards of bytes list
| RMap of (n * bytes) list

type op =
| ENew of codec * engine * n * n * n
| ENewW of codec * engine * n * n * n
| EParts
| EReset of n * n * n
| EAdd of bytes
| EEncode of n list
| DNew of codec * engine * n * n * n
| DNewW of codec * engine * n * n * n
| DParts
| DReset of n * n * n
| DAddO of n * bytes
| DAddR of n * bytes
| DDecode of n list
| Supports of codec * n * n
| Validate of codec * n * n * n
| OneEnc of n * n * bytes list
| OneDec of n * n * (n * bytes) list * (n * bytes) list

type state = { s_enc : encoder option; s_dec : decoder option;
               s_encwork : encwork option; s_decwork : decwork option;
               s_epoch : n; s_alloc : bool }

val init : state

val blen : bytes -> n

val lanes_of : n -> n

val junk_shard : (n -> n -> n -> n) -> n -> n -> n -> n list

val work_list : (n -> n -> n -> n) -> n -> mem -> n -> n -> n list list

val enc_make :
  codec -> engine -> n -> n -> n -> encwork -> (encoder * bool, error) sum

val enc_add : encoder -> bytes -> (encoder, error) sum

val encode_shards : (n -> n -> n -> n) -> n -> encoder -> bytes list

val enc_after_round : encoder -> encoder

val enc_encode :
  (n -> n -> n -> n) -> n -> encoder -> n list -> encoder * result

val dec_make :
  codec -> engine -> n -> n -> n -> decwork -> (decoder * bool, error) sum

val dw_insert : decwork -> n -> bytes -> bool -> decwork

val with_dwork : decoder -> decwork -> decoder

val dec_add_original : decoder -> n -> bytes -> (decoder, error) sum

val dec_add_recovery : decoder -> n -> bytes -> (decoder, error) sum

val dec_after_round : decoder -> decoder

val decode_work : (n -> n -> n -> n) -> n -> decoder -> n list list

val dec_decode :
  (n -> n -> n -> n) -> n -> decoder -> n list -> decoder * result

val enc_add_all : encoder -> bytes list -> (encoder, error) sum

val oneshot_encode : (n -> n -> n -> n) -> n -> n -> n -> bytes list -> result

val dec_add_all : bool -> decoder -> (n * bytes) list -> (decoder, error) sum

val oneshot_decode :
  (n -> n -> n -> n) -> n -> n -> n -> (n * bytes) list -> (n * bytes) list
  -> result

val set_enc : state -> encoder option -> bool -> state

val set_dec : state -> decoder option -> bool -> state

val noalloc : state -> state

val bump : state -> state

val step : (n -> n -> n -> n) -> state -> op -> state * result

val run : (n -> n -> n -> n) -> state -> op list -> state * result list

val adm_config : codec -> n -> n -> n -> error list

val adm_len : n -> bytes -> error list

val adm_enc_add : encwork -> bytes -> error list

val adm_dec_addo : decwork -> n -> bytes -> error list

val adm_dec_addr : decwork -> n -> bytes -> error list

val adm_oneenc : n -> n -> bytes list -> error list

val dup_errors : (n -> error) -> n list -> (n * bytes) list -> error list

val distinct_ok : n -> n -> n list -> (n * bytes) list -> n

val adm_onedec : n -> n -> (n * bytes) list -> (n * bytes) list -> error list

val admissible : state -> op -> error list

val s_poly : nat -> n -> n

val w : n -> n

val log2n : n -> nat

val cauchy_high_w : n -> n -> n -> n -> n

val cauchy_low_w : n -> n -> n -> n -> n

val xor_sum : n list -> n

val cauchy_high_row : n -> n -> n -> n list

val cauchy_low_row : n -> n -> n -> n list

val row_apply : n list -> n list -> n

val recovery_high_spec : n -> n -> n list -> n -> n

val recovery_low_spec : n -> n -> n list -> n -> n

val lch_basis_aux : nat -> nat -> n -> n -> n

val lch_basis : n -> n -> n

val lch_eval : n list -> n -> n

val locator_log : n list -> n -> n

val envelope_n : n -> n -> n -> bool

val envelopeb : n -> n -> bool

val rmax : n -> n
