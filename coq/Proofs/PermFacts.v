(* C11: the decoder state after a sequence of successful adds depends only on the set of
   (kind, index, shard) triples, not on their order. *)
From Coq Require Import NArith Lia Bool List FMapPositive Permutation.
From RS.Gen Require Import Prelude GenConsts.
From RS.Model Require Import Field Tables Sched Codec Layout Machine.
Import ListNotations.
Local Open Scope N_scope.

Lemma padd_comm {A} (i j : positive) (x y : A) (m : PositiveMap.t A) : i <> j ->
  PositiveMap.add i x (PositiveMap.add j y m) = PositiveMap.add j y (PositiveMap.add i x m).
Proof.
  revert j m. induction i as [i IH|i IH|]; intros j m Hne; destruct j as [j|j|]; destruct m as [|l o r];
    cbn; try reflexivity; try congruence;
    try (f_equal; apply IH; congruence).
Qed.

Lemma succ_pos_inj a b : N.succ_pos a = N.succ_pos b -> a = b.
Proof. intros H. apply (f_equal Npos) in H. rewrite !N.succ_pos_spec in H. lia. Qed.

Inductive add := AddO (i : N) (s : bytes) | AddR (i : N) (s : bytes).
Definition dec_add (x : decoder) (a : add) : decoder + error :=
  match a with AddO i s => dec_add_original x i s | AddR i s => dec_add_recovery x i s end.
Fixpoint dec_adds (x : decoder) (l : list add) : decoder + error :=
  match l with
  | [] => inl x
  | a :: r => match dec_add x a with inl x' => dec_adds x' r | inr e => inr e end
  end.

Definition add_pos (w : decwork) (a : add) : N :=
  match a with AddO i _ => dw_obase w + i | AddR i _ => dw_rbase w + i end.

Definition add_guard (w : decwork) (a : add) : bool :=
  match a with
  | AddO i s => negb (dw_K w <=? i) && negb (pmem (dw_received w) (dw_obase w + i)) && (blen s =? dw_sb w)
  | AddR i s => negb (dw_R w <=? i) && negb (pmem (dw_received w) (dw_rbase w + i)) && (blen s =? dw_sb w)
  end.
Definition add_apply (w : decwork) (a : add) : decwork :=
  match a with
  | AddO i s => dw_insert w (dw_obase w + i) s true
  | AddR i s => dw_insert w (dw_rbase w + i) s false
  end.

Lemma dec_add_spec x a :
  (add_guard (d_work x) a = true -> dec_add x a = inl (with_dwork x (add_apply (d_work x) a))) /\
  (add_guard (d_work x) a = false -> exists e, dec_add x a = inr e).
Proof.
  destruct a as [i s|i s]; cbn [dec_add add_guard add_apply]; unfold dec_add_original, dec_add_recovery;
    destruct (_ <=? _); cbn [negb andb]; try (split; [discriminate|intros _; eexists; reflexivity]);
    destruct (pmem _ _); cbn [negb andb]; try (split; [discriminate|intros _; eexists; reflexivity]);
    destruct (blen s =? dw_sb (d_work x)); cbn [negb]; split; try discriminate; try reflexivity;
    intros _; eexists; reflexivity.
Qed.

Lemma pmem_padd s p q : pmem (padd s p) q = (q =? p) || pmem s q.
Proof.
  unfold pmem, padd. destruct (N.eqb_spec q p) as [->|Hne].
  - rewrite PositiveMap.gss. reflexivity.
  - rewrite PositiveMap.gso; [reflexivity|]. intros E. apply succ_pos_inj in E. congruence.
Qed.

Lemma mset_comm m p q (x y : list N) : p <> q -> mset (mset m p x) q y = mset (mset m q y) p x.
Proof. intros H. unfold mset. apply padd_comm. intros E. apply succ_pos_inj in E. congruence. Qed.
Lemma padd_set_comm s p q : p <> q -> padd (padd s p) q = padd (padd s q) p.
Proof. intros H. unfold padd. apply padd_comm. intros E. apply succ_pos_inj in E. congruence. Qed.

(* two successful adds commute: same final decoder *)
Theorem add_apply_swap w a b :
  add_guard w a = true -> add_guard (add_apply w a) b = true ->
  add_guard w b = true /\ add_guard (add_apply w b) a = true /\
  add_apply (add_apply w b) a = add_apply (add_apply w a) b.
Proof.
  destruct a as [i s|i s]; destruct b as [j t|j t]; cbn [add_guard add_apply];
    unfold dw_insert; cbn; rewrite ?pmem_padd; intros Ha Hb;
    repeat (match goal with H : _ && _ = true |- _ => apply andb_prop in H; destruct H end);
    repeat (match goal with H : negb (_ || _) = true |- _ => rewrite negb_orb in H; apply andb_prop in H; destruct H end);
    repeat match goal with H : negb (_ =? _) = true |- _ => apply negb_true_iff in H; apply N.eqb_neq in H end;
    (split; [repeat (apply andb_true_intro; split); assumption|]);
    (split; [repeat (apply andb_true_intro; split); try assumption; rewrite negb_orb; apply andb_true_intro; split;
             [apply negb_true_iff; apply N.eqb_neq; congruence|assumption]|]);
    f_equal; try lia; try (apply padd_set_comm; congruence); try (apply mset_comm; congruence).
Qed.

Fixpoint all_ok (w : decwork) (l : list add) : Prop :=
  match l with [] => True | a :: r => add_guard w a = true /\ all_ok (add_apply w a) r end.
Fixpoint apply_all (w : decwork) (l : list add) : decwork :=
  match l with [] => w | a :: r => apply_all (add_apply w a) r end.

Theorem perm_adds l l' : Permutation l l' -> forall w,
  all_ok w l -> all_ok w l' /\ apply_all w l' = apply_all w l.
Proof.
  induction 1 as [|a l l' _ IH|a b l|l l' l'' _ IH1 _ IH2]; intros w H.
  - split; [exact I|reflexivity].
  - destruct H as [Hg H]. destruct (IH _ H) as [H1 H2]. split; [split; assumption|exact H2].
  - destruct H as [Hb [Ha H]]. cbn [all_ok apply_all].
    destruct (add_apply_swap w b a Hb Ha) as (G1 & G2 & E). rewrite E. repeat split; assumption.
  - destruct (IH1 _ H) as [H1 E1]. destruct (IH2 _ H1) as [H2 E2]. split; [exact H2|congruence].
Qed.

(* connection with the machine: a list of adds all succeeds iff all_ok, and then the decoder
   is the folded one *)
Lemma dec_adds_spec l : forall x, all_ok (d_work x) l -> dec_adds x l = inl (with_dwork x (apply_all (d_work x) l)).
Proof.
  induction l as [|a l IH]; intros x H; cbn.
  - destruct x; reflexivity.
  - destruct H as [Hg H]. destruct (dec_add_spec x a) as [S _]. rewrite (S Hg).
    rewrite IH by exact H. reflexivity.
Qed.
Lemma dec_adds_ok_inv l : forall x x', dec_adds x l = inl x' -> all_ok (d_work x) l.
Proof.
  induction l as [|a l IH]; intros x x' H; cbn in *; [exact I|].
  destruct (add_guard (d_work x) a) eqn:G.
  - destruct (dec_add_spec x a) as [S _]. rewrite (S G) in H. split; [reflexivity|]. apply (IH _ _ H).
  - destruct (dec_add_spec x a) as [_ S]. destruct (S G) as [e He]. rewrite He in H. discriminate.
Qed.

(* C11_perm: any permutation of a successful sequence of adds succeeds and yields the same decoder *)
Theorem dec_adds_perm x l l' x' : Permutation l l' -> dec_adds x l = inl x' -> dec_adds x l' = inl x'.
Proof.
  intros P H. pose proof (dec_adds_ok_inv _ _ _ H) as Hok.
  destruct (perm_adds _ _ P _ Hok) as [Hok' E].
  rewrite (dec_adds_spec _ _ Hok'). rewrite (dec_adds_spec _ _ Hok) in H. congruence.
Qed.
