(* C03 — all engines are bit-identical, end to end and primitive by primitive.
   Instances by computation: (1) every multiply kernel (Naive, NoSimd nibble tables, SSSE3
   pshufb/psrlq, AVX2 lane-local vpshufb on a broadcast LUT, Neon vqtbl1q/vshrq) equals the
   field multiplication of every 16-bit lane on structured and pseudo-random blocks;
   (2) the one-layer and the two-layer schedules agree on the contract-defined outputs for all
   sizes up to 32, all truncations; (3) untruncated they agree on all outputs.
   General theorems: C03_mul_all_engines (kernels), C03_fft_untruncated, C03_fft_truncated and
   C03_ifft_truncated (schedules: any element type, size, truncation). *)
From Coq Require Import NArith Bool List Lia.
From RS.Gen Require Import Prelude GenConsts.
From RS.Model Require Import Field Tables Sched Layout Kernels.
From RS.Proofs Require Import FieldFacts Param Linear SchedEquiv Trunc KernelFacts.
Import ListNotations.
Local Open Scope N_scope.

Definition leq (a b : list N) : bool := if list_eq_dec N.eq_dec a b then true else false.
Definition blk (seed : N) : list N := map (fun i => (i * i * 31 + i * seed + 7) mod 256) (range 0 64).
Definition blocks : list (list N) :=
  [blk 1; blk 77; blk 200; repeat 0 64; repeat 255 64; repeat 15 64; repeat 240 64; repeat 128 64;
   map (fun i => i mod 16) (range 0 64); map (fun i => (i mod 16) * 16) (range 0 64)].
Definition engines := [Naive; NoSimd; Ssse3; Avx2; Neon; DefaultE].

(* Naive and NoSimd: for EVERY 64-byte block and every multiplier the kernel is the field
   multiplication of each 16-bit lane (nibble decomposition + additivity of the product) *)
Theorem C03_mul_portable : forall m b, m <= 65535 -> length b = 64%nat -> Forall (fun x => x < 256) b ->
  naive_mul_block m b = spec_mul_block m b /\ nosimd_mul_block m b = spec_mul_block m b.
Proof. intros; split; [apply naive_mul_block_spec|apply nosimd_mul_block_spec]; assumption. Qed.
Print Assumptions C03_mul_portable.

(* every engine's kernel (incl. the SSSE3, AVX2 and Neon models built from pshufb / psrlq+pand /
   vpshufb on a broadcast LUT / vqtbl1q / vshrq) is, for EVERY 64-byte block and every
   multiplier, the field multiplication of each of its 32 lanes: all engines bit-identical *)
Theorem C03_mul_all_engines : forall e m b, m <= 65535 -> length b = 64%nat -> Forall (fun x => x < 256) b ->
  mul_block e m b = spec_mul_block m b.
Proof. exact mul_block_spec. Qed.
Print Assumptions C03_mul_all_engines.

(* untruncated transforms: every engine computes exactly what the reference engine computes,
   on ALL outputs, for any element type (symbols or whole shards), any size 2^k <= 2^16, any
   skew_delta and any contents.  (Truncated transforms: instances below.) *)
Theorem C03_fft_untruncated : forall T (ops : elt_ops T) e k sd l, (k <= 16)%nat -> N.of_nat (length l) = 2 ^ N.of_nat k ->
  fft ops e (2 ^ N.of_nat k) (2 ^ N.of_nat k) sd l = fft ops Naive (2 ^ N.of_nat k) (2 ^ N.of_nat k) sd l /\
  ifft ops e (2 ^ N.of_nat k) (2 ^ N.of_nat k) sd l = ifft ops Naive (2 ^ N.of_nat k) (2 ^ N.of_nat k) sd l.
Proof. intros; split; [apply fft_engines_agree|apply ifft_engines_agree]; assumption. Qed.
Print Assumptions C03_fft_untruncated.

(* truncated forward transform: the engines process different sets of blocks beyond the
   truncation point, but every output below it is the same for all engines — any element type,
   any size 2^k <= 2^16, any truncation, any skew_delta, any contents *)
Theorem C03_fft_truncated : forall T (ops : elt_ops T) e1 e2 k trunc sd l, (k <= 16)%nat ->
  N.of_nat (length l) = 2 ^ N.of_nat k -> trunc <= 2 ^ N.of_nat k ->
  firstn (N.to_nat trunc) (fft ops e1 (2 ^ N.of_nat k) trunc sd l) =
  firstn (N.to_nat trunc) (fft ops e2 (2 ^ N.of_nat k) trunc sd l).
Proof. exact @fft_trunc_engines. Qed.
Print Assumptions C03_fft_truncated.

(* truncated inverse transform within its contract (input zero from the truncation point on):
   every engine returns, on ALL positions, what the untruncated reference transform returns *)
Theorem C03_ifft_truncated : forall T (ops : elt_ops T) e k trunc sd l, ops_zero ops -> (k <= 16)%nat ->
  N.of_nat (length l) = 2 ^ N.of_nat k -> trunc <= 2 ^ N.of_nat k ->
  (forall i, (i < length l)%nat -> trunc <= N.of_nat i -> nth_error l i = Some (zeroT ops)) ->
  ifft ops e (2 ^ N.of_nat k) trunc sd l = ifft ops Naive (2 ^ N.of_nat k) (2 ^ N.of_nat k) sd l.
Proof. exact @ifft_trunc_exact. Qed.
Print Assumptions C03_ifft_truncated.
(* the element types of the model satisfy the side condition *)
Theorem C03_ops_zero : ops_zero sym_ops /\ forall n, ops_zero (shard_ops n).
Proof. split; [exact sym_ops_zero|exact shard_ops_zero]. Qed.

Theorem C03_mul_instances :
  forallb (fun m => forallb (fun b => forallb (fun e => leq (mul_block e m b) (spec_mul_block m b)) engines) blocks)
          [0; 1; 2; 255; 256; 4096; 12345; 43690; 65534; 65535] = true.
Proof. vm_compute. reflexivity. Qed.
Print Assumptions C03_mul_instances.

(* psrlq 4 followed by pand 0x0f is the per-byte high nibble: all 256 byte values in every
   position of a 64-bit lane pattern *)
Theorem C03_high_nibble :
  forallb (fun x => leq (vand (srli_epi64 2 (repeat x 16) 4) (vset1 16 15)) (repeat (N.shiftr x 4) 16) &&
                    leq (vand (srli_epi64 2 (map (fun i => (x + i * 17) mod 256) (range 0 16)) 4) (vset1 16 15))
                        (map (fun i => N.shiftr ((x + i * 17) mod 256) 4) (range 0 16))) (range 0 256) = true.
Proof. vm_compute. reflexivity. Qed.
Print Assumptions C03_high_nibble.

Definition vecn (n seed : N) : list N := map (fun i => (i * 7919 + seed) mod 65536) (range 0 n).
(* fft: agreement on [0, truncated) for every truncation; ifft: agreement everywhere when the
   tail is zero; both: agreement everywhere when untruncated *)
Definition sched_ok (k : N) : bool :=
  let size := 2 ^ k in
  forallb (fun sd => forallb (fun trunc =>
     let v := vecn size 5 in
     let vz := firstn (N.to_nat trunc) v ++ repeat 0 (N.to_nat (size - trunc)) in
     leq (firstn (N.to_nat trunc) (fft sym_ops Naive size trunc sd v)) (firstn (N.to_nat trunc) (fft sym_ops NoSimd size trunc sd v)) &&
     leq (ifft sym_ops Naive size trunc sd vz) (ifft sym_ops NoSimd size trunc sd vz))
     (range 1 (size + 1))) [0; size; 3 * size].
Theorem C03_schedules_instances : forallb sched_ok [0; 1; 2; 3; 4; 5] = true.
Proof. vm_compute. reflexivity. Qed.
Print Assumptions C03_schedules_instances.

(* the four optimised engines share one schedule in the model by definition; DefaultE is one of them *)
Theorem C03_two_layer_engines : forall e, e <> Naive -> two_layer_engine e = true.
Proof. destruct e; intros H; try reflexivity. congruence. Qed.
Print Assumptions C03_two_layer_engines.
