(* C02: the recovery symbols computed by the encoders (every engine schedule, every
   configuration in the envelope, every input, whatever the junk in the unused work positions)
   are the closed-form scaled Cauchy code of Spec.v. *)
From Coq Require Import NArith Arith Lia Bool List.
From RS.Gen Require Import Prelude GenConsts.
From RS.Model Require Import Field Tables Sched Codec Spec.
From RS.Proofs Require Import RateFacts FieldFacts Ring Scale FftSpec SchedEquiv Trunc Lengths FftTrunc Lagrange.
Import ListNotations.
Local Open Scope N_scope.

(* ---------- small facts ---------- *)
Lemma W_pow2 k : (k <= 16)%nat -> W (2 ^ N.of_nat k) = 1.
Proof.
  intros Hk. assert (H : forallb (fun k => W (2 ^ N.of_nat k) =? 1) (seq 0 17) = true) by (vm_compute; reflexivity).
  rewrite forallb_forall in H. apply N.eqb_eq. apply H. apply in_seq. lia.
Qed.
Lemma log2n_pow2 k : log2n (2 ^ N.of_nat k) = k.
Proof. unfold log2n. rewrite N.log2_pow2 by lia. apply Nat2N.id. Qed.
Lemma p2_N k : N.of_nat (p2 k) = 2 ^ N.of_nat k.
Proof. unfold p2. rewrite Nat2N.inj_pow. reflexivity. Qed.
Lemma pow2_W16 k : (k <= 15)%nat -> W16 (2 ^ N.of_nat k).
Proof. intros Hk. unfold W16. change 65536 with (2 ^ 16). apply N.pow_lt_mono_r; lia. Qed.

Lemma nth_rangeN : forall n a v, (v < n)%nat -> nth v (rangeN a n) 0 = a + N.of_nat v.
Proof.
  induction n as [|n IH]; intros a v Hv; [lia|]. cbn [rangeN]. destruct v as [|v]; [cbn; lia|].
  cbn [nth]. rewrite IH by lia. lia.
Qed.
Lemma rangeN_length n : forall a, length (rangeN a n) = n.
Proof. induction n as [|n IH]; intros a; cbn; [reflexivity|]. rewrite IH. reflexivity. Qed.
Lemma nth_firstn_lt' {A} (d : A) : forall n (l : list A) i, (i < n)%nat -> nth i (firstn n l) d = nth i l d.
Proof.
  induction n as [|n IH]; intros l i Hi; [lia|]. destruct l as [|x l]; [destruct i; reflexivity|].
  destruct i as [|i]; [reflexivity|]. cbn. apply IH. lia.
Qed.

Lemma nth_map_lt {A B} (f : A -> B) d d' : forall (l : list A) v, (v < length l)%nat -> nth v (map f l) d' = f (nth v l d).
Proof. induction l as [|x l IH]; intros v Hv; [cbn in Hv; lia|]. destruct v; [reflexivity|]. cbn. apply IH. cbn in Hv. lia. Qed.

Lemma xor_sum_app l x : xor_sum (l ++ [x]) = N.lxor (xor_sum l) x.
Proof. unfold xor_sum. rewrite fold_left_app. reflexivity. Qed.
Lemma xor_sum_xsum l : xor_sum l = xsum (length l) (fun v => nth v l 0).
Proof.
  induction l as [|x l IH] using rev_ind; [reflexivity|].
  rewrite xor_sum_app, app_length. cbn [length]. rewrite Nat.add_1_r. cbn [xsum].
  rewrite app_nth2 by lia. rewrite Nat.sub_diag. cbn [nth]. f_equal.
  rewrite IH. apply xsum_ext. intros v Hv. rewrite app_nth1 by lia. reflexivity.
Qed.
Lemma row_apply_xsum row d : length row = length d ->
  row_apply row d = xsum (length d) (fun v => fmul (nth v row 0) (nth v d 0)).
Proof.
  intros Hl. unfold row_apply. rewrite xor_sum_xsum, map_length, combine_length, Hl, Nat.min_id.
  apply xsum_ext. intros v Hv.
  rewrite (nth_map_lt _ (0, 0)) by (rewrite combine_length; lia).
  rewrite combine_nth by exact Hl. reflexivity.
Qed.

(* zero_tail on symbols *)
Lemma zero_tail_nth keep (l : list N) i : (keep <= length l)%nat ->
  nth i (zero_tail sym_ops keep l) 0 = if Nat.ltb i keep then nth i l 0 else 0.
Proof.
  intros Hk. unfold zero_tail, zeros. cbn [zeroT sym_ops].
  destruct (Nat.ltb_spec i keep) as [Hi|Hi].
  - rewrite app_nth1 by (rewrite firstn_length; lia). apply nth_firstn_lt'. exact Hi.
  - rewrite app_nth2 by (rewrite firstn_length; lia).
    generalize (i - length (firstn keep l))%nat. induction (length l - keep)%nat; intros [|j]; cbn; auto.
Qed.
Lemma zero_tail_W16 keep l : Forall W16 l -> Forall W16 (zero_tail sym_ops keep l).
Proof.
  intros H. unfold zero_tail. apply Forall_app. split; [apply Forall_firstn'; exact H|].
  unfold zeros. apply Forall_forall. intros x Hx. apply repeat_spec in Hx. subst. apply W16_0.
Qed.
Lemma zero_tail_contract keep (l : list N) : (keep <= length l)%nat ->
  forall i, (i < length (zero_tail sym_ops keep l))%nat -> N.of_nat keep <= N.of_nat i ->
  nth_error (zero_tail sym_ops keep l) i = Some 0.
Proof.
  intros Hk i Hi Hle. rewrite (nth_error_nth' _ 0 Hi). f_equal. rewrite zero_tail_nth by exact Hk.
  destruct (Nat.ltb_spec i keep); [lia|reflexivity].
Qed.

(* ---------- low rate ---------- *)
Section Low.
Variable e : engine.

Lemma low_chunks_nth R k : (k <= 15)%nat -> let m := 2 ^ N.of_nat k in m + R <= 65536 ->
  forall fuel cs co jq, cs = jq * m -> length co = p2 k -> Forall W16 co -> cs <= R ->
  (N.to_nat ((R - cs) / m) < fuel)%nat ->
  forall i, cs + N.of_nat i < R ->
  nth i (low_enc_chunks sym_ops e fuel R m cs co) 0 = lch k co (cs + m + N.of_nat i).
Proof.
  intros Hk m Henv. assert (Hmpos : 0 < m) by (unfold m; pose proof (N.pow_nonzero 2 (N.of_nat k)); lia).
  assert (HQ : 2 ^ (16 - N.of_nat k) * m = 65536).
  { unfold m. rewrite <- N.pow_add_r. replace (16 - N.of_nat k + N.of_nat k) with 16 by lia. reflexivity. }
  induction fuel as [|f IH]; intros cs co jq Hcs Lco Wco Hle Hf i Hi; [exfalso; exact (Nat.nlt_0_r _ Hf)|].
  cbn [low_enc_chunks]. fold m.
  assert (Lco' : N.of_nat (length co) = 2 ^ N.of_nat k) by (rewrite Lco; apply p2_N).
  assert (Bound : cs + m + m <= 65536).
  { set (Q := 2 ^ (16 - N.of_nat k)) in *. assert (jq + 2 <= Q) by nia. nia. }
  assert (Hsd : cs + m = (jq + 1) * m) by lia.
  destruct (N.leb_spec (cs + m) R) as [Hfull|Hpart].
  - destruct (Nat.ltb_spec i (p2 k)) as [Hi1|Hi1].
    + rewrite app_nth1 by (rewrite fft_len by exact Lco'; lia).
      rewrite Hsd. apply (fft_trunc_spec e k (jq + 1) co m ltac:(lia)); try assumption; try (fold m; lia).
    + rewrite app_nth2 by (rewrite fft_len by exact Lco'; lia). rewrite fft_len by exact Lco'. rewrite Lco.
      assert (Hd : (R - cs) / m = (R - (cs + m)) / m + 1).
      { replace (R - cs) with ((R - (cs + m)) + 1 * m) by lia. rewrite N.div_add by lia. reflexivity. }
      rewrite (IH (cs + m) co (jq + 1) Hsd Lco Wco Hfull).
      * f_equal. pose proof (p2_N k) as P. fold m in P. lia.
      * rewrite Hd in Hf. remember ((R - (cs + m)) / m) as qq. clear - Hf. lia.
      * pose proof (p2_N k) as P. fold m in P. lia.
  - assert (Hmod : R mod m = R - cs).
    { symmetry. apply (N.mod_unique R m jq (R - cs)); lia. }
    rewrite Hmod. assert ((0 <? R - cs) = true) as -> by (apply N.ltb_lt; lia).
    rewrite Hsd. apply (fft_trunc_spec e k (jq + 1) co (R - cs) ltac:(lia)); try assumption; fold m; lia.
Qed.

Theorem encode_low_cauchy K R w : 1 <= K -> 1 <= R -> npow2 K + R <= 65536 -> Forall W16 w ->
  (N.to_nat (npow2 K) <= length w)%nat ->
  forall j, N.of_nat j < R ->
  nth j (encode_low sym_ops e K R w) 0 = recovery_low_spec K R (firstn (N.to_nat K) w) (N.of_nat j).
Proof.
  intros HK HR Henv Ww Hw j Hj. unfold encode_low, np2.
  pose proof (npow2_ge K) as HKm.
  destruct (npow2_exp K HK ltac:(lia)) as (k & Hk16 & Hm). rewrite Hm in *. set (m := 2 ^ N.of_nat k) in *.
  assert (Hmpos : 0 < m) by (unfold m; pose proof (N.pow_nonzero 2 (N.of_nat k)); lia).
  assert (Hk : (k <= 15)%nat).
  { destruct (Nat.eq_dec k 16) as [->|]; [|lia]. exfalso. unfold m in Henv. change (2 ^ N.of_nat 16) with 65536 in Henv. lia. }
  assert (Pm : N.to_nat m = p2 k) by (apply Nat2N.inj; rewrite N2Nat.id, p2_N; reflexivity).
  set (c0 := zero_tail sym_ops (N.to_nat K) (firstn (N.to_nat m) w)).
  assert (Lf : length (firstn (N.to_nat m) w) = p2 k) by (rewrite firstn_length; lia).
  assert (L0 : length c0 = p2 k) by (unfold c0; rewrite zero_tail_len; lia).
  assert (W0 : Forall W16 c0) by (unfold c0; apply zero_tail_W16, Forall_firstn', Ww).
  set (co := ifft sym_ops e m K 0 c0).
  assert (L0' : N.of_nat (length c0) = 2 ^ N.of_nat k) by (rewrite L0; apply p2_N).
  assert (Lco : length co = p2 k) by (unfold co, m; rewrite ifft_len by (try exact L0'; lia); exact L0).
  assert (Wco : Forall W16 co) by (unfold co; apply ifft_W16; exact W0).
  rewrite nth_firstn_lt' by lia.
  pose proof (low_chunks_nth R k Hk Henv (S (N.to_nat (R / m))) 0 co 0 eq_refl Lco Wco ltac:(lia) ltac:(rewrite N.sub_0_r; apply Nat.lt_succ_diag_r) j ltac:(lia)) as LC.
  fold m in LC. rewrite LC. clear LC.
  rewrite N.add_0_l.
  (* Lagrange over the nodes 0 .. m-1 *)
  assert (Wx : W16 (m + N.of_nat j)) by (unfold W16; lia).
  rewrite (lagrange k Hk co 0 (m + N.of_nat j) Lco Wco W16_0 Wx).
  2:{ rewrite N.lxor_0_r. intros E. apply lt_shiftr in E. fold m in E. lia. }
  rewrite N.lxor_0_r.
  (* the interpolated values are the originals followed by zeros *)
  assert (Val : forall v, (v < p2 k)%nat -> lch k co (N.lxor 0 (N.of_nat v)) = nth v c0 0).
  { intros v Hv. rewrite N.lxor_0_l.
    pose proof (ifft_interpolates e k 0 c0 K Hk16) as I. cbv zeta in I. rewrite N.mul_0_l, !N.add_0_l in I.
    fold m in I. apply I; try assumption; try lia.
    intros i Hi Hle. apply zero_tail_contract; [lia| |rewrite N2Nat.id; exact Hle]. fold c0. exact Hi. }
  rewrite (xsum_ext _ _ (fun v => fmul (nth v c0 0) (fdiv (s_poly k (m + N.of_nat j)) (N.lxor (m + N.of_nat j) (N.of_nat v)))))
    by (intros v Hv; rewrite Val by exact Hv; reflexivity).
  replace (p2 k) with (N.to_nat K + (p2 k - N.to_nat K))%nat by lia.
  rewrite xsum_split.
  rewrite (xsum_zero (p2 k - N.to_nat K)).
  2:{ intros v Hv. unfold c0. rewrite zero_tail_nth by lia.
      destruct (Nat.ltb_spec (N.to_nat K + v) (N.to_nat K)); [lia|]. apply fmul_0_l. }
  rewrite N.lxor_0_r.
  (* the specification side *)
  unfold recovery_low_spec. rewrite row_apply_xsum.
  2:{ unfold cauchy_low_row. rewrite map_length. unfold range. rewrite rangeN_length, firstn_length. lia. }
  rewrite firstn_length. replace (Nat.min (N.to_nat K) (length w)) with (N.to_nat K) by lia.
  apply xsum_ext. intros v Hv.
  unfold c0. rewrite zero_tail_nth by lia. destruct (Nat.ltb_spec v (N.to_nat K)); [|lia].
  rewrite !nth_firstn_lt' by lia.
  unfold cauchy_low_row. cbv zeta.
  rewrite (nth_map_lt _ 0) by (unfold range; rewrite rangeN_length; lia).
  unfold range. rewrite nth_rangeN by lia. rewrite N.add_0_l.
  unfold cauchy_low_w. cbv zeta. rewrite Hm.
  replace (log2n m) with k by (unfold m; rewrite log2n_pow2; reflexivity).
  replace (W m) with 1 by (unfold m; rewrite W_pow2; [reflexivity|lia]).
  assert (Wv : W16 (N.of_nat v)) by (unfold W16; lia).
  rewrite (fmul_comm 1), fmul_1_r by w16.
  apply fmul_comm; [apply nth_W16, Ww|apply fdiv_W16; w16].
Qed.
End Low.

(* ---------- high rate ---------- *)
Section High.
Variable e : engine.

(* one chunk of originals, interpolated on the coset u + V_k and evaluated at j in V_k *)
Lemma chunk_val k c t ch j : (k <= 15)%nat -> let m := 2 ^ N.of_nat k in let u := (c + 1) * m in
  u + m <= 65536 -> length ch = p2 k -> Forall W16 ch -> t <= m ->
  (forall i, (i < length ch)%nat -> t <= N.of_nat i -> nth_error ch i = Some 0) ->
  N.of_nat j < m ->
  lch k (ifft sym_ops e m t u ch) (N.of_nat j) =
  xsum (N.to_nat t) (fun v => fmul (nth v ch 0) (fdiv (s_poly k (u + N.of_nat v)) (N.lxor (N.of_nat j) (u + N.of_nat v)))).
Proof.
  intros Hk m u Hb Lch Wch Ht Hz Hj.
  assert (Hmpos : 0 < m) by (unfold m; pose proof (N.pow_nonzero 2 (N.of_nat k)); lia).
  assert (Lch' : N.of_nat (length ch) = 2 ^ N.of_nat k) by (rewrite Lch; apply p2_N).
  set (co := ifft sym_ops e m t u ch).
  assert (Lco : length co = p2 k) by (unfold co, m; rewrite ifft_len by (try exact Lch'; lia); exact Lch).
  assert (Wco : Forall W16 co) by (unfold co; apply ifft_W16; exact Wch).
  assert (Wu : W16 u) by (unfold W16; lia). assert (Wj : W16 (N.of_nat j)) by (unfold W16; lia).
  assert (Al : forall i, i < m -> u + i = N.lxor u i) by (intros i Hi; unfold u; apply add_aligned; exact Hi).
  assert (Eju : N.lxor (N.of_nat j) u = u + N.of_nat j) by (rewrite N.lxor_comm; symmetry; apply Al; exact Hj).
  rewrite (lagrange k Hk co u (N.of_nat j) Lco Wco Wu Wj).
  2:{ rewrite Eju. intros E. apply lt_shiftr in E. fold m in E. unfold u in E. nia. }
  assert (Pm : p2 k = N.to_nat m) by (apply Nat2N.inj; rewrite N2Nat.id; apply p2_N).
  assert (Sj : s_poly k (N.lxor (N.of_nat j) u) = s_poly k u).
  { rewrite s_poly_additive by assumption. rewrite (s_poly_vanish k (N.of_nat j)) by (try lia; exact Hj). apply N.lxor_0_l. }
  rewrite Sj.
  assert (Val : forall v, (v < p2 k)%nat -> lch k co (N.lxor u (N.of_nat v)) = nth v ch 0).
  { intros v Hv. rewrite <- Al by lia.
    apply (ifft_interpolates e k (c + 1) ch t ltac:(lia)); try assumption. }
  rewrite (xsum_ext _ _ (fun v => fmul (nth v ch 0) (fdiv (s_poly k u) (N.lxor (N.of_nat j) (u + N.of_nat v))))).
  2:{ intros v Hv. rewrite Val by exact Hv. rewrite N.lxor_assoc, <- Al by lia. reflexivity. }
  replace (p2 k) with (N.to_nat t + (p2 k - N.to_nat t))%nat by lia.
  rewrite xsum_split. rewrite (xsum_zero (p2 k - N.to_nat t)).
  2:{ intros v Hv. assert (E : nth_error ch (N.to_nat t + v) = Some 0) by (apply Hz; lia).
      rewrite (nth_error_nth _ _ 0 E). apply fmul_0_l. }
  rewrite N.lxor_0_r. apply xsum_ext. intros v Hv. f_equal. f_equal.
  rewrite Al by lia. rewrite s_poly_additive by (try assumption; unfold W16; lia).
  rewrite (s_poly_vanish k (N.of_nat v)) by lia. symmetry. apply N.lxor_0_r.
Qed.

Lemma chunks_cons f mn (wl : list N) : wl <> [] -> chunks (S f) mn wl = firstn mn wl :: chunks f mn (skipn mn wl).
Proof. intros H. cbn [chunks]. destruct wl; [contradiction|reflexivity]. Qed.

Lemma xor_list_sym a b : xor_list sym_ops a b = map2 N.lxor a b.
Proof. reflexivity. Qed.
Lemma xor_list_W16 a b : Forall W16 a -> Forall W16 b -> Forall W16 (xor_list sym_ops a b).
Proof. intros Ha Hb. rewrite xor_list_sym. eapply Forall_map2; [|exact Ha|exact Hb]. intros; apply W16_lxor; assumption. Qed.

Definition hterm (k : nat) (w : list N) (j : nat) (i : nat) : N :=
  let m := 2 ^ N.of_nat k in
  fmul (nth i w 0) (fdiv (s_poly k (m + N.of_nat i)) (N.lxor (N.of_nat j) (m + N.of_nat i))).

Lemma high_chunks_val K k w j : (k <= 15)%nat -> let m := 2 ^ N.of_nat k in
  m + K <= 65536 -> Forall W16 w -> K <= N.of_nat (length w) -> N.of_nat j < m ->
  forall q fuel cs c acc, (q <= fuel)%nat -> cs = c * m -> cs <= K ->
  length (skipn (N.to_nat cs) w) = (N.to_nat m * q)%nat ->
  length acc = p2 k -> Forall W16 acc ->
  lch k (high_enc_chunks sym_ops e K m cs acc (chunks fuel (N.to_nat m) (skipn (N.to_nat cs) w))) (N.of_nat j) =
  N.lxor (lch k acc (N.of_nat j)) (xsum (N.to_nat (K - cs)) (fun v => hterm k w j (N.to_nat cs + v))).
Proof.
  intros Hk m Henv Ww HKw Hj.
  assert (Hmpos : 0 < m) by (unfold m; pose proof (N.pow_nonzero 2 (N.of_nat k)); lia).
  assert (HQ : 2 ^ (16 - N.of_nat k) * m = 65536).
  { unfold m. rewrite <- N.pow_add_r. replace (16 - N.of_nat k + N.of_nat k) with 16 by lia. reflexivity. }
  assert (Pm : p2 k = N.to_nat m) by (apply Nat2N.inj; rewrite N2Nat.id; apply p2_N).
  assert (Wj : W16 (N.of_nat j)) by (unfold W16; lia).
  induction q as [|q IH]; intros fuel cs c acc Hf Hcs Hle Lwl Lacc Wacc.
  - (* nothing left: cs = length w >= K *)
    rewrite Nat.mul_0_r in Lwl. apply length_zero_iff_nil in Lwl. rewrite Lwl.
    assert (E : chunks fuel (N.to_nat m) (@nil N) = []) by (destruct fuel; reflexivity). rewrite E. cbn [high_enc_chunks].
    assert (Hlen : (length w <= N.to_nat cs)%nat).
    { destruct (Nat.le_gt_cases (length w) (N.to_nat cs)) as [H|H]; [exact H|].
      assert (L : length (skipn (N.to_nat cs) w) = (length w - N.to_nat cs)%nat) by apply skipn_length.
      rewrite Lwl in L. cbn in L. lia. }
    replace (N.to_nat (K - cs)) with 0%nat by lia. cbn [xsum]. rewrite N.lxor_0_r. reflexivity.
  - destruct fuel as [|fuel]; [lia|].
    set (wl := skipn (N.to_nat cs) w) in *.
    assert (Hne : wl <> []) by (intros E; rewrite E in Lwl; cbn in Lwl; lia).
    rewrite chunks_cons by exact Hne. cbn [high_enc_chunks].
    set (ch := firstn (N.to_nat m) wl).
    assert (Lch : length ch = p2 k) by (unfold ch; rewrite firstn_length, Lwl; lia).
    assert (Wwl : Forall W16 wl) by (unfold wl; apply Forall_skipn'; exact Ww).
    assert (Wch : Forall W16 ch) by (unfold ch; apply Forall_firstn'; exact Wwl).
    assert (Nch : forall v, (v < p2 k)%nat -> nth v ch 0 = nth (N.to_nat cs + v) w 0).
    { intros v Hv. unfold ch. rewrite nth_firstn_lt' by lia. unfold wl.
      rewrite <- (firstn_skipn (N.to_nat cs) w) at 2.
      assert (Lf : length (firstn (N.to_nat cs) w) = N.to_nat cs).
      { rewrite firstn_length. assert (L : length (skipn (N.to_nat cs) w) = (length w - N.to_nat cs)%nat) by apply skipn_length.
        fold wl in L. rewrite Lwl in L. lia. }
      rewrite app_nth2 by lia. rewrite Lf. f_equal. lia. }
    assert (Lch' : N.of_nat (length ch) = 2 ^ N.of_nat k) by (rewrite Lch; apply p2_N).
    assert (Hu : cs + m = (c + 1) * m) by lia.
    assert (Tm : forall v, hterm k w j (N.to_nat cs + v) =
                 fmul (nth (N.to_nat cs + v) w 0) (fdiv (s_poly k ((c + 1) * m + N.of_nat v)) (N.lxor (N.of_nat j) ((c + 1) * m + N.of_nat v)))).
    { intros v. unfold hterm. cbv zeta. fold m. replace (m + N.of_nat (N.to_nat cs + v)) with ((c + 1) * m + N.of_nat v) by lia. reflexivity. }
    destruct (N.leb_spec (cs + m) K) as [Hfull|Hpart].
    + assert (Bound : (c + 1) * m + m <= 65536) by lia.
      set (c' := ifft sym_ops e m m (cs + m) ch).
      assert (Lc' : length c' = p2 k) by (unfold c', m; rewrite ifft_len by (try exact Lch'; lia); exact Lch).
      assert (Wc' : Forall W16 c') by (unfold c'; apply ifft_W16; exact Wch).
      assert (Esk : skipn (N.to_nat m) wl = skipn (N.to_nat (cs + m)) w).
      { unfold wl. rewrite N2Nat.inj_add, skipn_add. reflexivity. }
      rewrite Esk.
      rewrite (IH fuel (cs + m) (c + 1) (xor_list sym_ops acc c')); try assumption; try lia.
      * rewrite xor_list_sym, lch_xor by (try assumption; lia).
        rewrite N.lxor_assoc. f_equal.
        unfold c'. rewrite Hu.
        assert (Z1 : forall i, (i < length ch)%nat -> m <= N.of_nat i -> nth_error ch i = Some 0) by (intros i Hi Hle'; rewrite Lch in Hi; lia).
        pose proof (chunk_val k c m ch j Hk Bound Lch Wch ltac:(fold m; lia) Z1 Hj) as CV. cbv zeta in CV. fold m in CV. rewrite CV. clear CV.
        replace (N.to_nat (K - cs)) with (N.to_nat m + N.to_nat (K - (c + 1) * m))%nat by lia.
        rewrite xsum_split. f_equal.
        -- apply xsum_ext. intros v Hv. rewrite Tm, Nch by lia. reflexivity.
        -- apply xsum_ext. intros v Hv. f_equal. lia.
      * rewrite <- Esk, skipn_length, Lwl. lia.
      * rewrite xor_list_len. lia.
      * apply xor_list_W16; assumption.
    + assert (Hmod : K mod m = K - cs) by (symmetry; apply (N.mod_unique K m c (K - cs)); lia).
      rewrite Hmod. destruct (N.ltb_spec 0 (K - cs)) as [Hl|Hl].
      * assert (Bound : (c + 1) * m + m <= 65536).
        { set (Q := 2 ^ (16 - N.of_nat k)) in *. assert (c + 2 <= Q) by nia. nia. }
        set (c0 := zero_tail sym_ops (N.to_nat (K - cs)) ch).
        assert (L0 : length c0 = p2 k) by (unfold c0; rewrite zero_tail_len; lia).
        assert (W0 : Forall W16 c0) by (unfold c0; apply zero_tail_W16; exact Wch).
        rewrite xor_list_sym, lch_xor; try assumption; try lia.
        2:{ apply ifft_W16; exact W0. }
        2:{ unfold m. rewrite ifft_len; [exact L0|lia|rewrite L0; apply p2_N]. }
        f_equal. rewrite Hu.
        assert (Z1 : forall i, (i < length c0)%nat -> K - cs <= N.of_nat i -> nth_error c0 i = Some 0).
        { intros i Hi Hle'. apply zero_tail_contract; [lia|exact Hi|rewrite N2Nat.id; exact Hle']. }
        pose proof (chunk_val k c (K - cs) c0 j Hk Bound L0 W0 ltac:(fold m; lia) Z1 Hj) as CV. cbv zeta in CV. fold m in CV. rewrite CV. clear CV.
        apply xsum_ext. intros v Hv. rewrite Tm. unfold c0. rewrite zero_tail_nth by lia.
        destruct (Nat.ltb_spec v (N.to_nat (K - cs))); [|lia]. rewrite Nch by lia. reflexivity.
      * replace (N.to_nat (K - cs)) with 0%nat by lia. cbn [xsum]. rewrite N.lxor_0_r. reflexivity.
Qed.

Lemma chunks_W16 mn : forall f (l : list N), Forall W16 l -> Forall (Forall W16) (chunks f mn l).
Proof.
  induction f as [|f IH]; intros l Hl; cbn [chunks]; [constructor|]. destruct l as [|x l]; [constructor|].
  constructor; [apply Forall_firstn'; exact Hl|apply IH, Forall_skipn'; exact Hl].
Qed.
Lemma high_enc_chunks_W16 K m : forall cl cs acc, Forall W16 acc -> Forall (Forall W16) cl ->
  Forall W16 (high_enc_chunks sym_ops e K m cs acc cl).
Proof.
  induction cl as [|c cl IH]; intros cs acc Ha Hc; cbn [high_enc_chunks]; [exact Ha|].
  inversion Hc as [|? ? H1 H2]; subst.
  destruct (cs + m <=? K).
  - apply IH; [|exact H2]. apply xor_list_W16; [exact Ha|apply ifft_W16; exact H1].
  - destruct (0 <? K mod m); [|exact Ha]. apply xor_list_W16; [exact Ha|apply ifft_W16, zero_tail_W16; exact H1].
Qed.

Lemma next_mult_spec a b : 0 < b -> a <= next_mult a b /\ exists q, next_mult a b = b * q.
Proof.
  intros Hb. unfold next_mult. cbv zeta. pose proof (N.div_mod a b ltac:(lia)) as D. pose proof (N.mod_lt a b ltac:(lia)) as L.
  destruct (N.eqb_spec (a mod b) 0) as [E|E].
  - split; [lia|]. exists (a / b). rewrite E in D. lia.
  - split; [lia|]. exists (a / b + 1). lia.
Qed.

Theorem encode_high_cauchy K R w : 1 <= K -> 1 <= R -> npow2 R + K <= 65536 -> Forall W16 w ->
  length w = N.to_nat (high_enc_work_count K R) ->
  forall j, N.of_nat j < R ->
  nth j (encode_high sym_ops e K R w) 0 = recovery_high_spec K R (firstn (N.to_nat K) w) (N.of_nat j).
Proof.
  intros HK HR Henv Ww Hw j Hj. unfold encode_high, high_enc_work_count, np2 in *.
  pose proof (npow2_ge R) as HRm.
  destruct (npow2_exp R HR ltac:(lia)) as (k & Hk16 & Hm). rewrite Hm in *. set (m := 2 ^ N.of_nat k) in *.
  assert (Hmpos : 0 < m) by (unfold m; pose proof (N.pow_nonzero 2 (N.of_nat k)); lia).
  assert (Hk : (k <= 15)%nat).
  { destruct (Nat.eq_dec k 16) as [->|]; [|lia]. exfalso. unfold m in Henv. change (2 ^ N.of_nat 16) with 65536 in Henv. lia. }
  assert (Pm : N.to_nat m = p2 k) by (apply Nat2N.inj; rewrite N2Nat.id, p2_N; reflexivity).
  destruct (next_mult_spec K m Hmpos) as [HKw [q Hq]].
  assert (Lw : length w = (N.to_nat m * N.to_nat q)%nat) by (rewrite Hw, Hq; lia).
  assert (Hq1 : 1 <= q) by nia.
  assert (Wj : W16 (N.of_nat j)) by (unfold W16; lia).
  set (f := (length w - 1)%nat). assert (El : length w = S f) by (unfold f; nia).
  assert (Hne : w <> []) by (intros E; rewrite E in El; discriminate).
  replace (chunks (length w) (N.to_nat m) w) with (chunks (S f) (N.to_nat m) w) by (rewrite <- El; reflexivity).
  rewrite chunks_cons by exact Hne. cbv zeta.
  set (c0 := firstn (N.to_nat m) w).
  assert (L0 : length c0 = p2 k) by (unfold c0; rewrite firstn_length, Lw; nia).
  assert (W0 : Forall W16 c0) by (unfold c0; apply Forall_firstn'; exact Ww).
  set (t := N.min K m).
  set (c0z := zero_tail sym_ops (N.to_nat t) c0).
  assert (L0z : length c0z = p2 k) by (unfold c0z; rewrite zero_tail_len; unfold t; lia).
  assert (W0z : Forall W16 c0z) by (unfold c0z; apply zero_tail_W16; exact W0).
  set (co0 := ifft sym_ops e m t m c0z).
  assert (L0z' : N.of_nat (length c0z) = 2 ^ N.of_nat k) by (rewrite L0z; apply p2_N).
  assert (Lco0 : length co0 = p2 k) by (unfold co0, m; rewrite ifft_len by (try exact L0z'; lia); exact L0z).
  assert (Wco0 : Forall W16 co0) by (unfold co0; apply ifft_W16; exact W0z).
  assert (M2 : m + m <= 65536).
  { unfold m. replace (2 ^ N.of_nat k + 2 ^ N.of_nat k) with (2 ^ (N.of_nat k + 1)) by (rewrite N.pow_add_r; change (2 ^ 1) with 2; lia).
    change 65536 with (2 ^ 16). apply N.pow_le_mono_r; lia. }
  (* the first chunk *)
  assert (V0 : lch k co0 (N.of_nat j) = xsum (N.to_nat t) (fun v => hterm k w j v)).
  { assert (Z1 : forall i, (i < length c0z)%nat -> t <= N.of_nat i -> nth_error c0z i = Some 0).
    { intros i Hi Hle'. apply zero_tail_contract; [unfold t; lia|exact Hi|rewrite N2Nat.id; exact Hle']. }
    pose proof (chunk_val k 0 t c0z j Hk ltac:(cbv zeta; fold m; lia) L0z W0z ltac:(fold m; unfold t; lia) Z1 ltac:(fold m; lia)) as CV.
    cbv zeta in CV. fold m in CV. rewrite N.add_0_l, N.mul_1_l in CV. fold co0 in CV. rewrite CV.
    apply xsum_ext. intros v Hv. unfold hterm. cbv zeta. fold m. f_equal.
    unfold c0z. rewrite zero_tail_nth by (unfold t; lia). destruct (Nat.ltb_spec v (N.to_nat t)); [|lia].
    unfold c0. apply nth_firstn_lt'. unfold t in *. lia. }
  set (acc := if m <? K then high_enc_chunks sym_ops e K m m co0 (chunks f (N.to_nat m) (skipn (N.to_nat m) w)) else co0).
  assert (Vacc : lch k acc (N.of_nat j) = xsum (N.to_nat K) (fun v => hterm k w j v)).
  { unfold acc. destruct (N.ltb_spec m K) as [Hlt|Hge].
    - assert (A1 : (N.to_nat q - 1 <= f)%nat) by nia.
      assert (A2 : length (skipn (N.to_nat m) w) = (N.to_nat m * (N.to_nat q - 1))%nat) by (rewrite skipn_length, Lw; nia).
      pose proof (high_chunks_val K k w j Hk ltac:(fold m; lia) Ww ltac:(lia) ltac:(fold m; lia)
                   (N.to_nat q - 1)%nat f m 1 co0 A1 ltac:(lia) ltac:(lia) A2 Lco0 Wco0) as HV. cbv zeta in HV. fold m in HV.
      rewrite HV.
      rewrite V0. replace (N.to_nat t) with (N.to_nat m) by (unfold t; lia).
      replace (N.to_nat K) with (N.to_nat m + N.to_nat (K - m))%nat by lia. rewrite xsum_split. reflexivity.
    - rewrite V0. replace (N.to_nat t) with (N.to_nat K) by (unfold t; lia). reflexivity. }
  assert (Lacc : length acc = p2 k).
  { unfold acc. destruct (m <? K); [|exact Lco0]. rewrite <- Pm.
    apply (high_enc_chunks_len sym_ops e K m k Hk16 eq_refl); [rewrite Pm; exact Lco0|].
    apply (chunks_all_len (N.to_nat m) ltac:(lia) f _ (N.to_nat q - 1)%nat). rewrite skipn_length, Lw. nia. }
  assert (Wacc : Forall W16 acc).
  { unfold acc. destruct (m <? K); [|exact Wco0]. apply high_enc_chunks_W16; [exact Wco0|].
    apply chunks_W16, Forall_skipn'; exact Ww. }
  fold c0 t c0z co0 acc.
  rewrite nth_firstn_lt' by lia.
  pose proof (fft_trunc_spec e k 0 acc R Hk16) as FS. cbv zeta in FS. rewrite N.mul_0_l, !N.add_0_l in FS. fold m in FS.
  rewrite FS; try assumption; try lia. clear FS.
  rewrite N.add_0_l, Vacc.
  (* the specification side *)
  unfold recovery_high_spec. rewrite row_apply_xsum.
  2:{ unfold cauchy_high_row. rewrite map_length. unfold range. rewrite rangeN_length, firstn_length. lia. }
  rewrite firstn_length. replace (Nat.min (N.to_nat K) (length w)) with (N.to_nat K) by lia.
  apply xsum_ext. intros v Hv. unfold hterm. cbv zeta. fold m.
  rewrite nth_firstn_lt' by lia.
  unfold cauchy_high_row. cbv zeta.
  rewrite (nth_map_lt _ 0) by (unfold range; rewrite rangeN_length; lia).
  unfold range. rewrite nth_rangeN by lia. rewrite N.add_0_l.
  unfold cauchy_high_w. cbv zeta. rewrite Hm.
  replace (log2n m) with k by (unfold m; rewrite log2n_pow2; reflexivity).
  replace (W m) with 1 by (unfold m; rewrite W_pow2; [reflexivity|lia]).
  assert (Wmv : W16 (m + N.of_nat v)) by (unfold W16; lia).
  rewrite (fmul_comm 1), fmul_1_r by w16.
  apply fmul_comm; [apply nth_W16, Ww|apply fdiv_W16; w16].
Qed.
End High.

(* ---------- whole shards: every symbol slot of every recovery shard ---------- *)
From RS.Proofs Require Import Param Linear.

Lemma Forall2_nth {A B} (P : A -> B -> Prop) da db : forall a b, Forall2 P a b ->
  forall j, (j < length b)%nat -> P (nth j a da) (nth j b db).
Proof.
  induction 1 as [|x y a b Hxy _ IH]; intros j Hj; [cbn in Hj; lia|]. destruct j; [exact Hxy|]. cbn. apply IH. cbn in Hj. lia.
Qed.
Lemma lane_W16 l (w : list (list N)) : Forall (Forall W16) w -> Forall W16 (map (fun s => nth l s 0) w).
Proof. intros H. induction H as [|s w Hs _ IH]; cbn; constructor; [apply nth_W16; exact Hs|exact IH]. Qed.

Theorem encode_high_cauchy_shards lanes e K R (w : list (list N)) : 1 <= K -> 1 <= R -> npow2 R + K <= 65536 ->
  Forall (fun s => length s = lanes) w -> Forall (Forall W16) w ->
  length w = N.to_nat (high_enc_work_count K R) ->
  forall j l, N.of_nat j < R -> (l < lanes)%nat ->
  nth l (nth j (encode_high (shard_ops lanes) e K R w) []) 0 =
  recovery_high_spec K R (map (fun s => nth l s 0) (firstn (N.to_nat K) w)) (N.of_nat j).
Proof.
  intros HK HR Henv Hl Ww Lw j l Hj Hlane.
  pose proof (encode_high_lanes lanes l e K R w Hl) as F. pose proof (npow2_ge R) as HRm.
  assert (Ls : length (encode_high sym_ops e K R (map (fun s => nth l s 0) w)) = N.to_nat R).
  { apply encode_high_length; try lia. rewrite map_length. exact Lw. }
  destruct (Forall2_nth _ [] 0 _ _ F j ltac:(lia)) as [_ E]. rewrite E.
  rewrite <- firstn_map.
  apply encode_high_cauchy; try assumption; [apply lane_W16; exact Ww|rewrite map_length; exact Lw].
Qed.

Theorem encode_low_cauchy_shards lanes e K R (w : list (list N)) : 1 <= K -> 1 <= R -> npow2 K + R <= 65536 ->
  Forall (fun s => length s = lanes) w -> Forall (Forall W16) w ->
  (N.to_nat (npow2 K) <= length w)%nat ->
  forall j l, N.of_nat j < R -> (l < lanes)%nat ->
  nth l (nth j (encode_low (shard_ops lanes) e K R w) []) 0 =
  recovery_low_spec K R (map (fun s => nth l s 0) (firstn (N.to_nat K) w)) (N.of_nat j).
Proof.
  intros HK HR Henv Hl Ww Lw j l Hj Hlane.
  pose proof (encode_low_lanes lanes l e K R w Hl) as F.
  assert (Ls : length (encode_low sym_ops e K R (map (fun s => nth l s 0) w)) = N.to_nat R).
  { apply encode_low_length; try lia; [pose proof (npow2_ge K); lia|]. rewrite map_length. exact Lw. }
  destruct (Forall2_nth _ [] 0 _ _ F j ltac:(lia)) as [_ E]. rewrite E.
  rewrite <- firstn_map.
  apply encode_low_cauchy; try assumption; [apply lane_W16; exact Ww|rewrite map_length; exact Lw].
Qed.
