// Build script: textual port of /repo/src/engine/engine_neon.rs onto emulated
// Neon intrinsics (crate::neon_intrinsics), written to OUT_DIR/engine_neon_emu.rs.
//
// Transformations (nothing else is renamed; the struct stays `Neon`):
//   * `use std::arch::aarch64::*;`            -> `use crate::neon_intrinsics::*;`
//   * `crate::engine::`                       -> `reed_solomon_simd::engine::`
//   * `#[target_feature(enable = "neon")]`    -> line removed
//   * `#[cfg(feature = "verif-hooks")]` followed by `crate::verif::trace(...)`
//                                             -> both lines removed
//   * `vshrq_n_u8(x, N)` (rustc_legacy_const_generics call form, which is not
//     available to user code) -> `vshrq_n_u8::<N>(x)`; same for vshlq_n_u8.

use std::{env, fs, path::PathBuf};

const NEON_SRC: &str = "/repo/src/engine/engine_neon.rs";

/// Rewrites `name(args..., N)` into `name::<N>(args...)` for every call of `name`.
fn fix_const_generic(src: &str, name: &str) -> String {
    let pat = format!("{name}(");
    let bytes = src.as_bytes();
    let mut out = String::with_capacity(src.len() + 64);
    let mut pos = 0;
    while let Some(rel) = src[pos..].find(&pat) {
        let start = pos + rel;
        // Must not be part of a longer identifier and not a definition.
        let prev_ok = start == 0 || {
            let c = bytes[start - 1];
            !(c.is_ascii_alphanumeric() || c == b'_')
        };
        let open = start + name.len();
        if !prev_ok {
            out.push_str(&src[pos..open + 1]);
            pos = open + 1;
            continue;
        }
        // Find the matching close paren and the last top-level comma.
        let mut depth = 0usize;
        let mut close = None;
        let mut last_comma = None;
        for (i, &c) in bytes.iter().enumerate().skip(open) {
            match c {
                b'(' | b'[' | b'{' => depth += 1,
                b')' | b']' | b'}' => {
                    depth -= 1;
                    if depth == 0 {
                        close = Some(i);
                        break;
                    }
                }
                b',' if depth == 1 => last_comma = Some(i),
                _ => {}
            }
        }
        match (close, last_comma) {
            (Some(close), Some(comma)) => {
                let args = &src[open + 1..comma];
                let n = src[comma + 1..close].trim();
                out.push_str(&src[pos..start]);
                out.push_str(&format!("{name}::<{{ {n} }}>({args})"));
                pos = close + 1;
            }
            _ => {
                out.push_str(&src[pos..open + 1]);
                pos = open + 1;
            }
        }
    }
    out.push_str(&src[pos..]);
    out
}

fn main() {
    println!("cargo:rerun-if-changed=build.rs");
    println!("cargo:rerun-if-changed={NEON_SRC}");

    let src = fs::read_to_string(NEON_SRC).expect("cannot read engine_neon.rs from /repo");

    let lines: Vec<&str> = src.lines().collect();
    let mut text = String::with_capacity(src.len());
    let mut i = 0;
    while i < lines.len() {
        let t = lines[i].trim();
        if t == "#[target_feature(enable = \"neon\")]" {
            i += 1;
            continue;
        }
        if t == "#[cfg(feature = \"verif-hooks\")]"
            && i + 1 < lines.len()
            && lines[i + 1].trim_start().starts_with("crate::verif::trace(")
        {
            i += 2;
            continue;
        }
        text.push_str(lines[i]);
        text.push('\n');
        i += 1;
    }

    let text = text
        .replace(
            "use std::arch::aarch64::*;",
            "use crate::neon_intrinsics::*;",
        )
        .replace("crate::engine::", "reed_solomon_simd::engine::");
    let text = fix_const_generic(&text, "vshrq_n_u8");
    let text = fix_const_generic(&text, "vshlq_n_u8");

    let out = PathBuf::from(env::var("OUT_DIR").unwrap()).join("engine_neon_emu.rs");
    fs::write(out, text).unwrap();
}
