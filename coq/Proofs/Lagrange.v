(* Lagrange interpolation over the cosets of the subspaces V_k = {0 .. 2^k-1}:
   the value at any point x outside the coset u + V_k of the polynomial with LCH coefficients c
   is  sum_v  P(u+v) * s_k(x+u) / (x+u+v).   (W_(2^k) = 1 in the Cantor basis.) *)
From Coq Require Import NArith Arith Lia Bool List.
From RS.Gen Require Import Prelude GenConsts.
From RS.Model Require Import Field Tables Sched Spec.
From RS.Proofs Require Import FieldFacts Ring Scale FftSpec.
Import ListNotations.
Local Open Scope N_scope.

Ltac w16 := repeat first [assumption | apply W16_0 | apply W16_1 | apply W16_lxor | apply fmul_lt | apply s_poly_lt | apply lch_W16].

(* ---------- xor-sums over v < n ---------- *)
Fixpoint xsum (n : nat) (f : nat -> N) : N :=
  match n with O => 0 | S n' => N.lxor (xsum n' f) (f n') end.

Lemma xsum_W16 n f : (forall v, (v < n)%nat -> W16 (f v)) -> W16 (xsum n f).
Proof. induction n as [|n IH]; intros H; cbn [xsum]; [apply W16_0|]. apply W16_lxor; [apply IH; intros; apply H; lia|apply H; lia]. Qed.
Lemma xsum_ext n f g : (forall v, (v < n)%nat -> f v = g v) -> xsum n f = xsum n g.
Proof. induction n as [|n IH]; intros H; cbn [xsum]; [reflexivity|]. rewrite IH by (intros; apply H; lia). rewrite H by lia. reflexivity. Qed.
Lemma lxor_4' a b c d : N.lxor (N.lxor a b) (N.lxor c d) = N.lxor (N.lxor a c) (N.lxor b d).
Proof. rewrite !N.lxor_assoc. f_equal. rewrite <- !N.lxor_assoc. f_equal. apply N.lxor_comm. Qed.
Lemma xsum_lxor n f g : xsum n (fun v => N.lxor (f v) (g v)) = N.lxor (xsum n f) (xsum n g).
Proof. induction n as [|n IH]; cbn [xsum]; [reflexivity|]. rewrite IH. apply lxor_4'. Qed.
Lemma xsum_fmul n a f : W16 a -> (forall v, (v < n)%nat -> W16 (f v)) ->
  fmul a (xsum n f) = xsum n (fun v => fmul a (f v)).
Proof.
  intros Ha. induction n as [|n IH]; intros H; cbn [xsum]; [apply fmul_0_r|].
  rewrite fmul_lxor_r; [|exact Ha|apply xsum_W16; intros; apply H; lia|apply H; lia].
  rewrite IH by (intros; apply H; lia). reflexivity.
Qed.
Lemma xsum_split n m f : xsum (n + m) f = N.lxor (xsum n f) (xsum m (fun v => f (n + v)%nat)).
Proof.
  induction m as [|m IH]; [rewrite Nat.add_0_r; cbn [xsum]; rewrite N.lxor_0_r; reflexivity|].
  rewrite Nat.add_succ_r. cbn [xsum]. rewrite IH, N.lxor_assoc. reflexivity.
Qed.
Lemma xsum_zero n f : (forall v, (v < n)%nat -> f v = 0) -> xsum n f = 0.
Proof. induction n as [|n IH]; intros H; cbn [xsum]; [reflexivity|]. rewrite IH by (intros; apply H; lia). rewrite H by lia. reflexivity. Qed.

(* ---------- division ---------- *)
Lemma finv_W16 b : W16 (finv b).
Proof. unfold finv. apply gexp_facts. unfold GF_MODULUS. lia. Qed.
Lemma fdiv_fmul a b : W16 a -> fdiv a b = fmul a (finv b).
Proof.
  intros Ha. unfold fdiv, finv. destruct (N.eqb_spec a 0) as [->|Hn]; [rewrite fmul_0_l; reflexivity|].
  apply mul_as_fmul; [exact Ha|unfold GF_MODULUS; lia].
Qed.
Lemma fdiv_W16 a b : W16 a -> W16 (fdiv a b).
Proof. intros Ha. rewrite fdiv_fmul by exact Ha. apply fmul_lt; [exact Ha|apply finv_W16]. Qed.
Lemma fdiv_self y : W16 y -> y <> 0 -> fdiv y y = 1.
Proof.
  intros Hy Hn.
  assert (H : forallb (fun y => (y =? 0) || (fdiv y y =? 1)) (rangeN 0 (N.to_nat 65536)) = true) by (vm_compute; reflexivity).
  pose proof (sweep16 _ H y Hy) as Hs. cbv beta in Hs. apply orb_prop in Hs. destruct Hs as [Hs|Hs]; apply N.eqb_eq in Hs; [contradiction|exact Hs].
Qed.
(* a * b / y = a * (b / y) *)
Lemma fdiv_scale a b y : W16 a -> W16 b -> fdiv (fmul a b) y = fmul a (fdiv b y).
Proof.
  intros Ha Hb. rewrite !fdiv_fmul by w16. apply fmul_assoc; try assumption. apply finv_W16.
Qed.

(* ---------- bits ---------- *)
Lemma of_nat_add_p2 k v : (v < p2 k)%nat -> N.of_nat (p2 k + v) = N.lxor (2 ^ N.of_nat k) (N.of_nat v).
Proof.
  intros Hv. rewrite Nat2N.inj_add.
  assert (Pk : N.of_nat (p2 k) = 2 ^ N.of_nat k) by (unfold p2; rewrite Nat2N.inj_pow; reflexivity).
  rewrite Pk. pose proof (add_aligned 1 (N.of_nat k) (N.of_nat v) ltac:(lia)) as E. rewrite N.mul_1_l in E. exact E.
Qed.
Lemma outside_step y k : N.shiftr y (N.of_nat (S k)) <> 0 ->
  N.shiftr y (N.of_nat k) <> 0 /\ N.shiftr (N.lxor y (2 ^ N.of_nat k)) (N.of_nat k) <> 0.
Proof.
  intros H. rewrite Nat2N.inj_succ, <- N.add_1_r, <- N.shiftr_shiftr in H.
  split.
  - intros E. rewrite E in H. apply H. reflexivity.
  - rewrite N.shiftr_lxor. intros E. apply H.
    assert (E2 : N.shiftr (2 ^ N.of_nat k) (N.of_nat k) = 1).
    { rewrite N.shiftr_div_pow2, N.div_same by (apply N.pow_nonzero; lia). reflexivity. }
    rewrite E2 in E. apply N.lxor_eq in E. rewrite E. reflexivity.
Qed.

(* ---------- the algebraic core of the induction step ---------- *)
Lemma core a b A B : W16 a -> W16 b -> W16 A -> W16 B ->
  N.lxor (N.lxor (fmul (N.lxor a 1) A) (fmul (N.lxor a 1) (fmul b B)))
         (N.lxor (fmul a A) (fmul a (fmul (N.lxor b 1) B))) =
  N.lxor A (fmul (N.lxor a b) B).
Proof.
  intros Ha Hb HA HB.
  rewrite !fmul_lxor_l by w16.
  rewrite (fmul_comm 1 A), (fmul_1_r A) by w16.
  rewrite (fmul_comm 1 (fmul b B)), (fmul_1_r (fmul b B)) by w16.
  rewrite (fmul_comm 1 B), (fmul_1_r B) by w16.
  rewrite (fmul_lxor_r a (fmul b B) B) by w16.
  set (aA := fmul a A). set (abB := fmul a (fmul b B)). set (bB := fmul b B). set (aB := fmul a B).
  (* ((aA + A) + (abB + bB)) + (aA + (abB + aB)) = A + (aB + bB) *)
  apply N.bits_inj. intros n. rewrite !N.lxor_spec.
  destruct (N.testbit aA n), (N.testbit A n), (N.testbit abB n), (N.testbit bB n), (N.testbit aB n); reflexivity.
Qed.

(* s_(k+1)(y) = s_k(y) * (s_k(y) + 1) *)
Lemma s_poly_S k y : W16 y -> s_poly (S k) y = fmul (N.lxor (s_poly k y) 1) (s_poly k y).
Proof.
  intros Hy. cbn [s_poly]. cbv zeta. set (a := s_poly k y). assert (Ha : W16 a) by (apply s_poly_lt; exact Hy).
  rewrite fmul_lxor_l by w16. rewrite (fmul_comm 1 a), fmul_1_r by w16. reflexivity.
Qed.

Theorem lagrange k : (k <= 15)%nat -> forall c u x, length c = p2 k -> Forall W16 c -> W16 u -> W16 x ->
  N.shiftr (N.lxor x u) (N.of_nat k) <> 0 ->
  lch k c x = xsum (p2 k) (fun v => fmul (lch k c (N.lxor u (N.of_nat v)))
                                          (fdiv (s_poly k (N.lxor x u)) (N.lxor (N.lxor x u) (N.of_nat v)))).
Proof.
  induction k as [|k IH]; intros Hk c u x Hc Wc Wu Wx Hout.
  - cbn [p2 Nat.pow xsum lch s_poly]. change (N.of_nat 0) with 0. rewrite !N.lxor_0_r, N.lxor_0_l.
    rewrite N.shiftr_0_r in Hout. rewrite fdiv_self by w16. rewrite fmul_1_r by (apply nth_W16, Wc). reflexivity.
  - pose proof (p2_pos k) as Hpos. rewrite p2_S in Hc |- *.
    set (y := N.lxor x u) in *. assert (Wy : W16 y) by (unfold y; w16).
    destruct (outside_step y k Hout) as [Ho1 Ho2].
    set (A := firstn (p2 k) c). set (B := skipn (p2 k) c).
    assert (LA : length A = p2 k) by (unfold A; rewrite firstn_length; lia).
    assert (LB : length B = p2 k) by (unfold B; rewrite skipn_length; lia).
    assert (WA : Forall W16 A) by (apply Forall_firstn', Wc).
    assert (WB : Forall W16 B) by (apply Forall_skipn', Wc).
    set (beta := 2 ^ N.of_nat k).
    assert (Wbeta : W16 beta) by (unfold beta, W16; apply (N.pow_lt_mono_r 2 (N.of_nat k) 16); lia).
    set (a := s_poly k y). assert (Wa : W16 a) by (unfold a; w16).
    set (b := s_poly k u). assert (Wb : W16 b) by (unfold b; w16).
    assert (Sx : s_poly k x = N.lxor a b).
    { unfold a, b, y. rewrite <- s_poly_additive by w16. f_equal. rewrite N.lxor_assoc, N.lxor_nilpotent, N.lxor_0_r. reflexivity. }
    assert (Sb : s_poly k beta = 1) by (apply s_poly_one; lia).
    (* the four instances of the induction hypothesis *)
    pose proof (IH ltac:(lia) A u x LA WA Wu Wx Ho1) as IA1.
    pose proof (IH ltac:(lia) B u x LB WB Wu Wx Ho1) as IB1.
    assert (Eyb : N.lxor x (N.lxor u beta) = N.lxor y beta) by (unfold y; rewrite N.lxor_assoc; reflexivity).
    assert (Wub : W16 (N.lxor u beta)) by w16.
    pose proof (IH ltac:(lia) A (N.lxor u beta) x LA WA Wub Wx ltac:(rewrite Eyb; exact Ho2)) as IA2.
    pose proof (IH ltac:(lia) B (N.lxor u beta) x LB WB Wub Wx ltac:(rewrite Eyb; exact Ho2)) as IB2.
    rewrite Eyb in IA2, IB2. fold y a in IA1, IB1.
    assert (Sa2 : s_poly k (N.lxor y beta) = N.lxor a 1) by (rewrite s_poly_additive by w16; rewrite Sb; reflexivity).
    rewrite Sa2 in IA2, IB2.
    (* split the sum *)
    rewrite xsum_split.
    (* first half *)
    assert (Vv : forall v, (v < p2 k)%nat -> W16 (N.of_nat v)).
    { intros v Hv. unfold W16. assert (N.of_nat (p2 k) = 2 ^ N.of_nat k) by (unfold p2; rewrite Nat2N.inj_pow; reflexivity).
      assert (2 ^ N.of_nat k < 2 ^ 16) by (apply N.pow_lt_mono_r; lia). change (2 ^ 16) with 65536 in *. lia. }
    assert (Sv : forall v, (v < p2 k)%nat -> s_poly k (N.of_nat v) = 0).
    { intros v Hv. apply s_poly_vanish; [lia|]. assert (N.of_nat (p2 k) = 2 ^ N.of_nat k) by (unfold p2; rewrite Nat2N.inj_pow; reflexivity). lia. }
    assert (H1 : xsum (p2 k) (fun v => fmul (lch (S k) c (N.lxor u (N.of_nat v))) (fdiv (s_poly (S k) y) (N.lxor y (N.of_nat v)))) =
                 N.lxor (fmul (N.lxor a 1) (lch k A x)) (fmul (N.lxor a 1) (fmul b (lch k B x)))).
    { rewrite IA1 at 1. rewrite IB1 at 1.
      rewrite (xsum_fmul (p2 k) b) by (first [exact Wb | intros v Hv; apply fmul_lt; [w16; auto|apply fdiv_W16; exact Wa]]).
      rewrite !(xsum_fmul (p2 k) (N.lxor a 1)) by (first [solve [w16] | intros v Hv; repeat apply fmul_lt; first [solve [w16; auto] | apply fdiv_W16; exact Wa]]).
      rewrite <- xsum_lxor. apply xsum_ext. intros v Hv.
      cbn [lch]. fold A B.
      assert (Wn : W16 (N.lxor u (N.of_nat v))) by (w16; auto).
      rewrite s_poly_additive by (w16; auto). rewrite (Sv v Hv), N.lxor_0_r. fold b.
      rewrite (s_poly_S k y Wy). fold a. rewrite fdiv_scale by w16.
      set (PA := lch k A (N.lxor u (N.of_nat v))). set (PB := lch k B (N.lxor u (N.of_nat v))).
      assert (WPA : W16 PA) by (unfold PA; w16). assert (WPB : W16 PB) by (unfold PB; w16).
      set (q := fdiv a (N.lxor y (N.of_nat v))). assert (Wq : W16 q) by (unfold q; apply fdiv_W16; exact Wa).
      rewrite fmul_lxor_l by w16.
      (* (PA)(a1 q) + (b PB)(a1 q)  =  a1 (PA q) + a1 (b (PB q)) *)
      f_equal.
      - rewrite (fmul_comm (N.lxor a 1) q) by w16. rewrite <- fmul_assoc by w16. apply fmul_comm; w16.
      - rewrite (fmul_comm (N.lxor a 1) q) by w16. rewrite <- (fmul_assoc (fmul b PB)) by w16.
        rewrite (fmul_comm (fmul (fmul b PB) q)) by w16. f_equal. apply fmul_assoc; w16. }
    assert (H2 : xsum (p2 k) (fun v => fmul (lch (S k) c (N.lxor u (N.of_nat (p2 k + v)))) (fdiv (s_poly (S k) y) (N.lxor y (N.of_nat (p2 k + v))))) =
                 N.lxor (fmul a (lch k A x)) (fmul a (fmul (N.lxor b 1) (lch k B x)))).
    { rewrite IA2 at 1. rewrite IB2 at 1.
      rewrite (xsum_fmul (p2 k) (N.lxor b 1)) by (first [solve [w16] | intros v Hv; apply fmul_lt; [w16; auto|apply fdiv_W16; w16]]).
      rewrite !(xsum_fmul (p2 k) a) by (first [exact Wa | intros v Hv; repeat apply fmul_lt; first [solve [w16; auto] | apply fdiv_W16; w16]]).
      rewrite <- xsum_lxor. apply xsum_ext. intros v Hv.
      rewrite (of_nat_add_p2 k v Hv). fold beta.
      rewrite <- !N.lxor_assoc.
      cbn [lch]. fold A B.
      assert (Wn : W16 (N.lxor (N.lxor u beta) (N.of_nat v))) by (w16; auto).
      rewrite (s_poly_additive k (N.lxor u beta)) by (w16; auto). rewrite (Sv v Hv), N.lxor_0_r.
      rewrite (s_poly_additive k u beta) by w16. rewrite Sb. fold b.
      rewrite (s_poly_S k y Wy). fold a.
      rewrite (fmul_comm (N.lxor a 1) a) by w16. rewrite fdiv_scale by w16.
      set (PA := lch k A (N.lxor (N.lxor u beta) (N.of_nat v))). set (PB := lch k B (N.lxor (N.lxor u beta) (N.of_nat v))).
      assert (WPA : W16 PA) by (unfold PA; w16). assert (WPB : W16 PB) by (unfold PB; w16).
      set (q := fdiv (N.lxor a 1) (N.lxor (N.lxor y beta) (N.of_nat v))). assert (Wq : W16 q) by (unfold q; apply fdiv_W16; w16).
      rewrite fmul_lxor_l by w16.
      f_equal.
      - rewrite (fmul_comm a q) by w16. rewrite <- fmul_assoc by w16. apply fmul_comm; w16.
      - rewrite (fmul_comm a q) by w16. rewrite <- (fmul_assoc (fmul (N.lxor b 1) PB)) by w16.
        rewrite (fmul_comm (fmul (fmul (N.lxor b 1) PB) q)) by w16. f_equal. apply fmul_assoc; w16. }
    rewrite H1, H2. cbn [lch]. fold A B. rewrite Sx.
    symmetry. apply core; w16.
Qed.
