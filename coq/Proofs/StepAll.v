(* C06 for every call of the machine, one-shot functions included: an Err is truthful, a call that
   violates nothing does not fail, a call that violates something is rejected. *)
From Coq Require Import NArith Arith Lia Bool List FMapPositive.
From RS.Gen Require Import Prelude GenConsts.
From RS.Model Require Import Field Tables Sched Codec Layout Machine Admissible.
From RS.Proofs Require Import MachineFacts OneShot OneShotEnc.
From RS.Proofs Require Import OneShotOk OneShotInvalid.
Import ListNotations.
Local Open Scope N_scope.

Theorem step_err_truthful_all junk s o s' e : step junk s o = (s', RError e) -> In e (admissible s o).
Proof.
  destruct (is_oneshot o) eqn:Ho; [|apply step_err_truthful; exact Ho].
  destruct o; try discriminate Ho; unfold step; cbn [admissible].
  - destruct (oneshot_encode junk (s_epoch (noalloc s)) K R shards) eqn:E; intros [= <- <-] || intros H; try discriminate.
    apply (oneshot_encode_truthful junk _ K R shards _ E).
  - destruct (oneshot_decode junk (s_epoch (noalloc s)) K R orig rec) eqn:E; intros [= <- <-] || intros H; try discriminate.
    apply (oneshot_decode_truthful junk _ K R orig rec _ E).
Qed.

Theorem step_valid_ok_all junk s o s' r : admissible s o = [] -> step junk s o = (s', r) -> forall e, r <> RError e.
Proof.
  intros Ha Hs e He. subst r. pose proof (step_err_truthful_all junk s o s' e Hs) as Hin. rewrite Ha in Hin. destruct Hin.
Qed.

Theorem step_invalid_err_all junk s o : admissible s o <> [] -> exists e, snd (step junk s o) = RError e.
Proof.
  destruct (is_oneshot o) eqn:Ho; [|apply step_invalid_err; exact Ho].
  destruct o; try discriminate Ho; unfold step; cbn [admissible]; intros Ha.
  - destruct (oneshot_encode_invalid_err junk (s_epoch (noalloc s)) K R shards Ha) as [e He]. rewrite He. exists e. reflexivity.
  - destruct (oneshot_decode_invalid_err junk (s_epoch (noalloc s)) K R orig rec Ha) as [e He]. rewrite He. exists e. reflexivity.
Qed.

(* along ANY operation sequence from any state: every reported error is truthful for the state it
   was reported in, every call that violates nothing succeeds, every call that violates something
   is rejected *)
Fixpoint errors_exact (junk : N -> N -> N -> N) (s : state) (ops : list op) : Prop :=
  match ops with
  | [] => True
  | o :: rest =>
    (match snd (step junk s o) with
     | RError e => In e (admissible s o)
     | _ => admissible s o = []
     end) /\ errors_exact junk (fst (step junk s o)) rest
  end.
Theorem run_errors_exact junk ops : forall s, errors_exact junk s ops.
Proof.
  induction ops as [|o ops IH]; intros s; [exact I|]. cbn [errors_exact]. split; [|apply IH].
  destruct (step junk s o) as [s1 r] eqn:E. cbn [snd].
  assert (G : (forall e, r <> RError e) -> admissible s o = []).
  { intros H. destruct (admissible s o) as [|a l] eqn:Ea; [reflexivity|]. exfalso.
    destruct (step_invalid_err_all junk s o) as [e0 He]; [rewrite Ea; discriminate|]. rewrite E in He. cbn in He. subst r.
    apply (H e0). reflexivity. }
  destruct r; try (apply G; intros; discriminate).
  apply (step_err_truthful_all junk s o s1 e E).
Qed.
