# helpers shared by the property checks
import json
from .core import *
from .gen import *

TRUSTED = [
    'Coq 8.16.1 kernel (coqc; vm_compute used for finite sweeps; no native_compute); libraries: Coq stdlib, MathComp 1.15 ssreflect/algebra (poly, ssralg, zify) for the polynomial part of C01; no axioms: every property theorem prints Closed under the global context, re-checked on every run',
    'rs2v translator (Rust/syn) for Gen/*.v: constants, supports/validate/use_high_rate/work_count, add_mod/sub_mod/fwht_2/mul, dispatch chains, statics graph',
    'hand-written executable model coq/Model/*.v tied to /repo by the correspondence check (extracted OCaml vs Rust harness on the same cases)',
    'extraction with ExtrOcamlBasic only (bool, option, unit, list, prod, sumbool, sumor -> OCaml natives; andb/orb inlined); N/positive/nat inductive; OCaml 4.13; ocaml/driver.ml glue',
    'Rust harness /verif/harness (catch_unwind, counting allocator, Neon intrinsic emulation), rustc/cargo building /repo with feature verif-hooks',
    'Python driver ./check (generators, comparison, verdict)',
]
ASSUME = [
    'the theorems are about the Coq model; the tie to the Rust source is the translator (regenerated every run) and the correspondence check, whose strength is that of its generators (distribution printed in coverage.input_distribution)',
    'allocation failure and shard sizes too large to allocate are outside the properties',
]


def corr_report(v, cases, impl, model, what, with_adm=False, ignore=None, as_property=False):
    """Correspondence impl vs model. Non-benign mismatches are reported (no failing input of the
    property itself unless as_property)."""
    mism = compare(cases, impl, model, with_adm=with_adm, ignore=ignore)
    real = [m for m in mism if not m[4]]
    v.count('corr_benign_error_choice', len(mism) - len(real))
    v.extra.setdefault('correspondence', {})[what] = {'cases': len(cases), 'ops': sum(len(c.ops) for c in cases),
                                                      'mismatches': len(real)}
    if impl.get('__failed__') or model.get('__failed__'):
        v.notes.append('a runner shard failed: %s %s' % (impl.get('__failed__'), model.get('__failed__')))
    for (c, k, a, b, _) in real[:3]:
        v.violation('correspondence %s: implementation and model differ' % what,
                    {'kind': 'correspondence', 'relation': what, 'case': c.line()[:200000], 'op_index': k,
                     'op': c.ops[k][:2000] if k < len(c.ops) else None,
                     'impl': (a or 'missing')[:4000], 'model': (b or 'missing')[:4000], 'meta': c.meta},
                    has_input=as_property)
    return real


def expected_restored(meta):
    K, sb, seed = meta['K'], meta['sb'], meta['seed']
    given = set(meta['given_o'])
    return {i: orig_bytes(seed, i, sb).hex() for i in range(K) if i not in given}


def check_roundtrip(v, c, res, prop_text='round trip'):
    """Property oracle for C01-style cases on implementation results. Returns True if ok."""
    m = c.meta
    if res is None or len(res) <= m['dec_idx']:
        v.violation('%s: missing results' % prop_text, {'kind': 'oracle', 'case': c.line()[:200000], 'meta': m})
        return False
    for k, r in enumerate(res):
        if k < m.get('first_idx', 0):
            continue        # an earlier round on the same objects, possibly abandoned
        if r is None or not r.startswith('ok'):
            v.violation('%s: op %d (%s) returned %s for a valid round trip' % (prop_text, k, c.ops[k][:60], r),
                        {'kind': 'oracle', 'case': c.line()[:200000], 'op_index': k, 'impl': r, 'meta': m})
            return False
    pr = parse_round(res[m['dec_idx']])
    if pr is None:
        v.violation('%s: decode result unparsable' % prop_text, {'kind': 'oracle', 'case': c.line()[:200000], 'meta': m})
        return False
    got = parse_map(pr[0])
    exp = expected_restored(m)
    if got != exp or [int(x.split(':')[0]) for x in pr[0]] != sorted(exp):
        bad = sorted(set(got) ^ set(exp)) or [i for i in exp if got.get(i) != exp[i]]
        v.violation('%s: restored originals differ from the withheld originals (K=%d R=%d sb=%d %s/%s, first bad index %s)'
                    % (prop_text, m['K'], m['R'], m['sb'], m['codec'], m['engine'], bad[:1]),
                    {'kind': 'oracle', 'case': c.line()[:200000], 'meta': m, 'bad_indexes': bad[:10]})
        return False
    return True


def note_case(v, c, key=None):
    v.evaluations += 1
    if key is not None:
        v.nontrivial.add(key)
    if len(v.samples) < 4:
        v.samples.append(c.line()[:600])
