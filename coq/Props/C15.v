(* C15 — engine primitives and tables implement their mathematical contracts.
   The model tables (Model/Field.v, Tables.v) are compared exhaustively with the crate's
   tables on every run; here they are shown to satisfy their defining equations, by finite
   sweeps inside Coq (the bounds are in the statements). *)
From Coq Require Import ZArith NArith Bool List Lia.
From RS.Gen Require Import Prelude GenConsts.
From RS.Model Require Import Field Tables Sched Kernels Spec.
From RS.Proofs Require Import FieldFacts Ring FftSpec SchedEquiv Trunc FftTrunc WalshZ Walsh LchPoly DecodeBase Locator Blocks.
Import ListNotations.
Local Open Scope N_scope.

Lemma forallb_range (P : N -> bool) (a : N) (n : nat) :
  forallb P (rangeN a n) = true -> forall i, a <= i < a + N.of_nat n -> P i = true.
Proof.
  revert a. induction n as [|n IH]; intros a H i Hi; [lia|].
  cbn [rangeN forallb] in H. apply andb_prop in H. destruct H as [H1 H2].
  destruct (N.eq_dec i a) as [->|Hne]; [exact H1|]. apply (IH (a + 1) H2). lia.
Qed.

(* exp and log are mutually inverse on the non-zero elements; the two conventional entries *)
Definition explog_ok (v : N) : bool :=
  (gexp (glog v) =? v) && (glog v <? 65535) && (glog (gexp (glog v)) =? glog v).
Theorem C15_tables_exp_log :
  (forall v, 1 <= v < 65536 -> gexp (glog v) = v /\ glog v < 65535) /\
  glog 0 = 65535 /\ gexp 65535 = gexp 0 /\ gexp 0 = 1.
Proof.
  assert (H : forallb explog_ok (rangeN 1 (N.to_nat 65535)) = true) by (vm_compute; reflexivity).
  split.
  - intros v Hv. assert (Hb : 1 <= v < 1 + N.of_nat (N.to_nat 65535)) by (rewrite N2Nat.id; lia).
    pose proof (forallb_range _ _ _ H v Hb) as Hv'.
    unfold explog_ok in Hv'. apply andb_prop in Hv'. destruct Hv' as [Hv' _]. apply andb_prop in Hv'.
    destruct Hv' as [H1 H2]. split; [apply N.eqb_eq; exact H1|apply N.ltb_lt; exact H2].
  - vm_compute. repeat split.
Qed.
Print Assumptions C15_tables_exp_log.

(* log is a bijection from the non-zero elements onto 0..65534 (with exp as its inverse) *)
Theorem C15_tables_log_exp : forall k, k < 65535 -> glog (gexp k) = k /\ 1 <= gexp k < 65536.
Proof.
  assert (H : forallb (fun k => (glog (gexp k) =? k) && (1 <=? gexp k) && (gexp k <? 65536))
                      (rangeN 0 (N.to_nat 65535)) = true) by (vm_compute; reflexivity).
  intros k Hk. assert (Hb : 0 <= k < 0 + N.of_nat (N.to_nat 65535)) by (rewrite N2Nat.id; lia).
  pose proof (forallb_range _ _ _ H k Hb) as Hk'.
  apply andb_prop in Hk'. destruct Hk' as [Hk' H3]. apply andb_prop in Hk'. destruct Hk' as [H1 H2].
  apply N.eqb_eq in H1. apply N.leb_le in H2. apply N.ltb_lt in H3. auto.
Qed.
Print Assumptions C15_tables_log_exp.

(* the generator: exp is "multiply by the element with logarithm 1" step by step, i.e.
   exp (k+1) = exp k * exp 1 in the field whose multiplication is [fmul] *)
Theorem C15_tables_exp_step : forall k, k < 65534 -> gexp (k + 1) = fmul (gexp k) (gexp 1).
Proof.
  assert (H : forallb (fun k => gexp (k + 1) =? fmul (gexp k) (gexp 1)) (rangeN 0 (N.to_nat 65534)) = true)
    by (vm_compute; reflexivity).
  intros k Hk. apply N.eqb_eq. apply (forallb_range _ _ _ H k). rewrite N2Nat.id. lia.
Qed.
Print Assumptions C15_tables_exp_step.

(* skew table: entry i, with i + 1 = p xor 2^m and p a multiple of 2^(m+1), is the
   logarithm of s_m(p), the value of the subspace polynomial the butterfly at that
   position needs (log 0 = 65535 means "no multiply") *)
Definition skew_entry_ok (m : nat) (p : N) : bool :=
  skew (N.lxor p (2 ^ N.of_nat m) - 1) =? glog (s_poly m p).
Definition skew_level_ok (m : nat) : bool :=
  forallb (fun q => skew_entry_ok m (q * 2 ^ (N.of_nat m + 1))) (range 0 (2 ^ (15 - N.of_nat m))).
Theorem C15_tables_skew : forall m, (m < 16)%nat -> forall q, q < 2 ^ (15 - N.of_nat m) ->
  skew (N.lxor (q * 2 ^ (N.of_nat m + 1)) (2 ^ N.of_nat m) - 1) = glog (s_poly m (q * 2 ^ (N.of_nat m + 1))).
Proof.
  assert (H : forallb skew_level_ok (seq 0 16) = true) by (vm_compute; reflexivity).
  intros m Hm q Hq. rewrite forallb_forall in H. specialize (H m ltac:(apply in_seq; lia)).
  unfold skew_level_ok, range in H. apply N.eqb_eq.
  apply (forallb_range _ _ _ H q). rewrite N.sub_0_r, N2Nat.id. lia.
Qed.
Print Assumptions C15_tables_skew.

(* Cantor basis: s_j(2^j) = 1 and s_j(2^i) = 0 for i < j (so the point with index v is the
   element v itself and s_j vanishes exactly on 0 .. 2^j-1 by additivity) *)
Theorem C15_cantor_basis :
  forallb (fun j => (s_poly j (2 ^ N.of_nat j) =? 1) &&
                    forallb (fun i => s_poly j (2 ^ N.of_nat i) =? 0) (seq 0 j)) (seq 0 16) = true.
Proof. vm_compute. reflexivity. Qed.
Print Assumptions C15_cantor_basis.

(* mul multiplies by g^log_m in GF(2^16) for ALL 2^32 (symbol, log_m) pairs: read through the
   Cantor basis (phi), the table-based product is carry-less multiplication by x^log_m modulo
   GF_POLYNOMIAL.  By algebra (linearity of phi and pmul, exp = powers of x, period 65535)
   from single-variable sweeps, not by enumeration of pairs. *)
Theorem C15_mul : forall x m, x < 65536 -> m <= 65535 ->
  phi (mul x m) = pmul (phi x) (pexp (N.to_nat m)).
Proof. exact mul_is_field_mul. Qed.
Print Assumptions C15_mul.

(* pmul is multiplication in F_2[x]/(GF_POLYNOMIAL): bilinear, multiplying by x is mulx
   (shift and conditional xor of the polynomial), x^0 = 1 is neutral *)
Theorem C15_pmul_field :
  (forall a b b', b < 65536 -> b' < 65536 -> pmul a (N.lxor b b') = N.lxor (pmul a b) (pmul a b')) /\
  (forall a a' b, pmul (N.lxor a a') b = N.lxor (pmul a b) (pmul a' b)) /\
  (forall a b, b < 65536 -> pmul a (mulx b) = mulx (pmul a b)) /\
  (forall x, x < 65536 -> pmul x 1 = x) /\
  (forall a m, pexp (a + m) = pmul (pexp a) (pexp m)) /\ pexp (N.to_nat 65535) = 1.
Proof.
  split; [exact pmul_lxor_r|]. split; [exact pmul_lxor_l|]. split; [exact pmul_mulx|]. split; [exact pmul_1_r|]. split; [exact pexp_add|exact pexp_period].
Qed.
Print Assumptions C15_pmul_field.

(* the nibble tables are by definition products with shifted nibbles *)
Theorem C15_tables_mul16 : forall m k i, mul16 m k i = mul (N.shiftl i (4 * k)) m.
Proof. reflexivity. Qed.
Print Assumptions C15_tables_mul16.

(* ---- fft = evaluation in the LCH basis (unbounded theorem, reference engine, untruncated) ----
   [lch k c x] is the value at x of the polynomial with coefficients c in the basis
   X_t = prod_{j in bits t} s_j  (P = P_lo + s_(k-1) * P_hi).  For every size 2^k <= 2^16, every
   chunk-aligned skew_delta with skew_delta + size <= 65536 and every input, output i of the
   Naive engine's fft is the value at the point skew_delta + i.  Proof: the iterative schedule is
   the recursive transform (passes_fft_rec), the skew table holds log s_l(p) (sweep), s_l is
   additive and vanishes on 0..2^l-1 (Ring), field laws of the table product (Ring/FieldFacts). *)
Theorem C15_fft : forall k q c, (k <= 16)%nat ->
  let size := 2 ^ N.of_nat k in let sd := q * size in
  sd + size <= 65536 -> length c = Nat.pow 2 k -> Forall (fun x => x < 65536) c ->
  forall i, (i < Nat.pow 2 k)%nat ->
  nth i (fft sym_ops Naive size size sd c) 0 = lch k c (sd + N.of_nat i).
Proof. exact naive_fft_spec. Qed.
Print Assumptions C15_fft.

(* ... and for every engine (the two-layer schedule computes what the one-layer schedule
   computes when the transform is not truncated: SchedEquiv) *)
Theorem C15_fft_all_engines : forall e k q c, (k <= 16)%nat ->
  let size := 2 ^ N.of_nat k in let sd := q * size in
  sd + size <= 65536 -> length c = Nat.pow 2 k -> Forall (fun x => x < 65536) c ->
  forall i, (i < Nat.pow 2 k)%nat ->
  nth i (fft sym_ops e size size sd c) 0 = lch k c (sd + N.of_nat i).
Proof.
  intros e k q c Hk size sd Hb Hc Wc i Hi. subst size sd.
  rewrite fft_engines_agree; [apply naive_fft_spec; assumption|exact Hk|].
  rewrite Hc, Nat2N.inj_pow. reflexivity.
Qed.
Print Assumptions C15_fft_all_engines.

(* ... truncated or not: every output below truncated_size is the value of the polynomial, for
   every engine, size 2^k <= 2^16, truncation, aligned skew_delta and input *)
Theorem C15_fft_truncated : forall e k q c trunc, (k <= 16)%nat ->
  let size := 2 ^ N.of_nat k in let sd := q * size in
  sd + size <= 65536 -> length c = Nat.pow 2 k -> Forall (fun x => x < 65536) c -> trunc <= size ->
  forall i, N.of_nat i < trunc ->
  nth i (fft sym_ops e size trunc sd c) 0 = lch k c (sd + N.of_nat i).
Proof. exact fft_trunc_spec. Qed.
Print Assumptions C15_fft_truncated.

(* ifft within its contract (input zero from truncated_size on) interpolates: its result is the
   LCH coefficient vector of the polynomial taking the given values at skew_delta + i *)
Theorem C15_ifft_interpolates : forall e k q x trunc, (k <= 16)%nat ->
  let size := 2 ^ N.of_nat k in let sd := q * size in
  sd + size <= 65536 -> length x = Nat.pow 2 k -> Forall (fun x => x < 65536) x -> trunc <= size ->
  (forall i, (i < length x)%nat -> trunc <= N.of_nat i -> nth_error x i = Some 0) ->
  forall i, (i < Nat.pow 2 k)%nat ->
  lch k (ifft sym_ops e size trunc sd x) (sd + N.of_nat i) = nth i x 0.
Proof. exact ifft_interpolates. Qed.
Print Assumptions C15_ifft_interpolates.

Theorem C15_fft_ifft_inverse : forall e k sd l, (k <= 16)%nat -> N.of_nat (length l) = 2 ^ N.of_nat k ->
  fft sym_ops e (2 ^ N.of_nat k) (2 ^ N.of_nat k) sd (ifft sym_ops e (2 ^ N.of_nat k) (2 ^ N.of_nat k) sd l) = l.
Proof. exact fft_ifft_inverse. Qed.
Print Assumptions C15_fft_ifft_inverse.

(* ifft is the exact inverse of fft: every engine, every size 2^k <= 2^16, every skew_delta,
   every input *)
Theorem C15_ifft_inverse : forall e k sd l, (k <= 16)%nat -> N.of_nat (length l) = 2 ^ N.of_nat k ->
  ifft sym_ops e (2 ^ N.of_nat k) (2 ^ N.of_nat k) sd (fft sym_ops e (2 ^ N.of_nat k) (2 ^ N.of_nat k) sd l) = l.
Proof. exact ifft_fft_inverse. Qed.
Print Assumptions C15_ifft_inverse.

(* the field laws the specification rests on, for the table-based product on 16-bit symbols *)
Theorem C15_field_laws : forall a b c, a < 65536 -> b < 65536 -> c < 65536 ->
  fmul a b = fmul b a /\ fmul (fmul a b) c = fmul a (fmul b c) /\
  fmul a (N.lxor b c) = N.lxor (fmul a b) (fmul a c) /\ fmul a 1 = a /\ fmul a b < 65536 /\
  phi (fmul a b) = pmul (phi a) (phi b).
Proof.
  intros a b c Ha Hb Hc. repeat split.
  - apply fmul_comm; assumption.
  - apply fmul_assoc; assumption.
  - apply fmul_lxor_r; assumption.
  - apply fmul_1_r; assumption.
  - apply fmul_lt; assumption.
  - apply fmul_spec; assumption.
Qed.
Print Assumptions C15_field_laws.

(* subspace polynomials: additive, vanish on 0 .. 2^j-1, value 1 at 2^j *)
Theorem C15_subspace_polys : forall j x y, (j <= 15)%nat -> x < 65536 -> y < 65536 ->
  s_poly j (N.lxor x y) = N.lxor (s_poly j x) (s_poly j y) /\
  (x < 2 ^ N.of_nat j -> s_poly j x = 0) /\ s_poly j (2 ^ N.of_nat j) = 1.
Proof.
  intros j x y Hj Hx Hy. split; [apply s_poly_additive; assumption|]. split; [apply s_poly_vanish; assumption|apply s_poly_one; assumption].
Qed.
Print Assumptions C15_subspace_polys.

(* fft of every engine = evaluation of the LCH-basis polynomial, eval_poly = log of the
   locator: instances (sizes up to 16, all truncations, two offsets); the general theorem is
   in progress (DESIGN.md section 3) *)
Definition fft_matches_spec (e : engine) (size sd : N) (c : list N) : bool :=
  forallb (fun trunc =>
    let out := fft sym_ops e size trunc sd c in
    forallb (fun i => nth (N.to_nat i) out 0 =? lch_eval c (sd + i)) (range 0 trunc)) (range 1 (size + 1)).
Definition coeffs (n : N) : list N := map (fun i => (i * 7919 + 13) mod 65536) (range 0 n).
(* ---------- fwht, LOG_WALSH, eval_poly, formal_derivative ---------- *)
(* fwht (radix-4 layers, truncated) is the Walsh-Hadamard transform modulo 65535: for any data
   with entries <= 65535 that are zero from m_truncated on, every output is <= 65535 and
   congruent to the integer transform wht (WalshZ: wht (a ++ b) = (wht a + wht b) ++ (wht a - wht b)) *)
Theorem C15_fwht : forall (d : list N) t, N.of_nat (length d) = GF_ORDER -> Forall (fun x => x <= 65535) d -> t <= GF_ORDER ->
  (forall i, (i < length d)%nat -> t <= N.of_nat i -> nth i d 0 = 0) ->
  Forall2 (fun x z => x <= 65535 /\ (Z.of_N x mod 65535 = z mod 65535)%Z) (fwht d t) (wht 16 (map Z.of_N d)).
Proof. exact ep_step1. Qed.
Print Assumptions C15_fwht.

(* the LOG_WALSH table is the transform of the logarithm table *)
Theorem C15_log_walsh :
  Forall2 (fun x z => x <= 65535 /\ (Z.of_N x mod 65535 = z mod 65535)%Z) log_walsh (wht 16 (map Z.of_N logtab)).
Proof. exact ep_step2. Qed.
Print Assumptions C15_log_walsh.

(* eval_poly: for an erasure indicator (1 = erased, zero from truncated_size on), multiplying a
   symbol by exp(out[v]) multiplies it by the product of (v xor j) over the erased positions
   j <> v, and multiplying by exp(65535 - out[v]) divides by it - the erasure locator and, at an
   erased v, its formal derivative *)
Theorem C15_eval_poly : forall (el : N -> bool) t, t <= GF_ORDER -> (forall v, t <= v -> v < 65536 -> el v = false) ->
  er_spec (eval_poly (map (fun i => if el i then 1 else 0) (range 0 GF_ORDER)) t) (filter el (range 0 65536)).
Proof. exact eval_poly_er_spec. Qed.
Print Assumptions C15_eval_poly.

(* s_k(x) = x >> k in the Cantor representation; the crate's formal_derivative is Id + d/dx on the
   LCH coefficients of a polynomial over the MathComp field GF(2^16) *)
Theorem C15_subspace_shift : forall k x, x < 65536 -> s_poly k x = N.shiftr x (N.of_nat k).
Proof. exact s_poly_shift. Qed.
Print Assumptions C15_subspace_shift.
(* statement (printed by the Check below): forall k l, length l = 2^k -> Forall W16 l ->
   lchp k (formal_derivative_rec sym_ops k l) = lchp k l + (lchp k l)^`()   in {poly gf} *)
Theorem C15_formal_derivative : ltac:(let t := type of lchp_fdr in exact t).
Proof. exact lchp_fdr. Qed.
Check C15_formal_derivative.
Print Assumptions C15_formal_derivative.

Theorem C15_fft_instances :
  forallb (fun e => forallb (fun k => fft_matches_spec e (2 ^ k) 0 (coeffs (2 ^ k)) &&
                                      fft_matches_spec e (2 ^ k) (3 * 2 ^ k) (coeffs (2 ^ k))) [0; 1; 2; 3; 4])
          [Naive; NoSimd] = true.
Proof. vm_compute. reflexivity. Qed.
Print Assumptions C15_fft_instances.

Theorem C15_ifft_instances :
  forallb (fun e => forallb (fun k =>
     let c := coeffs (2 ^ k) in
     if list_eq_dec N.eq_dec (ifft sym_ops e (2 ^ k) (2 ^ k) (2 ^ k) (fft sym_ops e (2 ^ k) (2 ^ k) (2 ^ k) c)) c then true else false)
     [0; 1; 2; 3; 4; 5]) [Naive; NoSimd] = true.
Proof. vm_compute. reflexivity. Qed.
Print Assumptions C15_ifft_instances.
