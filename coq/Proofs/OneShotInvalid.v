(* C06/C10 for the one-shot decode(): a call that violates a documented precondition (non-empty set
   of admissible errors) never returns Ok.  If decode() returned Ok, every shard was accepted, so
   every index is in range, no index repeats, every shard has the inferred length, and at least
   original_count shards were given: the admissible set is empty. *)
From Coq Require Import NArith Arith Lia Bool List FMapPositive.
From RS.Gen Require Import Prelude GenConsts.
From RS.Model Require Import Field Tables Sched Codec Layout Machine Admissible.
From RS.Proofs Require Import RateFacts FftSpec PermFacts MachineOps OneShotRound.
From RS.Proofs Require Import OneShotOk.
Import ListNotations.
Local Open Scope N_scope.

Lemma dup_errors_nil mk : forall l seen, NoDup (map fst l) -> (forall i, In i seen -> ~ In i (map fst l)) ->
  dup_errors mk seen l = [].
Proof.
  induction l as [|[i s] l IH]; intros seen Hnd Hdis; [reflexivity|]. cbn [dup_errors]. cbn [map fst] in Hnd, Hdis.
  inversion Hnd as [|? ? Hni Hnd']; subst.
  assert (E : existsb (N.eqb i) seen = false).
  { destruct (existsb (N.eqb i) seen) eqn:Ex; [|reflexivity]. apply existsb_exists in Ex. destruct Ex as (j & Hj & Eij).
    apply N.eqb_eq in Eij. subst j. exfalso. apply (Hdis i Hj). left. reflexivity. }
  rewrite E. apply IH; [exact Hnd'|]. intros j [<-|Hj] Hin; [exact (Hni Hin)|]. apply (Hdis j Hj). right. exact Hin.
Qed.

Lemma distinct_ok_all sb bound : forall l seen, NoDup (map fst l) -> (forall i, In i seen -> ~ In i (map fst l)) ->
  Forall (fun p => fst p < bound /\ blen (snd p) = sb) l -> distinct_ok sb bound seen l = N.of_nat (length l).
Proof.
  induction l as [|[i s] l IH]; intros seen Hnd Hdis Hall; [reflexivity|]. cbn [distinct_ok]. cbn [map fst] in Hnd, Hdis.
  inversion Hnd as [|? ? Hni Hnd']; subst. inversion Hall as [|? ? Hhd Hall']; subst. destruct Hhd as [Hb Hl]. cbn [fst snd] in Hb, Hl.
  assert (E : existsb (N.eqb i) seen = false).
  { destruct (existsb (N.eqb i) seen) eqn:Ex; [|reflexivity]. apply existsb_exists in Ex. destruct Ex as (j & Hj & Eij).
    apply N.eqb_eq in Eij. subst j. exfalso. apply (Hdis i Hj). left. reflexivity. }
  assert ((i <? bound) = true) as -> by (apply N.ltb_lt; exact Hb).
  assert ((blen s =? sb) = true) as -> by (apply N.eqb_eq; exact Hl). rewrite E. cbn [andb negb].
  rewrite IH; [cbn [length]; lia|exact Hnd'| |exact Hall'].
  intros j [<-|Hj] Hin; [exact (Hni Hin)|]. apply (Hdis j Hj). right. exact Hin.
Qed.

Lemma filter_nil {A} (f : A -> bool) l : (forall x, In x l -> f x = false) -> filter f l = [].
Proof. induction l as [|x l IH]; intros H; [reflexivity|]. cbn. rewrite (H x (or_introl eq_refl)). apply IH. intros y Hy. apply H. right. exact Hy. Qed.
Lemma filter_all {A} (f : A -> bool) l : (forall x, In x l -> f x = true) -> filter f l = l.
Proof. induction l as [|x l IH]; intros H; [reflexivity|]. cbn. rewrite (H x (or_introl eq_refl)). f_equal. apply IH. intros y Hy. apply H. right. exact Hy. Qed.
Lemma NoDup_map_inj {A B} (f : A -> B) (g : B -> option A) l : (forall x, g (f x) = Some x) -> NoDup (map f l) -> NoDup l.
Proof.
  intros Hg. induction l as [|x l IH]; intros H; [constructor|]. cbn in H. inversion H as [|? ? Hni Hnd]; subst.
  constructor; [|apply IH; exact Hnd]. intros Hin. apply Hni. apply in_map. exact Hin.
Qed.
Lemma NoDup_app_l {A} (l1 l2 : list A) : NoDup (l1 ++ l2) -> NoDup l1.
Proof. induction l1 as [|x l IH]; intros H; [constructor|]. cbn in H. inversion H as [|? ? Hni Hnd]; subst. constructor; [|apply IH; exact Hnd]. intros Hin. apply Hni. apply in_or_app. left. exact Hin. Qed.
Lemma NoDup_app_r {A} (l1 l2 : list A) : NoDup (l1 ++ l2) -> NoDup l2.
Proof. induction l1 as [|x l IH]; intros H; [exact H|]. cbn in H. inversion H; subst. apply IH. assumption. Qed.
Lemma NoDup_map_add {A} (f : A -> N) (b : N) l : NoDup (map (fun x => b + f x) l) -> NoDup (map f l).
Proof.
  induction l as [|x l IH]; intros H; [constructor|]. cbn in *. inversion H as [|? ? Hni Hnd]; subst. constructor; [|apply IH; exact Hnd].
  intros Hin. apply Hni. apply in_map_iff in Hin. destruct Hin as (y & Ey & Hy). apply in_map_iff. exists y. split; [lia|exact Hy].
Qed.

Theorem oneshot_decode_ok_valid junk ep K R orig rec it :
  oneshot_decode junk ep K R orig rec = RMap it -> adm_onedec K R orig rec = [].
Proof.
  intros Hdec. unfold oneshot_decode in Hdec. unfold adm_onedec.
  destruct (negb (default_supportsb K R)) eqn:Es; [discriminate|].
  set (sbo := match rec with (_, s) :: _ => Some (blen s) | [] => match orig with (_, s) :: _ => Some (blen s) | [] => None end end) in *.
  destruct sbo as [sb|]; [|discriminate].
  destruct (dec_make CRs DefaultE K R sb decwork_new) as [[y0 b0]|e2] eqn:Edm; [|discriminate].
  rewrite !dec_add_all_adds in Hdec.
  destruct (dec_adds y0 (map (to_add true) orig)) as [y1|e3] eqn:E1; [|discriminate].
  rewrite dec_add_all_adds in Hdec.
  destruct (dec_adds y1 (map (to_add false) rec)) as [y2|e4] eqn:E2; [|discriminate].
  set (adds := map (to_add true) orig ++ map (to_add false) rec).
  assert (Hadds_ok : dec_adds y0 adds = inl y2) by (unfold adds; rewrite dec_adds_app, E1; exact E2).
  assert (Hbs : bad_size sb = false).
  { unfold dec_make, validateb in Edm. destruct (negb (supportsb CRs K R)); [discriminate|]. destruct (bad_size sb); [discriminate|reflexivity]. }
  rewrite Hbs.
  assert (Hd : dw_sb (d_work y0) = sb /\ dw_K (d_work y0) = K /\ dw_R (d_work y0) = R /\ dw_orecv (d_work y0) = 0 /\ dw_rrecv (d_work y0) = 0).
  { unfold dec_make in Edm. destruct (validateb CRs K R sb); [discriminate|]. cbv zeta in Edm. unfold decwork_reset in Edm. cbv zeta in Edm.
    inversion Edm; subst y0. cbn. auto. }
  destruct Hd as (Hd1 & Hd2 & Hd3 & Hd4 & Hd5).
  pose proof (dec_adds_ok_inv adds y0 y2 Hadds_ok) as Hok.
  pose proof (all_ok_guard adds (d_work y0) Hok) as Hg. rewrite Hd1, Hd2, Hd3 in Hg.
  assert (Go : Forall (fun p => fst p < K /\ blen (snd p) = sb) orig).
  { apply Forall_forall. intros [i s] Hin. destruct (Hg (AddO i s)) as [A B]; [unfold adds; apply in_or_app; left; apply in_map_iff; exists (i, s); split; [reflexivity|exact Hin]|].
    cbn in *. split; assumption. }
  assert (Gr : Forall (fun p => fst p < R /\ blen (snd p) = sb) rec).
  { apply Forall_forall. intros [i s] Hin. destruct (Hg (AddR i s)) as [A B]; [unfold adds; apply in_or_app; right; apply in_map_iff; exists (i, s); split; [reflexivity|exact Hin]|].
    cbn in *. split; assumption. }
  pose proof (all_ok_nodup_pos adds (d_work y0) Hok) as Hnd. unfold adds in Hnd. rewrite map_app, !map_map in Hnd.
  assert (Ndo : NoDup (map fst orig)).
  { apply NoDup_app_l in Hnd. apply (NoDup_map_add fst (dw_obase (d_work y0))).
    erewrite map_ext; [exact Hnd|]. intros [i s]. reflexivity. }
  assert (Ndr : NoDup (map fst rec)).
  { apply NoDup_app_r in Hnd. apply (NoDup_map_add fst (dw_rbase (d_work y0))).
    erewrite map_ext; [exact Hnd|]. intros [i s]. reflexivity. }
  rewrite Forall_forall in Go, Gr.
  rewrite (filter_nil (fun p => K <=? fst p) orig) by (intros p Hp; apply N.leb_gt; apply (Go p Hp)).
  rewrite (filter_nil (fun p => R <=? fst p) rec) by (intros p Hp; apply N.leb_gt; apply (Gr p Hp)).
  rewrite (filter_all (fun p => fst p <? K) orig) by (intros p Hp; apply N.ltb_lt; apply (Go p Hp)).
  rewrite (filter_all (fun p => fst p <? R) rec) by (intros p Hp; apply N.ltb_lt; apply (Gr p Hp)).
  rewrite (dup_errors_nil _ orig [] Ndo) by (intros i []).
  rewrite (dup_errors_nil _ rec [] Ndr) by (intros i []).
  assert (Fl : flat_map (fun p => adm_len sb (snd p)) (orig ++ rec) = []).
  { assert (G : forall l : list (N * bytes), (forall p, In p l -> blen (snd p) = sb) -> flat_map (fun p => adm_len sb (snd p)) l = []).
    { induction l as [|p l IH]; intros H; [reflexivity|]. cbn [flat_map]. unfold adm_len at 1.
      rewrite (H p (or_introl eq_refl)), N.eqb_refl. cbn [negb app]. apply IH. intros q Hq. apply H. right. exact Hq. }
    apply G. intros p Hp. apply in_app_or in Hp. destruct Hp as [Hp|Hp]; [apply (Go p Hp)|apply (Gr p Hp)]. }
  rewrite Fl. cbn [map app].
  rewrite (distinct_ok_all sb K orig [] Ndo) by (first [intros i []|apply Forall_forall; exact Go]).
  rewrite (distinct_ok_all sb R rec [] Ndr) by (first [intros i []|apply Forall_forall; exact Gr]).
  destruct (dec_decode junk ep y2 []) as [y' r] eqn:Edd. cbn [snd] in Hdec.
  unfold dec_decode in Edd. destruct (dw_orecv (d_work y2) + dw_rrecv (d_work y2) <? dw_K (d_work y2)) eqn:Elt.
  - inversion Edd; subst. discriminate.
  - apply N.ltb_ge in Elt.
    rewrite (dec_adds_spec adds y0 Hok) in Hadds_ok. injection Hadds_ok as Ey.
    assert (Dw : d_work y2 = apply_all (d_work y0) adds) by (rewrite <- Ey; reflexivity).
    pose proof (apply_all_counts adds (d_work y0) Hok) as Cn. rewrite Hd4, Hd5 in Cn.
    destruct (apply_all_fields adds (d_work y0)) as (F1 & _).
    rewrite Dw, Cn, F1, Hd2 in Elt. unfold adds in Elt. rewrite app_length, !map_length in Elt.
    assert ((N.of_nat (length orig) + N.of_nat (length rec) <? K) = false) as -> by (apply N.ltb_ge; lia).
    reflexivity.
Qed.

Theorem oneshot_decode_invalid_err junk ep K R orig rec : adm_onedec K R orig rec <> [] ->
  exists e, oneshot_decode junk ep K R orig rec = RError e.
Proof.
  intros H. destruct (oneshot_decode_shape junk ep K R orig rec) as [Herr|[it Hok]]; [exact Herr|].
  exfalso. apply H. apply (oneshot_decode_ok_valid junk ep K R orig rec it Hok).
Qed.

(* ---------- one-shot encode ---------- *)
Lemma enc_add_all_ok : forall l x x', enc_add_all x l = inl x' ->
  Forall (fun s => blen s = ew_sb (e_work x)) l /\ ew_recv (e_work x') = ew_recv (e_work x) + N.of_nat (length l) /\
  ew_K (e_work x') = ew_K (e_work x) /\ ew_sb (e_work x') = ew_sb (e_work x).
Proof.
  induction l as [|s l IH]; intros x x' H; cbn [enc_add_all] in H.
  - inversion H; subst. repeat split; [constructor|cbn; lia].
  - destruct (enc_add x s) as [x1|e] eqn:E; [|discriminate]. destruct (IH x1 x' H) as (A & B & C & D).
    unfold enc_add in E. destruct (ew_recv (e_work x) =? ew_K (e_work x)); [discriminate|].
    destruct (negb (blen s =? ew_sb (e_work x))) eqn:El; [discriminate|]. inversion E; subst x1. cbn in *.
    apply negb_false_iff, N.eqb_eq in El. repeat split; [constructor; assumption|lia|assumption|assumption].
Qed.

Theorem oneshot_encode_ok_valid junk ep K R shards rec :
  oneshot_encode junk ep K R shards = RShards rec -> adm_oneenc K R shards = [].
Proof.
  intros H. unfold oneshot_encode in H. unfold adm_oneenc.
  destruct (negb (default_supportsb K R)); [discriminate|].
  destruct shards as [|first rest] eqn:Es; [discriminate|]. rewrite <- Es in *.
  destruct (enc_make CRs DefaultE K R (blen first) encwork_new) as [[x0 a0]|e0] eqn:Em; [|discriminate].
  destruct (enc_add_all x0 shards) as [x|e1] eqn:Ea; [|discriminate].
  assert (Hbs : bad_size (blen first) = false).
  { unfold enc_make, validateb in Em. destruct (negb (supportsb CRs K R)); [discriminate|]. destruct (bad_size (blen first)); [discriminate|reflexivity]. }
  rewrite Hbs.
  assert (X0 : ew_K (e_work x0) = K /\ ew_sb (e_work x0) = blen first /\ ew_recv (e_work x0) = 0).
  { unfold enc_make in Em. destruct (validateb CRs K R (blen first)); [discriminate|]. cbv zeta in Em. unfold encwork_reset in Em. cbv zeta in Em.
    inversion Em; subst x0. cbn. auto. }
  destruct X0 as (X1 & X2 & X3).
  destruct (enc_add_all_ok shards x0 x Ea) as (A & B & C & D). rewrite X2 in A. rewrite X3 in B. rewrite X1 in C.
  unfold enc_encode in H. destruct (negb (ew_recv (e_work x) =? ew_K (e_work x))) eqn:En; cbn [snd] in H; [discriminate|].
  apply negb_false_iff, N.eqb_eq in En. rewrite B, C in En.
  assert (Fl : flat_map (adm_len (blen first)) (firstn (N.to_nat K) shards) = []).
  { assert (G : forall l : list bytes, Forall (fun s => blen s = blen first) l -> flat_map (adm_len (blen first)) l = []).
    { induction l as [|s l IH]; intros Hl; [reflexivity|]. inversion Hl; subst. cbn [flat_map]. unfold adm_len at 1.
      rewrite H2, N.eqb_refl. cbn [negb app]. apply IH. assumption. }
    apply G. apply Forall_firstn'. exact A. }
  rewrite Fl. cbn [app].
  assert ((K <? N.of_nat (length shards)) = false) as -> by (apply N.ltb_ge; lia).
  assert ((N.of_nat (length shards) <? K) = false) as -> by (apply N.ltb_ge; lia).
  reflexivity.
Qed.

Theorem oneshot_encode_invalid_err junk ep K R shards : adm_oneenc K R shards <> [] ->
  exists e, oneshot_encode junk ep K R shards = RError e.
Proof.
  intros H. destruct (oneshot_encode_shape junk ep K R shards) as [Herr|[rec Hok]]; [exact Herr|].
  exfalso. apply H. apply (oneshot_encode_ok_valid junk ep K R shards rec Hok).
Qed.
