(* C03 at the level of the decoders and of decoder objects: for ARBITRARY contents of the received
   shards (codewords or not) the restored shards do not depend on the engine.  The truncated
   ifft of every engine is the full reference ifft because the decoders zero every position from
   the truncation point on; the truncated fft of every engine agrees with the reference below the
   truncation point, and nothing beyond it is ever read back. *)
From Coq Require Import NArith Arith Lia Bool List FMapPositive.
From RS.Gen Require Import Prelude GenConsts.
From RS.Model Require Import Field Tables Sched Codec Layout Machine Spec.
From RS.Proofs Require Import RateFacts FieldFacts Param Linear FftSpec Lengths Trunc Cauchy DecodeBase RoundShards
     ShardLen PermFacts Junk MachineRound MachineOps DecShape.
Import ListNotations.
Local Open Scope N_scope.

Lemma nth_error_combine {A B} : forall (a : list A) (b : list B) i,
  nth_error (combine a b) i = match nth_error a i, nth_error b i with Some x, Some y => Some (x, y) | _, _ => None end.
Proof.
  induction a as [|x a IH]; intros [|y b] [|i]; cbn; try reflexivity.
  - destruct (nth_error a i); reflexivity.
  - apply IH.
Qed.
Lemma nth_error_rangeN : forall n a i, (i < n)%nat -> nth_error (rangeN a n) i = Some (a + N.of_nat i).
Proof.
  induction n as [|n IH]; intros a i Hi; [lia|]. cbn [rangeN]. destruct i as [|i]; [cbn; f_equal; lia|].
  cbn [nth_error]. rewrite IH by lia. f_equal. lia.
Qed.

Section Generic.
Context {T : Type} (ops : elt_ops T).
Hypothesis Hz : ops_zero ops.

Lemma mapi_nth_error (f : N -> N -> T -> T) er (l : list T) i : (length l <= length er)%nat ->
  nth_error (mapi f er l) i =
  match nth_error l i with Some x => Some (f (N.of_nat i) (nth i er 0) x) | None => None end.
Proof.
  intros Hl. unfold mapi. rewrite nth_error_map, !nth_error_combine.
  destruct (nth_error l i) as [x|] eqn:E.
  - assert (Hi : (i < length l)%nat) by (apply nth_error_Some; congruence).
    unfold range. rewrite N.sub_0_r, Nat2N.id, nth_error_rangeN by exact Hi.
    rewrite (nth_error_nth' er 0) by lia. cbn. reflexivity.
  - destruct (nth_error (range 0 (N.of_nat (length l))) i); [destruct (nth_error er i)|]; reflexivity.
Qed.

Variables e1 e2 : engine.

Lemma transform_engines kn trunc (w : list T) : (kn <= 16)%nat -> length w = p2 kn -> trunc <= 2 ^ N.of_nat kn ->
  (forall i, (i < length w)%nat -> trunc <= N.of_nat i -> nth_error w i = Some (zeroT ops)) ->
  forall i, N.of_nat i < trunc ->
  nth_error (transform ops e1 (2 ^ N.of_nat kn) trunc w) i = nth_error (transform ops e2 (2 ^ N.of_nat kn) trunc w) i.
Proof.
  intros Hk Lw Ht Hzero i Hi. unfold transform.
  assert (Lw' : N.of_nat (length w) = 2 ^ N.of_nat kn) by (rewrite Lw; apply p2_N).
  rewrite (ifft_trunc_exact ops e1 kn trunc 0 w Hz Hk Lw' Ht Hzero).
  rewrite (ifft_trunc_exact ops e2 kn trunc 0 w Hz Hk Lw' Ht Hzero).
  set (c := ifft ops Naive (2 ^ N.of_nat kn) (2 ^ N.of_nat kn) 0 w).
  assert (Lc : length c = p2 kn) by (unfold c; rewrite ifft_len by assumption; exact Lw).
  assert (Ld : N.of_nat (length (formal_derivative ops c)) = 2 ^ N.of_nat kn).
  { unfold formal_derivative. rewrite Lc, p2_N, N.log2_pow2, Nat2N.id by lia. rewrite fdr_len_gen by exact Lc. apply p2_N. }
  rewrite (fft_trunc_prefix ops e1 kn trunc 0 _ Hk Ld Ht i Hi).
  rewrite (fft_trunc_prefix ops e2 kn trunc 0 _ Hk Ld Ht i Hi). reflexivity.
Qed.

Theorem decode_high_engines K R recv kn (work : list T) : (kn <= 16)%nat -> length work = p2 kn ->
  np2 R + K <= 2 ^ N.of_nat kn ->
  length (eval_poly (high_erasures K R recv) (np2 R + K)) = N.to_nat 65536 ->
  forall i, N.of_nat i < np2 R + K ->
  nth_error (snd (decode_high_work ops e1 K R recv work)) i = nth_error (snd (decode_high_work ops e2 K R recv work)) i.
Proof.
  intros Hk Lw Hoe Ler i Hi. unfold decode_high_work. cbv zeta. cbn [snd].
  assert (Hp : N.of_nat (p2 kn) <= 65536) by (rewrite p2_N; change 65536 with (2 ^ 16); apply N.pow_le_mono_r; lia).
  assert (Ln : N.of_nat (length work) = 2 ^ N.of_nat kn) by (rewrite Lw; apply p2_N). rewrite Ln.
  set (er := eval_poly (high_erasures K R recv) (np2 R + K)) in *.
  set (f := fun (i0 ei : N) (x : T) => if i0 <? R then mul_or_zero ops recv i0 ei x else if i0 <? np2 R then zeroT ops
              else if i0 <? np2 R + K then mul_or_zero ops recv i0 ei x else zeroT ops).
  set (w := mapi f er work).
  assert (Lww : length w = p2 kn) by (unfold w; rewrite mapi_len; [exact Lw|rewrite Ler, Lw; lia]).
  assert (Zw : forall v, (v < length w)%nat -> np2 R + K <= N.of_nat v -> nth_error w v = Some (zeroT ops)).
  { intros v Hv Hge. unfold w. rewrite mapi_nth_error by (rewrite Ler, Lw; lia).
    rewrite Lww, <- Lw in Hv. destruct (nth_error work v) as [x|] eqn:E; [|apply nth_error_None in E; lia].
    unfold f. pose proof (npow2_ge R) as G. unfold np2 in *.
    destruct (N.ltb_spec (N.of_nat v) R); [lia|]. destruct (N.ltb_spec (N.of_nat v) (npow2 R)); [lia|].
    destruct (N.ltb_spec (N.of_nat v) (npow2 R + K)); [lia|reflexivity]. }
  pose proof (transform_engines kn (np2 R + K) w Hk Lww Hoe Zw i Hi) as Tr.
  rewrite !mapi_nth_error by (rewrite transform_len by assumption; rewrite Ler; lia).
  rewrite Tr. reflexivity.
Qed.

Theorem decode_low_engines K R recv kn (work : list T) : (kn <= 16)%nat -> length work = p2 kn ->
  np2 K + R <= 2 ^ N.of_nat kn ->
  length (eval_poly (low_erasures K R recv) GF_ORDER) = N.to_nat 65536 ->
  forall i, N.of_nat i < np2 K + R ->
  nth_error (snd (decode_low_work ops e1 K R recv work)) i = nth_error (snd (decode_low_work ops e2 K R recv work)) i.
Proof.
  intros Hk Lw Hre Ler i Hi. unfold decode_low_work. cbv zeta. cbn [snd].
  assert (Hp : N.of_nat (p2 kn) <= 65536) by (rewrite p2_N; change 65536 with (2 ^ 16); apply N.pow_le_mono_r; lia).
  assert (Ln : N.of_nat (length work) = 2 ^ N.of_nat kn) by (rewrite Lw; apply p2_N). rewrite Ln.
  set (er := eval_poly (low_erasures K R recv) GF_ORDER) in *.
  set (f := fun (i0 ei : N) (x : T) => if i0 <? K then mul_or_zero ops recv i0 ei x else if i0 <? np2 K then zeroT ops
              else if i0 <? np2 K + R then mul_or_zero ops recv i0 ei x else zeroT ops).
  set (w := mapi f er work).
  assert (Lww : length w = p2 kn) by (unfold w; rewrite mapi_len; [exact Lw|rewrite Ler, Lw; lia]).
  assert (Zw : forall v, (v < length w)%nat -> np2 K + R <= N.of_nat v -> nth_error w v = Some (zeroT ops)).
  { intros v Hv Hge. unfold w. rewrite mapi_nth_error by (rewrite Ler, Lw; lia).
    rewrite Lww, <- Lw in Hv. destruct (nth_error work v) as [x|] eqn:E; [|apply nth_error_None in E; lia].
    unfold f. pose proof (npow2_ge K) as G. unfold np2 in *.
    destruct (N.ltb_spec (N.of_nat v) K); [lia|]. destruct (N.ltb_spec (N.of_nat v) (npow2 K)); [lia|].
    destruct (N.ltb_spec (N.of_nat v) (npow2 K + R)); [lia|reflexivity]. }
  pose proof (transform_engines kn (np2 K + R) w Hk Lww Hre Zw i Hi) as Tr.
  rewrite !mapi_nth_error by (rewrite transform_len by assumption; rewrite Ler; lia).
  rewrite Tr. reflexivity.
Qed.
End Generic.

(* ---------- decoder objects ---------- *)
Definition set_engine (y : decoder) (e : engine) : decoder :=
  {| d_codec := d_codec y; d_engine := e; d_rate := d_rate y; d_work := d_work y |}.

Lemma dec_make_engine c e1 e2 K R sb w :
  dec_make c e2 K R sb w = match dec_make c e1 K R sb w with inl (y, a) => inl (set_engine y e2, a) | inr err => inr err end.
Proof. unfold dec_make. destruct (validateb c K R sb); [reflexivity|]. cbv zeta. reflexivity. Qed.

Lemma dec_add_engine y e a :
  dec_add (set_engine y e) a = match dec_add y a with inl y' => inl (set_engine y' e) | inr err => inr err end.
Proof.
  destruct a as [i s|i s]; cbn [dec_add]; unfold dec_add_original, dec_add_recovery; cbn [set_engine d_work];
    destruct (_ <=? _); try reflexivity; destruct (pmem _ _); try reflexivity; destruct (negb _); reflexivity.
Qed.
Lemma dec_adds_engine : forall l y e,
  dec_adds (set_engine y e) l = match dec_adds y l with inl y' => inl (set_engine y' e) | inr err => inr err end.
Proof.
  induction l as [|a l IH]; intros y e; [reflexivity|]. cbn [dec_adds]. rewrite dec_add_engine.
  destruct (dec_add y a) as [y'|err]; [apply IH|reflexivity].
Qed.

(* geometry of every decoder the machine can produce *)
Definition dec_geo (y : decoder) : Prop :=
  let w := d_work y in
  exists kn, (kn <= 16)%nat /\ dw_wc w = 2 ^ N.of_nat kn /\
  match d_rate y with
  | High => 1 <= dw_K w /\ 1 <= dw_R w /\ npow2 (dw_R w) + dw_K w <= 65536 /\ npow2 (dw_R w) + dw_K w <= 2 ^ N.of_nat kn /\ dw_obase w = npow2 (dw_R w)
  | Low => 1 <= dw_K w /\ 1 <= dw_R w /\ npow2 (dw_K w) + dw_R w <= 65536 /\ npow2 (dw_K w) + dw_R w <= 2 ^ N.of_nat kn /\ dw_obase w = 0
  end.

Lemma dec_make_geo c e K R sb w y a : dec_make c e K R sb w = inl (y, a) -> dec_geo y.
Proof.
  unfold dec_make. destruct (validateb c K R sb) eqn:Hval; [discriminate|]. cbv zeta. unfold decwork_reset. cbv zeta.
  intros [= <- _]. unfold dec_geo. cbn.
  assert (Hs : supportsb c K R = true).
  { unfold validateb in Hval. destruct (supportsb c K R); cbn in Hval; [reflexivity|discriminate]. }
  destruct (rate_env c K R Hs) as [Hlow Hhigh].
  destruct (rate_of c K R) eqn:Er.
  - destruct (high_env K R (Hhigh eq_refl)) as (HK & HR & Henv). pose proof (npow2_ge R) as G.
    destruct (npow2_exp (npow2 R + K) ltac:(lia) Henv) as (kn & Hkn & Hnk).
    exists kn. split; [exact Hkn|]. cbn [dec_work_count]. unfold high_dec_work_count, np2. rewrite Hnk.
    split; [reflexivity|]. pose proof (npow2_ge (npow2 R + K)) as G2. repeat split; try assumption; lia.
  - destruct (low_env K R (Hlow eq_refl)) as (HK & HR & Henv). pose proof (npow2_ge K) as G.
    destruct (npow2_exp (npow2 K + R) ltac:(lia) Henv) as (kn & Hkn & Hnk).
    exists kn. split; [exact Hkn|]. cbn [dec_work_count]. unfold low_dec_work_count, np2. rewrite Hnk.
    split; [reflexivity|]. pose proof (npow2_ge (npow2 K + R)) as G2. repeat split; try assumption; lia.
Qed.
Lemma dec_add_geo y a y' : dec_geo y -> dec_add y a = inl y' -> dec_geo y'.
Proof.
  intros Hg H. destruct (add_guard (d_work y) a) eqn:G.
  - destruct (dec_add_spec y a) as [S _]. rewrite (S G) in H. inversion H; subst y'. clear H S.
    unfold dec_geo in *. destruct a; cbn in *; exact Hg.
  - destruct (dec_add_spec y a) as [_ S]. destruct (S G) as [e He']. rewrite He' in H. discriminate.
Qed.
Lemma dec_adds_geo : forall l y y', dec_geo y -> dec_adds y l = inl y' -> dec_geo y'.
Proof.
  induction l as [|a l IH]; intros y y' Hg H; cbn [dec_adds] in H; [inversion H; subst; exact Hg|].
  destruct (dec_add y a) as [y1|err] eqn:E; [|discriminate]. apply (IH y1 y' (dec_add_geo y a y1 Hg E) H).
Qed.
Lemma dec_after_round_geo y : dec_geo y -> dec_geo (dec_after_round y).
Proof. intros H. exact H. Qed.

Section Objects.
Variable junk : N -> N -> N -> N.

Theorem decode_work_engine ep y e : dec_cfg y -> dec_geo y ->
  forall i, i < dw_K (d_work y) ->
  nth_error (decode_work junk ep (set_engine y e)) (N.to_nat (dw_obase (d_work y) + i)) =
  nth_error (decode_work junk ep y) (N.to_nat (dw_obase (d_work y) + i)).
Proof.
  intros Hc (kn & Hkn & Hwc & Hgeo) i Hi. unfold decode_work. cbn [set_engine d_work d_rate d_engine].
  set (w := d_work y) in *. set (lanes := lanes_of (dw_sb w)).
  set (work := work_list junk ep (dw_mem w) (dw_wc w) lanes).
  assert (Lwork : length work = p2 kn).
  { unfold work, work_list. rewrite map_length. unfold range. rewrite rangeN_length, N.sub_0_r, Hwc.
    apply Nat2N.inj. rewrite N2Nat.id, p2_N. reflexivity. }
  pose proof (shard_ops_zero (N.to_nat lanes)) as Hz.
  destruct (d_rate y).
  - destruct Hgeo as (HK & HR & Henv & Hoe & Hob).
    destruct (npow2_exp (dw_R w) HR ltac:(pose proof (npow2_ge (dw_R w)); lia)) as (k & Hk & Hmk).
    assert (Ler : length (eval_poly (high_erasures (dw_K w) (dw_R w) (pmem (dw_received w))) (np2 (dw_R w) + dw_K w)) = N.to_nat 65536).
    { unfold np2. rewrite Hmk. apply (high_er_spec (dw_K w) (dw_R w) _ k Hmk). rewrite <- Hmk. exact Henv. }
    apply (decode_high_engines (shard_ops (N.to_nat lanes)) Hz e (d_engine y) (dw_K w) (dw_R w) _ kn work Hkn Lwork Hoe Ler).
    rewrite Hob. unfold np2. rewrite N2Nat.id. lia.
  - destruct Hgeo as (HK & HR & Henv & Hre & Hob).
    destruct (npow2_exp (dw_K w) HK ltac:(pose proof (npow2_ge (dw_K w)); lia)) as (k & Hk & Hmk).
    assert (Ler : length (eval_poly (low_erasures (dw_K w) (dw_R w) (pmem (dw_received w))) GF_ORDER) = N.to_nat 65536).
    { apply (low_er_spec (dw_K w) (dw_R w) _ k Hmk). }
    apply (decode_low_engines (shard_ops (N.to_nat lanes)) Hz e (d_engine y) (dw_K w) (dw_R w) _ kn work Hkn Lwork Hre Ler).
    rewrite Hob. unfold np2. rewrite N2Nat.id. pose proof (npow2_ge (dw_K w)). lia.
Qed.

(* what decode() returns does not depend on the engine, whatever was added *)
Theorem dec_decode_engine ep y e probes : dec_cfg y -> dec_geo y ->
  snd (dec_decode junk ep (set_engine y e) probes) = snd (dec_decode junk ep y probes).
Proof.
  intros Hc Hg. unfold dec_decode. cbn [set_engine d_work].
  destruct (_ <? _); [reflexivity|]. destruct (_ =? _); [reflexivity|]. cbn [snd].
  assert (Hr : forall i,
    (if (i <? dw_K (d_work y)) && negb (pmem (dw_received (d_work y)) (dw_obase (d_work y) + i))
     then option_map bytes_of_syms (nth_error (decode_work junk ep (set_engine y e)) (N.to_nat (dw_obase (d_work y) + i))) else None) =
    (if (i <? dw_K (d_work y)) && negb (pmem (dw_received (d_work y)) (dw_obase (d_work y) + i))
     then option_map bytes_of_syms (nth_error (decode_work junk ep y) (N.to_nat (dw_obase (d_work y) + i))) else None)).
  { intros i. destruct (N.ltb_spec i (dw_K (d_work y))) as [Hi|Hi]; [|reflexivity]. cbn [andb].
    destruct (negb _); [|reflexivity]. rewrite (decode_work_engine ep y e Hc Hg i Hi). reflexivity. }
  f_equal.
  - apply flat_map_ext. intros i. rewrite Hr. reflexivity.
  - apply map_ext. intros i. rewrite Hr. reflexivity.
Qed.
End Objects.

Lemma dec_adds_cfg : forall l y y', dec_cfg y -> dec_adds y l = inl y' -> dec_cfg y'.
Proof.
  induction l as [|a l IH]; intros y y' H0 Ha; cbn [dec_adds] in Ha; [inversion Ha; subst; exact H0|].
  destruct (dec_add y a) as [y1|err] eqn:E; [|discriminate]. apply (IH y1 y' (dec_add_cfg y a y1 H0 E) Ha).
Qed.

(* the same construction and the same accepted adds on two engines: decode() returns the same *)
Theorem ops_decode_engines junk c e1 e2 K R sb w y1 a1 adds z1 ep probes :
  dec_make c e1 K R sb w = inl (y1, a1) -> dec_adds y1 adds = inl z1 ->
  exists y2 z2, dec_make c e2 K R sb w = inl (y2, a1) /\ dec_adds y2 adds = inl z2 /\
  snd (dec_decode junk ep z2 probes) = snd (dec_decode junk ep z1 probes).
Proof.
  intros Hm Ha. exists (set_engine y1 e2), (set_engine z1 e2).
  split; [rewrite (dec_make_engine c e1 e2), Hm; reflexivity|].
  split; [rewrite dec_adds_engine, Ha; reflexivity|].
  apply dec_decode_engine.
  - apply (dec_adds_cfg adds y1 z1 (dec_make_cfg _ _ _ _ _ _ _ _ Hm) Ha).
  - apply (dec_adds_geo adds y1 z1 (dec_make_geo _ _ _ _ _ _ _ _ Hm) Ha).
Qed.
