(* C01, low rate: see DecodeBase.v *)
From Coq Require Import NArith Arith Lia Bool List Permutation.
From RS.Gen Require Import Prelude GenConsts.
From RS.Model Require Import Field Tables Sched Codec Spec.
From RS.Proofs Require Import RateFacts FieldFacts Ring Scale FftSpec SchedEquiv Trunc Lengths FftTrunc Lagrange Cauchy LchPoly DecodeBase.
Import ListNotations.
Local Open Scope N_scope.

Lemma range_split a b c : a <= b -> b <= c -> range a c = range a b ++ range b c.
Proof.
  intros H1 H2. unfold range. replace (N.to_nat (c - a)) with (N.to_nat (b - a) + N.to_nat (c - b))%nat by lia.
  generalize (N.to_nat (c - b)). intros q.
  assert (G : forall p a, rangeN a (p + q) = rangeN a p ++ rangeN (a + N.of_nat p) q).
  { induction p as [|p IH]; intros a0; cbn [rangeN Nat.add app]; [rewrite N.add_0_r; reflexivity|]. rewrite IH. do 3 f_equal. lia. }
  rewrite G. do 2 f_equal. lia.
Qed.

Section Low.
Variable e : engine.
Variables (K R : N) (recv : N -> bool).
Variables (k kn : nat).
Let m := 2 ^ N.of_nat k.
Let n := 2 ^ N.of_nat kn.
Let re := m + R.

Definition el_low (v : N) : bool :=
  if v <? K then negb (recv v) else if v <? m then false else if v <? re then negb (recv v) else true.
Definition Efull_low : list N := filter el_low (range 0 65536).
Definition En_low : list N := filter el_low (range 0 n).

Hypothesis Hm : npow2 K = m.
Hypothesis HK : 1 <= K.
Hypothesis Hkn : (kn <= 16)%nat.
Hypothesis Hre : re <= n.

Lemma n_le : n <= 65536.
Proof. unfold n. change 65536 with (2 ^ 16). apply N.pow_le_mono_r; lia. Qed.
Lemma Efull_split : Efull_low = En_low ++ range n 65536.
Proof.
  unfold Efull_low, En_low. pose proof n_le. rewrite (range_split 0 n 65536) by lia. rewrite filter_app. f_equal.
  apply filter_id. intros x Hx. unfold range in Hx. apply in_rangeN_iff in Hx. unfold el_low.
  pose proof (npow2_ge K) as G. rewrite Hm in G.
  destruct (N.ltb_spec x K); [lia|]. destruct (N.ltb_spec x m); [lia|]. destruct (N.ltb_spec x re); [lia|]. reflexivity.
Qed.
Lemma En_W16 : Forall W16 En_low.
Proof. apply filter_W16. apply Forall_forall. intros x Hx. unfold range in Hx. apply in_rangeN_iff in Hx. pose proof n_le. unfold W16. lia. Qed.
Lemma En_in v : In v En_low <-> v < n /\ el_low v = true.
Proof. unfold En_low. rewrite filter_In. unfold range. rewrite in_rangeN_iff, N2Nat.id. split; intros [H1 H2]; (split; [lia|exact H2]). Qed.
Lemma En_NoDup : NoDup En_low.
Proof. apply NoDup_filter. unfold range. apply NoDup_rangeN. Qed.

(* ---------- the theorem ---------- *)
Variable co : list N.
Variable work : list N.
Hypothesis HR : 1 <= R.
Hypothesis Henv : m + R <= 65536.
Hypothesis Hk : (k <= kn)%nat.
Hypothesis Lco : length co = p2 k.
Hypothesis Wco : Forall W16 co.
Hypothesis Lwork : length work = p2 kn.
Hypothesis Wwork : Forall W16 work.
Hypothesis Hrecv_o : forall i, i < K -> recv i = true -> nth (N.to_nat i) work 0 = lch k co i.
Hypothesis Hpad : forall i, K <= i -> i < m -> lch k co i = 0.
Hypothesis Hrecv_r : forall i, m <= i -> i < re -> recv i = true -> nth (N.to_nat i) work 0 = lch k co i.
Hypothesis Hcount : (p2 k + length En_low <= p2 kn)%nat.
Hypothesis Her : er_spec (eval_poly (low_erasures K R recv) GF_ORDER) Efull_low.

Lemma Pn : N.of_nat (p2 kn) = n. Proof. apply p2_N. Qed.
Lemma tailc : forall v, v < n -> locN (range n 65536) v = tail_const kn.
Proof. intros v Hv. apply locN_tail; assumption. Qed.

Theorem decode_low_symbols : forall i, i < K -> recv i = false ->
  nth (N.to_nat i) (snd (decode_low_work sym_ops e K R recv work)) 0 = lch k co i.
Proof.
  intros i Hi Hri.
  pose proof n_le as Hn. pose proof (npow2_ge K) as HKm. rewrite Hm in HKm.
  destruct Her as [Ler Her']. clear Her.
  destruct (tail_const_facts kn Hkn) as [Wcst Ncst]. set (cst := tail_const kn) in *.
  pose proof En_W16 as WEn. pose proof En_NoDup as NDn.
  assert (WEf : Forall W16 Efull_low).
  { apply filter_W16. apply range_W16. }
  unfold decode_low_work. cbv zeta. unfold np2. rewrite Hm. fold re. cbn [snd].
  set (er := eval_poly (low_erasures K R recv) GF_ORDER) in *. clearbody er.
  assert (Lw : N.of_nat (length work) = n) by (rewrite Lwork; apply Pn).
  rewrite Lw.
  set (w1 := mapi (fun i ei x => if i <? K then mul_or_zero sym_ops recv i ei x
                                  else if i <? m then zeroT sym_ops
                                  else if i <? re then mul_or_zero sym_ops recv i ei x else zeroT sym_ops) er work).
  assert (Hp : N.of_nat (p2 kn) <= 65536) by (rewrite Pn; exact Hn).
  assert (Ler' : (length work <= length er)%nat) by (rewrite Ler, Lwork; lia).
  assert (Lw1 : length w1 = p2 kn) by (unfold w1; rewrite mapi_length by exact Ler'; exact Lwork).
  (* (1) the values fed to the transform *)
  assert (V1 : forall v, (v < p2 kn)%nat ->
          nth v w1 0 = fmul (fmul (lch k co (N.of_nat v)) (locN En_low (N.of_nat v))) cst).
  { intros v Hv. set (vN := N.of_nat v). assert (HvN : vN < n) by (unfold vN; rewrite <- Pn; lia).
    assert (WvN : W16 vN) by (unfold W16; lia).
    unfold w1. rewrite mapi_nth by (try exact Ler'; rewrite Lwork; exact Hv). fold vN.
    assert (Wwv : W16 (nth v work 0)) by (apply nth_W16; exact Wwork).
    assert (WP : W16 (lch k co vN)) by (apply lch_W16; assumption).
    destruct (el_low vN) eqn:Eel.
    - (* erased: zero on both sides *)
      rewrite (locN_root En_low vN WEn WvN) by (apply En_in; split; assumption).
      rewrite fmul_0_r, fmul_0_l.
      unfold el_low in Eel. unfold mul_or_zero. cbn [zeroT mulT sym_ops].
      destruct (vN <? K); [apply negb_true_iff in Eel; rewrite Eel; reflexivity|].
      destruct (vN <? m); [discriminate|]. destruct (vN <? re); [apply negb_true_iff in Eel; rewrite Eel; reflexivity|reflexivity].
    - (* received or padding *)
      assert (Nin : ~ In vN Efull_low).
      { unfold Efull_low. rewrite filter_In. intros [_ H]. congruence. }
      assert (Lfull : locN' Efull_low vN = fmul (locN En_low vN) cst).
      { rewrite locN'_notin by exact Nin. rewrite Efull_split, locN_app by (try assumption; apply range_W16).
        rewrite tailc by exact HvN. reflexivity. }
      destruct (Her' vN (nth v work 0) ltac:(lia) Wwv) as [Hmul _]. unfold vN in Hmul at 1. rewrite Nat2N.id in Hmul.
      unfold el_low in Eel. unfold mul_or_zero. cbn [zeroT mulT sym_ops].
      destruct (N.ltb_spec vN K) as [H1|H1].
      + apply negb_false_iff in Eel. rewrite Eel, Hmul, Lfull.
        pose proof (Hrecv_o vN H1 Eel) as Hw. unfold vN in Hw at 1. rewrite Nat2N.id in Hw. rewrite Hw.
        symmetry. apply fmul_assoc; try assumption. apply locN_W16; assumption.
      + destruct (N.ltb_spec vN m) as [H2|H2].
        * rewrite (Hpad vN H1 H2). rewrite !fmul_0_l. reflexivity.
        * destruct (N.ltb_spec vN re) as [H3|H3]; [|discriminate].
          apply negb_false_iff in Eel. rewrite Eel, Hmul, Lfull.
          pose proof (Hrecv_r vN H2 H3 Eel) as Hw. unfold vN in Hw at 1. rewrite Nat2N.id in Hw. rewrite Hw.
          symmetry. apply fmul_assoc; try assumption. apply locN_W16; assumption. }
  assert (Ww1 : Forall W16 w1).
  { apply Forall_forall. intros x Hx. destruct (In_nth _ _ 0 Hx) as (v & Hv & <-). rewrite Lw1 in Hv. rewrite V1 by exact Hv.
    assert (W16 (N.of_nat v)) by (unfold W16; rewrite <- Pn in Hn; lia).
    repeat apply fmul_lt; try assumption; [apply lch_W16|apply locN_W16]; assumption. }
  (* (2) ifft interpolates *)
  unfold transform.
  set (c := ifft sym_ops e n re 0 w1).
  assert (Lw1' : N.of_nat (length w1) = 2 ^ N.of_nat kn) by (rewrite Lw1; apply Pn).
  assert (Lc : length c = p2 kn) by (unfold c, n; rewrite ifft_len by (try exact Lw1'; exact Hkn); exact Lw1).
  assert (Wc : Forall W16 c) by (unfold c; apply ifft_W16; exact Ww1).
  assert (Zt : forall j, (j < length w1)%nat -> re <= N.of_nat j -> nth_error w1 j = Some 0).
  { intros j Hj Hle. rewrite (nth_error_nth' _ 0 Hj). f_equal. rewrite Lw1 in Hj. rewrite V1 by exact Hj.
    assert (HjN : N.of_nat j < n) by (rewrite <- Pn; lia).
    assert (HinE : In (N.of_nat j) En_low).
    { apply En_in. split; [exact HjN|]. unfold el_low.
      destruct (N.ltb_spec (N.of_nat j) K); [lia|]. destruct (N.ltb_spec (N.of_nat j) m); [lia|].
      destruct (N.ltb_spec (N.of_nat j) re); [lia|reflexivity]. }
    rewrite (locN_root En_low (N.of_nat j) WEn ltac:(unfold W16; lia) HinE).
    rewrite fmul_0_r, fmul_0_l. reflexivity. }
  assert (Vc : forall v, (v < p2 kn)%nat -> lch kn c (N.of_nat v) = nth v w1 0).
  { intros v Hv. pose proof (ifft_interpolates e kn 0 w1 re Hkn) as I. cbv zeta in I. rewrite N.mul_0_l, !N.add_0_l in I.
    apply I; assumption. }
  (* (3) formal derivative *)
  assert (Efd : formal_derivative sym_ops c = formal_derivative_rec sym_ops kn c).
  { unfold formal_derivative. rewrite Lc, Pn. unfold n. rewrite N.log2_pow2 by lia. rewrite Nat2N.id. reflexivity. }
  rewrite Efd. set (c' := formal_derivative_rec sym_ops kn c).
  assert (Lc' : length c' = p2 kn) by (apply fdr_length; exact Lc).
  assert (Wc' : Forall W16 c') by (apply fdr_W16; exact Wc).
  (* (4) fft evaluates *)
  set (w2 := fft sym_ops e n re 0 c').
  assert (Lw2 : length w2 = p2 kn).
  { unfold w2. rewrite fft_len by (rewrite Lc'; apply Pn). exact Lc'. }
  assert (Hip : (N.to_nat i < p2 kn)%nat).
  { assert (Hi2 : i < N.of_nat (p2 kn)) by (rewrite Pn; lia). clear - Hi2. lia. }
  rewrite mapi_nth by (rewrite ?Lw2, ?Ler; lia).
  rewrite N2Nat.id. assert ((i <? K) = true) as -> by (apply N.ltb_lt; exact Hi).
  unfold reveal. rewrite Hri. cbn [mulT sym_ops].
  assert (V2 : nth (N.to_nat i) w2 0 = lch kn c' i).
  { pose proof (fft_trunc_spec e kn 0 c' re Hkn) as FS. cbv zeta in FS. rewrite N.mul_0_l, !N.add_0_l in FS. fold n in FS.
    unfold w2. rewrite FS; try assumption; try lia. rewrite N2Nat.id. reflexivity. }
  rewrite V2.
  (* (5) the core *)
  assert (Hin : In i En_low).
  { apply En_in. split; [lia|]. unfold el_low. assert ((i <? K) = true) as -> by (apply N.ltb_lt; exact Hi). rewrite Hri. reflexivity. }
  assert (Wi : W16 i) by (unfold W16; lia).
  pose proof (@decode_core k kn co En_low cst c Hkn Lco Wco WEn NDn Hcount Wcst Lc Wc
               (fun v Hv => eq_trans (Vc v Hv) (V1 v Hv)) i Hin) as Core.
  unfold c'. rewrite Core.
  (* (6) division by the locator derivative *)
  assert (Wx : W16 (fmul (fmul (lch k co i) (locN' En_low i)) cst)).
  { repeat apply fmul_lt; try assumption; [apply lch_W16; assumption|]. unfold locN'. apply locN_W16; [apply filter_W16|]; assumption. }
  destruct (Her' i _ ltac:(lia) Wx) as [_ Hdiv]. rewrite Hdiv.
  assert (Lfull' : locN' Efull_low i = fmul (locN' En_low i) cst).
  { unfold locN'. rewrite Efull_split, filter_app.
    rewrite (filter_id _ (range n 65536)).
    2:{ intros x Hx. unfold range in Hx. apply in_rangeN_iff in Hx. apply negb_true_iff, N.eqb_neq. lia. }
    rewrite locN_app by (try apply filter_W16; try assumption; apply range_W16).
    rewrite tailc by lia. reflexivity. }
  rewrite Lfull'.
  assert (WL' : W16 (locN' En_low i)) by (unfold locN'; apply locN_W16; [apply filter_W16|]; assumption).
  rewrite fmul_assoc by (try assumption; apply lch_W16; assumption).
  apply fdiv_cancel; [apply lch_W16; assumption|apply fmul_lt; assumption|].
  apply fmul_nz; try assumption. apply locN'_nz; assumption.
Qed.
End Low.
