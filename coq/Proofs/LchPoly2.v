(* Variant of the decoding core for a codeword polynomial given with 2^kn LCH coefficients of
   which the top ones vanish (high rate). *)
From mathcomp Require Import all_ssreflect all_algebra zify.
From Coq Require Import Lia.
From Coq Require Import NArith List.
From RS.Gen Require Import Prelude GenConsts.
From RS.Model Require Import Field Tables Sched Spec.
From RS.Proofs Require Import FieldFacts Ring FftSpec Lagrange GF LchPoly.

Set Implicit Arguments.
Unset Strict Implicit.
Unset Printing Implicit Defensive.
Import GRing.Theory.
Local Open Scope ring_scope.

Lemma nth_skipn0 (l : list N) : forall n i, List.nth i (skipn n l) 0%num = List.nth (n + i) l 0%num.
Proof. by elim: l => [|x l IH] [|n] i //=; case: i. Qed.
Lemma nth_firstn0 (l : list N) : forall n i, (i < n)%coq_nat -> List.nth i (firstn n l) 0%num = List.nth i l 0%num.
Proof. elim: l => [|x l IH] [|n] [|i] //= H; try lia. by apply: IH; lia. Qed.

Lemma lchp_zero k : forall c, length c = p2 k -> (forall t, (t < p2 k)%coq_nat -> List.nth t c 0%num = 0%num) -> lchp k c = 0.
Proof.
elim: k => [|k IH] c Lc Hz /=.
  by rewrite Hz ?emb0 //; rewrite /p2 /=; lia.
have P2 : p2 k.+1 = (p2 k + p2 k)%coq_nat by rewrite p2_S.
rewrite P2 in Lc Hz.
rewrite !IH ?mulr0 ?addr0 // ?firstn_length ?skipn_length; try lia.
- by move=> t Ht; rewrite nth_skipn0 Hz //; lia.
- by move=> t Ht; rewrite nth_firstn0 // Hz //; lia.
Qed.

Lemma lchp_size_top k : forall c (s : nat), length c = p2 k ->
  (forall t, (s <= t)%coq_nat -> (t < p2 k)%coq_nat -> List.nth t c 0%num = 0%num) ->
  (size (lchp k c) <= s)%nat.
Proof.
elim: k => [|k IH] c s Lc Hz.
  case: s Hz => [|s] Hz /=; last by apply: (leq_trans (size_polyC_leq1 _)).
  by rewrite Hz ?emb0 ?polyC0 ?size_poly0 //; rewrite /p2 /=; lia.
have P2 : p2 k.+1 = (p2 k + p2 k)%coq_nat by rewrite p2_S.
rewrite P2 in Lc Hz. rewrite /=.
have Llo : length (firstn (p2 k) c) = p2 k by rewrite firstn_length; lia.
have Lhi : length (skipn (p2 k) c) = p2 k by rewrite skipn_length; lia.
case: (leqP s (p2 k)) => Hs.
- rewrite (@lchp_zero k (skipn (p2 k) c)) ?mulr0 ?addr0 //.
    apply: IH => // t H1 H2; rewrite nth_firstn0 // Hz //; lia.
  move=> t Ht; rewrite nth_skipn0 Hz //; lia.
- apply: (leq_trans (size_add _ _)); rewrite geq_max; apply/andP; split.
    by apply: (leq_trans (size_lchp _ _)); rewrite -p2_expn; apply: ltnW.
  apply: (leq_trans (size_mul_leq _ _)); rewrite size_Sp -p2_expn.
  have := IH (skipn (p2 k) c) (s - p2 k)%nat Lhi.
  have H : forall t, (s - p2 k <= t)%coq_nat -> (t < p2 k)%coq_nat -> List.nth t (skipn (p2 k) c) 0%num = 0%num.
    move=> t H1 H2; rewrite nth_skipn0 Hz //; lia.
  move/(_ H) => Hsz. lia.
Qed.

Lemma decode_core2 kn cp (s : nat) L c :
  (kn <= 16)%coq_nat -> length cp = p2 kn -> Forall W16 cp ->
  (forall t, (s <= t)%coq_nat -> (t < p2 kn)%coq_nat -> List.nth t cp 0%num = 0%num) ->
  Forall W16 L -> NoDup L -> (s + length L <= p2 kn)%coq_nat -> (0 < s)%coq_nat ->
  length c = p2 kn -> Forall W16 c ->
  (forall v, (v < p2 kn)%coq_nat ->
     lch kn c (N.of_nat v) = fmul (lch kn cp (N.of_nat v)) (locN L (N.of_nat v))) ->
  forall i, In i L -> lch kn (fdr kn c) i = fmul (lch kn cp i) (locN' L i).
Proof.
move=> Hkn Lcp Wcp Htop WL ndL Hsz Hs0 Lc Wcc Hval i iL.
have Wi : W16 i by move/Forall_forall: WL; apply.
set P := lchp kn cp; set Eg := List.map emb L; set Q := P * loc Eg.
have Pn : (N.of_nat (p2 kn) <= 65536)%num.
  rewrite /p2 Nat2N.inj_pow /=; change 65536%num with (2 ^ 16)%num; apply: N.pow_le_mono_r; lia.
have szP : (size P <= s)%nat by exact: lchp_size_top.
have szQ : (size Q <= p2 kn)%nat.
  apply: (leq_trans (size_mul_leq _ _)); rewrite size_loc size_map addnS /=.
  by apply: (@leq_trans (s + length L)%nat); [rewrite leq_add2r|apply/leP].
have EQ : Q = lchp kn c.
  apply: (@interp_unique (p2 kn)) => //; first by rewrite p2_expn size_lchp.
  move=> v Hv; have Wv : W16 (N.of_nat v) by rewrite /W16; lia.
  apply: val_inj; rewrite /= [RHS]lchp_eval // gval_emb // Hval //.
  rewrite /Q !hornerM !gvalM lchp_eval // gval_emb // loc_eval -locN_emb // !gval_emb //.
  exact: locN_W16.
have uE : uniq Eg by exact: emb_uniq.
have iEg : emb i \in Eg by apply/mapP; exists i => //; apply/In_mem.
have F : (Q + Q^`()).[emb i] = P.[emb i] * \prod_(j <- Eg | j != emb i) (emb i - j).
  by rewrite /Q hornerD derivM hornerD !hornerM loc_root // loc_deriv // !(mulr0, mul0r, add0r).
move: F; rewrite EQ -lchp_fdr // => F.
have := congr1 gval F; rewrite lchp_eval ?gval_emb //; last exact: fdr_W16.
move=> ->; rewrite !gvalM lchp_eval // !gval_emb // -locN'_emb // gval_emb //.
by rewrite /locN'; apply: locN_W16 => //; exact: filter_W16.
Qed.
