(* C17 — working space is reused in place; rounds and non-growing resets never allocate.
   The model tracks, per work object, a lower bound of the capacity it owns (64-byte blocks of
   the shard buffer, bits of the received bitmap); [s_alloc] is the prediction "this call had to
   grow a buffer" which the correspondence check compares with a counting allocator.
   Partial: that Vec::resize within capacity and FixedBitSet::grow do not reallocate is the
   runtime's behaviour, observed by the check, not proved. *)
From Coq Require Import NArith Bool List.
From RS.Gen Require Import Prelude GenConsts.
From RS.Model Require Import Field Sched Codec Machine.
From RS.Proofs Require Import AllocFacts.
Import ListNotations.
Local Open Scope N_scope.

(* adding shards, encode/decode, reading and dropping results, into_parts, supports,
   validate and the one-shot bookkeeping never allocate working space *)
Theorem C17_round : forall junk s o, is_config_op o = false -> s_alloc (fst (step junk s o)) = false.
Proof. exact round_ops_no_alloc. Qed.
Print Assumptions C17_round.

(* reset allocates only when the new configuration needs more than the object holds *)
Theorem C17_reset_enc : forall junk s x K R sb,
  s_enc s = Some x -> s_alloc (fst (step junk s (EReset K R sb))) = true ->
  ew_cap (e_work x) < enc_need (rate_of (e_codec x) K R) K R sb.
Proof. exact enc_reset_alloc_only_if_needed. Qed.
Print Assumptions C17_reset_enc.

Theorem C17_reset_dec : forall junk s x K R sb,
  s_dec s = Some x -> s_alloc (fst (step junk s (DReset K R sb))) = true ->
  dw_cap (d_work x) < dec_need (rate_of (d_codec x) K R) K R sb \/
  dw_bits (d_work x) < dec_bits (rate_of (d_codec x) K R) K R.
Proof. exact dec_reset_alloc_only_if_needed. Qed.
Print Assumptions C17_reset_dec.

(* the same for working space handed to a new codec *)
Theorem C17_neww : forall junk s w c e K R sb,
  c <> CRs -> s_encwork s = Some w -> s_alloc (fst (step junk s (ENewW c e K R sb))) = true ->
  ew_cap w < enc_need (rate_of c K R) K R sb.
Proof. exact enc_neww_alloc_only_if_needed. Qed.
Print Assumptions C17_neww.

(* what is held never shrinks, and the allocation flag is exactly "need exceeds held" *)
Theorem C17_monotone : forall c e K R sb w x a, enc_make c e K R sb w = inl (x, a) ->
  ew_cap w <= ew_cap (e_work x) /\ (a = true <-> ew_cap w < enc_need (rate_of c K R) K R sb).
Proof. exact enc_make_cap. Qed.
Print Assumptions C17_monotone.

Theorem C17_monotone_dec : forall c e K R sb w x a, dec_make c e K R sb w = inl (x, a) ->
  dw_cap w <= dw_cap (d_work x) /\ dw_bits w <= dw_bits (d_work x) /\
  (a = true <-> dw_cap w < dec_need (rate_of c K R) K R sb \/ dw_bits w < dec_bits (rate_of c K R) K R).
Proof. exact dec_make_cap. Qed.
Print Assumptions C17_monotone_dec.

(* histories: once an encoder object holds working space for a configuration, then after ANY
   further calls that keep the object - rounds, resets (failed or not) to any configurations,
   decoder traffic, one-shot calls - a reset to any configuration that needs no more than what
   it held never allocates; and what the object holds never shrinks along the way *)
Theorem C17_history_enc : forall junk s ops K R sb x x',
  s_enc s = Some x -> forallb keeps_enc ops = true -> s_enc (steps junk s ops) = Some x' ->
  enc_need (rate_of (e_codec x') K R) K R sb <= ew_cap (e_work x) ->
  s_alloc (fst (step junk (steps junk s ops) (EReset K R sb))) = false.
Proof. exact enc_history_no_alloc. Qed.
Print Assumptions C17_history_enc.

Theorem C17_history_held : forall junk ops s, forallb keeps_enc ops = true ->
  enc_obj_cap s <= enc_obj_cap (steps junk s ops) /\ (s_enc s <> None -> s_enc (steps junk s ops) <> None).
Proof. exact steps_enc_cap_mono. Qed.
Print Assumptions C17_history_held.

(* [steps] is the state component of the machine's [run] *)
Theorem C17_steps_is_run : forall junk s ops, fst (run junk s ops) = steps junk s ops.
Proof. exact run_is_steps. Qed.
Print Assumptions C17_steps_is_run.

Example C17_history_example :
  let j := fun _ _ _ : N => 0 in
  let s1 := fst (step j init (ENew CHigh NoSimd 5 3 128)) in
  let ops := [EReset 3 2 64; EAdd (repeat 1 64); EReset 0 0 0; Supports CLow 2 2; EReset 2 1 2] in
  let s2 := steps j s1 ops in
  (forallb keeps_enc ops, s_alloc (fst (step j s2 (EReset 5 3 128))), s_alloc (fst (step j s2 (EReset 9 3 128))))
  = (true, false, true).
Proof. vm_compute. reflexivity. Qed.

(* the decoder, with the pair (blocks of the shard buffer, bits of the received bitmap) *)
Theorem C17_history_dec : forall junk s ops K R sb x x',
  s_dec s = Some x -> forallb keeps_dec ops = true -> s_dec (steps junk s ops) = Some x' ->
  dec_need (rate_of (d_codec x') K R) K R sb <= dw_cap (d_work x) ->
  dec_bits (rate_of (d_codec x') K R) K R <= dw_bits (d_work x) ->
  s_alloc (fst (step junk (steps junk s ops) (DReset K R sb))) = false.
Proof. exact dec_history_no_alloc. Qed.
Print Assumptions C17_history_dec.

Theorem C17_history_held_dec : forall junk ops s, forallb keeps_dec ops = true ->
  dec_obj_cap s <= dec_obj_cap (steps junk s ops) /\ dec_obj_bits s <= dec_obj_bits (steps junk s ops).
Proof. exact steps_dec_cap_mono. Qed.
Print Assumptions C17_history_held_dec.

Example C17_history_dec_example :
  let j := fun _ _ _ : N => 0 in
  let s1 := fst (step j init (DNew CLow NoSimd 5 3 128)) in
  let ops := [DReset 3 2 64; DAddO 0 (repeat 1 64); DReset 0 0 0; EParts; DReset 2 1 2] in
  let s2 := steps j s1 ops in
  (forallb keeps_dec ops, s_alloc (fst (step j s2 (DReset 5 3 128))), s_alloc (fst (step j s2 (DReset 9 3 128))))
  = (true, false, true).
Proof. vm_compute. reflexivity. Qed.

Example C17_example :
  let j := fun _ _ _ : N => 0 in
  let s1 := fst (step j init (ENew CHigh NoSimd 5 3 128)) in
  let s2 := fst (step j s1 (EReset 3 2 64)) in
  let s3 := fst (step j s2 (EReset 9 3 128)) in
  (s_alloc s1, s_alloc s2, s_alloc s3) = (true, false, true).
Proof. vm_compute. reflexivity. Qed.
