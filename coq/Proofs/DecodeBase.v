(* C01, low rate: the decoder restores every missing original, for every configuration of the
   envelope, every engine schedule, every set of received shards with at least original_count
   members and every content.  Symbol level; the erasure-locator values [er] are characterised
   by er_spec (discharged for eval_poly in Walsh.v). *)
From Coq Require Import NArith Arith Lia Bool List Permutation.
From RS.Gen Require Import Prelude GenConsts.
From RS.Model Require Import Field Tables Sched Codec Spec.
From RS.Proofs Require Import RateFacts FieldFacts Ring Scale FftSpec SchedEquiv Trunc Lengths FftTrunc Lagrange Cauchy LchPoly.
Import ListNotations.
Local Open Scope N_scope.

(* ---------- list helpers ---------- *)
Lemma nth_combine {A B} (da : A) (db : B) : forall (a : list A) (b : list B) i, (i < length a)%nat -> (i < length b)%nat ->
  nth i (combine a b) (da, db) = (nth i a da, nth i b db).
Proof.
  induction a as [|x a IH]; intros [|y b] i Ha Hb; cbn in *; try lia. destruct i; [reflexivity|]. apply IH; lia.
Qed.
Lemma mapi_nth (f : N -> N -> N -> N) er l v : (v < length l)%nat -> (length l <= length er)%nat ->
  nth v (mapi f er l) 0 = f (N.of_nat v) (nth v er 0) (nth v l 0).
Proof.
  intros Hv Hl. unfold mapi.
  assert (Lr : length (range 0 (N.of_nat (length l))) = length l).
  { unfold range. rewrite rangeN_length. lia. }
  rewrite (nth_map_lt _ ((0, 0), 0)).
  2:{ rewrite !combine_length, Lr. lia. }
  rewrite (nth_combine (0, 0) 0) by (rewrite ?combine_length, ?Lr; lia).
  rewrite (nth_combine 0 0) by (rewrite ?Lr; lia). cbn [fst snd].
  unfold range. rewrite nth_rangeN by lia. rewrite N.add_0_l. reflexivity.
Qed.
Lemma mapi_length (f : N -> N -> N -> N) er l : (length l <= length er)%nat -> length (mapi f er l) = length l.
Proof.
  intros H. unfold mapi. rewrite map_length, !combine_length. unfold range. rewrite rangeN_length. lia.
Qed.

(* ---------- locator products ---------- *)
Lemma locN_app A B v : Forall W16 A -> Forall W16 B -> W16 v -> locN (A ++ B) v = fmul (locN A v) (locN B v).
Proof.
  intros WA WB Wv. induction WA as [|j A Wj WA IH]; cbn [app locN fold_right].
  - fold (locN B v). rewrite fmul_comm, fmul_1_r; try apply W16_1; try apply locN_W16; auto.
  - fold (locN (A ++ B) v). fold (locN A v). rewrite IH. symmetry. apply fmul_assoc; try apply locN_W16; auto. apply W16_lxor; assumption.
Qed.
Lemma prod_perm (l l' : list N) : Permutation l l' -> Forall W16 l ->
  fold_right fmul 1 l = fold_right fmul 1 l' /\ Forall W16 l'.
Proof.
  induction 1 as [|x l l' P IH|x y l|l l' l'' P1 IH1 P2 IH2]; intros W.
  - split; [reflexivity|constructor].
  - inversion W; subst. destruct (IH H2) as [E W']. split; [cbn; rewrite E; reflexivity|constructor; assumption].
  - inversion W as [|? ? Wy W1]; subst. inversion W1 as [|? ? Wx W2]; subst. split; [|repeat constructor; assumption].
    cbn. assert (Wr : W16 (fold_right fmul 1 l)).
    { clear -W2. induction W2; cbn; [apply W16_1|apply fmul_lt; assumption]. }
    rewrite <- !fmul_assoc by assumption. f_equal. apply fmul_comm; assumption.
  - destruct (IH1 W) as [E1 W1]. destruct (IH2 W1) as [E2 W2]. split; [congruence|assumption].
Qed.
Lemma locN_as_prod L v : locN L v = fold_right fmul 1 (map (N.lxor v) L).
Proof. induction L as [|j L IH]; cbn; [reflexivity|]. fold (locN L v). rewrite IH. reflexivity. Qed.

(* xor with v < 2^k permutes [2^k * a, 2^k * a + cnt) blocks; we need it for the tail [n, 65536) *)
Lemma in_rangeN_iff i n : forall a, In i (rangeN a n) <-> a <= i < a + N.of_nat n.
Proof.
  induction n as [|n IH]; intros a; cbn [rangeN In]; [split; [tauto|lia]|].
  rewrite IH. split; [intros [->|H]; lia|intros H; destruct (N.eq_dec a i); [left; assumption|right; lia]].
Qed.
Lemma NoDup_rangeN n : forall a, NoDup (rangeN a n).
Proof.
  induction n as [|n IH]; intros a; cbn [rangeN]; constructor; [|apply IH].
  rewrite in_rangeN_iff. lia.
Qed.
Lemma tail_xor_perm kn v : (kn <= 16)%nat -> v < 2 ^ N.of_nat kn ->
  Permutation (map (N.lxor v) (range (2 ^ N.of_nat kn) 65536)) (range (2 ^ N.of_nat kn) 65536).
Proof.
  intros Hk Hv. set (n := 2 ^ N.of_nat kn) in *.
  assert (Hn : n <= 65536) by (unfold n; change 65536 with (2 ^ 16); apply N.pow_le_mono_r; lia).
  assert (Hin : forall x, In x (range n 65536) <-> n <= x < 65536).
  { intros x. unfold range. rewrite in_rangeN_iff, N2Nat.id. lia. }
  assert (Hx : forall x, n <= x < 65536 -> n <= N.lxor v x < 65536).
  { intros x [H1 H2]. split.
    - destruct (N.lt_ge_cases (N.lxor v x) n) as [Hc|Hc]; [|exact Hc]. exfalso.
      apply lt_shiftr in Hc. apply lt_shiftr in Hv. rewrite N.shiftr_lxor, Hv, N.lxor_0_l in Hc. apply lt_shiftr in Hc. unfold n in *. lia.
    - apply W16_lxor; unfold W16; lia. }
  apply NoDup_Permutation.
  - apply FinFun.Injective_map_NoDup; [|unfold range; apply NoDup_rangeN].
    intros a b E. apply (f_equal (N.lxor v)) in E. rewrite <- !N.lxor_assoc, N.lxor_nilpotent, !N.lxor_0_l in E. exact E.
  - unfold range. apply NoDup_rangeN.
  - intros x. rewrite in_map_iff, Hin. split.
    + intros (y & <- & Hy). apply Hx, Hin, Hy.
    + intros Hxx. exists (N.lxor v x). split; [rewrite <- N.lxor_assoc, N.lxor_nilpotent, N.lxor_0_l; reflexivity|].
      apply Hin, Hx, Hxx.
Qed.
Lemma range_W16 a : Forall W16 (range a 65536).
Proof. apply Forall_forall. intros x Hx. unfold range in Hx. apply in_rangeN_iff in Hx. unfold W16. lia. Qed.

(* the locator of the tail [n, 65536) is the same constant at every point of V_kn *)
Definition tail_const (kn : nat) : N := fold_right fmul 1 (range (2 ^ N.of_nat kn) 65536).
Lemma locN_tail kn v : (kn <= 16)%nat -> v < 2 ^ N.of_nat kn -> locN (range (2 ^ N.of_nat kn) 65536) v = tail_const kn.
Proof.
  intros Hk Hv. rewrite locN_as_prod. unfold tail_const.
  assert (Wv : W16 v).
  { unfold W16. assert (2 ^ N.of_nat kn <= 2 ^ 16) by (apply N.pow_le_mono_r; lia). change (2 ^ 16) with 65536 in *. lia. }
  apply prod_perm; [apply tail_xor_perm; assumption|].
  apply Forall_forall. intros x Hx. apply in_map_iff in Hx. destruct Hx as (y & <- & Hy).
  apply W16_lxor; [exact Wv|]. pose proof (range_W16 (2 ^ N.of_nat kn)) as R. rewrite Forall_forall in R. auto.
Qed.
Lemma tail_const_facts kn : (kn <= 16)%nat -> W16 (tail_const kn) /\ tail_const kn <> 0.
Proof.
  intros Hk.
  assert (H : forallb (fun kn => (tail_const kn <? 65536) && negb (tail_const kn =? 0)) (seq 0 17) = true) by (vm_compute; reflexivity).
  rewrite forallb_forall in H. specialize (H kn ltac:(apply in_seq; lia)).
  apply andb_prop in H. destruct H as [H1 H2]. apply N.ltb_lt in H1. apply negb_true_iff in H2. apply N.eqb_neq in H2. split; assumption.
Qed.

(* ---------- field facts at symbol level ---------- *)
Lemma fmul_finv b : W16 b -> b <> 0 -> fmul b (finv b) = 1.
Proof. intros Wb Nb. rewrite <- fdiv_fmul by exact Wb. apply fdiv_self; assumption. Qed.
Lemma fmul_nz a b : W16 a -> W16 b -> a <> 0 -> b <> 0 -> fmul a b <> 0.
Proof.
  intros Wa Wb Na Nb E. apply Na.
  rewrite <- (fmul_1_r a Wa), <- (fmul_finv b Wb Nb), <- fmul_assoc by (try assumption; apply finv_W16).
  rewrite E. apply fmul_0_l.
Qed.
Lemma fdiv_cancel a b : W16 a -> W16 b -> b <> 0 -> fdiv (fmul a b) b = a.
Proof.
  intros Wa Wb Nb. rewrite fdiv_fmul by (apply fmul_lt; assumption).
  rewrite fmul_assoc by (try assumption; apply finv_W16). rewrite fmul_finv by assumption. apply fmul_1_r. exact Wa.
Qed.
Lemma locN_root L v : Forall W16 L -> W16 v -> In v L -> locN L v = 0.
Proof.
  intros WL Wv. induction WL as [|j L Wj WL IH]; intros Hin; [contradiction|]. cbn [locN fold_right]. fold (locN L v).
  destruct Hin as [->|Hin]; [rewrite N.lxor_nilpotent; apply fmul_0_l|]. rewrite IH by exact Hin. apply fmul_0_r.
Qed.
Lemma locN_nz L v : Forall W16 L -> W16 v -> ~ In v L -> locN L v <> 0.
Proof.
  intros WL Wv. induction WL as [|j L Wj WL IH]; intros Hin; cbn [locN fold_right]; [discriminate|]. fold (locN L v).
  apply fmul_nz; [apply W16_lxor; assumption|apply locN_W16; assumption| |apply IH; intros H; apply Hin; right; exact H].
  intros E. apply N.lxor_eq in E. apply Hin. left. symmetry. exact E.
Qed.
Lemma filter_id {A} (f : A -> bool) l : (forall x, In x l -> f x = true) -> filter f l = l.
Proof. induction l as [|x l IH]; intros H; cbn; [reflexivity|]. rewrite (H x (or_introl eq_refl)). f_equal. apply IH. intros y Hy. apply H. right. exact Hy. Qed.
Lemma locN'_notin L v : ~ In v L -> locN' L v = locN L v.
Proof.
  intros H. unfold locN'. rewrite filter_id; [reflexivity|]. intros x Hx. apply negb_true_iff, N.eqb_neq. intros ->. contradiction.
Qed.
Lemma locN'_nz L i : Forall W16 L -> W16 i -> locN' L i <> 0.
Proof.
  intros WL Wi. unfold locN'. apply locN_nz; [apply filter_W16; exact WL|exact Wi|].
  intros H. apply filter_In in H. destruct H as [_ H]. rewrite N.eqb_refl in H. discriminate.
Qed.

(* what the decoder needs from the erasure-locator evaluation *)
Definition er_spec (er Efull : list N) : Prop :=
  length er = N.to_nat 65536 /\
  forall v x, v < 65536 -> W16 x ->
    mul x (nth (N.to_nat v) er 0) = fmul x (locN' Efull v) /\
    mul x (GF_MODULUS - nth (N.to_nat v) er 0) = fdiv x (locN' Efull v).

