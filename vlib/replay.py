# replay of a recorded violation: re-runs the recorded case(s) on the current implementation and model
import os
from .core import *

def replay(r):
    lines = [r[k] for k in ('case', 'case_a', 'case_b', 'filtered_case', 'fresh_case', 'streaming_case', 'full_case') if k in r and isinstance(r[k], str)]
    lines += [x for x in r.get('cases', []) if isinstance(x, str)]
    if 'cmd' in r:
        rc, out = sh([rsh('release')] + r['cmd'].split()[1:], timeout=600)
        print(out)
    if not lines:
        return 0
    cases = []
    for n, l in enumerate(lines):
        toks = l.split(' ', 1)
        cases.append(Case('r%d' % n, toks[1].split(' ; ')))
    env_poison = int(r.get('poison_seed', 0) or 0)
    for prof in ('release', 'debug'):
        res = run_cases('impl', cases, 'replay', profile=prof, poison=env_poison)
        for c in cases:
            for k, (op, out) in enumerate(zip(c.ops, res.get(c.id, []))):
                print('[impl %s] %s #%d %s -> %s' % (prof, c.id, k, op[:100], (out or '')[:300]))
    if os.path.exists(DRIVER):
        res = run_cases('model', cases, 'replay', adm=True)
        for c in cases:
            for k, (op, out) in enumerate(zip(c.ops, res.get(c.id, []))):
                print('[model] %s #%d %s -> %s' % (c.id, k, op[:100], (out or '')[:300]))
    return 0
