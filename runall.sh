#!/bin/bash
# run every check once (development helper)
cd /verif
for p in ${@:-C01 C02 C03 C04 C05 C06 C07 C08 C09 C10 C11 C12 C13 C14 C15 C16 C17}; do
  s=$(date +%s); ./check $p --tier ${TIER:-quick} > build/log_$p.txt 2>&1; rc=$?; e=$(date +%s)
  echo "$p rc=$rc $((e-s))s $(grep -c VIOLATION build/log_$p.txt) violations"
done
